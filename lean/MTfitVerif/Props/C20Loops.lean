import MTfitVerif.Model.PyxSpec
import MTfitVerif.Real.PyxLoopLemmas
/-
  C20L — the translated station loops of the compiled likelihood kernels (`Id.run do` blocks of `Model/PyxKernels.lean`)
  compute the loop-free specification of `Model/PyxSpec.lean`, for every scalar type.
-/
set_option linter.unusedVariables false
namespace MTfitVerif.C20
open MTfitVerif MTfitVerif.PyxSpec MTfitVerif.PyxLoop
variable {α : Type} [Add α] [Sub α] [Mul α] [Div α] [Neg α] [Flt α]

/-! ### the station loops (nested `for` with an early `return`) -/

/-- C20L item 1: the manual-polarity station loop adds the station terms `log pol_pdf(Σ_k a[u,v,k]·mt[k,w], …)` to cell
    `index`, stopping after the first station at which the cell reads `-inf`.  No hypothesis on `index`: out of bounds both
    sides are `lnP`. -/
theorem station_polarity_ln_pdf_eq (a mt lnP sigma ipp : Array α) (ipmax v umax vmax kmax wmax w index : Nat) :
    Pyx.cprobability.station_polarity_ln_pdf a mt lnP sigma ipp ipmax v umax vmax kmax wmax w index
      = lnP.setIfInBounds index
          (accumulate (polTerm a mt sigma ipp ipmax v vmax kmax wmax w) umax 0 (lnP.getD index (c 0))) := by
  unfold Pyx.cprobability.station_polarity_ln_pdf
  refine (run_bind_eq _ _ result (fun s => ?_)).trans ?_
  · rcases s with ⟨_ | q, P, r⟩ <;> rfl
  apply forIn_station
  intro u o P r
  have h1 : (List.foldl (fun (s : α × Nat) k =>
      (s.fst + a.getD (u * vmax * kmax + v * kmax + k) (c 0) * mt.getD (k * wmax + w) (c 0), k))
      (c 0, r.snd.snd) (List.range kmax)).fst = amp a mt vmax kmax wmax u v w :=
    foldl_pair_fst (List.range kmax) (fun x k => x + at3 a vmax kmax u v k * at2 mt wmax k w) (fun _ k => k) (c 0) r.2.2
  simp only [forIn_range_yield, pure_bind, h1]
  by_cases hip : (ipmax == 1) = true <;>
    simp only [hip, polTerm, if_true, if_false, Bool.false_eq_true, negInf] <;> exact ⟨_, rfl⟩

/-- C20L item 2: the same for the polarity-probability station loop -/
theorem station_polarity_probability_ln_pdf_eq (a mt lnP pos neg ipp : Array α)
    (ipmax v umax vmax kmax wmax w index : Nat) :
    Pyx.cprobability.station_polarity_probability_ln_pdf a mt lnP pos neg ipp ipmax v umax vmax kmax wmax w index
      = lnP.setIfInBounds index
          (accumulate (polProbTerm a mt pos neg ipp ipmax v vmax kmax wmax w) umax 0 (lnP.getD index (c 0))) := by
  unfold Pyx.cprobability.station_polarity_probability_ln_pdf
  refine (run_bind_eq _ _ result (fun s => ?_)).trans ?_
  · rcases s with ⟨_ | q, P, r⟩ <;> rfl
  apply forIn_station
  intro u o P r
  have h1 : (List.foldl (fun (s : α × Nat) k =>
      (s.fst + a.getD (u * vmax * kmax + v * kmax + k) (c 0) * mt.getD (k * wmax + w) (c 0), k))
      (c 0, r.snd.snd) (List.range kmax)).fst = amp a mt vmax kmax wmax u v w :=
    foldl_pair_fst (List.range kmax) (fun x k => x + at3 a vmax kmax u v k * at2 mt wmax k w) (fun _ k => k) (c 0) r.2.2
  simp only [forIn_range_yield, pure_bind, h1]
  by_cases hip : (ipmax == 1) = true <;>
    simp only [hip, polProbTerm, if_true, if_false, Bool.false_eq_true, negInf] <;> exact ⟨_, rfl⟩

/-- C20L item 3: the same for the amplitude-ratio station loop (two inner accumulators) -/
theorem station_ar_ln_pdf_eq (ax ay mt lnP z psx psy : Array α) (v umax vmax kmax wmax w index : Nat) :
    Pyx.cprobability.station_ar_ln_pdf ax ay mt lnP z psx psy v umax vmax kmax wmax w index
      = lnP.setIfInBounds index
          (accumulate (arTerm ax ay mt z psx psy v vmax kmax wmax w) umax 0 (lnP.getD index (c 0))) := by
  unfold Pyx.cprobability.station_ar_ln_pdf
  refine (run_bind_eq _ _ result (fun s => ?_)).trans ?_
  · rcases s with ⟨_ | q, P, r⟩ <;> rfl
  apply forIn_station
  intro u o P r
  have h := foldl_triple (List.range kmax) (fun x k => x + at3 ax vmax kmax u v k * at2 mt wmax k w)
    (fun y k => y + at3 ay vmax kmax u v k * at2 mt wmax k w) (fun _ k => k) (c 0) (c 0) r.2.2.2
  have h1 : (List.foldl (fun (s : α × α × Nat) k =>
      (s.fst + ax.getD (u * vmax * kmax + v * kmax + k) (c 0) * mt.getD (k * wmax + w) (c 0),
        s.snd.fst + ay.getD (u * vmax * kmax + v * kmax + k) (c 0) * mt.getD (k * wmax + w) (c 0), k))
      (c 0, c 0, r.snd.snd.snd) (List.range kmax)).fst = amp ax mt vmax kmax wmax u v w := h.1
  have h2 : (List.foldl (fun (s : α × α × Nat) k =>
      (s.fst + ax.getD (u * vmax * kmax + v * kmax + k) (c 0) * mt.getD (k * wmax + w) (c 0),
        s.snd.fst + ay.getD (u * vmax * kmax + v * kmax + k) (c 0) * mt.getD (k * wmax + w) (c 0), k))
      (c 0, c 0, r.snd.snd.snd) (List.range kmax)).snd.fst = amp ay mt vmax kmax wmax u v w := h.2
  simp only [forIn_range_yield, pure_bind, h1, h2, arTerm, negInf]
  exact ⟨_, rfl⟩

/-! ### the kernels that call the station loops, un-marginalised (`marginalised = 0`) -/

/-- value of cell `[v, w]` after the manual-polarity kernel -/
def polCell (a_arr mt sigma_arr ipp lsm : Array α) (ipmax umax vmax kmax wmax v w : Nat) : α :=
  accumulate (polTerm a_arr mt sigma_arr ipp ipmax v vmax kmax wmax w) umax 0 (lsm.getD v (c 0))

/-- both results of the un-marginalised kernel: every cell `[v, w]` overwritten (in the code's order) with the station loop's
    value, the location-sample buffer untouched -/
theorem c_polarity_ln_pdf_unmarginalised (ln_P a_arr mt sigma_arr ipp lpls lsm : Array α)
    (umax vmax kmax mt_s0 wmax sigma_s0 ipmax : Nat) :
    Pyx.cprobability.c_polarity_ln_pdf ln_P a_arr umax vmax kmax mt mt_s0 wmax sigma_arr sigma_s0 ipp ipmax 0 lpls lsm
      = (fillCells (polCell a_arr mt sigma_arr ipp lsm ipmax umax vmax kmax wmax) vmax wmax ln_P, lpls) := by
  unfold Pyx.cprobability.c_polarity_ln_pdf
  simp only [Nat.lt_irrefl, gt_iff_lt, decide_false, Bool.false_eq_true, if_false, forIn_range_yield, pure_bind,
    bind_pure_comp, map_pure, Id.run_pure, station_polarity_ln_pdf_eq, set_set_accumulate]
  congr 1
  · refine foldl_sim_fst (List.range wmax) (fun (P : Array α) w => (List.range vmax).foldl
      (fun (P : Array α) v => P.setIfInBounds (v * wmax + w) (polCell a_arr mt sigma_arr ipp lsm ipmax umax vmax kmax wmax v w)) P)
      (fun _ => True) ?_ trivial
    intro s w _ _
    refine ⟨?_, trivial⟩
    exact foldl_sim_fst (List.range vmax) _ (fun _ => True) (fun s v _ _ => ⟨rfl, trivial⟩) trivial
  · refine (foldl_sim_snd_fst (List.range wmax) (fun L _ => L) (fun _ => True) ?_ trivial).trans (foldl_keep _ _)
    intro s w _ _
    exact ⟨rfl, trivial⟩

/-- C20L item 4: with `marginalised = 0` and room for the `vmax × wmax` cells, cell `[v, w]` of the first result of the
    manual-polarity kernel is the station loop's value started from the location-sample multiplier.  (The size parameters
    of the kernel are named after what the code copies them into: `umax = a_arr_s0`, `vmax = a_arr_s1`, `kmax = a_arr_s2`,
    `wmax = mt_s1`, `ipmax = incorrect_polarity_prob_arr_s0`.) -/
theorem c_polarity_ln_pdf_eq_unmarginalised (ln_P a_arr mt sigma_arr ipp lpls lsm : Array α)
    (umax vmax kmax mt_s0 wmax sigma_s0 ipmax : Nat) (hsize : vmax * wmax ≤ ln_P.size)
    {v w : Nat} (hv : v < vmax) (hw : w < wmax) :
    (Pyx.cprobability.c_polarity_ln_pdf ln_P a_arr umax vmax kmax mt mt_s0 wmax sigma_arr sigma_s0 ipp ipmax 0
        lpls lsm).1.getD (v * wmax + w) (c 0)
      = accumulate (polTerm a_arr mt sigma_arr ipp ipmax v vmax kmax wmax w) umax 0 (lsm.getD v (c 0)) := by
  rw [c_polarity_ln_pdf_unmarginalised]
  exact getD_fillCells _ vmax wmax ln_P (c 0) hsize hv hw

/-- value of cell `[v, w]` after the polarity-probability kernel -/
def polProbCell (a_arr mt pos neg ipp lsm : Array α) (ipmax umax vmax kmax wmax v w : Nat) : α :=
  accumulate (polProbTerm a_arr mt pos neg ipp ipmax v vmax kmax wmax w) umax 0 (lsm.getD v (c 0))

theorem c_polarity_probability_ln_pdf_unmarginalised (ln_P a_arr mt pos neg ipp lpls lsm : Array α)
    (umax vmax kmax mt_s0 wmax pos_s0 neg_s0 ipmax : Nat) :
    Pyx.cprobability.c_polarity_probability_ln_pdf ln_P a_arr umax vmax kmax mt mt_s0 wmax pos pos_s0 neg neg_s0 ipp ipmax
        0 lpls lsm
      = (fillCells (polProbCell a_arr mt pos neg ipp lsm ipmax umax vmax kmax wmax) vmax wmax ln_P, lpls) := by
  unfold Pyx.cprobability.c_polarity_probability_ln_pdf
  simp only [Nat.lt_irrefl, gt_iff_lt, decide_false, Bool.false_eq_true, if_false, forIn_range_yield, pure_bind,
    bind_pure_comp, map_pure, Id.run_pure, station_polarity_probability_ln_pdf_eq, set_set_accumulate]
  congr 1
  · refine foldl_sim_fst (List.range wmax) (fun (P : Array α) w => (List.range vmax).foldl
      (fun (P : Array α) v => P.setIfInBounds (v * wmax + w)
        (polProbCell a_arr mt pos neg ipp lsm ipmax umax vmax kmax wmax v w)) P)
      (fun _ => True) ?_ trivial
    intro s w _ _
    refine ⟨?_, trivial⟩
    exact foldl_sim_fst (List.range vmax) _ (fun _ => True) (fun s v _ _ => ⟨rfl, trivial⟩) trivial
  · refine (foldl_sim_snd_fst (List.range wmax) (fun L _ => L) (fun _ => True) ?_ trivial).trans (foldl_keep _ _)
    intro s w _ _
    exact ⟨rfl, trivial⟩

theorem c_polarity_probability_ln_pdf_eq_unmarginalised (ln_P a_arr mt pos neg ipp lpls lsm : Array α)
    (umax vmax kmax mt_s0 wmax pos_s0 neg_s0 ipmax : Nat) (hsize : vmax * wmax ≤ ln_P.size)
    {v w : Nat} (hv : v < vmax) (hw : w < wmax) :
    (Pyx.cprobability.c_polarity_probability_ln_pdf ln_P a_arr umax vmax kmax mt mt_s0 wmax pos pos_s0 neg neg_s0 ipp
        ipmax 0 lpls lsm).1.getD (v * wmax + w) (c 0)
      = accumulate (polProbTerm a_arr mt pos neg ipp ipmax v vmax kmax wmax w) umax 0 (lsm.getD v (c 0)) := by
  rw [c_polarity_probability_ln_pdf_unmarginalised]
  exact getD_fillCells _ vmax wmax ln_P (c 0) hsize hv hw

/-- value of cell `[v, w]` after the amplitude-ratio kernel -/
def arCell (ax ay mt z psx psy lsm : Array α) (umax vmax kmax wmax v w : Nat) : α :=
  accumulate (arTerm ax ay mt z psx psy v vmax kmax wmax w) umax 0 (lsm.getD v (c 0))

theorem c_amplitude_ratio_ln_pdf_unmarginalised (ln_P z mt ax ay psx psy lpls lsm : Array α)
    (z_s0 mt_s0 wmax umax vmax kmax ay_s0 ay_s1 ay_s2 psx_s0 psy_s0 : Nat) :
    Pyx.cprobability.c_amplitude_ratio_ln_pdf ln_P z z_s0 mt mt_s0 wmax ax umax vmax kmax ay ay_s0 ay_s1 ay_s2
        psx psx_s0 psy psy_s0 0 lpls lsm
      = (fillCells (arCell ax ay mt z psx psy lsm umax vmax kmax wmax) vmax wmax ln_P, lpls) := by
  unfold Pyx.cprobability.c_amplitude_ratio_ln_pdf
  simp only [Nat.lt_irrefl, gt_iff_lt, decide_false, Bool.false_eq_true, if_false, forIn_range_yield, pure_bind,
    bind_pure_comp, map_pure, Id.run_pure, station_ar_ln_pdf_eq, set_set_accumulate]
  congr 1
  · refine foldl_sim_fst (List.range wmax) (fun (P : Array α) w => (List.range vmax).foldl
      (fun (P : Array α) v => P.setIfInBounds (v * wmax + w) (arCell ax ay mt z psx psy lsm umax vmax kmax wmax v w)) P)
      (fun _ => True) ?_ trivial
    intro s w _ _
    refine ⟨?_, trivial⟩
    exact foldl_sim_fst (List.range vmax) _ (fun _ => True) (fun s v _ _ => ⟨rfl, trivial⟩) trivial
  · refine (foldl_sim_snd_fst (List.range wmax) (fun L _ => L) (fun _ => True) ?_ trivial).trans (foldl_keep _ _)
    intro s w _ _
    exact ⟨rfl, trivial⟩

theorem c_amplitude_ratio_ln_pdf_eq_unmarginalised (ln_P z mt ax ay psx psy lpls lsm : Array α)
    (z_s0 mt_s0 wmax umax vmax kmax ay_s0 ay_s1 ay_s2 psx_s0 psy_s0 : Nat) (hsize : vmax * wmax ≤ ln_P.size)
    {v w : Nat} (hv : v < vmax) (hw : w < wmax) :
    (Pyx.cprobability.c_amplitude_ratio_ln_pdf ln_P z z_s0 mt mt_s0 wmax ax umax vmax kmax ay ay_s0 ay_s1 ay_s2
        psx psx_s0 psy psy_s0 0 lpls lsm).1.getD (v * wmax + w) (c 0)
      = accumulate (arTerm ax ay mt z psx psy v vmax kmax wmax w) umax 0 (lsm.getD v (c 0)) := by
  rw [c_amplitude_ratio_ln_pdf_unmarginalised]
  exact getD_fillCells _ vmax wmax ln_P (c 0) hsize hv hw

/-! ### the kernels that call the station loops, marginalised over the location samples (`marginalised > 0`) -/

/-- the first result of the marginalised kernel, as a fold that writes cell `w` for `w = 0, …, wmax - 1` -/
theorem c_polarity_ln_pdf_marginalised (ln_P a_arr mt sigma_arr ipp lpls lsm : Array α)
    (umax vmax kmax mt_s0 wmax sigma_s0 ipmax marg : Nat) (hm : 0 < marg) (hL : vmax ≤ lpls.size) :
    (Pyx.cprobability.c_polarity_ln_pdf ln_P a_arr umax vmax kmax mt mt_s0 wmax sigma_arr sigma_s0 ipp ipmax marg lpls lsm).1
      = (List.range wmax).foldl (fun (P : Array α) w => P.setIfInBounds w
          (margCell (fun v => polCell a_arr mt sigma_arr ipp lsm ipmax umax vmax kmax wmax v w) vmax)) ln_P := by
  unfold Pyx.cprobability.c_polarity_ln_pdf
  simp only [hm, decide_true, if_true, forIn_range_yield, bind_pure_comp, map_pure, Id.run_pure,
    station_polarity_ln_pdf_eq, set_set_accumulate, ite_pure_yield]
  refine foldl_sim_fst (List.range wmax) _ (fun s => vmax ≤ s.2.1.size) ?_ hL
  intro s w _ hInv
  -- first inner loop: fill the location-sample buffer, track the maximum
  generalize hS1 : List.foldl _ (s.snd.fst, (-(c 1 / c 0) : α), s.snd.snd.snd.fst) (List.range vmax) = S1
  have h1 : S1.1 = (List.range vmax).foldl (fun (L : Array α) v => L.setIfInBounds v
      (polCell a_arr mt sigma_arr ipp lsm ipmax umax vmax kmax wmax v w)) s.2.1 := by
    rw [← hS1]
    exact foldl_sim_fst (List.range vmax) _ (fun _ => True) (fun s v _ _ => ⟨rfl, trivial⟩) trivial
  have h2 : S1.2.1 = margMax (fun v => polCell a_arr mt sigma_arr ipp lsm ipmax umax vmax kmax wmax v w) vmax := by
    rw [← hS1]
    refine foldl_sim_snd_fst (List.range vmax) _ (fun s => vmax ≤ s.1.size) ?_ hInv
    intro s k hk hs
    have hk' : k < s.1.size := Nat.lt_of_lt_of_le (List.mem_range.mp hk) hs
    refine ⟨?_, by simpa using hs⟩
    simp only [getD_setIfInBounds_self _ _ _ _ hk']
    rfl
  simp only [h1, h2]
  -- second inner loop: sum the shifted exponentials into cell `w`
  generalize hS2 : List.foldl _ (s.fst.setIfInBounds w (c 0), S1.snd.snd) (List.range vmax) = S2
  have h3 : S2.1 = (List.range vmax).foldl (fun (P : Array α) v => P.setIfInBounds w (P.getD w (c 0) +
      Flt.exp (polCell a_arr mt sigma_arr ipp lsm ipmax umax vmax kmax wmax v w -
        margMax (fun v => polCell a_arr mt sigma_arr ipp lsm ipmax umax vmax kmax wmax v w) vmax)))
      (s.1.setIfInBounds w (c 0)) := by
    rw [← hS2]
    refine foldl_sim_fst (List.range vmax) _ (fun _ => True) ?_ trivial
    intro s' k hk _
    refine ⟨?_, trivial⟩
    simp only [getD_foldl_set_self _ vmax _ _ hInv (List.mem_range.mp hk)]
  rw [h3, marg_cell_pipeline]
  constructor
  · unfold margCell margSum negInf
    split <;> rfl
  · split <;> simpa [size_foldl_set] using hInv

/-- C20L item 5: with `marginalised > 0`, room for `vmax` location samples in the buffer and for `wmax` cells in `ln_P`,
    cell `w` of the first result is `log (Σ_v exp (x_v - m)) + m` with `x_v` the station loop's value for location sample `v`
    and `m` their running `fmax` from `-inf`, or `-inf` when `m` is not `> -inf` (`PyxLoop.margCell`). -/
theorem c_polarity_ln_pdf_eq_marginalised (ln_P a_arr mt sigma_arr ipp lpls lsm : Array α)
    (umax vmax kmax mt_s0 wmax sigma_s0 ipmax marg : Nat) (hm : 0 < marg) (hL : vmax ≤ lpls.size) (hP : wmax ≤ ln_P.size)
    {w : Nat} (hw : w < wmax) :
    (Pyx.cprobability.c_polarity_ln_pdf ln_P a_arr umax vmax kmax mt mt_s0 wmax sigma_arr sigma_s0 ipp ipmax marg lpls lsm).1.getD w (c 0)
      = margCell (fun v => accumulate (polTerm a_arr mt sigma_arr ipp ipmax v vmax kmax wmax w) umax 0 (lsm.getD v (c 0))) vmax := by
  rw [c_polarity_ln_pdf_marginalised ln_P a_arr mt sigma_arr ipp lpls lsm umax vmax kmax mt_s0 wmax sigma_s0 ipmax marg hm hL]
  exact getD_foldl_set_self (fun w => margCell (fun v => polCell a_arr mt sigma_arr ipp lsm ipmax umax vmax kmax wmax v w) vmax) wmax ln_P (c 0) hP hw

/-- the first result of the marginalised kernel, as a fold that writes cell `w` for `w = 0, …, wmax - 1` -/
theorem c_polarity_probability_ln_pdf_marginalised (ln_P a_arr mt pos neg ipp lpls lsm : Array α)
    (umax vmax kmax mt_s0 wmax pos_s0 neg_s0 ipmax marg : Nat) (hm : 0 < marg) (hL : vmax ≤ lpls.size) :
    (Pyx.cprobability.c_polarity_probability_ln_pdf ln_P a_arr umax vmax kmax mt mt_s0 wmax pos pos_s0 neg neg_s0 ipp ipmax marg lpls lsm).1
      = (List.range wmax).foldl (fun (P : Array α) w => P.setIfInBounds w
          (margCell (fun v => polProbCell a_arr mt pos neg ipp lsm ipmax umax vmax kmax wmax v w) vmax)) ln_P := by
  unfold Pyx.cprobability.c_polarity_probability_ln_pdf
  simp only [hm, decide_true, if_true, forIn_range_yield, bind_pure_comp, map_pure, Id.run_pure,
    station_polarity_probability_ln_pdf_eq, set_set_accumulate, ite_pure_yield]
  refine foldl_sim_fst (List.range wmax) _ (fun s => vmax ≤ s.2.1.size) ?_ hL
  intro s w _ hInv
  -- first inner loop: fill the location-sample buffer, track the maximum
  generalize hS1 : List.foldl _ (s.snd.fst, s.snd.snd.fst, (-(c 1 / c 0) : α)) (List.range vmax) = S1
  have h1 : S1.1 = (List.range vmax).foldl (fun (L : Array α) v => L.setIfInBounds v
      (polProbCell a_arr mt pos neg ipp lsm ipmax umax vmax kmax wmax v w)) s.2.1 := by
    rw [← hS1]
    exact foldl_sim_fst (List.range vmax) _ (fun _ => True) (fun s v _ _ => ⟨rfl, trivial⟩) trivial
  have h2 : S1.2.2 = margMax (fun v => polProbCell a_arr mt pos neg ipp lsm ipmax umax vmax kmax wmax v w) vmax := by
    rw [← hS1]
    refine foldl_sim_snd_snd (List.range vmax) _ (fun s => vmax ≤ s.1.size) ?_ hInv
    intro s k hk hs
    have hk' : k < s.1.size := Nat.lt_of_lt_of_le (List.mem_range.mp hk) hs
    refine ⟨?_, by simpa using hs⟩
    simp only [getD_setIfInBounds_self _ _ _ _ hk']
    rfl
  simp only [h1, h2]
  -- second inner loop: sum the shifted exponentials into cell `w`
  generalize hS2 : List.foldl _ (s.fst.setIfInBounds w (c 0), S1.snd.fst) (List.range vmax) = S2
  have h3 : S2.1 = (List.range vmax).foldl (fun (P : Array α) v => P.setIfInBounds w (P.getD w (c 0) +
      Flt.exp (polProbCell a_arr mt pos neg ipp lsm ipmax umax vmax kmax wmax v w -
        margMax (fun v => polProbCell a_arr mt pos neg ipp lsm ipmax umax vmax kmax wmax v w) vmax)))
      (s.1.setIfInBounds w (c 0)) := by
    rw [← hS2]
    refine foldl_sim_fst (List.range vmax) _ (fun _ => True) ?_ trivial
    intro s' k hk _
    refine ⟨?_, trivial⟩
    simp only [getD_foldl_set_self _ vmax _ _ hInv (List.mem_range.mp hk)]
  rw [h3, marg_cell_pipeline]
  constructor
  · unfold margCell margSum negInf
    split <;> rfl
  · split <;> simpa [size_foldl_set] using hInv

/-- C20L item 5: with `marginalised > 0`, room for `vmax` location samples in the buffer and for `wmax` cells in `ln_P`,
    cell `w` of the first result is `log (Σ_v exp (x_v - m)) + m` with `x_v` the station loop's value for location sample `v`
    and `m` their running `fmax` from `-inf`, or `-inf` when `m` is not `> -inf` (`PyxLoop.margCell`). -/
theorem c_polarity_probability_ln_pdf_eq_marginalised (ln_P a_arr mt pos neg ipp lpls lsm : Array α)
    (umax vmax kmax mt_s0 wmax pos_s0 neg_s0 ipmax marg : Nat) (hm : 0 < marg) (hL : vmax ≤ lpls.size) (hP : wmax ≤ ln_P.size)
    {w : Nat} (hw : w < wmax) :
    (Pyx.cprobability.c_polarity_probability_ln_pdf ln_P a_arr umax vmax kmax mt mt_s0 wmax pos pos_s0 neg neg_s0 ipp ipmax marg lpls lsm).1.getD w (c 0)
      = margCell (fun v => accumulate (polProbTerm a_arr mt pos neg ipp ipmax v vmax kmax wmax w) umax 0 (lsm.getD v (c 0))) vmax := by
  rw [c_polarity_probability_ln_pdf_marginalised ln_P a_arr mt pos neg ipp lpls lsm umax vmax kmax mt_s0 wmax pos_s0 neg_s0
    ipmax marg hm hL]
  exact getD_foldl_set_self (fun w => margCell (fun v => polProbCell a_arr mt pos neg ipp lsm ipmax umax vmax kmax wmax v w) vmax) wmax ln_P (c 0) hP hw

/-- the first result of the marginalised kernel, as a fold that writes cell `w` for `w = 0, …, wmax - 1` -/
theorem c_amplitude_ratio_ln_pdf_marginalised (ln_P z mt ax ay psx psy lpls lsm : Array α)
    (z_s0 mt_s0 wmax umax vmax kmax ay_s0 ay_s1 ay_s2 psx_s0 psy_s0 marg : Nat) (hm : 0 < marg) (hL : vmax ≤ lpls.size) :
    (Pyx.cprobability.c_amplitude_ratio_ln_pdf ln_P z z_s0 mt mt_s0 wmax ax umax vmax kmax ay ay_s0 ay_s1 ay_s2 psx psx_s0 psy psy_s0 marg lpls lsm).1
      = (List.range wmax).foldl (fun (P : Array α) w => P.setIfInBounds w
          (margCell (fun v => arCell ax ay mt z psx psy lsm umax vmax kmax wmax v w) vmax)) ln_P := by
  unfold Pyx.cprobability.c_amplitude_ratio_ln_pdf
  simp only [hm, decide_true, if_true, forIn_range_yield, bind_pure_comp, map_pure, Id.run_pure,
    station_ar_ln_pdf_eq, set_set_accumulate, ite_pure_yield]
  refine foldl_sim_fst (List.range wmax) _ (fun s => vmax ≤ s.2.1.size) ?_ hL
  intro s w _ hInv
  -- first inner loop: fill the location-sample buffer, track the maximum
  generalize hS1 : List.foldl _ (s.snd.fst, s.snd.snd.fst, (-(c 1 / c 0) : α)) (List.range vmax) = S1
  have h1 : S1.1 = (List.range vmax).foldl (fun (L : Array α) v => L.setIfInBounds v
      (arCell ax ay mt z psx psy lsm umax vmax kmax wmax v w)) s.2.1 := by
    rw [← hS1]
    exact foldl_sim_fst (List.range vmax) _ (fun _ => True) (fun s v _ _ => ⟨rfl, trivial⟩) trivial
  have h2 : S1.2.2 = margMax (fun v => arCell ax ay mt z psx psy lsm umax vmax kmax wmax v w) vmax := by
    rw [← hS1]
    refine foldl_sim_snd_snd (List.range vmax) _ (fun s => vmax ≤ s.1.size) ?_ hInv
    intro s k hk hs
    have hk' : k < s.1.size := Nat.lt_of_lt_of_le (List.mem_range.mp hk) hs
    refine ⟨?_, by simpa using hs⟩
    simp only [getD_setIfInBounds_self _ _ _ _ hk']
    rfl
  simp only [h1, h2]
  -- second inner loop: sum the shifted exponentials into cell `w`
  generalize hS2 : List.foldl _ (s.fst.setIfInBounds w (c 0), S1.snd.fst) (List.range vmax) = S2
  have h3 : S2.1 = (List.range vmax).foldl (fun (P : Array α) v => P.setIfInBounds w (P.getD w (c 0) +
      Flt.exp (arCell ax ay mt z psx psy lsm umax vmax kmax wmax v w -
        margMax (fun v => arCell ax ay mt z psx psy lsm umax vmax kmax wmax v w) vmax)))
      (s.1.setIfInBounds w (c 0)) := by
    rw [← hS2]
    refine foldl_sim_fst (List.range vmax) _ (fun _ => True) ?_ trivial
    intro s' k hk _
    refine ⟨?_, trivial⟩
    simp only [getD_foldl_set_self _ vmax _ _ hInv (List.mem_range.mp hk)]
  rw [h3, marg_cell_pipeline]
  constructor
  · unfold margCell margSum negInf
    split <;> rfl
  · split <;> simpa [size_foldl_set] using hInv

/-- C20L item 5: with `marginalised > 0`, room for `vmax` location samples in the buffer and for `wmax` cells in `ln_P`,
    cell `w` of the first result is `log (Σ_v exp (x_v - m)) + m` with `x_v` the station loop's value for location sample `v`
    and `m` their running `fmax` from `-inf`, or `-inf` when `m` is not `> -inf` (`PyxLoop.margCell`). -/
theorem c_amplitude_ratio_ln_pdf_eq_marginalised (ln_P z mt ax ay psx psy lpls lsm : Array α)
    (z_s0 mt_s0 wmax umax vmax kmax ay_s0 ay_s1 ay_s2 psx_s0 psy_s0 marg : Nat) (hm : 0 < marg) (hL : vmax ≤ lpls.size) (hP : wmax ≤ ln_P.size)
    {w : Nat} (hw : w < wmax) :
    (Pyx.cprobability.c_amplitude_ratio_ln_pdf ln_P z z_s0 mt mt_s0 wmax ax umax vmax kmax ay ay_s0 ay_s1 ay_s2 psx psx_s0 psy psy_s0 marg lpls lsm).1.getD w (c 0)
      = margCell (fun v => accumulate (arTerm ax ay mt z psx psy v vmax kmax wmax w) umax 0 (lsm.getD v (c 0))) vmax := by
  rw [c_amplitude_ratio_ln_pdf_marginalised ln_P z mt ax ay psx psy lpls lsm z_s0 mt_s0 wmax umax vmax kmax ay_s0 ay_s1 ay_s2
    psx_s0 psy_s0 marg hm hL]
  exact getD_foldl_set_self (fun w => margCell (fun v => arCell ax ay mt z psx psy lsm umax vmax kmax wmax v w) vmax) wmax ln_P (c 0) hP hw

/-! ### the theorems apply to the executable `Float` instance -/

example (a mt lnP sigma ipp : Array Float) (ipmax v umax vmax kmax wmax w index : Nat) :
    Pyx.cprobability.station_polarity_ln_pdf a mt lnP sigma ipp ipmax v umax vmax kmax wmax w index
      = lnP.setIfInBounds index
          (accumulate (polTerm a mt sigma ipp ipmax v vmax kmax wmax w) umax 0 (lnP.getD index (c 0))) :=
  station_polarity_ln_pdf_eq a mt lnP sigma ipp ipmax v umax vmax kmax wmax w index

end MTfitVerif.C20
