import MTfitVerif.Props.C09
/-
  C09 — further property theorems, corollaries of the refinement theorem `history_refines`:
  a history can be cut anywhere (what was stored before the cut is a prefix of what is stored
  after it), batches without a non-zero candidate only advance the tried count, and the
  selection used by `output` never invents or reorders entries.
-/
namespace MTfitVerif.C09
open MTfitVerif LogP LogDomain SampleStore

/-- the store reached by a history -/
noncomputable def run (init : Nat) (hist : List (List (Cand ℝ) × Nat)) : Store ℝ :=
  hist.foldl (fun s b => append s b.1 b.2) (empty init : Store ℝ)

/-- the samples a history should leave in the store -/
def spec (hist : List (List (Cand ℝ) × Nat)) : List (Nat × List (LogP ℝ) × Nat) :=
  hist.flatMap fun b => (b.1.filter nonzero).map fun c => (c.tok, c.col, c.sf)

theorem view_run {init : Nat} (h : 0 < init) (hist : List (List (Cand ℝ) × Nat)) :
    view (run init hist) = spec hist := (history_refines h hist).2.1

theorem tried_run {init : Nat} (h : 0 < init) (hist : List (List (Cand ℝ) × Nat)) :
    (run init hist).n = (hist.map (·.2)).sum := (history_refines h hist).2.2

/-- cutting a history: the store after `h₁ ++ h₂` holds what it held after `h₁`, followed by
    the non-zero candidates of `h₂` — whatever re-allocation happened in between -/
theorem history_concat {init : Nat} (h : 0 < init) (h₁ h₂ : List (List (Cand ℝ) × Nat)) :
    view (run init (h₁ ++ h₂)) = view (run init h₁) ++ spec h₂ := by
  rw [view_run h, view_run h, spec, spec, spec, List.flatMap_append]

/-- earlier samples are never lost, moved or rewritten by later batches -/
theorem history_prefix {init : Nat} (h : 0 < init) (h₁ h₂ : List (List (Cand ℝ) × Nat)) :
    view (run init h₁) <+: view (run init (h₁ ++ h₂)) :=
  ⟨spec h₂, (history_concat h h₁ h₂).symm⟩

/-- a batch whose candidates all have zero probability leaves the stored samples alone … -/
theorem zero_batch_view {init : Nat} (h : 0 < init) (h₁ h₂ : List (List (Cand ℝ) × Nat))
    (b : List (Cand ℝ)) (k : Nat) (hz : ∀ c ∈ b, nonzero c = false) :
    view (run init (h₁ ++ (b, k) :: h₂)) = view (run init (h₁ ++ h₂)) := by
  have hb : b.filter nonzero = [] := by
    rw [List.filter_eq_nil_iff]; intro c hc; simp [hz c hc]
  rw [view_run h, view_run h, spec, spec, List.flatMap_append, List.flatMap_append,
    List.flatMap_cons, hb]
  rfl

/-- … and is still counted among the tried samples -/
theorem zero_batch_tried {init : Nat} (h : 0 < init) (h₁ h₂ : List (List (Cand ℝ) × Nat))
    (b : List (Cand ℝ)) (k : Nat) :
    (run init (h₁ ++ (b, k) :: h₂)).n = (run init (h₁ ++ h₂)).n + k := by
  rw [tried_run h, tried_run h]
  simp only [List.map_append, List.map_cons, List.sum_append, List.sum_cons]
  omega

/-- the tried count never decreases along a history -/
theorem tried_mono {init : Nat} (h : 0 < init) (h₁ h₂ : List (List (Cand ℝ) × Nat)) :
    (run init h₁).n ≤ (run init (h₁ ++ h₂)).n := by
  rw [tried_run h, tried_run h, List.map_append, List.sum_append]
  omega

/-- the selection of `output` is a sub-list: it keeps order and invents nothing -/
theorem selectBy_sublist {β : Type} (l : List β) (keep : List Bool) :
    (selectBy l keep).Sublist l := by
  induction l generalizing keep with
  | nil => simp [selectBy]
  | cons x xs ih =>
    cases keep with
    | nil => simp [selectBy]
    | cons k ks =>
      have hrec : selectBy (x :: xs) (k :: ks)
          = (if k then [x] else []) ++ selectBy xs ks := by
        cases k <;> simp [selectBy]
      rw [hrec]
      cases k
      · exact (ih ks).cons x
      · exact (ih ks).cons_cons x

/-- keeping everything returns the list itself -/
theorem selectBy_all {β : Type} (l : List β) :
    selectBy l (l.map fun _ => true) = l := by
  induction l with
  | nil => rfl
  | cons x xs ih =>
    have : selectBy (x :: xs) ((x :: xs).map fun _ => true)
        = x :: selectBy xs (xs.map fun _ => true) := by
      simp [selectBy]
    rw [this, ih]

/-- premises are satisfiable: a two-batch history with one zero and one non-zero candidate -/
example : spec [([⟨1, [fin 0, negInf], 1⟩, ⟨2, [negInf, negInf], 1⟩], 2), ([⟨3, [fin (-5)], 1⟩], 1)]
    = [(1, [fin 0, negInf], 1), (3, [fin (-5)], 1)] := by
  simp [spec, nonzero, isFin]

end MTfitVerif.C09
