import MTfitVerif.Model.MultiEvent
import MTfitVerif.Real.Inst
import MTfitVerif.Real.LogPSem
import MTfitVerif.Real.MultiEventLemmas
/-
  C15 — joint multi-event posterior: structure (additivity, independence, station intersection).
  Property theorems only; helper lemmas live in `Real/MultiEventLemmas.lean`.
-/
namespace MTfitVerif.C15
open MTfitVerif MultiEvent LogP

/-- the pair terms in the order the loop adds them: for every event, one term with every earlier
    event -/
noncomputable def pairTermsAux (minInt : Nat) : List (Event ℝ) → List (Event ℝ) → List (LogP ℝ)
  | _, [] => []
  | done, e :: rest => done.map (fun ej => pairTerm minInt e ej) ++ pairTermsAux minInt (done ++ [e]) rest

noncomputable def pairTerms (minInt : Nat) (evs : List (Event ℝ)) : List (LogP ℝ) := pairTermsAux minInt [] evs

/-- `pairTermsAux` is the list used by the helper lemmas -/
theorem pairTermsAux_eq (minInt : Nat) (done rest : List (Event ℝ)) :
    pairTermsAux minInt done rest = pairTermsAuxL minInt done rest := by
  induction rest generalizing done with
  | nil => rfl
  | cons e rest ih => rw [pairTermsAux, pairTermsAuxL, ih]

theorem pairTerms_eq (minInt : Nat) (evs : List (Event ℝ)) :
    pairTerms minInt evs = pairTermsAuxL minInt [] evs := pairTermsAux_eq minInt [] evs

/-- the same in the log domain (`-∞` absorbing) -/
theorem joint_eq_sum (relative : Bool) (minInt : Nat) (evs : List (Event ℝ)) :
    joint relative minInt evs =
      LogP.add (LogP.sum (evs.map (·.ln))) (if relative then LogP.sum (pairTerms minInt evs) else fin 0) := by
  rw [pairTerms_eq]
  exact joint_eq relative minInt evs

/-- **Additivity**: the joint probability of a tuple is the product of the events' own
    probabilities and, when relative amplitudes are used, of one term per event pair (in logs:
    the sum of the events' log-probabilities plus the pair terms), for any number of events. -/
theorem joint_eq_product (relative : Bool) (minInt : Nat) (evs : List (Event ℝ)) :
    toProb (joint relative minInt evs) =
      (evs.map fun e => toProb e.ln).prod *
        (if relative then ((pairTerms minInt evs).map toProb).prod else 1) := by
  rw [joint_eq_sum, toProb_add, toProb_sum, List.map_map]
  congr 1
  cases relative
  · simp
  · simp [toProb_sum]

/-- the joint probability is zero exactly when an event or a used pair term has probability zero -/
theorem joint_eq_negInf_iff (relative : Bool) (minInt : Nat) (evs : List (Event ℝ)) :
    joint relative minInt evs = negInf ↔
      (∃ e ∈ evs, e.ln = negInf) ∨ (relative = true ∧ negInf ∈ pairTerms minInt evs) := by
  rw [joint_eq_sum, add_eq_negInf_iff, sum_eq_negInf_iff]
  have h1 : negInf ∈ evs.map (·.ln) ↔ ∃ e ∈ evs, e.ln = negInf := by
    simp [List.mem_map]
  rw [h1]
  cases relative
  · simp
  · simp [sum_eq_negInf_iff]

/-- **Independence**: without relative data the joint probability is the product of the events'
    own probabilities; it does not depend on the relative observations or on how the candidate
    sources of different events are combined -/
theorem joint_independent (minInt : Nat) (evs : List (Event ℝ)) :
    toProb (joint false minInt evs) = (evs.map fun e => toProb e.ln).prod := by
  rw [joint_eq_product]
  simp

theorem joint_independent_of_relative_data (minInt minInt' : Nat) (evs evs' : List (Event ℝ))
    (h : evs.map (·.ln) = evs'.map (·.ln)) :
    joint false minInt evs = joint false minInt' evs' := by
  rw [joint_eq_sum, joint_eq_sum, h]
  simp

/-- **Minimum intersection**: a pair sharing fewer stations than the configured minimum
    contributes nothing (log 1) -/
theorem pairTerm_below_min (minInt : Nat) (ei ej : Event ℝ)
    (h : (pairs ei.rel ej.rel).length < minInt) : pairTerm minInt ei ej = fin 0 :=
  pairTerm_of_lt minInt ei ej h

/-- events with no common station contribute nothing whatever the minimum is -/
theorem pairTerm_no_shared (minInt : Nat) (ei ej : Event ℝ)
    (h : ∀ s ∈ ei.rel, ∀ t ∈ ej.rel, s.name ≠ t.name) : pairTerm minInt ei ej = fin 0 :=
  pairTerm_of_pairs_nil minInt ei ej (pairs_eq_nil_of_no_shared _ _ h)

/-- if no pair reaches the minimum the relative inversion equals the independent one -/
theorem joint_all_below_min (minInt : Nat) (evs : List (Event ℝ))
    (h : ∀ ei ∈ evs, ∀ ej ∈ evs, (pairs ei.rel ej.rel).length < minInt) :
    toProb (joint true minInt evs) = toProb (joint false minInt evs) := by
  have hz : LogP.sum (pairTerms minInt evs) = fin 0 := by
    rw [pairTerms_eq]
    apply sum_eq_fin_zero
    apply pairTermsAuxL_all_zero
    intro ei hei ej hej
    exact pairTerm_below_min minInt ei ej (h ei hei ej (by simpa using hej))
  rw [joint_eq_sum, joint_eq_sum]
  simp [hz]

/-! ### station intersection -/

/-- every pair joins two observations of the same station, one from each event -/
theorem pairs_same_station (si sj : List (RelObs ℝ)) :
    ∀ p ∈ pairs si sj, p.1.name = p.2.name ∧ p.1 ∈ si ∧ p.2 ∈ sj :=
  pairs_spec si sj

/-- with one observation per station in each event, the pairs are exactly the observations at
    common stations -/
theorem pairs_mem_iff (si sj : List (RelObs ℝ)) (hi : (si.map (·.name)).Nodup) (hj : (sj.map (·.name)).Nodup)
    (s t : RelObs ℝ) : (s, t) ∈ pairs si sj ↔ s ∈ si ∧ t ∈ sj ∧ s.name = t.name :=
  pairs_mem_iff' si sj hi hj s t

/-- the number of pairs is the number of stations of event `i` that event `j` also has.

    **Statement corrected**: the hypothesis `hi` (event `i` lists every station once) was added.
    Without it the claim is false: with `si = [⟨1,[],1,1⟩, ⟨1,[],2,1⟩]` and `sj = [⟨1,[],10,1⟩]`
    (so `sj` has distinct names) only the first observation of `si` finds a partner,
    `(pairs si sj).length = 1`, while both observations of `si` pass the filter (length 2); see
    `pairs_length_counterexample`.  The hypothesis `hj` is kept from the original statement but is
    not needed (`MultiEvent.pairs_length_of_nodup`). -/
theorem pairs_length (si sj : List (RelObs ℝ)) (hi : (si.map (·.name)).Nodup) (hj : (sj.map (·.name)).Nodup) :
    (pairs si sj).length = (si.filter fun s => sj.any fun t => t.name = s.name).length := by
  have _ := hj
  exact pairs_length_of_nodup si sj hi

/-- the original `pairs_length` (only `sj` duplicate-free) fails -/
theorem pairs_length_counterexample :
    ∃ si sj : List (RelObs ℝ), (sj.map (·.name)).Nodup ∧
      (pairs si sj).length ≠ (si.filter fun s => sj.any fun t => t.name = s.name).length :=
  ⟨[⟨1, [], 1, 1⟩, ⟨1, [], 2, 1⟩], [⟨1, [], 10, 1⟩], by simp, by simp [pairs, extract]⟩

/-- the order in which the second event lists its stations is irrelevant -/
theorem pairs_perm_right (si sj sj' : List (RelObs ℝ)) (h : sj.Perm sj') (hj : (sj.map (·.name)).Nodup) :
    pairs si sj = pairs si sj' :=
  pairs_perm_right' si h hj

/-- reordering the first event's stations only reorders the pairs.

    **Statement corrected**: the hypothesis `hi` (event `i` lists every station once) was added.
    Without it the claim is false: with `si = [⟨1,[],1,1⟩, ⟨1,[],2,1⟩]`, `si' = si.reverse` and
    `sj = [⟨1,[],10,1⟩]` the single observation of `sj` is paired with whichever observation of
    station 1 comes first, so `pairs si sj = [(⟨1,[],1,1⟩, _)]` and `pairs si' sj = [(⟨1,[],2,1⟩, _)]`
    are not permutations of each other; see `pairs_perm_left_counterexample`.  The hypothesis `hj`
    is kept from the original statement but is not needed (`MultiEvent.pairs_perm_left_of_nodup`). -/
theorem pairs_perm_left (si si' sj : List (RelObs ℝ)) (h : si.Perm si') (hi : (si.map (·.name)).Nodup)
    (hj : (sj.map (·.name)).Nodup) :
    (pairs si sj).Perm (pairs si' sj) := by
  have _ := hj
  exact pairs_perm_left_of_nodup sj h hi

/-- the original `pairs_perm_left` (only `sj` duplicate-free) fails -/
theorem pairs_perm_left_counterexample :
    ∃ si si' sj : List (RelObs ℝ), si.Perm si' ∧ (sj.map (·.name)).Nodup ∧
      ¬ (pairs si sj).Perm (pairs si' sj) := by
  refine ⟨[⟨1, [], 1, 1⟩, ⟨1, [], 2, 1⟩], [⟨1, [], 2, 1⟩, ⟨1, [], 1, 1⟩], [⟨1, [], 10, 1⟩],
    List.Perm.swap _ _ _, by simp, ?_⟩
  intro hp
  have h1 : pairs [⟨1, [], 1, 1⟩, ⟨1, [], 2, 1⟩] [(⟨1, [], 10, 1⟩ : RelObs ℝ)] =
      [(⟨1, [], 1, 1⟩, ⟨1, [], 10, 1⟩)] := by simp [pairs, extract]
  have h2 : pairs [⟨1, [], 2, 1⟩, ⟨1, [], 1, 1⟩] [(⟨1, [], 10, 1⟩ : RelObs ℝ)] =
      [(⟨1, [], 2, 1⟩, ⟨1, [], 10, 1⟩)] := by simp [pairs, extract]
  rw [h1, h2, List.perm_singleton] at hp
  simp at hp

/-- non-vacuity: two events listing stations 1,2,3 and 3,9,1 share stations 1 and 3, paired by name -/
example :
    (pairs [⟨1, [], 1, 1⟩, ⟨2, [], 2, 1⟩, ⟨3, [], 3, 1⟩] [⟨3, [], 30, 1⟩, ⟨9, [], 90, 1⟩, (⟨1, [], 10, 1⟩ : RelObs ℝ)]).map
      (fun p => (p.1.name, p.2.name)) = [(1, 1), (3, 3)] := by
  simp [pairs, extract]

end MTfitVerif.C15
