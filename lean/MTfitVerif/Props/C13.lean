import MTfitVerif.Model.Convert
import MTfitVerif.Real.Inst
import MTfitVerif.Real.ConvertLemmasSdr
/-
  C13 — strike/dip/rake, principal axes and normal/slip describe one and the same source.
-/
namespace MTfitVerif.C13
open MTfitVerif MTfitVerif.Convert Real MTfitVerif.ConvertSdr

/-- the (unnormalised) double-couple tensor of a fault normal `n` and slip vector `s`:
    `n sᵀ + s nᵀ` -/
def dcTensor (n s : V3 ℝ) : Sym3 ℝ :=
  ⟨2 * n.x * s.x, 2 * n.y * s.y, 2 * n.z * s.z,
   n.x * s.y + n.y * s.x, n.x * s.z + n.z * s.x, n.y * s.z + n.z * s.y⟩

/-- the slip vector and the fault normal built from strike, dip, rake are unit and perpendicular,
    for every strike, dip and rake -/
theorem sdrVecs_unit_perp (s d r : ℝ) :
    V3.dot (sdrVec1 s d r) (sdrVec1 s d r) = 1 ∧ V3.dot (sdrVec2 s d) (sdrVec2 s d) = 1 ∧
    V3.dot (sdrVec1 s d r) (sdrVec2 s d) = 0 := by
  simp only [V3.dot, sdrVec1, sdrVec2, flt_sin, flt_cos]
  have h1 := Real.sin_sq_add_cos_sq s
  have h2 := Real.sin_sq_add_cos_sq d
  have h3 := Real.sin_sq_add_cos_sq r
  generalize sin s = ss at *
  generalize cos s = cs at *
  generalize sin d = sd at *
  generalize cos d = cd at *
  generalize sin r = sr at *
  generalize cos r = cr at *
  refine ⟨?_, ?_, ?_⟩
  · linear_combination (cr^2 + cd^2 * sr^2) * h1 + sr^2 * h2 + h3
  · linear_combination (sd^2) * h1 + h2
  · linear_combination (-(cd * sr * sd)) * h1

/-- closed form of the principal axes: `T = (v₁+v₂)/√2`, `P = (v₁−v₂)/√2`, `N = −T×P` -/
theorem sdrToTnp_closed (s d r : ℝ) :
    (sdrToTnp s d r).1 = V3.sdiv (V3.add (sdrVec1 s d r) (sdrVec2 s d)) (√2) ∧
    (sdrToTnp s d r).2.2 = V3.sdiv (V3.sub (sdrVec1 s d r) (sdrVec2 s d)) (√2) := by
  obtain ⟨h1, h2, h3⟩ := sdrVecs_unit_perp s d r
  rw [sdrToTnp, fpToTnp_closed h1 h2 h3]
  exact ⟨rfl, rfl⟩

/-- the tension, null and pressure axes are orthonormal for every strike, dip and rake -/
theorem sdrToTnp_orthonormal (s d r : ℝ) :
    let T := (sdrToTnp s d r).1; let N := (sdrToTnp s d r).2.1; let P := (sdrToTnp s d r).2.2
    V3.dot T T = 1 ∧ V3.dot N N = 1 ∧ V3.dot P P = 1 ∧ V3.dot T N = 0 ∧ V3.dot T P = 0 ∧ V3.dot N P = 0 := by
  obtain ⟨h1, h2, h3⟩ := sdrVecs_unit_perp s d r
  rw [sdrToTnp, fpToTnp_closed h1 h2 h3]
  exact tnp_orthonormal h1 h2 h3

/-- axes → normal/slip returns the two vectors the angles were built from -/
theorem sdrToFp_eq (s d r : ℝ) : sdrToFp s d r = (sdrVec1 s d r, sdrVec2 s d) := by
  obtain ⟨h1, h2, h3⟩ := sdrVecs_unit_perp s d r
  rw [sdrToFp, sdrToTnp, fpToTnp_closed h1 h2 h3]
  exact tpToFp_closed h1 h2

/-- both normal/slip orderings give the same tensor -/
theorem dcTensor_symm (n s : V3 ℝ) : dcTensor n s = dcTensor s n := by
  simp only [dcTensor, Sym3.mk.injEq]
  refine ⟨?_, ?_, ?_, ?_, ?_, ?_⟩ <;> ring

/-- the axes rebuild the same double-couple tensor: `T Tᵀ − P Pᵀ = n sᵀ + s nᵀ` -/
theorem axes_same_tensor (s d r : ℝ) :
    let T := (sdrToTnp s d r).1; let N := (sdrToTnp s d r).2.1; let P := (sdrToTnp s d r).2.2
    rebuild T N P ⟨1, 0, -1⟩ = dcTensor (sdrVec2 s d) (sdrVec1 s d r) := by
  obtain ⟨h1, h2, h3⟩ := sdrVecs_unit_perp s d r
  rw [sdrToTnp, fpToTnp_closed h1 h2 h3]
  have q := sqrt2_mul_sqrt2
  have h0 : (√2 : ℝ) ≠ 0 := by positivity
  simp only [rebuild, dcTensor, V3.sdiv, V3.add, V3.sub, Sym3.mk.injEq]
  refine ⟨?_, ?_, ?_, ?_, ?_, ?_⟩ <;> field_simp <;> rw [Real.sq_sqrt (by norm_num)] <;> ring

/-- the angle ranges of the returned plane: strike in [0, 2π), dip in [0, π/2], rake in [−π, π] -/
theorem fpToSdr_ranges (n s : V3 ℝ) :
    0 ≤ (fpToSdr n s).1 ∧ (fpToSdr n s).1 < 2 * π ∧ 0 ≤ (fpToSdr n s).2.1 ∧ (fpToSdr n s).2.1 ≤ π / 2 ∧
    -π ≤ (fpToSdr n s).2.2 ∧ (fpToSdr n s).2.2 ≤ π := by
  obtain ⟨m, t, -, -, h⟩ := fpToSdr_eq n s
  rw [h]
  exact ⟨mod2pi_nonneg _, mod2pi_lt _, (sdOf_dip_mem m).1, (sdOf_dip_mem m).2,
    (rakeOf_mem _ _).1.le, (rakeOf_mem _ _).2⟩

/-- converting normal/slip back gives the original angles (non-horizontal planes) -/
theorem fpToSdr_of_sdr {s d r : ℝ} (hs0 : 0 ≤ s) (hs1 : s < 2 * π) (hd0 : 0 < d) (hd1 : d ≤ π / 2)
    (hr0 : -π < r) (hr1 : r ≤ π) :
    fpToSdr (sdrVec2 s d) (sdrVec1 s d r) = (s, d, r) := by
  obtain ⟨h1, h2, -⟩ := sdrVecs_unit_perp s d r
  have hcd : 0 ≤ cos d := Real.cos_nonneg_of_mem_Icc ⟨by linarith [pi_pos], hd1⟩
  have hz : ¬ 0 < (sdrVec2 s d).z := by simp only [sdrVec2, flt_cos]; linarith
  have hz' : ¬ 0 < (sdrVec2 s d).unit.z := by rw [unit_of_unit h2]; exact hz
  rw [fpToSdr_noflip _ _ hz', unit_of_unit h2, unit_of_unit h1, normalToSd_of_unit (unit_of_unit h2) hz]
  have hr := rakeOf_sdrVecs hs0 hs1 hd0 hd1 hr0 hr1
  rw [rakeOf] at hr
  rw [hr, sdOf_sdrVec2 hs0 hs1 hd0 hd1, mod2pi_of_mem hs0 hs1]

/-- the auxiliary-plane conversion returns the other nodal plane: the one whose normal is the
    slip vector of the input -/
theorem sdrToSdr_is_aux {s d r : ℝ} (hs0 : 0 ≤ s) (hs1 : s < 2 * π) (hd0 : 0 < d) (hd1 : d ≤ π / 2)
    (hr0 : -π < r) (hr1 : r ≤ π) :
    sdrToSdr s d r = fpToSdr (sdrVec1 s d r) (sdrVec2 s d) := by
  have h := fpToSdr_of_sdr hs0 hs1 hd0 hd1 hr0 hr1
  obtain ⟨h1, -, h3⟩ := sdrVecs_unit_perp s d r
  -- the candidate that is the input plane has `normalDot = 1`, the auxiliary plane `0`
  have e1 : normalDot (fpToSdr (sdrVec1 s d r) (sdrVec2 s d)).1 (fpToSdr (sdrVec1 s d r) (sdrVec2 s d)).2.1 s d
      = 0 := by rw [normalDot_fpToSdr h1, h3, abs_zero]
  simp only [sdrToSdr, sdrToFp_eq, h, e1, normalDot_self, flt_ltb, zero_lt_one, decide_true, if_true]

/-- axes → angles returns a nodal plane of the same source (the auxiliary one) -/
theorem tnpToSdr_of_sdr (s d r : ℝ) :
    tnpToSdr (sdrToTnp s d r).1 (sdrToTnp s d r).2.2 = fpToSdr (sdrVec1 s d r) (sdrVec2 s d) := by
  obtain ⟨h1, h2, h3⟩ := sdrVecs_unit_perp s d r
  rw [sdrToTnp, fpToTnp_closed h1 h2 h3]
  simp only [tnpToSdr, tpToFp_closed h1 h2]

/-- the slip vector of a plane with `0 < dip < π/2` is not vertical; it and the normal, or their
    negatives, are a unit perpendicular pair -/
theorem aux_plane_facts {s d r : ℝ} (hd0 : 0 < d) (hd1 : d < π / 2) {m t : V3 ℝ}
    (hc : (m = sdrVec1 s d r ∧ t = sdrVec2 s d) ∨ (m = (sdrVec1 s d r).neg ∧ t = (sdrVec2 s d).neg)) :
    V3.dot m m = 1 ∧ V3.dot t t = 1 ∧ V3.dot m t = 0 ∧ (m.x ≠ 0 ∨ m.y ≠ 0) := by
  obtain ⟨h1, h2, h3⟩ := sdrVecs_unit_perp s d r
  have hcd : 0 < cos d := Real.cos_pos_of_mem_Ioo ⟨by linarith [pi_pos], hd1⟩
  have hxy : (sdrVec1 s d r).x ^ 2 + (sdrVec1 s d r).y ^ 2 ≠ 0 := by
    have e : (sdrVec1 s d r).x ^ 2 + (sdrVec1 s d r).y ^ 2 = 1 - (sdrVec1 s d r).z ^ 2 := by
      simp only [V3.dot] at h1; linear_combination h1
    have e2 : (sdrVec1 s d r).z ^ 2 = sin d ^ 2 * sin r ^ 2 := by simp only [sdrVec1, flt_sin]; ring
    rw [e, e2]
    nlinarith [Real.sin_sq_add_cos_sq d, Real.sin_sq_add_cos_sq r, sq_nonneg (cos r), sq_nonneg (sin d),
      mul_nonneg (sq_nonneg (sin d)) (sq_nonneg (cos r)), mul_pos hcd hcd]
  have hne : ∀ v : V3 ℝ, v.x ^ 2 + v.y ^ 2 ≠ 0 → (v.x ≠ 0 ∨ v.y ≠ 0) := by
    intro v hv; by_contra hcon
    rw [not_or, not_not, not_not] at hcon
    exact hv (by rw [hcon.1, hcon.2]; ring)
  rcases hc with ⟨rfl, rfl⟩ | ⟨rfl, rfl⟩
  · exact ⟨h1, h2, h3, hne _ hxy⟩
  · exact ⟨by rw [dot_neg_neg, h1], by rw [dot_neg_neg, h2], by rw [dot_neg_neg, h3],
      hne _ (by simpa only [V3.neg, neg_sq] using hxy)⟩

/-- for a plane with slip angle strictly inside (−π/2, π/2) the auxiliary plane has rake outside
    [−π/2, π/2]: exactly one nodal plane lies in the Tape slip range -/
theorem aux_rake_outside {s d r : ℝ} (hd0 : 0 < d) (hd1 : d < π / 2) (hr : |r| < π / 2) :
    π / 2 < |(fpToSdr (sdrVec1 s d r) (sdrVec2 s d)).2.2| := by
  obtain ⟨h1, h2, -⟩ := sdrVecs_unit_perp s d r
  have hsd : 0 < sin d := Real.sin_pos_of_pos_of_lt_pi hd0 (by linarith [pi_pos])
  have hcr : 0 < cos r := Real.cos_pos_of_mem_Ioo ⟨by linarith [neg_abs_le r], by linarith [le_abs_self r]⟩
  have key : (sdrVec2 s d).x * (sdrVec1 s d r).y - (sdrVec2 s d).y * (sdrVec1 s d r).x < 0 := by
    have : (sdrVec2 s d).x * (sdrVec1 s d r).y - (sdrVec2 s d).y * (sdrVec1 s d r).x = -(sin d * cos r) := by
      simp only [sdrVec1, sdrVec2, flt_sin, flt_cos]
      linear_combination (-(sin d * cos r)) * Real.sin_sq_add_cos_sq s
    rw [this]; exact neg_lt_zero.mpr (mul_pos hsd hcr)
  obtain ⟨m, t, hc, hmz, h⟩ := fpToSdr_eq (sdrVec1 s d r) (sdrVec2 s d)
  rw [unit_of_unit h1, unit_of_unit h2] at hc
  have hc' : (m = sdrVec1 s d r ∧ t = sdrVec2 s d) ∨ (m = (sdrVec1 s d r).neg ∧ t = (sdrVec2 s d).neg) :=
    hc.imp (fun x => ⟨x.1, x.2.1⟩) (fun x => ⟨x.1, x.2.1⟩)
  obtain ⟨fm, ft, fp, fxy⟩ := aux_plane_facts hd0 hd1 hc'
  obtain ⟨ρ, hρ, hρ2⟩ := exists_rho fxy
  rw [h]
  apply rakeOf_abs_gt fm ft fp hmz hρ hρ2
  rcases hc' with ⟨rfl, rfl⟩ | ⟨rfl, rfl⟩
  · exact key
  · simp only [V3.neg]; linarith

/-- right inverse: the angles returned for a unit normal `n` (pointing up, `n.z < 0`, not
    vertical) and a unit slip vector perpendicular to it reproduce `n` and the slip vector -/
theorem sdrVecs_of_fpToSdr (n sl : V3 ℝ) (hn : V3.dot n n = 1) (hs : V3.dot sl sl = 1) (hp : V3.dot n sl = 0)
    (hz : n.z < 0) (hxy : n.x ≠ 0 ∨ n.y ≠ 0) :
    let p := fpToSdr n sl
    sdrVec2 p.1 p.2.1 = n ∧ sdrVec1 p.1 p.2.1 p.2.2 = sl := by
  have hz' : ¬ 0 < n.unit.z := by rw [unit_of_unit hn]; exact not_lt.mpr hz.le
  have hz'' : ¬ 0 < n.z := not_lt.mpr hz.le
  rw [fpToSdr_noflip _ _ hz', unit_of_unit hn, unit_of_unit hs, normalToSd_of_unit (unit_of_unit hn) hz'']
  exact sdrVecs_of_angles hn hs hp hz.le hxy

/-- general form of `sdrToSdr_involutive`: only `dip < π/2` is needed (rake may be `0` or `π`) -/
theorem sdrToSdr_involutive_gen {s d r : ℝ} (hs0 : 0 ≤ s) (hs1 : s < 2 * π) (hd0 : 0 < d) (hd1 : d < π / 2)
    (hr0 : -π < r) (hr1 : r ≤ π) :
    let a := sdrToSdr s d r
    sdrToSdr a.1 a.2.1 a.2.2 = (s, d, r) ∧
    dcTensor (sdrVec2 a.1 a.2.1) (sdrVec1 a.1 a.2.1 a.2.2) = dcTensor (sdrVec2 s d) (sdrVec1 s d r) := by
  intro a
  have ha : a = fpToSdr (sdrVec1 s d r) (sdrVec2 s d) := sdrToSdr_is_aux hs0 hs1 hd0 hd1.le hr0 hr1
  obtain ⟨h1, h2, -⟩ := sdrVecs_unit_perp s d r
  have hcd : 0 < cos d := Real.cos_pos_of_mem_Ioo ⟨by linarith [pi_pos], hd1⟩
  obtain ⟨m, t, hc, hmz, h⟩ := fpToSdr_eq (sdrVec1 s d r) (sdrVec2 s d)
  rw [unit_of_unit h1, unit_of_unit h2] at hc
  have hc' : (m = sdrVec1 s d r ∧ t = sdrVec2 s d) ∨ (m = (sdrVec1 s d r).neg ∧ t = (sdrVec2 s d).neg) :=
    hc.imp (fun x => ⟨x.1, x.2.1⟩) (fun x => ⟨x.1, x.2.1⟩)
  obtain ⟨fm, ft, fp, fxy⟩ := aux_plane_facts hd0 hd1 hc'
  -- in both cases `(t, m)` as (normal, slip) describes `(s, d, r)` and the tensor is the same
  have facts : fpToSdr t m = (s, d, r) ∧ dcTensor m t = dcTensor (sdrVec2 s d) (sdrVec1 s d r) := by
    rcases hc' with ⟨rfl, rfl⟩ | ⟨rfl, rfl⟩
    · exact ⟨fpToSdr_of_sdr hs0 hs1 hd0 hd1.le hr0 hr1, dcTensor_symm _ _⟩
    · refine ⟨?_, ?_⟩
      · rw [fpToSdr_neg_neg, fpToSdr_of_sdr hs0 hs1 hd0 hd1.le hr0 hr1]
        rw [unit_of_unit h2]; simp only [sdrVec2, flt_cos]; exact (neg_lt_zero.mpr hcd).ne
      · rw [dcTensor_symm (sdrVec2 s d)]
        simp only [dcTensor, V3.neg, Sym3.mk.injEq]
        refine ⟨?_, ?_, ?_, ?_, ?_, ?_⟩ <;> ring
  obtain ⟨fback, ften⟩ := facts
  obtain ⟨e2, e1⟩ := sdrVecs_of_angles fm ft fp hmz fxy
  have hrange := fpToSdr_ranges (sdrVec1 s d r) (sdrVec2 s d)
  rw [h] at ha hrange
  have hdpos := sdOf_dip_pos fm hmz fxy
  have hrneg := (rakeOf_mem m t).1
  rw [ha]
  refine ⟨?_, ?_⟩
  · show sdrToSdr (mod2pi (sdOf m).1) (sdOf m).2 (rakeOf m t) = _
    rw [sdrToSdr_is_aux (s := mod2pi (sdOf m).1) (d := (sdOf m).2) (r := rakeOf m t)
      hrange.1 hrange.2.1 hdpos hrange.2.2.2.1 hrneg hrange.2.2.2.2.2, e1, e2, fback]
  · show dcTensor (sdrVec2 (mod2pi (sdOf m).1) (sdOf m).2)
      (sdrVec1 (mod2pi (sdOf m).1) (sdOf m).2 (rakeOf m t)) = _
    rw [e1, e2, ften]

/-- the auxiliary-plane conversion is an involution and both planes give the same tensor
    (generic planes: `0 < dip < π/2`, rake not a multiple of π/2·… see hypotheses).
    The hypotheses `r < π` and `r ≠ 0` are not needed: see `sdrToSdr_involutive_gen`. -/
theorem sdrToSdr_involutive {s d r : ℝ} (hs0 : 0 ≤ s) (hs1 : s < 2 * π) (hd0 : 0 < d) (hd1 : d < π / 2)
    (hr0 : -π < r) (hr1 : r < π) (_hr : r ≠ 0) :
    let a := sdrToSdr s d r
    sdrToSdr a.1 a.2.1 a.2.2 = (s, d, r) ∧
    dcTensor (sdrVec2 a.1 a.2.1) (sdrVec1 a.1 a.2.1 a.2.2) = dcTensor (sdrVec2 s d) (sdrVec1 s d r) := by
  exact sdrToSdr_involutive_gen hs0 hs1 hd0 hd1 hr0 hr1.le

end MTfitVerif.C13
