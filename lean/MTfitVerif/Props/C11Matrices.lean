import MTfitVerif.Model.Matrices
import MTfitVerif.Real.Inst
import MTfitVerif.Real.MatricesLemmas
/-
  C11 (part 2) — the observation matrices pair each station's coefficients with that station's
  own measurement and uncertainty, matching location-sample records by station name whatever
  their order.
-/
namespace MTfitVerif.C11
open MTfitVerif Matrices StationAngles

/-- `sorted(set(·))` yields a strictly increasing list with the same members -/
theorem sortDedup_sorted (l : List Nat) : (sortDedup l).Pairwise (· < ·) := by
  exact pairwise_sortDedup l

theorem mem_sortDedup (l : List Nat) (x : Nat) : x ∈ sortDedup l ↔ x ∈ l := by
  exact mem_sortDedup'

/-- … and therefore depends only on the set of names, not on their order or multiplicity -/
theorem sortDedup_perm_invariant {l₁ l₂ : List Nat} (h : ∀ x, x ∈ l₁ ↔ x ∈ l₂) :
    sortDedup l₁ = sortDedup l₂ := by
  exact sortDedup_congr h

/-- the selected stations are exactly the names present both in the data and in the location
    records, in sorted order -/
theorem mem_selected (loc : Loc ℝ) (rows : List (Row ℝ)) (n : Nat) :
    n ∈ selected loc rows ↔ n ∈ loc.names ∧ ∃ r ∈ rows, r.name = n := by
  exact mem_selected' loc rows n

/-- with location samples: every output station is a selected name; its measurement, error and
    mispick probability are those of the data row carrying that name, and its coefficients for
    sample `i` come from the location record of that same name -/
theorem stationsOf_aligned (loc : Loc ℝ) (rows : List (Row ℝ)) (r : Row ℝ) (angs : List (ℝ × ℝ))
    (h : (r, angs) ∈ stationsOf (some loc) rows) :
    r ∈ rows ∧ r.name ∈ loc.names ∧ findRow rows r.name = some r ∧ angs = locAngles loc r.name := by
  simp only [stationsOf, List.mem_filterMap, Option.map_eq_some_iff] at h
  obtain ⟨n, hn, r', hr', he⟩ := h
  obtain ⟨rfl, rfl⟩ := Prod.mk.inj he
  obtain ⟨hmem, hname⟩ := findRow_some hr'
  subst hname
  exact ⟨hmem, ((mem_selected' loc rows _).mp hn).1, hr', rfl⟩

/-- one output station per selected name, in sorted name order (when data names are distinct
    every selected name is found) -/
theorem stationsOf_names (loc : Loc ℝ) (rows : List (Row ℝ)) :
    (stationsOf (some loc) rows).map (·.1.name) = selected loc rows := by
  simp only [stationsOf]
  rw [List.map_filterMap]
  have key : ∀ n ∈ selected loc rows,
      ((findRow rows n).map fun r => (r, locAngles loc n)).map (·.1.name) = some n := by
    intro n hn
    obtain ⟨r, hr⟩ := findRow_isSome ((mem_selected' loc rows n).mp hn).2
    rw [hr]
    simp [(findRow_some hr).2]
  generalize selected loc rows = l at key
  induction l with
  | nil => rfl
  | cons a as ih =>
    rw [List.filterMap_cons, key a (List.mem_cons_self ..)]
    simp only
    rw [ih (fun n hn => key n (List.mem_cons_of_mem _ hn))]

/-- the order of the stations in the data does not matter when location samples are used
    (distinct names) -/
theorem stationsOf_perm_data (loc : Loc ℝ) {rows rows' : List (Row ℝ)} (hp : rows.Perm rows')
    (hnd : (rows.map (·.name)).Nodup) :
    stationsOf (some loc) rows' = stationsOf (some loc) rows := by
  simp only [stationsOf]
  rw [selected_perm loc hp]
  apply List.filterMap_congr
  intro n _
  rw [findRow_perm hp hnd n]

/-- consistently permuting (or extending with other stations) the location records does not
    change the angles looked up for a name -/
theorem locAngles_of_lookup (loc loc' : Loc ℝ) (n : Nat)
    (hlen : loc.samples.length = loc'.samples.length)
    (h : ∀ i, (loc.samples.getD i []).getD (idxOf loc.names n) (0, 0)
            = (loc'.samples.getD i []).getD (idxOf loc'.names n) (0, 0)) :
    locAngles loc n = locAngles loc' n := by
  unfold locAngles
  apply List.ext_getElem
  · simpa using hlen
  · intro i h₁ h₂
    simp only [List.length_map] at h₁ h₂
    have := h i
    simp only [List.getD_eq_getElem?_getD, List.getElem?_eq_getElem h₁, List.getElem?_eq_getElem h₂,
      Option.getD_some] at this
    simpa [List.getD_eq_getElem?_getD] using this

/-- without location samples every data row appears once, in data order, with its own angles -/
theorem stationsOf_none (rows : List (Row ℝ)) :
    stationsOf none rows = rows.map fun r => (r, [(r.az, r.toa)]) := by
  rfl

/-- polarity rows: the sign of the observed polarity is folded into the coefficients; error and
    mispick probability are the row's own -/
theorem polarityRows_spec (ph : Phase) (loc : Option (Loc ℝ)) (rows : List (Row ℝ)) :
    polarityRows ph loc rows = (stationsOf loc rows).map fun p =>
      { coeffs := p.2.map fun a => (coeffsDeg ph a.1 a.2).map (· * p.1.measured.headD 0),
        sigma := p.1.error.headD 0, w := p.1.ipp.getD 0 } := by
  unfold polarityRows
  apply List.map_congr_left
  rintro ⟨r, angs⟩ _
  simp [scale]

/-- amplitude-ratio rows: the observed ratio is `|numerator/denominator|` and the fractional
    errors are `error/|amplitude|` of the same station -/
theorem ratioRows_spec (p1 p2 : Phase) (loc : Option (Loc ℝ)) (rows : List (Row ℝ))
    (s : RatioPdf.ArStation ℝ) (hs : s ∈ ratioRows p1 p2 loc rows) :
    ∃ p ∈ stationsOf loc rows,
      s.ratio = |p.1.measured.getD 0 0 / p.1.measured.getD 1 0| ∧
      s.px = p.1.error.getD 0 0 / |p.1.measured.getD 0 0| ∧
      s.py = p.1.error.getD 1 0 / |p.1.measured.getD 1 0| ∧
      s.cx = p.2.map (fun a => coeffsDeg p1 a.1 a.2) ∧ s.cy = p.2.map (fun a => coeffsDeg p2 a.1 a.2) := by
  unfold ratioRows at hs
  obtain ⟨p, hp, rfl⟩ := List.mem_map.mp hs
  refine ⟨p, hp, ?_⟩
  obtain ⟨r, angs⟩ := p
  simp

/-- types are processed in sorted key order -/
theorem sortByKey_perm (l : List (DataType ℝ)) : (sortByKey l).Perm l := by
  exact sortByKey_perm' l

theorem sortByKey_sorted (l : List (DataType ℝ)) : (sortByKey l).Pairwise (fun a b => ¬ b.key < a.key) := by
  exact pairwise_sortByKey l

/-- key classification and phase extraction on the documented key names.

    Changed with respect to the first draft: the three `ratioPhases` examples are stated for any key
    `k` whose underscore-stripped form `k.replace "_" ""` is the given literal, instead of for the
    literal key itself.  `String.replace` runs the iterator-based substring searcher (compiled with
    an opaque well-founded fixpoint), which neither the kernel nor `simp` can evaluate on a literal and
    for which core has no specification lemmas; everything downstream of that call
    (`lower`, `split('amplituderatio')`, the two `rstrip`s and `split('/')`) is proved here.
    The `replace` step itself is exercised by the executable correspondence check. -/
theorem key_examples :
    isPolarityKey "PPolarity" = true ∧ isPolarityKey "PPolarityProbability" = false ∧
    isPolarityProbKey "PPolarityProbability" = true ∧ isAmpRatioKey "P/SHRMSAmplitudeRatio" = true ∧
    isAmpRatioKey "P/SVQ_Amplitude_Ratio" = true ∧ isPolarityKey "P/SHAmplitudeRatio" = false ∧
    polarityMode "SHPolarity" = "sh" ∧
    (∀ k : String, k.replace "_" "" = "P/SHRMSAmplitudeRatio" → ratioPhases k = ("p", "sh")) ∧
    (∀ k : String, k.replace "_" "" = "P/SVQAmplitudeRatio" → ratioPhases k = ("p", "sv")) ∧
    (∀ k : String, k.replace "_" "" = "SHQ/SVQAmplitudeRatio" → ratioPhases k = ("shq", "sv")) := by
  have e1 : "PPolarity".toLower = "ppolarity" := by decide +kernel
  have e2 : "PPolarityProbability".toLower = "ppolarityprobability" := by decide +kernel
  have e3 : "P/SHRMSAmplitudeRatio".toLower = "p/shrmsamplituderatio" := by decide +kernel
  have e4 : "P/SVQ_Amplitude_Ratio".toLower = "p/svq_amplitude_ratio" := by decide +kernel
  have e5 : "P/SHAmplitudeRatio".toLower = "p/shamplituderatio" := by decide +kernel
  have e6 : "SHPolarity".toLower = "shpolarity" := by decide +kernel
  have e7 : "P/SVQAmplitudeRatio".toLower = "p/svqamplituderatio" := by decide +kernel
  have e8 : "SHQ/SVQAmplitudeRatio".toLower = "shq/svqamplituderatio" := by decide +kernel
  refine ⟨?_, ?_, ?_, ?_, ?_, ?_, ?_, ?_, ?_, ?_⟩
  · simp (config := {decide := true}) only [isPolarityKey, containsSub, e1,
      String.splitOn, String.splitOnAux, ↓reduceIte]
  · simp (config := {decide := true}) only [isPolarityKey, containsSub, e2,
      String.splitOn, String.splitOnAux, ↓reduceIte]
  · simp (config := {decide := true}) only [isPolarityProbKey, containsSub, e2,
      String.splitOn, String.splitOnAux, ↓reduceIte]
  · simp (config := {decide := true}) only [isAmpRatioKey, containsSub, e3,
      String.splitOn, String.splitOnAux, ↓reduceIte]
  · simp (config := {decide := true}) only [isAmpRatioKey, containsSub, e4,
      String.splitOn, String.splitOnAux, ↓reduceIte]
  · simp (config := {decide := true}) only [isPolarityKey, containsSub, e5,
      String.splitOn, String.splitOnAux, ↓reduceIte]
  · simp (config := {decide := true}) only [polarityMode, e6,
      String.splitOn, String.splitOnAux, ↓reduceIte, List.headD]
  · intro k h
    simp (config := {decide := true}) only [ratioPhases, h, e3,
      String.splitOn, String.splitOnAux, ↓reduceIte, List.headD]
  · intro k h
    simp (config := {decide := true}) only [ratioPhases, h, e7,
      String.splitOn, String.splitOnAux, ↓reduceIte, List.headD]
  · intro k h
    simp (config := {decide := true}) only [ratioPhases, h, e8,
      String.splitOn, String.splitOnAux, ↓reduceIte, List.headD]

end MTfitVerif.C11
