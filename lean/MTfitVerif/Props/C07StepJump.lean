import MTfitVerif.Props.C07Step
import MTfitVerif.Props.C07TransD
import MTfitVerif.Props.C05Jump
/-
  C07 (step half, trans-dimensional part) — the UP-JUMP branch of one step of the trans-dimensional
  sampler has the law of the reversible-jump kernel `jumpK` of `C07TransD`.

  From the double-couple state `d` (orientation coordinates), on the jump branch of `transDSample`
  (`uj ≤ pj`): draw the balancing pair `(γ, δ)` with `jumpDraw` from the stream, draw a uniform `u`,
  accept iff `decide u (acceptJumpUp …)`; on rejection (and when the stream is exhausted) stay at `d`.

  * `jump_step_law_finite` — exact law for a stream of `n` draws;
  * `jump_step_law_limit`  — `n → ∞`: the law is `jumpK luneBox (jumpDens w) (accUp …) (accDown …) (inl d) B`.

  (The down-jump is deterministic — `transDSample_down` — and consumes no draws; the shift branch is
  `mh_step_law_limit`.)
-/
namespace MTfitVerif.C07
open MTfitVerif LogP Acceptance Proposal Stationary StepLaw TransD
open MeasureTheory ProbabilityTheory Filter Topology Real Set
open scoped ENNReal

section Jump
variable (prior : Bool → Tape ℝ → ℝ) (w : Widths ℝ) (L : Tape ℝ → LogP ℝ) (p : ℝ)

/-! ### the law of the balancing draw -/

/-- the balancing draw on a stream of `n` draws, in coordinates -/
noncomputable def jumpOpt (n : ℕ) (ω : Fin n → ℝ) : Option Lune :=
  (jumpDraw w (List.ofFn ω)).map fun r => (r.1, r.2.1)

theorem jumpOpt_eq_some {n : ℕ} {ω : Fin n → ℝ} {g : Lune} :
    jumpOpt w n ω = some g ↔ ∃ a b rest, jumpDraw w (List.ofFn ω) = some (a, b, rest) ∧ (a, b) = g := by
  unfold jumpOpt
  rw [Option.map_eq_some_iff]
  constructor
  · rintro ⟨⟨a, b, rest⟩, h, rfl⟩; exact ⟨a, b, rest, h, rfl⟩
  · rintro ⟨a, b, rest, h, rfl⟩; exact ⟨(a, b, rest), h, rfl⟩

/-- the limit law of the balancing draw: two independent truncated normals about zero -/
noncomputable def jumpLaw : Measure Lune :=
  (truncLaw 0 w.gammaDc (-(π / 6)) (π / 6)).prod (truncLaw 0 w.deltaDc (-(π / 2)) (π / 2))

/-- probability that both loops of the balancing draw succeed within `n` draws -/
noncomputable def cJump : ℕ → ℝ≥0∞ :=
  conv (gaussianReal 0 1 (okSet (absLe (π / 6)) 0 w.gammaDc)ᶜ)
    (gaussianReal 0 1 (okSet (absLe (π / 6)) 0 w.gammaDc))
    (conv (gaussianReal 0 1 (okSet (absLe (π / 2)) 0 w.deltaDc)ᶜ)
      (gaussianReal 0 1 (okSet (absLe (π / 2)) 0 w.deltaDc)) (fun _ => 1))

theorem cJump_tendsto (hg : 0 < w.gammaDc) (hd : 0 < w.deltaDc) :
    Tendsto (cJump w) atTop (𝓝 1) := by
  have hp6 : -(π / 6) < π / 6 := by linarith [Real.pi_pos]
  have hp2 : -(π / 2) < π / 2 := by linarith [Real.pi_pos]
  have hSg := okSet_measurable' (absLe (π / 6)) 0 w.gammaDc _ _ (absLe_iff_Icc' _)
  have hSd := okSet_measurable' (absLe (π / 2)) 0 w.deltaDc _ _ (absLe_iff_Icc' _)
  have m1 : Monotone (conv (gaussianReal 0 1 (okSet (absLe (π / 2)) 0 w.deltaDc)ᶜ)
      (gaussianReal 0 1 (okSet (absLe (π / 2)) 0 w.deltaDc)) (fun _ => 1)) :=
    conv_mono _ _ monotone_const
  have t1 := conv_full_tendsto (gaussianReal 0 1) hSd
    (gaussian_okSet_ne_zero _ 0 hd hp2 (absLe_iff_Icc' _)) monotone_const tendsto_const_nhds
  exact conv_full_tendsto (gaussianReal 0 1) hSg
    (gaussian_okSet_ne_zero _ 0 hg hp6 (absLe_iff_Icc' _)) m1 t1

theorem jumpLaw_prob (hg : 0 < w.gammaDc) (hd : 0 < w.deltaDc) :
    IsProbabilityMeasure (jumpLaw w) := by
  have := truncLaw_prob 0 hg (by linarith [Real.pi_pos] : -(π / 6) < π / 6)
  have := truncLaw_prob 0 hd (by linarith [Real.pi_pos] : -(π / 2) < π / 2)
  unfold jumpLaw
  infer_instance

theorem jump_box_law (hg : 0 < w.gammaDc) (hd : 0 < w.deltaDc) {Bg Bd : Set ℝ}
    (hBg : MeasurableSet Bg) (hBd : MeasurableSet Bd) (n : ℕ) :
    MeasurableSet (ev (jumpOpt w n) (Bg ×ˢ Bd)) ∧
      Measure.pi (fun _ : Fin n => gaussianReal 0 1) (ev (jumpOpt w n) (Bg ×ˢ Bd)) =
        cJump w n * jumpLaw w (Bg ×ˢ Bd) := by
  have hp6 : -(π / 6) < π / 6 := by linarith [Real.pi_pos]
  have hp2 : -(π / 2) < π / 2 := by linarith [Real.pi_pos]
  have hSg := okSet_measurable' (absLe (π / 6)) 0 w.gammaDc _ _ (absLe_iff_Icc' _)
  have hSd := okSet_measurable' (absLe (π / 2)) 0 w.deltaDc _ _ (absLe_iff_Icc' _)
  have hev : ev (jumpOpt w n) (Bg ×ˢ Bd) =
      restSet (loopG (absLe (π / 6)) 0 w.gammaDc Bg
        (loopG (absLe (π / 2)) 0 w.deltaDc Bd (fun _ => True))) n := by
    ext ω
    refine Iff.trans ?_ (jumpDraw_iff w Bg Bd (List.ofFn ω))
    simp only [ev, mem_ofPred_eq, jumpOpt_eq_some]
    constructor
    · rintro ⟨θ, ⟨a, b, rest, h, rfl⟩, hB⟩
      exact ⟨a, b, rest, h, (Set.mem_prod.mp hB).1, (Set.mem_prod.mp hB).2⟩
    · rintro ⟨a, b, rest, h, ha, hb⟩
      exact ⟨(a, b), ⟨a, b, rest, h, rfl⟩, Set.mk_mem_prod ha hb⟩
  rw [hev]
  refine ⟨measurableSet_restSet_loopG hSg hBg
    (measurableSet_restSet_loopG hSd hBd measurableSet_restSet_true) n, ?_⟩
  rw [restSet_loopG_measure _ _ _ _ hSg, gaussian_loop_eq _ 0 hg hp6 (absLe_iff_Icc' _) hBg]
  have key := conv_fac (gaussianReal 0 1 (okSet (absLe (π / 6)) 0 w.gammaDc)ᶜ)
    (gaussianReal 0 1 (okSet (absLe (π / 6)) 0 w.gammaDc))
    (truncLaw 0 w.gammaDc (-(π / 6)) (π / 6) Bg)
    (truncLaw 0 w.deltaDc (-(π / 2)) (π / 2) Bd * 1)
    (a := fun k => Measure.pi (fun _ : Fin k => gaussianReal 0 1)
      (restSet (loopG (absLe (π / 2)) 0 w.deltaDc Bd (fun _ => True)) k))
    (b := conv (gaussianReal 0 1 (okSet (absLe (π / 2)) 0 w.deltaDc)ᶜ)
      (gaussianReal 0 1 (okSet (absLe (π / 2)) 0 w.deltaDc)) (fun _ => 1))
    (fun k => by
      rw [restSet_loopG_measure _ _ _ _ hSd, gaussian_loop_eq _ 0 hd hp2 (absLe_iff_Icc' _) hBd]
      exact conv_fac _ _ _ 1 (fun j => by rw [restSet_true, measure_univ, one_mul]) k) n
  rw [key, jumpLaw, Measure.prod_prod, cJump]
  ring

/-- **finite-stream law of the balancing draw** on every measurable set of `(γ, δ)` -/
theorem jumpOpt_law (hg : 0 < w.gammaDc) (hd : 0 < w.deltaDc) (n : ℕ) (A : Set Lune)
    (hA : MeasurableSet A) :
    MeasurableSet (ev (jumpOpt w n) A) ∧
      Measure.pi (fun _ : Fin n => gaussianReal 0 1) (ev (jumpOpt w n) A) =
        cJump w n * jumpLaw w A := by
  have := jumpLaw_prob w hg hd
  refine ev_law_of_piSystem (Measure.pi fun _ : Fin n => gaussianReal 0 1) (jumpOpt w n)
    (jumpLaw w) (cJump w n)
    (image2 (· ×ˢ ·) {s : Set ℝ | MeasurableSet s} {t : Set ℝ | MeasurableSet t})
    generateFrom_prod.symm isPiSystem_prod
    ⟨univ, by simp, univ, by simp, by simp⟩ (fun A hA => ?_) A hA
  obtain ⟨Bg, hBg, Bd, hBd, rfl⟩ := hA
  exact jump_box_law w hg hd (by simpa using hBg) (by simpa using hBd) n

/-- the balancing draw has the density `jumpQ` (`jump_params(x)` of the code) on the lune box, when
    `proposal_normalisation` is what `__init__` computes -/
theorem jumpLaw_eq_withDensity (hg : 0 < w.gammaDc) (hd : 0 < w.deltaDc)
    (hn : w.propNorm = propNormOf w.gammaDc w.deltaDc) (d : Ori) :
    jumpLaw w = luneBox.withDensity (jumpDens w d) := by
  have hp6 : -(π / 6) < π / 6 := by linarith [Real.pi_pos]
  unfold jumpLaw truncLaw luneBox
  rw [prod_withDensity (measurable_truncTerm_fst 0 w.gammaDc (-(π / 6)) (π / 6))
    (measurable_truncTerm_fst 0 w.deltaDc (-(π / 2)) (π / 2))]
  congr 1
  funext g
  rw [jumpDens, C05.jumpQ_eq_truncTerms w hg hd hn,
    ENNReal.ofReal_mul (truncTerm_pos' _ 0 hg hp6).le]
  rfl

/-! ### the up-jump step -/

/-- the up-jump step from the double-couple state `d`: `transDSample` with the jump draw `uj`, the
    accept draw `u`; on rejection or an exhausted stream the chain stays at `d` -/
noncomputable def jumpStepNext (pj : ℝ) (d : Ori) (uj : ℝ) (zs : List ℝ) (u : ℝ) : Ori ⊕ Ori × Lune :=
  match transDSample true pj w (tapeDC d) uj zs with
  | some (x, _, _) =>
    if Acceptance.decide u (acceptJumpUp prior w (tapeDC d) x p (L (tapeDC d)) (L x)) then
      Sum.inr (d, (x.gamma, x.delta))
    else Sum.inl d
  | none => Sum.inl d

theorem jumpStepNext_some {pj : ℝ} (d : Ori) {uj : ℝ} (hu : uj ≤ pj) {zs : List ℝ} {a b : ℝ}
    {rest : List ℝ} (h : jumpDraw w zs = some (a, b, rest)) (u : ℝ) :
    jumpStepNext prior w L p pj d uj zs u =
      if u < acceptJumpUp prior w (tapeDC d) (tapeMT (d, (a, b))) p (L (tapeDC d))
          (L (tapeMT (d, (a, b)))) then Sum.inr (d, (a, b)) else Sum.inl d := by
  unfold jumpStepNext
  rw [transDSample_up pj w d hu, h]
  simp only [Option.map_some, Acceptance.decide, flt_ltb, decide_eq_true_eq]
  rfl

theorem jumpStepNext_none {pj : ℝ} (d : Ori) {uj : ℝ} (hu : uj ≤ pj) {zs : List ℝ}
    (h : jumpDraw w zs = none) (u : ℝ) :
    jumpStepNext prior w L p pj d uj zs u = Sum.inl d := by
  simp [jumpStepNext, transDSample_up pj w d hu, h]

/-- the up-jump acceptance as a function of the proposed state of the two-model space -/
noncomputable def accUpSum : Ori ⊕ Ori × Lune → ℝ :=
  Sum.elim (fun _ => 0) fun m =>
    acceptJumpUp prior w (tapeDC m.1) (tapeMT m) p (L (tapeDC m.1)) (L (tapeMT m))

/-- **Up-jump step, stream of `n` draws (exact).** -/
theorem jump_step_law_finite (hp : ∀ b t, 0 ≤ prior b t) (hw : C05.WidthsPos w) (hp0 : 0 ≤ p)
    (hp1 : p ≤ 1)
    (hpD : Measurable fun d : Ori => prior true (tapeDC d))
    (hpM : Measurable fun m : Ori × Lune => prior false (tapeMT m))
    (hLD : Measurable fun d : Ori => toProb (L (tapeDC d)))
    (hLM : Measurable fun m : Ori × Lune => toProb (L (tapeMT m)))
    {pj uj : ℝ} (hu : uj ≤ pj) (d : Ori) (n : ℕ) {B : Set (Ori ⊕ Ori × Lune)}
    (hB : MeasurableSet B) :
    ((Measure.pi fun _ : Fin n => gaussianReal 0 1).prod unif)
        {q | jumpStepNext prior w L p pj d uj (List.ofFn q.1) q.2 ∈ B} =
      cJump w n * ∫⁻ g in {g | Sum.inr (d, g) ∈ B}, accUp prior w L p d g ∂(jumpLaw w) +
        (1 - cJump w n * ∫⁻ g, accUp prior w L p d g ∂(jumpLaw w)) * B.indicator 1 (Sum.inl d) := by
  obtain ⟨_, _, _, _, _, hg, hd, _⟩ := id hw
  have hι : Measurable fun g : Lune => (Sum.inr (d, g) : Ori ⊕ Ori × Lune) :=
    measurable_inr.comp (measurable_const.prodMk measurable_id)
  have hlaw := jumpOpt_law w hg hd n
  have hevι : ∀ A : Set (Ori ⊕ Ori × Lune),
      ev (fun ω => (jumpOpt w n ω).map fun g => (Sum.inr (d, g) : Ori ⊕ Ori × Lune)) A =
        ev (jumpOpt w n) ((fun g : Lune => (Sum.inr (d, g) : Ori ⊕ Ori × Lune)) ⁻¹' A) := by
    intro A
    ext ω
    simp only [ev, mem_ofPred_eq, Option.map_eq_some_iff, mem_preimage]
    constructor
    · rintro ⟨θ, ⟨g, h, rfl⟩, hA⟩; exact ⟨g, h, hA⟩
    · rintro ⟨g, h, hA⟩; exact ⟨_, ⟨g, h, rfl⟩, hA⟩
  have ham : Measurable (accUpSum prior w L p) :=
    Measurable.sumElim measurable_const (measurable_acceptJumpUp prior w L p hpD hpM hLD hLM)
  have h := step_law (Measure.pi fun _ : Fin n => gaussianReal 0 1)
    (fun ω => (jumpOpt w n ω).map fun g => (Sum.inr (d, g) : Ori ⊕ Ori × Lune)) (Sum.inl d)
    (a := accUpSum prior w L p) ham
    (fun θ => by
      cases θ with
      | inl _ => exact zero_le_one
      | inr m => exact (acceptJumpUp_mem_Icc prior w p hp hw hp0 hp1 _ _ _ _).2)
    (cJump w n • (jumpLaw w).map fun g => (Sum.inr (d, g) : Ori ⊕ Ori × Lune))
    (fun A hA => by rw [hevι]; exact (hlaw _ (hι hA)).1)
    (fun A hA => by
      rw [hevι, (hlaw _ (hι hA)).2, Measure.smul_apply, smul_eq_mul, Measure.map_apply hι hA])
    (fun ω u => jumpStepNext prior w L p pj d uj (List.ofFn ω) u)
    (fun ω θ hθ u => by
      obtain ⟨g, hg', rfl⟩ := Option.map_eq_some_iff.mp hθ
      obtain ⟨a, b, rest, hab, rfl⟩ := (jumpOpt_eq_some w).mp hg'
      rw [jumpStepNext_some prior w L p d hu hab u]
      rfl)
    (fun ω hω u => by
      have : jumpDraw w (List.ofFn ω) = none := by
        simpa [jumpOpt] using hω
      rw [jumpStepNext_none prior w L p d hu this u])
    hB
  rw [h, Measure.restrict_smul, lintegral_smul_measure, lintegral_smul_measure, smul_eq_mul,
    smul_eq_mul, Measure.restrict_map hι hB, lintegral_map ham.ennreal_ofReal hι,
    lintegral_map ham.ennreal_ofReal hι]
  rfl

/-- **The up-jump step has the law of the reversible-jump kernel** `jumpK` of `C07TransD` (limit of
    a long stream): from the double-couple state `d`, the next state lies in `B` with probability
    `∫_{g : (d,g) ∈ B} jumpQ · acceptJumpUp dg + (1 − ∫ jumpQ · acceptJumpUp dg) · 1_B(d)`. -/
theorem jump_step_law_limit (hp : ∀ b t, 0 ≤ prior b t) (hw : C05.WidthsPos w) (hp0 : 0 ≤ p)
    (hp1 : p ≤ 1) (hn : w.propNorm = propNormOf w.gammaDc w.deltaDc)
    (hpD : Measurable fun d : Ori => prior true (tapeDC d))
    (hpM : Measurable fun m : Ori × Lune => prior false (tapeMT m))
    (hLD : Measurable fun d : Ori => toProb (L (tapeDC d)))
    (hLM : Measurable fun m : Ori × Lune => toProb (L (tapeMT m)))
    {pj uj : ℝ} (hu : uj ≤ pj) (d : Ori) {B : Set (Ori ⊕ Ori × Lune)} (hB : MeasurableSet B) :
    Tendsto (fun n : ℕ => ((Measure.pi fun _ : Fin n => gaussianReal 0 1).prod unif)
        {q | jumpStepNext prior w L p pj d uj (List.ofFn q.1) q.2 ∈ B}) atTop
      (𝓝 (jumpK luneBox (jumpDens w) (accUp prior w L p) (accDown prior w L p) (Sum.inl d) B)) := by
  obtain ⟨_, _, _, _, _, hg, hd, _⟩ := id hw
  have hΛ := jumpLaw_prob w hg hd
  have hc := cJump_tendsto w hg hd
  simp_rw [jump_step_law_finite prior w L p hp hw hp0 hp1 hpD hpM hLD hLM hu d _ hB]
  have hι : Measurable fun g : Lune => (Sum.inr (d, g) : Ori ⊕ Ori × Lune) :=
    measurable_inr.comp (measurable_const.prodMk measurable_id)
  have hS : MeasurableSet {g : Lune | Sum.inr (d, g) ∈ B} := hι hB
  have hacc : Measurable fun g : Lune => accUp prior w L p d g :=
    ((measurable_acceptJumpUp prior w L p hpD hpM hLD hLM).comp
      (measurable_const.prodMk measurable_id)).ennreal_ofReal
  have hdens : Measurable (jumpDens w d) :=
    ((measurable_jumpQ_MT w).comp (measurable_const.prodMk measurable_id)).ennreal_ofReal
  have hle : ∀ s : Set Lune, ∫⁻ g in s, accUp prior w L p d g ∂(jumpLaw w) ≤ 1 := by
    intro s
    calc ∫⁻ g in s, accUp prior w L p d g ∂(jumpLaw w)
        ≤ ∫⁻ _g in s, 1 ∂(jumpLaw w) := lintegral_mono fun g =>
          ENNReal.ofReal_le_one.mpr (acceptJumpUp_mem_Icc prior w p hp hw hp0 hp1 _ _ _ _).2
      _ ≤ 1 := by
          rw [lintegral_one, Measure.restrict_apply_univ]
          exact prob_le_one
  have hI1 := ne_top_of_le_ne_top ENNReal.one_ne_top (hle {g | Sum.inr (d, g) ∈ B})
  have hI2 : ∫⁻ g, accUp prior w L p d g ∂(jumpLaw w) ≠ ⊤ := by
    have := hle Set.univ
    rw [Measure.restrict_univ] at this
    exact ne_top_of_le_ne_top ENNReal.one_ne_top this
  have t1 := ENNReal.Tendsto.mul_const hc (Or.inr hI1)
  have t2 := ENNReal.Tendsto.mul_const hc (Or.inr hI2)
  rw [one_mul] at t1 t2
  have t3 := ENNReal.Tendsto.sub (tendsto_const_nhds (x := (1 : ℝ≥0∞))) t2 (Or.inl ENNReal.one_ne_top)
  have hind : B.indicator (1 : Ori ⊕ Ori × Lune → ℝ≥0∞) (Sum.inl d) ≠ ⊤ := by
    by_cases h : (Sum.inl d : Ori ⊕ Ori × Lune) ∈ B <;> simp [h]
  have h := t1.add (ENNReal.Tendsto.mul_const t3 (Or.inr hind))
  have hlim : jumpK luneBox (jumpDens w) (accUp prior w L p) (accDown prior w L p) (Sum.inl d) B =
      ∫⁻ g in {g | Sum.inr (d, g) ∈ B}, accUp prior w L p d g ∂(jumpLaw w) +
        (1 - ∫⁻ g, accUp prior w L p d g ∂(jumpLaw w)) * B.indicator 1 (Sum.inl d) := by
    rw [jumpLaw_eq_withDensity w hg hd hn d,
      setLIntegral_withDensity_eq_setLIntegral_mul _ hdens hacc hS,
      lintegral_withDensity_eq_lintegral_mul _ hdens hacc]
    rfl
  rw [hlim]
  exact h

end Jump
end MTfitVerif.C07
