import MTfitVerif.Props.C05
import MTfitVerif.Real.LogPSem
import MTfitVerif.Real.StationaryLemmas
import MTfitVerif.Real.StationaryModelLemmas
/-
  C07 (stationarity half) — detailed balance ⇒ the posterior is stationary for the
  Metropolis–Hastings kernel, i.e. "the recorded chain is a sample of the posterior" in the sense
  that once the current state is posterior-distributed every later recorded state is.

  A. general state space, densities w.r.t. an s-finite reference measure (`mh_stationary`,
     `mhKernel_invariant`, `mh_stationary_iterate`);
  B. finite state space, transition matrix (`mh_finite_stationary`, `mh_finite_example`);
  C. the model's acceptance `acceptMH`, proposal density `transPdf` and posterior
     `prior × exp (ln-likelihood)` satisfy the detailed-balance hypothesis of A and B
     (`model_detailed_balance`, a corollary of `C05.mh_detailed_balance`), hence
     `mh_chain_posterior_stationary` (finite set of states) and
     `mh_chain_posterior_stationary_density` (density form).

  Definitions (`mhK`, `mhKernel`, `mhMatrix`) and helper lemmas live in
  `Real/StationaryLemmas.lean`.
-/
namespace MTfitVerif.C07
open MTfitVerif LogP Acceptance Stationary
open MeasureTheory ProbabilityTheory
open scoped ENNReal

/-! ## A. general state space -/
section General
variable {X : Type*} [MeasurableSpace X] (lam : Measure X) [SFinite lam]
  {π : X → ℝ≥0∞} {q a : X → X → ℝ≥0∞}

/-- **Detailed balance ⇒ stationarity** (set-function form).  `lam` is the reference measure
    (s-finite; every σ-finite measure is), `π` the unnormalised target density, `q x y` the density
    of proposing `y` from `x`, `a x y` the acceptance probability; `mhK lam q a x B` is the
    probability of being in `B` after one step from `x` (move with probability `a`, otherwise the
    current state is recorded again).  No finiteness of `π` is needed. -/
theorem mh_stationary (hπ : Measurable π) (hq : Measurable (Function.uncurry q))
    (ha : Measurable (Function.uncurry a)) (hqn : ∀ x, ∫⁻ y, q x y ∂lam = 1)
    (ha1 : ∀ x y, a x y ≤ 1) (hdb : ∀ x y, π x * q x y * a x y = π y * q y x * a y x)
    {B : Set X} (hB : MeasurableSet B) :
    ∫⁻ x, π x * mhK lam q a x B ∂lam = ∫⁻ x in B, π x ∂lam := by
  have hA := measurable_moveProb (lam := lam) hq ha
  have hmeas1 : Measurable fun x => π x * ∫⁻ y in B, q x y * a x y ∂lam :=
    hπ.mul ((measurable_qa hq ha).lintegral_prod_right' (ν := lam.restrict B))
  simp only [mhK_eq, mul_add]
  have hmeas2 : Measurable fun x => π x * moveProb lam q a x := hπ.mul hA
  rw [lintegral_add_left hmeas1, flow_into hπ hq ha hdb B, flow_stay hB,
    ← lintegral_add_left hmeas2]
  refine lintegral_congr fun x => ?_
  rw [← mul_add, add_tsub_cancel_of_le (moveProb_le_one hqn ha1 x), mul_one]

/-- the Metropolis–Hastings kernel is a Markov kernel -/
theorem mhKernel_isMarkov (hq : Measurable (Function.uncurry q))
    (ha : Measurable (Function.uncurry a)) (hqn : ∀ x, ∫⁻ y, q x y ∂lam = 1)
    (ha1 : ∀ x y, a x y ≤ 1) : IsMarkovKernel (mhKernel lam q a) := by
  refine ⟨fun x => ⟨?_⟩⟩
  rw [mhKernel_apply hq ha x MeasurableSet.univ, mhK_eq, Measure.restrict_univ]
  simp only [Set.indicator_univ, Pi.one_apply, mul_one]
  exact add_tsub_cancel_of_le (moveProb_le_one hqn ha1 x)

/-- **Detailed balance ⇒ the measure with density `π` is invariant** for the
    Metropolis–Hastings `Kernel` (Mathlib's `Kernel.Invariant`: `μ.bind κ = μ`) -/
theorem mhKernel_invariant (hπ : Measurable π) (hq : Measurable (Function.uncurry q))
    (ha : Measurable (Function.uncurry a)) (hqn : ∀ x, ∫⁻ y, q x y ∂lam = 1)
    (ha1 : ∀ x y, a x y ≤ 1) (hdb : ∀ x y, π x * q x y * a x y = π y * q y x * a y x) :
    Kernel.Invariant (mhKernel lam q a) (lam.withDensity π) := by
  unfold Kernel.Invariant
  ext B hB
  rw [Measure.bind_apply hB (Kernel.aemeasurable _), withDensity_apply _ hB,
    lintegral_withDensity_eq_lintegral_mul _ hπ (Kernel.measurable_coe _ hB)]
  simp only [Pi.mul_apply, mhKernel_apply hq ha _ hB]
  exact mh_stationary lam hπ hq ha hqn ha1 hdb hB

/-- **`n` steps**: pushing the measure with density `π` through the kernel any number of times
    gives it back -/
theorem mh_stationary_iterate (hπ : Measurable π) (hq : Measurable (Function.uncurry q))
    (ha : Measurable (Function.uncurry a)) (hqn : ∀ x, ∫⁻ y, q x y ∂lam = 1)
    (ha1 : ∀ x y, a x y ≤ 1) (hdb : ∀ x y, π x * q x y * a x y = π y * q y x * a y x) (n : ℕ) :
    (fun μ : Measure X => μ.bind (mhKernel lam q a))^[n] (lam.withDensity π) = lam.withDensity π :=
  Function.iterate_fixed (f := fun μ : Measure X => μ.bind (mhKernel lam q a))
    (mhKernel_invariant lam hπ hq ha hqn ha1 hdb).def n

/-- … in particular the law of the state after `n` steps gives every measurable set its
    posterior mass -/
theorem mh_stationary_iterate_apply (hπ : Measurable π) (hq : Measurable (Function.uncurry q))
    (ha : Measurable (Function.uncurry a)) (hqn : ∀ x, ∫⁻ y, q x y ∂lam = 1)
    (ha1 : ∀ x y, a x y ≤ 1) (hdb : ∀ x y, π x * q x y * a x y = π y * q y x * a y x) (n : ℕ)
    {B : Set X} (hB : MeasurableSet B) :
    ((fun μ : Measure X => μ.bind (mhKernel lam q a))^[n] (lam.withDensity π)) B
      = ∫⁻ x in B, π x ∂lam := by
  rw [mh_stationary_iterate lam hπ hq ha hqn ha1 hdb n, withDensity_apply _ hB]

end General

/-! ## B. finite state space -/
section Finite
open Matrix
variable {S : Type*} [Fintype S] [DecidableEq S]

/-- stationarity for all powers of the transition matrix (detailed balance alone) -/
theorem mhMatrix_pow_stationary {π : S → ℝ} {q a : S → S → ℝ}
    (hdb : ∀ x y, π x * q x y * a x y = π y * q y x * a y x) (n : ℕ) :
    π ᵥ* mhMatrix q a ^ n = π := by
  have h1 : π ᵥ* mhMatrix q a = π := funext fun y => by
    simpa [Matrix.vecMul, dotProduct] using mhMatrix_stationary hdb y
  induction n with
  | zero => simp
  | succ n ih => rw [pow_succ', ← Matrix.vecMul_vecMul, h1, ih]

/-- every power of the transition matrix is a stochastic matrix (`n`-step transition
    probabilities) -/
theorem mhMatrix_pow_stochastic {q a : S → S → ℝ} (hq0 : ∀ x y, 0 ≤ q x y)
    (hqn : ∀ x, ∑ y, q x y ≤ 1) (ha0 : ∀ x y, 0 ≤ a x y) (ha1 : ∀ x y, a x y ≤ 1) (n : ℕ) :
    (∀ x y, 0 ≤ (mhMatrix q a ^ n) x y) ∧ ∀ x, ∑ y, (mhMatrix q a ^ n) x y = 1 := by
  induction n with
  | zero =>
    refine ⟨fun x y => ?_, fun x => ?_⟩
    · rw [pow_zero, Matrix.one_apply]; split <;> norm_num
    · simp [Matrix.one_apply]
  | succ n ih =>
    refine ⟨fun x y => ?_, fun x => ?_⟩
    · rw [pow_succ', Matrix.mul_apply]
      exact Finset.sum_nonneg fun z _ => mul_nonneg (mhMatrix_nonneg hq0 hqn ha0 ha1 x z) (ih.1 z y)
    · simp only [pow_succ', Matrix.mul_apply]
      rw [Finset.sum_comm]
      simp only [← Finset.mul_sum, ih.2, mul_one, mhMatrix_row_sum]

/-- **Finite state space, sub-stochastic proposal**: if the proposal weights `q x ·` sum to at
    most 1 (the missing mass is a proposal that is never accepted, i.e. "stay"), the transition
    matrix `P x y = q x y * a x y + (if x = y then 1 - ∑ z, q x z * a x z else 0)` is
    row-stochastic with non-negative entries, `π` is stationary and stays so under every power.
    (`0 ≤ π` is not needed.) -/
theorem mh_finite_stationary_sub (π : S → ℝ) (q a : S → S → ℝ) (hq0 : ∀ x y, 0 ≤ q x y)
    (hqn : ∀ x, ∑ y, q x y ≤ 1) (ha0 : ∀ x y, 0 ≤ a x y) (ha1 : ∀ x y, a x y ≤ 1)
    (hdb : ∀ x y, π x * q x y * a x y = π y * q y x * a y x) :
    (∀ x y, 0 ≤ mhMatrix q a x y) ∧ (∀ x, ∑ y, mhMatrix q a x y = 1) ∧
    (∀ y, ∑ x, π x * mhMatrix q a x y = π y) ∧ ∀ n : ℕ, π ᵥ* mhMatrix q a ^ n = π :=
  ⟨mhMatrix_nonneg hq0 hqn ha0 ha1, mhMatrix_row_sum q a, mhMatrix_stationary hdb,
    mhMatrix_pow_stationary hdb⟩

/-- **Finite state space**: rows of `q` summing to 1, `0 ≤ a ≤ 1`, detailed balance ⇒ the
    Metropolis–Hastings transition matrix is row-stochastic with non-negative entries,
    `∑ x, π x * P x y = π y`, and `π ᵥ* P ^ n = π` for every `n`. -/
theorem mh_finite_stationary (π : S → ℝ) (q a : S → S → ℝ) (hq0 : ∀ x y, 0 ≤ q x y)
    (hqn : ∀ x, ∑ y, q x y = 1) (ha0 : ∀ x y, 0 ≤ a x y) (ha1 : ∀ x y, a x y ≤ 1)
    (hdb : ∀ x y, π x * q x y * a x y = π y * q y x * a y x) :
    (∀ x y, 0 ≤ mhMatrix q a x y) ∧ (∀ x, ∑ y, mhMatrix q a x y = 1) ∧
    (∀ y, ∑ x, π x * mhMatrix q a x y = π y) ∧ ∀ n : ℕ, π ᵥ* mhMatrix q a ^ n = π :=
  mh_finite_stationary_sub π q a hq0 (fun x => (hqn x).le) ha0 ha1 hdb

end Finite

/-- a concrete two-state chain satisfying every hypothesis of `mh_finite_stationary`:
    target `π = (1, 2)`, uniform proposal `q = 1/2`, acceptance `a x y = min 1 (π y / π x)` -/
example :
    let π : Fin 2 → ℝ := ![1, 2]
    let q : Fin 2 → Fin 2 → ℝ := fun _ _ => 1 / 2
    let a : Fin 2 → Fin 2 → ℝ := !![1, 1; 1 / 2, 1]
    (∀ x, 0 ≤ π x) ∧ (∀ x y, 0 ≤ q x y) ∧ (∀ x, ∑ y, q x y = 1) ∧ (∀ x y, 0 ≤ a x y) ∧
    (∀ x y, a x y ≤ 1) ∧ (∀ x y, π x * q x y * a x y = π y * q y x * a y x) ∧
    ∀ n : ℕ, Matrix.vecMul π (mhMatrix q a ^ n) = π := by
  intro π q a
  have hq0 : ∀ x y, 0 ≤ q x y := fun _ _ => by norm_num [q]
  have hqn : ∀ x, ∑ y, q x y = 1 := fun _ => by norm_num [q, Fin.sum_univ_two]
  have ha0 : ∀ x y, 0 ≤ a x y := fun x y => by fin_cases x <;> fin_cases y <;> norm_num [a]
  have ha1 : ∀ x y, a x y ≤ 1 := fun x y => by fin_cases x <;> fin_cases y <;> norm_num [a]
  have hdb : ∀ x y, π x * q x y * a x y = π y * q y x * a y x := fun x y => by
    fin_cases x <;> fin_cases y <;> norm_num [π, q, a]
  exact ⟨fun x => by fin_cases x <;> norm_num [π], hq0, hqn, ha0, ha1, hdb,
    (mh_finite_stationary π q a hq0 hqn ha0 ha1 hdb).2.2.2⟩

/-! ## C. the model's acceptance, proposal and posterior -/
section Model
variable (prior : Bool → Tape ℝ → ℝ) (dc : Bool) (w : Widths ℝ) (L : Tape ℝ → LogP ℝ)

/-- unnormalised posterior density of the single-event sampler: sampling prior × likelihood
    (`toProb (fin l) = exp l`, `toProb negInf = 0`) -/
noncomputable def post (x : Tape ℝ) : ℝ := prior dc x * toProb (L x)

/-- proposal density `q x y`: density of proposing `y` from the current state `x`
    (`transPdf dc w y x`: the model's first state argument is the proposed state) -/
noncomputable def propPdf (x y : Tape ℝ) : ℝ := transPdf dc w y x

/-- acceptance probability `a x y` of the proposal `y` from the current state `x`
    (`acceptMH`: current state and its log-likelihood first, proposal second) -/
noncomputable def acc (x y : Tape ℝ) : ℝ := acceptMH prior dc w x y (L x) (L y)

/-- `C05.mh_detailed_balance` extended to log-likelihoods that may be `-∞`: a zero-likelihood
    proposal is never accepted and a zero-likelihood state carries no mass -/
theorem mh_detailed_balance_logP (hp : ∀ b t, 0 ≤ prior b t) (hw : C05.WidthsPos w)
    (xi x : Tape ℝ) (Lxi Lx : LogP ℝ) :
    prior dc xi * toProb Lxi * transPdf dc w x xi * acceptMH prior dc w xi x Lxi Lx
      = prior dc x * toProb Lx * transPdf dc w xi x * acceptMH prior dc w x xi Lx Lxi := by
  cases Lxi with
  | negInf =>
    cases Lx with
    | negInf => simp
    | fin l => simp [acceptMH]
  | fin l =>
    cases Lx with
    | negInf => simp [acceptMH]
    | fin l' => exact C05.mh_detailed_balance prior hp dc w hw xi x l l'

/-- **the model satisfies the detailed-balance hypothesis of A and B** -/
theorem model_detailed_balance (hp : ∀ b t, 0 ≤ prior b t) (hw : C05.WidthsPos w) (x y : Tape ℝ) :
    post prior dc L x * propPdf dc w x y * acc prior dc w L x y
      = post prior dc L y * propPdf dc w y x * acc prior dc w L y x :=
  mh_detailed_balance_logP prior dc w hp hw x y (L x) (L y)

theorem post_nonneg (hp : ∀ b t, 0 ≤ prior b t) (x : Tape ℝ) : 0 ≤ post prior dc L x :=
  mul_nonneg (hp dc x) (toProb_nonneg _)

theorem propPdf_pos (hw : C05.WidthsPos w) (x y : Tape ℝ) : 0 < propPdf dc w x y :=
  C05.transPdf_pos dc w hw y x

theorem acc_mem_Icc (hp : ∀ b t, 0 ≤ prior b t) (hw : C05.WidthsPos w) (x y : Tape ℝ) :
    0 ≤ acc prior dc w L x y ∧ acc prior dc w L x y ≤ 1 :=
  C05.acceptMH_mem_Icc prior hp dc w hw x y (L x) (L y)

/-- **Finite set of states with cell volumes**: states `st s`, cell volumes `vol s ≥ 0`; the
    target gives the cell `s` the mass `post (st s) * vol s`, the proposal proposes the cell `t`
    from `s` with probability `propPdf (st s) (st t) * vol t` (assumed to sum to at most 1 over
    `t`), and the acceptance is the model's.  Then the Metropolis–Hastings transition matrix is
    stochastic and the posterior masses are stationary for every number of steps. -/
theorem mh_chain_posterior_stationary_cells {S : Type*} [Fintype S] [DecidableEq S]
    (hp : ∀ b t, 0 ≤ prior b t) (hw : C05.WidthsPos w) (st : S → Tape ℝ) (vol : S → ℝ)
    (hvol : ∀ s, 0 ≤ vol s) (hrow : ∀ s, ∑ t, propPdf dc w (st s) (st t) * vol t ≤ 1) :
    let π : S → ℝ := fun s => post prior dc L (st s) * vol s
    let P : Matrix S S ℝ := mhMatrix (fun s t => propPdf dc w (st s) (st t) * vol t)
      (fun s t => acc prior dc w L (st s) (st t))
    (∀ s, 0 ≤ π s) ∧ (∀ s t, 0 ≤ P s t) ∧ (∀ s, ∑ t, P s t = 1) ∧
    (∀ t, ∑ s, π s * P s t = π t) ∧ ∀ n : ℕ, Matrix.vecMul π (P ^ n) = π := by
  intro π P
  refine ⟨fun s => mul_nonneg (post_nonneg prior dc L hp _) (hvol s), ?_⟩
  refine mh_finite_stationary_sub π _ _
    (fun s t => mul_nonneg (propPdf_pos dc w hw _ _).le (hvol t)) hrow
    (fun s t => (acc_mem_Icc prior dc w L hp hw _ _).1)
    (fun s t => (acc_mem_Icc prior dc w L hp hw _ _).2) fun s t => ?_
  have h := model_detailed_balance prior dc w L hp hw (st s) (st t)
  show post prior dc L (st s) * vol s * (propPdf dc w (st s) (st t) * vol t) * _
    = post prior dc L (st t) * vol t * (propPdf dc w (st t) (st s) * vol s) * _
  linear_combination vol s * vol t * h

/-- **The recorded chain samples the posterior (finite set of states)**: with
    `π x = prior x * exp (L x)`, `q x y = transPdf dc w y x` (rows summing to 1 over the set of
    states) and the model's `acceptMH` as acceptance, the Metropolis–Hastings transition matrix
    "accept with probability `a`, otherwise record the current state again" is stochastic and
    leaves `π` stationary, for every number of steps. -/
theorem mh_chain_posterior_stationary {S : Type*} [Fintype S] [DecidableEq S]
    (hp : ∀ b t, 0 ≤ prior b t) (hw : C05.WidthsPos w) (st : S → Tape ℝ)
    (hrow : ∀ s, ∑ t, transPdf dc w (st t) (st s) = 1) :
    let π : S → ℝ := fun s => prior dc (st s) * toProb (L (st s))
    let P : Matrix S S ℝ := mhMatrix (fun s t => transPdf dc w (st t) (st s))
      (fun s t => acceptMH prior dc w (st s) (st t) (L (st s)) (L (st t)))
    (∀ s, 0 ≤ π s) ∧ (∀ s t, 0 ≤ P s t) ∧ (∀ s, ∑ t, P s t = 1) ∧
    (∀ t, ∑ s, π s * P s t = π t) ∧ ∀ n : ℕ, Matrix.vecMul π (P ^ n) = π := by
  have h := mh_chain_posterior_stationary_cells prior dc w L hp hw st (fun _ => 1)
    (fun _ => zero_le_one) (fun s => by simpa [propPdf] using (hrow s).le)
  simpa [post, propPdf, acc] using h

/-- **The recorded chain samples the posterior (density form)**.  `X` is any measurable
    parametrisation of the states (`st : X → Tape ℝ`) with an s-finite reference measure `lam`.
    The proposal density is the model's `transPdf` times a symmetric factor `k` (the wrapped-normal
    strike kernel, which `transition_pdf` leaves out because it cancels in the ratio; take
    `k = 1` if strike is not part of `X`).  Hypotheses on the ingredients: measurability, and that
    the proposal density is normalised w.r.t. `lam`.  Detailed balance is NOT a hypothesis: it is
    `model_detailed_balance`.  Conclusion: the Metropolis–Hastings kernel with the model's
    acceptance is a Markov kernel, the posterior `prior × likelihood` (as a measure with density
    w.r.t. `lam`) is invariant, and after any number of steps every measurable set carries its
    posterior mass. -/
theorem mh_chain_posterior_stationary_density {X : Type*} [MeasurableSpace X] (lam : Measure X)
    [SFinite lam] (hp : ∀ b t, 0 ≤ prior b t) (hw : C05.WidthsPos w) (st : X → Tape ℝ)
    (k : X → X → ℝ) (hk0 : ∀ x y, 0 ≤ k x y) (hks : ∀ x y, k x y = k y x)
    (hπm : Measurable fun x => post prior dc L (st x))
    (hqm : Measurable (Function.uncurry fun x y => propPdf dc w (st x) (st y) * k x y))
    (ham : Measurable (Function.uncurry fun x y => acc prior dc w L (st x) (st y)))
    (hqn : ∀ x, ∫⁻ y, ENNReal.ofReal (propPdf dc w (st x) (st y) * k x y) ∂lam = 1) :
    let π : X → ℝ≥0∞ := fun x => ENNReal.ofReal (post prior dc L (st x))
    let q : X → X → ℝ≥0∞ := fun x y => ENNReal.ofReal (propPdf dc w (st x) (st y) * k x y)
    let a : X → X → ℝ≥0∞ := fun x y => ENNReal.ofReal (acc prior dc w L (st x) (st y))
    IsMarkovKernel (mhKernel lam q a) ∧
    Kernel.Invariant (mhKernel lam q a) (lam.withDensity π) ∧
    (∀ B, MeasurableSet B → ∫⁻ x, π x * mhK lam q a x B ∂lam = ∫⁻ x in B, π x ∂lam) ∧
    ∀ (n : ℕ) (B : Set X), MeasurableSet B →
      ((fun μ : Measure X => μ.bind (mhKernel lam q a))^[n] (lam.withDensity π)) B
        = ∫⁻ x in B, π x ∂lam := by
  intro π q a
  have hπ : Measurable π := hπm.ennreal_ofReal
  have hq : Measurable (Function.uncurry q) := hqm.ennreal_ofReal
  have ha : Measurable (Function.uncurry a) := ham.ennreal_ofReal
  have ha1 : ∀ x y, a x y ≤ 1 := fun x y =>
    ENNReal.ofReal_le_one.mpr (acc_mem_Icc prior dc w L hp hw _ _).2
  have hdb : ∀ x y, π x * q x y * a x y = π y * q y x * a y x := by
    intro x y
    have hπ0 := post_nonneg prior dc L hp
    have hq0 : ∀ x y, 0 ≤ propPdf dc w (st x) (st y) * k x y := fun x y =>
      mul_nonneg (propPdf_pos dc w hw _ _).le (hk0 x y)
    show ENNReal.ofReal _ * ENNReal.ofReal _ * ENNReal.ofReal _
      = ENNReal.ofReal _ * ENNReal.ofReal _ * ENNReal.ofReal _
    rw [← ENNReal.ofReal_mul (hπ0 _), ← ENNReal.ofReal_mul (mul_nonneg (hπ0 _) (hq0 _ _)),
      ← ENNReal.ofReal_mul (hπ0 _), ← ENNReal.ofReal_mul (mul_nonneg (hπ0 _) (hq0 _ _))]
    congr 1
    have h := model_detailed_balance prior dc w L hp hw (st x) (st y)
    rw [hks y x]
    linear_combination k x y * h
  exact ⟨mhKernel_isMarkov lam hq ha hqn ha1, mhKernel_invariant lam hπ hq ha hqn ha1 hdb,
    fun B hB => mh_stationary lam hπ hq ha hqn ha1 hdb hB,
    fun n B hB => mh_stationary_iterate_apply lam hπ hq ha hqn ha1 hdb n hB⟩

/-- **The recorded chain samples the posterior (density form, source coordinates)**.  The state
    is the coordinate vector `(γ, δ, κ, h, σ)` (`Coord = ℝ⁵`, `toTape` reads it as a `Tape`); the
    reference measure `refMeasure dc μκ` is Lebesgue on the source domain
    `[-π/6, π/6] × [-π/2, π/2] × · × [0, 1] × [-π/2, π/2]` (point masses at 0 on `γ, δ` for a
    double-couple-constrained chain) with any s-finite `μκ` on strike.  The proposal density is
    the model's `transPdf` times a strike kernel `k` that is measurable, non-negative, symmetric
    and normalised w.r.t. `μκ` (the code's wrapped normal; `transition_pdf` leaves it out because
    it cancels).  Here neither detailed balance nor the normalisation of the proposal nor the
    measurability of proposal and acceptance is assumed: they are proved
    (`model_detailed_balance`, `lintegral_proposal`, `measurable_transPdf_coord`,
    `measurable_acceptMH`).  What is assumed: the sampling prior is non-negative and measurable,
    the likelihood `toProb ∘ L` is measurable, the widths are positive. -/
theorem mh_chain_posterior_stationary_coord (hp : ∀ b t, 0 ≤ prior b t) (hw : C05.WidthsPos w)
    (μκ : Measure ℝ) [SFinite μκ] (k : ℝ → ℝ → ℝ) (hkm : Measurable (Function.uncurry k))
    (hk0 : ∀ a b, 0 ≤ k a b) (hks : ∀ a b, k a b = k b a)
    (hkn : ∀ a, ∫⁻ b, ENNReal.ofReal (k a b) ∂μκ = 1)
    (hprior : Measurable fun x : Coord => prior dc (toTape x))
    (hL : Measurable fun x : Coord => toProb (L (toTape x))) :
    let lam : Measure Coord := refMeasure dc μκ
    let π : Coord → ℝ≥0∞ := fun x => ENNReal.ofReal (post prior dc L (toTape x))
    let q : Coord → Coord → ℝ≥0∞ := fun x y =>
      ENNReal.ofReal (propPdf dc w (toTape x) (toTape y) * k x.2.2.1 y.2.2.1)
    let a : Coord → Coord → ℝ≥0∞ := fun x y =>
      ENNReal.ofReal (acc prior dc w L (toTape x) (toTape y))
    IsMarkovKernel (mhKernel lam q a) ∧
    Kernel.Invariant (mhKernel lam q a) (lam.withDensity π) ∧
    (∀ B, MeasurableSet B → ∫⁻ x, π x * mhK lam q a x B ∂lam = ∫⁻ x in B, π x ∂lam) ∧
    ∀ (n : ℕ) (B : Set Coord), MeasurableSet B →
      ((fun μ : Measure Coord => μ.bind (mhKernel lam q a))^[n] (lam.withDensity π)) B
        = ∫⁻ x in B, π x ∂lam := by
  obtain ⟨hg, hd, _, hh, hs, _, _, _⟩ := id hw
  have hT := measurable_transPdf_coord dc w
  have hkm' : Measurable fun p : Coord × Coord => k p.1.2.2.1 p.2.2.2.1 :=
    hkm.comp (f := fun p : Coord × Coord => (p.1.2.2.1, p.2.2.2.1)) (by fun_prop)
  exact mh_chain_posterior_stationary_density prior dc w L (refMeasure dc μκ) hp hw toTape
    (fun x y => k x.2.2.1 y.2.2.1) (fun _ _ => hk0 _ _) (fun _ _ => hks _ _)
    (hprior.mul hL) (hT.mul hkm') (measurable_acceptMH prior dc w L toTape hT hprior hL)
    (lintegral_proposal dc w ⟨hg, hd, hh, hs⟩ μκ k hkm hk0 hkn)

end Model

/-- the hypotheses of `mh_chain_posterior_stationary_coord` are satisfiable: the shipped flat
    prior, a constant likelihood, unit widths, strike uniform on `[0, 2π]` with the uniform kernel -/
example (dc : Bool) :
    let prior : Bool → Tape ℝ → ℝ := flatPrior
    let w : Widths ℝ := ⟨1, 1, 1, 1, 1, 1, 1, 1⟩
    let L : Tape ℝ → LogP ℝ := fun _ => fin 0
    let μκ : Measure ℝ := volume.restrict (Set.Icc 0 (2 * Real.pi))
    let k : ℝ → ℝ → ℝ := fun _ _ => 1 / (2 * Real.pi)
    (∀ b t, 0 ≤ prior b t) ∧ C05.WidthsPos w ∧ Measurable (Function.uncurry k) ∧
    (∀ a b, 0 ≤ k a b) ∧ (∀ a b, k a b = k b a) ∧ (∀ a, ∫⁻ b, ENNReal.ofReal (k a b) ∂μκ = 1) ∧
    (Measurable fun x : Coord => prior dc (toTape x)) ∧
    (Measurable fun x : Coord => toProb (L (toTape x))) := by
  intro prior w L μκ k
  have hπ := Real.pi_pos
  refine ⟨fun b t => ?_, ?_, measurable_const, fun _ _ => by positivity, fun _ _ => rfl,
    fun _ => ?_, ?_, measurable_const⟩
  · simp only [prior, flatPrior, flt_c, flt_pi]
    split <;> positivity
  · simp [C05.WidthsPos, w]
  · simp only [k, μκ, lintegral_const, Measure.restrict_apply MeasurableSet.univ, Set.univ_inter,
      Real.volume_Icc, sub_zero]
    rw [← ENNReal.ofReal_mul (by positivity), one_div_mul_cancel (by positivity), ENNReal.ofReal_one]
  · simp only [prior, flatPrior]
    exact measurable_const
end MTfitVerif.C07
