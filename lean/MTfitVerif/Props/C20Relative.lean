import MTfitVerif.Model.PyxSpec
import MTfitVerif.Model.MultiEvent
import MTfitVerif.Real.PyxLoopLemmas
import MTfitVerif.Real.PyxRelativeLemmas
import MTfitVerif.Props.C20
/-
  C20C — the translated loops of the compiled relative-amplitude kernels (`scale_estimator`,
  `relative_amplitude_ratio_ln_pdf` of cprobability.pyx; `Id.run do` blocks of `Model/PyxKernels.lean`) compute, for every
  scalar type, the per-station scale estimates folded with `combine_mu` / `combine_s` — over the reals `MultiEvent.combineMu`
  of the list of per-station estimates, the model of the Python path used by C15 — and the `ln_P` cells
  `log ar_pdf(x[u]/y[u], mu[v,w]·mux[u], muy[u], psx[u], psy[u])` (or `-inf` when `s[v,w]` is NaN).

  The size parameters of the kernels are named after what the code copies them into: `umax = a_s0` (stations),
  `vmax = a_s1` (location samples), `kmax = a_s2` (components), `wmax = mt1_s1` (tensors).

  `C20.combine_eq` does not hold for every scalar type: the kernel computes `(m₁·s₂)·s₂`, the model of the Python path
  `m₁·(s₂·s₂)`, and multiplication of floats is not associative (at `Float`, `m₁ = 0.84`, `m₂ = 0.2`, `s₁ = 0.3`, `s₂ = 0.7`
  give different first components).  So the statements for every scalar type are in terms of the kernels' own `combine_mu`,
  `combine_s`, and the link to `MultiEvent.combineMu` is stated over the reals.
-/
set_option linter.unusedVariables false
namespace MTfitVerif.C20
open MTfitVerif MTfitVerif.PyxSpec MTfitVerif.PyxLoop MTfitVerif.PyxRel
variable {α : Type} [Add α] [Sub α] [Mul α] [Div α] [Neg α] [Flt α]

/-- scale estimate `(μ, σ)` of station `u` for location sample `v` and tensor pair `w`: `estimate_scale_mu_s` of the observed
    amplitudes `x[u]`, `y[u]`, the modelled amplitudes `Σ_k a1[u,v,k]·mt1[k,w]`, `Σ_k a2[u,v,k]·mt2[k,w]` and the fractional
    errors `psx[u]`, `psy[u]` (the last two arguments of `estimate_scale_mu_s` are C output pointers and are not read).
    `vmax1`, `vmax2` are the second dimensions of `a1`, `a2`, `kmax` their common third dimension, `wmax1`, `wmax2` the second
    dimensions of `mt1`, `mt2`. -/
def stationEst (x y mt1 mt2 a1 a2 psx psy : Array α) (vmax1 vmax2 kmax wmax1 wmax2 v w u : Nat) : α × α :=
  Pyx.cprobability.estimate_scale_mu_s (x.getD u (c 0)) (y.getD u (c 0)) (amp a1 mt1 vmax1 kmax wmax1 u v w)
    (amp a2 mt2 vmax2 kmax wmax2 u v w) (psx.getD u (c 0)) (psy.getD u (c 0)) (c 0) (c 0)

/-- value written to `ln_P[u, v, w]` given the combined scale estimate `est = (μ, σ)` of cell `[v, w]`: `-inf` when `σ` is NaN
    (`σ == σ` fails), otherwise `log ar_pdf(x[u]/y[u], μ·Σ_k a1[u,v,k]·mt1[k,w], Σ_k a2[u,v,k]·mt2[k,w], psx[u], psy[u])` -/
def relLnP (x y mt1 mt2 a1 a2 psx psy : Array α) (vmax1 vmax2 kmax wmax1 wmax2 : Nat) (est : α × α) (u v w : Nat) : α :=
  if (!(Flt.eqb est.2 est.2)) = true then negInf
  else Flt.log (Pyx.cprobability.ar_pdf (x.getD u (c 0) / y.getD u (c 0)) (est.1 * amp a1 mt1 vmax1 kmax wmax1 u v w)
    (amp a2 mt2 vmax2 kmax wmax2 u v w) (psx.getD u (c 0)) (psy.getD u (c 0)))

/-! ### `scale_estimator` -/

/-- both results of `scale_estimator` (at least one station): every cell `[v, w]` of the zero-initialised `vmax × wmax` arrays
    overwritten, in the code's order, with the combined estimate `PyxRel.cellFold` of the per-station estimates -/
theorem scale_estimator_eq (x y mt1 mt2 a psx psy : Array α) (x_s0 y_s0 mt1_s0 wmax mt2_s0 mt2_s1 umax vmax kmax psx_s0 psy_s0 : Nat)
    (hu : 1 ≤ umax) :
    Pyx.cprobability.scale_estimator x x_s0 y y_s0 mt1 mt1_s0 wmax mt2 mt2_s0 mt2_s1 a umax vmax kmax psx psx_s0 psy psy_s0
      = (fillVW (fun v w => (cellFold (stationEst x y mt1 mt2 a a psx psy vmax vmax kmax wmax mt2_s1 v w) umax).1) vmax wmax
            (Array.replicate (vmax * wmax) (c 0)),
         fillVW (fun v w => (cellFold (stationEst x y mt1 mt2 a a psx psy vmax vmax kmax wmax mt2_s1 v w) umax).2) vmax wmax
            (Array.replicate (vmax * wmax) (c 0))) := by
  obtain ⟨n, hn⟩ : ∃ n, umax = n + 1 := ⟨umax - 1, by omega⟩
  unfold Pyx.cprobability.scale_estimator
  simp only [forIn_range_yield, bind_pure_comp, map_pure, Id.run_pure, ite_pure_yield]
  refine ((foldl_sim (List.range vmax) _
    (fun (σ : Array α × Array α × Array α × Array α × Nat × Nat × Nat × Nat × α × α) => (σ.1, σ.2.1))
    (fun (M : Array α × Array α) v => (List.range wmax).foldl (fun (M : Array α × Array α) w =>
      (M.1.setIfInBounds (v * wmax + w) (cellFold (stationEst x y mt1 mt2 a a psx psy vmax vmax kmax wmax mt2_s1 v w) umax).1,
       M.2.setIfInBounds (v * wmax + w) (cellFold (stationEst x y mt1 mt2 a a psx psy vmax vmax kmax wmax mt2_s1 v w) umax).2)) M)
    (fun σ => σ.1.size = vmax * wmax ∧ σ.2.1.size = vmax * wmax ∧ umax ≤ σ.2.2.1.size ∧ umax ≤ σ.2.2.2.1.size)
    ?_ _ ?_).1).trans ?_
  · intro σ v hv hInv
    have hv' := List.mem_range.mp hv
    generalize hW : List.foldl _ _ (List.range wmax) = W
    have HW : (W.1, W.2.1) = (List.range wmax).foldl (fun (M : Array α × Array α) w =>
        (M.1.setIfInBounds (v * wmax + w) (cellFold (stationEst x y mt1 mt2 a a psx psy vmax vmax kmax wmax mt2_s1 v w) umax).1,
         M.2.setIfInBounds (v * wmax + w) (cellFold (stationEst x y mt1 mt2 a a psx psy vmax vmax kmax wmax mt2_s1 v w) umax).2))
          (σ.1, σ.2.1) ∧
        (W.1.size = vmax * wmax ∧ W.2.1.size = vmax * wmax ∧ umax ≤ W.2.2.1.size ∧ umax ≤ W.2.2.2.1.size) := by
      rw [← hW]
      refine foldl_sim (List.range wmax) _
        (fun (σ : Array α × Array α × Array α × Array α × Nat × Nat × Nat × α × α) => (σ.1, σ.2.1))
        (fun (M : Array α × Array α) w =>
          (M.1.setIfInBounds (v * wmax + w) (cellFold (stationEst x y mt1 mt2 a a psx psy vmax vmax kmax wmax mt2_s1 v w) umax).1,
           M.2.setIfInBounds (v * wmax + w) (cellFold (stationEst x y mt1 mt2 a a psx psy vmax vmax kmax wmax mt2_s1 v w) umax).2))
        (fun σ => σ.1.size = vmax * wmax ∧ σ.2.1.size = vmax * wmax ∧ umax ≤ σ.2.2.1.size ∧ umax ≤ σ.2.2.2.1.size)
        ?_ _ hInv
      intro τ w hw hInvτ
      have hw' := List.mem_range.mp hw
      generalize hU : List.foldl _ _ (List.range umax) = U
      have hi : v * wmax + w < vmax * wmax := cell_lt hv' hw'
      have HU : ((U.1, U.2.1), U.2.2.1, U.2.2.2.1) = (List.range umax).foldl
            (fun (P : (Array α × Array α) × Array α × Array α) u =>
              (stStep (v * wmax + w) (stationEst x y mt1 mt2 a a psx psy vmax vmax kmax wmax mt2_s1 v w) P.1 u,
               P.2.1.setIfInBounds u (amp a mt1 vmax kmax wmax u v w),
               P.2.2.setIfInBounds u (amp a mt2 vmax kmax mt2_s1 u v w)))
            ((τ.1, τ.2.1), τ.2.2.1, τ.2.2.2.1) ∧ (umax ≤ U.2.2.1.size ∧ umax ≤ U.2.2.2.1.size) := by
        rw [← hU]
        refine foldl_sim (List.range umax) _
          (fun (σ : Array α × Array α × Array α × Array α × Nat × Nat × α × α) => ((σ.1, σ.2.1), σ.2.2.1, σ.2.2.2.1))
          (fun (P : (Array α × Array α) × Array α × Array α) u =>
              (stStep (v * wmax + w) (stationEst x y mt1 mt2 a a psx psy vmax vmax kmax wmax mt2_s1 v w) P.1 u,
               P.2.1.setIfInBounds u (amp a mt1 vmax kmax wmax u v w),
               P.2.2.setIfInBounds u (amp a mt2 vmax kmax mt2_s1 u v w)))
          (fun σ => umax ≤ σ.2.2.1.size ∧ umax ≤ σ.2.2.2.1.size) ?_ _ ⟨hInvτ.2.2.1, hInvτ.2.2.2⟩
        intro ρ u hu' hInvρ
        have hu'' := List.mem_range.mp hu'
        obtain ⟨hK1, hK2⟩ := kloop ρ.2.2.1 ρ.2.2.2.1 u
          (fun k => a.getD ((u * vmax + v) * kmax + k) (c 0) * mt1.getD (k * wmax + w) (c 0))
          (fun k => a.getD ((u * vmax + v) * kmax + k) (c 0) * mt2.getD (k * mt2_s1 + w) (c 0))
          ρ.2.2.2.2.2.1 (List.range kmax)
        simp only [amp_eq] at hK1 hK2
        simp only [hK1, hK2]
        have hX : u < ρ.2.2.1.size := Nat.lt_of_lt_of_le hu'' hInvρ.1
        have hY : u < ρ.2.2.2.1.size := Nat.lt_of_lt_of_le hu'' hInvρ.2
        have hE : Pyx.cprobability.estimate_scale_mu_s (x.getD u (c 0)) (y.getD u (c 0)) (amp a mt1 vmax kmax wmax u v w)
            (amp a mt2 vmax kmax mt2_s1 u v w) (psx.getD u (c 0)) (psy.getD u (c 0)) ρ.2.2.2.2.2.2.1 ρ.2.2.2.2.2.2.2
            = stationEst x y mt1 mt2 a a psx psy vmax vmax kmax wmax mt2_s1 v w u := rfl
        simp only [getD_setIfInBounds_self _ _ _ _ hX, getD_setIfInBounds_self _ _ _ _ hY, hE]
        by_cases h0 : (u == 0) = true
        · simp only [h0, if_true, stStep]
          exact ⟨trivial, by simpa using hInvρ⟩
        · simp only [h0, stStep]
          exact ⟨rfl, by simpa using hInvρ⟩
      have h3 := HU.1.trans (foldl_prod3 (List.range umax)
        (stStep (v * wmax + w) (stationEst x y mt1 mt2 a a psx psy vmax vmax kmax wmax mt2_s1 v w))
        (fun (X : Array α) u => X.setIfInBounds u (amp a mt1 vmax kmax wmax u v w))
        (fun (Y : Array α) u => Y.setIfInBounds u (amp a mt2 vmax kmax mt2_s1 u v w)) (τ.1, τ.2.1) τ.2.2.1 τ.2.2.2.1)
      rw [hn] at h3
      have h4 := (congrArg Prod.fst h3).trans (stStep_fold _ _ _ n
        (show v * wmax + w < τ.1.size by rw [hInvτ.1]; exact hi) (show v * wmax + w < τ.2.1.size by rw [hInvτ.2.1]; exact hi))
      rw [← hn] at h4
      have h41 := congrArg Prod.fst h4
      have h42 := congrArg Prod.snd h4
      dsimp only at h41 h42 ⊢
      refine ⟨by rw [h41, h42], ?_, ?_, HU.2.1, HU.2.2⟩
      · rw [h41]; simpa using hInvτ.1
      · rw [h42]; simpa using hInvτ.2.1
    exact ⟨HW.1, HW.2⟩
  · simp
  · exact fillVW_pair _ _ vmax wmax _ _

/-- C20C item 1: for `v < vmax`, `w < wmax` and at least one station, cell `[v, w]` of the two results of `scale_estimator` is
    the pair obtained by folding `(μ, σ), (μᵤ, σᵤ) ↦ (combine_mu μ μᵤ σ σᵤ, combine_s σ σᵤ)` over the estimates of stations
    `1, …, umax - 1`, starting from the estimate of station 0. -/
theorem scale_estimator_cell (x y mt1 mt2 a psx psy : Array α)
    (x_s0 y_s0 mt1_s0 wmax mt2_s0 mt2_s1 umax vmax kmax psx_s0 psy_s0 : Nat) {v w : Nat} (hv : v < vmax) (hw : w < wmax)
    (hu : 1 ≤ umax) :
    ((Pyx.cprobability.scale_estimator x x_s0 y y_s0 mt1 mt1_s0 wmax mt2 mt2_s0 mt2_s1 a umax vmax kmax psx psx_s0 psy
        psy_s0).1.getD (v * wmax + w) (c 0),
     (Pyx.cprobability.scale_estimator x x_s0 y y_s0 mt1 mt1_s0 wmax mt2 mt2_s0 mt2_s1 a umax vmax kmax psx psx_s0 psy
        psy_s0).2.getD (v * wmax + w) (c 0))
      = ((List.range' 1 (umax - 1)).map (stationEst x y mt1 mt2 a a psx psy vmax vmax kmax wmax mt2_s1 v w)).foldl
          (fun acc st => (Pyx.cprobability.combine_mu acc.1 st.1 acc.2 st.2, Pyx.cprobability.combine_s acc.2 st.2))
          (stationEst x y mt1 mt2 a a psx psy vmax vmax kmax wmax mt2_s1 v w 0) := by
  rw [scale_estimator_eq _ _ _ _ _ _ _ _ _ _ _ _ _ _ _ _ _ _ hu]
  dsimp only
  rw [getD_fillVW _ vmax wmax _ (c 0) (by simp) hv hw, getD_fillVW _ vmax wmax _ (c 0) (by simp) hv hw]
  rfl

/-! ### the link to `MultiEvent.combineMu` (the model of the Python path, C15), over the reals -/

/-- over the reals the fold of `combine_mu` / `combine_s` over the stations is `MultiEvent.combineMu` -/
theorem cellFold_eq_combineMu (est : Nat → ℝ × ℝ) (umax : Nat) (hu : 1 ≤ umax) :
    MultiEvent.combineMu ((List.range umax).map est) = some (cellFold est umax) := by
  obtain ⟨n, rfl⟩ : ∃ n, umax = n + 1 := ⟨umax - 1, by omega⟩
  have hK : (combK : ℝ × ℝ → ℝ × ℝ → ℝ × ℝ) = MultiEvent.combineStep := by
    funext acc st
    exact combine_eq acc.1 st.1 acc.2 st.2
  rw [List.range_eq_range', List.range'_succ, List.map_cons]
  simp only [MultiEvent.combineMu, cellFold, hK, Nat.add_sub_cancel, Nat.zero_add]

/-- C20C item 1, corollary over the reals: cell `[v, w]` of the results of `scale_estimator` is `MultiEvent.combineMu` of the list
    of the per-station estimates -/
theorem scale_estimator_cell_combineMu (x y mt1 mt2 a psx psy : Array ℝ)
    (x_s0 y_s0 mt1_s0 wmax mt2_s0 mt2_s1 umax vmax kmax psx_s0 psy_s0 : Nat) {v w : Nat} (hv : v < vmax) (hw : w < wmax)
    (hu : 1 ≤ umax) :
    MultiEvent.combineMu ((List.range umax).map (stationEst x y mt1 mt2 a a psx psy vmax vmax kmax wmax mt2_s1 v w))
      = some
        ((Pyx.cprobability.scale_estimator x x_s0 y y_s0 mt1 mt1_s0 wmax mt2 mt2_s0 mt2_s1 a umax vmax kmax psx psx_s0 psy
            psy_s0).1.getD (v * wmax + w) (c 0),
         (Pyx.cprobability.scale_estimator x x_s0 y y_s0 mt1 mt1_s0 wmax mt2 mt2_s0 mt2_s1 a umax vmax kmax psx psx_s0 psy
            psy_s0).2.getD (v * wmax + w) (c 0)) := by
  rw [scale_estimator_cell x y mt1 mt2 a psx psy x_s0 y_s0 mt1_s0 wmax mt2_s0 mt2_s1 umax vmax kmax psx_s0 psy_s0 hv hw hu]
  exact cellFold_eq_combineMu _ umax hu

/-- … and, when no modelled amplitude or observed ratio vanishes and the errors are positive, of the list of
    `MultiEvent.stationScale` values, the per-station estimates of the Python path (`C20.estimate_scale_eq`) -/
theorem scale_estimator_cell_stationScale (x y mt1 mt2 a psx psy : Array ℝ)
    (x_s0 y_s0 mt1_s0 wmax mt2_s0 mt2_s1 umax vmax kmax psx_s0 psy_s0 : Nat) {v w : Nat} (hv : v < vmax) (hw : w < wmax)
    (hu : 1 ≤ umax)
    (hx : ∀ u, u < umax → amp a mt1 vmax kmax wmax u v w ≠ 0) (hy : ∀ u, u < umax → amp a mt2 vmax kmax mt2_s1 u v w ≠ 0)
    (hpx : ∀ u, u < umax → 0 < psx.getD u (c 0)) (hpy : ∀ u, u < umax → 0 < psy.getD u (c 0))
    (hxy : ∀ u, u < umax → x.getD u (c 0) / y.getD u (c 0) ≠ 0) :
    MultiEvent.combineMu ((List.range umax).map fun u =>
        MultiEvent.stationScale |x.getD u (c 0) / y.getD u (c 0)| |amp a mt1 vmax kmax wmax u v w|
          |amp a mt2 vmax kmax mt2_s1 u v w| (psx.getD u (c 0)) (psy.getD u (c 0)))
      = some
        ((Pyx.cprobability.scale_estimator x x_s0 y y_s0 mt1 mt1_s0 wmax mt2 mt2_s0 mt2_s1 a umax vmax kmax psx psx_s0 psy
            psy_s0).1.getD (v * wmax + w) (c 0),
         (Pyx.cprobability.scale_estimator x x_s0 y y_s0 mt1 mt1_s0 wmax mt2 mt2_s0 mt2_s1 a umax vmax kmax psx psx_s0 psy
            psy_s0).2.getD (v * wmax + w) (c 0)) := by
  rw [← scale_estimator_cell_combineMu x y mt1 mt2 a psx psy x_s0 y_s0 mt1_s0 wmax mt2_s0 mt2_s1 umax vmax kmax psx_s0 psy_s0
    hv hw hu]
  congr 1
  refine List.map_congr_left ?_
  intro u hu'
  have hu'' := List.mem_range.mp hu'
  exact (estimate_scale_eq _ _ _ _ _ _ _ _ (hx u hu'') (hy u hu'') (hpx u hu'') (hpy u hu'') (hxy u hu'')).symm

/-! ### `relative_amplitude_ratio_ln_pdf` -/

/-- the three results of `relative_amplitude_ratio_ln_pdf` (at least one station; `a1`, `a2` with the same number `kmax` of
    components): `mu`, `s` as for `scale_estimator`, and every cell `[u, v, w]` of the zero-initialised `ln_P` overwritten with
    `relLnP` of the combined estimate of cell `[v, w]` -/
theorem relative_amplitude_ratio_ln_pdf_eq (x y mt1 mt2 a1 a2 psx psy : Array α) (x_s0 y_s0 mt1_s0 wmax mt2_s0 mt2_s1 umax vmax kmax a2_s0 a2_s1 psx_s0 psy_s0 : Nat)
    (hu : 1 ≤ umax) :
    Pyx.cprobability.relative_amplitude_ratio_ln_pdf x x_s0 y y_s0 mt1 mt1_s0 wmax mt2 mt2_s0 mt2_s1 a1 umax vmax kmax a2 a2_s0 a2_s1 kmax psx psx_s0 psy psy_s0
      = (fillUVW (fun u v w => relLnP x y mt1 mt2 a1 a2 psx psy vmax a2_s1 kmax wmax mt2_s1
            (cellFold (stationEst x y mt1 mt2 a1 a2 psx psy vmax a2_s1 kmax wmax mt2_s1 v w) umax) u v w) umax vmax wmax
            (Array.replicate (umax * vmax * wmax) (c 0)),
         fillVW (fun v w => (cellFold (stationEst x y mt1 mt2 a1 a2 psx psy vmax a2_s1 kmax wmax mt2_s1 v w) umax).1) vmax wmax
            (Array.replicate (vmax * wmax) (c 0)),
         fillVW (fun v w => (cellFold (stationEst x y mt1 mt2 a1 a2 psx psy vmax a2_s1 kmax wmax mt2_s1 v w) umax).2) vmax wmax
            (Array.replicate (vmax * wmax) (c 0))) := by
  obtain ⟨n, hn⟩ : ∃ n, umax = n + 1 := ⟨umax - 1, by omega⟩
  unfold Pyx.cprobability.relative_amplitude_ratio_ln_pdf
  simp only [forIn_range_yield, bind_pure_comp, map_pure, Id.run_pure, ite_pure_yield]
  refine ((foldl_sim (List.range vmax) _
    (fun (σ : Array α × Array α × Array α × Array α × Array α × Nat × Nat × Nat × Nat × α × α) => (σ.1, σ.2.1, σ.2.2.1))
    (fun (M : Array α × Array α × Array α) v => (List.range wmax).foldl (fun (M : Array α × Array α × Array α) w =>
      ((List.range umax).foldl (fun (L : Array α) u => L.setIfInBounds ((u * vmax + v) * wmax + w)
          (relLnP x y mt1 mt2 a1 a2 psx psy vmax a2_s1 kmax wmax mt2_s1
            (cellFold (stationEst x y mt1 mt2 a1 a2 psx psy vmax a2_s1 kmax wmax mt2_s1 v w) umax) u v w)) M.1,
       M.2.1.setIfInBounds (v * wmax + w) (cellFold (stationEst x y mt1 mt2 a1 a2 psx psy vmax a2_s1 kmax wmax mt2_s1 v w) umax).1,
       M.2.2.setIfInBounds (v * wmax + w) (cellFold (stationEst x y mt1 mt2 a1 a2 psx psy vmax a2_s1 kmax wmax mt2_s1 v w) umax).2)) M)
    (fun σ => σ.2.1.size = vmax * wmax ∧ σ.2.2.1.size = vmax * wmax ∧ umax ≤ σ.2.2.2.1.size ∧ umax ≤ σ.2.2.2.2.1.size)
    ?_ _ ?_).1).trans ?_
  · intro σ v hv hInv
    have hv' := List.mem_range.mp hv
    generalize hW : List.foldl _ _ (List.range wmax) = W
    have HW : (W.1, W.2.1, W.2.2.1) = (List.range wmax).foldl (fun (M : Array α × Array α × Array α) w =>
      ((List.range umax).foldl (fun (L : Array α) u => L.setIfInBounds ((u * vmax + v) * wmax + w)
          (relLnP x y mt1 mt2 a1 a2 psx psy vmax a2_s1 kmax wmax mt2_s1
            (cellFold (stationEst x y mt1 mt2 a1 a2 psx psy vmax a2_s1 kmax wmax mt2_s1 v w) umax) u v w)) M.1,
       M.2.1.setIfInBounds (v * wmax + w) (cellFold (stationEst x y mt1 mt2 a1 a2 psx psy vmax a2_s1 kmax wmax mt2_s1 v w) umax).1,
       M.2.2.setIfInBounds (v * wmax + w) (cellFold (stationEst x y mt1 mt2 a1 a2 psx psy vmax a2_s1 kmax wmax mt2_s1 v w) umax).2))
          (σ.1, σ.2.1, σ.2.2.1) ∧
        (W.2.1.size = vmax * wmax ∧ W.2.2.1.size = vmax * wmax ∧ umax ≤ W.2.2.2.1.size ∧ umax ≤ W.2.2.2.2.1.size) := by
      rw [← hW]
      refine foldl_sim (List.range wmax) _
        (fun (σ : Array α × Array α × Array α × Array α × Array α × Nat × Nat × Nat × α × α) => (σ.1, σ.2.1, σ.2.2.1))
        (fun (M : Array α × Array α × Array α) w =>
      ((List.range umax).foldl (fun (L : Array α) u => L.setIfInBounds ((u * vmax + v) * wmax + w)
          (relLnP x y mt1 mt2 a1 a2 psx psy vmax a2_s1 kmax wmax mt2_s1
            (cellFold (stationEst x y mt1 mt2 a1 a2 psx psy vmax a2_s1 kmax wmax mt2_s1 v w) umax) u v w)) M.1,
       M.2.1.setIfInBounds (v * wmax + w) (cellFold (stationEst x y mt1 mt2 a1 a2 psx psy vmax a2_s1 kmax wmax mt2_s1 v w) umax).1,
       M.2.2.setIfInBounds (v * wmax + w) (cellFold (stationEst x y mt1 mt2 a1 a2 psx psy vmax a2_s1 kmax wmax mt2_s1 v w) umax).2))
        (fun σ => σ.2.1.size = vmax * wmax ∧ σ.2.2.1.size = vmax * wmax ∧ umax ≤ σ.2.2.2.1.size ∧ umax ≤ σ.2.2.2.2.1.size)
        ?_ _ hInv
      intro τ w hw hInvτ
      have hw' := List.mem_range.mp hw
      generalize hU : List.foldl _ ((τ.2.1, _) : Array α × Array α × Array α × Array α × Nat × Nat × α × α) (List.range umax) = U
      have hi : v * wmax + w < vmax * wmax := cell_lt hv' hw'
      have HU : ((U.1, U.2.1), U.2.2.1, U.2.2.2.1) = (List.range umax).foldl
            (fun (P : (Array α × Array α) × Array α × Array α) u =>
              (stStep (v * wmax + w) (stationEst x y mt1 mt2 a1 a2 psx psy vmax a2_s1 kmax wmax mt2_s1 v w) P.1 u,
               P.2.1.setIfInBounds u (amp a1 mt1 vmax kmax wmax u v w),
               P.2.2.setIfInBounds u (amp a2 mt2 a2_s1 kmax mt2_s1 u v w)))
            ((τ.2.1, τ.2.2.1), τ.2.2.2.1, τ.2.2.2.2.1) ∧ (umax ≤ U.2.2.1.size ∧ umax ≤ U.2.2.2.1.size) := by
        rw [← hU]
        refine foldl_sim (List.range umax) _
          (fun (σ : Array α × Array α × Array α × Array α × Nat × Nat × α × α) => ((σ.1, σ.2.1), σ.2.2.1, σ.2.2.2.1))
          (fun (P : (Array α × Array α) × Array α × Array α) u =>
              (stStep (v * wmax + w) (stationEst x y mt1 mt2 a1 a2 psx psy vmax a2_s1 kmax wmax mt2_s1 v w) P.1 u,
               P.2.1.setIfInBounds u (amp a1 mt1 vmax kmax wmax u v w),
               P.2.2.setIfInBounds u (amp a2 mt2 a2_s1 kmax mt2_s1 u v w)))
          (fun σ => umax ≤ σ.2.2.1.size ∧ umax ≤ σ.2.2.2.1.size) ?_ _ ⟨hInvτ.2.2.1, hInvτ.2.2.2⟩
        intro ρ u hu' hInvρ
        have hu'' := List.mem_range.mp hu'
        obtain ⟨hK1, hK2⟩ := kloop ρ.2.2.1 ρ.2.2.2.1 u
          (fun k => a1.getD ((u * vmax + v) * kmax + k) (c 0) * mt1.getD (k * wmax + w) (c 0))
          (fun k => a2.getD ((u * a2_s1 + v) * kmax + k) (c 0) * mt2.getD (k * mt2_s1 + w) (c 0))
          ρ.2.2.2.2.2.1 (List.range kmax)
        simp only [amp_eq] at hK1 hK2
        simp only [hK1, hK2]
        have hX : u < ρ.2.2.1.size := Nat.lt_of_lt_of_le hu'' hInvρ.1
        have hY : u < ρ.2.2.2.1.size := Nat.lt_of_lt_of_le hu'' hInvρ.2
        have hE : Pyx.cprobability.estimate_scale_mu_s (x.getD u (c 0)) (y.getD u (c 0)) (amp a1 mt1 vmax kmax wmax u v w)
            (amp a2 mt2 a2_s1 kmax mt2_s1 u v w) (psx.getD u (c 0)) (psy.getD u (c 0)) ρ.2.2.2.2.2.2.1 ρ.2.2.2.2.2.2.2
            = stationEst x y mt1 mt2 a1 a2 psx psy vmax a2_s1 kmax wmax mt2_s1 v w u := rfl
        simp only [getD_setIfInBounds_self _ _ _ _ hX, getD_setIfInBounds_self _ _ _ _ hY, hE]
        by_cases h0 : (u == 0) = true
        · simp only [h0, if_true, stStep]
          exact ⟨trivial, by simpa using hInvρ⟩
        · simp only [h0, stStep]
          exact ⟨rfl, by simpa using hInvρ⟩
      have h3 := HU.1.trans (foldl_prod3 (List.range umax)
        (stStep (v * wmax + w) (stationEst x y mt1 mt2 a1 a2 psx psy vmax a2_s1 kmax wmax mt2_s1 v w))
        (fun (X : Array α) u => X.setIfInBounds u (amp a1 mt1 vmax kmax wmax u v w))
        (fun (Y : Array α) u => Y.setIfInBounds u (amp a2 mt2 a2_s1 kmax mt2_s1 u v w)) (τ.2.1, τ.2.2.1) τ.2.2.2.1 τ.2.2.2.2.1)
      have h43 : U.2.2.1 = _ := congrArg (fun p => p.2.1) h3
      have h44 : U.2.2.2.1 = _ := congrArg (fun p => p.2.2) h3
      rw [hn] at h3
      have h4 := (congrArg Prod.fst h3).trans (stStep_fold _ _ _ n
        (show v * wmax + w < τ.2.1.size by rw [hInvτ.1]; exact hi) (show v * wmax + w < τ.2.2.1.size by rw [hInvτ.2.1]; exact hi))
      rw [← hn] at h4
      have h41 := congrArg Prod.fst h4
      have h42 := congrArg Prod.snd h4
      dsimp only at h41 h42 h43 h44 ⊢
      have hmu : U.1.getD (v * wmax + w) (c 0)
          = (cellFold (stationEst x y mt1 mt2 a1 a2 psx psy vmax a2_s1 kmax wmax mt2_s1 v w) umax).1 := by
        rw [h41]; exact getD_setIfInBounds_self _ _ _ _ (by rw [hInvτ.1]; exact hi)
      have hs : U.2.1.getD (v * wmax + w) (c 0)
          = (cellFold (stationEst x y mt1 mt2 a1 a2 psx psy vmax a2_s1 kmax wmax mt2_s1 v w) umax).2 := by
        rw [h42]; exact getD_setIfInBounds_self _ _ _ _ (by rw [hInvτ.2.1]; exact hi)
      have hmx : ∀ u, u < umax → U.2.2.1.getD u (c 0) = amp a1 mt1 vmax kmax wmax u v w := by
        intro u hu'
        rw [h43]
        exact getD_foldl_set_self (fun u => amp a1 mt1 vmax kmax wmax u v w) umax _ _ hInvτ.2.2.1 hu'
      have hmy : ∀ u, u < umax → U.2.2.2.1.getD u (c 0) = amp a2 mt2 a2_s1 kmax mt2_s1 u v w := by
        intro u hu'
        rw [h44]
        exact getD_foldl_set_self (fun u => amp a2 mt2 a2_s1 kmax mt2_s1 u v w) umax _ _ hInvτ.2.2.2 hu'
      simp only [hmu, hs]
      generalize hL : List.foldl _ ((τ.1, _) : Array α × Nat) (List.range umax) = Lp
      have HL : Lp.1 = (List.range umax).foldl (fun (L : Array α) u => L.setIfInBounds ((u * vmax + v) * wmax + w)
              (relLnP x y mt1 mt2 a1 a2 psx psy vmax a2_s1 kmax wmax mt2_s1
                (cellFold (stationEst x y mt1 mt2 a1 a2 psx psy vmax a2_s1 kmax wmax mt2_s1 v w) umax) u v w)) τ.1 := by
        rw [← hL]
        refine foldl_sim_fst (List.range umax) _ (fun _ => True) ?_ trivial
        intro s u hu' _
        refine ⟨?_, trivial⟩
        rw [hmx u (List.mem_range.mp hu'), hmy u (List.mem_range.mp hu')]
        by_cases hc : (!Flt.eqb (cellFold (stationEst x y mt1 mt2 a1 a2 psx psy vmax a2_s1 kmax wmax mt2_s1 v w) umax).2
            (cellFold (stationEst x y mt1 mt2 a1 a2 psx psy vmax a2_s1 kmax wmax mt2_s1 v w) umax).2) = true <;>
          simp only [hc, relLnP, negInf, Bool.false_eq_true, ↓reduceIte]
      refine ⟨by rw [HL, h41, h42], ?_, ?_, HU.2.1, HU.2.2⟩
      · rw [h41]; simpa using hInvτ.1
      · rw [h42]; simpa using hInvτ.2.1
    exact ⟨HW.1, HW.2⟩
  · simp
  · exact fill_triple _ _ _ umax vmax wmax _ _ _

/-- C20C item 2, `mu` and `s`: for `v < vmax`, `w < wmax` and at least one station, cell `[v, w]` of the `mu`, `s` results of
    `relative_amplitude_ratio_ln_pdf` is the fold of `combine_mu` / `combine_s` over the per-station estimates, as for
    `scale_estimator` but with the two coefficient arrays `a1`, `a2` (which must have the same third dimension, `hk`; the code
    takes the loop bound from `a1` and the stride from `a2`). -/
theorem relative_amplitude_ratio_scale_cell (x y mt1 mt2 a1 a2 psx psy : Array α)
    (x_s0 y_s0 mt1_s0 wmax mt2_s0 mt2_s1 umax vmax kmax a2_s0 a2_s1 a2_s2 psx_s0 psy_s0 : Nat) (hk : a2_s2 = kmax)
    {v w : Nat} (hv : v < vmax) (hw : w < wmax) (hu : 1 ≤ umax) :
    ((Pyx.cprobability.relative_amplitude_ratio_ln_pdf x x_s0 y y_s0 mt1 mt1_s0 wmax mt2 mt2_s0 mt2_s1 a1 umax vmax kmax
        a2 a2_s0 a2_s1 a2_s2 psx psx_s0 psy psy_s0).2.1.getD (v * wmax + w) (c 0),
     (Pyx.cprobability.relative_amplitude_ratio_ln_pdf x x_s0 y y_s0 mt1 mt1_s0 wmax mt2 mt2_s0 mt2_s1 a1 umax vmax kmax
        a2 a2_s0 a2_s1 a2_s2 psx psx_s0 psy psy_s0).2.2.getD (v * wmax + w) (c 0))
      = ((List.range' 1 (umax - 1)).map (stationEst x y mt1 mt2 a1 a2 psx psy vmax a2_s1 kmax wmax mt2_s1 v w)).foldl
          (fun acc st => (Pyx.cprobability.combine_mu acc.1 st.1 acc.2 st.2, Pyx.cprobability.combine_s acc.2 st.2))
          (stationEst x y mt1 mt2 a1 a2 psx psy vmax a2_s1 kmax wmax mt2_s1 v w 0) := by
  subst hk
  rw [relative_amplitude_ratio_ln_pdf_eq _ _ _ _ _ _ _ _ _ _ _ _ _ _ _ _ _ _ _ _ _ hu]
  dsimp only
  rw [getD_fillVW _ vmax wmax _ (c 0) (by simp) hv hw, getD_fillVW _ vmax wmax _ (c 0) (by simp) hv hw]
  rfl

/-- C20C item 2: for `u < umax`, `v < vmax`, `w < wmax`, with `(μ, σ)` the cell `[v, w]` of the `mu`, `s` results (the fold of
    `combine_mu` / `combine_s` over the per-station estimates), cell `[u, v, w]` of `ln_P` is `-inf` when `σ` is NaN and
    `log ar_pdf(x[u]/y[u], μ·Σ_k a1[u,v,k]·mt1[k,w], Σ_k a2[u,v,k]·mt2[k,w], psx[u], psy[u])` otherwise. -/
theorem relative_amplitude_ratio_ln_pdf_cells (x y mt1 mt2 a1 a2 psx psy : Array α)
    (x_s0 y_s0 mt1_s0 wmax mt2_s0 mt2_s1 umax vmax kmax a2_s0 a2_s1 a2_s2 psx_s0 psy_s0 : Nat) (hk : a2_s2 = kmax)
    {u v w : Nat} (hu : u < umax) (hv : v < vmax) (hw : w < wmax) :
    let r := Pyx.cprobability.relative_amplitude_ratio_ln_pdf x x_s0 y y_s0 mt1 mt1_s0 wmax mt2 mt2_s0 mt2_s1 a1 umax vmax
      kmax a2 a2_s0 a2_s1 a2_s2 psx psx_s0 psy psy_s0
    let μ := r.2.1.getD (v * wmax + w) (c 0)
    let σ := r.2.2.getD (v * wmax + w) (c 0)
    (μ, σ) = ((List.range' 1 (umax - 1)).map (stationEst x y mt1 mt2 a1 a2 psx psy vmax a2_s1 kmax wmax mt2_s1 v w)).foldl
          (fun acc st => (Pyx.cprobability.combine_mu acc.1 st.1 acc.2 st.2, Pyx.cprobability.combine_s acc.2 st.2))
          (stationEst x y mt1 mt2 a1 a2 psx psy vmax a2_s1 kmax wmax mt2_s1 v w 0) ∧
    r.1.getD ((u * vmax + v) * wmax + w) (c 0)
      = if (!(Flt.eqb σ σ)) = true then negInf
        else Flt.log (Pyx.cprobability.ar_pdf (x.getD u (c 0) / y.getD u (c 0)) (μ * amp a1 mt1 vmax kmax wmax u v w)
          (amp a2 mt2 a2_s1 kmax mt2_s1 u v w) (psx.getD u (c 0)) (psy.getD u (c 0))) := by
  have hu1 : 1 ≤ umax := Nat.succ_le_of_lt (Nat.lt_of_le_of_lt (Nat.zero_le u) hu)
  have hcell := relative_amplitude_ratio_scale_cell x y mt1 mt2 a1 a2 psx psy x_s0 y_s0 mt1_s0 wmax mt2_s0 mt2_s1 umax vmax
    kmax a2_s0 a2_s1 a2_s2 psx_s0 psy_s0 hk hv hw hu1
  refine ⟨hcell, ?_⟩
  subst hk
  have hμ := congrArg Prod.fst hcell
  have hσ := congrArg Prod.snd hcell
  dsimp only at hμ hσ ⊢
  rw [hμ, hσ, relative_amplitude_ratio_ln_pdf_eq _ _ _ _ _ _ _ _ _ _ _ _ _ _ _ _ _ _ _ _ _ hu1]
  dsimp only
  rw [getD_fillUVW _ umax vmax wmax _ (c 0) (by simp) hu hv hw]
  rfl

/-- over the reals: cell `[v, w]` of the `mu`, `s` results is `MultiEvent.combineMu` of the list of per-station estimates -/
theorem relative_amplitude_ratio_scale_cell_combineMu (x y mt1 mt2 a1 a2 psx psy : Array ℝ)
    (x_s0 y_s0 mt1_s0 wmax mt2_s0 mt2_s1 umax vmax kmax a2_s0 a2_s1 a2_s2 psx_s0 psy_s0 : Nat) (hk : a2_s2 = kmax)
    {v w : Nat} (hv : v < vmax) (hw : w < wmax) (hu : 1 ≤ umax) :
    MultiEvent.combineMu ((List.range umax).map (stationEst x y mt1 mt2 a1 a2 psx psy vmax a2_s1 kmax wmax mt2_s1 v w))
      = some
        ((Pyx.cprobability.relative_amplitude_ratio_ln_pdf x x_s0 y y_s0 mt1 mt1_s0 wmax mt2 mt2_s0 mt2_s1 a1 umax vmax kmax
            a2 a2_s0 a2_s1 a2_s2 psx psx_s0 psy psy_s0).2.1.getD (v * wmax + w) (c 0),
         (Pyx.cprobability.relative_amplitude_ratio_ln_pdf x x_s0 y y_s0 mt1 mt1_s0 wmax mt2 mt2_s0 mt2_s1 a1 umax vmax kmax
            a2 a2_s0 a2_s1 a2_s2 psx psx_s0 psy psy_s0).2.2.getD (v * wmax + w) (c 0)) := by
  rw [relative_amplitude_ratio_scale_cell x y mt1 mt2 a1 a2 psx psy x_s0 y_s0 mt1_s0 wmax mt2_s0 mt2_s1 umax vmax kmax a2_s0
    a2_s1 a2_s2 psx_s0 psy_s0 hk hv hw hu]
  exact cellFold_eq_combineMu _ umax hu

/-! ### the theorems apply to the executable `Float` instance -/

example (x y mt1 mt2 a psx psy : Array Float) (x_s0 y_s0 mt1_s0 wmax mt2_s0 mt2_s1 umax vmax kmax psx_s0 psy_s0 : Nat)
    {v w : Nat} (hv : v < vmax) (hw : w < wmax) (hu : 1 ≤ umax) :
    ((Pyx.cprobability.scale_estimator x x_s0 y y_s0 mt1 mt1_s0 wmax mt2 mt2_s0 mt2_s1 a umax vmax kmax psx psx_s0 psy
        psy_s0).1.getD (v * wmax + w) (c 0),
     (Pyx.cprobability.scale_estimator x x_s0 y y_s0 mt1 mt1_s0 wmax mt2 mt2_s0 mt2_s1 a umax vmax kmax psx psx_s0 psy
        psy_s0).2.getD (v * wmax + w) (c 0))
      = ((List.range' 1 (umax - 1)).map (stationEst x y mt1 mt2 a a psx psy vmax vmax kmax wmax mt2_s1 v w)).foldl
          (fun acc st => (Pyx.cprobability.combine_mu acc.1 st.1 acc.2 st.2, Pyx.cprobability.combine_s acc.2 st.2))
          (stationEst x y mt1 mt2 a a psx psy vmax vmax kmax wmax mt2_s1 v w 0) :=
  scale_estimator_cell x y mt1 mt2 a psx psy x_s0 y_s0 mt1_s0 wmax mt2_s0 mt2_s1 umax vmax kmax psx_s0 psy_s0 hv hw hu

end MTfitVerif.C20

