import MTfitVerif.Model.Acceptance
import MTfitVerif.Real.Inst
import Mathlib.MeasureTheory.Integral.Bochner.Basic
/-
  C07 (open finding `transd-prior-mass-1.1045`) — the shipped sampling prior of the full-tensor model is a
  density times a constant factor different from one.

  `C07TransD.transD_chain_posterior_stationary` shows that the trans-dimensional kernel leaves
  `pD·πD ⊕ (1−pD)·πM` invariant, with `πM = prior × e^L` for whatever prior the sampler evaluates.  The
  share of double-couple entries of a chain is the posterior model probability stated by the property
  only if that prior has total mass one.  Here: the model's `uniformPrior` (checked against the real
  `uniform_prior` by the C05 correspondence on every run) is `priorFactor · priorBase` with
  `priorBase (γ,δ) = 1.5 cos 3γ · Beta((δ+π/2)/π)/π` and `priorFactor = 1.10452194071529 > 1`; so WHENEVER `priorBase` has
  mass one on a region, the coded prior has mass `priorFactor ≠ 1` there, and the full-tensor side of the joint
  target is `priorFactor` times what equal model priors ask for.  (That `priorBase` has mass one is measured on the real
  code by quadrature in `harness/c07.py`: the Beta normaliser is a rounded literal, so it is not an exact
  identity of the reals.)
-/
set_option linter.unusedVariables false
namespace MTfitVerif.C07
open MTfitVerif MTfitVerif.Acceptance MeasureTheory

/-- the constant factor of the shipped prior -/
noncomputable def priorFactor : ℝ := sci 110452194071529090000 20

/-- the density part of the shipped prior: `1.5 cos 3γ · Beta((δ+π/2)/π; 5.745, 5.745)/π` -/
noncomputable def priorBase (x : Tape ℝ) : ℝ :=
  (sci 15 1 : ℝ) * Real.cos (3 * x.gamma) * (betaPdf ((x.delta + Real.pi / 2) / Real.pi) / Real.pi)

/-- the shipped prior of the full-tensor model is `priorFactor` times the density part, for every source -/
theorem uniformPrior_eq_factor_mul_base (x : Tape ℝ) : uniformPrior false x = priorFactor * priorBase x := by
  simp only [uniformPrior, priorFactor, priorBase, Bool.false_eq_true, if_false, flt_c, flt_pi, flt_cos, Nat.cast_one,
    Nat.cast_ofNat]
  ring

/-- the double-couple model carries prior one -/
theorem uniformPrior_dc (x : Tape ℝ) : uniformPrior true x = 1 := by
  simp [uniformPrior]

/-- the factor is not one: it is `1.10452194071529…` -/
theorem factor_gt_one : (1104 : ℝ) / 1000 < priorFactor ∧ priorFactor < 1105 / 1000 := by
  simp only [priorFactor, flt_sci]; norm_num

theorem factor_ne_one : priorFactor ≠ 1 := by
  have := factor_gt_one.1
  intro h; rw [h] at this; norm_num at this

/-- whenever the density part has mass one on a region (w.r.t. any measure on any parameter space mapped to
    sources), the shipped prior has mass `priorFactor` there -/
theorem coded_prior_mass {Ω : Type*} [MeasurableSpace Ω] (μ : Measure Ω) (S : Set Ω) (src : Ω → Tape ℝ)
    (hmass : ∫ ω in S, priorBase (src ω) ∂μ = 1) :
    ∫ ω in S, uniformPrior false (src ω) ∂μ = priorFactor := by
  simp only [uniformPrior_eq_factor_mul_base]
  rw [integral_const_mul, hmass, mul_one]

/-- … which is not one: the model prior `dc_prior` is not the prior probability of the double-couple model -/
theorem coded_prior_mass_ne_one {Ω : Type*} [MeasurableSpace Ω] (μ : Measure Ω) (S : Set Ω) (src : Ω → Tape ℝ)
    (hmass : ∫ ω in S, priorBase (src ω) ∂μ = 1) :
    ∫ ω in S, uniformPrior false (src ω) ∂μ ≠ 1 := by
  rw [coded_prior_mass μ S src hmass]; exact factor_ne_one

/-- the posterior odds of the invariant measure scale with the factor: for any likelihood `L`, the full-tensor
    evidence under the shipped prior is `priorFactor` times the evidence under the density part -/
theorem coded_evidence_scaled {Ω : Type*} [MeasurableSpace Ω] (μ : Measure Ω) (S : Set Ω) (src : Ω → Tape ℝ)
    (L : Ω → ℝ) :
    ∫ ω in S, uniformPrior false (src ω) * L ω ∂μ = priorFactor * ∫ ω in S, priorBase (src ω) * L ω ∂μ := by
  simp only [uniformPrior_eq_factor_mul_base, mul_assoc]
  rw [integral_const_mul]

end MTfitVerif.C07
