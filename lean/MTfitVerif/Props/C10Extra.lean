import MTfitVerif.Props.C10
/-
  C10 — further property theorems: the evidence is `-∞` exactly when nothing had non-zero
  likelihood, scales inversely with the number of tried samples, combines over two runs as the
  weighted mean, is bounded by the largest likelihood; model probabilities are at most one, keep
  the number of models, and for two models are the logistic function of the evidence difference.
-/
namespace MTfitVerif.C10
open MTfitVerif LogP Evidence Real

/-- no evidence at all exactly when no stored sample has a finite log-likelihood -/
theorem lnBE_negInf_iff (ls : List (LogP ℝ)) (n : ℝ) :
    lnBayesianEvidence ls n = negInf ↔ ∀ x ∈ ls, x = negInf := by
  unfold lnBayesianEvidence
  cases h : maxFin ls with
  | none => simpa using (maxFin_eq_none_iff ls).mp h
  | some m =>
    simp only [reduceCtorEq, false_iff]
    intro hall
    rw [(maxFin_eq_none_iff ls).mpr hall] at h; cases h

/-- trying `k` times as many samples for the same stored likelihoods divides the evidence by `k` -/
theorem lnBE_tried_scaling (ls : List (LogP ℝ)) {n k : ℝ} (hn : 0 < n) (hk : 0 < k) :
    toProb (lnBayesianEvidence ls (k * n)) = toProb (lnBayesianEvidence ls n) / k := by
  rw [lnBE_eq_log_mean ls (mul_pos hk hn), lnBE_eq_log_mean ls hn]
  field_simp

/-- two runs combined: the evidence of the concatenated samples over the summed tried counts is
    the tried-count-weighted mean of the two evidences -/
theorem lnBE_append (l₁ l₂ : List (LogP ℝ)) {n₁ n₂ : ℝ} (h₁ : 0 < n₁) (h₂ : 0 < n₂) :
    toProb (lnBayesianEvidence (l₁ ++ l₂) (n₁ + n₂))
      = (n₁ * toProb (lnBayesianEvidence l₁ n₁) + n₂ * toProb (lnBayesianEvidence l₂ n₂))
          / (n₁ + n₂) := by
  rw [lnBE_eq_log_mean _ (add_pos h₁ h₂), lnBE_eq_log_mean _ h₁, lnBE_eq_log_mean _ h₂,
    List.map_append, List.sum_append]
  field_simp

/-- the evidence never exceeds the largest likelihood, provided every stored sample was tried -/
theorem lnBE_le_max (ls : List (LogP ℝ)) {n M : ℝ} (hn : 0 < n) (hM : 0 ≤ M)
    (hle : ∀ x ∈ ls, toProb x ≤ M) (hcount : (ls.length : ℝ) ≤ n) :
    toProb (lnBayesianEvidence ls n) ≤ M := by
  rw [lnBE_eq_log_mean ls hn, div_le_iff₀ hn]
  have h1 : (ls.map toProb).sum ≤ (ls.map fun _ => M).sum := by
    apply List.sum_le_sum
    intro x hx
    exact hle x hx
  have h2 : (ls.map fun _ => M).sum = ls.length * M := by simp
  rw [h2] at h1
  nlinarith

/-- one probability per model -/
theorem modelProb_length (es : List ℝ) : (modelProbabilities es).length = es.length := by
  rw [modelProb_eq, List.length_map]

/-- no model probability exceeds one -/
theorem modelProb_le_one (es : List ℝ) : ∀ p ∈ modelProbabilities es, p ≤ 1 := by
  intro p hp
  have hne : es ≠ [] := by
    intro h; subst h
    rw [modelProb_eq] at hp; simp at hp
  rw [← modelProb_sum_one es hne]
  exact List.single_le_sum (fun q hq => (modelProb_pos es q hq).le) p hp

/-- a larger evidence never gets the smaller probability -/
theorem modelProb_mono (es : List ℝ) (a b : ℝ) (hab : a ≤ b) :
    Real.exp a / (es.map Real.exp).sum ≤ Real.exp b / (es.map Real.exp).sum := by
  rcases List.eq_nil_or_concat es with rfl | ⟨_, _, rfl⟩
  · simp
  · apply div_le_div_of_nonneg_right (Real.exp_le_exp.mpr hab)
    exact (sum_exp_pos (by simp)).le

/-- two models: the probabilities are the logistic function of the evidence difference -/
theorem modelProb_two (a b : ℝ) :
    modelProbabilities [a, b] = [1 / (1 + Real.exp (b - a)), 1 / (1 + Real.exp (a - b))] := by
  rw [modelProb_eq]
  have ha := Real.exp_pos a
  have hb := Real.exp_pos b
  simp only [List.map_cons, List.map_nil, List.sum_cons, List.sum_nil, add_zero, Real.exp_sub]
  congr 1
  · field_simp
  · congr 1
    field_simp
    ring

end MTfitVerif.C10
