import MTfitVerif.Props.C04
/-
  C04 — further property theorems: the `-∞` pattern is preserved exactly by normalisation
  (no probability is turned into zero, no zero into a probability), normalisation is
  idempotent, and a marginal does not depend on the order of the reduced slice.
-/
namespace MTfitVerif.C04
open MTfitVerif LogP LogDomain Real

/-- The probability a log-value denotes determines the log-value. -/
theorem toProb_injective : Function.Injective (toProb : LogP ℝ → ℝ) := by
  intro x y h
  cases x with
  | negInf =>
    cases y with
    | negInf => rfl
    | fin b => simp only [toProb_negInf, toProb_fin] at h; exact absurd h.symm (Real.exp_pos b).ne'
  | fin a =>
    cases y with
    | negInf => simp only [toProb_negInf, toProb_fin] at h; exact absurd h (Real.exp_pos a).ne'
    | fin b => simp only [toProb_fin] at h; rw [Real.exp_injective h]

/-- Normalisation keeps the number of entries. -/
theorem lnNormalise_length (xs : List (LogP ℝ)) (dV : ℝ) :
    (lnNormalise xs dV).length = xs.length := by
  unfold lnNormalise
  cases lnMargCol xs dV <;> simp

/-- Normalisation keeps the `-∞` pattern entry by entry: an exact zero stays an exact zero and
    a finite log-value stays finite, whatever its magnitude. -/
theorem lnNormalise_isFin (xs : List (LogP ℝ)) (dV : ℝ) :
    (lnNormalise xs dV).map isFin = xs.map isFin := by
  unfold lnNormalise
  cases lnMargCol xs dV with
  | negInf => rfl
  | fin n =>
    simp only [List.map_map]
    apply List.map_congr_left
    intro x _
    cases x <;> rfl

/-- An all-`-∞` input (total probability zero) is returned as it is: no NaN is produced. -/
theorem lnNormalise_all_negInf (xs : List (LogP ℝ)) (dV : ℝ) (h : ∀ x ∈ xs, x = negInf) :
    lnNormalise xs dV = xs := by
  unfold lnNormalise
  rw [(lnMargCol_negInf_iff xs dV).mpr h]

/-- The log of the total mass of a normalised pdf is exactly `0`. -/
theorem lnMargCol_lnNormalise (xs : List (LogP ℝ)) {dV : ℝ} (hdV : 0 < dV)
    (hfin : ∃ x ∈ xs, isFin x = true) :
    lnMargCol (lnNormalise xs dV) dV = fin 0 := by
  apply toProb_injective
  rw [lnMargCol_exact _ hdV, lnNormalise_sum_one xs hdV hfin]
  simp

/-- Normalisation is idempotent. -/
theorem lnNormalise_idempotent (xs : List (LogP ℝ)) {dV : ℝ} (hdV : 0 < dV) :
    lnNormalise (lnNormalise xs dV) dV = lnNormalise xs dV := by
  by_cases hfin : ∃ x ∈ xs, isFin x = true
  · have hgen : ∀ ys : List (LogP ℝ), lnMargCol ys dV = fin 0 →
        lnNormalise ys dV = ys.map (subC · 0) := by
      intro ys h; unfold lnNormalise; rw [h]
    rw [hgen _ (lnMargCol_lnNormalise xs hdV hfin)]
    calc (lnNormalise xs dV).map (subC · 0) = (lnNormalise xs dV).map id := by
          apply List.map_congr_left
          intro x _
          cases x <;> simp
      _ = lnNormalise xs dV := List.map_id _
  · have hall : ∀ x ∈ xs, x = negInf := by
      intro x hx
      cases x with
      | negInf => rfl
      | fin v => exact absurd ⟨fin v, hx, rfl⟩ hfin
    rw [lnNormalise_all_negInf xs dV hall, lnNormalise_all_negInf xs dV hall]

/-- A marginal does not depend on the order of the entries along the reduced axis. -/
theorem lnMargCol_perm {c₁ c₂ : List (LogP ℝ)} (hp : c₁.Perm c₂) {dV : ℝ} (hdV : 0 < dV) :
    lnMargCol c₁ dV = lnMargCol c₂ dV := by
  apply toProb_injective
  rw [lnMargCol_exact _ hdV, lnMargCol_exact _ hdV, (hp.map toProb).sum_eq]

/-- A marginal over more entries is never smaller: no entry can cancel another. -/
theorem lnMargCol_cons_le (x : LogP ℝ) (col : List (LogP ℝ)) {dV : ℝ} (hdV : 0 < dV) :
    toProb (lnMargCol col dV) ≤ toProb (lnMargCol (x :: col) dV) := by
  rw [lnMargCol_exact _ hdV, lnMargCol_exact _ hdV]
  simp only [List.map_cons, List.sum_cons]
  have := toProb_nonneg x
  nlinarith

/-- Every normalised density value is at most `1 / dV`: normalisation cannot produce `+∞`. -/
theorem lnNormalise_le (xs : List (LogP ℝ)) {dV : ℝ} (hdV : 0 < dV)
    (hfin : ∃ x ∈ xs, isFin x = true) (y : LogP ℝ) (hy : y ∈ lnNormalise xs dV) :
    dV * toProb y ≤ 1 := by
  rw [← lnNormalise_sum_one xs hdV hfin]
  apply mul_le_mul_of_nonneg_left _ hdV.le
  apply List.single_le_sum
  · intro p hp
    obtain ⟨z, _, rfl⟩ := List.mem_map.mp hp
    exact toProb_nonneg z
  · exact List.mem_map.mpr ⟨y, hy, rfl⟩

/-- premises are satisfiable: a slice with a very large, a very small and a `-∞` entry. -/
example : ∃ x ∈ [fin (10000 : ℝ), negInf, fin (-100000)], isFin x = true :=
  ⟨fin 10000, by simp, rfl⟩

end MTfitVerif.C04
