import MTfitVerif.Model.SampleStore
import MTfitVerif.Props.C04
import MTfitVerif.Real.SampleStoreLemmas
/-
  C09 — the sample store keeps each non-zero sample once, aligned, and counts every try.
  Property theorems only; helper lemmas live in `Real/SampleStoreLemmas.lean`.
-/
namespace MTfitVerif.C09
open MTfitVerif LogP LogDomain SampleStore

/-- representation invariant of the concrete store -/
def Inv (s : Store ℝ) : Prop :=
  0 < s.init ∧ s.i ≤ s.cols.length ∧ s.lnCols.length = s.i ∧ s.sf.length = s.i

theorem inv_empty {init : Nat} (h : 0 < init) : Inv (empty init : Store ℝ) := by
  simp [Inv, empty, h]

/-- the growth loop terminates with room for the batch (strictly more than `k` free slots),
    never shrinks, and leaves the capacity alone when there is already room -/
theorem growTo_spec (init i k cap : Nat) (hinit : 0 < init) (hi : i ≤ cap) :
    let cap' := growTo init i k (k + i + 2) cap
    cap ≤ cap' ∧ k < cap' - i ∧ (k < cap - i → cap' = cap) :=
  growTo_aux init i k hinit (k + i + 2) cap hi (by omega)

/-- refinement step: appending a batch appends exactly its non-zero candidates, in order, each
    with its own log-values and scale factor; earlier samples are untouched even when the
    storage grows; the tried count grows by the batch's count -/
theorem append_refines (s : Store ℝ) (hs : Inv s) (batch : List (Cand ℝ)) (nTried : Nat) :
    Inv (append s batch nTried) ∧
    view (append s batch nTried)
      = view s ++ (batch.filter nonzero).map (fun c => (c.tok, c.col, c.sf)) ∧
    (append s batch nTried).n = s.n + nTried :=
  append_step s hs.1 hs.2.1 hs.2.2.1 hs.2.2.2 batch nTried

/-- every history: the store holds exactly the non-zero candidates of all batches, in order -/
theorem history_refines {init : Nat} (h : 0 < init) (hist : List (List (Cand ℝ) × Nat)) :
    let s := hist.foldl (fun s b => append s b.1 b.2) (empty init : Store ℝ)
    Inv s ∧
    view s = (hist.flatMap fun b => (b.1.filter nonzero).map fun c => (c.tok, c.col, c.sf)) ∧
    s.n = (hist.map (·.2)).sum := by
  obtain ⟨h0, h1, h2, h3⟩ := inv_empty (init := init) h
  obtain ⟨hi, hv, hn⟩ := foldl_step hist (empty init : Store ℝ) h0 h1 h2 h3
  refine ⟨hi, ?_, ?_⟩
  · rw [hv, view_empty, List.nil_append]
  · rw [hn]; simp [empty]

/-- nothing is lost or duplicated: the number of stored samples is the number of non-zero
    candidates seen -/
theorem stored_count {init : Nat} (h : 0 < init) (hist : List (List (Cand ℝ) × Nat)) :
    (hist.foldl (fun s b => append s b.1 b.2) (empty init : Store ℝ)).i
      = (hist.map fun b => (b.1.filter nonzero).length).sum := by
  rw [foldl_i]; simp [empty]

/-- an all-zero history gives the explicit empty result -/
theorem all_zero_history_empty {init : Nat} (h : 0 < init) (hist : List (List (Cand ℝ) × Nat))
    (hz : ∀ b ∈ hist, ∀ c ∈ b.1, nonzero c = false) (discard nS : ℝ) :
    output (hist.foldl (fun s b => append s b.1 b.2) (empty init : Store ℝ)) discard nS = none := by
  apply output_of_nil
  rw [foldl_lnCols]
  have hnil : (hist.flatMap fun b => (b.1.filter nonzero).map (·.col)) = [] := by
    rw [List.flatMap_eq_nil_iff]
    intro b hb
    have : b.1.filter nonzero = [] := by
      rw [List.filter_eq_nil_iff]
      intro c hc
      simp [hz b hb c hc]
    rw [this]; rfl
  rw [hnil]; rfl

/-- without discard the output probabilities are the stored values normalised to unit total -/
theorem output_normalised (s : Store ℝ) (hs : Inv s) (hne : s.lnCols ≠ [])
    (hfin : ∀ col ∈ s.lnCols, col.any isFin = true) (o : Output ℝ)
    (ho : output s 0 0 = some o) :
    o.probability.sum = 1 ∧ o.toks = s.cols.take s.i ∧ o.sf = s.sf ∧ o.lnPdf = marginals s := by
  obtain ⟨_, h1, h2, h3⟩ := hs
  have hmlen := marginals_length s
  have hm : marginals s ≠ [] := by
    intro h; rw [h, List.length_nil] at hmlen
    exact hne (List.length_eq_zero_iff.mp hmlen.symm)
  have hmfin := marginals_isFin s hfin
  have hnlen := lnNormalise_length (marginals s) (c 1)
  have hnfin := lnNormalise_isFin (marginals s) (c 1) hmfin
  have hkt : ∀ b ∈ (lnNormalise (marginals s) (c 1 : ℝ)).map isFin, b = true := by
    intro b hb
    obtain ⟨y, hy, rfl⟩ := List.mem_map.mp hb
    exact hnfin y hy
  have hklen : ((lnNormalise (marginals s) (c 1 : ℝ)).map isFin).length = s.i := by
    rw [List.length_map, hnlen, hmlen, h2]
  rw [output_of_ne s 0 0 hm, keepIdx_no_discard] at ho
  injection ho with ho
  subst ho
  refine ⟨?_, ?_, ?_, ?_⟩
  · show ((selectBy _ _).map expF).sum = 1
    rw [selectBy_all_true _ _ (by rw [List.length_map]) hkt]
    obtain ⟨x, hx⟩ := List.exists_mem_of_ne_nil _ hm
    have := C04.lnNormalise_sum_one (marginals s) (dV := (c 1 : ℝ)) (by simp)
      ⟨x, hx, hmfin x hx⟩
    have hfun : (expF : LogP ℝ → ℝ) = toProb := funext expF_eq
    rw [hfun]
    simpa using this
  · show selectBy _ _ = _
    exact selectBy_all_true _ _ (by rw [hklen, List.length_take]; omega) hkt
  · show selectBy _ _ = _
    exact selectBy_all_true _ _ (by rw [hklen, h3]) hkt
  · show selectBy _ _ = _
    exact selectBy_all_true _ _ (by rw [hklen, hmlen, h2]) hkt

/-- the optional discard only removes samples below `1/(discard·n)` of the maximum, and keeps
    the others paired with their own tensors and values -/
theorem discard_only_below_threshold (ln : List (LogP ℝ)) {discard nS : ℝ} (hd : 0 < discard)
    (hn : 0 < nS) (m : ℝ) (hm : maxFin ln = some m) :
    keepIdx ln discard nS = ln.map (fun x => match x with
      | negInf => false
      | fin v => decide (m - Real.log (discard * nS) < v)) := by
  unfold keepIdx
  have hg : (Flt.ltb (c 0) nS && Flt.ltb (c 0) discard) = true := by simp [hd, hn]
  rw [if_pos hg, hm]
  apply List.map_congr_left
  intro x _
  cases x with
  | negInf => rfl
  | fin v => rfl

theorem selectBy_aligned {β γ : Type} (l₁ : List β) (l₂ : List γ) (keep : List Bool)
    (h₁ : l₁.length = keep.length) (h₂ : l₂.length = keep.length) :
    List.zip (selectBy l₁ keep) (selectBy l₂ keep) = selectBy (List.zip l₁ l₂) keep :=
  selectBy_zip l₁ l₂ keep

/-- sample-count-limited sampling stops at the first batch that reaches the limit -/
theorem runIteration_first (maxS n : Nat) (bs : List Nat) (k : Nat)
    (hk : runIteration maxS n bs = k + 1) (hlen : k < bs.length) :
    n + (bs.take (k + 1)).sum ≥ maxS ∨ k + 1 = bs.length := by
  induction bs generalizing n k with
  | nil => simp at hlen
  | cons b bs ih =>
    simp only [runIteration] at hk
    split at hk
    · rename_i hge
      have : k = 0 := by omega
      subst this
      left; simp; omega
    · cases k with
      | zero =>
        right
        cases bs with
        | nil => rfl
        | cons b' bs' =>
          simp only [runIteration] at hk
          split at hk <;> omega
      | succ k' =>
        have hk' : runIteration maxS (n + b) bs = k' + 1 := by omega
        rcases ih (n + b) k' hk' (by simpa using hlen) with h | h
        · left; rw [List.take_succ_cons, List.sum_cons]; omega
        · right; simp [h]

theorem runIteration_not_earlier (maxS n : Nat) (bs : List Nat) (j : Nat)
    (hj : j + 1 < runIteration maxS n bs) : n + (bs.take (j + 1)).sum < maxS := by
  induction bs generalizing n j with
  | nil => simp [runIteration] at hj
  | cons b bs ih =>
    simp only [runIteration] at hj
    split at hj
    · omega
    · rename_i hlt
      cases j with
      | zero => simp; omega
      | succ j' =>
        have := ih (n + b) j' (by omega)
        rw [List.take_succ_cons, List.sum_cons]; omega

end MTfitVerif.C09
