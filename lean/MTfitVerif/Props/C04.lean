import MTfitVerif.Real.LogDomainLemmas
/-
  C04 — log-domain marginalisation and normalisation are exact and stable.
  Property theorems only; helper lemmas live in `Real/`.
-/
namespace MTfitVerif.C04
open MTfitVerif LogP LogDomain Real

/-- Exactness of one reduced slice: the result denotes `dV · Σ exp`, for a slice of any
    length and any pattern of `-∞` entries. -/
theorem lnMargCol_exact (col : List (LogP ℝ)) {dV : ℝ} (hdV : 0 < dV) :
    toProb (lnMargCol col dV) = dV * (col.map toProb).sum := by
  unfold lnMargCol
  cases h : maxFin col with
  | none =>
    have hall := (maxFin_eq_none_iff col).mp h
    have : (col.map toProb).sum = 0 := by
      apply List.sum_eq_zero
      intro x hx
      obtain ⟨y, hy, rfl⟩ := List.mem_map.mp hx
      rw [hall y hy]; rfl
    simp [this]
  | some m =>
    have hpos := shiftedSum_pos hdV h
    simp only [flt_log, toProb_fin]
    rw [Real.exp_add, Real.exp_log hpos, shiftedSum_eq]
    rw [mul_assoc, mul_assoc, mul_comm (Real.exp (-m)), mul_assoc, ← Real.exp_add]
    simp

/-- `-∞` entries are exact zeros: the result is `-∞` iff every entry is. -/
theorem lnMargCol_negInf_iff (col : List (LogP ℝ)) (dV : ℝ) :
    lnMargCol col dV = negInf ↔ ∀ x ∈ col, x = negInf := by
  unfold lnMargCol
  cases h : maxFin col with
  | none => simpa using (maxFin_eq_none_iff col).mp h
  | some m =>
    simp only [reduceCtorEq, false_iff]
    intro hall
    rw [(maxFin_eq_none_iff col).mpr hall] at h; cases h

/-- Marginalisation commutes with adding a constant (exact equality over ℝ). -/
theorem lnMargCol_add_const (col : List (LogP ℝ)) (dV k : ℝ) :
    lnMargCol (col.map (shift · k)) dV = shift (lnMargCol col dV) k := by
  unfold lnMargCol
  rw [maxFin_shift]
  cases h : maxFin col with
  | none => simp
  | some m =>
    simp only [Option.map_some, shift_fin, shiftedSum_shift, fin.injEq]
    ring

/-- Stability: with the shift the model (and the repaired code) applies, every argument
    handed to `exp` is `≤ 0` and one of them is exactly `0`; hence no `exp` overflows and
    the sum handed to `log` is at least `dV` (no total underflow), whatever the magnitude of
    the log-values. -/
theorem lnMargCol_expArgs_stable {col : List (LogP ℝ)} {m : ℝ} (h : maxFin col = some m) :
    (∀ a ∈ expArgs m col, a ≤ 0) ∧ (0 : ℝ) ∈ expArgs m col := by
  constructor
  · intro a ha
    obtain ⟨v, hv, rfl⟩ := mem_expArgs.mp ha
    have := maxFin_ge h v hv; linarith
  · exact mem_expArgs.mpr ⟨m, maxFin_mem h, by ring⟩

/-- … and therefore the argument of `log` lies in `[dV, n·dV]`. -/
theorem lnMargCol_logArg_bounds {col : List (LogP ℝ)} {m dV : ℝ} (hdV : 0 < dV)
    (h : maxFin col = some m) :
    dV ≤ shiftedSum m dV col ∧ shiftedSum m dV col ≤ col.length * dV := by
  obtain ⟨hle, hmem⟩ := lnMargCol_expArgs_stable h
  rw [shiftedSum_eq_expArgs]
  constructor
  · have h1 : Real.exp 0 * dV ≤ ((expArgs m col).map (fun a => Real.exp a * dV)).sum :=
      List.single_le_sum (fun x hx => by
        obtain ⟨a, _, rfl⟩ := List.mem_map.mp hx
        exact (mul_pos (Real.exp_pos a) hdV).le) _ (List.mem_map.mpr ⟨0, hmem, rfl⟩)
    simpa using h1
  · have hlen : (expArgs m col).length ≤ col.length := by
      clear h hle hmem
      induction col with
      | nil => simp [expArgs]
      | cons x xs ih => cases x <;> simp [expArgs] <;> omega
    have h2 : ((expArgs m col).map (fun a => Real.exp a * dV)).sum
        ≤ ((expArgs m col).map (fun _ => dV)).sum := by
      apply List.sum_le_sum
      intro a ha
      have : Real.exp a ≤ 1 := Real.exp_le_one_iff.mpr (hle a ha)
      nlinarith
    have h3 : ((expArgs m col).map (fun _ => dV)).sum = (expArgs m col).length * dV := by
      simp
    rw [h3] at h2
    have : ((expArgs m col).length : ℝ) ≤ col.length := by exact_mod_cast hlen
    nlinarith

/-- Exactness of `ln_marginalise` over axis 1 (each row), any shape. -/
theorem lnMarginalise_axis1_exact (rows : List (List (LogP ℝ))) (ncols : Nat) {dV : ℝ}
    (hdV : 0 < dV) (hn : ncols ≠ 1) :
    (lnMarginalise rows ncols 1 dV).map toProb
      = rows.map (fun r => dV * (r.map toProb).sum) := by
  simp [lnMarginalise, hn, lnMargCol_exact _ hdV]

/-- Exactness of `ln_marginalise` over axis 0 (each column) for a well-formed matrix with at
    least two rows: entry `j` of the result denotes `dV · Σᵢ exp m[i][j]`. -/
theorem lnMarginalise_axis0_exact (rows : List (List (LogP ℝ))) (ncols : Nat) {dV : ℝ}
    (hdV : 0 < dV) (hrows : rows.length ≠ 1) (hwf : ∀ r ∈ rows, r.length = ncols)
    (j : Nat) (hj : j < ncols) :
    ((lnMarginalise rows ncols 0 dV)[j]?).map toProb
      = some (dV * ((rows.filterMap (fun r => r[j]?)).map toProb).sum) := by
  have hdef : lnMarginalise rows ncols 0 dV = (columns ncols rows).map (lnMargCol · dV) := by
    unfold lnMarginalise
    match rows, hrows with
    | [], _ => rfl
    | [r], h => simp at h
    | _ :: _ :: _, _ => rfl
  rw [hdef, List.getElem?_map, columns_getElem? ncols rows hwf j hj]
  simp [lnMargCol_exact _ hdV]

/-- A single slice along the reduced axis is returned unchanged. -/
theorem lnMarginalise_single_row (r : List (LogP ℝ)) (ncols : Nat) (dV : ℝ) :
    lnMarginalise [r] ncols 0 dV = r := rfl

/-- Normalisation: exponentials times the volume element sum to one whenever some entry is
    finite. -/
theorem lnNormalise_sum_one (xs : List (LogP ℝ)) {dV : ℝ} (hdV : 0 < dV)
    (hfin : ∃ x ∈ xs, isFin x = true) :
    dV * ((lnNormalise xs dV).map toProb).sum = 1 := by
  unfold lnNormalise
  have hex := lnMargCol_exact xs hdV
  cases hn : lnMargCol xs dV with
  | negInf =>
    exfalso
    obtain ⟨x, hx, hxf⟩ := hfin
    have := (lnMargCol_negInf_iff xs dV).mp hn x hx
    rw [this] at hxf; cases hxf
  | fin n =>
    rw [hn] at hex
    simp only [toProb_fin] at hex
    have hmap : ((xs.map (subC · n)).map toProb) = (xs.map toProb).map (· * Real.exp (-n)) := by
      rw [List.map_map, List.map_map]
      apply List.map_congr_left
      intro x _
      cases x with
      | negInf => simp
      | fin v => simp [sub_eq_add_neg, Real.exp_add]
    show dV * ((xs.map (subC · n)).map toProb).sum = 1
    rw [hmap, List.sum_map_mul_right, ← mul_assoc]
    simp only [List.map_id']
    rw [← hex, ← Real.exp_add]
    simp

/-- Normalisation is unchanged by adding a constant to every log-value. -/
theorem lnNormalise_add_const (xs : List (LogP ℝ)) (dV k : ℝ) :
    lnNormalise (xs.map (shift · k)) dV = lnNormalise xs dV := by
  unfold lnNormalise
  rw [lnMargCol_add_const]
  cases hn : lnMargCol xs dV with
  | negInf =>
    have hall := (lnMargCol_negInf_iff xs dV).mp hn
    simp only [shift_negInf]
    calc xs.map (shift · k) = xs.map id := List.map_congr_left (fun x hx => by rw [hall x hx]; rfl)
      _ = xs := List.map_id _
  | fin n =>
    simp only [shift_fin, List.map_map]
    apply List.map_congr_left
    intro x _
    cases x with
    | negInf => simp
    | fin v => simp

end MTfitVerif.C04
