import MTfitVerif.Model.PyxSpecCombined
import MTfitVerif.Real.PyxLoopCombinedLemmas
/-
  C20LC — the translated COMBINED station loops of the compiled likelihood kernels (`Id.run do` blocks of
  `Model/PyxKernels.lean`) compute the loop-free specification of `Model/PyxSpecCombined.lean`, for every scalar type:
  a station carries a manual polarity iff `u < umax`, a polarity probability iff `u < uprobmax`, an amplitude ratio iff
  `u < uarmax`; the kernels' `utmin`/`utmax` bookkeeping and nested `if`s select exactly that case, for the three counts in
  any order.
-/
set_option linter.unusedVariables false
set_option linter.unusedSimpArgs false
namespace MTfitVerif.C20
open MTfitVerif MTfitVerif.PyxSpec MTfitVerif.PyxLoop
variable {α : Type} [Add α] [Sub α] [Mul α] [Div α] [Neg α] [Flt α]

/-! ### the combined station loops (nested `for` with an early `return`, station classes by the counts) -/

/-- C20LC item 2a: manual polarities (`u < umax`) and amplitude ratios (`u < uarmax`).  The loop runs over
    `max umax uarmax` stations and adds `polArTerm` of each to cell `index`, stopping after the first station at which the cell
    reads `-inf`.  No hypothesis on the order of the counts or on `index`. -/
theorem station_combined_polarity_ar_ln_pdf_eq (a ax ay mt lnP z sigma ipp psx psy : Array α)
    (ipmax v umax uarmax vmax kmax wmax w index : Nat) :
    Pyx.cprobability.station_combined_polarity_ar_ln_pdf a ax ay mt lnP z sigma ipp psx psy ipmax v umax uarmax vmax kmax
        wmax w index
      = lnP.setIfInBounds index
          (accumulate (polArTerm a ax ay mt z sigma ipp psx psy ipmax v umax uarmax vmax kmax wmax w) (max umax uarmax) 0
            (lnP.getD index (c 0))) := by
  unfold Pyx.cprobability.station_combined_polarity_ar_ln_pdf
  -- the `utmin`/`utmax` prefix
  by_cases hc : uarmax < umax <;>
    simp only [gt_iff_lt, hc, decide_true, decide_false, if_true, if_false, Bool.false_eq_true]
  all_goals
    refine (run_bind_eq _ _ result (fun s => ?_)).trans ?_
    · rcases s with ⟨_ | q, P, r⟩ <;> rfl
    refine forIn_station_below _ _ _ _ _ (by omega) ?_ _ _
    intro u hu o P r
    -- the class of station `u`
    by_cases h1 : u < umax <;> by_cases h2 : u < uarmax
    all_goals first
      | (exfalso; omega)
      | (have h1' : (umax ≤ u) = ¬ (u < umax) := by simp
         by_cases hip : (ipmax == 1) = true <;>
         simp only [h1', h1, h2, hip, ge_iff_le, not_true_eq_false, not_false_eq_true, decide_true, decide_false, if_true,
           if_false, Bool.false_eq_true, forIn_range_yield, pure_bind,
           kloop1_1, kloop2_1, kloop2_2, kloop3_1, kloop3_2, kloop3_3,
           polArTerm_tt, polArTerm_tf, polArTerm_ft, polTerm, arTerm, negInf] <;>
         exact ⟨_, rfl⟩)

/-- C20LC item 2b: polarity probabilities (`u < umax` — in this kernel `umax` is the count of polarity-probability stations)
    and amplitude ratios (`u < uarmax`) -/
theorem station_combined_polarity_probability_ar_ln_pdf_eq (a ax ay mt lnP z pos neg ipp psx psy : Array α)
    (ipmax v umax uarmax vmax kmax wmax w index : Nat) :
    Pyx.cprobability.station_combined_polarity_probability_ar_ln_pdf a ax ay mt lnP z pos neg ipp psx psy ipmax v umax uarmax
        vmax kmax wmax w index
      = lnP.setIfInBounds index
          (accumulate (polProbArTerm a ax ay mt z pos neg ipp psx psy ipmax v umax uarmax vmax kmax wmax w) (max umax uarmax) 0
            (lnP.getD index (c 0))) := by
  unfold Pyx.cprobability.station_combined_polarity_probability_ar_ln_pdf
  by_cases hc : uarmax < umax <;>
    simp only [gt_iff_lt, hc, decide_true, decide_false, if_true, if_false, Bool.false_eq_true]
  all_goals
    refine (run_bind_eq _ _ result (fun s => ?_)).trans ?_
    · rcases s with ⟨_ | q, P, r⟩ <;> rfl
    refine forIn_station_below _ _ _ _ _ (by omega) ?_ _ _
    intro u hu o P r
    by_cases h1 : u < umax <;> by_cases h2 : u < uarmax
    all_goals first
      | (exfalso; omega)
      | (have h1' : (umax ≤ u) = ¬ (u < umax) := by simp
         by_cases hip : (ipmax == 1) = true <;>
         simp only [h1', h1, h2, hip, ge_iff_le, not_true_eq_false, not_false_eq_true, decide_true, decide_false, if_true,
           if_false, Bool.false_eq_true, forIn_range_yield, pure_bind,
           kloop1_1, kloop2_1, kloop2_2, kloop3_1, kloop3_2, kloop3_3,
           polProbArTerm_tt, polProbArTerm_tf, polProbArTerm_ft, polProbTerm, arTerm, negInf] <;>
         exact ⟨_, rfl⟩)

/-- C20LC item 2c: manual polarities (`u < umax`) and polarity probabilities (`u < uprobmax`) -/
theorem station_combined_pol_ln_pdf_eq (a a_prob mt lnP pos neg ipp sigma : Array α)
    (ipmax v umax uprobmax vmax kmax wmax w index : Nat) :
    Pyx.cprobability.station_combined_pol_ln_pdf a a_prob mt lnP pos neg ipp sigma ipmax v umax uprobmax vmax kmax wmax w index
      = lnP.setIfInBounds index
          (accumulate (polPolProbTerm a a_prob mt pos neg ipp sigma ipmax v umax uprobmax vmax kmax wmax w) (max umax uprobmax) 0
            (lnP.getD index (c 0))) := by
  unfold Pyx.cprobability.station_combined_pol_ln_pdf
  by_cases hc : uprobmax < umax <;>
    simp only [gt_iff_lt, hc, decide_true, decide_false, if_true, if_false, Bool.false_eq_true]
  all_goals
    refine (run_bind_eq _ _ result (fun s => ?_)).trans ?_
    · rcases s with ⟨_ | q, P, r⟩ <;> rfl
    refine forIn_station_below _ _ _ _ _ (by omega) ?_ _ _
    intro u hu o P r
    by_cases h1 : u < umax <;> by_cases h2 : u < uprobmax
    all_goals first
      | (exfalso; omega)
      | (have h1' : (umax ≤ u) = ¬ (u < umax) := by simp
         by_cases hip : (ipmax == 1) = true <;>
         simp only [h1', h1, h2, hip, ge_iff_le, not_true_eq_false, not_false_eq_true, decide_true, decide_false, if_true,
           if_false, Bool.false_eq_true, forIn_range_yield, pure_bind,
           kloop1_1, kloop2_1, kloop2_2, kloop3_1, kloop3_2, kloop3_3,
           polPolProbTerm_tt, polPolProbTerm_tf, polPolProbTerm_ft, polTerm, polProbTerm, negInf] <;>
         exact ⟨_, rfl⟩)

/- the part of the proof of `station_combined_all_ln_pdf_eq` that is the same for every order of the three counts: the loop is a
    station loop over `utmax` stations, and its pass for station `u` adds `allTerm … u` -/
set_option hygiene false in
local macro "station_all_block" : tactic => `(tactic| (
    refine (run_bind_eq _ _ result (fun s => ?_)).trans ?_
    · rcases s with ⟨_ | q, P, r⟩ <;> rfl
    refine forIn_station_below _ _ _ _ _ (by omega) ?_ _ _
    intro u hu o P r
    -- the class of station `u`
    by_cases h1 : u < umax <;> by_cases h2 : u < uprobmax <;> by_cases h3 : u < uarmax
    all_goals first
      | (exfalso; omega)
      | (have h1' : (umax ≤ u) = ¬ (u < umax) := by simp
         have h2' : (uprobmax ≤ u) = ¬ (u < uprobmax) := by simp
         have h3' : (uarmax ≤ u) = ¬ (u < uarmax) := by simp
         simp only [h1', h2', h3', h1, h2, h3, ge_iff_le, not_true_eq_false, not_false_eq_true, decide_true, decide_false,
           if_true, if_false, Bool.false_eq_true]
         by_cases hip : (ipmax == 1) = true <;>
         simp only [hip, if_true, if_false, Bool.false_eq_true, forIn_range_yield, pure_bind, h1, h2, h3,
           not_true_eq_false, not_false_eq_true,
           kloop1_1, kloop2_1, kloop2_2, kloop3_1, kloop3_2, kloop3_3, kloop4_1, kloop4_2, kloop4_3, kloop4_4,
           allTerm_ttt, allTerm_tft, allTerm_ftt, allTerm_fft, allTerm_ttf, allTerm_tff, allTerm_ftf,
           polTerm, polProbTerm, arTerm, negInf] <;>
         exact ⟨_, rfl⟩)))

/-- C20LC item 1: manual polarities (`u < umax`), polarity probabilities (`u < uprobmax`) and amplitude ratios
    (`u < uarmax`).  The kernel's `utmax` is `max umax (max uarmax uprobmax)`, its `utmin` the minimum of the three, and its
    nested `if`s select exactly the case of `allTerm`, whatever the order of the three counts.
    Remark (no deviation): in the last branch (`u < umax`, `u < uprobmax`, reached only with `utmin ≤ u`) the code tests
    `u ≥ uprobmax` a second time (cprobability.pyx line 500, "#Pol Only"); that test is always false there, so its `then` part
    is dead code, and the live `else` part (`log pol_prob + log pol`) is the right case because the three facts force
    `uarmax ≤ u`. -/
theorem station_combined_all_ln_pdf_eq (a a_prob ax ay mt lnP z pos neg ipp psx psy sigma : Array α)
    (ipmax v umax uarmax uprobmax vmax kmax wmax w index : Nat) :
    Pyx.cprobability.station_combined_all_ln_pdf a a_prob ax ay mt lnP z pos neg ipp psx psy sigma ipmax v umax uarmax uprobmax
        vmax kmax wmax w index
      = lnP.setIfInBounds index
          (accumulate (allTerm a a_prob ax ay mt z pos neg ipp psx psy sigma ipmax v umax uarmax uprobmax vmax kmax wmax w)
            (max umax (max uarmax uprobmax)) 0 (lnP.getD index (c 0))) := by
  unfold Pyx.cprobability.station_combined_all_ln_pdf
  -- the `utmin`/`utmax` prefix: three tests, six consistent outcomes (the orders of the three counts)
  by_cases hc1 : uarmax < umax <;>
    simp only [gt_iff_lt, hc1, decide_true, decide_false, if_true, if_false, Bool.false_eq_true]
  · by_cases hc2 : uprobmax < uarmax <;> by_cases hc3 : umax < uprobmax <;>
      simp only [hc2, hc3, decide_true, decide_false, if_true, if_false, Bool.false_eq_true]
    all_goals first
      | (exfalso; omega)
      | station_all_block
  · by_cases hc2 : uprobmax < umax <;> by_cases hc3 : uarmax < uprobmax <;>
      simp only [hc2, hc3, decide_true, decide_false, if_true, if_false, Bool.false_eq_true]
    all_goals first
      | (exfalso; omega)
      | station_all_block

/-! ## the kernels that call the combined station loops -/

/-! ### `c_polarity_ar_ln_pdf`: manual polarities and amplitude ratios (`umax = a_arr_s0`, `uarmax = ax_arr_s0`) -/

/-- value of cell `[v, w]` after `c_polarity_ar_ln_pdf` -/
def polArCell (a_arr ax ay mt z sigma_arr ipp psx psy lsm : Array α) (ipmax umax uarmax vmax kmax wmax v w : Nat) : α :=
  accumulate (polArTerm a_arr ax ay mt z sigma_arr ipp psx psy ipmax v umax uarmax vmax kmax wmax w) (max umax uarmax) 0
    (lsm.getD v (c 0))

/-- both results of the un-marginalised kernel: every cell `[v, w]` overwritten (in the code's order) with the station loop's
    value, the location-sample buffer untouched -/
theorem c_polarity_ar_ln_pdf_unmarginalised (ln_P a_arr mt sigma_arr ipp z ax ay psx psy lpls lsm : Array α)
    (umax vmax kmax mt_s0 wmax sigma_s0 ipmax z_s0 uarmax ax_s1 ax_s2 ay_s0 ay_s1 ay_s2 psx_s0 psy_s0 : Nat) :
    Pyx.cprobability.c_polarity_ar_ln_pdf ln_P a_arr umax vmax kmax mt mt_s0 wmax sigma_arr sigma_s0 ipp ipmax z z_s0 ax uarmax ax_s1 ax_s2 ay ay_s0 ay_s1 ay_s2
        psx psx_s0 psy psy_s0 0 lpls lsm
      = (fillCells (polArCell a_arr ax ay mt z sigma_arr ipp psx psy lsm ipmax umax uarmax vmax kmax wmax) vmax wmax ln_P, lpls) := by
  unfold Pyx.cprobability.c_polarity_ar_ln_pdf
  simp only [Nat.lt_irrefl, gt_iff_lt, decide_false, Bool.false_eq_true, if_false, forIn_range_yield, pure_bind,
    bind_pure_comp, map_pure, Id.run_pure, station_combined_polarity_ar_ln_pdf_eq, set_set_accumulate]
  congr 1
  · refine foldl_sim_fst (List.range wmax) (fun (P : Array α) w => (List.range vmax).foldl
      (fun (P : Array α) v => P.setIfInBounds (v * wmax + w)
        (polArCell a_arr ax ay mt z sigma_arr ipp psx psy lsm ipmax umax uarmax vmax kmax wmax v w)) P)
      (fun _ => True) ?_ trivial
    intro s w _ _
    refine ⟨?_, trivial⟩
    exact foldl_sim_fst (List.range vmax) _ (fun _ => True) (fun s v _ _ => ⟨rfl, trivial⟩) trivial
  · refine (foldl_sim_snd_fst (List.range wmax) (fun L _ => L) (fun _ => True) ?_ trivial).trans (foldl_keep _ _)
    intro s w _ _
    exact ⟨rfl, trivial⟩

/-- C20LC item 3: with `marginalised = 0` and room for the `vmax × wmax` cells, cell `[v, w]` of the first result is the combined
    station loop's value started from the location-sample multiplier -/
theorem c_polarity_ar_ln_pdf_eq_unmarginalised (ln_P a_arr mt sigma_arr ipp z ax ay psx psy lpls lsm : Array α)
    (umax vmax kmax mt_s0 wmax sigma_s0 ipmax z_s0 uarmax ax_s1 ax_s2 ay_s0 ay_s1 ay_s2 psx_s0 psy_s0 : Nat)
    (hsize : vmax * wmax ≤ ln_P.size) {v w : Nat} (hv : v < vmax) (hw : w < wmax) :
    (Pyx.cprobability.c_polarity_ar_ln_pdf ln_P a_arr umax vmax kmax mt mt_s0 wmax sigma_arr sigma_s0 ipp ipmax z z_s0 ax uarmax ax_s1 ax_s2 ay ay_s0 ay_s1 ay_s2
        psx psx_s0 psy psy_s0 0 lpls lsm).1.getD (v * wmax + w) (c 0)
      = accumulate (polArTerm a_arr ax ay mt z sigma_arr ipp psx psy ipmax v umax uarmax vmax kmax wmax w)
          (max umax uarmax) 0 (lsm.getD v (c 0)) := by
  rw [c_polarity_ar_ln_pdf_unmarginalised]
  exact getD_fillCells _ vmax wmax ln_P (c 0) hsize hv hw

/-- the first result of the marginalised kernel, as a fold that writes cell `w` for `w = 0, …, wmax - 1` -/
theorem c_polarity_ar_ln_pdf_marginalised (ln_P a_arr mt sigma_arr ipp z ax ay psx psy lpls lsm : Array α)
    (umax vmax kmax mt_s0 wmax sigma_s0 ipmax z_s0 uarmax ax_s1 ax_s2 ay_s0 ay_s1 ay_s2 psx_s0 psy_s0 marg : Nat)
    (hm : 0 < marg) (hL : vmax ≤ lpls.size) :
    (Pyx.cprobability.c_polarity_ar_ln_pdf ln_P a_arr umax vmax kmax mt mt_s0 wmax sigma_arr sigma_s0 ipp ipmax z z_s0 ax uarmax ax_s1 ax_s2 ay ay_s0 ay_s1 ay_s2
        psx psx_s0 psy psy_s0 marg lpls lsm).1
      = (List.range wmax).foldl (fun (P : Array α) w => P.setIfInBounds w
          (margCell (fun v => polArCell a_arr ax ay mt z sigma_arr ipp psx psy lsm ipmax umax uarmax vmax kmax wmax v w) vmax)) ln_P := by
  unfold Pyx.cprobability.c_polarity_ar_ln_pdf
  simp only [hm, decide_true, if_true, forIn_range_yield, bind_pure_comp, map_pure, Id.run_pure,
    station_combined_polarity_ar_ln_pdf_eq, set_set_accumulate, ite_pure_yield]
  refine foldl_sim_fst (List.range wmax) _ (fun s => vmax ≤ s.2.1.size) ?_ hL
  intro s w _ hInv
  -- first inner loop: fill the location-sample buffer, track the maximum
  generalize hS1 : List.foldl _ (s.snd.fst, s.snd.snd.fst, (-(c 1 / c 0) : α)) (List.range vmax) = S1
  have h1 : S1.1 = (List.range vmax).foldl (fun (L : Array α) v => L.setIfInBounds v
      (polArCell a_arr ax ay mt z sigma_arr ipp psx psy lsm ipmax umax uarmax vmax kmax wmax v w)) s.2.1 := by
    rw [← hS1]
    exact foldl_sim_fst (List.range vmax) _ (fun _ => True) (fun s v _ _ => ⟨rfl, trivial⟩) trivial
  have h2 : S1.2.2 = margMax (fun v => polArCell a_arr ax ay mt z sigma_arr ipp psx psy lsm ipmax umax uarmax vmax kmax wmax v w) vmax := by
    rw [← hS1]
    refine foldl_sim_snd_snd (List.range vmax) _ (fun s => vmax ≤ s.1.size) ?_ hInv
    intro s k hk hs
    have hk' : k < s.1.size := Nat.lt_of_lt_of_le (List.mem_range.mp hk) hs
    refine ⟨?_, by simpa using hs⟩
    simp only [getD_setIfInBounds_self _ _ _ _ hk']
    rfl
  simp only [h1, h2]
  -- second inner loop: sum the shifted exponentials into cell `w`
  generalize hS2 : List.foldl _ (s.fst.setIfInBounds w (c 0), S1.snd.fst) (List.range vmax) = S2
  have h3 : S2.1 = (List.range vmax).foldl (fun (P : Array α) v => P.setIfInBounds w (P.getD w (c 0) +
      Flt.exp (polArCell a_arr ax ay mt z sigma_arr ipp psx psy lsm ipmax umax uarmax vmax kmax wmax v w -
        margMax (fun v => polArCell a_arr ax ay mt z sigma_arr ipp psx psy lsm ipmax umax uarmax vmax kmax wmax v w) vmax)))
      (s.1.setIfInBounds w (c 0)) := by
    rw [← hS2]
    refine foldl_sim_fst (List.range vmax) _ (fun _ => True) ?_ trivial
    intro s' k hk _
    refine ⟨?_, trivial⟩
    simp only [getD_foldl_set_self _ vmax _ _ hInv (List.mem_range.mp hk)]
  rw [h3, marg_cell_pipeline]
  constructor
  · unfold margCell margSum negInf
    split <;> rfl
  · split <;> simpa [size_foldl_set] using hInv

/-- C20LC item 3: with `marginalised > 0`, room for `vmax` location samples in the buffer and for `wmax` cells in `ln_P`,
    cell `w` of the first result is `log (Σ_v exp (x_v - m)) + m` with `x_v` the combined station loop's value for location
    sample `v` and `m` their running `fmax` from `-inf`, or `-inf` when `m` is not `> -inf` (`PyxLoop.margCell`). -/
theorem c_polarity_ar_ln_pdf_eq_marginalised (ln_P a_arr mt sigma_arr ipp z ax ay psx psy lpls lsm : Array α)
    (umax vmax kmax mt_s0 wmax sigma_s0 ipmax z_s0 uarmax ax_s1 ax_s2 ay_s0 ay_s1 ay_s2 psx_s0 psy_s0 marg : Nat)
    (hm : 0 < marg) (hL : vmax ≤ lpls.size) (hP : wmax ≤ ln_P.size) {w : Nat} (hw : w < wmax) :
    (Pyx.cprobability.c_polarity_ar_ln_pdf ln_P a_arr umax vmax kmax mt mt_s0 wmax sigma_arr sigma_s0 ipp ipmax z z_s0 ax uarmax ax_s1 ax_s2 ay ay_s0 ay_s1 ay_s2
        psx psx_s0 psy psy_s0 marg lpls lsm).1.getD w (c 0)
      = margCell (fun v => accumulate (polArTerm a_arr ax ay mt z sigma_arr ipp psx psy ipmax v umax uarmax vmax kmax wmax w)
          (max umax uarmax) 0 (lsm.getD v (c 0))) vmax := by
  rw [c_polarity_ar_ln_pdf_marginalised ln_P a_arr mt sigma_arr ipp z ax ay psx psy lpls lsm umax vmax kmax mt_s0 wmax sigma_s0 ipmax z_s0 uarmax ax_s1 ax_s2 ay_s0 ay_s1 ay_s2 psx_s0 psy_s0 marg hm hL]
  exact getD_foldl_set_self (fun w => margCell (fun v => polArCell a_arr ax ay mt z sigma_arr ipp psx psy lsm ipmax umax uarmax vmax kmax wmax v w) vmax)
    wmax ln_P (c 0) hP hw

/-! ### `c_polarity_prob_combined_ln_pdf`: polarity probabilities and amplitude ratios (`umax = a_arr_s0`, `uarmax = ax_arr_s0`) -/

/-- value of cell `[v, w]` after `c_polarity_prob_combined_ln_pdf` -/
def polProbArCell (a_arr ax ay mt z pos neg ipp psx psy lsm : Array α) (ipmax umax uarmax vmax kmax wmax v w : Nat) : α :=
  accumulate (polProbArTerm a_arr ax ay mt z pos neg ipp psx psy ipmax v umax uarmax vmax kmax wmax w) (max umax uarmax) 0
    (lsm.getD v (c 0))

/-- both results of the un-marginalised kernel: every cell `[v, w]` overwritten (in the code's order) with the station loop's
    value, the location-sample buffer untouched -/
theorem c_polarity_prob_combined_ln_pdf_unmarginalised (ln_P a_arr mt pos neg ipp z ax ay psx psy lpls lsm : Array α)
    (umax vmax kmax mt_s0 wmax pos_s0 neg_s0 ipmax z_s0 uarmax ax_s1 ax_s2 ay_s0 ay_s1 ay_s2 psx_s0 psy_s0 : Nat) :
    Pyx.cprobability.c_polarity_prob_combined_ln_pdf ln_P a_arr umax vmax kmax mt mt_s0 wmax pos pos_s0 neg neg_s0 ipp ipmax z z_s0 ax uarmax ax_s1 ax_s2 ay ay_s0 ay_s1 ay_s2
        psx psx_s0 psy psy_s0 0 lpls lsm
      = (fillCells (polProbArCell a_arr ax ay mt z pos neg ipp psx psy lsm ipmax umax uarmax vmax kmax wmax) vmax wmax ln_P, lpls) := by
  unfold Pyx.cprobability.c_polarity_prob_combined_ln_pdf
  simp only [Nat.lt_irrefl, gt_iff_lt, decide_false, Bool.false_eq_true, if_false, forIn_range_yield, pure_bind,
    bind_pure_comp, map_pure, Id.run_pure, station_combined_polarity_probability_ar_ln_pdf_eq, set_set_accumulate]
  congr 1
  · refine foldl_sim_fst (List.range wmax) (fun (P : Array α) w => (List.range vmax).foldl
      (fun (P : Array α) v => P.setIfInBounds (v * wmax + w)
        (polProbArCell a_arr ax ay mt z pos neg ipp psx psy lsm ipmax umax uarmax vmax kmax wmax v w)) P)
      (fun _ => True) ?_ trivial
    intro s w _ _
    refine ⟨?_, trivial⟩
    exact foldl_sim_fst (List.range vmax) _ (fun _ => True) (fun s v _ _ => ⟨rfl, trivial⟩) trivial
  · refine (foldl_sim_snd_fst (List.range wmax) (fun L _ => L) (fun _ => True) ?_ trivial).trans (foldl_keep _ _)
    intro s w _ _
    exact ⟨rfl, trivial⟩

/-- C20LC item 3: with `marginalised = 0` and room for the `vmax × wmax` cells, cell `[v, w]` of the first result is the combined
    station loop's value started from the location-sample multiplier -/
theorem c_polarity_prob_combined_ln_pdf_eq_unmarginalised (ln_P a_arr mt pos neg ipp z ax ay psx psy lpls lsm : Array α)
    (umax vmax kmax mt_s0 wmax pos_s0 neg_s0 ipmax z_s0 uarmax ax_s1 ax_s2 ay_s0 ay_s1 ay_s2 psx_s0 psy_s0 : Nat)
    (hsize : vmax * wmax ≤ ln_P.size) {v w : Nat} (hv : v < vmax) (hw : w < wmax) :
    (Pyx.cprobability.c_polarity_prob_combined_ln_pdf ln_P a_arr umax vmax kmax mt mt_s0 wmax pos pos_s0 neg neg_s0 ipp ipmax z z_s0 ax uarmax ax_s1 ax_s2 ay ay_s0 ay_s1 ay_s2
        psx psx_s0 psy psy_s0 0 lpls lsm).1.getD (v * wmax + w) (c 0)
      = accumulate (polProbArTerm a_arr ax ay mt z pos neg ipp psx psy ipmax v umax uarmax vmax kmax wmax w)
          (max umax uarmax) 0 (lsm.getD v (c 0)) := by
  rw [c_polarity_prob_combined_ln_pdf_unmarginalised]
  exact getD_fillCells _ vmax wmax ln_P (c 0) hsize hv hw

/-- the first result of the marginalised kernel, as a fold that writes cell `w` for `w = 0, …, wmax - 1` -/
theorem c_polarity_prob_combined_ln_pdf_marginalised (ln_P a_arr mt pos neg ipp z ax ay psx psy lpls lsm : Array α)
    (umax vmax kmax mt_s0 wmax pos_s0 neg_s0 ipmax z_s0 uarmax ax_s1 ax_s2 ay_s0 ay_s1 ay_s2 psx_s0 psy_s0 marg : Nat)
    (hm : 0 < marg) (hL : vmax ≤ lpls.size) :
    (Pyx.cprobability.c_polarity_prob_combined_ln_pdf ln_P a_arr umax vmax kmax mt mt_s0 wmax pos pos_s0 neg neg_s0 ipp ipmax z z_s0 ax uarmax ax_s1 ax_s2 ay ay_s0 ay_s1 ay_s2
        psx psx_s0 psy psy_s0 marg lpls lsm).1
      = (List.range wmax).foldl (fun (P : Array α) w => P.setIfInBounds w
          (margCell (fun v => polProbArCell a_arr ax ay mt z pos neg ipp psx psy lsm ipmax umax uarmax vmax kmax wmax v w) vmax)) ln_P := by
  unfold Pyx.cprobability.c_polarity_prob_combined_ln_pdf
  simp only [hm, decide_true, if_true, forIn_range_yield, bind_pure_comp, map_pure, Id.run_pure,
    station_combined_polarity_probability_ar_ln_pdf_eq, set_set_accumulate, ite_pure_yield]
  refine foldl_sim_fst (List.range wmax) _ (fun s => vmax ≤ s.2.1.size) ?_ hL
  intro s w _ hInv
  -- first inner loop: fill the location-sample buffer, track the maximum
  generalize hS1 : List.foldl _ (s.snd.fst, s.snd.snd.fst, (-(c 1 / c 0) : α)) (List.range vmax) = S1
  have h1 : S1.1 = (List.range vmax).foldl (fun (L : Array α) v => L.setIfInBounds v
      (polProbArCell a_arr ax ay mt z pos neg ipp psx psy lsm ipmax umax uarmax vmax kmax wmax v w)) s.2.1 := by
    rw [← hS1]
    exact foldl_sim_fst (List.range vmax) _ (fun _ => True) (fun s v _ _ => ⟨rfl, trivial⟩) trivial
  have h2 : S1.2.2 = margMax (fun v => polProbArCell a_arr ax ay mt z pos neg ipp psx psy lsm ipmax umax uarmax vmax kmax wmax v w) vmax := by
    rw [← hS1]
    refine foldl_sim_snd_snd (List.range vmax) _ (fun s => vmax ≤ s.1.size) ?_ hInv
    intro s k hk hs
    have hk' : k < s.1.size := Nat.lt_of_lt_of_le (List.mem_range.mp hk) hs
    refine ⟨?_, by simpa using hs⟩
    simp only [getD_setIfInBounds_self _ _ _ _ hk']
    rfl
  simp only [h1, h2]
  -- second inner loop: sum the shifted exponentials into cell `w`
  generalize hS2 : List.foldl _ (s.fst.setIfInBounds w (c 0), S1.snd.fst) (List.range vmax) = S2
  have h3 : S2.1 = (List.range vmax).foldl (fun (P : Array α) v => P.setIfInBounds w (P.getD w (c 0) +
      Flt.exp (polProbArCell a_arr ax ay mt z pos neg ipp psx psy lsm ipmax umax uarmax vmax kmax wmax v w -
        margMax (fun v => polProbArCell a_arr ax ay mt z pos neg ipp psx psy lsm ipmax umax uarmax vmax kmax wmax v w) vmax)))
      (s.1.setIfInBounds w (c 0)) := by
    rw [← hS2]
    refine foldl_sim_fst (List.range vmax) _ (fun _ => True) ?_ trivial
    intro s' k hk _
    refine ⟨?_, trivial⟩
    simp only [getD_foldl_set_self _ vmax _ _ hInv (List.mem_range.mp hk)]
  rw [h3, marg_cell_pipeline]
  constructor
  · unfold margCell margSum negInf
    split <;> rfl
  · split <;> simpa [size_foldl_set] using hInv

/-- C20LC item 3: with `marginalised > 0`, room for `vmax` location samples in the buffer and for `wmax` cells in `ln_P`,
    cell `w` of the first result is `log (Σ_v exp (x_v - m)) + m` with `x_v` the combined station loop's value for location
    sample `v` and `m` their running `fmax` from `-inf`, or `-inf` when `m` is not `> -inf` (`PyxLoop.margCell`). -/
theorem c_polarity_prob_combined_ln_pdf_eq_marginalised (ln_P a_arr mt pos neg ipp z ax ay psx psy lpls lsm : Array α)
    (umax vmax kmax mt_s0 wmax pos_s0 neg_s0 ipmax z_s0 uarmax ax_s1 ax_s2 ay_s0 ay_s1 ay_s2 psx_s0 psy_s0 marg : Nat)
    (hm : 0 < marg) (hL : vmax ≤ lpls.size) (hP : wmax ≤ ln_P.size) {w : Nat} (hw : w < wmax) :
    (Pyx.cprobability.c_polarity_prob_combined_ln_pdf ln_P a_arr umax vmax kmax mt mt_s0 wmax pos pos_s0 neg neg_s0 ipp ipmax z z_s0 ax uarmax ax_s1 ax_s2 ay ay_s0 ay_s1 ay_s2
        psx psx_s0 psy psy_s0 marg lpls lsm).1.getD w (c 0)
      = margCell (fun v => accumulate (polProbArTerm a_arr ax ay mt z pos neg ipp psx psy ipmax v umax uarmax vmax kmax wmax w)
          (max umax uarmax) 0 (lsm.getD v (c 0))) vmax := by
  rw [c_polarity_prob_combined_ln_pdf_marginalised ln_P a_arr mt pos neg ipp z ax ay psx psy lpls lsm umax vmax kmax mt_s0 wmax pos_s0 neg_s0 ipmax z_s0 uarmax ax_s1 ax_s2 ay_s0 ay_s1 ay_s2 psx_s0 psy_s0 marg hm hL]
  exact getD_foldl_set_self (fun w => margCell (fun v => polProbArCell a_arr ax ay mt z pos neg ipp psx psy lsm ipmax umax uarmax vmax kmax wmax v w) vmax)
    wmax ln_P (c 0) hP hw

/-! ### `c_combined_pol_ln_pdf`: manual polarities and polarity probabilities (`umax = a_arr_s0`, `uprobmax = a_prob_arr_s0`) -/

/-- value of cell `[v, w]` after `c_combined_pol_ln_pdf` -/
def polPolProbCell (a_arr a_prob mt pos neg ipp sigma_arr lsm : Array α) (ipmax umax uprobmax vmax kmax wmax v w : Nat) : α :=
  accumulate (polPolProbTerm a_arr a_prob mt pos neg ipp sigma_arr ipmax v umax uprobmax vmax kmax wmax w) (max umax uprobmax) 0
    (lsm.getD v (c 0))

/-- both results of the un-marginalised kernel: every cell `[v, w]` overwritten (in the code's order) with the station loop's
    value, the location-sample buffer untouched -/
theorem c_combined_pol_ln_pdf_unmarginalised (ln_P a_arr mt sigma_arr a_prob pos neg ipp lpls lsm : Array α)
    (umax vmax kmax mt_s0 wmax sigma_s0 uprobmax ap_s1 ap_s2 pos_s0 neg_s0 ipmax : Nat) :
    Pyx.cprobability.c_combined_pol_ln_pdf ln_P a_arr umax vmax kmax mt mt_s0 wmax sigma_arr sigma_s0 a_prob uprobmax ap_s1 ap_s2 pos pos_s0 neg neg_s0 ipp ipmax
        0 lpls lsm
      = (fillCells (polPolProbCell a_arr a_prob mt pos neg ipp sigma_arr lsm ipmax umax uprobmax vmax kmax wmax) vmax wmax ln_P, lpls) := by
  unfold Pyx.cprobability.c_combined_pol_ln_pdf
  simp only [Nat.lt_irrefl, gt_iff_lt, decide_false, Bool.false_eq_true, if_false, forIn_range_yield, pure_bind,
    bind_pure_comp, map_pure, Id.run_pure, station_combined_pol_ln_pdf_eq, set_set_accumulate]
  congr 1
  · refine foldl_sim_fst (List.range wmax) (fun (P : Array α) w => (List.range vmax).foldl
      (fun (P : Array α) v => P.setIfInBounds (v * wmax + w)
        (polPolProbCell a_arr a_prob mt pos neg ipp sigma_arr lsm ipmax umax uprobmax vmax kmax wmax v w)) P)
      (fun _ => True) ?_ trivial
    intro s w _ _
    refine ⟨?_, trivial⟩
    exact foldl_sim_fst (List.range vmax) _ (fun _ => True) (fun s v _ _ => ⟨rfl, trivial⟩) trivial
  · refine (foldl_sim_snd_fst (List.range wmax) (fun L _ => L) (fun _ => True) ?_ trivial).trans (foldl_keep _ _)
    intro s w _ _
    exact ⟨rfl, trivial⟩

/-- C20LC item 3: with `marginalised = 0` and room for the `vmax × wmax` cells, cell `[v, w]` of the first result is the combined
    station loop's value started from the location-sample multiplier -/
theorem c_combined_pol_ln_pdf_eq_unmarginalised (ln_P a_arr mt sigma_arr a_prob pos neg ipp lpls lsm : Array α)
    (umax vmax kmax mt_s0 wmax sigma_s0 uprobmax ap_s1 ap_s2 pos_s0 neg_s0 ipmax : Nat)
    (hsize : vmax * wmax ≤ ln_P.size) {v w : Nat} (hv : v < vmax) (hw : w < wmax) :
    (Pyx.cprobability.c_combined_pol_ln_pdf ln_P a_arr umax vmax kmax mt mt_s0 wmax sigma_arr sigma_s0 a_prob uprobmax ap_s1 ap_s2 pos pos_s0 neg neg_s0 ipp ipmax
        0 lpls lsm).1.getD (v * wmax + w) (c 0)
      = accumulate (polPolProbTerm a_arr a_prob mt pos neg ipp sigma_arr ipmax v umax uprobmax vmax kmax wmax w)
          (max umax uprobmax) 0 (lsm.getD v (c 0)) := by
  rw [c_combined_pol_ln_pdf_unmarginalised]
  exact getD_fillCells _ vmax wmax ln_P (c 0) hsize hv hw

/-- the first result of the marginalised kernel, as a fold that writes cell `w` for `w = 0, …, wmax - 1` -/
theorem c_combined_pol_ln_pdf_marginalised (ln_P a_arr mt sigma_arr a_prob pos neg ipp lpls lsm : Array α)
    (umax vmax kmax mt_s0 wmax sigma_s0 uprobmax ap_s1 ap_s2 pos_s0 neg_s0 ipmax marg : Nat)
    (hm : 0 < marg) (hL : vmax ≤ lpls.size) :
    (Pyx.cprobability.c_combined_pol_ln_pdf ln_P a_arr umax vmax kmax mt mt_s0 wmax sigma_arr sigma_s0 a_prob uprobmax ap_s1 ap_s2 pos pos_s0 neg neg_s0 ipp ipmax
        marg lpls lsm).1
      = (List.range wmax).foldl (fun (P : Array α) w => P.setIfInBounds w
          (margCell (fun v => polPolProbCell a_arr a_prob mt pos neg ipp sigma_arr lsm ipmax umax uprobmax vmax kmax wmax v w) vmax)) ln_P := by
  unfold Pyx.cprobability.c_combined_pol_ln_pdf
  simp only [hm, decide_true, if_true, forIn_range_yield, bind_pure_comp, map_pure, Id.run_pure,
    station_combined_pol_ln_pdf_eq, set_set_accumulate, ite_pure_yield]
  refine foldl_sim_fst (List.range wmax) _ (fun s => vmax ≤ s.2.1.size) ?_ hL
  intro s w _ hInv
  -- first inner loop: fill the location-sample buffer, track the maximum
  generalize hS1 : List.foldl _ (s.snd.fst, s.snd.snd.fst, (-(c 1 / c 0) : α)) (List.range vmax) = S1
  have h1 : S1.1 = (List.range vmax).foldl (fun (L : Array α) v => L.setIfInBounds v
      (polPolProbCell a_arr a_prob mt pos neg ipp sigma_arr lsm ipmax umax uprobmax vmax kmax wmax v w)) s.2.1 := by
    rw [← hS1]
    exact foldl_sim_fst (List.range vmax) _ (fun _ => True) (fun s v _ _ => ⟨rfl, trivial⟩) trivial
  have h2 : S1.2.2 = margMax (fun v => polPolProbCell a_arr a_prob mt pos neg ipp sigma_arr lsm ipmax umax uprobmax vmax kmax wmax v w) vmax := by
    rw [← hS1]
    refine foldl_sim_snd_snd (List.range vmax) _ (fun s => vmax ≤ s.1.size) ?_ hInv
    intro s k hk hs
    have hk' : k < s.1.size := Nat.lt_of_lt_of_le (List.mem_range.mp hk) hs
    refine ⟨?_, by simpa using hs⟩
    simp only [getD_setIfInBounds_self _ _ _ _ hk']
    rfl
  simp only [h1, h2]
  -- second inner loop: sum the shifted exponentials into cell `w`
  generalize hS2 : List.foldl _ (s.fst.setIfInBounds w (c 0), S1.snd.fst) (List.range vmax) = S2
  have h3 : S2.1 = (List.range vmax).foldl (fun (P : Array α) v => P.setIfInBounds w (P.getD w (c 0) +
      Flt.exp (polPolProbCell a_arr a_prob mt pos neg ipp sigma_arr lsm ipmax umax uprobmax vmax kmax wmax v w -
        margMax (fun v => polPolProbCell a_arr a_prob mt pos neg ipp sigma_arr lsm ipmax umax uprobmax vmax kmax wmax v w) vmax)))
      (s.1.setIfInBounds w (c 0)) := by
    rw [← hS2]
    refine foldl_sim_fst (List.range vmax) _ (fun _ => True) ?_ trivial
    intro s' k hk _
    refine ⟨?_, trivial⟩
    simp only [getD_foldl_set_self _ vmax _ _ hInv (List.mem_range.mp hk)]
  rw [h3, marg_cell_pipeline]
  constructor
  · unfold margCell margSum negInf
    split <;> rfl
  · split <;> simpa [size_foldl_set] using hInv

/-- C20LC item 3: with `marginalised > 0`, room for `vmax` location samples in the buffer and for `wmax` cells in `ln_P`,
    cell `w` of the first result is `log (Σ_v exp (x_v - m)) + m` with `x_v` the combined station loop's value for location
    sample `v` and `m` their running `fmax` from `-inf`, or `-inf` when `m` is not `> -inf` (`PyxLoop.margCell`). -/
theorem c_combined_pol_ln_pdf_eq_marginalised (ln_P a_arr mt sigma_arr a_prob pos neg ipp lpls lsm : Array α)
    (umax vmax kmax mt_s0 wmax sigma_s0 uprobmax ap_s1 ap_s2 pos_s0 neg_s0 ipmax marg : Nat)
    (hm : 0 < marg) (hL : vmax ≤ lpls.size) (hP : wmax ≤ ln_P.size) {w : Nat} (hw : w < wmax) :
    (Pyx.cprobability.c_combined_pol_ln_pdf ln_P a_arr umax vmax kmax mt mt_s0 wmax sigma_arr sigma_s0 a_prob uprobmax ap_s1 ap_s2 pos pos_s0 neg neg_s0 ipp ipmax
        marg lpls lsm).1.getD w (c 0)
      = margCell (fun v => accumulate (polPolProbTerm a_arr a_prob mt pos neg ipp sigma_arr ipmax v umax uprobmax vmax kmax wmax w)
          (max umax uprobmax) 0 (lsm.getD v (c 0))) vmax := by
  rw [c_combined_pol_ln_pdf_marginalised ln_P a_arr mt sigma_arr a_prob pos neg ipp lpls lsm umax vmax kmax mt_s0 wmax sigma_s0 uprobmax ap_s1 ap_s2 pos_s0 neg_s0 ipmax marg hm hL]
  exact getD_foldl_set_self (fun w => margCell (fun v => polPolProbCell a_arr a_prob mt pos neg ipp sigma_arr lsm ipmax umax uprobmax vmax kmax wmax v w) vmax)
    wmax ln_P (c 0) hP hw

/-! ### `c_all_combined_ln_pdf`: manual polarities, polarity probabilities and amplitude ratios (`umax = a_arr_s0`, `uprobmax = a_prob_arr_s0`,
    `uarmax = ax_arr_s0`) -/

/-- value of cell `[v, w]` after `c_all_combined_ln_pdf` -/
def allCell (a_arr a_prob ax ay mt z pos neg ipp psx psy sigma_arr lsm : Array α) (ipmax umax uarmax uprobmax vmax kmax wmax v w : Nat) : α :=
  accumulate (allTerm a_arr a_prob ax ay mt z pos neg ipp psx psy sigma_arr ipmax v umax uarmax uprobmax vmax kmax wmax w) (max umax (max uarmax uprobmax)) 0
    (lsm.getD v (c 0))

/-- both results of the un-marginalised kernel: every cell `[v, w]` overwritten (in the code's order) with the station loop's
    value, the location-sample buffer untouched -/
theorem c_all_combined_ln_pdf_unmarginalised (ln_P a_arr mt sigma_arr a_prob pos neg ipp z ax ay psx psy lpls lsm : Array α)
    (umax vmax kmax mt_s0 wmax sigma_s0 uprobmax ap_s1 ap_s2 pos_s0 neg_s0 ipmax z_s0 uarmax ax_s1 ax_s2 ay_s0 ay_s1 ay_s2
    psx_s0 psy_s0 : Nat) :
    Pyx.cprobability.c_all_combined_ln_pdf ln_P a_arr umax vmax kmax mt mt_s0 wmax sigma_arr sigma_s0 a_prob uprobmax ap_s1 ap_s2 pos pos_s0 neg neg_s0 ipp ipmax
        z z_s0 ax uarmax ax_s1 ax_s2 ay ay_s0 ay_s1 ay_s2 psx psx_s0 psy psy_s0 0 lpls lsm
      = (fillCells (allCell a_arr a_prob ax ay mt z pos neg ipp psx psy sigma_arr lsm ipmax umax uarmax uprobmax vmax kmax wmax) vmax wmax ln_P, lpls) := by
  unfold Pyx.cprobability.c_all_combined_ln_pdf
  simp only [Nat.lt_irrefl, gt_iff_lt, decide_false, Bool.false_eq_true, if_false, forIn_range_yield, pure_bind,
    bind_pure_comp, map_pure, Id.run_pure, station_combined_all_ln_pdf_eq, set_set_accumulate]
  congr 1
  · refine foldl_sim_fst (List.range wmax) (fun (P : Array α) w => (List.range vmax).foldl
      (fun (P : Array α) v => P.setIfInBounds (v * wmax + w)
        (allCell a_arr a_prob ax ay mt z pos neg ipp psx psy sigma_arr lsm ipmax umax uarmax uprobmax vmax kmax wmax v w)) P)
      (fun _ => True) ?_ trivial
    intro s w _ _
    refine ⟨?_, trivial⟩
    exact foldl_sim_fst (List.range vmax) _ (fun _ => True) (fun s v _ _ => ⟨rfl, trivial⟩) trivial
  · refine (foldl_sim_snd_fst (List.range wmax) (fun L _ => L) (fun _ => True) ?_ trivial).trans (foldl_keep _ _)
    intro s w _ _
    exact ⟨rfl, trivial⟩

/-- C20LC item 3: with `marginalised = 0` and room for the `vmax × wmax` cells, cell `[v, w]` of the first result is the combined
    station loop's value started from the location-sample multiplier -/
theorem c_all_combined_ln_pdf_eq_unmarginalised (ln_P a_arr mt sigma_arr a_prob pos neg ipp z ax ay psx psy lpls lsm : Array α)
    (umax vmax kmax mt_s0 wmax sigma_s0 uprobmax ap_s1 ap_s2 pos_s0 neg_s0 ipmax z_s0 uarmax ax_s1 ax_s2 ay_s0 ay_s1 ay_s2
    psx_s0 psy_s0 : Nat)
    (hsize : vmax * wmax ≤ ln_P.size) {v w : Nat} (hv : v < vmax) (hw : w < wmax) :
    (Pyx.cprobability.c_all_combined_ln_pdf ln_P a_arr umax vmax kmax mt mt_s0 wmax sigma_arr sigma_s0 a_prob uprobmax ap_s1 ap_s2 pos pos_s0 neg neg_s0 ipp ipmax
        z z_s0 ax uarmax ax_s1 ax_s2 ay ay_s0 ay_s1 ay_s2 psx psx_s0 psy psy_s0 0 lpls lsm).1.getD (v * wmax + w) (c 0)
      = accumulate (allTerm a_arr a_prob ax ay mt z pos neg ipp psx psy sigma_arr ipmax v umax uarmax uprobmax vmax kmax wmax w)
          (max umax (max uarmax uprobmax)) 0 (lsm.getD v (c 0)) := by
  rw [c_all_combined_ln_pdf_unmarginalised]
  exact getD_fillCells _ vmax wmax ln_P (c 0) hsize hv hw

/-- the first result of the marginalised kernel, as a fold that writes cell `w` for `w = 0, …, wmax - 1` -/
theorem c_all_combined_ln_pdf_marginalised (ln_P a_arr mt sigma_arr a_prob pos neg ipp z ax ay psx psy lpls lsm : Array α)
    (umax vmax kmax mt_s0 wmax sigma_s0 uprobmax ap_s1 ap_s2 pos_s0 neg_s0 ipmax z_s0 uarmax ax_s1 ax_s2 ay_s0 ay_s1 ay_s2
    psx_s0 psy_s0 marg : Nat)
    (hm : 0 < marg) (hL : vmax ≤ lpls.size) :
    (Pyx.cprobability.c_all_combined_ln_pdf ln_P a_arr umax vmax kmax mt mt_s0 wmax sigma_arr sigma_s0 a_prob uprobmax ap_s1 ap_s2 pos pos_s0 neg neg_s0 ipp ipmax
        z z_s0 ax uarmax ax_s1 ax_s2 ay ay_s0 ay_s1 ay_s2 psx psx_s0 psy psy_s0 marg lpls lsm).1
      = (List.range wmax).foldl (fun (P : Array α) w => P.setIfInBounds w
          (margCell (fun v => allCell a_arr a_prob ax ay mt z pos neg ipp psx psy sigma_arr lsm ipmax umax uarmax uprobmax vmax kmax wmax v w) vmax)) ln_P := by
  unfold Pyx.cprobability.c_all_combined_ln_pdf
  simp only [hm, decide_true, if_true, forIn_range_yield, bind_pure_comp, map_pure, Id.run_pure,
    station_combined_all_ln_pdf_eq, set_set_accumulate, ite_pure_yield]
  refine foldl_sim_fst (List.range wmax) _ (fun s => vmax ≤ s.2.1.size) ?_ hL
  intro s w _ hInv
  -- first inner loop: fill the location-sample buffer, track the maximum
  generalize hS1 : List.foldl _ (s.snd.fst, s.snd.snd.fst, (-(c 1 / c 0) : α)) (List.range vmax) = S1
  have h1 : S1.1 = (List.range vmax).foldl (fun (L : Array α) v => L.setIfInBounds v
      (allCell a_arr a_prob ax ay mt z pos neg ipp psx psy sigma_arr lsm ipmax umax uarmax uprobmax vmax kmax wmax v w)) s.2.1 := by
    rw [← hS1]
    exact foldl_sim_fst (List.range vmax) _ (fun _ => True) (fun s v _ _ => ⟨rfl, trivial⟩) trivial
  have h2 : S1.2.2 = margMax (fun v => allCell a_arr a_prob ax ay mt z pos neg ipp psx psy sigma_arr lsm ipmax umax uarmax uprobmax vmax kmax wmax v w) vmax := by
    rw [← hS1]
    refine foldl_sim_snd_snd (List.range vmax) _ (fun s => vmax ≤ s.1.size) ?_ hInv
    intro s k hk hs
    have hk' : k < s.1.size := Nat.lt_of_lt_of_le (List.mem_range.mp hk) hs
    refine ⟨?_, by simpa using hs⟩
    simp only [getD_setIfInBounds_self _ _ _ _ hk']
    rfl
  simp only [h1, h2]
  -- second inner loop: sum the shifted exponentials into cell `w`
  generalize hS2 : List.foldl _ (s.fst.setIfInBounds w (c 0), S1.snd.fst) (List.range vmax) = S2
  have h3 : S2.1 = (List.range vmax).foldl (fun (P : Array α) v => P.setIfInBounds w (P.getD w (c 0) +
      Flt.exp (allCell a_arr a_prob ax ay mt z pos neg ipp psx psy sigma_arr lsm ipmax umax uarmax uprobmax vmax kmax wmax v w -
        margMax (fun v => allCell a_arr a_prob ax ay mt z pos neg ipp psx psy sigma_arr lsm ipmax umax uarmax uprobmax vmax kmax wmax v w) vmax)))
      (s.1.setIfInBounds w (c 0)) := by
    rw [← hS2]
    refine foldl_sim_fst (List.range vmax) _ (fun _ => True) ?_ trivial
    intro s' k hk _
    refine ⟨?_, trivial⟩
    simp only [getD_foldl_set_self _ vmax _ _ hInv (List.mem_range.mp hk)]
  rw [h3, marg_cell_pipeline]
  constructor
  · unfold margCell margSum negInf
    split <;> rfl
  · split <;> simpa [size_foldl_set] using hInv

/-- C20LC item 3: with `marginalised > 0`, room for `vmax` location samples in the buffer and for `wmax` cells in `ln_P`,
    cell `w` of the first result is `log (Σ_v exp (x_v - m)) + m` with `x_v` the combined station loop's value for location
    sample `v` and `m` their running `fmax` from `-inf`, or `-inf` when `m` is not `> -inf` (`PyxLoop.margCell`). -/
theorem c_all_combined_ln_pdf_eq_marginalised (ln_P a_arr mt sigma_arr a_prob pos neg ipp z ax ay psx psy lpls lsm : Array α)
    (umax vmax kmax mt_s0 wmax sigma_s0 uprobmax ap_s1 ap_s2 pos_s0 neg_s0 ipmax z_s0 uarmax ax_s1 ax_s2 ay_s0 ay_s1 ay_s2
    psx_s0 psy_s0 marg : Nat)
    (hm : 0 < marg) (hL : vmax ≤ lpls.size) (hP : wmax ≤ ln_P.size) {w : Nat} (hw : w < wmax) :
    (Pyx.cprobability.c_all_combined_ln_pdf ln_P a_arr umax vmax kmax mt mt_s0 wmax sigma_arr sigma_s0 a_prob uprobmax ap_s1 ap_s2 pos pos_s0 neg neg_s0 ipp ipmax
        z z_s0 ax uarmax ax_s1 ax_s2 ay ay_s0 ay_s1 ay_s2 psx psx_s0 psy psy_s0 marg lpls lsm).1.getD w (c 0)
      = margCell (fun v => accumulate (allTerm a_arr a_prob ax ay mt z pos neg ipp psx psy sigma_arr ipmax v umax uarmax uprobmax vmax kmax wmax w)
          (max umax (max uarmax uprobmax)) 0 (lsm.getD v (c 0))) vmax := by
  rw [c_all_combined_ln_pdf_marginalised ln_P a_arr mt sigma_arr a_prob pos neg ipp z ax ay psx psy lpls lsm umax vmax kmax mt_s0 wmax sigma_s0 uprobmax ap_s1 ap_s2 pos_s0 neg_s0 ipmax z_s0 uarmax ax_s1 ax_s2 ay_s0 ay_s1 ay_s2 psx_s0 psy_s0 marg hm hL]
  exact getD_foldl_set_self (fun w => margCell (fun v => allCell a_arr a_prob ax ay mt z pos neg ipp psx psy sigma_arr lsm ipmax umax uarmax uprobmax vmax kmax wmax v w) vmax)
    wmax ln_P (c 0) hP hw

/-! ### the theorems apply to the executable `Float` instance -/

example (a a_prob ax ay mt lnP z pos neg ipp psx psy sigma : Array Float)
    (ipmax v umax uarmax uprobmax vmax kmax wmax w index : Nat) :
    Pyx.cprobability.station_combined_all_ln_pdf a a_prob ax ay mt lnP z pos neg ipp psx psy sigma ipmax v umax uarmax uprobmax
        vmax kmax wmax w index
      = lnP.setIfInBounds index
          (accumulate (allTerm a a_prob ax ay mt z pos neg ipp psx psy sigma ipmax v umax uarmax uprobmax vmax kmax wmax w)
            (max umax (max uarmax uprobmax)) 0 (lnP.getD index (c 0))) :=
  station_combined_all_ln_pdf_eq a a_prob ax ay mt lnP z pos neg ipp psx psy sigma ipmax v umax uarmax uprobmax vmax kmax wmax w
    index

example (a ax ay mt lnP z sigma ipp psx psy : Array Float) (ipmax v umax uarmax vmax kmax wmax w index : Nat) :
    Pyx.cprobability.station_combined_polarity_ar_ln_pdf a ax ay mt lnP z sigma ipp psx psy ipmax v umax uarmax vmax kmax
        wmax w index
      = lnP.setIfInBounds index
          (accumulate (polArTerm a ax ay mt z sigma ipp psx psy ipmax v umax uarmax vmax kmax wmax w) (max umax uarmax) 0
            (lnP.getD index (c 0))) :=
  station_combined_polarity_ar_ln_pdf_eq a ax ay mt lnP z sigma ipp psx psy ipmax v umax uarmax vmax kmax wmax w index

example (a ax ay mt lnP z pos neg ipp psx psy : Array Float) (ipmax v umax uarmax vmax kmax wmax w index : Nat) :
    Pyx.cprobability.station_combined_polarity_probability_ar_ln_pdf a ax ay mt lnP z pos neg ipp psx psy ipmax v umax uarmax
        vmax kmax wmax w index
      = lnP.setIfInBounds index
          (accumulate (polProbArTerm a ax ay mt z pos neg ipp psx psy ipmax v umax uarmax vmax kmax wmax w) (max umax uarmax) 0
            (lnP.getD index (c 0))) :=
  station_combined_polarity_probability_ar_ln_pdf_eq a ax ay mt lnP z pos neg ipp psx psy ipmax v umax uarmax vmax kmax wmax w
    index

example (a a_prob mt lnP pos neg ipp sigma : Array Float) (ipmax v umax uprobmax vmax kmax wmax w index : Nat) :
    Pyx.cprobability.station_combined_pol_ln_pdf a a_prob mt lnP pos neg ipp sigma ipmax v umax uprobmax vmax kmax wmax w index
      = lnP.setIfInBounds index
          (accumulate (polPolProbTerm a a_prob mt pos neg ipp sigma ipmax v umax uprobmax vmax kmax wmax w) (max umax uprobmax) 0
            (lnP.getD index (c 0))) :=
  station_combined_pol_ln_pdf_eq a a_prob mt lnP pos neg ipp sigma ipmax v umax uprobmax vmax kmax wmax w index

example (ln_P a_arr mt sigma_arr a_prob pos neg ipp z ax ay psx psy lpls lsm : Array Float)
    (umax vmax kmax mt_s0 wmax sigma_s0 uprobmax ap_s1 ap_s2 pos_s0 neg_s0 ipmax z_s0 uarmax ax_s1 ax_s2 ay_s0 ay_s1 ay_s2
    psx_s0 psy_s0 marg : Nat)
    (hm : 0 < marg) (hL : vmax ≤ lpls.size) (hP : wmax ≤ ln_P.size) {w : Nat} (hw : w < wmax) :
    (Pyx.cprobability.c_all_combined_ln_pdf ln_P a_arr umax vmax kmax mt mt_s0 wmax sigma_arr sigma_s0 a_prob uprobmax ap_s1 ap_s2
        pos pos_s0 neg neg_s0 ipp ipmax z z_s0 ax uarmax ax_s1 ax_s2 ay ay_s0 ay_s1 ay_s2 psx psx_s0 psy psy_s0 marg lpls
        lsm).1.getD w (c 0)
      = margCell (fun v => accumulate
          (allTerm a_arr a_prob ax ay mt z pos neg ipp psx psy sigma_arr ipmax v umax uarmax uprobmax vmax kmax wmax w)
          (max umax (max uarmax uprobmax)) 0 (lsm.getD v (c 0))) vmax :=
  c_all_combined_ln_pdf_eq_marginalised ln_P a_arr mt sigma_arr a_prob pos neg ipp z ax ay psx psy lpls lsm umax vmax kmax mt_s0
    wmax sigma_s0 uprobmax ap_s1 ap_s2 pos_s0 neg_s0 ipmax z_s0 uarmax ax_s1 ax_s2 ay_s0 ay_s1 ay_s2 psx_s0 psy_s0 marg hm hL hP hw

end MTfitVerif.C20
