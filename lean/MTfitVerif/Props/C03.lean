import MTfitVerif.Model.RatioPdf
import MTfitVerif.Real.LogPSem
import MTfitVerif.Real.RatioPdfLemmas
/-
  C03 — the amplitude-ratio likelihood is the density of |X/Y| for two independent Gaussians.
  Property theorems only; helpers in `Real/RatioPdfLemmas.lean`.
-/
namespace MTfitVerif.C03
open MTfitVerif LogP RatioPdf Real

/-- Hinkley's coefficient `a` is strictly positive, so every divisor in the closed form is
    non-zero: the density is defined (no 0/0) for every positive `σx, σy`. -/
theorem coefA_pos (z : ℝ) {σx σy : ℝ} (hx : 0 < σx) (hy : 0 < σy) : 0 < coefA z σx σy :=
  RatioPdf.coefA_pos z hx hy

/-- the algebraic heart of Hinkley's derivation: completing the square in `y` -/
theorem exponent_identity (z μx μy : ℝ) {σx σy : ℝ} (hx : 0 < σx) (hy : 0 < σy) (y : ℝ) :
    let a := coefA z σx σy
    let b := coefB z μx μy σx σy
    let cc := coefC μx μy σx σy
    (z * y - μx)^2 / σx^2 + (y - μy)^2 / σy^2 = a^2 * (y - b / a^2)^2 + cc - b^2 / a^2 := by
  intro a b cc
  simp only [a, b, cc]
  rw [coefA_sq z hx hy, coefB_eq, coefC_eq]
  exact complete_square z μx μy hx hy y

/-- Cauchy–Schwarz: the exponent of `d` is never positive (`d ≤ 1`, no overflow) -/
theorem d_exponent_nonpos (z μx μy : ℝ) {σx σy : ℝ} (hx : 0 < σx) (hy : 0 < σy) :
    let a := coefA z σx σy
    let b := coefB z μx μy σx σy
    let cc := coefC μx μy σx σy
    (b * b - cc * (a * a)) / (2 * (a * a)) ≤ 0 := by
  intro a b cc
  have ha : 0 < a := RatioPdf.coefA_pos z hx hy
  apply div_nonpos_of_nonpos_of_nonneg
  · have h := cauchy_schwarz z μx μy hx hy
    simp only [a, b, cc]
    rw [coefA_mul_self z hx hy, coefB_eq, coefC_eq]
    linarith
  · positivity

/-- the constant prefactor relation `d · e^{-b²/2a²} = e^{-c/2}` used in the factorisation -/
theorem d_factor (z μx μy : ℝ) {σx σy : ℝ} (hx : 0 < σx) (hy : 0 < σy) :
    let a := coefA z σx σy
    let b := coefB z μx μy σx σy
    let cc := coefC μx μy σx σy
    Real.exp ((b * b - cc * (a * a)) / (2 * (a * a))) * Real.exp (-(b^2) / (2 * a^2)) = Real.exp (-cc / 2) := by
  intro a b cc
  have ha : a ≠ 0 := (RatioPdf.coefA_pos z hx hy).ne'
  rw [← Real.exp_add]
  congr 1
  field_simp
  ring

/-- `b · (Φ(b/a) − Φ(−b/a)) ≥ 0` -/
theorem b_cdf_term_nonneg (b : ℝ) {a : ℝ} (ha : 0 < a) :
    0 ≤ b * (stdCdf (b / a) - stdCdf (-b / a)) :=
  RatioPdf.b_cdf_term_nonneg b ha

/-- non-negativity (indeed positivity) of the closed-form density -/
theorem ratioPdf_pos (z μx μy : ℝ) {σx σy : ℝ} (hx : 0 < σx) (hy : 0 < σy) :
    0 < ratioPdf z μx μy σx σy := by
  rw [ratioPdf_eq]
  have ha : 0 < coefA z σx σy := RatioPdf.coefA_pos z hx hy
  have hb := RatioPdf.b_cdf_term_nonneg (coefB z μx μy σx σy) ha
  generalize coefA z σx σy = a at *
  generalize coefB z μx μy σx σy = b at *
  generalize coefC μx μy σx σy = cc at *
  generalize stdCdf (b / a) - stdCdf (-b / a) = t at *
  have h2 : 0 < 1 / (π * (σx * σy * (a * a))) * Real.exp (-cc / 2) := by positivity
  have h1 : 0 ≤ b * Real.exp ((b * b - cc * (a * a)) / (2 * (a * a)))
      / (√(2 * π) * (σx * σy * (a * (a * a)))) * t := by
    have e : b * Real.exp ((b * b - cc * (a * a)) / (2 * (a * a)))
        / (√(2 * π) * (σx * σy * (a * (a * a)))) * t
        = (b * t) * (Real.exp ((b * b - cc * (a * a)) / (2 * (a * a)))
        / (√(2 * π) * (σx * σy * (a * (a * a))))) := by ring
    rw [e]
    exact mul_nonneg hb (by positivity)
  linarith

theorem arPdf_nonneg (r μx μy px py : ℝ) : 0 ≤ arPdf r μx μy px py := by
  rw [arPdf_eq]
  split
  · exact le_rfl
  · rename_i h
    have h := not_or.mp h
    have hsx : 0 < errFix px * |μx| := mul_pos (errFix_pos px) (abs_pos.mpr h.1)
    have hsy : 0 < errFix py * |μy| := mul_pos (errFix_pos py) (abs_pos.mpr h.2)
    exact (add_pos (ratioPdf_pos r _ _ hsx hsy) (ratioPdf_pos (-r) _ _ hsx hsy)).le

/-- the likelihood depends on the modelled amplitudes only through their magnitudes -/
theorem arPdf_abs (r μx μy px py : ℝ) : arPdf r μx μy px py = arPdf r |μx| |μy| px py := by
  rw [arPdf_eq, arPdf_eq]
  simp only [abs_abs, abs_eq_zero]

theorem arPdf_neg_left (r μx μy px py : ℝ) : arPdf r (-μx) μy px py = arPdf r μx μy px py := by
  rw [arPdf_eq, arPdf_eq]
  simp only [abs_neg, neg_eq_zero]

theorem arPdf_neg_right (r μx μy px py : ℝ) : arPdf r μx (-μy) px py = arPdf r μx μy px py := by
  rw [arPdf_eq, arPdf_eq]
  simp only [abs_neg, neg_eq_zero]

/-- symmetric in the sign of the observed ratio -/
theorem arPdf_neg_ratio (r μx μy px py : ℝ) : arPdf (-r) μx μy px py = arPdf r μx μy px py := by
  rw [arPdf_eq, arPdf_eq, neg_neg]
  split
  · rfl
  · exact add_comm _ _

/-- for non-zero modelled amplitudes and any fractional error (zero included: it is replaced by
    `10⁻²⁴`) both standard deviations are strictly positive, so the density is defined and
    strictly positive: finite and NaN-free -/
theorem arPdf_pos (r : ℝ) {μx μy : ℝ} (hμx : μx ≠ 0) (hμy : μy ≠ 0) (px py : ℝ) :
    0 < arPdf r μx μy px py := by
  rw [arPdf_eq, if_neg (not_or.mpr ⟨hμx, hμy⟩)]
  have hsx : 0 < errFix px * |μx| := mul_pos (errFix_pos px) (abs_pos.mpr hμx)
  have hsy : 0 < errFix py * |μy| := mul_pos (errFix_pos py) (abs_pos.mpr hμy)
  exact add_pos (ratioPdf_pos r _ _ hsx hsy) (ratioPdf_pos (-r) _ _ hsx hsy)

/-- sum of logs over stations = log of the product of the station densities -/
theorem lnArAt_toProb (sts : List (ArStation ℝ)) (k : Nat) (mt : List ℝ) :
    toProb (lnArAt sts k mt)
      = (sts.map fun s => arPdf s.ratio (dot (s.cx.getD k []) mt) (dot (s.cy.getD k []) mt) s.px s.py).prod := by
  unfold lnArAt
  rw [toProb_sum, List.map_map]
  congr 1
  apply List.map_congr_left
  intro s _
  exact toProb_ofProb (arPdf_nonneg _ _ _ _ _)

end MTfitVerif.C03
