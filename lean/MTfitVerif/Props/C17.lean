import MTfitVerif.Model.Binary
import MTfitVerif.Model.Csv
import MTfitVerif.Real.Inst
import MTfitVerif.Real.FileFormatLemmas
/-
  C17 — input parsing and binary result files preserve the data they carry.
-/
namespace MTfitVerif.C17
open MTfitVerif

section binary
open Binary

/-- a record as the reader returns it: the evidence is kept only with converted parameters -/
def norm (r : Record ℝ) : Record ℝ := { r with lbe := if r.converted then r.lbe else none }

/-- well-formed record: six tensor components per sample; 13 converted parameters per sample
    exactly when the record is marked converted -/
def WF (r : Record ℝ) : Prop :=
  ∀ s ∈ r.samples, s.mt.length = 6 ∧ s.conv.length = (if r.converted then 13 else 0)

/-- the `√2` scaling of the off-diagonal components is an exact inverse pair over ℝ -/
theorem sqrt2_roundtrip (x : ℝ) : Real.sqrt 2 * (x / Real.sqrt 2) = x := by
  exact sqrt2_mul_div x

theorem readSamples_write (conv : Bool) (ss : List (Sample ℝ)) (rest : List (Word ℝ))
    (h : ∀ s ∈ ss, s.mt.length = 6 ∧ s.conv.length = (if conv then 13 else 0)) :
    readSamples conv ss.length (ss.flatMap (writeSample conv) ++ rest) = some (ss, rest) := by
  induction ss with
  | nil => simp [readSamples]
  | cons s ss ih =>
    have hs := h s List.mem_cons_self
    rw [List.flatMap_cons, List.append_assoc, List.length_cons,
      readSamples_step conv s _ _ hs.1 hs.2, ih (fun u hu => h u (List.mem_cons_of_mem _ hu))]
    rfl

/-- reading one record from the front of a stream returns it and the untouched remainder -/
theorem readOne_write (r : Record ℝ) (h : WF r) (rest : List (Word ℝ)) :
    readOne (write r ++ rest) = some (norm r, rest) := by
  have hrs := readSamples_write r.converted r.samples rest h
  simp only [write, List.cons_append, List.nil_append, readOne, hrs]
  rfl

/-- writing any number of records one after the other and reading the stream back returns the
    same records: tensors, probabilities, log-probabilities, counts and converted parameters —
    for 0..n samples each, converted or not -/
theorem read_write_binary (rs : List (Record ℝ)) (h : ∀ r ∈ rs, WF r) (fuel : Nat)
    (hf : rs.length ≤ fuel) :
    read fuel (rs.flatMap write) = some (rs.map norm) := by
  induction rs generalizing fuel with
  | nil => cases fuel <;> simp [Binary.read]
  | cons r rs ih =>
    cases fuel with
    | zero => simp at hf
    | succ fuel =>
      have hr := readOne_write r (h r List.mem_cons_self) (rs.flatMap write)
      have hrest := ih (fun u hu => h u (List.mem_cons_of_mem _ hu)) fuel
        (by simpa using hf)
      rw [List.flatMap_cons]
      have hne : ∃ w ws, write r ++ rs.flatMap write = w :: ws := ⟨_, _, rfl⟩
      obtain ⟨w, ws, hw⟩ := hne
      rw [hw, Binary.read, ← hw, hr]
      · simp [hrest]
      · intro hnil; cases hnil

/-- the sample count in the header is the number of samples written -/
theorem write_header (r : Record ℝ) :
    (write r).take 4 = [Word.q 2, Word.q r.total, Word.q r.samples.length, Word.b r.converted] := by
  rfl

end binary

section csv
open Csv

/-- lines of one data type: its type line, a header and one row per station -/
def typeLines (k : String) (i : Idx) (rows : List (List String)) : List CLine :=
  CLine.typ k :: CLine.header i :: rows.map CLine.row

/-- a single type: every station row is extracted with the column indices of the header in
    force, row for row -/
theorem parseEvent_single (ps : PState) (du k : String) (i : Idx) (rows : List (List String))
    (hne : rows ≠ []) :
    parseEvent ps du (typeLines k i rows)
      = ({ uid := du, types := [(k, rows.map (mkRow i))] }, { key := k, idx := i }) := by
  have hfl := flush_block k i rows { ps := ps, uid := du, rows := [], types := [] } hne
    (by simp [flush])
  simp only [parseEvent, typeLines, foldl_typeLines]
  rw [hfl]
  simp [flush]

/-- an explicit UID line overrides the default -/
theorem parseEvent_uid (ps : PState) (du u k : String) (i : Idx) (rows : List (List String))
    (hne : rows ≠ []) :
    (parseEvent ps du (CLine.uid u :: typeLines k i rows)).1
      = { uid := u, types := [(k, rows.map (mkRow i))] } := by
  have hfl := flush_block k i rows
    (stepLine { ps := ps, uid := du, rows := [], types := [] } (CLine.uid u)) hne
    (by simp [flush, stepLine])
  simp only [parseEvent, typeLines]
  rw [List.foldl_cons, foldl_typeLines, hfl]
  simp [flush, stepLine]

/-- several types with distinct keys: each keeps its own rows, in file order, each read with
    its own header -/
theorem parseEvent_types (ps : PState) (du : String) (ts : List (String × Idx × List (List String)))
    (hne : ∀ t ∈ ts, t.2.2 ≠ []) (hk : (ts.map (·.1)).Nodup) :
    (parseEvent ps du (ts.flatMap fun t => typeLines t.1 t.2.1 t.2.2)).1
      = { uid := du, types := ts.map fun t => (t.1, t.2.2.map (mkRow t.2.1)) } := by
  have := foldl_types ts { ps := ps, uid := du, rows := [], types := [] } hne (by simpa [flush] using hk)
  simp only [parseEvent, typeLines]
  rw [this.1, this.2]
  simp [flush]

/-- column order does not matter: a row read through a header depends only on the fields the
    header points at -/
theorem mkRow_header_invariant (i j : Idx) (f g : List String)
    (h1 : f.getD i.name "" = g.getD j.name "") (h2 : f.getD i.takeoff "" = g.getD j.takeoff "")
    (h3 : f.getD i.azimuth "" = g.getD j.azimuth "") (h4 : f.getD i.measured "" = g.getD j.measured "")
    (h5 : f.getD i.error "" = g.getD j.error "") : mkRow i f = mkRow j g := by
  simp only [mkRow, h1, h2, h3, h4, h5]

/-- one parsed event per event block, in file order, whatever their number -/
theorem parseEvents_length (ps : PState) (n : Nat) (evs : List (String × List CLine)) :
    (parseEvents ps n evs).length = evs.length := by
  induction evs generalizing ps n with
  | nil => simp [parseEvents]
  | cons e evs ih =>
    obtain ⟨du, ls⟩ := e
    simp [parseEvents, ih]

/-- hyp files: every sufficiently long line between PHASE and END_PHASE yields its pick (station,
    phase, polarity, uncertainty, azimuth, take-off), in file order; lines outside yield none -/
theorem picks_phase_block (pre block post : List (List String))
    (hpre : ∀ l ∈ pre, l.headD "" ≠ "PHASE") (hb : ∀ l ∈ block, l.headD "" ≠ "PHASE" ∧ l.headD "" ≠ "END_PHASE")
    (hpost : ∀ l ∈ post, l.headD "" ≠ "PHASE") :
    picks (pre ++ [["PHASE"]] ++ block ++ [["END_PHASE"]] ++ post) = block.filterMap pickOf := by
  rw [picks_eq]
  simp only [List.foldl_append, List.foldl_cons, List.foldl_nil]
  rw [foldl_outside pre [] hpre, pickStep_phase, foldl_inside block _ hb, pickStep_end,
    foldl_outside post _ hpost]
  simp

end csv

end MTfitVerif.C17


