import MTfitVerif.Model.Matrices
/-
  Helper lemmas about the list / ordering functions of `Model/Matrices.lean` (C11, part 2).
  Pure `List` / `Nat` facts; nothing here depends on the scalar type.
-/
namespace MTfitVerif
namespace Matrices

/-! ### `insertSorted`, `sortDedup` -/

theorem mem_insertSorted {x y : Nat} {l : List Nat} :
    y ∈ insertSorted x l ↔ y = x ∨ y ∈ l := by
  induction l with
  | nil => simp [insertSorted]
  | cons z zs ih =>
    simp only [insertSorted]
    split
    · simp
    · split
      · subst_vars; simp
      · simp only [List.mem_cons, ih]
        constructor
        · rintro (h | h | h) <;> simp [h]
        · rintro (h | h | h) <;> simp [h]

theorem pairwise_insertSorted {x : Nat} {l : List Nat} (h : l.Pairwise (· < ·)) :
    (insertSorted x l).Pairwise (· < ·) := by
  induction l with
  | nil => simp [insertSorted]
  | cons z zs ih =>
    have hz := List.pairwise_cons.mp h
    simp only [insertSorted]
    split
    · rename_i hxz
      refine List.pairwise_cons.mpr ⟨?_, h⟩
      intro a ha
      rcases List.mem_cons.mp ha with rfl | ha
      · exact hxz
      · exact Nat.lt_trans hxz (hz.1 a ha)
    · split
      · exact h
      · rename_i h1 h2
        refine List.pairwise_cons.mpr ⟨?_, ih hz.2⟩
        intro a ha
        rcases mem_insertSorted.mp ha with rfl | ha
        · omega
        · exact hz.1 a ha

theorem pairwise_sortDedup (l : List Nat) : (sortDedup l).Pairwise (· < ·) := by
  induction l with
  | nil => simp [sortDedup]
  | cons x xs ih => exact pairwise_insertSorted ih

theorem mem_sortDedup' {l : List Nat} {x : Nat} : x ∈ sortDedup l ↔ x ∈ l := by
  induction l with
  | nil => simp [sortDedup]
  | cons y ys ih => simp [sortDedup, mem_insertSorted, ih]

/-- a strictly increasing list is determined by its members -/
theorem eq_of_pairwise_lt_of_mem_iff {l₁ l₂ : List Nat} (h₁ : l₁.Pairwise (· < ·))
    (h₂ : l₂.Pairwise (· < ·)) (h : ∀ x, x ∈ l₁ ↔ x ∈ l₂) : l₁ = l₂ := by
  have n₁ : l₁.Nodup := h₁.imp (fun hab => Nat.ne_of_lt hab)
  have n₂ : l₂.Nodup := h₂.imp (fun hab => Nat.ne_of_lt hab)
  have hp : l₁.Perm l₂ := (List.perm_ext_iff_of_nodup n₁ n₂).mpr h
  exact List.Perm.eq_of_pairwise (le := (· < ·)) (fun a b _ _ hab hba => by omega) h₁ h₂ hp

theorem sortDedup_congr {l₁ l₂ : List Nat} (h : ∀ x, x ∈ l₁ ↔ x ∈ l₂) :
    sortDedup l₁ = sortDedup l₂ :=
  eq_of_pairwise_lt_of_mem_iff (pairwise_sortDedup _) (pairwise_sortDedup _)
    (fun x => by rw [mem_sortDedup', mem_sortDedup', h])

/-! ### `insertKey`, `sortByKey` -/

theorem insertKey_perm {α : Type} (x : DataType α) (l : List (DataType α)) :
    (insertKey x l).Perm (x :: l) := by
  induction l with
  | nil => simp [insertKey]
  | cons y ys ih =>
    simp only [insertKey]
    split
    · exact List.Perm.refl _
    · exact ((List.Perm.cons y ih).trans (List.Perm.swap x y ys))

theorem sortByKey_perm' {α : Type} (l : List (DataType α)) : (sortByKey l).Perm l := by
  induction l with
  | nil => simp [sortByKey]
  | cons x xs ih => exact (insertKey_perm x _).trans (List.Perm.cons x ih)

/-- the order on strings is total: `¬ a < b → ¬ b < c → ¬ a < c`-style transitivity of `≤` -/
theorem string_not_lt_trans {a b c : String} (h₁ : ¬ b < a) (h₂ : ¬ c < b) : ¬ c < a := by
  have h₁' : a ≤ b := String.not_lt.mp h₁
  have h₂' : b ≤ c := String.not_lt.mp h₂
  exact String.not_lt.mpr (String.le_trans h₁' h₂')

theorem pairwise_insertKey {α : Type} (x : DataType α) {l : List (DataType α)}
    (h : l.Pairwise (fun a b => ¬ b.key < a.key)) :
    (insertKey x l).Pairwise (fun a b => ¬ b.key < a.key) := by
  induction l with
  | nil => simp [insertKey]
  | cons y ys ih =>
    have hy := List.pairwise_cons.mp h
    simp only [insertKey]
    split
    · rename_i hxy
      refine List.pairwise_cons.mpr ⟨?_, h⟩
      intro a ha
      rcases List.mem_cons.mp ha with rfl | ha
      · exact String.lt_asymm hxy
      · exact string_not_lt_trans (String.lt_asymm hxy) (hy.1 a ha)
    · rename_i hxy
      refine List.pairwise_cons.mpr ⟨?_, ih hy.2⟩
      intro a ha
      rcases List.mem_cons.mp ((insertKey_perm x ys).mem_iff.mp ha) with rfl | ha
      · exact hxy
      · exact hy.1 a ha

theorem pairwise_sortByKey {α : Type} (l : List (DataType α)) :
    (sortByKey l).Pairwise (fun a b => ¬ b.key < a.key) := by
  induction l with
  | nil => simp [sortByKey]
  | cons x xs ih => exact pairwise_insertKey x ih

/-! ### `findRow` -/

theorem findRow_some {α : Type} {rows : List (Row α)} {n : Nat} {r : Row α}
    (h : findRow rows n = some r) : r ∈ rows ∧ r.name = n := by
  unfold findRow at h
  exact ⟨List.mem_of_find?_eq_some h, by simpa using List.find?_some h⟩

theorem findRow_isSome {α : Type} {rows : List (Row α)} {n : Nat}
    (h : ∃ r ∈ rows, r.name = n) : ∃ r, findRow rows n = some r := by
  obtain ⟨r, hr, hn⟩ := h
  have : (findRow rows n).isSome := by
    unfold findRow
    rw [List.find?_isSome]
    exact ⟨r, hr, by simpa using hn⟩
  exact Option.isSome_iff_exists.mp this

/-- with distinct names, the row found for a name is *the* row with that name -/
theorem findRow_eq_of_nodup {α : Type} {rows : List (Row α)} (hnd : (rows.map (·.name)).Nodup)
    {r : Row α} (hr : r ∈ rows) : findRow rows r.name = some r := by
  induction rows with
  | nil => simp at hr
  | cons y ys ih =>
    simp only [List.map_cons, List.nodup_cons] at hnd
    rcases List.mem_cons.mp hr with rfl | hr'
    · simp [findRow]
    · have hne : y.name ≠ r.name := by
        intro he
        exact hnd.1 (he ▸ List.mem_map.mpr ⟨r, hr', rfl⟩)
      have := ih hnd.2 hr'
      simp only [findRow] at this ⊢
      rw [List.find?_cons_of_neg (by simpa using hne)]
      exact this

theorem findRow_perm {α : Type} {rows rows' : List (Row α)} (hp : rows.Perm rows')
    (hnd : (rows.map (·.name)).Nodup) (n : Nat) : findRow rows' n = findRow rows n := by
  have hnd' : (rows'.map (·.name)).Nodup := (hp.map _).nodup_iff.mp hnd
  cases h : findRow rows n with
  | some r =>
    obtain ⟨hr, hn⟩ := findRow_some h
    subst hn
    exact findRow_eq_of_nodup hnd' (hp.mem_iff.mp hr)
  | none =>
    cases h' : findRow rows' n with
    | none => rfl
    | some r =>
      obtain ⟨hr, hn⟩ := findRow_some h'
      subst hn
      rw [findRow_eq_of_nodup hnd (hp.mem_iff.mpr hr)] at h
      cases h

/-! ### `selected` -/

theorem mem_selected' {α : Type} (loc : Loc α) (rows : List (Row α)) (n : Nat) :
    n ∈ selected loc rows ↔ n ∈ loc.names ∧ ∃ r ∈ rows, r.name = n := by
  unfold selected
  rw [mem_sortDedup', List.mem_filter, List.mem_map, List.contains_iff_mem]
  exact And.comm

theorem selected_perm {α : Type} (loc : Loc α) {rows rows' : List (Row α)} (hp : rows.Perm rows') :
    selected loc rows' = selected loc rows := by
  unfold selected
  apply sortDedup_congr
  intro x
  simp only [List.mem_filter, List.mem_map]
  constructor
  · rintro ⟨⟨r, hr, hn⟩, hc⟩; exact ⟨⟨r, hp.mem_iff.mpr hr, hn⟩, hc⟩
  · rintro ⟨⟨r, hr, hn⟩, hc⟩; exact ⟨⟨r, hp.mem_iff.mp hr, hn⟩, hc⟩

end Matrices
end MTfitVerif
