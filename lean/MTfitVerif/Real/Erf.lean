import Mathlib.Analysis.SpecialFunctions.Gaussian.GaussianIntegral
/-
  The error function over ℝ (Mathlib has none): `erf x = 2/√π ∫₀ˣ e^{-t²} dt`,
  with the facts the likelihood theorems need.
-/
namespace MTfitVerif
open Real MeasureTheory

noncomputable def erf (x : ℝ) : ℝ := (2 / √π) * ∫ t in (0:ℝ)..x, exp (-t^2)

private theorem gauss_cont : Continuous fun t : ℝ => exp (-t^2) := by fun_prop

private theorem hint (u v : ℝ) : IntervalIntegrable (fun t : ℝ => exp (-t^2)) volume u v :=
  gauss_cont.intervalIntegrable u v

theorem two_div_sqrt_pi_pos : 0 < 2 / √π := by positivity

@[simp] theorem erf_zero : erf 0 = 0 := by simp [erf]

theorem erf_neg (x : ℝ) : erf (-x) = -erf x := by
  unfold erf
  have h := intervalIntegral.integral_comp_neg (a := 0) (b := x) (fun t : ℝ => exp (-t^2))
  simp only [neg_sq, neg_zero] at h
  rw [intervalIntegral.integral_symm, ← h]
  ring

theorem erf_strictMono : StrictMono erf := by
  intro a b hab
  unfold erf
  have hsub : (∫ t in (0:ℝ)..b, exp (-t^2)) - ∫ t in (0:ℝ)..a, exp (-t^2)
      = ∫ t in a..b, exp (-t^2) :=
    intervalIntegral.integral_interval_sub_left (hint 0 b) (hint 0 a)
  have hpos : 0 < ∫ t in a..b, exp (-t^2) :=
    intervalIntegral.intervalIntegral_pos_of_pos (hint a b) (fun t => exp_pos _) hab
  have : (∫ t in (0:ℝ)..a, exp (-t^2)) < ∫ t in (0:ℝ)..b, exp (-t^2) := by linarith
  exact mul_lt_mul_of_pos_left this two_div_sqrt_pi_pos

theorem erf_mono : Monotone erf := erf_strictMono.monotone

theorem erf_nonneg {x : ℝ} (hx : 0 ≤ x) : 0 ≤ erf x := by
  have := erf_mono hx; simpa using this

theorem erf_pos {x : ℝ} (hx : 0 < x) : 0 < erf x := by
  have := erf_strictMono hx; simpa using this

private theorem gauss_integrable : Integrable fun t : ℝ => exp (-t^2) := by
  have := integrable_exp_neg_mul_sq (b := 1) one_pos
  simpa using this

private theorem gauss_Ioi : ∫ t in Set.Ioi (0:ℝ), exp (-t^2) = √π / 2 := by
  have := integral_gaussian_Ioi 1
  simpa using this

/-- `∫₀ˣ e^{-t²} < √π/2` for every `x ≥ 0` (the tail has positive mass). -/
private theorem gauss_partial_lt {x : ℝ} (hx : 0 ≤ x) :
    ∫ t in (0:ℝ)..x, exp (-t^2) < √π / 2 := by
  -- ∫₀ˣ < ∫₀^{x+1} ≤ ∫₀^∞
  have h1 : ∫ t in (0:ℝ)..x, exp (-t^2) < ∫ t in (0:ℝ)..(x+1), exp (-t^2) := by
    have hsub := intervalIntegral.integral_interval_sub_left (hint 0 (x+1)) (hint 0 x)
    have hpos : 0 < ∫ t in x..(x+1), exp (-t^2) :=
      intervalIntegral.intervalIntegral_pos_of_pos (hint x (x+1)) (fun t => exp_pos _) (by linarith)
    linarith
  have h2 : ∫ t in (0:ℝ)..(x+1), exp (-t^2) ≤ √π / 2 := by
    rw [intervalIntegral.integral_of_le (by linarith), ← gauss_Ioi]
    apply setIntegral_mono_set gauss_integrable.integrableOn
    · exact Filter.Eventually.of_forall (fun t => (exp_pos _).le)
    · exact Filter.Eventually.of_forall (fun t ht => Set.Ioc_subset_Ioi_self ht)
  linarith

theorem erf_lt_one (x : ℝ) : erf x < 1 := by
  rcases le_or_gt 0 x with hx | hx
  · unfold erf
    have h := gauss_partial_lt hx
    have hpi : 0 < √π := by positivity
    calc 2 / √π * ∫ t in (0:ℝ)..x, exp (-t^2) < 2 / √π * (√π / 2) :=
          mul_lt_mul_of_pos_left h two_div_sqrt_pi_pos
      _ = 1 := by field_simp
  · have : erf x < erf 0 := erf_strictMono hx
    simp at this; linarith

theorem neg_one_lt_erf (x : ℝ) : -1 < erf x := by
  have := erf_lt_one (-x); rw [erf_neg] at this; linarith

theorem abs_erf_lt_one (x : ℝ) : |erf x| < 1 :=
  abs_lt.mpr ⟨neg_one_lt_erf x, erf_lt_one x⟩

open Filter Topology in
/-- `erf x → 1` as `x → +∞` (Gaussian integral). -/
theorem erf_tendsto_atTop : Tendsto erf atTop (𝓝 1) := by
  have h := intervalIntegral_tendsto_integral_Ioi (μ := volume) (f := fun t : ℝ => exp (-t^2)) 0
    gauss_integrable.integrableOn tendsto_id
  rw [gauss_Ioi] at h
  have h2 := h.const_mul (2 / √π)
  have hpi : 0 < √π := by positivity
  have e : 2 / √π * (√π / 2) = 1 := by field_simp
  rw [e] at h2
  exact h2

open Filter Topology in
/-- `erf x → -1` as `x → -∞`. -/
theorem erf_tendsto_atBot : Tendsto erf atBot (𝓝 (-1)) := by
  have h := (erf_tendsto_atTop.comp tendsto_neg_atBot_atTop).neg
  refine h.congr (fun x => ?_)
  simp [erf_neg]

end MTfitVerif
