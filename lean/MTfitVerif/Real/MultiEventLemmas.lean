import MTfitVerif.Model.MultiEvent
import MTfitVerif.Real.Inst
import MTfitVerif.Real.LogPSem
import Mathlib.Data.List.Perm.Basic
import Mathlib.Data.List.Nodup
import Mathlib.Algebra.BigOperators.Group.List.Basic
/-
  Helper lemmas for C15 (joint multi-event posterior): algebra of `LogP.add`/`LogP.sum` over ℝ,
  the closed form of the event loop `jointAux`, and the station intersection `extract`/`pairs`.
-/
namespace MTfitVerif
namespace LogP

/-! ### `LogP.add` is a commutative monoid operation with `negInf` absorbing -/

theorem add_comm' (x y : LogP ℝ) : add x y = add y x := by
  cases x <;> cases y <;> simp [add, add_comm]

theorem add_assoc' (x y z : LogP ℝ) : add (add x y) z = add x (add y z) := by
  cases x <;> cases y <;> cases z <;> simp [add, add_assoc]

instance : Std.Associative (α := LogP ℝ) add := ⟨add_assoc'⟩
instance : Std.Commutative (α := LogP ℝ) add := ⟨add_comm'⟩

@[simp] theorem add_fin_zero (x : LogP ℝ) : add x (fin 0) = x := by
  cases x <;> simp [add]

@[simp] theorem fin_zero_add (x : LogP ℝ) : add (fin 0) x = x := by
  cases x <;> simp [add]

@[simp] theorem add_negInf (x : LogP ℝ) : add x negInf = negInf := by
  cases x <;> simp [add]

@[simp] theorem negInf_add (x : LogP ℝ) : add negInf x = negInf := by
  cases x <;> simp [add]

theorem add_eq_negInf_iff (x y : LogP ℝ) : add x y = negInf ↔ x = negInf ∨ y = negInf := by
  cases x <;> cases y <;> simp [add]

@[simp] theorem sum_nil' : sum ([] : List (LogP ℝ)) = fin 0 := by
  simp [sum]

@[simp] theorem sum_cons' (x : LogP ℝ) (xs : List (LogP ℝ)) : sum (x :: xs) = add x (sum xs) := rfl

theorem sum_append (l₁ l₂ : List (LogP ℝ)) : sum (l₁ ++ l₂) = add (sum l₁) (sum l₂) := by
  induction l₁ with
  | nil => simp
  | cons x xs ih => simp [ih, add_assoc']

theorem foldl_add_eq {β : Type} (f : β → LogP ℝ) (l : List β) (acc : LogP ℝ) :
    l.foldl (fun a e => add a (f e)) acc = add acc (sum (l.map f)) := by
  induction l generalizing acc with
  | nil => simp
  | cons x xs ih => simp [ih, add_assoc']

/-- a list of `fin 0` sums to `fin 0` -/
theorem sum_eq_fin_zero {l : List (LogP ℝ)} (h : ∀ x ∈ l, x = fin 0) : sum l = fin 0 := by
  induction l with
  | nil => simp
  | cons x xs ih =>
    rw [sum_cons', h x (by simp), ih (fun y hy => h y (by simp [hy]))]
    simp

end LogP

namespace MultiEvent
open LogP

/-! ### the event loop -/

/-- the pair terms in the order the loop adds them (same as `C15.pairTermsAux`) -/
noncomputable def pairTermsAuxL (minInt : Nat) : List (Event ℝ) → List (Event ℝ) → List (LogP ℝ)
  | _, [] => []
  | done, e :: rest =>
    done.map (pairTerm minInt e) ++ pairTermsAuxL minInt (done ++ [e]) rest

theorem jointAux_eq (relative : Bool) (minInt : Nat) (rest done : List (Event ℝ)) (acc : LogP ℝ) :
    jointAux relative minInt done rest acc =
      add acc (add (LogP.sum (rest.map (·.ln)))
        (if relative then LogP.sum (pairTermsAuxL minInt done rest) else fin 0)) := by
  induction rest generalizing done acc with
  | nil => cases relative <;> simp [jointAux, pairTermsAuxL]
  | cons e rest ih =>
    rw [jointAux]
    simp only [ih]
    cases relative
    · simp only [Bool.false_eq_true, if_false, List.map_cons, sum_cons', add_fin_zero]
      ac_rfl
    · simp only [if_true, List.map_cons, sum_cons', pairTermsAuxL, sum_append, foldl_add_eq]
      ac_rfl

theorem joint_eq (relative : Bool) (minInt : Nat) (evs : List (Event ℝ)) :
    joint relative minInt evs =
      add (LogP.sum (evs.map (·.ln)))
        (if relative then LogP.sum (pairTermsAuxL minInt [] evs) else fin 0) := by
  rw [joint, jointAux_eq]
  simp

theorem pairTermsAuxL_all_zero (minInt : Nat) (rest done : List (Event ℝ))
    (h : ∀ ei ∈ rest, ∀ ej ∈ done ++ rest, pairTerm minInt ei ej = fin 0) :
    ∀ x ∈ pairTermsAuxL minInt done rest, x = fin 0 := by
  induction rest generalizing done with
  | nil => simp [pairTermsAuxL]
  | cons e rest ih =>
    intro x hx
    rw [pairTermsAuxL, List.mem_append] at hx
    rcases hx with hx | hx
    · obtain ⟨ej, hej, rfl⟩ := List.mem_map.mp hx
      exact h e (by simp) ej (by simp [hej])
    · refine ih (done ++ [e]) ?_ x hx
      intro ei hei ej hej
      exact h ei (by simp [hei]) ej (by simpa using hej)

/-! ### `pairTerm` -/

theorem relTerm_nil (m₁ m₂ : List ℝ) : relTerm ([] : List (RelObs ℝ × RelObs ℝ)) m₁ m₂ = none := by
  simp [relTerm, combineMu]

theorem pairTerm_of_lt (minInt : Nat) (ei ej : Event ℝ)
    (h : (pairs ei.rel ej.rel).length < minInt) : pairTerm minInt ei ej = fin 0 := by
  simp [pairTerm, h]

theorem pairTerm_of_pairs_nil (minInt : Nat) (ei ej : Event ℝ)
    (h : pairs ei.rel ej.rel = []) : pairTerm minInt ei ej = fin 0 := by
  simp only [pairTerm, h, relTerm_nil]
  split <;> simp

/-! ### `extract` -/

section Extract
variable {α : Type}

theorem extract_eq_none_iff (n : Nat) (l : List (RelObs α)) :
    extract n l = none ↔ ∀ t ∈ l, t.name ≠ n := by
  induction l with
  | nil => simp [extract]
  | cons a ts ih =>
    by_cases h : a.name = n
    · simp [extract, h]
    · rw [extract, if_neg h]
      cases he : extract n ts with
      | none =>
        rw [he] at ih
        simpa [h] using ih
      | some p =>
        rw [he] at ih
        simpa [h] using ih

theorem extract_some {n : Nat} {l : List (RelObs α)} {t : RelObs α} {rest : List (RelObs α)}
    (h : extract n l = some (t, rest)) : t.name = n ∧ l.Perm (t :: rest) := by
  induction l generalizing t rest with
  | nil => simp [extract] at h
  | cons a ts ih =>
    by_cases ha : a.name = n
    · rw [extract, if_pos ha] at h
      simp only [Option.some.injEq, Prod.mk.injEq] at h
      obtain ⟨rfl, rfl⟩ := h
      exact ⟨ha, List.Perm.refl _⟩
    · rw [extract, if_neg ha] at h
      cases he : extract n ts with
      | none => rw [he] at h; simp at h
      | some p =>
        obtain ⟨u, r⟩ := p
        rw [he] at h
        simp only [Option.some.injEq, Prod.mk.injEq] at h
        obtain ⟨rfl, rfl⟩ := h
        obtain ⟨h1, h2⟩ := ih he
        exact ⟨h1, (h2.cons a).trans (List.Perm.swap _ _ _)⟩

theorem extract_some_mem {n : Nat} {l : List (RelObs α)} {t : RelObs α} {rest : List (RelObs α)}
    (h : extract n l = some (t, rest)) : t ∈ l :=
  (extract_some h).2.mem_iff.mpr (by simp)

theorem extract_some_rest_subset {n : Nat} {l : List (RelObs α)} {t : RelObs α}
    {rest : List (RelObs α)} (h : extract n l = some (t, rest)) : ∀ u ∈ rest, u ∈ l :=
  fun u hu => (extract_some h).2.mem_iff.mpr (by simp [hu])

/-- with one observation per station, the remainder has one observation per station and none at
    the extracted station -/
theorem extract_some_nodup {n : Nat} {l : List (RelObs α)} {t : RelObs α} {rest : List (RelObs α)}
    (h : extract n l = some (t, rest)) (hl : (l.map (·.name)).Nodup) :
    (rest.map (·.name)).Nodup ∧ ∀ u ∈ rest, u.name ≠ n := by
  obtain ⟨h1, h2⟩ := extract_some h
  have hp : (l.map (·.name)).Perm (t.name :: rest.map (·.name)) := by
    simpa using h2.map (·.name)
  have hn := (hp.nodup_iff).mp hl
  rw [List.nodup_cons] at hn
  refine ⟨hn.2, fun u hu hun => hn.1 ?_⟩
  rw [h1, ← hun]
  exact List.mem_map_of_mem hu

/-- with one observation per station, membership and name determine the observation -/
theorem eq_of_name_eq {l : List (RelObs α)} (hl : (l.map (·.name)).Nodup) {s t : RelObs α}
    (hs : s ∈ l) (ht : t ∈ l) (h : s.name = t.name) : s = t :=
  List.inj_on_of_nodup_map hl hs ht h

theorem extract_perm {n : Nat} {l l' : List (RelObs α)} {t : RelObs α} {rest : List (RelObs α)}
    (hp : l.Perm l') (hl : (l.map (·.name)).Nodup) (h : extract n l = some (t, rest)) :
    ∃ rest', extract n l' = some (t, rest') ∧ rest.Perm rest' := by
  obtain ⟨h1, h2⟩ := extract_some h
  cases he : extract n l' with
  | none =>
    exact absurd h1 ((extract_eq_none_iff n l').mp he t (hp.mem_iff.mp (extract_some_mem h)))
  | some p =>
    obtain ⟨t', rest'⟩ := p
    obtain ⟨h1', h2'⟩ := extract_some he
    have ht' : t' ∈ l := hp.mem_iff.mpr (extract_some_mem he)
    have : t = t' := eq_of_name_eq hl (extract_some_mem h) ht' (h1.trans h1'.symm)
    subst this
    exact ⟨rest', rfl, ((h2.symm.trans hp).trans h2').cons_inv⟩

theorem extract_perm_none {n : Nat} {l l' : List (RelObs α)} (hp : l.Perm l')
    (h : extract n l = none) : extract n l' = none := by
  rw [extract_eq_none_iff] at h ⊢
  exact fun t ht => h t (hp.mem_iff.mpr ht)

/-- the first component of `extract` is `find?` -/
theorem extract_fst (n : Nat) (l : List (RelObs α)) :
    (extract n l).map Prod.fst = l.find? (fun t => t.name = n) := by
  induction l with
  | nil => simp [extract]
  | cons a ts ih =>
    by_cases ha : a.name = n
    · simp [extract, ha]
    · rw [extract, if_neg ha, List.find?_cons_of_neg (by simpa using ha), ← ih]
      cases extract n ts with
      | none => rfl
      | some p => rfl

/-- removing an observation of station `n` does not change the search for another station -/
theorem extract_rest_find {n m : Nat} {l : List (RelObs α)} {t : RelObs α} {rest : List (RelObs α)}
    (h : extract n l = some (t, rest)) (hm : m ≠ n) :
    rest.find? (fun u => u.name = m) = l.find? (fun u => u.name = m) := by
  induction l generalizing t rest with
  | nil => simp [extract] at h
  | cons a ts ih =>
    by_cases ha : a.name = n
    · rw [extract, if_pos ha] at h
      simp only [Option.some.injEq, Prod.mk.injEq] at h
      obtain ⟨rfl, rfl⟩ := h
      have : ¬ a.name = m := fun h' => hm (h'.symm.trans ha)
      rw [List.find?_cons_of_neg (by simpa using this)]
    · rw [extract, if_neg ha] at h
      cases he : extract n ts with
      | none => rw [he] at h; simp at h
      | some p =>
        obtain ⟨u, r⟩ := p
        rw [he] at h
        simp only [Option.some.injEq, Prod.mk.injEq] at h
        obtain ⟨rfl, rfl⟩ := h
        simp only [List.find?_cons, ih he]

end Extract

/-! ### `pairs` -/

section Pairs
variable {α : Type}

@[simp] theorem pairs_nil (sj : List (RelObs α)) : pairs [] sj = [] := by
  simp [pairs]

theorem pairs_cons_some {s : RelObs α} {si sj : List (RelObs α)} {t : RelObs α}
    {rest : List (RelObs α)} (h : extract s.name sj = some (t, rest)) :
    pairs (s :: si) sj = (s, t) :: pairs si rest := by
  rw [pairs, h]

theorem pairs_cons_none {s : RelObs α} {si sj : List (RelObs α)} (h : extract s.name sj = none) :
    pairs (s :: si) sj = pairs si sj := by
  rw [pairs, h]

theorem pairs_eq_nil_of_no_shared (si sj : List (RelObs α))
    (h : ∀ s ∈ si, ∀ t ∈ sj, s.name ≠ t.name) : pairs si sj = [] := by
  induction si with
  | nil => simp
  | cons s si ih =>
    have he : extract s.name sj = none :=
      (extract_eq_none_iff _ _).mpr fun t ht hn => h s (by simp) t ht hn.symm
    rw [pairs_cons_none he]
    exact ih fun s' hs' => h s' (by simp [hs'])

theorem pairs_spec (si sj : List (RelObs α)) :
    ∀ p ∈ pairs si sj, p.1.name = p.2.name ∧ p.1 ∈ si ∧ p.2 ∈ sj := by
  induction si generalizing sj with
  | nil => simp
  | cons s si ih =>
    intro p hp
    cases he : extract s.name sj with
    | none =>
      rw [pairs_cons_none he] at hp
      obtain ⟨h1, h2, h3⟩ := ih sj p hp
      exact ⟨h1, by simp [h2], h3⟩
    | some q =>
      obtain ⟨t, rest⟩ := q
      rw [pairs_cons_some he, List.mem_cons] at hp
      rcases hp with rfl | hp
      · exact ⟨(extract_some he).1.symm, by simp, extract_some_mem he⟩
      · obtain ⟨h1, h2, h3⟩ := ih rest p hp
        exact ⟨h1, by simp [h2], extract_some_rest_subset he _ h3⟩

theorem pairs_mem_iff' (si sj : List (RelObs α)) (hi : (si.map (·.name)).Nodup)
    (hj : (sj.map (·.name)).Nodup) (s t : RelObs α) :
    (s, t) ∈ pairs si sj ↔ s ∈ si ∧ t ∈ sj ∧ s.name = t.name := by
  constructor
  · intro h
    obtain ⟨h1, h2, h3⟩ := pairs_spec si sj _ h
    exact ⟨h2, h3, h1⟩
  · induction si generalizing sj with
    | nil => simp
    | cons s0 si ih =>
      rintro ⟨hs, ht, hn⟩
      rw [List.map_cons, List.nodup_cons] at hi
      cases he : extract s0.name sj with
      | none =>
        rw [pairs_cons_none he]
        rcases List.mem_cons.mp hs with rfl | hs
        · exact absurd hn.symm ((extract_eq_none_iff _ _).mp he t ht)
        · exact ih sj hi.2 hj ⟨hs, ht, hn⟩
      | some q =>
        obtain ⟨t0, rest⟩ := q
        rw [pairs_cons_some he, List.mem_cons]
        obtain ⟨h1, h2⟩ := extract_some he
        obtain ⟨hr, hrn⟩ := extract_some_nodup he hj
        rcases List.mem_cons.mp hs with rfl | hs
        · left
          rw [eq_of_name_eq hj ht (extract_some_mem he) (hn.symm.trans h1.symm)]
        · right
          refine ih rest hi.2 hr ⟨hs, ?_, hn⟩
          rcases List.mem_cons.mp (h2.mem_iff.mp ht) with rfl | ht'
          · exact absurd (List.mem_map_of_mem (f := (·.name)) hs) (by rw [hn, h1]; exact hi.1)
          · exact ht'

theorem pairs_perm_right' (si : List (RelObs α)) {sj sj' : List (RelObs α)} (h : sj.Perm sj')
    (hj : (sj.map (·.name)).Nodup) : pairs si sj = pairs si sj' := by
  induction si generalizing sj sj' with
  | nil => simp
  | cons s si ih =>
    cases he : extract s.name sj with
    | none =>
      rw [pairs_cons_none he, pairs_cons_none (extract_perm_none h he)]
      exact ih h hj
    | some q =>
      obtain ⟨t, rest⟩ := q
      obtain ⟨rest', he', hp⟩ := extract_perm h hj he
      rw [pairs_cons_some he, pairs_cons_some he', ih hp (extract_some_nodup he hj).1]

/-- the partner of `s` among `sj` -/
def partner (sj : List (RelObs α)) (s : RelObs α) : Option (RelObs α × RelObs α) :=
  (sj.find? (fun t => t.name = s.name)).map (fun t => (s, t))

/-- when no station is listed twice in the first event, every observation is paired with the
    first observation of the same station in the second event -/
theorem pairs_eq_filterMap (si sj : List (RelObs α)) (hi : (si.map (·.name)).Nodup) :
    pairs si sj = si.filterMap (partner sj) := by
  induction si generalizing sj with
  | nil => simp
  | cons s si ih =>
    rw [List.map_cons, List.nodup_cons] at hi
    have hf := extract_fst s.name sj
    cases he : extract s.name sj with
    | none =>
      rw [he] at hf
      rw [pairs_cons_none he, ih sj hi.2, List.filterMap_cons]
      simp [partner, ← hf]
    | some q =>
      obtain ⟨t, rest⟩ := q
      rw [he] at hf
      rw [pairs_cons_some he, ih rest hi.2, List.filterMap_cons]
      have : partner sj s = some (s, t) := by simp [partner, ← hf]
      rw [this]
      congr 1
      apply List.filterMap_congr
      intro s' hs'
      have hne : s'.name ≠ s.name := fun h' => hi.1 (h' ▸ List.mem_map_of_mem (f := (·.name)) hs')
      simp only [partner, extract_rest_find he hne]

theorem pairs_perm_left_of_nodup {si si' : List (RelObs α)} (sj : List (RelObs α)) (h : si.Perm si')
    (hi : (si.map (·.name)).Nodup) : (pairs si sj).Perm (pairs si' sj) := by
  have hi' : (si'.map (·.name)).Nodup := ((h.map (·.name)).nodup_iff).mp hi
  rw [pairs_eq_filterMap si sj hi, pairs_eq_filterMap si' sj hi']
  exact h.filterMap _

theorem pairs_length_of_nodup (si sj : List (RelObs α)) (hi : (si.map (·.name)).Nodup) :
    (pairs si sj).length = (si.filter fun s => sj.any fun t => t.name = s.name).length := by
  rw [pairs_eq_filterMap si sj hi]
  clear hi
  induction si with
  | nil => simp
  | cons s si ih =>
    rw [List.filterMap_cons, List.filter_cons]
    cases hf : sj.find? (fun t => decide (t.name = s.name)) with
    | none =>
      have : (sj.any fun t => decide (t.name = s.name)) = false := by
        rw [List.find?_eq_none] at hf
        rw [List.any_eq_false]
        exact hf
      simp [partner, hf, this, ih]
    | some t =>
      have : (sj.any fun t => decide (t.name = s.name)) = true := by
        rw [List.any_eq_true]
        exact ⟨t, List.mem_of_find?_eq_some hf, by simpa using List.find?_some hf⟩
      simp [partner, hf, this, ih]

end Pairs

end MultiEvent
end MTfitVerif
