import MTfitVerif.Model.PyxKernels
import MTfitVerif.Real.PyxLoopLemmas
import MTfitVerif.Real.ScatangleLemmas
import Mathlib.Logic.Function.Basic
import Mathlib.Algebra.Order.Group.Abs
import Mathlib.Tactic.Ring
import Mathlib.Tactic.Linarith
import Mathlib.Tactic.NormNum
/-
  Helper lemmas for C20B (`Props/C20Binning.lean`): the compiled scatter-binning kernel `cscatangle.get_multipliers`
  (three nested `for` loops, the innermost with `break`) against the binning model `Scatangle.binAux` of C18.

  * loops: `forIn` over ranges as simulations of list folds; the station loop with `break` as `List.all`;
  * `mergeStep`/`sweepStep`/`binKernel`: the kernel as two nested folds over arrays (every scalar type);
  * over ℝ: the folds on the cell values as functions `ℕ → ℝ` (`mergeF`, `sweepF`), the closed form of one sweep, and the
    invariant relating the swept cells to `binAux` on the records still alive;
  * `anglesOf`: the flat `(n × 2 × nsta)` angle array of a record list and its indexing.
-/
set_option linter.unusedVariables false
namespace MTfitVerif
namespace PyxBinning
open Scatangle

/-! ### loops -/

/-- `for i in [a:n]` runs over `List.range' a (n - a)` -/
theorem forIn_range_eq_list' {m : Type → Type} [Monad m] {β : Type} (a n : Nat) (init : β)
    (f : Nat → β → m (ForInStep β)) :
    forIn [a:n] init f = forIn (List.range' a (n - a)) init f := by
  rw [Std.Legacy.Range.forIn_eq_forIn_range']
  simp [Std.Legacy.Range.size]

/-- a loop in `Id` whose passes never `break` and act on the projection `p` of the state as `g` does (keeping `Inv`) is the
    fold of `g` on that projection -/
theorem forIn_sim {σ ρ : Type} (l : List Nat) (f : Nat → σ → Id (ForInStep σ)) (p : σ → ρ) (g : ρ → Nat → ρ)
    (Inv : σ → Prop)
    (h : ∀ s k, k ∈ l → Inv s → ∃ s', f k s = pure (ForInStep.yield s') ∧ p s' = g (p s) k ∧ Inv s')
    (s0 : σ) (h0 : Inv s0) :
    p (forIn l s0 f).run = l.foldl g (p s0) ∧ Inv (forIn l s0 f).run := by
  induction l generalizing s0 with
  | nil => exact ⟨rfl, h0⟩
  | cons k l ih =>
    obtain ⟨s', h1, h2, h3⟩ := h s0 k List.mem_cons_self h0
    rw [List.forIn_cons, h1]
    simp only [pure_bind, List.foldl_cons]
    rw [← h2]
    exact ih (fun s k hk => h s k (List.mem_cons_of_mem _ hk)) s' h3

/-- the station loop: started with `ok = 1`, it stops at the first station that fails `mt` (leaving `ok = 0`); if none
    fails, `ok = 1` and `w` is the last index visited (or untouched if there was none) -/
theorem forIn_break_all (mt : Nat → Bool) (body : Nat → Nat × Nat → Id (ForInStep (Nat × Nat)))
    (hbody : ∀ k w, body k (w, 1) = if mt k = true then pure (ForInStep.yield (k, 1)) else pure (ForInStep.done (k, 0)))
    (l : List Nat) (w0 : Nat) :
    (forIn l (w0, 1) body).run.2 = (if l.all mt = true then 1 else 0) ∧
      (l.all mt = true → (forIn l (w0, 1) body).run.1 = l.getLast?.getD w0) := by
  induction l generalizing w0 with
  | nil => exact ⟨rfl, fun _ => rfl⟩
  | cons k l ih =>
    rw [List.forIn_cons, hbody]
    by_cases hk : mt k = true
    · simp only [hk, if_true, pure_bind, List.all_cons, Bool.true_and, List.getLast?_cons, Option.getD_some]
      exact ih k
    · simp only [hk, Bool.false_eq_true, if_false, pure_bind, List.all_cons, Bool.false_and, Id.run_pure]
      exact ⟨trivial, fun h => h.elim⟩

theorem id_bind_eq {β γ : Type} (X : Id β) (f : β → Id γ) : X >>= f = f X.run := rfl

/-- the test after the station loop: `w == nsta - 1 && ok > 0` holds iff every station matched.  For `nsta = 0` the loop
    does not run, `w` keeps its value and (truncated subtraction) `nsta - 1 = 0`: the test reads `w == 0`, which holds
    as long as `w` still has its initial value `0`. -/
theorem break_test (mt : Nat → Bool) (body : Nat → Nat × Nat → Id (ForInStep (Nat × Nat)))
    (nsta : Nat) (w0 : Nat) (X : Id (Nat × Nat)) (hX : forIn [0:nsta] (w0, 1) body = X)
    (hbody : ∀ k w, body k (w, 1) = if mt k = true then pure (ForInStep.yield (k, 1)) else pure (ForInStep.done (k, 0)))
    (h1 : 1 ≤ nsta ∨ w0 = 0) :
    (X.run.1 == nsta - 1 && decide (X.run.2 > 0)) = (List.range nsta).all mt ∧ (1 ≤ nsta ∨ X.run.1 = 0) := by
  rw [← hX, PyxLoop.forIn_range_eq_list, ← List.range_eq_range']
  obtain ⟨h2, h3⟩ := forIn_break_all mt body hbody (List.range nsta) w0
  by_cases hn : 1 ≤ nsta
  · refine ⟨?_, Or.inl hn⟩
    by_cases ha : (List.range nsta).all mt = true
    · rw [h2, h3 ha, ha]
      obtain ⟨m, rfl⟩ : ∃ m, nsta = m + 1 := ⟨nsta - 1, by omega⟩
      simp [List.range_succ]
    · rw [h2]
      simp [ha]
  · have hn0 : nsta = 0 := by omega
    have hw0 : w0 = 0 := h1.resolve_left hn
    subst hn0 hw0
    exact ⟨rfl, Or.inr rfl⟩

/-! ### the kernel as nested folds over arrays (every scalar type) -/

section poly
variable {α : Type} [Add α] [Sub α] [Mul α] [Div α] [Neg α] [Flt α]

/-- the two comparisons of station `w` of samples `u`, `v` (`ok` stays 1 iff both hold) -/
def matchAt (A : Array α) (s1 nsta : Nat) (b : α) (u v w : Nat) : Bool :=
  Flt.ltb (Flt.abs (A.getD ((u * s1 + 0) * nsta + w) (c 0) - A.getD ((v * s1 + 0) * nsta + w) (c 0))) (b / c 2) &&
  Flt.ltb (Flt.abs (A.getD ((u * s1 + 1) * nsta + w) (c 0) - A.getD ((v * s1 + 1) * nsta + w) (c 0))) (b / c 2)

/-- all `nsta` stations of samples `u`, `v` within `b/2` -/
def closeIdx (A : Array α) (s1 nsta : Nat) (b : α) (u v : Nat) : Bool :=
  (List.range nsta).all (matchAt A s1 nsta b u v)

/-- one pass of the `v` loop: an alive close sample is added to `u` and marked `-1` -/
def mergeStep (cl : Nat → Nat → Bool) (u : Nat) (M : Array α) (v : Nat) : Array α :=
  if Flt.ltb (-(c 1)) (M.getD v (c 0)) = true ∧ cl u v = true then
    (M.setIfInBounds u (M.getD u (c 0) + M.getD v (c 0))).setIfInBounds v (-(c 1))
  else M

/-- one pass of the `u` loop: nothing for a marked sample, otherwise the `v` loop over the later samples -/
def sweepStep (cl : Nat → Nat → Bool) (n : Nat) (M : Array α) (u : Nat) : Array α :=
  if Flt.eqb (M.getD u (c 0)) (-(c 1)) = true then M
  else (List.range' (u + 1) (n - (u + 1))).foldl (mergeStep cl u) M

/-- the whole kernel -/
def binKernel (cl : Nat → Nat → Bool) (n : Nat) (M : Array α) : Array α :=
  (List.range n).foldl (sweepStep cl n) M

/-- one pass of the station loop entered with `ok = 1` -/
theorem wbody_eq (A : Array α) (s1 nsta : Nat) (b : α) (u v k w : Nat) :
    (have ok := 1 *
        (Flt.ltb (Flt.abs (A.getD ((u * s1 + 0) * nsta + k) (c 0) - A.getD ((v * s1 + 0) * nsta + k) (c 0))) (b / c 2)).toNat *
        (Flt.ltb (Flt.abs (A.getD ((u * s1 + 1) * nsta + k) (c 0) - A.getD ((v * s1 + 1) * nsta + k) (c 0))) (b / c 2)).toNat;
      if (ok == 0) = true then (pure (ForInStep.done (k, ok)) : Id (ForInStep (Nat × Nat))) else pure (ForInStep.yield (k, ok)))
    = if matchAt A s1 nsta b u v k = true then pure (ForInStep.yield (k, 1)) else pure (ForInStep.done (k, 0)) := by
  unfold matchAt
  cases Flt.ltb (Flt.abs (A.getD ((u * s1 + 0) * nsta + k) (c 0) - A.getD ((v * s1 + 0) * nsta + k) (c 0))) (b / c 2) <;>
  cases Flt.ltb (Flt.abs (A.getD ((u * s1 + 1) * nsta + k) (c 0) - A.getD ((v * s1 + 1) * nsta + k) (c 0))) (b / c 2) <;> rfl

end poly

/-! ### over ℝ: the cells as a function `ℕ → ℝ` -/
/-- `mergeStep` on the cell values -/
noncomputable def mergeF (cl : Nat → Nat → Bool) (u : Nat) (f : Nat → ℝ) (v : Nat) : Nat → ℝ :=
  if -1 < f v ∧ cl u v = true then Function.update (Function.update f u (f u + f v)) v (-1) else f

/-- `sweepStep` on the cell values -/
noncomputable def sweepF (cl : Nat → Nat → Bool) (n : Nat) (f : Nat → ℝ) (u : Nat) : Nat → ℝ :=
  if f u = -1 then f else (List.range' (u + 1) (n - (u + 1))).foldl (mergeF cl u) f

/-- C20B item 2, closed form of the `v` loop for a fixed `u` over distinct indices `l ∌ u`: cell `u` receives, in order, the
    values of the alive (`> -1`) close cells of `l`, those cells are marked `-1`, all others are unchanged -/
theorem foldl_mergeF (cl : Nat → Nat → Bool) (u : Nat) (l : List Nat) (hnd : l.Nodup) (hu : u ∉ l) (f : Nat → ℝ) :
    l.foldl (mergeF cl u) f = fun i =>
      if i = u then ((l.filter fun v => decide (-1 < f v) && cl u v).map f).foldl (· + ·) (f u)
      else if i ∈ l ∧ -1 < f i ∧ cl u i = true then -1 else f i := by
  induction l generalizing f with
  | nil =>
    funext i
    by_cases h : i = u
    · simp [h]
    · simp [h]
  | cons v l ih =>
    have hvl : v ∉ l := (List.nodup_cons.mp hnd).1
    have hul : u ∉ l := fun h => hu (List.mem_cons_of_mem _ h)
    have huv : u ≠ v := fun h => hu (h ▸ List.mem_cons_self)
    rw [List.foldl_cons, ih (List.nodup_cons.mp hnd).2 hul]
    have hagree : ∀ j ∈ l, mergeF cl u f v j = f j := by
      intro j hj
      have h1 : j ≠ v := fun h => hvl (h ▸ hj)
      have h2 : j ≠ u := fun h => hul (h ▸ hj)
      unfold mergeF
      split
      · rw [Function.update_of_ne h1, Function.update_of_ne h2]
      · rfl
    have hfilt : (l.filter fun w => decide (-1 < mergeF cl u f v w) && cl u w)
        = l.filter fun w => decide (-1 < f w) && cl u w :=
      List.filter_congr (fun j hj => by rw [hagree j hj])
    have hmap : ∀ l' : List Nat, (∀ j ∈ l', j ∈ l) → l'.map (mergeF cl u f v) = l'.map f :=
      fun l' h => List.map_congr_left (fun j hj => hagree j (h j hj))
    rw [hfilt, hmap _ (fun j hj => (List.mem_filter.mp hj).1)]
    funext i
    by_cases hc : -1 < f v ∧ cl u v = true
    · have hm : mergeF cl u f v = Function.update (Function.update f u (f u + f v)) v (-1) := if_pos hc
      have hc' : (decide (-1 < f v) && cl u v) = true := by simp [hc.1, hc.2]
      by_cases hiu : i = u
      · subst hiu
        simp only [if_true, List.filter_cons, hc', List.map_cons, List.foldl_cons]
        rw [hm, Function.update_of_ne huv, Function.update_self]
      · simp only [hiu, if_false, List.mem_cons]
        by_cases hiv : i = v
        · subst hiv
          simp only [hvl, false_and, if_false, true_or, hc.1, hc.2, and_self, if_true]
          rw [hm, Function.update_self]
        · rw [hm, Function.update_of_ne hiv, Function.update_of_ne hiu]
          simp only [hiv, false_or]
    · have hm : mergeF cl u f v = f := if_neg hc
      have hc' : (decide (-1 < f v) && cl u v) = false := by
        rcases not_and_or.mp hc with h | h
        · simp [h]
        · simp [h]
      rw [hm]
      by_cases hiu : i = u
      · subst hiu
        simp only [if_true, List.filter_cons, hc']
        rfl
      · simp only [hiu, if_false, List.mem_cons]
        by_cases hiv : i = v
        · subst hiv
          have : ¬ (-1 < f i ∧ cl u i = true) := hc
          simp only [hvl, if_false, this, and_false]
        · simp only [hiv, false_or]

theorem foldl_add_pos (l : List ℝ) (a : ℝ) (ha : 0 < a) (hl : ∀ x ∈ l, 0 < x) : 0 < l.foldl (· + ·) a := by
  induction l generalizing a with
  | nil => exact ha
  | cons x l ih =>
    rw [List.foldl_cons]
    exact ih _ (add_pos ha (hl x List.mem_cons_self)) (fun y hy => hl y (List.mem_cons_of_mem _ hy))

/-- the array after the sweep of an alive sample `k` -/
theorem sweepF_alive (cl : Nat → Nat → Bool) (n k : Nat) (f : Nat → ℝ) (hk : f k ≠ -1) :
    sweepF cl n f k = fun i =>
      if i = k then
        (((List.range' (k + 1) (n - (k + 1))).filter fun v => decide (-1 < f v) && cl k v).map f).foldl (· + ·) (f k)
      else if i ∈ List.range' (k + 1) (n - (k + 1)) ∧ -1 < f i ∧ cl k i = true then -1 else f i := by
  unfold sweepF
  rw [if_neg hk]
  apply foldl_mergeF
  · exact List.nodup_range'
  · intro h
    have := (List.mem_range'_1.mp h).1
    omega

/-- C20B item 3, the invariant of the outer loop: running the sweeps `k, …, k+m-1 = n-1` on cells that are `-1` (merged) or
    positive (alive) leaves the cells below `k` alone, and the alive cells `≥ k` afterwards, with their records, are `binAux`
    of the alive cells `≥ k` before (any fuel not below their number) -/
theorem foldl_sweepF_binAux (b : ℝ) (rec : Nat → Record ℝ) (cl : Nat → Nat → Bool) (n : Nat)
    (hcl : ∀ u v, u < n → v < n → cl u v = close b (rec u) (rec v)) :
    ∀ (m k : Nat) (f : Nat → ℝ), k + m = n → (∀ i, k ≤ i → i < n → f i = -1 ∨ 0 < f i) →
      ∀ fuel, ((List.range' k m).filter fun i => decide (0 < f i)).length ≤ fuel →
      (((List.range' k m).filter fun i => decide (0 < (List.range' k m).foldl (sweepF cl n) f i)).map
          (fun i => (rec i, (List.range' k m).foldl (sweepF cl n) f i))
        = binAux b fuel (((List.range' k m).filter fun i => decide (0 < f i)).map fun i => (rec i, f i)))
      ∧ ∀ i, i < k → (List.range' k m).foldl (sweepF cl n) f i = f i := by
  intro m
  induction m with
  | zero =>
    intro k f _ _ fuel _
    simp [binAux_nil]
  | succ m ih =>
    intro k f hkm hinv fuel hfuel
    rw [List.range'_succ, List.foldl_cons]
    have hkn : k < n := by omega
    by_cases hk : f k = -1
    · -- dead sample: nothing happens
      have hf1 : sweepF cl n f k = f := if_pos hk
      rw [hf1]
      have hn1 : ¬ (0 : ℝ) < -1 := by norm_num
      have hfuel' : ((List.range' (k + 1) m).filter fun i => decide (0 < f i)).length ≤ fuel := by
        rw [List.range'_succ] at hfuel
        simpa only [List.filter_cons, hk, hn1, decide_false, Bool.false_eq_true, if_false] using hfuel
      obtain ⟨h1, h2⟩ := ih (k + 1) f (by omega) (fun i hi hin => hinv i (by omega) hin) fuel hfuel'
      have hgk : (List.range' (k + 1) m).foldl (sweepF cl n) f k = -1 := by rw [h2 k (by omega), hk]
      refine ⟨?_, fun i hi => h2 i (by omega)⟩
      simp only [List.filter_cons, hgk, hk, hn1, decide_false, Bool.false_eq_true, if_false]
      exact h1
    · have hkpos : 0 < f k := (hinv k le_rfl hkn).resolve_left hk
      have hnk : n - (k + 1) = m := by omega
      have hf1 := sweepF_alive cl n k f hk
      rw [hnk] at hf1
      generalize sweepF cl n f k = f1 at hf1 ⊢
      rw [List.range'_succ] at hfuel
      generalize hR : List.range' (k + 1) m = R at hf1 hfuel ⊢
      have hRmem : ∀ i ∈ R, k + 1 ≤ i ∧ i < n := by
        intro i hi
        rw [← hR] at hi
        have := List.mem_range'_1.mp hi
        omega
      have hf1R : ∀ i ∈ R, f1 i = if -1 < f i ∧ close b (rec k) (rec i) = true then -1 else f i := by
        intro i hi
        have hik : i ≠ k := by have := (hRmem i hi).1; omega
        rw [hf1]
        simp only [hik, if_false, hi, true_and, hcl k i hkn (hRmem i hi).2]
      have hf1k : f1 k = ((R.filter fun v => decide (-1 < f v) && cl k v).map f).foldl (· + ·) (f k) := by
        rw [hf1]; simp only [if_true]
      have hf1lt : ∀ i, i < k → f1 i = f i := by
        intro i hi
        rw [hf1]
        have h1 : i ≠ k := by omega
        have h2 : i ∉ R := fun h => by have := (hRmem i h).1; omega
        simp only [h1, if_false, h2, false_and]
      have hinvR : ∀ i ∈ R, f i = -1 ∨ 0 < f i := fun i hi => hinv i (by have := (hRmem i hi).1; omega) (hRmem i hi).2
      have hinv1 : ∀ i, k + 1 ≤ i → i < n → f1 i = -1 ∨ 0 < f1 i := by
        intro i hi hin
        have hiR : i ∈ R := by rw [← hR]; exact List.mem_range'_1.mpr ⟨hi, by omega⟩
        rw [hf1R i hiR]
        split
        · exact Or.inl rfl
        · exact hinv i (by omega) hin
      have hf1kpos : 0 < f1 k := by
        rw [hf1k]
        apply foldl_add_pos _ _ hkpos
        intro x hx
        obtain ⟨j, hj, rfl⟩ := List.mem_map.mp hx
        obtain ⟨hjR, hjc⟩ := List.mem_filter.mp hj
        have hj1 : -1 < f j := by
          have := (Bool.and_eq_true _ _).mp hjc
          exact of_decide_eq_true this.1
        rcases hinvR j hjR with h | h
        · rw [h] at hj1; exact absurd hj1 (lt_irrefl _)
        · exact h
      have hn1 : ¬ (0 : ℝ) < -1 := by norm_num
      have hfilt1 : (R.filter fun i => decide (0 < f1 i))
          = R.filter fun i => (!close b (rec k) (rec i)) && decide (0 < f i) := by
        apply List.filter_congr
        intro i hi
        rw [hf1R i hi]
        rcases hinvR i hi with h | h
        · simp [h, hn1]
        · have h' : (-1 : ℝ) < f i := by linarith
          by_cases hc : close b (rec k) (rec i) = true
          · simp [hc, h, h', hn1]
          · simp [hc, h, h']
      have hfilt2 : (R.filter fun v => decide (-1 < f v) && cl k v)
          = R.filter fun i => close b (rec k) (rec i) && decide (0 < f i) := by
        apply List.filter_congr
        intro i hi
        rw [hcl k i hkn (hRmem i hi).2]
        rcases hinvR i hi with h | h
        · simp [h, hn1]
        · have h' : (-1 : ℝ) < f i := by linarith
          simp [h, h', Bool.and_comm]
      obtain ⟨fuel', rfl⟩ : ∃ fuel', fuel = fuel' + 1 := by
        simp only [List.filter_cons, hkpos, decide_true, if_true, List.length_cons] at hfuel
        exact ⟨fuel - 1, by omega⟩
      have hfuel' : (R.filter fun i => decide (0 < f1 i)).length ≤ fuel' := by
        simp only [List.filter_cons, hkpos, decide_true, if_true, List.length_cons] at hfuel
        rw [hfilt1]
        have h1 : (R.filter fun i => (!close b (rec k) (rec i)) && decide (0 < f i)).length
            ≤ (R.filter fun i => decide (0 < f i)).length := by
          rw [← List.filter_filter]
          exact List.length_filter_le _ _
        omega
      obtain ⟨h1, h2⟩ := ih (k + 1) f1 (by omega) hinv1 fuel' (by rw [hR]; exact hfuel')
      rw [hR] at h1 h2
      have hgk : R.foldl (sweepF cl n) f1 k = f1 k := h2 k (by omega)
      refine ⟨?_, fun i hi => (h2 i (by omega)).trans (hf1lt i hi)⟩
      simp only [List.filter_cons, hgk, hf1kpos, hkpos, decide_true, if_true, List.map_cons]
      rw [h1, binAux_succ_cons]
      congr 1
      · -- the weight
        rw [hf1k, hfilt2, List.filter_map, List.foldl_map, List.foldl_map, List.filter_filter]
        rfl
      · -- the remaining records
        rw [hfilt1, List.filter_map, List.filter_filter]
        congr 1
        show List.map (fun i => (rec i, f1 i)) (List.filter (fun i => !close b (rec k) (rec i) && decide (0 < f i)) R) =
          List.map (fun i => (rec i, f i)) (List.filter (fun i => !close b (rec k) (rec i) && decide (0 < f i)) R)
        apply List.map_congr_left
        intro i hi
        obtain ⟨hiR, hic⟩ := List.mem_filter.mp hi
        have hnc : ¬ close b (rec k) (rec i) = true := by
          have := ((Bool.and_eq_true _ _).mp hic).1
          simpa using this
        rw [hf1R i hiR]
        simp only [hnc, Bool.false_eq_true, and_false, if_false]

/-! ### the angle array of a record list -/

/-- indexing a concatenation of blocks of equal length `m` -/
theorem flatMap_getElem? {β γ : Type} (f : β → List γ) (m : Nat) (l : List β) (h : ∀ x ∈ l, (f x).length = m)
    (i j : Nat) (hj : j < m) : (l.flatMap f)[i * m + j]? = (l[i]?).bind (fun x => (f x)[j]?) := by
  induction l generalizing i with
  | nil => simp
  | cons x l ih =>
    have hx : (f x).length = m := h x List.mem_cons_self
    rw [List.flatMap_cons]
    cases i with
    | zero =>
      rw [Nat.zero_mul, Nat.zero_add, List.getElem?_append_left (by omega)]
      simp
    | succ i =>
      rw [List.getElem?_append_right (by rw [hx, Nat.succ_mul]; omega)]
      have : (i + 1) * m + j - (f x).length = i * m + j := by rw [hx, Nat.succ_mul]; omega
      rw [this, ih (fun y hy => h y (List.mem_cons_of_mem _ hy))]
      simp

/-- flat `(n × 2 × nsta)` array: row `[i,0,·]` the take-off angles, row `[i,1,·]` the azimuths of record `i` -/
def anglesOf (recs : List (Record ℝ × ℝ)) : Array ℝ :=
  (recs.flatMap fun p => p.1.map (fun s => s.2.2) ++ p.1.map (fun s => s.2.1)).toArray

/-- record `i` (the empty record out of range) -/
def recAt (recs : List (Record ℝ × ℝ)) (i : Nat) : Record ℝ := (recs.map (·.1)).getD i []

theorem length_flatMap_const {β γ : Type} (f : β → List γ) (m : Nat) (l : List β) (h : ∀ x ∈ l, (f x).length = m) :
    (l.flatMap f).length = l.length * m := by
  induction l with
  | nil => simp
  | cons x l ih =>
    rw [List.flatMap_cons, List.length_append, h x List.mem_cons_self,
      ih (fun y hy => h y (List.mem_cons_of_mem _ hy)), List.length_cons, Nat.succ_mul, Nat.add_comm]

/-- the angle array has `n × 2 × nsta` cells -/
theorem anglesOf_size (recs : List (Record ℝ × ℝ)) (nsta : Nat) (hlen : ∀ p ∈ recs, p.1.length = nsta) :
    (anglesOf recs).size = recs.length * 2 * nsta := by
  unfold anglesOf
  rw [List.size_toArray, length_flatMap_const _ (2 * nsta) recs (fun p hp => by simp [hlen p hp]; omega), Nat.mul_assoc]

theorem anglesOf_toa (recs : List (Record ℝ × ℝ)) (nsta : Nat) (hlen : ∀ p ∈ recs, p.1.length = nsta)
    (i j : Nat) (hi : i < recs.length) (hj : j < nsta) :
    (anglesOf recs).getD ((i * 2 + 0) * nsta + j) 0 = (((recAt recs i).map fun s => s.2.2)[j]?).getD 0 := by
  unfold anglesOf recAt
  have h := flatMap_getElem? (fun p : Record ℝ × ℝ => p.1.map (fun s => s.2.2) ++ p.1.map (fun s => s.2.1)) (2 * nsta)
    recs (fun p hp => by simp [hlen p hp]; omega) i j (by omega)
  have e : (i * 2 + 0) * nsta + j = i * (2 * nsta) + j := by ring
  rw [Array.getD_eq_getD_getElem?, List.getElem?_toArray, e, h]
  simp only [List.getD_eq_getElem?_getD, List.getElem?_map, List.getElem?_eq_getElem hi, Option.map_some,
    Option.getD_some, Option.bind_some]
  rw [List.getElem?_append_left (by simp [hlen _ (List.getElem_mem hi)]; exact hj)]
  simp

theorem anglesOf_az (recs : List (Record ℝ × ℝ)) (nsta : Nat) (hlen : ∀ p ∈ recs, p.1.length = nsta)
    (i j : Nat) (hi : i < recs.length) (hj : j < nsta) :
    (anglesOf recs).getD ((i * 2 + 1) * nsta + j) 0 = (((recAt recs i).map fun s => s.2.1)[j]?).getD 0 := by
  unfold anglesOf recAt
  have h := flatMap_getElem? (fun p : Record ℝ × ℝ => p.1.map (fun s => s.2.2) ++ p.1.map (fun s => s.2.1)) (2 * nsta)
    recs (fun p hp => by simp [hlen p hp]; omega) i (nsta + j) (by omega)
  have e : (i * 2 + 1) * nsta + j = i * (2 * nsta) + (nsta + j) := by ring
  rw [Array.getD_eq_getD_getElem?, List.getElem?_toArray, e, h]
  simp only [List.getD_eq_getElem?_getD, List.getElem?_map, List.getElem?_eq_getElem hi, Option.map_some,
    Option.getD_some, Option.bind_some]
  rw [List.getElem?_append_right (by simp [hlen _ (List.getElem_mem hi)])]
  simp [hlen _ (List.getElem_mem hi)]

/-- `Scatangle.close` on two records of `m` stations, station by station (over ℝ, `|a - b| = |b - a|`) -/
theorem close_eq_all (b : ℝ) (r r' : Record ℝ) (m : Nat) (hr : r.length = m) (hr' : r'.length = m) :
    close b r r' = (List.range m).all fun w =>
      decide (|((r.map fun s => s.2.2)[w]?).getD 0 - ((r'.map fun s => s.2.2)[w]?).getD 0| < b / 2) &&
      decide (|((r.map fun s => s.2.1)[w]?).getD 0 - ((r'.map fun s => s.2.1)[w]?).getD 0| < b / 2) := by
  induction r generalizing r' m with
  | nil =>
    subst hr
    simp [close]
  | cons s r ih =>
    cases r' with
    | nil => simp at hr'; subst hr'; simp at hr
    | cons s' r' =>
      obtain ⟨m, rfl⟩ : ∃ m', m = m' + 1 := ⟨m - 1, by simp at hr; omega⟩
      have h1 := ih r' m (by simpa using hr) (by simpa using hr')
      rw [List.range_succ_eq_map, List.all_cons, List.all_map]
      unfold close at h1 ⊢
      rw [List.zip_cons_cons, List.all_cons, h1]
      simp [abs_sub_comm, Function.comp_def]

/-! ### the kernel's closeness test on the angle array is `Scatangle.close` -/

theorem all_congr_mem {β : Type} (l : List β) (p q : β → Bool) (h : ∀ a ∈ l, p a = q a) : l.all p = l.all q := by
  induction l with
  | nil => rfl
  | cons a l ih =>
    rw [List.all_cons, List.all_cons, h a List.mem_cons_self, ih (fun x hx => h x (List.mem_cons_of_mem _ hx))]

theorem recAt_length (recs : List (Record ℝ × ℝ)) (nsta : Nat) (hlen : ∀ p ∈ recs, p.1.length = nsta)
    (i : Nat) (hi : i < recs.length) : (recAt recs i).length = nsta := by
  unfold recAt
  rw [List.getD_eq_getElem?_getD, List.getElem?_map, List.getElem?_eq_getElem hi]
  exact hlen _ (List.getElem_mem hi)

theorem closeIdx_anglesOf (recs : List (Record ℝ × ℝ)) (nsta : Nat) (hlen : ∀ p ∈ recs, p.1.length = nsta) (b : ℝ)
    (u v : Nat) (hu : u < recs.length) (hv : v < recs.length) :
    closeIdx (anglesOf recs) 2 nsta b u v = close b (recAt recs u) (recAt recs v) := by
  rw [close_eq_all b _ _ nsta (recAt_length recs nsta hlen u hu) (recAt_length recs nsta hlen v hv)]
  unfold closeIdx
  apply all_congr_mem
  intro w hw
  have hw' : w < nsta := List.mem_range.mp hw
  unfold matchAt
  simp only [flt_ltb, flt_abs, flt_c, Nat.cast_zero, Nat.cast_ofNat]
  rw [anglesOf_toa recs nsta hlen u w hu hw', anglesOf_toa recs nsta hlen v w hv hw',
    anglesOf_az recs nsta hlen u w hu hw', anglesOf_az recs nsta hlen v w hv hw']

/-! ### arrays and functions -/

/-- the cell values of an array as a function of the index -/
def toFun (M : Array ℝ) : Nat → ℝ := fun i => M.getD i 0

theorem toFun_mergeStep (cl : Nat → Nat → Bool) (u v : Nat) (M : Array ℝ) (hu : u < M.size) (hv : v < M.size) :
    toFun (mergeStep cl u M v) = mergeF cl u (toFun M) v ∧ (mergeStep cl u M v).size = M.size := by
  unfold mergeStep mergeF toFun
  simp only [flt_ltb, flt_c, Nat.cast_one, Nat.cast_zero, decide_eq_true_eq]
  by_cases hc : -1 < M.getD v 0 ∧ cl u v = true
  · rw [if_pos hc, if_pos hc]
    refine ⟨?_, by simp⟩
    funext i
    by_cases hiv : i = v
    · subst hiv
      rw [Function.update_self, PyxLoop.getD_setIfInBounds_self _ _ _ _ (by simpa using hv)]
    · rw [Function.update_of_ne hiv, PyxLoop.getD_setIfInBounds_ne _ _ _ _ _ (Ne.symm hiv)]
      by_cases hiu : i = u
      · subst hiu
        rw [Function.update_self, PyxLoop.getD_setIfInBounds_self _ _ _ _ hu]
      · rw [Function.update_of_ne hiu, PyxLoop.getD_setIfInBounds_ne _ _ _ _ _ (Ne.symm hiu)]
  · rw [if_neg hc, if_neg hc]
    exact ⟨rfl, rfl⟩

theorem toFun_foldl_mergeStep (cl : Nat → Nat → Bool) (u : Nat) (l : List Nat) (M : Array ℝ) (hu : u < M.size)
    (hl : ∀ v ∈ l, v < M.size) :
    toFun (l.foldl (mergeStep cl u) M) = l.foldl (mergeF cl u) (toFun M) ∧ (l.foldl (mergeStep cl u) M).size = M.size :=
  PyxLoop.foldl_sim l (mergeStep cl u) toFun (mergeF cl u) (fun P => P.size = M.size)
    (fun P v hv hP => by
      obtain ⟨h1, h2⟩ := toFun_mergeStep cl u v P (hP ▸ hu) (hP ▸ hl v hv)
      exact ⟨h1, h2.trans hP⟩) M rfl

theorem toFun_sweepStep (cl : Nat → Nat → Bool) (n u : Nat) (M : Array ℝ) (hM : M.size = n) (hu : u < n) :
    toFun (sweepStep cl n M u) = sweepF cl n (toFun M) u ∧ (sweepStep cl n M u).size = M.size := by
  unfold sweepStep sweepF
  have hd : (Flt.eqb (M.getD u (c 0)) (-(c 1)) = true) ↔ toFun M u = -1 := by
    simp [toFun]
  by_cases h : toFun M u = -1
  · rw [if_pos (hd.mpr h), if_pos h]
    exact ⟨rfl, rfl⟩
  · rw [if_neg (fun h' => h (hd.mp h')), if_neg h]
    apply toFun_foldl_mergeStep cl u _ M (hM ▸ hu)
    intro v hv
    have := (List.mem_range'_1.mp hv).2
    omega

theorem toFun_binKernel (cl : Nat → Nat → Bool) (n : Nat) (M : Array ℝ) (hM : M.size = n) :
    toFun (binKernel cl n M) = (List.range' 0 n).foldl (sweepF cl n) (toFun M) ∧ (binKernel cl n M).size = n := by
  unfold binKernel
  rw [List.range_eq_range']
  exact PyxLoop.foldl_sim _ (sweepStep cl n) toFun (sweepF cl n) (fun P => P.size = n)
    (fun P u hu hP => by
      have hun : u < n := by have := (List.mem_range'_1.mp hu).2; omega
      obtain ⟨h1, h2⟩ := toFun_sweepStep cl n u P hP hun
      exact ⟨h1, h2.trans hP⟩) M hM

/-! ### lists indexed by ranges -/

theorem map_range_getD {β : Type} (l : List β) (d : β) : (List.range' 0 l.length).map (fun i => l.getD i d) = l := by
  apply List.ext_getElem
  · simp
  · intro i h1 h2
    simp [List.getElem?_eq_getElem h2]

theorem zip_eq_map_range {β γ : Type} (as : List β) (bs : List γ) (n : Nat) (ha : as.length = n) (hb : bs.length = n)
    (da : β) (db : γ) : as.zip bs = (List.range' 0 n).map (fun i => (as.getD i da, bs.getD i db)) := by
  apply List.ext_getElem
  · simp [ha, hb]
  · intro i h1 h2
    have h3 : i < n := by simpa using h2
    simp [List.getD_eq_getElem?_getD, List.getElem?_eq_getElem (ha ▸ h3 : i < as.length),
      List.getElem?_eq_getElem (hb ▸ h3 : i < bs.length)]

end PyxBinning
end MTfitVerif
