import MTfitVerif.Real.RatioIntegralLemmas
import Mathlib.Probability.Distributions.Gaussian.Real
import Mathlib.MeasureTheory.Integral.Prod
import Mathlib.MeasureTheory.Measure.Haar.NormedSpace
import Mathlib.MeasureTheory.Measure.Lebesgue.Integral
/-
  Analytic lemmas for C03 (normalisation): the Gaussian density integrates to one, the inner
  `z`-integral of the ratio kernel `|y| φ(z y; μx, σx) φ(y; μy, σy)` is `φ(y; μy, σy)` for `y ≠ 0`,
  the kernel is integrable on the plane, and the Fubini swap.  Also the folding identity
  `∫_{r>0} (f r + f (-r)) = ∫ f`.
-/
namespace MTfitVerif.RatioNorm
open Real MeasureTheory ProbabilityTheory Set
open scoped NNReal

/-- density of `N(μ, σ²)` at `x` (same expression as `C03.gaussDensity`) -/
noncomputable def gd (x μ σ : ℝ) : ℝ :=
  Real.exp (-(x - μ)^2 / (2 * σ^2)) / (σ * √(2 * π))

/-- the variance `σ²` as a non-negative real -/
noncomputable def varNN (σ : ℝ) : ℝ≥0 := ⟨σ^2, sq_nonneg σ⟩

theorem coe_varNN (σ : ℝ) : ((varNN σ : ℝ≥0) : ℝ) = σ^2 := rfl

theorem gd_eq_gaussianPDFReal {σ : ℝ} (hσ : 0 < σ) (μ x : ℝ) :
    gd x μ σ = gaussianPDFReal μ (varNN σ) x := by
  have e : √(2 * π * σ^2) = σ * √(2 * π) := by
    rw [mul_comm (2 * π) (σ^2), Real.sqrt_mul (sq_nonneg σ), Real.sqrt_sq hσ.le]
  rw [gaussianPDFReal_def, coe_varNN, e, gd, div_eq_inv_mul]

theorem gd_fun_eq {σ : ℝ} (hσ : 0 < σ) (μ : ℝ) :
    (fun x => gd x μ σ) = gaussianPDFReal μ (varNN σ) :=
  funext (gd_eq_gaussianPDFReal hσ μ)

theorem var_ne_zero {σ : ℝ} (hσ : 0 < σ) : varNN σ ≠ 0 := by
  intro h
  have h1 : σ^2 = 0 := by rw [← coe_varNN, h]; rfl
  have : 0 < σ^2 := by positivity
  linarith

theorem gd_nonneg {σ : ℝ} (hσ : 0 < σ) (μ x : ℝ) : 0 ≤ gd x μ σ := by
  unfold gd; positivity

theorem integrable_gd {σ : ℝ} (hσ : 0 < σ) (μ : ℝ) : Integrable fun x => gd x μ σ := by
  rw [gd_fun_eq hσ]; exact integrable_gaussianPDFReal _ _

/-- the Gaussian density integrates to one -/
theorem integral_gd {σ : ℝ} (hσ : 0 < σ) (μ : ℝ) : ∫ x : ℝ, gd x μ σ = 1 := by
  rw [gd_fun_eq hσ]; exact integral_gaussianPDFReal_eq_one _ (var_ne_zero hσ)

/-- the ratio kernel on the plane, `(z, y) ↦ |y| φ(z y; μx, σx) φ(y; μy, σy)` -/
noncomputable def kernel (μx μy σx σy : ℝ) (p : ℝ × ℝ) : ℝ :=
  |p.2| * gd (p.1 * p.2) μx σx * gd p.2 μy σy

theorem kernel_nonneg (μx μy : ℝ) {σx σy : ℝ} (hx : 0 < σx) (hy : 0 < σy) (p : ℝ × ℝ) :
    0 ≤ kernel μx μy σx σy p := by
  unfold kernel
  exact mul_nonneg (mul_nonneg (abs_nonneg _) (gd_nonneg hx _ _)) (gd_nonneg hy _ _)

theorem continuous_kernel (μx μy σx σy : ℝ) : Continuous (kernel μx μy σx σy) := by
  unfold kernel gd
  fun_prop

theorem integrable_kernel_left (μx μy : ℝ) {σx σy : ℝ} (hx : 0 < σx) (y : ℝ) :
    Integrable fun z : ℝ => kernel μx μy σx σy (z, y) := by
  unfold kernel
  simp only
  rcases eq_or_ne y 0 with rfl | hy0
  · simp
  · exact (((integrable_gd hx μx).comp_mul_right' hy0).const_mul |y|).mul_const _

/-- for fixed `y ≠ 0` the `z`-integral of the kernel is `φ(y; μy, σy)`
    (change of variables `u = z y`) -/
theorem integral_kernel_left (μx μy : ℝ) {σx σy : ℝ} (hx : 0 < σx) {y : ℝ} (hy0 : y ≠ 0) :
    ∫ z : ℝ, kernel μx μy σx σy (z, y) = gd y μy σy := by
  unfold kernel
  simp only
  rw [integral_mul_const, integral_const_mul,
    Measure.integral_comp_mul_right (fun u => gd u μx σx) y, integral_gd hx, abs_inv, smul_eq_mul,
    mul_one, mul_inv_cancel₀ (abs_ne_zero.mpr hy0), one_mul]

/-- the inner integral identity in the form asked for: `∫ |y| φ(z y; μx, σx) dz = 1`, `y ≠ 0` -/
theorem integral_abs_mul_gd_comp_mul {σ : ℝ} (hσ : 0 < σ) (μ : ℝ) {y : ℝ} (hy0 : y ≠ 0) :
    ∫ z : ℝ, |y| * gd (z * y) μ σ = 1 := by
  rw [integral_const_mul, Measure.integral_comp_mul_right (fun u => gd u μ σ) y, integral_gd hσ,
    abs_inv, smul_eq_mul, mul_one, mul_inv_cancel₀ (abs_ne_zero.mpr hy0)]

theorem integral_norm_kernel_left_ae (μx μy : ℝ) {σx σy : ℝ} (hx : 0 < σx) (hy : 0 < σy) :
    (fun y : ℝ => ∫ z : ℝ, ‖kernel μx μy σx σy (z, y)‖) =ᵐ[volume] fun y => gd y μy σy := by
  filter_upwards [(volume : Measure ℝ).ae_ne 0] with y hy0
  simp only [Real.norm_eq_abs, abs_of_nonneg (kernel_nonneg μx μy hx hy _)]
  exact integral_kernel_left μx μy hx hy0

/-- the ratio kernel is integrable on the plane (Tonelli) -/
theorem integrable_kernel (μx μy : ℝ) {σx σy : ℝ} (hx : 0 < σx) (hy : 0 < σy) :
    Integrable (kernel μx μy σx σy) ((volume : Measure ℝ).prod (volume : Measure ℝ)) := by
  rw [integrable_prod_iff' (continuous_kernel μx μy σx σy).aestronglyMeasurable]
  refine ⟨Filter.Eventually.of_forall fun y => integrable_kernel_left μx μy hx y, ?_⟩
  exact (integrable_gd hy μy).congr (integral_norm_kernel_left_ae μx μy hx hy).symm

/-- `z ↦ ∫ kernel (z, y) dy` is integrable -/
theorem integrable_integral_kernel (μx μy : ℝ) {σx σy : ℝ} (hx : 0 < σx) (hy : 0 < σy) :
    Integrable fun z : ℝ => ∫ y : ℝ, kernel μx μy σx σy (z, y) :=
  (integrable_kernel μx μy hx hy).integral_prod_left

/-- the iterated integral of the kernel is one -/
theorem integral_integral_kernel (μx μy : ℝ) {σx σy : ℝ} (hx : 0 < σx) (hy : 0 < σy) :
    ∫ z : ℝ, ∫ y : ℝ, kernel μx μy σx σy (z, y) = 1 := by
  have hsw := integral_integral_swap (f := fun z y : ℝ => kernel μx μy σx σy (z, y))
    (μ := (volume : Measure ℝ)) (ν := (volume : Measure ℝ)) (integrable_kernel μx μy hx hy)
  rw [hsw, ← integral_gd hy μy]
  refine integral_congr_ae ?_
  filter_upwards [(volume : Measure ℝ).ae_ne 0] with y hy0
  exact integral_kernel_left μx μy hx hy0

/-- folding a density on the line onto the positive half-line -/
theorem integral_Ioi_add_comp_neg {f : ℝ → ℝ} (hf : Integrable f) :
    ∫ r in Ioi (0:ℝ), (f r + f (-r)) = ∫ x : ℝ, f x := by
  have hneg : Integrable fun r : ℝ => f (-r) := hf.comp_neg
  rw [integral_add hf.integrableOn hneg.integrableOn, integral_comp_neg_Ioi, neg_zero, add_comm]
  exact intervalIntegral.integral_Iic_add_Ioi hf.integrableOn hf.integrableOn

end MTfitVerif.RatioNorm
