import MTfitVerif.Model.Proposal
import MTfitVerif.Real.Inst
/-
  Helper lemmas for C06 (Markov-chain proposals and width adaptation): the range predicates at
  `ℝ`, the structure of the `Option` pipelines of the samplers, `mod2pi ∈ [0, 2π)`, and the
  width-adaptation step split into named stages.
-/
namespace MTfitVerif.Proposal
open MTfitVerif Acceptance Real

/-! ### range predicates -/

theorem absLe_iff (b x : ℝ) : absLe b x = true ↔ |x| ≤ b := by
  simp [absLe, not_lt]

theorem inUnit_iff (x : ℝ) : inUnit x = true ↔ 0 ≤ x ∧ x ≤ 1 := by
  simp only [inUnit, flt_ltb, flt_c, Nat.cast_one, Nat.cast_zero, Bool.and_eq_true,
    Bool.not_eq_true', decide_eq_false_iff_not, not_lt]
  tauto

/-- the value returned by a redraw loop is in range -/
theorem firstOk_ok (ok : ℝ → Bool) (m s : ℝ) (zs : List ℝ) (v : ℝ) (rest : List ℝ)
    (h : firstOk ok m s zs = some (v, rest)) : ok v = true := by
  induction zs with
  | nil => simp [firstOk] at h
  | cons z zs ih =>
    unfold firstOk at h
    split at h
    · rename_i hz
      simp only [Option.some.injEq, Prod.mk.injEq] at h
      rw [← h.1]; exact hz
    · exact ih h

/-! ### `mod2pi` -/

theorem mod2pi_eq (x : ℝ) : Convert.mod2pi x = x - (⌊x / (2 * π)⌋ : ℝ) * (2 * π) := by
  simp [Convert.mod2pi]

theorem mod2pi_nonneg (x : ℝ) : 0 ≤ Convert.mod2pi x := by
  rw [mod2pi_eq]
  have hp : 0 < 2 * π := by positivity
  have h := Int.floor_le (x / (2 * π))
  have := (le_div_iff₀ hp).mp h
  linarith

theorem mod2pi_lt (x : ℝ) : Convert.mod2pi x < 2 * π := by
  rw [mod2pi_eq]
  have hp : 0 < 2 * π := by positivity
  have h := Int.lt_floor_add_one (x / (2 * π))
  have := (div_lt_iff₀ hp).mp h
  linarith

/-! ### the sampler pipelines -/

/-- the source-type stage of `shiftSample` -/
noncomputable def typeDraw (dc : Bool) (b m s : ℝ) (zs : List ℝ) : Option (ℝ × List ℝ) :=
  if dc then some (0, zs) else firstOk (absLe b) m s zs

theorem typeDraw_range (dc : Bool) {b : ℝ} (hb : 0 ≤ b) (m s : ℝ) (zs : List ℝ) (v : ℝ) (rest : List ℝ)
    (h : typeDraw dc b m s zs = some (v, rest)) : |v| ≤ b := by
  unfold typeDraw at h
  cases dc with
  | true =>
    simp only [if_true, Option.some.injEq, Prod.mk.injEq] at h
    rw [← h.1]; simpa using hb
  | false =>
    simp only [Bool.false_eq_true, if_false] at h
    exact (absLe_iff _ _).mp (firstOk_ok _ _ _ _ _ _ h)

theorem typeDraw_dc (b m s : ℝ) (zs : List ℝ) (v : ℝ) (rest : List ℝ)
    (h : typeDraw true b m s zs = some (v, rest)) : v = 0 := by
  simp only [typeDraw, if_true, Option.some.injEq, Prod.mk.injEq] at h
  exact h.1.symm

/-- a successful `shiftSample` decomposes into its five stages -/
theorem shiftSample_some (dc : Bool) (w : Widths ℝ) (ξ : Tape ℝ) (zs : List ℝ) (x : Tape ℝ) (rest : List ℝ)
    (h : shiftSample dc w ξ zs = some (x, rest)) :
    ∃ g z1 d z2 z z3 hh z4 s,
      typeDraw dc (π / 6) ξ.gamma w.gamma zs = some (g, z1) ∧
      typeDraw dc (π / 2) ξ.delta w.delta z1 = some (d, z2) ∧
      z2 = z :: z3 ∧
      firstOk inUnit ξ.h w.h z3 = some (hh, z4) ∧
      firstOk (absLe (π / 2)) ξ.sigma w.sigma z4 = some (s, rest) ∧
      x = { gamma := g, delta := d, kappa := Convert.mod2pi (ξ.kappa + w.kappa * z), h := hh, sigma := s } := by
  unfold shiftSample at h
  cases dc
  · simp only [Bool.false_eq_true, if_false, bind, Option.bind_eq_some_iff, Prod.exists, pure] at h
    obtain ⟨g, z1, h1, d, z2, h2, h3⟩ := h
    cases z2 with
    | nil => simp at h3
    | cons z z3 =>
      simp only [Option.bind_some, Option.bind_eq_some_iff, Prod.exists, Option.some.injEq, Prod.mk.injEq] at h3
      obtain ⟨hh, z4, h4, s, z5, h5, rfl, rfl⟩ := h3
      exact ⟨g, z1, d, _, z, z3, hh, z4, s, by simpa [typeDraw] using h1, by simpa [typeDraw] using h2, rfl, h4, by simpa using h5, rfl⟩
  · simp only [if_true, bind, Option.bind_eq_some_iff, Prod.exists, pure] at h
    obtain ⟨g, z1, h1, d, z2, h2, h3⟩ := h
    cases z2 with
    | nil => simp at h3
    | cons z z3 =>
      simp only [Option.bind_some, Option.bind_eq_some_iff, Prod.exists, Option.some.injEq, Prod.mk.injEq] at h3
      obtain ⟨hh, z4, h4, s, z5, h5, rfl, rfl⟩ := h3
      exact ⟨g, z1, d, _, z, z3, hh, z4, s, by simpa [typeDraw] using h1, by simpa [typeDraw] using h2, rfl, h4, by simpa using h5, rfl⟩

/-- a successful `jumpDraw` decomposes into its two redraw loops -/
theorem jumpDraw_some (w : Widths ℝ) (zs : List ℝ) (g d : ℝ) (rest : List ℝ)
    (h : jumpDraw w zs = some (g, d, rest)) :
    ∃ z1, firstOk (absLe (π / 6)) 0 w.gammaDc zs = some (g, z1) ∧
      firstOk (absLe (π / 2)) 0 w.deltaDc z1 = some (d, rest) := by
  unfold jumpDraw at h
  simp only [bind, Option.bind_eq_some_iff, Prod.exists, pure, Option.some.injEq, Prod.mk.injEq] at h
  obtain ⟨g', z1, h1, d', z2, h2, rfl, rfl, rfl⟩ := h
  exact ⟨z1, by simpa using h1, by simpa using h2⟩

theorem transDSample_eq (dc : Bool) (p : ℝ) (w : Widths ℝ) (ξ : Tape ℝ) (u : ℝ) (zs : List ℝ) :
    transDSample dc p w ξ u zs =
      if u ≤ p then
        if dc then (jumpDraw w zs).map fun r => ({ ξ with gamma := r.1, delta := r.2.1 }, true, r.2.2)
        else some ({ ξ with gamma := 0, delta := 0 }, true, zs)
      else (shiftSample dc w ξ zs).map fun r => (r.1, false, r.2) := by
  unfold transDSample
  simp only [flt_leb, decide_eq_true_eq, flt_c, Nat.cast_zero]
  split
  · cases dc
    · simp
    · simp only [if_true]
      cases jumpDraw w zs <;> rfl
  · rfl

/-! ### width adaptation -/

/-- the map applied to each `(key, width)` pair by `modifyWidths` -/
noncomputable def modOne (maxW : List (String × ℝ)) (ratio : ℝ) (kv : String × ℝ) : String × ℝ :=
  if isFixedKey kv.1 then kv
  else
    match maxW.lookup kv.1 with
    | some m => if m < kv.2 * ratio ∨ ¬ 0 < kv.2 * ratio then kv else (kv.1, kv.2 * ratio)
    | none => if ¬ 0 < kv.2 * ratio then kv else (kv.1, kv.2 * ratio)

theorem modifyWidths_eq (maxW ws : List (String × ℝ)) (ratio : ℝ) :
    modifyWidths maxW ws ratio = ws.map (modOne maxW ratio) := by
  unfold modifyWidths
  apply List.map_congr_left
  rintro ⟨k, v⟩ _
  simp only [modOne, flt_ltb]
  split
  · rfl
  · cases maxW.lookup k with
    | none => simp only [flt_c, Nat.cast_zero, Bool.not_eq_true', decide_eq_false_iff_not]
    | some m => simp only [flt_c, Nat.cast_zero, Bool.or_eq_true, Bool.not_eq_true', decide_eq_true_eq,
        decide_eq_false_iff_not]

theorem modOne_fst (maxW : List (String × ℝ)) (ratio : ℝ) (kv : String × ℝ) :
    (modOne maxW ratio kv).1 = kv.1 := by
  unfold modOne
  split
  · rfl
  · split
    · split <;> rfl
    · split <;> rfl

theorem modOne_fixed (maxW : List (String × ℝ)) (ratio : ℝ) (kv : String × ℝ)
    (h : isFixedKey kv.1 = true) : modOne maxW ratio kv = kv := by
  unfold modOne; rw [if_pos h]

theorem modOne_pos (maxW : List (String × ℝ)) {ratio : ℝ} (hr : 0 < ratio) (kv : String × ℝ)
    (h : 0 < kv.2) : 0 < (modOne maxW ratio kv).2 := by
  have : 0 < kv.2 * ratio := mul_pos h hr
  unfold modOne
  split
  · exact h
  · split
    · split
      · exact h
      · exact this
    · exact this   -- (`split` has already discharged the `¬ 0 < kv.2 * ratio` test with `this`)

/-- the point of the `not newAlpha > 0` test: whatever the ratio (zero, negative, or a product that
    underflowed to 0), a positive width stays positive -/
theorem modOne_pos_any (maxW : List (String × ℝ)) (ratio : ℝ) (kv : String × ℝ)
    (h : 0 < kv.2) : 0 < (modOne maxW ratio kv).2 := by
  unfold modOne
  split
  · exact h
  · split
    · split
      · exact h
      · rename_i h'; exact not_not.mp (not_or.mp h').2
    · split
      · exact h
      · rename_i h'; exact not_not.mp h'

theorem modOne_le (maxW : List (String × ℝ)) (ratio : ℝ) (kv : String × ℝ) (m : ℝ)
    (hm : maxW.lookup kv.1 = some m) (h : kv.2 ≤ m) : (modOne maxW ratio kv).2 ≤ m := by
  unfold modOne
  split
  · exact h
  · rw [hm]
    simp only
    split
    · exact h
    · rename_i h'; exact not_lt.mp (not_or.mp h').1

/-- first stage of `adaptStep`: the (possibly overridden) rate and the width ratio -/
noncomputable def adaptPair (minR maxR oldRate rate : ℝ) : ℝ × ℝ :=
  if 0 < rate ∧ rate < 1 then
    if rate < minR then
      let r' := if (oldRate < minR ∧ rate < oldRate) ∨ maxR < oldRate then 1 else rate
      (r', max (r' / minR) (1 / 10))
    else if maxR < rate then
      let r' := if (maxR < oldRate ∧ oldRate < rate) ∨ oldRate < minR then 1 else rate
      (r', max (r' / maxR) (1 / 10))
    else (rate, max 1 (1 / 10))
  else (rate, 1)

/-- second stage: remember the rate, the ratio and the widths of an interior window -/
noncomputable def adaptStore (s : AdaptState ℝ) (rate' ratio : ℝ) : AdaptState ℝ :=
  if Flt.ltb (c 0) rate' && Flt.ltb rate' (c 1) then
    { s with oldRate := rate', oldRatio := some ratio, oldWidths := some s.widths }
  else s

/-- third stage: the new widths -/
noncomputable def adaptFinal (maxR : ℝ) (maxW : List (String × ℝ)) (s1 : AdaptState ℝ) (rate' ratio : ℝ) :
    AdaptState ℝ :=
  if Flt.leb (c 1) rate' then
    match s1.oldWidths, s1.oldRatio with
    | some ow, some r => { s1 with widths := modifyWidths maxW ow (Flt.sqrt r), oldRatio := some (Flt.sqrt r) }
    | _, _ => { s1 with widths := modifyWidths maxW s1.widths (c 1 / maxR) }
  else if !(Flt.ltb (c 0) rate') then
    match s1.oldWidths, s1.oldRatio with
    | some ow, some r => { s1 with widths := modifyWidths maxW ow (r * r), oldRatio := some (r * r) }
    | _, _ => { s1 with widths := modifyWidths maxW s1.widths (sci 1 1) }
  else { s1 with widths := modifyWidths maxW s1.widths ratio }

theorem sci_1_1 : (sci 1 1 : ℝ) = 1 / 10 := by
  simp only [flt_sci]; norm_num

theorem adaptStep_eq (minR maxR : ℝ) (maxW : List (String × ℝ)) (s : AdaptState ℝ) (rate : ℝ) :
    adaptStep minR maxR maxW s rate =
      adaptFinal maxR maxW
        (adaptStore s (adaptPair minR maxR s.oldRate rate).1 (adaptPair minR maxR s.oldRate rate).2)
        (adaptPair minR maxR s.oldRate rate).1 (adaptPair minR maxR s.oldRate rate).2 := by
  have hp : adaptPair minR maxR s.oldRate rate =
      (if Flt.ltb (c 0) rate && Flt.ltb rate (c 1) then
        if Flt.ltb rate minR then
          (if (Flt.ltb s.oldRate minR && Flt.ltb rate s.oldRate) || Flt.ltb maxR s.oldRate then c 1 else rate,
           fmax ((if (Flt.ltb s.oldRate minR && Flt.ltb rate s.oldRate) || Flt.ltb maxR s.oldRate then c 1 else rate) / minR) (sci 1 1))
        else if Flt.ltb maxR rate then
          (if (Flt.ltb maxR s.oldRate && Flt.ltb s.oldRate rate) || Flt.ltb s.oldRate minR then c 1 else rate,
           fmax ((if (Flt.ltb maxR s.oldRate && Flt.ltb s.oldRate rate) || Flt.ltb s.oldRate minR then c 1 else rate) / maxR) (sci 1 1))
        else (rate, fmax (c 1) (sci 1 1))
      else (rate, c 1)) := by
    simp only [adaptPair, flt_ltb, flt_c, Nat.cast_zero, Nat.cast_one, Bool.and_eq_true, Bool.or_eq_true,
      decide_eq_true_eq, fmax_eq, sci_1_1]
  unfold adaptStep
  dsimp only
  rw [← hp]
  generalize adaptPair minR maxR s.oldRate rate = p
  obtain ⟨rate', ratio⟩ := p
  unfold adaptStore
  dsimp only
  generalize (if (Flt.ltb (c 0) rate' && Flt.ltb rate' (c 1)) = true then
    ({ widths := s.widths, oldRate := rate', oldRatio := some ratio, oldWidths := some s.widths } : AdaptState ℝ) else s) = s1
  unfold adaptFinal
  obtain ⟨w, r, orat, ow⟩ := s1
  cases ow <;> cases orat <;> rfl

theorem adaptPair_snd_pos (minR maxR oldRate rate : ℝ) : 0 < (adaptPair minR maxR oldRate rate).2 := by
  have h10 : (0:ℝ) < 1 / 10 := by norm_num
  unfold adaptPair
  split
  · split
    · exact lt_max_of_lt_right h10
    · split
      · exact lt_max_of_lt_right h10
      · exact lt_max_of_lt_right h10
  · exact one_pos

theorem adaptStore_cases (s : AdaptState ℝ) (rate' ratio : ℝ) :
    adaptStore s rate' ratio = s ∨
    adaptStore s rate' ratio = { s with oldRate := rate', oldRatio := some ratio, oldWidths := some s.widths } := by
  unfold adaptStore
  split
  · right; rfl
  · left; rfl

theorem adaptFinal_cases {maxR : ℝ} (hmaxR : 0 < maxR) (maxW : List (String × ℝ)) (s1 : AdaptState ℝ)
    (rate' : ℝ) {ratio : ℝ} (hratio : 0 < ratio) (hor : ∀ r, s1.oldRatio = some r → 0 < r) :
    (adaptFinal maxR maxW s1 rate' ratio).oldWidths = s1.oldWidths ∧
    (∀ r, (adaptFinal maxR maxW s1 rate' ratio).oldRatio = some r → 0 < r) ∧
    ∃ ws0 r, 0 < r ∧ (adaptFinal maxR maxW s1 rate' ratio).widths = modifyWidths maxW ws0 r ∧
      (ws0 = s1.widths ∨ s1.oldWidths = some ws0) := by
  have h10 : (0:ℝ) < 1 / 10 := by norm_num
  have hinv : 0 < 1 / maxR := by positivity
  obtain ⟨w, orate, orat, ow⟩ := s1
  unfold adaptFinal
  simp only [flt_c, Nat.cast_one, Nat.cast_zero, sci_1_1, flt_sqrt]
  cases ow with
  | none =>
    split
    · exact ⟨rfl, hor, w, _, hinv, rfl, Or.inl rfl⟩
    · split
      · exact ⟨rfl, hor, w, _, h10, rfl, Or.inl rfl⟩
      · exact ⟨rfl, hor, w, _, hratio, rfl, Or.inl rfl⟩
  | some ow =>
    cases orat with
    | none =>
      split
      · exact ⟨rfl, hor, w, _, hinv, rfl, Or.inl rfl⟩
      · split
        · exact ⟨rfl, hor, w, _, h10, rfl, Or.inl rfl⟩
        · exact ⟨rfl, hor, w, _, hratio, rfl, Or.inl rfl⟩
    | some r =>
      have hr : 0 < r := hor r rfl
      split
      · refine ⟨rfl, ?_, ow, _, Real.sqrt_pos.mpr hr, rfl, Or.inr rfl⟩
        intro r' h'
        simp only [Option.some.injEq] at h'
        rw [← h']; exact Real.sqrt_pos.mpr hr
      · split
        · refine ⟨rfl, ?_, ow, _, mul_pos hr hr, rfl, Or.inr rfl⟩
          intro r' h'
          simp only [Option.some.injEq] at h'
          rw [← h']; exact mul_pos hr hr
        · exact ⟨rfl, hor, w, _, hratio, rfl, Or.inl rfl⟩

end MTfitVerif.Proposal
