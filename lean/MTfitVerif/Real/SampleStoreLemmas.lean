import MTfitVerif.Model.SampleStore
import MTfitVerif.Real.LogDomainLemmas
/- helper lemmas for C09: the sample store (`Model/SampleStore.lean`) -/
namespace MTfitVerif
namespace SampleStore
open LogP LogDomain

/-! ### the growth loop -/

theorem growTo_aux (init i k : Nat) (hinit : 0 < init) :
    ∀ (fuel cap : Nat), i ≤ cap → k + 1 ≤ fuel + (cap - i) →
      cap ≤ growTo init i k fuel cap ∧ k < growTo init i k fuel cap - i ∧
      (k < cap - i → growTo init i k fuel cap = cap) := by
  intro fuel
  induction fuel with
  | zero =>
    intro cap hi h
    simp only [growTo]
    exact ⟨le_refl _, by omega, fun _ => trivial⟩
  | succ f ih =>
    intro cap hi h
    simp only [growTo]
    split
    · omega
    · rename_i hn
      obtain ⟨h1, h2, _⟩ := ih (cap + init) (by omega) (by omega)
      exact ⟨by omega, h2, fun hk => absurd hk hn⟩

/-! ### `writeAt` -/

theorem writeAt_length (cols : List Nat) (i : Nat) (new : List Nat)
    (h : i + new.length ≤ cols.length) : (writeAt cols i new).length = cols.length := by
  simp only [writeAt, List.length_append, List.length_take, List.length_drop]
  omega

theorem writeAt_take (cols : List Nat) (i : Nat) (new : List Nat) (h : i ≤ cols.length) :
    (writeAt cols i new).take (i + new.length) = cols.take i ++ new := by
  unfold writeAt
  apply List.take_left'
  simp only [List.length_append, List.length_take]
  omega

/-! ### fields of `append` -/

section append
variable (s : Store ℝ) (batch : List (Cand ℝ)) (nT : Nat)

theorem append_of_nil (h : batch.filter nonzero = []) :
    append s batch nT = { s with n := s.n + nT } := by
  simp [append, h]

theorem append_of_ne (h : batch.filter nonzero ≠ []) :
    append s batch nT =
      { s with
        cols := writeAt (s.cols ++ List.replicate
            (growTo s.init s.i (batch.filter nonzero).length
              ((batch.filter nonzero).length + s.i + 2) s.cols.length - s.cols.length) 0)
            s.i ((batch.filter nonzero).map (·.tok)),
        i := s.i + (batch.filter nonzero).length,
        lnCols := s.lnCols ++ (batch.filter nonzero).map (·.col),
        sf := s.sf ++ (batch.filter nonzero).map (·.sf),
        n := s.n + nT } := by
  simp [append, h]

theorem append_init : (append s batch nT).init = s.init := by
  by_cases h : batch.filter nonzero = []
  · rw [append_of_nil s batch nT h]
  · rw [append_of_ne s batch nT h]

theorem append_n : (append s batch nT).n = s.n + nT := by
  by_cases h : batch.filter nonzero = []
  · rw [append_of_nil s batch nT h]
  · rw [append_of_ne s batch nT h]

theorem append_i : (append s batch nT).i = s.i + (batch.filter nonzero).length := by
  by_cases h : batch.filter nonzero = []
  · rw [append_of_nil s batch nT h]; simp [h]
  · rw [append_of_ne s batch nT h]

theorem append_lnCols :
    (append s batch nT).lnCols = s.lnCols ++ (batch.filter nonzero).map (·.col) := by
  by_cases h : batch.filter nonzero = []
  · rw [append_of_nil s batch nT h]; simp [h]
  · rw [append_of_ne s batch nT h]

theorem append_sf :
    (append s batch nT).sf = s.sf ++ (batch.filter nonzero).map (·.sf) := by
  by_cases h : batch.filter nonzero = []
  · rw [append_of_nil s batch nT h]; simp [h]
  · rw [append_of_ne s batch nT h]

/-- the tensor array after an append: at least as long as needed, and its first `i + k`
    entries are the old first `i` entries followed by the new tokens -/
theorem append_cols (h0 : 0 < s.init) (h1 : s.i ≤ s.cols.length) :
    s.i + (batch.filter nonzero).length ≤ (append s batch nT).cols.length ∧
    (append s batch nT).cols.take (s.i + (batch.filter nonzero).length)
      = s.cols.take s.i ++ (batch.filter nonzero).map (·.tok) := by
  by_cases h : batch.filter nonzero = []
  · rw [append_of_nil s batch nT h]; simp [h, h1]
  · rw [append_of_ne s batch nT h]
    obtain ⟨g1, g2, _⟩ := growTo_aux s.init s.i (batch.filter nonzero).length h0
      ((batch.filter nonzero).length + s.i + 2) s.cols.length h1 (by omega)
    generalize growTo s.init s.i (batch.filter nonzero).length
      ((batch.filter nonzero).length + s.i + 2) s.cols.length = cap at g1 g2
    have hlen : (s.cols ++ List.replicate (cap - s.cols.length) 0).length = cap := by
      simp only [List.length_append, List.length_replicate]; omega
    constructor
    · show _ ≤ (writeAt _ _ _).length
      rw [writeAt_length _ _ _ (by rw [hlen, List.length_map]; omega), hlen]; omega
    · show (writeAt _ _ _).take _ = _
      have := writeAt_take (s.cols ++ List.replicate (cap - s.cols.length) 0) s.i
        ((batch.filter nonzero).map (·.tok)) (by rw [hlen]; omega)
      rw [List.length_map] at this
      rw [this, List.take_append_of_le_length h1]

end append

/-! ### the abstract view -/

theorem zip3_map (l : List (Cand ℝ)) :
    List.zip (l.map (·.tok)) (List.zip (l.map (·.col)) (l.map (·.sf)))
      = l.map (fun c => (c.tok, c.col, c.sf)) := by
  induction l with
  | nil => rfl
  | cons x xs ih => simp [ih]

/-- one refinement step, invariant unbundled -/
theorem append_step (s : Store ℝ) (h0 : 0 < s.init) (h1 : s.i ≤ s.cols.length)
    (h2 : s.lnCols.length = s.i) (h3 : s.sf.length = s.i) (batch : List (Cand ℝ)) (nT : Nat) :
    (0 < (append s batch nT).init ∧ (append s batch nT).i ≤ (append s batch nT).cols.length ∧
      (append s batch nT).lnCols.length = (append s batch nT).i ∧
      (append s batch nT).sf.length = (append s batch nT).i) ∧
    view (append s batch nT)
      = view s ++ (batch.filter nonzero).map (fun c => (c.tok, c.col, c.sf)) ∧
    (append s batch nT).n = s.n + nT := by
  obtain ⟨c1, c2⟩ := append_cols s batch nT h0 h1
  refine ⟨⟨?_, ?_, ?_, ?_⟩, ?_, append_n s batch nT⟩
  · rw [append_init]; exact h0
  · rw [append_i]; exact c1
  · rw [append_lnCols, append_i, List.length_append, List.length_map, h2]
  · rw [append_sf, append_i, List.length_append, List.length_map, h3]
  · unfold view
    rw [append_i, c2, append_lnCols, append_sf]
    rw [List.zip_append (by rw [h2, h3]), List.zip_append, zip3_map]
    rw [List.length_take, List.length_zip, h2, h3]; omega

/-- every history from any state satisfying the invariant -/
theorem foldl_step (hist : List (List (Cand ℝ) × Nat)) :
    ∀ (s : Store ℝ), 0 < s.init → s.i ≤ s.cols.length → s.lnCols.length = s.i →
      s.sf.length = s.i →
      (0 < (hist.foldl (fun s b => append s b.1 b.2) s).init ∧
        (hist.foldl (fun s b => append s b.1 b.2) s).i
          ≤ (hist.foldl (fun s b => append s b.1 b.2) s).cols.length ∧
        (hist.foldl (fun s b => append s b.1 b.2) s).lnCols.length
          = (hist.foldl (fun s b => append s b.1 b.2) s).i ∧
        (hist.foldl (fun s b => append s b.1 b.2) s).sf.length
          = (hist.foldl (fun s b => append s b.1 b.2) s).i) ∧
      view (hist.foldl (fun s b => append s b.1 b.2) s)
        = view s ++ (hist.flatMap fun b =>
            (b.1.filter nonzero).map fun c => (c.tok, c.col, c.sf)) ∧
      (hist.foldl (fun s b => append s b.1 b.2) s).n = s.n + (hist.map (·.2)).sum := by
  induction hist with
  | nil => intro s h0 h1 h2 h3; simp [h0, h1, h2, h3]
  | cons b bs ih =>
    intro s h0 h1 h2 h3
    obtain ⟨⟨a0, a1, a2, a3⟩, av, an⟩ := append_step s h0 h1 h2 h3 b.1 b.2
    obtain ⟨hi, hv, hn⟩ := ih (append s b.1 b.2) a0 a1 a2 a3
    refine ⟨hi, ?_, ?_⟩
    · rw [List.foldl_cons, hv, av, List.flatMap_cons, List.append_assoc]
    · rw [List.foldl_cons, hn, an, List.map_cons, List.sum_cons]; omega

theorem foldl_i (hist : List (List (Cand ℝ) × Nat)) (s : Store ℝ) :
    (hist.foldl (fun s b => append s b.1 b.2) s).i
      = s.i + (hist.map fun b => (b.1.filter nonzero).length).sum := by
  induction hist generalizing s with
  | nil => simp
  | cons b bs ih => rw [List.foldl_cons, ih, append_i, List.map_cons, List.sum_cons]; omega

theorem foldl_lnCols (hist : List (List (Cand ℝ) × Nat)) (s : Store ℝ) :
    (hist.foldl (fun s b => append s b.1 b.2) s).lnCols
      = s.lnCols ++ hist.flatMap fun b => (b.1.filter nonzero).map (·.col) := by
  induction hist generalizing s with
  | nil => simp
  | cons b bs ih => rw [List.foldl_cons, ih, append_lnCols, List.flatMap_cons, List.append_assoc]

@[simp] theorem view_empty (init : Nat) : view (empty init : Store ℝ) = [] := by
  simp [view, empty]

/-! ### marginals, normalisation, selection -/

/-- the marginal of one stored column (named form of the `match` in `marginals`) -/
noncomputable def margOne (col : List (LogP ℝ)) : LogP ℝ :=
  match col with
  | [x] => x
  | _ => lnMargCol col (c 1)

theorem marginals_eq (s : Store ℝ) : marginals s = s.lnCols.map margOne := by
  unfold marginals
  apply List.map_congr_left
  intro col _
  match col with
  | [] => rfl
  | [_] => rfl
  | _ :: _ :: _ => rfl

theorem marginals_length (s : Store ℝ) : (marginals s).length = s.lnCols.length := by
  rw [marginals_eq, List.length_map]

theorem lnMargCol_isFin {col : List (LogP ℝ)} (h : col.any isFin = true) (dV : ℝ) :
    isFin (lnMargCol col dV) = true := by
  unfold lnMargCol
  cases hm : maxFin col with
  | none =>
    exfalso
    obtain ⟨x, hx, hxf⟩ := List.any_eq_true.mp h
    rw [(maxFin_eq_none_iff col).mp hm x hx] at hxf
    cases hxf
  | some m => rfl

theorem margOne_isFin {col : List (LogP ℝ)} (h : col.any isFin = true) :
    isFin (margOne col) = true := by
  unfold margOne
  split
  · simpa using h
  · exact lnMargCol_isFin h _

theorem marginals_isFin (s : Store ℝ) (h : ∀ col ∈ s.lnCols, col.any isFin = true) :
    ∀ x ∈ marginals s, isFin x = true := by
  intro x hx
  rw [marginals_eq] at hx
  obtain ⟨col, hc, rfl⟩ := List.mem_map.mp hx
  exact margOne_isFin (h col hc)

theorem lnNormalise_length (xs : List (LogP ℝ)) (dV : ℝ) :
    (lnNormalise xs dV).length = xs.length := by
  unfold lnNormalise
  split <;> simp

theorem lnNormalise_isFin (xs : List (LogP ℝ)) (dV : ℝ) (h : ∀ x ∈ xs, isFin x = true) :
    ∀ y ∈ lnNormalise xs dV, isFin y = true := by
  unfold lnNormalise
  split
  · exact h
  · intro y hy
    obtain ⟨x, hx, rfl⟩ := List.mem_map.mp hy
    have := h x hx
    cases x with
    | negInf => cases this
    | fin v => rfl

section selectBy
variable {β γ : Type}

@[simp] theorem selectBy_nil_left (keep : List Bool) : selectBy ([] : List β) keep = [] := by
  simp [selectBy]

@[simp] theorem selectBy_nil_right (l : List β) : selectBy l [] = [] := by
  simp [selectBy]

@[simp] theorem selectBy_cons_true (x : β) (l : List β) (keep : List Bool) :
    selectBy (x :: l) (true :: keep) = x :: selectBy l keep := by
  simp [selectBy]

@[simp] theorem selectBy_cons_false (x : β) (l : List β) (keep : List Bool) :
    selectBy (x :: l) (false :: keep) = selectBy l keep := by
  simp [selectBy]

theorem selectBy_all_true (l : List β) (keep : List Bool) (hlen : l.length = keep.length)
    (h : ∀ b ∈ keep, b = true) : selectBy l keep = l := by
  induction keep generalizing l with
  | nil =>
    cases l with
    | nil => rfl
    | cons x xs => simp at hlen
  | cons b bs ih =>
    cases l with
    | nil => simp at hlen
    | cons x xs =>
      have hb : b = true := h b (by simp)
      subst hb
      rw [selectBy_cons_true, ih xs (by simpa using hlen) (fun b hb => h b (by simp [hb]))]

theorem selectBy_zip (l₁ : List β) (l₂ : List γ) (keep : List Bool) :
    List.zip (selectBy l₁ keep) (selectBy l₂ keep) = selectBy (List.zip l₁ l₂) keep := by
  induction keep generalizing l₁ l₂ with
  | nil => simp
  | cons b bs ih =>
    cases l₁ with
    | nil => simp
    | cons x xs =>
      cases l₂ with
      | nil => simp
      | cons y ys => cases b <;> simp [ih]

end selectBy

theorem keepIdx_no_discard (ln : List (LogP ℝ)) : keepIdx ln 0 0 = ln.map isFin := by
  simp [keepIdx]

theorem output_of_ne (s : Store ℝ) (discard nS : ℝ) (h : marginals s ≠ []) :
    output s discard nS = some
      { toks := selectBy (s.cols.take s.i)
          (keepIdx (lnNormalise (marginals s) (c 1)) discard nS),
        probability := (selectBy (lnNormalise (marginals s) (c 1))
          (keepIdx (lnNormalise (marginals s) (c 1)) discard nS)).map expF,
        lnPdf := selectBy (marginals s) (keepIdx (lnNormalise (marginals s) (c 1)) discard nS),
        sf := selectBy s.sf (keepIdx (lnNormalise (marginals s) (c 1)) discard nS) } := by
  simp [output, h]

theorem output_of_nil (s : Store ℝ) (discard nS : ℝ) (h : s.lnCols = []) :
    output s discard nS = none := by
  simp [output, marginals_eq, h]

theorem gtb_fin_fin (a b : ℝ) : gtb (fin a) (fin b) = decide (b < a) := rfl
theorem gtb_negInf (y : LogP ℝ) : gtb (negInf : LogP ℝ) y = false := rfl

end SampleStore
end MTfitVerif
