import MTfitVerif.Model.Binary
import MTfitVerif.Model.Csv
import MTfitVerif.Real.Inst
/-
  Helper lemmas for C17 (binary result format and CSV / hyp parsing models).
-/
namespace MTfitVerif
namespace Binary

theorem takeD_map {α : Type} (l : List α) (rest : List (Word α)) :
    takeD l.length (l.map (fun x => Word.d (some x)) ++ rest) = some (l, rest) := by
  induction l with
  | nil => simp [takeD]
  | cons x xs ih => simp [takeD, ih]

theorem takeD_map' {α : Type} (n : Nat) (l : List α) (rest : List (Word α)) (h : l.length = n) :
    takeD n (l.map (fun x => Word.d (some x)) ++ rest) = some (l, rest) := by
  subst h; exact takeD_map l rest

theorem sqrt2_mul_div (x : ℝ) : Real.sqrt 2 * (x / Real.sqrt 2) = x := by
  have h : Real.sqrt 2 ≠ 0 := Real.sqrt_ne_zero'.mpr (by norm_num)
  field_simp

/-- the eight leading words of a sample, as a mapped list -/
theorem writeSample_eq (conv : Bool) (s : Sample ℝ) :
    writeSample conv s =
      ([s.p, s.lnp, s.mt.getD 0 0, s.mt.getD 1 0, s.mt.getD 2 0,
        s.mt.getD 3 0 / Real.sqrt 2, s.mt.getD 4 0 / Real.sqrt 2, s.mt.getD 5 0 / Real.sqrt 2].map
          (fun x => Word.d (some x)))
      ++ (if conv then s.conv.map (fun x => Word.d (some x)) else []) := by
  simp [writeSample]

theorem readSamples_step (conv : Bool) (s : Sample ℝ) (n : Nat) (ws : List (Word ℝ))
    (h6 : s.mt.length = 6) (hc : s.conv.length = (if conv then 13 else 0)) :
    readSamples conv (n + 1) (writeSample conv s ++ ws)
      = (readSamples conv n ws).map (fun p => (s :: p.1, p.2)) := by
  obtain ⟨p, lnp, mt, cv⟩ := s
  simp only at h6 hc
  match mt, h6 with
  | [a, b, c', d, e, f], _ =>
    rw [writeSample_eq, List.append_assoc, readSamples, takeD_map' 8 _ _ rfl]
    cases conv
    · simp only [Bool.false_eq_true, if_false] at hc
      have : cv = [] := List.length_eq_zero_iff.mp hc
      subst this
      simp [sqrt2_mul_div]
      cases readSamples false n ws <;> simp
    · simp only [if_true] at hc
      simp only [if_true, Option.bind_eq_bind, Option.bind_some]
      rw [takeD_map' 13 _ _ hc]
      simp [sqrt2_mul_div]
      cases readSamples true n ws <;> simp

end Binary

namespace Csv

theorem setKey_fresh (types : List (String × List Row)) (k : String) (rows : List Row)
    (h : ∀ p ∈ types, p.1 ≠ k) : setKey types k rows = types ++ [(k, rows)] := by
  have : types.any (·.1 == k) = false := by
    simp only [List.any_eq_false, beq_iff_eq]
    intro p hp; exact h p hp
  simp [setKey, this]

theorem foldl_rows (rows : List (List String)) (s : EvState) :
    (rows.map CLine.row).foldl stepLine s
      = { s with rows := s.rows ++ rows.map (mkRow s.ps.idx) } := by
  induction rows generalizing s with
  | nil => simp
  | cons r rs ih => simp [ih, stepLine]

theorem foldl_typeLines (k : String) (i : Idx) (rows : List (List String)) (s : EvState) :
    (CLine.typ k :: CLine.header i :: rows.map CLine.row).foldl stepLine s
      = { ps := ⟨k, i⟩, uid := s.uid, rows := rows.map (mkRow i), types := flush s } := by
  simp [List.foldl_cons, foldl_rows, stepLine]

theorem flush_block (k : String) (i : Idx) (rows : List (List String)) (s : EvState)
    (hne : rows ≠ []) (hk : ∀ p ∈ flush s, p.1 ≠ k) :
    flush { ps := ⟨k, i⟩, uid := s.uid, rows := rows.map (mkRow i), types := flush s }
      = flush s ++ [(k, rows.map (mkRow i))] := by
  have : (rows.map (mkRow i)).isEmpty = false := by
    cases rows with
    | nil => exact absurd rfl hne
    | cons r rs => rfl
  rw [flush]
  simp only [this]
  exact setKey_fresh _ _ _ hk

theorem foldl_types (ts : List (String × Idx × List (List String))) (s : EvState)
    (hne : ∀ t ∈ ts, t.2.2 ≠ [])
    (hk : ((flush s).map (·.1) ++ ts.map (·.1)).Nodup) :
    let s' := (ts.flatMap fun t => CLine.typ t.1 :: CLine.header t.2.1 :: t.2.2.map CLine.row).foldl stepLine s
    flush s' = flush s ++ ts.map (fun t => (t.1, t.2.2.map (mkRow t.2.1))) ∧ s'.uid = s.uid := by
  induction ts generalizing s with
  | nil => simp
  | cons t ts ih =>
    intro s'
    have hs' : s' = (ts.flatMap fun t => CLine.typ t.1 :: CLine.header t.2.1 :: t.2.2.map CLine.row).foldl stepLine
        { ps := ⟨t.1, t.2.1⟩, uid := s.uid, rows := t.2.2.map (mkRow t.2.1), types := flush s } := by
      simp only [s', List.flatMap_cons, List.foldl_append, foldl_typeLines]
    have hfresh : ∀ p ∈ flush s, p.1 ≠ t.1 := by
      intro p hp heq
      rw [List.map_cons, List.nodup_append] at hk
      exact hk.2.2 p.1 (List.mem_map_of_mem hp) t.1 (List.mem_cons_self) heq
    have hfl := flush_block t.1 t.2.1 t.2.2 s (hne t List.mem_cons_self) hfresh
    have := ih { ps := ⟨t.1, t.2.1⟩, uid := s.uid, rows := t.2.2.map (mkRow t.2.1), types := flush s }
      (fun u hu => hne u (List.mem_cons_of_mem _ hu))
      (by
        rw [hfl]
        simpa [List.append_assoc] using hk)
    rw [hs']
    refine ⟨?_, this.2⟩
    rw [this.1, hfl]
    simp

/-! ### hyp picks -/

def pickStep (acc : Bool × List Pick) (l : List String) : Bool × List Pick :=
  match l.headD "" with
  | "PHASE" => (true, acc.2)
  | "END_PHASE" => (false, acc.2)
  | _ => if acc.1 then (acc.1, acc.2 ++ (pickOf l).toList) else acc

theorem picks_eq (lines : List (List String)) : picks lines = (lines.foldl pickStep (false, [])).2 := rfl

theorem pickStep_phase (acc : Bool × List Pick) : pickStep acc ["PHASE"] = (true, acc.2) := rfl
theorem pickStep_end (acc : Bool × List Pick) : pickStep acc ["END_PHASE"] = (false, acc.2) := rfl

theorem pickStep_outside (acc : List Pick) (l : List String) (h : l.headD "" ≠ "PHASE") :
    pickStep (false, acc) l = (false, acc) := by
  unfold pickStep
  split
  · contradiction
  · rfl
  · simp

theorem pickStep_inside (acc : List Pick) (l : List String) (h : l.headD "" ≠ "PHASE")
    (h' : l.headD "" ≠ "END_PHASE") :
    pickStep (true, acc) l = (true, acc ++ (pickOf l).toList) := by
  unfold pickStep
  split
  · contradiction
  · contradiction
  · simp

theorem foldl_outside (ls : List (List String)) (acc : List Pick)
    (h : ∀ l ∈ ls, l.headD "" ≠ "PHASE") : ls.foldl pickStep (false, acc) = (false, acc) := by
  induction ls with
  | nil => rfl
  | cons l ls ih =>
    rw [List.foldl_cons, pickStep_outside acc l (h l List.mem_cons_self)]
    exact ih (fun u hu => h u (List.mem_cons_of_mem _ hu))

theorem foldl_inside (ls : List (List String)) (acc : List Pick)
    (h : ∀ l ∈ ls, l.headD "" ≠ "PHASE" ∧ l.headD "" ≠ "END_PHASE") :
    ls.foldl pickStep (true, acc) = (true, acc ++ ls.filterMap pickOf) := by
  induction ls generalizing acc with
  | nil => simp
  | cons l ls ih =>
    have hl := h l List.mem_cons_self
    rw [List.foldl_cons, pickStep_inside acc l hl.1 hl.2, ih _ (fun u hu => h u (List.mem_cons_of_mem _ hu))]
    cases hp : pickOf l <;> simp [hp]

end Csv
end MTfitVerif
