import MTfitVerif.Model.Polarity
import MTfitVerif.Real.LogPSem
import Mathlib.Topology.Order.Basic
import Mathlib.Topology.Algebra.Order.Field
/-
  Helper lemmas for C02 (polarity likelihoods) over ℝ.
-/
namespace MTfitVerif
namespace Polarity
open LogP Real Filter Topology

/-! ### `sigmaFix` -/

theorem sigmaFix_eq (σ : ℝ) : sigmaFix σ = if σ = 0 then (1e-24 : ℝ) else σ := by
  unfold sigmaFix
  simp only [flt_eqb, flt_c, Nat.cast_zero, decide_eq_true_eq, flt_sci]

theorem sigmaFix_zero : sigmaFix (0 : ℝ) = 1e-24 := by
  rw [sigmaFix_eq]; simp

theorem sigmaFix_of_ne {σ : ℝ} (h : σ ≠ 0) : sigmaFix σ = σ := by
  rw [sigmaFix_eq]; simp [h]

theorem small_pos : (0 : ℝ) < 1e-24 := by norm_num

theorem sigmaFix_ne_zero (σ : ℝ) : sigmaFix σ ≠ 0 := by
  rw [sigmaFix_eq]
  split
  · exact small_pos.ne'
  · assumption

theorem sigmaFix_pos' {σ : ℝ} (hσ : 0 ≤ σ) : 0 < sigmaFix σ := by
  rw [sigmaFix_eq]
  split
  · exact small_pos
  · rename_i h; exact lt_of_le_of_ne hσ (Ne.symm h)

/-! ### `polProbRaw` -/

theorem polProbRaw_eq (A σ w : ℝ) :
    polProbRaw A σ w
      = (1/2) * (1 + erf (A / (√2 * σ))) * (1 - w) + (1/2) * (1 + erf (-A / (√2 * σ))) * w := by
  unfold polProbRaw
  simp only [flt_half, flt_c, flt_erf, flt_sqrt, Nat.cast_one, Nat.cast_ofNat]

/-- affine form in the single quantity `e = erf (A / (√2 σ))` -/
theorem polProbRaw_eq_affine (A σ w : ℝ) :
    polProbRaw A σ w = w + (1/2) * (1 + erf (A / (√2 * σ))) * (1 - 2 * w) := by
  rw [polProbRaw_eq, neg_div, erf_neg]; ring

theorem polProbRaw_pos (A σ : ℝ) {w : ℝ} (hw0 : 0 ≤ w) (hw1 : w ≤ 1) : 0 < polProbRaw A σ w := by
  rw [polProbRaw_eq]
  have h1 := neg_one_lt_erf (A / (√2 * σ))
  have h2 := neg_one_lt_erf (-A / (√2 * σ))
  rcases eq_or_lt_of_le hw0 with h | h
  · subst h; simp; linarith
  · have : 0 < 1 / 2 * (1 + erf (-A / (√2 * σ))) * w := by
      apply mul_pos _ h; linarith
    have : 0 ≤ 1 / 2 * (1 + erf (A / (√2 * σ))) * (1 - w) := by
      apply mul_nonneg _ (by linarith); linarith
    linarith

theorem polProbRaw_le_one (A σ : ℝ) {w : ℝ} (hw0 : 0 ≤ w) (hw1 : w ≤ 1) : polProbRaw A σ w ≤ 1 := by
  rw [polProbRaw_eq_affine]
  have h1 := neg_one_lt_erf (A / (√2 * σ))
  have h2 := erf_lt_one (A / (√2 * σ))
  nlinarith

theorem polProbRaw_compl (A σ w : ℝ) : polProbRaw A σ w + polProbRaw (-A) σ w = 1 := by
  rw [polProbRaw_eq_affine, polProbRaw_eq_affine, neg_div, erf_neg]; ring

theorem sqrt2_mul_pos {σ : ℝ} (hσ : 0 < σ) : 0 < √2 * σ := by positivity

theorem erfArg_strictMono {σ : ℝ} (hσ : 0 < σ) : StrictMono fun A : ℝ => erf (A / (√2 * σ)) := by
  intro a b hab
  exact erf_strictMono (div_lt_div_of_pos_right hab (sqrt2_mul_pos hσ))

theorem polProbRaw_strictMono {σ w : ℝ} (hσ : 0 < σ) (hw : w < 1/2) :
    StrictMono fun A => polProbRaw A σ w := by
  intro a b hab
  simp only [polProbRaw_eq_affine]
  have : erf (a / (√2 * σ)) < erf (b / (√2 * σ)) := erfArg_strictMono hσ hab
  nlinarith

theorem polProbRaw_mono {σ w : ℝ} (hσ : 0 < σ) (hw : w ≤ 1/2) :
    Monotone fun A => polProbRaw A σ w := by
  intro a b hab
  simp only [polProbRaw_eq_affine]
  have : erf (a / (√2 * σ)) ≤ erf (b / (√2 * σ)) := (erfArg_strictMono hσ).monotone hab
  nlinarith

theorem polProbRaw_antitone {σ w : ℝ} (hσ : 0 < σ) (hw : 1/2 ≤ w) :
    Antitone fun A => polProbRaw A σ w := by
  intro a b hab
  simp only [polProbRaw_eq_affine]
  have : erf (a / (√2 * σ)) ≤ erf (b / (√2 * σ)) := (erfArg_strictMono hσ).monotone hab
  nlinarith

theorem polProbRaw_half (A σ : ℝ) : polProbRaw A σ (1/2) = 1/2 := by
  rw [polProbRaw_eq_affine]; ring

/-! ### the limit `σ → 0⁺` -/

theorem tendsto_arg_atTop {A : ℝ} (hA : 0 < A) :
    Tendsto (fun σ : ℝ => A / (√2 * σ)) (𝓝[>] 0) atTop := by
  have h1 : Tendsto (fun σ : ℝ => σ⁻¹) (𝓝[>] 0) atTop := tendsto_inv_nhdsGT_zero
  have h2 : Tendsto (fun σ : ℝ => (A / √2) * σ⁻¹) (𝓝[>] 0) atTop :=
    h1.const_mul_atTop (by positivity)
  refine h2.congr (fun σ => ?_)
  rw [div_mul_eq_div_div, div_eq_mul_inv (A / √2)]

theorem tendsto_arg_atBot {A : ℝ} (hA : A < 0) :
    Tendsto (fun σ : ℝ => A / (√2 * σ)) (𝓝[>] 0) atBot := by
  have h := tendsto_neg_atTop_atBot.comp (tendsto_arg_atTop (neg_pos.mpr hA))
  refine h.congr (fun σ => ?_)
  simp [neg_div]

theorem tendsto_erfArg (A : ℝ) :
    Tendsto (fun σ : ℝ => erf (A / (√2 * σ))) (𝓝[>] 0)
      (𝓝 (if 0 < A then 1 else if A < 0 then -1 else 0)) := by
  rcases lt_trichotomy 0 A with h | h | h
  · simp only [h, if_true]
    exact erf_tendsto_atTop.comp (tendsto_arg_atTop h)
  · subst h; simp
  · simp only [not_lt.mpr h.le, h, if_true, if_false]
    exact erf_tendsto_atBot.comp (tendsto_arg_atBot h)

theorem polProbRaw_tendsto (A w : ℝ) :
    Tendsto (fun σ : ℝ => polProbRaw A σ w) (𝓝[>] 0)
      (𝓝 (if 0 < A then 1 - w else if A < 0 then w else 1/2)) := by
  simp only [polProbRaw_eq_affine]
  have h := ((((tendsto_erfArg A).const_add 1).const_mul (1/2)).mul_const (1 - 2 * w)).const_add w
  convert h using 2
  split_ifs <;> ring

/-! ### `heav`, `polProbP` -/

theorem heav_eq (x : ℝ) : heav x = if x < 0 then 0 else if 0 < x then 1 else 1/2 := by
  unfold heav
  simp only [flt_ltb, flt_c, flt_half, Nat.cast_zero, Nat.cast_one, decide_eq_true_eq]

theorem heav_pos {x : ℝ} (h : 0 < x) : heav x = 1 := by
  rw [heav_eq]; simp [h, not_lt.mpr h.le]

theorem heav_neg {x : ℝ} (h : x < 0) : heav x = 0 := by
  rw [heav_eq]; simp [h]

theorem heav_zero : heav (0 : ℝ) = 1/2 := by
  rw [heav_eq]; simp

theorem polProbP_eq (A pp pn w : ℝ) :
    polProbP A pp pn w
      = (heav A * pp + heav (-A) * pn) * (1 - w) + (heav A * pn + heav (-A) * pp) * w := by
  unfold polProbP
  simp only [flt_c, Nat.cast_one]

theorem polProbP_pos {A : ℝ} (hA : 0 < A) (pp pn w : ℝ) :
    polProbP A pp pn w = pp * (1 - w) + pn * w := by
  rw [polProbP_eq, heav_pos hA, heav_neg (neg_neg_of_pos hA)]; ring

theorem polProbP_neg {A : ℝ} (hA : A < 0) (pp pn w : ℝ) :
    polProbP A pp pn w = pn * (1 - w) + pp * w := by
  rw [polProbP_eq, heav_neg hA, heav_pos (neg_pos.mpr hA)]; ring

theorem polProbP_zero (pp pn w : ℝ) : polProbP 0 pp pn w = (pp + pn) / 2 := by
  rw [polProbP_eq, neg_zero, heav_zero]; ring

theorem polProbP_bounds (A : ℝ) {pp pn w : ℝ} (hpp : 0 ≤ pp ∧ pp ≤ 1) (hpn : 0 ≤ pn ∧ pn ≤ 1)
    (hw : 0 ≤ w ∧ w ≤ 1) : 0 ≤ polProbP A pp pn w ∧ polProbP A pp pn w ≤ 1 := by
  obtain ⟨hp0, hp1⟩ := hpp
  obtain ⟨hn0, hn1⟩ := hpn
  obtain ⟨hw0, hw1⟩ := hw
  have hw' : 0 ≤ 1 - w := by linarith
  rcases lt_trichotomy 0 A with h | h | h
  · rw [polProbP_pos h]
    constructor
    · positivity
    · nlinarith
  · subst h; rw [polProbP_zero]; constructor <;> linarith
  · rw [polProbP_neg h]
    constructor
    · positivity
    · nlinarith

end Polarity
end MTfitVerif
