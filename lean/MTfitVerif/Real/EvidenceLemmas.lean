import MTfitVerif.Model.Evidence
import MTfitVerif.Real.LogDomainLemmas
import Mathlib.Algebra.BigOperators.Ring.List
import Mathlib.Analysis.SpecialFunctions.Log.Basic
/- helper lemmas for C10: evidence, softmax model probabilities, Kullback-Leibler estimates -/
namespace MTfitVerif
namespace Evidence
open LogP Real

/-! ### `expSum`, `fins`, `maxFin` -/

theorem expSum_eq (m : ℝ) (l : List (LogP ℝ)) :
    expSum m l = Real.exp (-m) * (l.map toProb).sum := by
  induction l with
  | nil => simp [expSum]
  | cons x xs ih =>
    cases x with
    | negInf => simp [expSum, ih]
    | fin v =>
      simp only [expSum, flt_exp, ih, List.map_cons, toProb_fin, List.sum_cons]
      rw [sub_eq_add_neg, Real.exp_add]; ring

theorem expSum_pos {l : List (LogP ℝ)} {m : ℝ} (k : ℝ) (h : maxFin l = some m) :
    0 < expSum k l := by
  rw [expSum_eq]
  exact mul_pos (Real.exp_pos _) (LogDomain.sum_toProb_pos h)

theorem expSum_shift (m k : ℝ) (l : List (LogP ℝ)) :
    expSum (m + k) (l.map (shift · k)) = expSum m l := by
  induction l with
  | nil => simp [expSum]
  | cons x xs ih =>
    cases x with
    | negInf => simpa [expSum] using ih
    | fin v =>
      simp only [List.map_cons, shift_fin, expSum, ih]
      congr 2; ring

theorem mem_fins {v : ℝ} {l : List (LogP ℝ)} : v ∈ fins l ↔ fin v ∈ l := by
  induction l with
  | nil => simp [fins]
  | cons x xs ih => cases x <;> simp [fins, ih]

theorem sum_toProb_eq_fins (l : List (LogP ℝ)) :
    (l.map toProb).sum = ((fins l).map Real.exp).sum := by
  induction l with
  | nil => simp [fins]
  | cons x xs ih => cases x <;> simp [fins, ih]

theorem expSum_eq_fins (m : ℝ) (l : List (LogP ℝ)) :
    expSum m l = ((fins l).map (fun x => Real.exp (x - m))).sum := by
  induction l with
  | nil => simp [fins, expSum]
  | cons x xs ih => cases x <;> simp [fins, expSum, ih]

theorem maxFin_eq_none_iff_fins (l : List (LogP ℝ)) : maxFin l = none ↔ fins l = [] := by
  induction l with
  | nil => simp [maxFin, fins]
  | cons x xs ih =>
    cases x with
    | negInf => simp [maxFin, fins, ih]
    | fin v => cases h : maxFin xs <;> simp [maxFin, fins, h]

theorem exists_maxFin_of_fins_ne_nil {l : List (LogP ℝ)} (h : fins l ≠ []) :
    ∃ m, maxFin l = some m := by
  cases hm : maxFin l with
  | none => exact absurd ((maxFin_eq_none_iff_fins l).mp hm) h
  | some m => exact ⟨m, rfl⟩

theorem maxFin_eq_some_iff (l : List (LogP ℝ)) (m : ℝ) :
    maxFin l = some m ↔ fin m ∈ l ∧ ∀ v, fin v ∈ l → v ≤ m := by
  constructor
  · intro h; exact ⟨maxFin_mem h, maxFin_ge h⟩
  · rintro ⟨hmem, hge⟩
    cases hm : maxFin l with
    | none => have := (maxFin_eq_none_iff l).mp hm _ hmem; cases this
    | some m' =>
      have h1 := maxFin_ge hm m hmem
      have h2 := hge m' (maxFin_mem hm)
      rw [le_antisymm h2 h1]

theorem maxFin_perm {l₁ l₂ : List (LogP ℝ)} (h : l₁.Perm l₂) : maxFin l₁ = maxFin l₂ := by
  cases hm : maxFin l₁ with
  | none =>
    symm; rw [maxFin_eq_none_iff]
    intro x hx; exact (maxFin_eq_none_iff l₁).mp hm x (h.mem_iff.mpr hx)
  | some m =>
    symm; rw [maxFin_eq_some_iff]
    obtain ⟨h1, h2⟩ := (maxFin_eq_some_iff l₁ m).mp hm
    exact ⟨h.mem_iff.mp h1, fun v hv => h2 v (h.mem_iff.mpr hv)⟩

theorem expSum_perm {l₁ l₂ : List (LogP ℝ)} (h : l₁.Perm l₂) (m : ℝ) :
    expSum m l₁ = expSum m l₂ := by
  rw [expSum_eq, expSum_eq, (h.map toProb).sum_eq]

/-! ### softmax -/

theorem sum_exp_sub (m : ℝ) (es : List ℝ) :
    (es.map (fun e => Real.exp (e - m))).sum = Real.exp (-m) * (es.map Real.exp).sum := by
  rw [← List.sum_map_mul_left]
  congr 1
  apply List.map_congr_left
  intro e _
  rw [sub_eq_add_neg, Real.exp_add, mul_comm]

theorem softmax_shift (m e : ℝ) (es : List ℝ) :
    Real.exp (e - m) / (es.map (fun e => Real.exp (e - m))).sum
      = Real.exp e / (es.map Real.exp).sum := by
  rw [sum_exp_sub, sub_eq_add_neg, Real.exp_add, mul_comm (Real.exp e)]
  exact mul_div_mul_left _ _ (Real.exp_pos _).ne'

theorem sum_exp_pos {es : List ℝ} (h : es ≠ []) : 0 < (es.map Real.exp).sum := by
  cases es with
  | nil => exact absurd rfl h
  | cons e es' =>
    have h1 : Real.exp e ≤ ((e :: es').map Real.exp).sum :=
      List.single_le_sum (fun x hx => by
        obtain ⟨y, _, rfl⟩ := List.mem_map.mp hx; exact (Real.exp_pos y).le) _
        (List.mem_map.mpr ⟨e, List.mem_cons_self, rfl⟩)
    exact lt_of_lt_of_le (Real.exp_pos e) h1

theorem modelProbabilities_eq (es : List ℝ) :
    modelProbabilities es = es.map (fun e => Real.exp e / (es.map Real.exp).sum) := by
  simp only [modelProbabilities, sumL_eq, flt_exp, List.map_map]
  apply List.map_congr_left
  intro e _
  exact softmax_shift _ e es

theorem softmax_sum_one {es : List ℝ} (h : es ≠ []) :
    (es.map (fun e => Real.exp e / (es.map Real.exp).sum)).sum = 1 := by
  have hpos := sum_exp_pos h
  simp only [div_eq_mul_inv]
  rw [List.sum_map_mul_right]
  exact mul_inv_cancel₀ hpos.ne'

/-! ### `dklEstimate` -/

theorem sum_exp_sub_pos (m : ℝ) {xs : List ℝ} (hne : xs ≠ []) :
    0 < (xs.map (fun x => Real.exp (x - m))).sum := by
  rw [sum_exp_sub]; exact mul_pos (Real.exp_pos _) (sum_exp_pos hne)

theorem dklEstimate_pointwise {S V N : ℝ} (hS : 0 < S) (hV : 0 < V) (hN : 0 < N) (a m : ℝ) :
    ((a - m - Real.log (S * (V / N))) * (Real.exp (a - m) / (S * (V / N)))
        + Real.exp (a - m) / (S * (V / N)) * Real.log V) * (V / N)
      = (Real.exp (a - m) / S) * Real.log (Real.exp (a - m) / S)
        + Real.log N * (Real.exp (a - m) / S) := by
  have hE := Real.exp_pos (a - m)
  rw [Real.log_div hE.ne' hS.ne', Real.log_exp, Real.log_mul hS.ne' (div_pos hV hN).ne',
    Real.log_div hV.ne' hN.ne']
  field_simp
  ring

theorem dklEstimate_eq_aux {xs : List ℝ} (hne : xs ≠ []) (m : ℝ) {V N : ℝ}
    (hV : 0 < V) (hN : 0 < N) :
    (xs.map (fun a =>
        (a - m - Real.log ((xs.map (fun x => Real.exp (x - m))).sum * (V / N)))
            * (Real.exp (a - m) / ((xs.map (fun x => Real.exp (x - m))).sum * (V / N)))
          + Real.exp (a - m) / ((xs.map (fun x => Real.exp (x - m))).sum * (V / N))
            * Real.log V)).sum * (V / N)
      = Real.log N
        + ((xs.map (fun x => Real.exp x / (xs.map Real.exp).sum)).map
            (fun w => w * Real.log w)).sum := by
  have hS := sum_exp_sub_pos m hne
  rw [← List.sum_map_mul_right, List.map_map]
  have key : ∀ a ∈ xs,
      ((a - m - Real.log ((xs.map (fun x => Real.exp (x - m))).sum * (V / N)))
            * (Real.exp (a - m) / ((xs.map (fun x => Real.exp (x - m))).sum * (V / N)))
          + Real.exp (a - m) / ((xs.map (fun x => Real.exp (x - m))).sum * (V / N))
            * Real.log V) * (V / N)
        = (fun w => w * Real.log w) (Real.exp a / (xs.map Real.exp).sum)
          + Real.log N * (Real.exp a / (xs.map Real.exp).sum) := by
    intro a _
    rw [dklEstimate_pointwise hS hV hN, softmax_shift]
  rw [List.map_congr_left key, List.sum_map_add, List.sum_map_mul_left, softmax_sum_one hne]
  simp only [Function.comp_def]
  ring

theorem softmax_mem_pos_le_one {xs : List ℝ} {w : ℝ}
    (hw : w ∈ xs.map (fun x => Real.exp x / (xs.map Real.exp).sum)) : 0 < w ∧ w ≤ 1 := by
  obtain ⟨x, hx, rfl⟩ := List.mem_map.mp hw
  have hpos := sum_exp_pos (List.ne_nil_of_mem hx)
  refine ⟨div_pos (Real.exp_pos x) hpos, ?_⟩
  rw [div_le_one hpos]
  exact List.single_le_sum (fun y hy => by
    obtain ⟨z, _, rfl⟩ := List.mem_map.mp hy; exact (Real.exp_pos z).le) _
    (List.mem_map.mpr ⟨x, hx, rfl⟩)

theorem sum_mul_log_nonpos (ws : List ℝ) (h : ∀ w ∈ ws, 0 < w ∧ w ≤ 1) :
    (ws.map (fun w => w * Real.log w)).sum ≤ 0 := by
  induction ws with
  | nil => simp
  | cons w ws ih =>
    obtain ⟨h0, h1⟩ := h w List.mem_cons_self
    have := ih (fun v hv => h v (List.mem_cons_of_mem _ hv))
    have hw : w * Real.log w ≤ 0 :=
      mul_nonpos_of_nonneg_of_nonpos h0.le (Real.log_nonpos h0.le h1)
    simp only [List.map_cons, List.sum_cons]
    linarith

/-- Gibbs' inequality against the uniform distribution on `N` points, in unnormalised form. -/
theorem gibbs_uniform {N : ℝ} (hN : 0 < N) (ws : List ℝ) (hpos : ∀ w ∈ ws, 0 < w) :
    ws.sum - ws.length / N ≤ (ws.map (fun w => w * Real.log w)).sum + Real.log N * ws.sum := by
  induction ws with
  | nil => simp
  | cons w ws ih =>
    have hw := hpos w List.mem_cons_self
    have ih' := ih (fun v hv => hpos v (List.mem_cons_of_mem _ hv))
    have h := Real.log_le_sub_one_of_pos (x := (N * w)⁻¹) (by positivity)
    rw [Real.log_inv, Real.log_mul hN.ne' hw.ne'] at h
    have h2 := mul_le_mul_of_nonneg_left h hw.le
    have h3 : w * ((N * w)⁻¹ - 1) = 1 / N - w := by field_simp
    rw [h3] at h2
    simp only [List.map_cons, List.sum_cons, List.length_cons, Nat.cast_add, Nat.cast_one,
      add_div]
    linarith

/-! ### `dkl` -/

/-- one summand of `dkl` with the shifts and normalisations as parameters -/
noncomputable def dklTerm (mp mq np nq : ℝ) : LogP ℝ × LogP ℝ → Option ℝ
  | (negInf, _) => some 0
  | (fin _, negInf) => none
  | (fin p, fin q) =>
    some ((p - mp - Real.log np) * (Real.exp (p - mp) / np)
      - (q - mq - Real.log nq) * (Real.exp (p - mp) / np))

@[simp] theorem dklTerm_negInf (mp mq np nq : ℝ) (b : LogP ℝ) :
    dklTerm mp mq np nq (negInf, b) = some 0 := rfl
@[simp] theorem dklTerm_fin_negInf (mp mq np nq p : ℝ) :
    dklTerm mp mq np nq (fin p, negInf) = none := rfl
@[simp] theorem dklTerm_fin_fin (mp mq np nq p q : ℝ) :
    dklTerm mp mq np nq (fin p, fin q)
      = some ((p - mp - Real.log np) * (Real.exp (p - mp) / np)
        - (q - mq - Real.log nq) * (Real.exp (p - mp) / np)) := rfl

theorem dkl_eq_of_maxFin {pq : List (LogP ℝ × LogP ℝ)} {mp mq : ℝ} (dV : ℝ)
    (hp : maxFin (pq.map (·.1)) = some mp) (hq : maxFin (pq.map (·.2)) = some mq) :
    dkl pq dV = (pq.mapM (dklTerm mp mq (expSum mp (pq.map (·.1)) * dV)
      (expSum mq (pq.map (·.2)) * dV))).map (fun ts => ts.sum * dV) := by
  unfold dkl
  simp only [hp, hq]
  congr 1
  · funext ts; rw [sumL_eq]
  · congr 1
    funext x
    rcases x with ⟨_ | p, _ | q⟩ <;> first | rfl | simp [dklTerm]

theorem dkl_some_maxFin {pq : List (LogP ℝ × LogP ℝ)} {dV d : ℝ} (h : dkl pq dV = some d) :
    ∃ mp mq, maxFin (pq.map (·.1)) = some mp ∧ maxFin (pq.map (·.2)) = some mq := by
  unfold dkl at h
  cases hp : maxFin (pq.map (·.1)) with
  | none => simp [hp] at h
  | some mp =>
    cases hq : maxFin (pq.map (·.2)) with
    | none => simp [hp, hq] at h
    | some mq => exact ⟨mp, mq, rfl, rfl⟩

theorem kl_term_ge {P Q : ℝ} (hP : 0 < P) (hQ : 0 < Q) :
    P - Q ≤ Real.log P * P - Real.log Q * P := by
  have h := Real.log_le_sub_one_of_pos (div_pos hQ hP)
  rw [Real.log_div hQ.ne' hP.ne'] at h
  have h2 := mul_le_mul_of_nonneg_left h hP.le
  have h3 : P * (Q / P - 1) = Q - P := by field_simp
  rw [h3] at h2
  linarith

theorem expSum_nonneg (m : ℝ) (l : List (LogP ℝ)) : 0 ≤ expSum m l := by
  rw [expSum_eq]
  exact mul_nonneg (Real.exp_pos _).le (List.sum_nonneg (fun x hx => by
    obtain ⟨y, _, rfl⟩ := List.mem_map.mp hx; exact toProb_nonneg y))

theorem dklTerm_sum_ge {mp mq np nq : ℝ} (hnp : 0 < np) (hnq : 0 < nq) :
    ∀ (pq : List (LogP ℝ × LogP ℝ)) (ts : List ℝ),
      pq.mapM (dklTerm mp mq np nq) = some ts →
      expSum mp (pq.map (·.1)) / np - expSum mq (pq.map (·.2)) / nq ≤ ts.sum := by
  intro pq
  induction pq with
  | nil =>
    intro ts h
    simp only [List.mapM_nil, Option.pure_def, Option.some.injEq] at h
    subst h; simp [expSum]
  | cons x xs ih =>
    intro ts h
    rw [List.mapM_cons] at h
    rcases x with ⟨_ | p, _ | q⟩
    · simp only [dklTerm_negInf, Option.bind_eq_bind, Option.bind_some, Option.pure_def,
        Option.bind_eq_some_iff, Option.some.injEq] at h
      obtain ⟨ts', hts', rfl⟩ := h
      have := ih ts' hts'
      simpa [expSum] using this
    · simp only [dklTerm_negInf, Option.bind_eq_bind, Option.bind_some, Option.pure_def,
        Option.bind_eq_some_iff, Option.some.injEq] at h
      obtain ⟨ts', hts', rfl⟩ := h
      have := ih ts' hts'
      have hq : 0 ≤ Real.exp (q - mq) / nq := (div_pos (Real.exp_pos _) hnq).le
      simp only [List.map_cons, expSum, List.sum_cons, zero_add, flt_exp, add_div]
      linarith
    · simp at h
    · simp only [dklTerm_fin_fin, Option.bind_eq_bind, Option.bind_some, Option.pure_def,
        Option.bind_eq_some_iff, Option.some.injEq] at h
      obtain ⟨ts', hts', rfl⟩ := h
      have := ih ts' hts'
      have hP : 0 < Real.exp (p - mp) / np := div_pos (Real.exp_pos _) hnp
      have hQ : 0 < Real.exp (q - mq) / nq := div_pos (Real.exp_pos _) hnq
      have hk := kl_term_ge hP hQ
      rw [Real.log_div (Real.exp_pos _).ne' hnp.ne', Real.log_div (Real.exp_pos _).ne' hnq.ne',
        Real.log_exp, Real.log_exp] at hk
      simp only [List.map_cons, expSum, List.sum_cons, flt_exp, add_div]
      linarith

theorem dklTerm_self (m n : ℝ) (p : List (LogP ℝ)) :
    (p.map (fun x => (x, x))).mapM (dklTerm m m n n) = some (p.map (fun _ => (0 : ℝ))) := by
  induction p with
  | nil => simp
  | cons x xs ih =>
    rw [List.map_cons, List.mapM_cons, ih]
    cases x with
    | negInf => simp
    | fin v => simp

end Evidence
end MTfitVerif
