import MTfitVerif.Model.Proposal
import MTfitVerif.Real.Inst
import MTfitVerif.Real.ProposalLemmas
import MTfitVerif.Real.AcceptanceLemmas
import Mathlib.MeasureTheory.Constructions.Pi
import Mathlib.Analysis.SpecificLimits.Basic
import Mathlib.Probability.Distributions.Gaussian.Real
import Mathlib.MeasureTheory.Integral.IntervalIntegral.Basic
/-
  Helper lemmas for the measure-theoretic half of C06: the law of the value returned by the
  redraw-until-in-range loop `firstOk` when the stream consists of `n` independent draws with
  law `ν` (product measure on `Fin n → ℝ`), the geometric-series limit, and the link between the
  model's `gaussPdf` / `gaussCdf` and Mathlib's `gaussianReal`.
-/
namespace MTfitVerif.Proposal
open MTfitVerif Acceptance MeasureTheory Set

/-! ### `firstOk` on a cons / on an exhausted stream -/

theorem firstOk_cons_of_ok (ok : ℝ → Bool) (m s z : ℝ) (zs : List ℝ) (h : ok (m + s * z) = true) :
    firstOk ok m s (z :: zs) = some (m + s * z, zs) := by
  rw [firstOk, if_pos h]

theorem firstOk_cons_of_not (ok : ℝ → Bool) (m s z : ℝ) (zs : List ℝ) (h : ¬ ok (m + s * z) = true) :
    firstOk ok m s (z :: zs) = firstOk ok m s zs := by
  rw [firstOk, if_neg h]

theorem firstOk_eq_none_iff (ok : ℝ → Bool) (m s : ℝ) (zs : List ℝ) :
    firstOk ok m s zs = none ↔ ∀ z ∈ zs, ¬ ok (m + s * z) = true := by
  induction zs with
  | nil => simp [firstOk]
  | cons z zs ih =>
    by_cases h : ok (m + s * z) = true
    · rw [firstOk_cons_of_ok ok m s z zs h]
      simp only [reduceCtorEq, List.mem_cons, forall_eq_or_imp, false_iff, not_and]
      intro h'; exact absurd h h'
    · rw [firstOk_cons_of_not ok m s z zs h, ih]
      simp only [List.mem_cons, forall_eq_or_imp]
      exact ⟨fun h' => ⟨h, h'⟩, fun h' => h'.2⟩

/-! ### the events -/

/-- the draws `z` whose candidate `m + s·z` is in range -/
def okSet (ok : ℝ → Bool) (m s : ℝ) : Set ℝ := {z | ok (m + s * z) = true}

/-- the streams of `n` draws for which the loop returns a value in `A` -/
def hit (ok : ℝ → Bool) (m s : ℝ) (n : ℕ) (A : Set ℝ) : Set (Fin n → ℝ) :=
  {ω | ∃ v rest, firstOk ok m s (List.ofFn ω) = some (v, rest) ∧ v ∈ A}

theorem hit_zero (ok : ℝ → Bool) (m s : ℝ) (A : Set ℝ) : hit ok m s 0 A = ∅ := by
  ext ω
  simp [hit, firstOk]

theorem mem_hit_succ (ok : ℝ → Bool) (m s : ℝ) (n : ℕ) (A : Set ℝ) (ω : Fin (n + 1) → ℝ) :
    ω ∈ hit ok m s (n + 1) A ↔
      (ω 0 ∈ okSet ok m s ∧ m + s * ω 0 ∈ A) ∨
      (ω 0 ∉ okSet ok m s ∧ (fun i : Fin n => ω i.succ) ∈ hit ok m s n A) := by
  simp only [hit, okSet, mem_ofPred_eq, List.ofFn_succ]
  by_cases h : ok (m + s * ω 0) = true
  · rw [firstOk_cons_of_ok ok m s _ _ h]
    simp only [Option.some.injEq, Prod.mk.injEq, h, true_and, not_true_eq_false, false_and, or_false]
    constructor
    · rintro ⟨v, rest, ⟨rfl, -⟩, hv⟩; exact hv
    · intro hv; exact ⟨_, _, ⟨rfl, rfl⟩, hv⟩
  · rw [firstOk_cons_of_not ok m s _ _ h]
    simp [h]

theorem exhausted_eq_pi (ok : ℝ → Bool) (m s : ℝ) (n : ℕ) :
    {ω : Fin n → ℝ | firstOk ok m s (List.ofFn ω) = none} =
      Set.pi Set.univ (fun _ : Fin n => (okSet ok m s)ᶜ) := by
  ext ω
  simp only [mem_ofPred_eq, firstOk_eq_none_iff, List.forall_mem_ofFn_iff, Set.mem_pi, mem_univ,
    forall_true_left, mem_compl_iff, okSet]

/-! ### the law for `n` independent draws -/

variable (ν : Measure ℝ) [IsProbabilityMeasure ν]

theorem hit_succ_measure (ok : ℝ → Bool) (m s : ℝ) (hS : MeasurableSet (okSet ok m s)) (n : ℕ)
    (A : Set ℝ) :
    Measure.pi (fun _ : Fin (n + 1) => ν) (hit ok m s (n + 1) A) =
      ν (okSet ok m s ∩ (fun z => m + s * z) ⁻¹' A) +
        ν (okSet ok m s)ᶜ * Measure.pi (fun _ : Fin n => ν) (hit ok m s n A) := by
  set S := okSet ok m s with hSdef
  set T : Set (ℝ × (Fin n → ℝ)) :=
    (S ∩ (fun z => m + s * z) ⁻¹' A) ×ˢ (univ : Set (Fin n → ℝ)) ∪ Sᶜ ×ˢ hit ok m s n A with hT
  have hpre : hit ok m s (n + 1) A = (MeasurableEquiv.piFinSuccAbove (fun _ => ℝ) 0) ⁻¹' T := by
    ext ω
    rw [mem_hit_succ]
    simp only [hT, mem_preimage, mem_union, mem_prod, mem_inter_iff, mem_univ, and_true,
      mem_compl_iff, MeasurableEquiv.piFinSuccAbove_apply, Fin.insertNthEquiv_zero,
      Fin.consEquiv_symm_apply]
    rfl
  have hmp := measurePreserving_piFinSuccAbove (fun _ : Fin (n + 1) => ν) 0
  rw [hpre, hmp.measure_preimage_equiv T]
  have hsplit := measure_inter_add_sdiff (μ := ν.prod (Measure.pi fun _ : Fin n => ν)) T
    (hS.prod (MeasurableSet.univ : MeasurableSet (univ : Set (Fin n → ℝ))))
  have h1 : T ∩ S ×ˢ (univ : Set (Fin n → ℝ)) =
      (S ∩ (fun z => m + s * z) ⁻¹' A) ×ˢ (univ : Set (Fin n → ℝ)) := by
    ext ⟨z, ω⟩
    simp only [hT, mem_inter_iff, mem_union, mem_prod, mem_preimage, mem_univ, and_true,
      mem_compl_iff]
    tauto
  have h2 : T \ S ×ˢ (univ : Set (Fin n → ℝ)) = Sᶜ ×ˢ hit ok m s n A := by
    ext ⟨z, ω⟩
    simp only [hT, mem_sdiff, mem_inter_iff, mem_union, mem_prod, mem_preimage, mem_univ, and_true,
      mem_compl_iff]
    tauto
  rw [h1, h2, Measure.prod_prod, Measure.prod_prod, measure_univ, mul_one] at hsplit
  exact hsplit.symm

theorem hit_measure (ok : ℝ → Bool) (m s : ℝ) (hS : MeasurableSet (okSet ok m s)) (n : ℕ)
    (A : Set ℝ) :
    Measure.pi (fun _ : Fin n => ν) (hit ok m s n A) =
      (∑ k ∈ Finset.range n, ν (okSet ok m s)ᶜ ^ k) *
        ν (okSet ok m s ∩ (fun z => m + s * z) ⁻¹' A) := by
  induction n with
  | zero => simp [hit_zero]
  | succ n ih =>
    have hsum : ∑ k ∈ Finset.range n, ν (okSet ok m s)ᶜ ^ (k + 1) =
        ν (okSet ok m s)ᶜ * ∑ k ∈ Finset.range n, ν (okSet ok m s)ᶜ ^ k := by
      rw [Finset.mul_sum]
      exact Finset.sum_congr rfl (fun k _ => pow_succ' _ k)
    rw [hit_succ_measure ν ok m s hS n A, ih, Finset.sum_range_succ', hsum, pow_zero]
    ring

theorem exhausted_measure (ok : ℝ → Bool) (m s : ℝ) (n : ℕ) :
    Measure.pi (fun _ : Fin n => ν) {ω | firstOk ok m s (List.ofFn ω) = none} =
      ν (okSet ok m s)ᶜ ^ n := by
  rw [exhausted_eq_pi, Measure.pi_pi]
  simp

open Filter Topology in
theorem hit_tendsto (ok : ℝ → Bool) (m s : ℝ) (hS : MeasurableSet (okSet ok m s)) (A : Set ℝ) :
    Tendsto (fun n => Measure.pi (fun _ : Fin n => ν) (hit ok m s n A)) atTop
      (𝓝 (ν (okSet ok m s ∩ (fun z => m + s * z) ⁻¹' A) / ν (okSet ok m s))) := by
  simp_rw [hit_measure ν ok m s hS]
  have hgeo : Tendsto (fun n => ∑ k ∈ Finset.range n, ν (okSet ok m s)ᶜ ^ k) atTop
      (𝓝 (ν (okSet ok m s))⁻¹) := by
    have h := ENNReal.tendsto_nat_tsum (fun k => ν (okSet ok m s)ᶜ ^ k)
    have hlim : (1 - ν (okSet ok m s)ᶜ)⁻¹ = (ν (okSet ok m s))⁻¹ := by
      rw [prob_compl_eq_one_sub hS, ENNReal.sub_sub_cancel ENNReal.one_ne_top prob_le_one]
    rw [ENNReal.tsum_geometric, hlim] at h
    exact h
  have := ENNReal.Tendsto.mul_const hgeo
    (Or.inr (measure_ne_top ν (okSet ok m s ∩ (fun z => m + s * z) ⁻¹' A)))
  rw [div_eq_mul_inv, mul_comm]
  exact this

/-! ### the model's Gaussian density / CDF versus Mathlib's `gaussianReal` -/

open ProbabilityTheory Real

/-- the variance `s²` as a nonnegative real -/
noncomputable def sqNN (s : ℝ) : NNReal := NNReal.mk (s ^ 2) (sq_nonneg s)

theorem sqNN_ne_zero {s : ℝ} (hs : 0 < s) : sqNN s ≠ 0 := by
  intro h
  have : ((sqNN s : NNReal) : ℝ) = 0 := by rw [h]; rfl
  have h2 : s ^ 2 = 0 := this
  have : 0 < s ^ 2 := by positivity
  linarith

/-- the model's `gaussPdf` (scipy `norm.pdf`) is Mathlib's Gaussian density of variance `s²` -/
theorem gaussPdf_eq_gaussianPDFReal (x m : ℝ) {s : ℝ} (hs : 0 < s) :
    gaussPdf x m s = gaussianPDFReal m (sqNN s) x := by
  rw [gaussPdf_eq, gaussianPDFReal]
  have hv : ((sqNN s : NNReal) : ℝ) = s ^ 2 := rfl
  rw [hv]
  have h1 : √(2 * π * s ^ 2) = √(2 * π) * s := by
    rw [Real.sqrt_mul (by positivity), Real.sqrt_sq hs.le]
  have h2 : -((x - m) / s * ((x - m) / s)) / 2 = -(x - m) ^ 2 / (2 * s ^ 2) := by
    field_simp
  rw [h1, h2]
  have : 0 < √(2 * π) := by positivity
  field_simp

/-- the law of the candidate `m + s·z` for a standard-normal draw `z` -/
theorem gaussian_map_cand (m s : ℝ) :
    (gaussianReal 0 1).map (fun z => m + s * z) = gaussianReal m (sqNN s) := by
  have h1 : (fun z : ℝ => m + s * z) = (fun y => m + y) ∘ (fun z => s * z) := rfl
  rw [h1, ← Measure.map_map (measurable_const_add m) (measurable_const_mul s),
    gaussianReal_map_const_mul, gaussianReal_map_const_add]
  simp [sqNN]

/-- `∫_{lo}^{hi} gaussPdf = gaussCdf hi − gaussCdf lo`: the model's CDF (written with `erf`) is the
    integral of the model's density -/
theorem integral_gaussPdf (m : ℝ) {s : ℝ} (hs : 0 < s) (lo hi : ℝ) :
    ∫ x in lo..hi, gaussPdf x m s = gaussCdf hi m s - gaussCdf lo m s := by
  have h2 : (0:ℝ) < √2 := by positivity
  have hπ : (0:ℝ) < √π := by positivity
  have hc : s * √2 ≠ 0 := by positivity
  have hpdf : ∀ x, gaussPdf x m s =
      (1 / (√(2 * π) * s)) * (fun t : ℝ => Real.exp (-t ^ 2)) (x / (s * √2) - m / (s * √2)) := by
    intro x
    rw [gaussPdf_eq]
    have : -((x - m) / s * ((x - m) / s)) / 2 = -(x / (s * √2) - m / (s * √2)) ^ 2 := by
      have h22 : √2 ^ 2 = 2 := Real.sq_sqrt (by norm_num)
      field_simp
      rw [h22]
    simp only [this]
    have : 0 < √(2 * π) := by positivity
    field_simp
  have hcv := intervalIntegral.integral_comp_div_sub (a := lo) (b := hi)
    (fun t : ℝ => Real.exp (-t ^ 2)) hc (m / (s * √2))
  simp_rw [hpdf]
  rw [intervalIntegral.integral_const_mul, hcv]
  rw [gaussCdf_eq, gaussCdf_eq]
  unfold erf
  have hsub : (∫ t in (0:ℝ)..(hi - m) / s / √2, Real.exp (-t ^ 2)) -
      ∫ t in (0:ℝ)..(lo - m) / s / √2, Real.exp (-t ^ 2) =
      ∫ t in (lo - m) / s / √2..(hi - m) / s / √2, Real.exp (-t ^ 2) := by
    apply intervalIntegral.integral_interval_sub_left <;>
      exact (Continuous.intervalIntegrable (by fun_prop) _ _)
  have ea : lo / (s * √2) - m / (s * √2) = (lo - m) / s / √2 := by field_simp
  have eb : hi / (s * √2) - m / (s * √2) = (hi - m) / s / √2 := by field_simp
  rw [ea, eb, ← hsub]
  have h2π : √(2 * π) = √2 * √π := Real.sqrt_mul (by norm_num) π
  rw [h2π, smul_eq_mul]
  field_simp
  ring

/-- the Gaussian mass of `[lo, hi]` is the model's truncation normaliser -/
theorem gaussianReal_Icc (m : ℝ) {s : ℝ} (hs : 0 < s) {lo hi : ℝ} (hlh : lo ≤ hi) :
    gaussianReal m (sqNN s) (Set.Icc lo hi) = ENNReal.ofReal (gaussCdf hi m s - gaussCdf lo m s) := by
  rw [gaussianReal_apply_eq_integral m (sqNN_ne_zero hs), integral_Icc_eq_integral_Ioc,
    ← intervalIntegral.integral_of_le hlh, ← integral_gaussPdf m hs lo hi]
  congr 1
  apply intervalIntegral.integral_congr
  intro x _
  exact (gaussPdf_eq_gaussianPDFReal x m hs).symm

/-- Gaussian mass of a measurable part `A` of `[lo, hi]`, divided by the mass of `[lo, hi]`: the
    integral over `A` of the model's truncated-Gaussian term -/
theorem gaussianReal_div_eq_truncTerm (m : ℝ) {s : ℝ} (hs : 0 < s) {lo hi : ℝ} (hlh : lo < hi)
    (A : Set ℝ) :
    gaussianReal m (sqNN s) A / gaussianReal m (sqNN s) (Set.Icc lo hi) =
      ENNReal.ofReal (∫ x in A, truncTerm x m s lo hi) := by
  have hZ : 0 < gaussCdf hi m s - gaussCdf lo m s := sub_pos.mpr (gaussCdf_lt m hs hlh)
  rw [gaussianReal_Icc m hs hlh.le, gaussianReal_apply_eq_integral m (sqNN_ne_zero hs),
    ← ENNReal.ofReal_div_of_pos hZ, ← integral_div]
  congr 1
  refine integral_congr_ae (ae_of_all _ fun x => ?_)
  show gaussianPDFReal m (sqNN s) x / (gaussCdf hi m s - gaussCdf lo m s) = truncTerm x m s lo hi
  rw [truncTerm, gaussPdf_eq_gaussianPDFReal x m hs]

end MTfitVerif.Proposal
