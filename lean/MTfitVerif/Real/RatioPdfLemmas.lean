import MTfitVerif.Model.RatioPdf
import MTfitVerif.Real.LogPSem
/-
  Helper lemmas for C03 (Hinkley ratio density): the model terms at `ℝ` as ordinary Mathlib
  terms, positivity of the coefficient `a`, Cauchy–Schwarz for `b² ≤ a² c`, and the
  `Φ(x) − Φ(−x) = erf(x/√2)` identity.
-/
namespace MTfitVerif.RatioPdf
open MTfitVerif LogP Real

/-! ### model terms at `ℝ` -/

theorem coefA_eq (z σx σy : ℝ) :
    coefA z σx σy = √(z * z / (σx * σx) + 1 / (σy * σy)) := by
  simp [coefA]

theorem coefB_eq (z μx μy σx σy : ℝ) :
    coefB z μx μy σx σy = μx * z / (σx * σx) + μy / (σy * σy) := rfl

theorem coefC_eq (μx μy σx σy : ℝ) :
    coefC μx μy σx σy = μx * μx / (σx * σx) + μy * μy / (σy * σy) := rfl

theorem stdCdf_eq (x : ℝ) : stdCdf x = 1 / 2 * (1 + erf (x / √2)) := by
  simp [stdCdf]

theorem ratioPdf_eq (z μx μy σx σy : ℝ) :
    ratioPdf z μx μy σx σy =
      coefB z μx μy σx σy *
          Real.exp ((coefB z μx μy σx σy * coefB z μx μy σx σy
              - coefC μx μy σx σy * (coefA z σx σy * coefA z σx σy))
            / (2 * (coefA z σx σy * coefA z σx σy)))
          / (√(2 * π) * (σx * σy * (coefA z σx σy * (coefA z σx σy * coefA z σx σy))))
          * (stdCdf (coefB z μx μy σx σy / coefA z σx σy)
              - stdCdf (-coefB z μx μy σx σy / coefA z σx σy))
        + 1 / (π * (σx * σy * (coefA z σx σy * coefA z σx σy)))
          * Real.exp (-coefC μx μy σx σy / 2) := by
  simp [ratioPdf]

/-! ### the coefficient `a` -/

theorem coefA_arg_pos (z : ℝ) {σx σy : ℝ} (hx : 0 < σx) (hy : 0 < σy) :
    0 < z * z / (σx * σx) + 1 / (σy * σy) := by
  have h1 : 0 ≤ z * z / (σx * σx) := div_nonneg (mul_self_nonneg z) (mul_pos hx hx).le
  have h2 : 0 < 1 / (σy * σy) := one_div_pos.mpr (mul_pos hy hy)
  linarith

theorem coefA_pos (z : ℝ) {σx σy : ℝ} (hx : 0 < σx) (hy : 0 < σy) : 0 < coefA z σx σy := by
  rw [coefA_eq]; exact Real.sqrt_pos.mpr (coefA_arg_pos z hx hy)

theorem coefA_mul_self (z : ℝ) {σx σy : ℝ} (hx : 0 < σx) (hy : 0 < σy) :
    coefA z σx σy * coefA z σx σy = z * z / (σx * σx) + 1 / (σy * σy) := by
  rw [coefA_eq]; exact Real.mul_self_sqrt (coefA_arg_pos z hx hy).le

theorem coefA_sq (z : ℝ) {σx σy : ℝ} (hx : 0 < σx) (hy : 0 < σy) :
    coefA z σx σy ^ 2 = z ^ 2 / σx ^ 2 + 1 / σy ^ 2 := by
  rw [pow_two, coefA_mul_self z hx hy]; ring

/-- completing the square with an abstract `a2 = z²/σx² + 1/σy²` -/
theorem complete_square (z μx μy : ℝ) {σx σy : ℝ} (hx : 0 < σx) (hy : 0 < σy) (y : ℝ) :
    (z * y - μx) ^ 2 / σx ^ 2 + (y - μy) ^ 2 / σy ^ 2
      = (z ^ 2 / σx ^ 2 + 1 / σy ^ 2)
          * (y - (μx * z / (σx * σx) + μy / (σy * σy)) / (z ^ 2 / σx ^ 2 + 1 / σy ^ 2)) ^ 2
        + (μx * μx / (σx * σx) + μy * μy / (σy * σy))
        - (μx * z / (σx * σx) + μy / (σy * σy)) ^ 2 / (z ^ 2 / σx ^ 2 + 1 / σy ^ 2) := by
  have hsx : σx ≠ 0 := hx.ne'
  have hsy : σy ≠ 0 := hy.ne'
  have ha : z ^ 2 / σx ^ 2 + 1 / σy ^ 2 ≠ 0 := by
    have : 0 < z ^ 2 / σx ^ 2 + 1 / σy ^ 2 := by positivity
    exact this.ne'
  have ha' : z ^ 2 * σy ^ 2 + σx ^ 2 ≠ 0 := by
    have : 0 < z ^ 2 * σy ^ 2 + σx ^ 2 := by positivity
    exact this.ne'
  field_simp
  ring

/-- Cauchy–Schwarz: `b² ≤ a² c` with the difference an explicit square -/
theorem cauchy_schwarz (z μx μy : ℝ) {σx σy : ℝ} (hx : 0 < σx) (hy : 0 < σy) :
    (μx * z / (σx * σx) + μy / (σy * σy)) * (μx * z / (σx * σx) + μy / (σy * σy))
      ≤ (μx * μx / (σx * σx) + μy * μy / (σy * σy)) * (z * z / (σx * σx) + 1 / (σy * σy)) := by
  have hsx : σx ≠ 0 := hx.ne'
  have hsy : σy ≠ 0 := hy.ne'
  have key : (μx * μx / (σx * σx) + μy * μy / (σy * σy)) * (z * z / (σx * σx) + 1 / (σy * σy))
      - (μx * z / (σx * σx) + μy / (σy * σy)) * (μx * z / (σx * σx) + μy / (σy * σy))
      = (z * μy - μx) ^ 2 / (σx ^ 2 * σy ^ 2) := by
    field_simp
    ring
  have hnn : 0 ≤ (z * μy - μx) ^ 2 / (σx ^ 2 * σy ^ 2) := by positivity
  linarith

/-! ### the standard normal CDF -/

theorem stdCdf_sub_neg (x : ℝ) : stdCdf x - stdCdf (-x) = erf (x / √2) := by
  rw [stdCdf_eq, stdCdf_eq, neg_div, erf_neg]; ring

theorem mul_erf_nonneg (b : ℝ) {k : ℝ} (hk : 0 < k) : 0 ≤ b * erf (b / k) := by
  rcases le_or_gt 0 b with hb | hb
  · exact mul_nonneg hb (erf_nonneg (div_nonneg hb hk.le))
  · have h1 : b / k < 0 := div_neg_of_neg_of_pos hb hk
    have h2 : erf (b / k) < 0 := by
      have := erf_strictMono h1; simpa using this
    exact (mul_pos_of_neg_of_neg hb h2).le

theorem b_cdf_term_nonneg (b : ℝ) {a : ℝ} (ha : 0 < a) :
    0 ≤ b * (stdCdf (b / a) - stdCdf (-b / a)) := by
  rw [neg_div, stdCdf_sub_neg, div_div]
  exact mul_erf_nonneg b (by positivity)

/-! ### `errFix` -/

theorem errFix_pos (p : ℝ) : 0 < errFix p := by
  unfold errFix
  simp only [flt_eqb, flt_c, Nat.cast_zero, decide_eq_true_eq, flt_sci, flt_abs]
  split
  · norm_num
  · rename_i h; exact abs_pos.mpr h

/-! ### `arPdf` -/

theorem arPdf_eq (r μx μy px py : ℝ) :
    arPdf r μx μy px py =
      if μx = 0 ∨ μy = 0 then 0
      else ratioPdf r |μx| |μy| (errFix px * |μx|) (errFix py * |μy|)
          + ratioPdf (-r) |μx| |μy| (errFix px * |μx|) (errFix py * |μy|) := by
  unfold arPdf
  simp only [flt_abs, flt_eqb, flt_c, Nat.cast_zero, Bool.or_eq_true, decide_eq_true_eq,
    abs_eq_zero]

end MTfitVerif.RatioPdf
