import MTfitVerif.Model.Convert
import MTfitVerif.Real.Inst
/-
  Helper lemmas for C12 (six-vector, lune coordinates, Tape parameters).
-/
namespace MTfitVerif.Convert
open MTfitVerif Real

theorem lune_sqrt2_mul_self : (√2 : ℝ) * √2 = 2 := Real.mul_self_sqrt (by norm_num)
theorem lune_sqrt3_mul_self : (√3 : ℝ) * √3 = 3 := Real.mul_self_sqrt (by norm_num)
theorem lune_sqrt6_mul_self : (√6 : ℝ) * √6 = 6 := Real.mul_self_sqrt (by norm_num)
theorem lune_sqrt6_eq : (√6 : ℝ) = √2 * √3 := by
  rw [← Real.sqrt_mul (by norm_num)]; norm_num

/-- six-vector of a tensor before normalisation -/
noncomputable def lune_raw6 (m : Sym3 ℝ) : V6 ℝ := ⟨m.xx, m.yy, m.zz, √2 * m.xy, √2 * m.xz, √2 * m.yz⟩

theorem lune_raw6_norm (m : Sym3 ℝ) :
    (lune_raw6 m).norm = √(m.xx^2 + m.yy^2 + m.zz^2 + 2 * (m.xy^2 + m.xz^2 + m.yz^2)) := by
  simp only [V6.norm, lune_raw6, flt_sqrt]
  congr 1
  linear_combination (m.xy^2 + m.xz^2 + m.yz^2) * lune_sqrt2_mul_self

theorem lune_mt33ToMt6_eq (m : Sym3 ℝ) :
    mt33ToMt6 m = ⟨m.xx / (lune_raw6 m).norm, m.yy / (lune_raw6 m).norm, m.zz / (lune_raw6 m).norm,
      √2 * m.xy / (lune_raw6 m).norm, √2 * m.xz / (lune_raw6 m).norm, √2 * m.yz / (lune_raw6 m).norm⟩ := by
  simp only [mt33ToMt6, lune_raw6, flt_sqrt, flt_c, Nat.cast_ofNat]

theorem lune_mt6ToMt33_eq (v : V6 ℝ) :
    mt6ToMt33 v = ⟨v.a, v.b, v.c, 1 / √2 * v.d, 1 / √2 * v.e, 1 / √2 * v.f⟩ := by
  simp only [mt6ToMt33, flt_sqrt, flt_c, Nat.cast_ofNat, Nat.cast_one]

theorem lune_inv_sqrt2_mul (x : ℝ) : 1 / √2 * (√2 * x) = x := by
  have : (√2 : ℝ) ≠ 0 := by positivity
  field_simp

theorem lune_sqrt2_mul_inv (x : ℝ) : √2 * (1 / √2 * x) = x := by
  have : (√2 : ℝ) ≠ 0 := by positivity
  field_simp

theorem lune_gdToE_x (γ δ : ℝ) :
    (gdToE γ δ).x = 1 / √6 * (√3 * (cos γ * cos δ) - sin γ * cos δ + √2 * sin δ) := by
  simp only [gdToE, flt_sqrt, flt_c, flt_pi, flt_sin, flt_cos, Nat.cast_ofNat, Nat.cast_one,
    Real.sin_pi_div_two_sub, Real.cos_pi_div_two_sub]
  ring

theorem lune_gdToE_y (γ δ : ℝ) :
    (gdToE γ δ).y = 1 / √6 * (2 * (sin γ * cos δ) + √2 * sin δ) := by
  simp only [gdToE, flt_sqrt, flt_c, flt_pi, flt_sin, flt_cos, Nat.cast_ofNat, Nat.cast_one,
    Nat.cast_zero, Real.sin_pi_div_two_sub, Real.cos_pi_div_two_sub]
  ring

theorem lune_gdToE_z (γ δ : ℝ) :
    (gdToE γ δ).z = 1 / √6 * (-(√3 * (cos γ * cos δ)) - sin γ * cos δ + √2 * sin δ) := by
  simp only [gdToE, flt_sqrt, flt_c, flt_pi, flt_sin, flt_cos, Nat.cast_ofNat, Nat.cast_one,
    Real.sin_pi_div_two_sub, Real.cos_pi_div_two_sub]
  ring

theorem lune_inv_sqrt6_sq : (1 / √6 : ℝ) ^ 2 = 1 / 6 := by
  rw [div_pow, Real.sq_sqrt (by norm_num)]; norm_num

theorem lune_gdToE_sq (γ δ : ℝ) :
    (gdToE γ δ).x ^ 2 + (gdToE γ δ).y ^ 2 + (gdToE γ δ).z ^ 2 = 1 := by
  rw [lune_gdToE_x, lune_gdToE_y, lune_gdToE_z]
  have h2 := lune_sqrt2_mul_self
  have h3 := lune_sqrt3_mul_self
  have hk := lune_inv_sqrt6_sq
  have hg := Real.sin_sq_add_cos_sq γ
  have hd := Real.sin_sq_add_cos_sq δ
  generalize (√2 : ℝ) = a at *
  generalize (√3 : ℝ) = b at *
  generalize (1 / √6 : ℝ) = k at *
  generalize sin γ = sg at *
  generalize cos γ = cg at *
  generalize sin δ = sd at *
  generalize cos δ = cd at *
  linear_combination ((b * (cg * cd) - sg * cd + a * sd) ^ 2 + (2 * (sg * cd) + a * sd) ^ 2
    + (-(b * (cg * cd)) - sg * cd + a * sd) ^ 2) * hk + (1 / 3) * (cg * cd) ^ 2 * h3
    + (1 / 2) * sd ^ 2 * h2 + cd ^ 2 * hg + hd


theorem lune_gdToE_x_sub_y (γ δ : ℝ) :
    (gdToE γ δ).x - (gdToE γ δ).y = 2 * √3 / √6 * cos δ * sin (π / 6 - γ) := by
  rw [lune_gdToE_x, lune_gdToE_y, Real.sin_sub, Real.sin_pi_div_six, Real.cos_pi_div_six]
  have h3 := lune_sqrt3_mul_self
  linear_combination ((1 / √6) * cos δ * sin γ) * h3

theorem lune_gdToE_y_sub_z (γ δ : ℝ) :
    (gdToE γ δ).y - (gdToE γ δ).z = 2 * √3 / √6 * cos δ * sin (π / 6 + γ) := by
  rw [lune_gdToE_y, lune_gdToE_z, Real.sin_add, Real.sin_pi_div_six, Real.cos_pi_div_six]
  have h3 := lune_sqrt3_mul_self
  linear_combination (-(1 / √6) * cos δ * sin γ) * h3

theorem lune_gdToE_x_sub_z (γ δ : ℝ) :
    (gdToE γ δ).x - (gdToE γ δ).z = 2 * √3 / √6 * (cos γ * cos δ) := by
  rw [lune_gdToE_x, lune_gdToE_z]; ring

theorem lune_coef_pos : (0 : ℝ) < 2 * √3 / √6 := by positivity

theorem lune_cos_nonneg {δ : ℝ} (hδ : |δ| ≤ π / 2) : 0 ≤ cos δ :=
  Real.cos_nonneg_of_neg_pi_div_two_le_of_le (abs_le.mp hδ).1 (abs_le.mp hδ).2

theorem lune_cos_pos {δ : ℝ} (hδ : |δ| < π / 2) : 0 < cos δ :=
  Real.cos_pos_of_mem_Ioo ⟨(abs_lt.mp hδ).1, (abs_lt.mp hδ).2⟩

theorem lune_gdToE_sorted {γ δ : ℝ} (hγ : |γ| ≤ π / 6) (hδ : |δ| ≤ π / 2) :
    (gdToE γ δ).z ≤ (gdToE γ δ).y ∧ (gdToE γ δ).y ≤ (gdToE γ δ).x := by
  have hc := lune_cos_nonneg hδ
  have hk := lune_coef_pos
  obtain ⟨g1, g2⟩ := abs_le.mp hγ
  have hpi := Real.pi_pos
  have s1 : 0 ≤ sin (π / 6 - γ) :=
    Real.sin_nonneg_of_nonneg_of_le_pi (by linarith) (by linarith)
  have s2 : 0 ≤ sin (π / 6 + γ) :=
    Real.sin_nonneg_of_nonneg_of_le_pi (by linarith) (by linarith)
  constructor
  · have := lune_gdToE_y_sub_z γ δ
    have : 0 ≤ (gdToE γ δ).y - (gdToE γ δ).z := by rw [this]; positivity
    linarith
  · have := lune_gdToE_x_sub_y γ δ
    have : 0 ≤ (gdToE γ δ).x - (gdToE γ δ).y := by rw [this]; positivity
    linarith

theorem lune_gdToE_x_gt_z {γ δ : ℝ} (hγ : |γ| ≤ π / 6) (hδ : |δ| < π / 2) :
    (gdToE γ δ).z < (gdToE γ δ).x := by
  have hc := lune_cos_pos hδ
  have hk := lune_coef_pos
  obtain ⟨g1, g2⟩ := abs_le.mp hγ
  have hpi := Real.pi_pos
  have hg : 0 < cos γ := Real.cos_pos_of_mem_Ioo ⟨by linarith, by linarith⟩
  have := lune_gdToE_x_sub_z γ δ
  have : 0 < (gdToE γ δ).x - (gdToE γ δ).z := by rw [this]; positivity
  linarith


theorem lune_sort3_of_sorted (e : V3 ℝ) (h1 : e.z ≤ e.y) (h2 : e.y ≤ e.x) : sort3 e = e := by
  simp [sort3, not_lt.mpr h1, not_lt.mpr h2]

theorem lune_sort3_spec (e : V3 ℝ) :
    (sort3 e).z ≤ (sort3 e).y ∧ (sort3 e).y ≤ (sort3 e).x ∧
      ((sort3 e).x = (sort3 e).z → e.x = e.y ∧ e.y = e.z) := by
  obtain ⟨x, y, z⟩ := e
  simp only [sort3, flt_ltb, decide_eq_true_eq]
  by_cases h1 : x < y
  · simp only [h1, if_true]
    by_cases h2 : x < z
    · simp only [h2, if_true]
      by_cases h3 : y < z
      · simp only [h3, if_true]
        refine ⟨by linarith, by linarith, fun h => ?_⟩
        constructor <;> linarith
      · simp only [h3, if_false]
        refine ⟨by linarith, by linarith, fun h => ?_⟩
        constructor <;> linarith
    · have h3 : ¬ y < x := by linarith
      simp only [h2, if_false, h3]
      refine ⟨by linarith, by linarith, fun h => ?_⟩
      constructor <;> linarith
  · simp only [h1, if_false]
    by_cases h2 : y < z
    · simp only [h2, if_true]
      by_cases h3 : x < z
      · simp only [h3, if_true]
        refine ⟨by linarith, by linarith, fun h => ?_⟩
        constructor <;> linarith
      · simp only [h3, if_false]
        refine ⟨by linarith, by linarith, fun h => ?_⟩
        constructor <;> linarith
    · simp only [h2, if_false, h1]
      refine ⟨by linarith, by linarith, fun h => ?_⟩
      constructor <;> linarith


theorem lune_eToGd_pole (e : V3 ℝ) (h : e.x = e.y ∧ e.y = e.z) :
    eToGd e = (0, sign e.x * π / 2) := by
  simp [eToGd, h.1, h.2]

theorem lune_eToGd_eq (e : V3 ℝ) (h : ¬(e.x = e.y ∧ e.y = e.z)) :
    eToGd e = (atan2 (-(sort3 e).x + 2 * (sort3 e).y - (sort3 e).z) (√3 * ((sort3 e).x - (sort3 e).z)),
      π / 2 - arccos (((sort3 e).x + (sort3 e).y + (sort3 e).z) /
        (√3 * √((sort3 e).x * (sort3 e).x + (sort3 e).y * (sort3 e).y + (sort3 e).z * (sort3 e).z)))) := by
  have h' : (decide (e.x = e.y) && decide (e.y = e.z)) = false := by
    simpa using h
  simp only [eToGd, flt_eqb, h', flt_atan2, flt_sqrt, flt_c, flt_pi, flt_acos, Nat.cast_ofNat]
  simp

theorem lune_sign_pos {x : ℝ} (h : 0 < x) : sign x = 1 := by
  simp [sign, h, not_lt.mpr h.le]

theorem lune_sign_neg {x : ℝ} (h : x < 0) : sign x = -1 := by
  simp [sign, h]

theorem lune_abs_sign_le (x : ℝ) : |sign x| ≤ 1 := by
  unfold sign
  simp only [flt_ltb, flt_c, decide_eq_true_eq]
  split_ifs <;> simp

theorem lune_atan2_polar (r θ : ℝ) (hr : 0 < r) (hθ : θ ∈ Set.Ioc (-π) π) :
    atan2 (r * sin θ) (r * cos θ) = θ := by
  unfold atan2
  have : (⟨r * cos θ, r * sin θ⟩ : ℂ) = (r:ℂ) * (Complex.cos θ + Complex.sin θ * Complex.I) := by
    apply Complex.ext <;> simp [Complex.cos_ofReal_re, Complex.sin_ofReal_re]
  rw [this]; exact Complex.arg_mul_cos_add_sin_mul_I hr hθ

theorem lune_atan2_eq_arctan {a b : ℝ} (hb : 0 < b) : atan2 a b = arctan (a / b) := by
  unfold atan2
  have h := (Complex.abs_arg_lt_pi_div_two_iff (z := ⟨b, a⟩)).mpr (Or.inl hb)
  have ht := Complex.tan_arg ⟨b, a⟩
  simp only at ht
  rw [← ht, Real.arctan_tan (abs_lt.mp h).1 (abs_lt.mp h).2]

theorem lune_atan2_abs_le {a b : ℝ} (hb : 0 < b) (hab : |a| * √3 ≤ b) : |atan2 a b| ≤ π / 6 := by
  rw [lune_atan2_eq_arctan hb, abs_le]
  have h3 : (0:ℝ) < √3 := by positivity
  obtain ⟨h1, h2⟩ := abs_le.mp (show |a| ≤ b / √3 by rwa [le_div_iff₀ h3])
  constructor
  · rw [← Real.arctan_inv_sqrt_three, ← Real.arctan_neg]
    apply Real.arctan_mono
    rw [le_div_iff₀ hb, inv_eq_one_div]
    calc -(1 / √3) * b = -(b / √3) := by ring
      _ ≤ a := h1
  · rw [← Real.arctan_inv_sqrt_three]
    apply Real.arctan_mono
    rw [div_le_iff₀ hb, inv_eq_one_div]
    calc a ≤ b / √3 := h2
      _ = 1 / √3 * b := by ring

theorem lune_atan2_quadrant {a b : ℝ} (ha : 0 ≤ a) (hb : 0 ≤ b) :
    0 ≤ atan2 a b ∧ atan2 a b ≤ π / 2 := by
  unfold atan2
  exact ⟨Complex.arg_nonneg_iff.mpr ha, Complex.arg_le_pi_div_two_iff.mpr (Or.inl hb)⟩


/-- Frobenius norm² of `Σ eᵢ vᵢvᵢᵀ` in terms of the Gram matrix of the axes -/
theorem lune_rebuild_frob (T N P e : V3 ℝ) :
    (rebuild T N P e).xx ^ 2 + (rebuild T N P e).yy ^ 2 + (rebuild T N P e).zz ^ 2
      + 2 * ((rebuild T N P e).xy ^ 2 + (rebuild T N P e).xz ^ 2 + (rebuild T N P e).yz ^ 2)
    = e.x ^ 2 * (V3.dot T T) ^ 2 + e.y ^ 2 * (V3.dot N N) ^ 2 + e.z ^ 2 * (V3.dot P P) ^ 2
      + 2 * (e.x * e.y * (V3.dot T N) ^ 2 + e.x * e.z * (V3.dot T P) ^ 2
        + e.y * e.z * (V3.dot N P) ^ 2) := by
  simp only [rebuild, V3.dot]
  ring

theorem lune_sdrVec1_unit (s d r : ℝ) : V3.dot (sdrVec1 s d r) (sdrVec1 s d r) = 1 := by
  simp only [sdrVec1, V3.dot, flt_sin, flt_cos]
  linear_combination (cos r ^ 2 + cos d ^ 2 * sin r ^ 2) * Real.sin_sq_add_cos_sq s
    + sin r ^ 2 * Real.sin_sq_add_cos_sq d + Real.sin_sq_add_cos_sq r

theorem lune_sdrVec2_unit (s d : ℝ) : V3.dot (sdrVec2 s d) (sdrVec2 s d) = 1 := by
  simp only [sdrVec2, V3.dot, flt_sin, flt_cos]
  linear_combination (sin d ^ 2) * Real.sin_sq_add_cos_sq s + Real.sin_sq_add_cos_sq d

theorem lune_sdrVec_perp (s d r : ℝ) : V3.dot (sdrVec1 s d r) (sdrVec2 s d) = 0 := by
  simp only [sdrVec1, sdrVec2, V3.dot, flt_sin, flt_cos]
  linear_combination (-(cos d * sin d * sin r)) * Real.sin_sq_add_cos_sq s


theorem lune_cross_gram (T P : V3 ℝ) :
    V3.dot (V3.cross T P).neg (V3.cross T P).neg = V3.dot T T * V3.dot P P - V3.dot T P ^ 2
    ∧ V3.dot T (V3.cross T P).neg = 0 ∧ V3.dot (V3.cross T P).neg P = 0 := by
  simp only [V3.dot, V3.cross, V3.neg]
  refine ⟨by ring, by ring, by ring⟩

theorem lune_unit_of_dot_two (v : V3 ℝ) (h : V3.dot v v = 2) :
    v.unit = ⟨v.x / √2, v.y / √2, v.z / √2⟩ := by
  simp only [V3.unit, V3.sdiv, V3.norm, flt_sqrt, h]

theorem lune_fpToTnp_gram (n s : V3 ℝ) (hn : V3.dot n n = 1) (hs : V3.dot s s = 1)
    (hns : V3.dot n s = 0) :
    V3.dot (fpToTnp n s).1 (fpToTnp n s).1 = 1 ∧ V3.dot (fpToTnp n s).2.1 (fpToTnp n s).2.1 = 1
    ∧ V3.dot (fpToTnp n s).2.2 (fpToTnp n s).2.2 = 1 ∧ V3.dot (fpToTnp n s).1 (fpToTnp n s).2.1 = 0
    ∧ V3.dot (fpToTnp n s).1 (fpToTnp n s).2.2 = 0 ∧ V3.dot (fpToTnp n s).2.1 (fpToTnp n s).2.2 = 0 := by
  have hadd : V3.dot (V3.add n s) (V3.add n s) = 2 := by
    simp only [V3.dot, V3.add] at *; linear_combination hn + hs + 2 * hns
  have hsub : V3.dot (V3.sub n s) (V3.sub n s) = 2 := by
    simp only [V3.dot, V3.sub] at *; linear_combination hn + hs - 2 * hns
  have h2 : (√2 : ℝ) ≠ 0 := by positivity
  have h22 := lune_sqrt2_mul_self
  have hTT : V3.dot (V3.add n s).unit (V3.add n s).unit = 1 := by
    rw [lune_unit_of_dot_two _ hadd]
    simp only [V3.dot, V3.add] at *
    field_simp
    linear_combination hadd - h22
  have hPP : V3.dot (V3.sub n s).unit (V3.sub n s).unit = 1 := by
    rw [lune_unit_of_dot_two _ hsub]
    simp only [V3.dot, V3.sub] at *
    field_simp
    linear_combination hsub - h22
  have hTP : V3.dot (V3.add n s).unit (V3.sub n s).unit = 0 := by
    rw [lune_unit_of_dot_two _ hadd, lune_unit_of_dot_two _ hsub]
    simp only [V3.dot, V3.add, V3.sub] at *
    field_simp
    linear_combination hn - hs
  obtain ⟨c1, c2, c3⟩ := lune_cross_gram (V3.add n s).unit (V3.sub n s).unit
  simp only [fpToTnp]
  refine ⟨hTT, ?_, hPP, c2, hTP, c3⟩
  rw [c1, hTT, hPP, hTP]; norm_num

theorem lune_sdrToTnp_gram (s d r : ℝ) :
    V3.dot (sdrToTnp s d r).1 (sdrToTnp s d r).1 = 1 ∧ V3.dot (sdrToTnp s d r).2.1 (sdrToTnp s d r).2.1 = 1
    ∧ V3.dot (sdrToTnp s d r).2.2 (sdrToTnp s d r).2.2 = 1 ∧ V3.dot (sdrToTnp s d r).1 (sdrToTnp s d r).2.1 = 0
    ∧ V3.dot (sdrToTnp s d r).1 (sdrToTnp s d r).2.2 = 0 ∧ V3.dot (sdrToTnp s d r).2.1 (sdrToTnp s d r).2.2 = 0 :=
  lune_fpToTnp_gram _ _ (lune_sdrVec1_unit s d r) (lune_sdrVec2_unit s d) (lune_sdrVec_perp s d r)


theorem lune_normalToSd_dip (n : V3 ℝ) : 0 ≤ (normalToSd n).2 ∧ (normalToSd n).2 ≤ π / 2 := by
  simp only [normalToSd, flt_atan2, flt_sqrt]
  exact lune_atan2_quadrant (add_nonneg (mul_self_nonneg _) (mul_self_nonneg _)) (Real.sqrt_nonneg _)

theorem lune_fpToSdr_dip (n s : V3 ℝ) : 0 ≤ (fpToSdr n s).2.1 ∧ (fpToSdr n s).2.1 ≤ π / 2 := by
  simp only [fpToSdr]
  exact lune_normalToSd_dip _

theorem lune_sdrToSdr_dip (s d r : ℝ) : 0 ≤ (sdrToSdr s d r).2.1 ∧ (sdrToSdr s d r).2.1 ≤ π / 2 := by
  simp only [sdrToSdr]
  split_ifs
  · exact lune_fpToSdr_dip _ _
  · exact lune_fpToSdr_dip _ _

theorem lune_eigToTape_fst (T P e : V3 ℝ) : (eigToTape T P e).1 = (eToGd e).1 := by
  simp only [eigToTape]

theorem lune_eigToTape_snd (T P e : V3 ℝ) : (eigToTape T P e).2.1 = (eToGd e).2 := by
  simp only [eigToTape]

theorem lune_cos_range {d : ℝ} (h : 0 ≤ d ∧ d ≤ π / 2) : 0 ≤ cos d ∧ cos d ≤ 1 :=
  ⟨Real.cos_nonneg_of_neg_pi_div_two_le_of_le (by linarith [Real.pi_pos, h.1]) h.2, Real.cos_le_one d⟩

theorem lune_eigToTape_h (T P e : V3 ℝ) :
    0 ≤ (eigToTape T P e).2.2.2.1 ∧ (eigToTape T P e).2.2.2.1 ≤ 1 := by
  simp only [eigToTape, tnpToSdr, flt_cos]
  by_cases h : Flt.ltb (Flt.pi / c 2) (Flt.abs (fpToSdr (tpToFp T P).1 (tpToFp T P).2).2.2) = true
  · simp only [h, if_true]
    exact lune_cos_range (lune_sdrToSdr_dip _ _ _)
  · simp only [h]
    exact lune_cos_range (lune_fpToSdr_dip _ _)


theorem lune_gdToE_a (γ δ : ℝ) :
    -(gdToE γ δ).x + 2 * (gdToE γ δ).y - (gdToE γ δ).z = (6 / √6 * cos δ) * sin γ := by
  rw [lune_gdToE_x, lune_gdToE_y, lune_gdToE_z]; ring

theorem lune_gdToE_b (γ δ : ℝ) :
    √3 * ((gdToE γ δ).x - (gdToE γ δ).z) = (6 / √6 * cos δ) * cos γ := by
  rw [lune_gdToE_x_sub_z]
  linear_combination (2 / √6 * (cos γ * cos δ)) * lune_sqrt3_mul_self

theorem lune_gdToE_sum (γ δ : ℝ) :
    (gdToE γ δ).x + (gdToE γ δ).y + (gdToE γ δ).z = √3 * sin δ := by
  rw [lune_gdToE_x, lune_gdToE_y, lune_gdToE_z, lune_sqrt6_eq]
  have h2 : (√2 : ℝ) ≠ 0 := by positivity
  have h3 : (√3 : ℝ) ≠ 0 := by positivity
  field_simp
  linear_combination (-(√2 * sin δ)) * lune_sqrt3_mul_self

theorem lune_gdToE_mul_self (γ δ : ℝ) :
    (gdToE γ δ).x * (gdToE γ δ).x + (gdToE γ δ).y * (gdToE γ δ).y + (gdToE γ δ).z * (gdToE γ δ).z = 1 := by
  have := lune_gdToE_sq γ δ
  linarith

theorem lune_eToGd_gdToE {γ δ : ℝ} (hγ : |γ| ≤ π / 6) (hδ : |δ| < π / 2) :
    eToGd (gdToE γ δ) = (γ, δ) := by
  obtain ⟨s1, s2⟩ := lune_gdToE_sorted hγ hδ.le
  have hlt := lune_gdToE_x_gt_z hγ hδ
  have hne : ¬((gdToE γ δ).x = (gdToE γ δ).y ∧ (gdToE γ δ).y = (gdToE γ δ).z) := by
    intro h; rw [h.1, h.2] at hlt; exact lt_irrefl _ hlt
  have hpi := Real.pi_pos
  obtain ⟨g1, g2⟩ := abs_le.mp hγ
  obtain ⟨d1, d2⟩ := abs_lt.mp hδ
  rw [lune_eToGd_eq _ hne, lune_sort3_of_sorted _ s1 s2, lune_gdToE_a, lune_gdToE_b,
    lune_gdToE_sum, lune_gdToE_mul_self, Real.sqrt_one, mul_one,
    lune_atan2_polar _ _ (mul_pos (by positivity) (lune_cos_pos hδ)) ⟨by linarith, by linarith⟩,
    mul_div_cancel_left₀ _ (by positivity : (√3 : ℝ) ≠ 0), Real.arccos_eq_pi_div_two_sub_arcsin,
    Real.arcsin_sin d1.le d2.le]
  simp


theorem lune_gdToE_north (γ : ℝ) :
    (gdToE γ (π / 2)).x = 1 / √6 * √2 ∧ (gdToE γ (π / 2)).y = 1 / √6 * √2
      ∧ (gdToE γ (π / 2)).z = 1 / √6 * √2 := by
  rw [lune_gdToE_x, lune_gdToE_y, lune_gdToE_z]
  simp

theorem lune_gdToE_south (γ : ℝ) :
    (gdToE γ (-(π / 2))).x = -(1 / √6 * √2) ∧ (gdToE γ (-(π / 2))).y = -(1 / √6 * √2)
      ∧ (gdToE γ (-(π / 2))).z = -(1 / √6 * √2) := by
  rw [lune_gdToE_x, lune_gdToE_y, lune_gdToE_z]
  simp

theorem lune_eToGd_north (γ : ℝ) : eToGd (gdToE γ (π / 2)) = (0, π / 2) := by
  obtain ⟨h1, h2, h3⟩ := lune_gdToE_north γ
  rw [lune_eToGd_pole _ ⟨by rw [h1, h2], by rw [h2, h3]⟩, h1,
    lune_sign_pos (by positivity), one_mul]

theorem lune_eToGd_south (γ : ℝ) : eToGd (gdToE γ (-(π / 2))) = (0, -(π / 2)) := by
  obtain ⟨h1, h2, h3⟩ := lune_gdToE_south γ
  rw [lune_eToGd_pole _ ⟨by rw [h1, h2], by rw [h2, h3]⟩, h1,
    lune_sign_neg (by rw [neg_lt_zero]; positivity), neg_one_mul, neg_div]


end MTfitVerif.Convert
