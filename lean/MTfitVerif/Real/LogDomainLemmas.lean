import MTfitVerif.Model.LogDomain
import MTfitVerif.Real.LogPSem
/- helper lemmas for C04 / C10 / C01: log-sum-exp over `LogP ℝ` -/
namespace MTfitVerif
namespace LogDomain
open LogP Real

theorem shiftedSum_eq (m dV : ℝ) (l : List (LogP ℝ)) :
    shiftedSum m dV l = dV * Real.exp (-m) * (l.map toProb).sum := by
  induction l with
  | nil => simp [shiftedSum]
  | cons x xs ih =>
    cases x with
    | negInf => simp [shiftedSum, ih]
    | fin v =>
      simp only [shiftedSum, flt_exp, ih, List.map_cons, toProb_fin, List.sum_cons]
      rw [sub_eq_add_neg, Real.exp_add]; ring

theorem sum_toProb_pos {l : List (LogP ℝ)} {m : ℝ} (h : maxFin l = some m) :
    0 < (l.map toProb).sum := by
  have hm := maxFin_mem h
  have h1 : toProb (fin m) ≤ (l.map toProb).sum :=
    List.single_le_sum (fun x hx => by
      obtain ⟨y, _, rfl⟩ := List.mem_map.mp hx; exact toProb_nonneg y) _
      (List.mem_map.mpr ⟨_, hm, rfl⟩)
  exact lt_of_lt_of_le (by simp [Real.exp_pos]) h1

theorem shiftedSum_pos {l : List (LogP ℝ)} {m dV : ℝ} (hdV : 0 < dV) (h : maxFin l = some m) :
    0 < shiftedSum m dV l := by
  rw [shiftedSum_eq]
  exact mul_pos (mul_pos hdV (Real.exp_pos _)) (sum_toProb_pos h)

theorem shiftedSum_shift (m dV k : ℝ) (l : List (LogP ℝ)) :
    shiftedSum (m + k) dV (l.map (shift · k)) = shiftedSum m dV l := by
  induction l with
  | nil => simp [shiftedSum]
  | cons x xs ih =>
    cases x with
    | negInf => simpa [shiftedSum] using ih
    | fin v =>
      simp only [List.map_cons, shift_fin, shiftedSum, ih]
      congr 3; ring

theorem expArgs_shift (m k : ℝ) (l : List (LogP ℝ)) :
    expArgs (m + k) (l.map (shift · k)) = expArgs m l := by
  induction l with
  | nil => simp [expArgs]
  | cons x xs ih =>
    cases x with
    | negInf => simpa [expArgs] using ih
    | fin v => simp only [List.map_cons, shift_fin, expArgs, ih]; congr 1; ring

theorem mem_expArgs {m a : ℝ} {l : List (LogP ℝ)} :
    a ∈ expArgs m l ↔ ∃ v, fin v ∈ l ∧ a = v - m := by
  induction l with
  | nil => simp [expArgs]
  | cons x xs ih =>
    cases x with
    | negInf => simp [expArgs, ih]
    | fin w =>
      simp only [expArgs, List.mem_cons, ih, fin.injEq]
      constructor
      · rintro (rfl | ⟨v, hv, rfl⟩)
        · exact ⟨w, Or.inl rfl, rfl⟩
        · exact ⟨v, Or.inr hv, rfl⟩
      · rintro ⟨v, (rfl | hv), rfl⟩
        · exact Or.inl rfl
        · exact Or.inr ⟨v, hv, rfl⟩

/-- the sum the code hands to `log` is exactly `Σ exp(args) * dV` over `expArgs` -/
theorem shiftedSum_eq_expArgs (m dV : ℝ) (l : List (LogP ℝ)) :
    shiftedSum m dV l = ((expArgs m l).map (fun a => Real.exp a * dV)).sum := by
  induction l with
  | nil => simp [shiftedSum, expArgs]
  | cons x xs ih =>
    cases x with
    | negInf => simpa [shiftedSum, expArgs] using ih
    | fin v => simp [shiftedSum, expArgs, ih]

/-! ### `heads`, `tails`, `columns` -/

theorem columns_length {β} (n : Nat) (rows : List (List β)) : (columns n rows).length = n := by
  induction n generalizing rows with
  | zero => rfl
  | succ n ih => simp [columns, ih]

/-- column `j` of a well-formed matrix lists entry `j` of every row -/
theorem columns_getElem? {β} (n : Nat) (rows : List (List β)) (h : ∀ r ∈ rows, r.length = n)
    (j : Nat) (hj : j < n) :
    (columns n rows)[j]? = some (rows.filterMap (fun r => r[j]?)) := by
  induction n generalizing rows j with
  | zero => omega
  | succ n ih =>
    have hne : ∀ r ∈ rows, ∃ x xs, r = x :: xs ∧ xs.length = n := by
      intro r hr
      have := h r hr
      cases r with
      | nil => simp at this
      | cons x xs => exact ⟨x, xs, rfl, by simpa using this⟩
    have hheads : heads rows = rows.filterMap (fun r => r[0]?) := by
      clear ih h
      induction rows with
      | nil => rfl
      | cons r rs ihr =>
        obtain ⟨x, xs, rfl, _⟩ := hne _ (List.mem_cons_self)
        simp only [heads, List.filterMap_cons, List.getElem?_cons_zero]
        rw [ihr (fun r hr => hne r (List.mem_cons_of_mem _ hr))]
    have htails_len : ∀ r ∈ tails rows, r.length = n := by
      clear ih h hheads
      induction rows with
      | nil => simp [tails]
      | cons r rs ihr =>
        obtain ⟨x, xs, rfl, hx⟩ := hne _ (List.mem_cons_self)
        intro r hr
        simp only [tails, List.mem_cons] at hr
        rcases hr with rfl | hr
        · exact hx
        · exact ihr (fun r hr => hne r (List.mem_cons_of_mem _ hr)) r hr
    have htails : ∀ k, (tails rows).filterMap (fun r => r[k]?) = rows.filterMap (fun r => r[k+1]?) := by
      intro k
      clear ih h hheads htails_len
      induction rows with
      | nil => rfl
      | cons r rs ihr =>
        obtain ⟨x, xs, rfl, hx⟩ := hne _ (List.mem_cons_self)
        simp only [tails, List.filterMap_cons, List.getElem?_cons_succ]
        rw [ihr (fun r hr => hne r (List.mem_cons_of_mem _ hr))]
    cases j with
    | zero => simp [columns, hheads]
    | succ k =>
      simp only [columns, List.getElem?_cons_succ]
      rw [ih (tails rows) htails_len k (by omega), htails]

end LogDomain
end MTfitVerif
