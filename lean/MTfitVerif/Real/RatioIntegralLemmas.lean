import MTfitVerif.Real.RatioPdfLemmas
import Mathlib.Analysis.SpecialFunctions.Gaussian.GaussianIntegral
import Mathlib.MeasureTheory.Integral.IntegralEqImproper
import Mathlib.MeasureTheory.Group.Integral
/-
  Analytic lemmas for C03 (stretch): derivative of `erf`, and the closed form of
  `∫ |y| e^{-s²(y-m)²/2} dy`, obtained from an explicit antiderivative and the fundamental
  theorem of calculus on the two half-lines.
-/
namespace MTfitVerif
open Real MeasureTheory Filter Topology Set

theorem erf_eq_fun : erf = fun x : ℝ => (2 / √π) * ∫ t in (0:ℝ)..x, exp (-t^2) := rfl

theorem hasDerivAt_erf (x : ℝ) : HasDerivAt erf (2 / √π * exp (-x^2)) x := by
  rw [erf_eq_fun]
  have hc : Continuous fun t : ℝ => exp (-t^2) := by fun_prop
  exact ((hc.integral_hasStrictDerivAt 0 x).hasDerivAt).const_mul (2 / √π)

namespace RatioInt

/-- antiderivative of `y ↦ y · e^{-s²(y-m)²/2}` -/
noncomputable def H (s m y : ℝ) : ℝ :=
  -exp (-(s^2 * (y - m)^2) / 2) / s^2 + m * (√(2 * π) / (2 * s)) * erf (s * (y - m) / √2)

theorem hasDerivAt_expo (s m y : ℝ) :
    HasDerivAt (fun y : ℝ => -(s^2 * (y - m)^2) / 2) (-(s^2 * (y - m))) y := by
  have h := (((((hasDerivAt_id' y).sub_const m).pow 2).const_mul (s^2)).neg).div_const 2
  refine h.congr_deriv ?_
  simp
  ring

theorem hasDerivAt_lin (s m y : ℝ) :
    HasDerivAt (fun y : ℝ => s * (y - m) / √2) (s / √2) y := by
  have h := ((((hasDerivAt_id' y).sub_const m)).const_mul s).div_const (√2)
  refine h.congr_deriv ?_
  simp

theorem sqrt_two_pi : √(2 * π) = √2 * √π := Real.sqrt_mul (by norm_num) π

theorem hasDerivAt_H {s : ℝ} (hs : 0 < s) (m y : ℝ) :
    HasDerivAt (H s m) (y * exp (-(s^2 * (y - m)^2) / 2)) y := by
  have h2 := (hasDerivAt_expo s m y).exp
  have h4 := (hasDerivAt_erf (s * (y - m) / √2)).comp y (hasDerivAt_lin s m y)
  have h5 := ((h2.neg).div_const (s^2)).add (h4.const_mul (m * (√(2 * π) / (2 * s))))
  have e : -(s * (y - m) / √2)^2 = -(s^2 * (y - m)^2) / 2 := by
    rw [div_pow, Real.sq_sqrt (by norm_num : (0:ℝ) ≤ 2)]; ring
  rw [e] at h5
  have h6 : HasDerivAt (H s m) _ y := h5
  refine h6.congr_deriv ?_
  rw [sqrt_two_pi]
  have h2' : (0:ℝ) < √2 := by positivity
  have hp : (0:ℝ) < √π := by positivity
  have hs' : s ≠ 0 := hs.ne'
  field_simp
  ring

theorem tendsto_expo_atTop {s : ℝ} (hs : 0 < s) (m : ℝ) :
    Tendsto (fun y : ℝ => exp (-(s^2 * (y - m)^2) / 2)) atTop (𝓝 0) := by
  apply tendsto_exp_atBot.comp
  have h1 : Tendsto (fun y : ℝ => y - m) atTop atTop :=
    tendsto_atTop_add_const_right _ (-m) tendsto_id
  have h2 : Tendsto (fun y : ℝ => (y - m)^2) atTop atTop := (tendsto_pow_atTop two_ne_zero).comp h1
  have h3 : Tendsto (fun y : ℝ => (s^2 / 2) * (y - m)^2) atTop atTop :=
    h2.const_mul_atTop (by positivity)
  have h4 := tendsto_neg_atTop_atBot.comp h3
  refine h4.congr (fun y => ?_)
  simp only [Function.comp]
  ring

theorem tendsto_expo_atBot {s : ℝ} (hs : 0 < s) (m : ℝ) :
    Tendsto (fun y : ℝ => exp (-(s^2 * (y - m)^2) / 2)) atBot (𝓝 0) := by
  have h := (tendsto_expo_atTop hs (-m)).comp tendsto_neg_atBot_atTop
  refine h.congr (fun y => ?_)
  simp only [Function.comp]
  congr 1
  ring

theorem tendsto_lin_atTop {s : ℝ} (hs : 0 < s) (m : ℝ) :
    Tendsto (fun y : ℝ => s * (y - m) / √2) atTop atTop := by
  have h1 : Tendsto (fun y : ℝ => y - m) atTop atTop :=
    tendsto_atTop_add_const_right _ (-m) tendsto_id
  have h2 : Tendsto (fun y : ℝ => (s / √2) * (y - m)) atTop atTop :=
    h1.const_mul_atTop (by positivity)
  refine h2.congr (fun y => ?_)
  ring

theorem tendsto_lin_atBot {s : ℝ} (hs : 0 < s) (m : ℝ) :
    Tendsto (fun y : ℝ => s * (y - m) / √2) atBot atBot := by
  have h1 : Tendsto (fun y : ℝ => y - m) atBot atBot :=
    tendsto_atBot_add_const_right _ (-m) tendsto_id
  have h2 : Tendsto (fun y : ℝ => (s / √2) * (y - m)) atBot atBot :=
    h1.const_mul_atBot (by positivity)
  refine h2.congr (fun y => ?_)
  ring

theorem tendsto_H_atTop {s : ℝ} (hs : 0 < s) (m : ℝ) :
    Tendsto (H s m) atTop (𝓝 (m * (√(2 * π) / (2 * s)))) := by
  have h1 := ((tendsto_expo_atTop hs m).neg).div_const (s^2)
  have h2 := ((erf_tendsto_atTop.comp (tendsto_lin_atTop hs m))).const_mul (m * (√(2 * π) / (2 * s)))
  have h := h1.add h2
  simp only [neg_zero, zero_div, zero_add, mul_one] at h
  exact h

theorem tendsto_H_atBot {s : ℝ} (hs : 0 < s) (m : ℝ) :
    Tendsto (H s m) atBot (𝓝 (-(m * (√(2 * π) / (2 * s))))) := by
  have h1 := ((tendsto_expo_atBot hs m).neg).div_const (s^2)
  have h2 := ((erf_tendsto_atBot.comp (tendsto_lin_atBot hs m))).const_mul (m * (√(2 * π) / (2 * s)))
  have h := h1.add h2
  simp only [neg_zero, zero_div, zero_add, mul_neg, mul_one] at h
  exact h

theorem integrable_g {s : ℝ} (hs : 0 < s) (m : ℝ) :
    Integrable fun y : ℝ => y * exp (-(s^2 * (y - m)^2) / 2) := by
  have hb : 0 < s^2 / 2 := by positivity
  have i1 := (integrable_mul_exp_neg_mul_sq hb).comp_sub_right m
  have i2 := ((integrable_exp_neg_mul_sq hb).comp_sub_right m).const_mul m
  have i := i1.add i2
  refine i.congr (Filter.Eventually.of_forall fun y => ?_)
  simp only [Pi.add_apply]
  have e : -(s^2 / 2) * (y - m)^2 = -(s^2 * (y - m)^2) / 2 := by ring
  rw [e]; ring

theorem integrable_abs_g {s : ℝ} (hs : 0 < s) (m : ℝ) :
    Integrable fun y : ℝ => |y| * exp (-(s^2 * (y - m)^2) / 2) := by
  refine (integrable_g hs m).abs.congr (Filter.Eventually.of_forall fun y => ?_)
  simp only [abs_mul, abs_of_pos (exp_pos _)]

theorem H_zero (s m : ℝ) :
    H s m 0 = -exp (-(s^2 * m^2) / 2) / s^2 - m * (√(2 * π) / (2 * s)) * erf (s * m / √2) := by
  unfold H
  have e1 : s * (0 - m) / √2 = -(s * m / √2) := by ring
  have e2 : (0 - m)^2 = m^2 := by ring
  rw [e1, e2, erf_neg]; ring

/-- `∫ |y| e^{-s²(y-m)²/2} dy = (2/s²) e^{-s²m²/2} + m (√(2π)/s) erf(s m/√2)` -/
theorem integral_abs_mul_gauss {s : ℝ} (hs : 0 < s) (m : ℝ) :
    ∫ y : ℝ, |y| * exp (-(s^2 * (y - m)^2) / 2)
      = 2 / s^2 * exp (-(s^2 * m^2) / 2) + m * (√(2 * π) / s) * erf (s * m / √2) := by
  have hint := integrable_abs_g hs m
  rw [← intervalIntegral.integral_Iic_add_Ioi hint.integrableOn hint.integrableOn]
  have hIoi : ∫ y in Ioi (0:ℝ), |y| * exp (-(s^2 * (y - m)^2) / 2)
      = m * (√(2 * π) / (2 * s)) - H s m 0 := by
    rw [← integral_Ioi_of_hasDerivAt_of_tendsto' (fun x _ => hasDerivAt_H hs m x)
      (integrable_g hs m).integrableOn (tendsto_H_atTop hs m)]
    refine setIntegral_congr_fun measurableSet_Ioi (fun y hy => ?_)
    simp only [abs_of_pos (show (0:ℝ) < y from hy)]
  have hIic : ∫ y in Iic (0:ℝ), |y| * exp (-(s^2 * (y - m)^2) / 2)
      = -(H s m 0 - -(m * (√(2 * π) / (2 * s)))) := by
    rw [← integral_Iic_of_hasDerivAt_of_tendsto' (fun x _ => hasDerivAt_H hs m x)
      (integrable_g hs m).integrableOn (tendsto_H_atBot hs m), ← integral_neg]
    refine setIntegral_congr_fun measurableSet_Iic (fun y hy => ?_)
    simp only [abs_of_nonpos (show y ≤ (0:ℝ) from hy)]
    ring
  rw [hIoi, hIic, H_zero]
  have hs' : s ≠ 0 := hs.ne'
  field_simp
  ring

end RatioInt
end MTfitVerif
