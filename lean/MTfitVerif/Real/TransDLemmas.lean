import MTfitVerif.Real.StationaryLemmas
/-
  Helper definitions and lemmas for C07 (trans-dimensional half): mixtures of kernels, the
  two-model state space `D ⊕ M` with its reference measure and joint target, kernels on a sum
  type, the reversible-jump kernel between `D` and `M = D × G`, and the within-model kernels lifted
  to the two-model space.
-/
namespace MTfitVerif.TransD
open MeasureTheory ProbabilityTheory MTfitVerif.Stationary
open scoped ENNReal

/-! ### from the set-function form of stationarity to `Kernel.Invariant` -/
section Invariant
variable {X : Type*} [MeasurableSpace X]

/-- if `∫ π(x) κ(x, B) λ(dx) = ∫_B π dλ` for every measurable `B`, the measure with density `π`
    is invariant for `κ` -/
theorem invariant_of_setfun (lam : Measure X) {π : X → ℝ≥0∞} (hπ : Measurable π) (κ : Kernel X X)
    (h : ∀ B, MeasurableSet B → ∫⁻ x, π x * κ x B ∂lam = ∫⁻ x in B, π x ∂lam) :
    Kernel.Invariant κ (lam.withDensity π) := by
  unfold Kernel.Invariant
  ext B hB
  rw [Measure.bind_apply hB (Kernel.aemeasurable _), withDensity_apply _ hB,
    lintegral_withDensity_eq_lintegral_mul _ hπ (Kernel.measurable_coe _ hB)]
  exact h B hB

/-- … and back -/
theorem setfun_of_invariant (lam : Measure X) {π : X → ℝ≥0∞} (hπ : Measurable π) (κ : Kernel X X)
    (h : Kernel.Invariant κ (lam.withDensity π)) {B : Set X} (hB : MeasurableSet B) :
    ∫⁻ x, π x * κ x B ∂lam = ∫⁻ x in B, π x ∂lam := by
  have h' : (lam.withDensity π).bind κ B = lam.withDensity π B := by rw [h.def]
  rw [Measure.bind_apply hB (Kernel.aemeasurable _), withDensity_apply _ hB,
    lintegral_withDensity_eq_lintegral_mul _ hπ (Kernel.measurable_coe _ hB)] at h'
  exact h'

theorem invariant_iterate {κ : Kernel X X} {μ : Measure X} (h : Kernel.Invariant κ μ) (n : ℕ) :
    (fun ν : Measure X => ν.bind κ)^[n] μ = μ :=
  Function.iterate_fixed (f := fun ν : Measure X => ν.bind κ) h.def n

end Invariant

/-! ### mixtures of two kernels -/
section Mixture
variable {X Y : Type*} [MeasurableSpace X] [MeasurableSpace Y]

/-- with probability `p` use `κ`, otherwise `η` -/
noncomputable def mixKernel (p : ℝ≥0∞) (κ η : Kernel X Y) : Kernel X Y :=
  ⟨fun x => p • κ x + (1 - p) • η x, by
    refine Measure.measurable_of_measurable_coe _ fun s hs => ?_
    simp only [Measure.add_apply, Measure.smul_apply, smul_eq_mul]
    exact ((Kernel.measurable_coe κ hs).const_mul p).add ((Kernel.measurable_coe η hs).const_mul _)⟩

theorem mixKernel_apply (p : ℝ≥0∞) (κ η : Kernel X Y) (x : X) (B : Set Y) :
    mixKernel p κ η x B = p * κ x B + (1 - p) * η x B := by
  show (p • κ x + (1 - p) • η x) B = _
  simp only [Measure.add_apply, Measure.smul_apply, smul_eq_mul]

/-- the mixture as a set function: with probability `p` step with `K₁`, otherwise with `K₂` -/
noncomputable def mixK {X Y : Type*} (p : ℝ≥0∞) (K₁ K₂ : X → Set Y → ℝ≥0∞) (x : X) (B : Set Y) :
    ℝ≥0∞ :=
  p * K₁ x B + (1 - p) * K₂ x B

theorem mixKernel_isMarkov {p : ℝ≥0∞} (hp : p ≤ 1) (κ η : Kernel X Y) [IsMarkovKernel κ]
    [IsMarkovKernel η] : IsMarkovKernel (mixKernel p κ η) := by
  refine ⟨fun x => ⟨?_⟩⟩
  rw [mixKernel_apply, measure_univ, measure_univ, mul_one, mul_one, add_tsub_cancel_of_le hp]

/-- a mixture of two kernels that leave `μ` invariant leaves `μ` invariant -/
theorem mixKernel_invariant {p : ℝ≥0∞} (hp : p ≤ 1) {κ η : Kernel X X} {μ : Measure X}
    (hκ : Kernel.Invariant κ μ) (hη : Kernel.Invariant η μ) :
    Kernel.Invariant (mixKernel p κ η) μ := by
  unfold Kernel.Invariant
  ext B hB
  have h1 : ∫⁻ x, κ x B ∂μ = μ B := by
    rw [← Measure.bind_apply hB (Kernel.aemeasurable _), hκ.def]
  have h2 : ∫⁻ x, η x B ∂μ = μ B := by
    rw [← Measure.bind_apply hB (Kernel.aemeasurable _), hη.def]
  rw [Measure.bind_apply hB (Kernel.aemeasurable _)]
  simp only [mixKernel_apply]
  rw [lintegral_add_left ((Kernel.measurable_coe κ hB).const_mul p),
    lintegral_const_mul _ (Kernel.measurable_coe κ hB),
    lintegral_const_mul _ (Kernel.measurable_coe η hB), h1, h2, ← add_mul,
    add_tsub_cancel_of_le hp, one_mul]

end Mixture

/-! ### the two-model space `D ⊕ M` -/
section SumSpace
variable {D M : Type*} [MeasurableSpace D] [MeasurableSpace M]

theorem measurableEmbedding_inl : MeasurableEmbedding (Sum.inl : D → D ⊕ M) :=
  ⟨Sum.inl_injective, measurable_inl, fun _ hs => MeasurableSet.inl_image hs⟩

theorem measurableEmbedding_inr : MeasurableEmbedding (Sum.inr : M → D ⊕ M) :=
  ⟨Sum.inr_injective, measurable_inr, fun _ hs => MeasurableSet.inr_image hs⟩

/-- reference measure on the two-model space: `lamD` on the first summand, `lamM` on the second -/
noncomputable def sumMeasure (lamD : Measure D) (lamM : Measure M) : Measure (D ⊕ M) :=
  lamD.map Sum.inl + lamM.map Sum.inr

instance (lamD : Measure D) (lamM : Measure M) [SFinite lamD] [SFinite lamM] :
    SFinite (sumMeasure lamD lamM) := by
  unfold sumMeasure; infer_instance

theorem lintegral_sumMeasure (lamD : Measure D) (lamM : Measure M) (f : D ⊕ M → ℝ≥0∞) :
    ∫⁻ x, f x ∂(sumMeasure lamD lamM)
      = ∫⁻ d, f (Sum.inl d) ∂lamD + ∫⁻ m, f (Sum.inr m) ∂lamM := by
  unfold sumMeasure
  rw [lintegral_add_measure, measurableEmbedding_inl.lintegral_map,
    measurableEmbedding_inr.lintegral_map]

theorem setLIntegral_sumMeasure (lamD : Measure D) (lamM : Measure M) (f : D ⊕ M → ℝ≥0∞)
    {B : Set (D ⊕ M)} (hB : MeasurableSet B) :
    ∫⁻ x in B, f x ∂(sumMeasure lamD lamM)
      = ∫⁻ d in Sum.inl ⁻¹' B, f (Sum.inl d) ∂lamD + ∫⁻ m in Sum.inr ⁻¹' B, f (Sum.inr m) ∂lamM := by
  rw [← lintegral_indicator hB, lintegral_sumMeasure,
    ← lintegral_indicator (measurable_inl hB), ← lintegral_indicator (measurable_inr hB)]
  rfl

/-- joint target density: model probability `pD` times the within-model density on `D`, `1 - pD`
    times the within-model density on `M` -/
noncomputable def sumTarget (pD : ℝ≥0∞) (πD : D → ℝ≥0∞) (πM : M → ℝ≥0∞) : D ⊕ M → ℝ≥0∞ :=
  Sum.elim (fun d => pD * πD d) (fun m => (1 - pD) * πM m)

omit [MeasurableSpace D] [MeasurableSpace M] in
@[simp] theorem sumTarget_inl (pD : ℝ≥0∞) (πD : D → ℝ≥0∞) (πM : M → ℝ≥0∞) (d : D) :
    sumTarget pD πD πM (Sum.inl d) = pD * πD d := rfl

omit [MeasurableSpace D] [MeasurableSpace M] in
@[simp] theorem sumTarget_inr (pD : ℝ≥0∞) (πD : D → ℝ≥0∞) (πM : M → ℝ≥0∞) (m : M) :
    sumTarget pD πD πM (Sum.inr m) = (1 - pD) * πM m := rfl

theorem measurable_sumTarget (pD : ℝ≥0∞) {πD : D → ℝ≥0∞} {πM : M → ℝ≥0∞} (hD : Measurable πD)
    (hM : Measurable πM) : Measurable (sumTarget pD πD πM) :=
  (hD.const_mul pD).sumElim (hM.const_mul _)

/-- a kernel out of a sum type from a kernel out of each summand -/
noncomputable def sumKernel {Y : Type*} [MeasurableSpace Y] (κ : Kernel D Y) (η : Kernel M Y) :
    Kernel (D ⊕ M) Y :=
  ⟨Sum.elim κ η, κ.measurable.sumElim η.measurable⟩

@[simp] theorem sumKernel_inl {Y : Type*} [MeasurableSpace Y] (κ : Kernel D Y) (η : Kernel M Y)
    (d : D) : sumKernel κ η (Sum.inl d) = κ d := rfl

@[simp] theorem sumKernel_inr {Y : Type*} [MeasurableSpace Y] (κ : Kernel D Y) (η : Kernel M Y)
    (m : M) : sumKernel κ η (Sum.inr m) = η m := rfl

theorem sumKernel_isMarkov {Y : Type*} [MeasurableSpace Y] (κ : Kernel D Y) (η : Kernel M Y)
    [IsMarkovKernel κ] [IsMarkovKernel η] : IsMarkovKernel (sumKernel κ η) :=
  ⟨fun x => by cases x <;> simp only [sumKernel_inl, sumKernel_inr] <;> infer_instance⟩

/-- the within-model kernels lifted to the two-model space: from a state of `D` move within `D`
    with `κD`, from a state of `M` move within `M` with `κM` -/
noncomputable def withinKernel (κD : Kernel D D) (κM : Kernel M M) : Kernel (D ⊕ M) (D ⊕ M) :=
  sumKernel (κD.map Sum.inl) (κM.map Sum.inr)

theorem withinKernel_inl (κD : Kernel D D) (κM : Kernel M M) (d : D) {B : Set (D ⊕ M)}
    (hB : MeasurableSet B) : withinKernel κD κM (Sum.inl d) B = κD d (Sum.inl ⁻¹' B) := by
  unfold withinKernel
  rw [sumKernel_inl, Kernel.map_apply' _ measurable_inl _ hB]

theorem withinKernel_inr (κD : Kernel D D) (κM : Kernel M M) (m : M) {B : Set (D ⊕ M)}
    (hB : MeasurableSet B) : withinKernel κD κM (Sum.inr m) B = κM m (Sum.inr ⁻¹' B) := by
  unfold withinKernel
  rw [sumKernel_inr, Kernel.map_apply' _ measurable_inr _ hB]

theorem withinKernel_isMarkov (κD : Kernel D D) (κM : Kernel M M) [IsMarkovKernel κD]
    [IsMarkovKernel κM] : IsMarkovKernel (withinKernel κD κM) := by
  unfold withinKernel
  have := Kernel.IsMarkovKernel.map κD (measurable_inl (α := D) (β := M))
  have := Kernel.IsMarkovKernel.map κM (measurable_inr (α := D) (β := M))
  exact sumKernel_isMarkov _ _

/-- within-model stationarity of each model ⇒ joint stationarity of the lifted kernel
    (set-function form) -/
theorem within_stationary (lamD : Measure D) (lamM : Measure M) (pD : ℝ≥0∞) {πD : D → ℝ≥0∞}
    {πM : M → ℝ≥0∞} {κD : Kernel D D} {κM : Kernel M M}
    (hD : ∀ B, MeasurableSet B → ∫⁻ d, πD d * κD d B ∂lamD = ∫⁻ d in B, πD d ∂lamD)
    (hM : ∀ B, MeasurableSet B → ∫⁻ m, πM m * κM m B ∂lamM = ∫⁻ m in B, πM m ∂lamM)
    (hπD : Measurable πD) (hπM : Measurable πM) {B : Set (D ⊕ M)} (hB : MeasurableSet B) :
    ∫⁻ x, sumTarget pD πD πM x * withinKernel κD κM x B ∂(sumMeasure lamD lamM)
      = ∫⁻ x in B, sumTarget pD πD πM x ∂(sumMeasure lamD lamM) := by
  have hBD := measurable_inl hB
  have hBM := measurable_inr hB
  rw [lintegral_sumMeasure, setLIntegral_sumMeasure _ _ _ hB]
  simp only [sumTarget_inl, sumTarget_inr, withinKernel_inl _ _ _ hB, withinKernel_inr _ _ _ hB,
    mul_assoc]
  have m1 : Measurable fun d => πD d * κD d (Sum.inl ⁻¹' B) :=
    hπD.mul (Kernel.measurable_coe κD hBD)
  have m2 : Measurable fun m => πM m * κM m (Sum.inr ⁻¹' B) :=
    hπM.mul (Kernel.measurable_coe κM hBM)
  rw [lintegral_const_mul _ m1, lintegral_const_mul _ m2,
    lintegral_const_mul _ hπD, lintegral_const_mul _ hπM, hD _ hBD, hM _ hBM]

end SumSpace

/-! ### the reversible-jump kernel between `D` and `M = D × G` -/
section Jump
variable {D G : Type*} [MeasurableSpace D] [MeasurableSpace G]

/-- probability that the jump proposed from `d` is accepted: `∫ qJ(d,g) aUp(d,g) λ_G(dg)` -/
noncomputable def upProb (lamG : Measure G) (qJ aUp : D → G → ℝ≥0∞) (d : D) : ℝ≥0∞ :=
  ∫⁻ g, qJ d g * aUp d g ∂lamG

/-- the jump kernel as a set function.  From the state `d` of the small model: draw `g` with
    density `qJ d ·`, propose `(d, g)` in the large model, accept with probability `aUp d g`,
    otherwise stay at `d`.  From the state `m = (d, g)` of the large model: propose `d` (drop the
    extra coordinates), accept with probability `aDown m`, otherwise stay at `m`. -/
noncomputable def jumpK (lamG : Measure G) (qJ aUp : D → G → ℝ≥0∞) (aDown : D × G → ℝ≥0∞) :
    D ⊕ D × G → Set (D ⊕ D × G) → ℝ≥0∞
  | .inl d, B => ∫⁻ g in {g | Sum.inr (d, g) ∈ B}, qJ d g * aUp d g ∂lamG
      + (1 - upProb lamG qJ aUp d) * B.indicator 1 (Sum.inl d)
  | .inr m, B => aDown m * B.indicator 1 (Sum.inl m.1) + (1 - aDown m) * B.indicator 1 (Sum.inr m)

omit [MeasurableSpace D] in
theorem jumpK_inl (lamG : Measure G) (qJ aUp : D → G → ℝ≥0∞) (aDown : D × G → ℝ≥0∞) (d : D)
    (B : Set (D ⊕ D × G)) :
    jumpK lamG qJ aUp aDown (Sum.inl d) B
      = ∫⁻ g in Prod.mk d ⁻¹' (Sum.inr ⁻¹' B), qJ d g * aUp d g ∂lamG
        + (1 - upProb lamG qJ aUp d) * (Sum.inl ⁻¹' B).indicator 1 d := rfl

omit [MeasurableSpace D] in
theorem jumpK_inr (lamG : Measure G) (qJ aUp : D → G → ℝ≥0∞) (aDown : D × G → ℝ≥0∞) (m : D × G)
    (B : Set (D ⊕ D × G)) :
    jumpK lamG qJ aUp aDown (Sum.inr m) B
      = aDown m * (Sum.inl ⁻¹' B).indicator 1 m.1 + (1 - aDown m) * (Sum.inr ⁻¹' B).indicator 1 m :=
  rfl

variable {lamD : Measure D} {lamG : Measure G} {qJ aUp : D → G → ℝ≥0∞} {aDown : D × G → ℝ≥0∞}

theorem measurable_qaUp (hq : Measurable (Function.uncurry qJ))
    (ha : Measurable (Function.uncurry aUp)) :
    Measurable (Function.uncurry fun d g => qJ d g * aUp d g) := hq.mul ha

theorem measurable_upProb [SFinite lamG] (hq : Measurable (Function.uncurry qJ))
    (ha : Measurable (Function.uncurry aUp)) : Measurable (upProb lamG qJ aUp) :=
  (measurable_qaUp hq ha).lintegral_prod_right'

omit [MeasurableSpace D] in
theorem upProb_le_one (hqn : ∀ d, ∫⁻ g, qJ d g ∂lamG = 1) (ha1 : ∀ d g, aUp d g ≤ 1) (d : D) :
    upProb lamG qJ aUp d ≤ 1 := by
  rw [← hqn d]
  exact lintegral_mono fun g => by simpa using mul_le_mul_right (ha1 d g) (qJ d g)

theorem measurable_setLIntegral_section [SFinite lamG] {f : D → G → ℝ≥0∞}
    (hf : Measurable (Function.uncurry f)) {BM : Set (D × G)} (hBM : MeasurableSet BM) :
    Measurable fun d => ∫⁻ g in Prod.mk d ⁻¹' BM, f d g ∂lamG := by
  have h : Measurable fun d => ∫⁻ g, BM.indicator (Function.uncurry f) (d, g) ∂lamG :=
    (hf.indicator hBM).lintegral_prod_right'
  have e : (fun d => ∫⁻ g in Prod.mk d ⁻¹' BM, f d g ∂lamG)
      = fun d => ∫⁻ g, BM.indicator (Function.uncurry f) (d, g) ∂lamG := by
    funext d
    rw [← lintegral_indicator (measurable_prodMk_left hBM)]
    rfl
  rw [e]; exact h

/-- flow from the small model into the set `BM` of the large model: Tonelli and the jump balance -/
theorem jump_flow_up [SFinite lamG] {pD : ℝ≥0∞} {πD : D → ℝ≥0∞} {πM : D × G → ℝ≥0∞}
    (hπM : Measurable πM) (hq : Measurable (Function.uncurry qJ))
    (ha : Measurable (Function.uncurry aUp)) (haD : Measurable aDown)
    (hdb : ∀ d g, pD * πD d * qJ d g * aUp d g = (1 - pD) * πM (d, g) * aDown (d, g))
    {BM : Set (D × G)} (hBM : MeasurableSet BM) :
    ∫⁻ d, pD * πD d * ∫⁻ g in Prod.mk d ⁻¹' BM, qJ d g * aUp d g ∂lamG ∂lamD
      = ∫⁻ m in BM, (1 - pD) * πM m * aDown m ∂(lamD.prod lamG) := by
  have hqa := measurable_qaUp hq ha
  have hF : Measurable fun m : D × G => (1 - pD) * πM m * aDown m := (hπM.const_mul _).mul haD
  rw [← lintegral_indicator hBM, lintegral_prod _ (hF.indicator hBM).aemeasurable]
  refine lintegral_congr fun d => ?_
  rw [← lintegral_const_mul _ (Measurable.of_uncurry_left hqa),
    ← lintegral_indicator (measurable_prodMk_left hBM)]
  refine lintegral_congr fun g => ?_
  by_cases hg : (d, g) ∈ BM
  · rw [Set.indicator_of_mem (show g ∈ Prod.mk d ⁻¹' BM from hg), Set.indicator_of_mem hg,
      ← mul_assoc, hdb]
  · rw [Set.indicator_of_notMem (show g ∉ Prod.mk d ⁻¹' BM from hg), Set.indicator_of_notMem hg]

/-- flow from the large model into the set `BD` of the small model -/
theorem jump_flow_down [SFinite lamG] {pD : ℝ≥0∞} {πD : D → ℝ≥0∞} {πM : D × G → ℝ≥0∞}
    (hπM : Measurable πM) (hq : Measurable (Function.uncurry qJ))
    (ha : Measurable (Function.uncurry aUp)) (haD : Measurable aDown)
    (hdb : ∀ d g, pD * πD d * qJ d g * aUp d g = (1 - pD) * πM (d, g) * aDown (d, g))
    {BD : Set D} (hBD : MeasurableSet BD) :
    ∫⁻ m, (1 - pD) * πM m * (aDown m * BD.indicator 1 m.1) ∂(lamD.prod lamG)
      = ∫⁻ d in BD, pD * πD d * upProb lamG qJ aUp d ∂lamD := by
  have hqa := measurable_qaUp hq ha
  have hind : Measurable fun m : D × G => BD.indicator (1 : D → ℝ≥0∞) m.1 :=
    (measurable_one.indicator hBD).comp measurable_fst
  have hF : Measurable fun m : D × G => (1 - pD) * πM m * (aDown m * BD.indicator 1 m.1) :=
    (hπM.const_mul _).mul (haD.mul hind)
  rw [← lintegral_indicator hBD, lintegral_prod _ hF.aemeasurable]
  refine lintegral_congr fun d => ?_
  by_cases hd : d ∈ BD
  · rw [Set.indicator_of_mem hd]
    unfold upProb
    rw [← lintegral_const_mul _ (Measurable.of_uncurry_left hqa)]
    refine lintegral_congr fun g => ?_
    simp only [Set.indicator_of_mem hd, Pi.one_apply, mul_one]
    rw [← mul_assoc, hdb]
  · simp [Set.indicator_of_notMem hd]

/-- **the jump kernel leaves the joint target invariant** (set-function form) -/
theorem jumpK_stationary [SFinite lamD] [SFinite lamG] {pD : ℝ≥0∞} {πD : D → ℝ≥0∞}
    {πM : D × G → ℝ≥0∞} (hπD : Measurable πD) (hπM : Measurable πM)
    (hq : Measurable (Function.uncurry qJ)) (ha : Measurable (Function.uncurry aUp))
    (haD : Measurable aDown) (hqn : ∀ d, ∫⁻ g, qJ d g ∂lamG = 1) (ha1 : ∀ d g, aUp d g ≤ 1)
    (haD1 : ∀ m, aDown m ≤ 1)
    (hdb : ∀ d g, pD * πD d * qJ d g * aUp d g = (1 - pD) * πM (d, g) * aDown (d, g))
    {B : Set (D ⊕ D × G)} (hB : MeasurableSet B) :
    ∫⁻ x, sumTarget pD πD πM x * jumpK lamG qJ aUp aDown x B ∂(sumMeasure lamD (lamD.prod lamG))
      = ∫⁻ x in B, sumTarget pD πD πM x ∂(sumMeasure lamD (lamD.prod lamG)) := by
  have hBD : MeasurableSet (Sum.inl ⁻¹' B) := measurable_inl hB
  have hBM : MeasurableSet (Sum.inr ⁻¹' B) := measurable_inr hB
  have hA := measurable_upProb (lamG := lamG) hq ha
  have hqa := measurable_qaUp hq ha
  have hpπ : Measurable fun d => pD * πD d := hπD.const_mul _
  have hpπM : Measurable fun m => (1 - pD) * πM m := hπM.const_mul _
  rw [lintegral_sumMeasure, setLIntegral_sumMeasure _ _ _ hB]
  simp only [sumTarget_inl, sumTarget_inr, jumpK_inl, jumpK_inr, mul_add]
  have m1 : Measurable fun d => pD * πD d
      * ∫⁻ g in Prod.mk d ⁻¹' (Sum.inr ⁻¹' B), qJ d g * aUp d g ∂lamG :=
    hpπ.mul (measurable_setLIntegral_section hqa hBM)
  have m3 : Measurable fun m : D × G =>
      (1 - pD) * πM m * (aDown m * (Sum.inl ⁻¹' B).indicator 1 m.1) :=
    hpπM.mul (haD.mul ((measurable_one.indicator hBD).comp measurable_fst))
  have s2 : ∫⁻ d, pD * πD d * ((1 - upProb lamG qJ aUp d) * (Sum.inl ⁻¹' B).indicator 1 d) ∂lamD
      = ∫⁻ d in Sum.inl ⁻¹' B, pD * πD d * (1 - upProb lamG qJ aUp d) ∂lamD :=
    flow_stay hBD _
  have s4 : ∫⁻ m, (1 - pD) * πM m * ((1 - aDown m) * (Sum.inr ⁻¹' B).indicator 1 m)
        ∂(lamD.prod lamG)
      = ∫⁻ m in Sum.inr ⁻¹' B, (1 - pD) * πM m * (1 - aDown m) ∂(lamD.prod lamG) :=
    flow_stay hBM _
  have e1 : ∫⁻ d in Sum.inl ⁻¹' B, pD * πD d * (1 - upProb lamG qJ aUp d) ∂lamD
      + ∫⁻ d in Sum.inl ⁻¹' B, pD * πD d * upProb lamG qJ aUp d ∂lamD
      = ∫⁻ d in Sum.inl ⁻¹' B, pD * πD d ∂lamD := by
    have mm : Measurable fun d => pD * πD d * (1 - upProb lamG qJ aUp d) :=
      hpπ.mul (measurable_const.sub hA)
    rw [← lintegral_add_left mm]
    refine lintegral_congr fun d => ?_
    rw [← mul_add, tsub_add_cancel_of_le (upProb_le_one hqn ha1 d), mul_one]
  have e2 : ∫⁻ m in Sum.inr ⁻¹' B, (1 - pD) * πM m * aDown m ∂(lamD.prod lamG)
      + ∫⁻ m in Sum.inr ⁻¹' B, (1 - pD) * πM m * (1 - aDown m) ∂(lamD.prod lamG)
      = ∫⁻ m in Sum.inr ⁻¹' B, (1 - pD) * πM m ∂(lamD.prod lamG) := by
    have mm : Measurable fun m => (1 - pD) * πM m * aDown m := hpπM.mul haD
    rw [← lintegral_add_left mm]
    refine lintegral_congr fun m => ?_
    rw [← mul_add, add_tsub_cancel_of_le (haD1 m), mul_one]
  rw [lintegral_add_left m1, lintegral_add_left m3, jump_flow_up hπM hq ha haD hdb hBM,
    jump_flow_down hπM hq ha haD hdb hBD, s2, s4, ← e1, ← e2]
  ring

/-- the kernel `d ↦ law of (d, g)` with `g` distributed with density `f d ·` w.r.t. `lamG`
    (the zero kernel if `f` is not measurable, as for `Kernel.withDensity`; no finiteness of `f`
    is needed) -/
noncomputable def upMove (lamG : Measure G) [SFinite lamG] (f : D → G → ℝ≥0∞) : Kernel D (D × G) :=
  open Classical in
  if h : Measurable (Function.uncurry f) then
    ⟨fun d => (lamG.withDensity (f d)).map (Prod.mk d), by
      refine Measure.measurable_of_measurable_coe _ fun s hs => ?_
      simp only [Measure.map_apply measurable_prodMk_left hs,
        withDensity_apply _ (measurable_prodMk_left hs)]
      exact measurable_setLIntegral_section h hs⟩
  else 0

theorem upMove_apply [SFinite lamG] {f : D → G → ℝ≥0∞} (h : Measurable (Function.uncurry f))
    (d : D) {s : Set (D × G)} (hs : MeasurableSet s) :
    upMove lamG f d s = ∫⁻ g in Prod.mk d ⁻¹' s, f d g ∂lamG := by
  unfold upMove
  rw [dif_pos h]
  show ((lamG.withDensity (f d)).map (Prod.mk d)) s = _
  rw [Measure.map_apply measurable_prodMk_left hs, withDensity_apply _ (measurable_prodMk_left hs)]

/-- the jump kernel as a Mathlib `Kernel` on the two-model space -/
noncomputable def jumpKernel (lamG : Measure G) [SFinite lamG] (qJ aUp : D → G → ℝ≥0∞)
    (aDown : D × G → ℝ≥0∞) : Kernel (D ⊕ D × G) (D ⊕ D × G) :=
  sumKernel
    (Kernel.map (upMove lamG fun d g => qJ d g * aUp d g) Sum.inr
      + Kernel.withDensity (Kernel.deterministic (Sum.inl : D → D ⊕ D × G) measurable_inl)
          (fun d _ => 1 - upProb lamG qJ aUp d))
    (Kernel.withDensity (Kernel.deterministic (fun m : D × G => (Sum.inl m.1 : D ⊕ D × G))
          (measurable_inl.comp measurable_fst)) (fun m _ => aDown m)
      + Kernel.withDensity (Kernel.deterministic (Sum.inr : D × G → D ⊕ D × G) measurable_inr)
          (fun m _ => 1 - aDown m))

/-- on measurable sets the `Kernel` is the set function `jumpK` -/
theorem jumpKernel_apply [SFinite lamG] (hq : Measurable (Function.uncurry qJ))
    (ha : Measurable (Function.uncurry aUp)) (haD : Measurable aDown) (x : D ⊕ D × G)
    {B : Set (D ⊕ D × G)} (hB : MeasurableSet B) :
    jumpKernel lamG qJ aUp aDown x B = jumpK lamG qJ aUp aDown x B := by
  have hBM : MeasurableSet (Sum.inr ⁻¹' B) := measurable_inr hB
  cases x with
  | inl d =>
    have hs : Measurable (Function.uncurry fun (d : D) (_ : D ⊕ D × G) =>
        1 - upProb lamG qJ aUp d) :=
      (measurable_const.sub (measurable_upProb hq ha)).comp measurable_fst
    show (Kernel.map (upMove lamG fun d g => qJ d g * aUp d g) Sum.inr d
      + Kernel.withDensity (Kernel.deterministic (Sum.inl : D → D ⊕ D × G) measurable_inl)
          (fun d _ => 1 - upProb lamG qJ aUp d) d : Measure (D ⊕ D × G)) B = _
    rw [Measure.add_apply, Kernel.map_apply' _ measurable_inr _ hB,
      upMove_apply (measurable_qaUp hq ha) _ hBM, Kernel.withDensity_apply' _ hs, Kernel.deterministic_apply, setLIntegral_const,
      Measure.dirac_apply' _ hB, jumpK_inl]
    rfl
  | inr m =>
    have hs1 : Measurable (Function.uncurry fun (m : D × G) (_ : D ⊕ D × G) => aDown m) :=
      haD.comp measurable_fst
    have hs2 : Measurable (Function.uncurry fun (m : D × G) (_ : D ⊕ D × G) => 1 - aDown m) :=
      (measurable_const.sub haD).comp measurable_fst
    show (Kernel.withDensity (Kernel.deterministic (fun m : D × G => (Sum.inl m.1 : D ⊕ D × G))
          (measurable_inl.comp measurable_fst)) (fun m _ => aDown m) m
      + Kernel.withDensity (Kernel.deterministic (Sum.inr : D × G → D ⊕ D × G) measurable_inr)
          (fun m _ => 1 - aDown m) m : Measure (D ⊕ D × G)) B = _
    rw [Measure.add_apply, Kernel.withDensity_apply' _ hs1, Kernel.withDensity_apply' _ hs2,
      Kernel.deterministic_apply, Kernel.deterministic_apply, setLIntegral_const,
      setLIntegral_const, Measure.dirac_apply' _ hB, Measure.dirac_apply' _ hB, jumpK_inr]
    rfl

/-- the jump kernel is a Markov kernel -/
theorem jumpKernel_isMarkov [SFinite lamG] (hq : Measurable (Function.uncurry qJ))
    (ha : Measurable (Function.uncurry aUp)) (haD : Measurable aDown)
    (hqn : ∀ d, ∫⁻ g, qJ d g ∂lamG = 1) (ha1 : ∀ d g, aUp d g ≤ 1) (haD1 : ∀ m, aDown m ≤ 1) :
    IsMarkovKernel (jumpKernel lamG qJ aUp aDown) := by
  refine ⟨fun x => ⟨?_⟩⟩
  rw [jumpKernel_apply hq ha haD x MeasurableSet.univ]
  cases x with
  | inl d =>
    rw [jumpK_inl]
    simp only [Set.preimage_univ, Measure.restrict_univ, Set.indicator_univ, Pi.one_apply, mul_one]
    exact add_tsub_cancel_of_le (upProb_le_one hqn ha1 d)
  | inr m =>
    rw [jumpK_inr]
    simp only [Set.preimage_univ, Set.indicator_univ, Pi.one_apply, mul_one]
    exact add_tsub_cancel_of_le (haD1 m)

end Jump

end MTfitVerif.TransD
