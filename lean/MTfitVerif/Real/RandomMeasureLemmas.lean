import Mathlib.Probability.Distributions.Gaussian.Multivariate
import Mathlib.LinearAlgebra.CrossProduct
import MTfitVerif.Model.RandomMT
import MTfitVerif.Real.Inst
import MTfitVerif.Real.RandomMTLemmas
/-
  Helper lemmas for the measure-theoretic half of C08: bridging maps between the model's
  `V6 ℝ` / `V3 ℝ` records and Mathlib's Euclidean spaces, the model samplers expressed in
  Euclidean-space terms, measurability, and absence of an atom of the standard Gaussian at 0.
-/
namespace MTfitVerif.RandomMT
open MTfitVerif MTfitVerif.Convert MeasureTheory ProbabilityTheory

/-- Euclidean six-space (the space of six-vectors of a moment tensor) -/
abbrev E6 := EuclideanSpace ℝ (Fin 6)
/-- Euclidean three-space -/
abbrev E3 := EuclideanSpace ℝ (Fin 3)

/-! ### six-vectors -/

/-- model six-vector → Euclidean six-space -/
noncomputable def toE6 (v : V6 ℝ) : E6 := WithLp.toLp 2 ![v.a, v.b, v.c, v.d, v.e, v.f]
/-- Euclidean six-space → model six-vector -/
def ofE6 (x : E6) : V6 ℝ := ⟨x 0, x 1, x 2, x 3, x 4, x 5⟩

@[simp] theorem toE6_apply0 (v : V6 ℝ) : toE6 v 0 = v.a := rfl
@[simp] theorem toE6_apply1 (v : V6 ℝ) : toE6 v 1 = v.b := rfl
@[simp] theorem toE6_apply2 (v : V6 ℝ) : toE6 v 2 = v.c := rfl
@[simp] theorem toE6_apply3 (v : V6 ℝ) : toE6 v 3 = v.d := rfl
@[simp] theorem toE6_apply4 (v : V6 ℝ) : toE6 v 4 = v.e := rfl
@[simp] theorem toE6_apply5 (v : V6 ℝ) : toE6 v 5 = v.f := rfl

theorem ofE6_toE6 (v : V6 ℝ) : ofE6 (toE6 v) = v := rfl

theorem toE6_ofE6 (x : E6) : toE6 (ofE6 x) = x := by
  ext i; fin_cases i <;> rfl

theorem norm_toE6 (v : V6 ℝ) : ‖toE6 v‖ = v.norm := by
  rw [EuclideanSpace.norm_eq, Fin.sum_univ_six, v6_norm_eq]
  simp only [toE6_apply0, toE6_apply1, toE6_apply2, toE6_apply3, toE6_apply4, toE6_apply5,
    Real.norm_eq_abs, sq_abs, sqs]
  congr 1; ring

theorem norm_ofE6 (x : E6) : (ofE6 x).norm = ‖x‖ := by
  rw [← norm_toE6, toE6_ofE6]

/-- the model sampler, seen in Euclidean six-space, is `x ↦ ‖x‖⁻¹ • x` -/
theorem toE6_randomMt (v : V6 ℝ) : toE6 (randomMt v) = ‖toE6 v‖⁻¹ • toE6 v := by
  rw [norm_toE6, randomMt_eq]
  ext i; fin_cases i <;> simp [div_eq_inv_mul]

theorem toE6_randomMt_ofE6 (x : E6) : toE6 (randomMt (ofE6 x)) = ‖x‖⁻¹ • x := by
  rw [toE6_randomMt, toE6_ofE6]

theorem sampler6_eq : (fun x : E6 => toE6 (randomMt (ofE6 x))) = fun x => ‖x‖⁻¹ • x :=
  funext toE6_randomMt_ofE6

theorem measurable_sampler6 : Measurable (fun x : E6 => toE6 (randomMt (ofE6 x))) := by
  rw [sampler6_eq]; fun_prop

/-- normalising commutes with every linear isometry -/
theorem normalize_comm {E F : Type*} [NormedAddCommGroup E] [NormedSpace ℝ E]
    [NormedAddCommGroup F] [NormedSpace ℝ F] (U : E ≃ₗᵢ[ℝ] F) (x : E) :
    U (‖x‖⁻¹ • x) = ‖U x‖⁻¹ • U x := by
  rw [map_smul, LinearIsometryEquiv.norm_map]

theorem norm_normalize {E : Type*} [NormedAddCommGroup E] [NormedSpace ℝ E] {x : E} (hx : x ≠ 0) :
    ‖‖x‖⁻¹ • x‖ = 1 := by
  rw [norm_smul, norm_inv, norm_norm, inv_mul_cancel₀ (norm_ne_zero_iff.mpr hx)]

/-! ### three-vectors -/

/-- model three-vector → Euclidean three-space -/
noncomputable def toE3 (v : V3 ℝ) : E3 := WithLp.toLp 2 ![v.x, v.y, v.z]
/-- Euclidean three-space → model three-vector -/
def ofE3 (x : E3) : V3 ℝ := ⟨x 0, x 1, x 2⟩

@[simp] theorem toE3_apply0 (v : V3 ℝ) : toE3 v 0 = v.x := rfl
@[simp] theorem toE3_apply1 (v : V3 ℝ) : toE3 v 1 = v.y := rfl
@[simp] theorem toE3_apply2 (v : V3 ℝ) : toE3 v 2 = v.z := rfl

theorem ofE3_toE3 (v : V3 ℝ) : ofE3 (toE3 v) = v := rfl

theorem toE3_ofE3 (x : E3) : toE3 (ofE3 x) = x := by
  ext i; fin_cases i <;> rfl

theorem toE3_injective : Function.Injective toE3 := fun a b h => by
  rw [← ofE3_toE3 a, ← ofE3_toE3 b, h]

theorem v3_norm_eq (v : V3 ℝ) : v.norm = √(v.x * v.x + v.y * v.y + v.z * v.z) := rfl

theorem norm_toE3 (v : V3 ℝ) : ‖toE3 v‖ = v.norm := by
  rw [EuclideanSpace.norm_eq, Fin.sum_univ_three, v3_norm_eq]
  simp only [toE3_apply0, toE3_apply1, toE3_apply2, Real.norm_eq_abs, sq_abs]
  congr 1; ring

theorem norm_ofE3 (x : E3) : (ofE3 x).norm = ‖x‖ := by
  rw [← norm_toE3, toE3_ofE3]

/-- the model's `unit`, seen in Euclidean three-space, is `x ↦ ‖x‖⁻¹ • x` -/
theorem toE3_unit (v : V3 ℝ) : toE3 v.unit = ‖toE3 v‖⁻¹ • toE3 v := by
  rw [norm_toE3]
  ext i; fin_cases i <;> simp [V3.unit, V3.sdiv, div_eq_inv_mul]

/-- the model's cross product, seen in Euclidean three-space -/
noncomputable def crossE (a b : E3) : E3 := toE3 (V3.cross (ofE3 a) (ofE3 b))

theorem toE3_cross (a b : V3 ℝ) : toE3 (V3.cross a b) = crossE (toE3 a) (toE3 b) := rfl

theorem crossE_eq (a b : E3) : crossE a b =
    WithLp.toLp 2 ![a 1 * b 2 - a 2 * b 1, a 2 * b 0 - a 0 * b 2, a 0 * b 1 - a 1 * b 0] := rfl

theorem measurable_coordE3 (i : Fin 3) : Measurable (fun x : E3 => x i) :=
  (EuclideanSpace.proj i).continuous.measurable

theorem measurable_crossE {Ω : Type*} [MeasurableSpace Ω] {f g : Ω → E3} (hf : Measurable f)
    (hg : Measurable g) : Measurable (fun ω => crossE (f ω) (g ω)) := by
  simp only [crossE_eq]
  refine (WithLp.measurable_toLp 2 _).comp (measurable_pi_iff.mpr fun i => ?_)
  have hf' : ∀ j, Measurable fun ω => f ω j := fun j => (measurable_coordE3 j).comp hf
  have hg' : ∀ j, Measurable fun ω => g ω j := fun j => (measurable_coordE3 j).comp hg
  fin_cases i
  · exact ((hf' 1).mul (hg' 2)).sub ((hf' 2).mul (hg' 1))
  · exact ((hf' 2).mul (hg' 0)).sub ((hf' 0).mul (hg' 2))
  · exact ((hf' 0).mul (hg' 1)).sub ((hf' 1).mul (hg' 0))

/-- the model's `triad`, transported to Euclidean three-space -/
noncomputable def triadE (p : E3 × E3) : E3 × E3 × E3 :=
  (toE3 (triad (ofE3 p.1) (ofE3 p.2)).1, toE3 (triad (ofE3 p.1) (ofE3 p.2)).2.1,
    toE3 (triad (ofE3 p.1) (ofE3 p.2)).2.2)

/-- direction map -/
noncomputable def dirE (x : E3) : E3 := ‖x‖⁻¹ • x

theorem measurable_dirE : Measurable dirE := by unfold dirE; fun_prop

theorem triadE_eq (p : E3 × E3) : triadE p =
    (dirE p.1, dirE (crossE (dirE p.1) p.2), dirE (crossE (dirE p.1) (dirE (crossE (dirE p.1) p.2)))) := by
  have h1 : toE3 (ofE3 p.1).unit = dirE p.1 := by rw [toE3_unit, toE3_ofE3]; rfl
  have h2 : toE3 (V3.cross (ofE3 p.1).unit (ofE3 p.2)).unit = dirE (crossE (dirE p.1) p.2) := by
    rw [toE3_unit, toE3_cross, h1, toE3_ofE3]; rfl
  have h3 : toE3 (V3.cross (ofE3 p.1).unit (V3.cross (ofE3 p.1).unit (ofE3 p.2)).unit).unit
      = dirE (crossE (dirE p.1) (dirE (crossE (dirE p.1) p.2))) := by
    rw [toE3_unit, toE3_cross, h1, h2]; rfl
  simp only [triadE, triad_eq, h1, h2, h3]

theorem measurable_triadE : Measurable triadE := by
  have e : triadE = fun p : E3 × E3 =>
      (dirE p.1, dirE (crossE (dirE p.1) p.2),
        dirE (crossE (dirE p.1) (dirE (crossE (dirE p.1) p.2)))) := funext triadE_eq
  rw [e]
  have m1 : Measurable fun p : E3 × E3 => dirE p.1 := measurable_dirE.comp measurable_fst
  have m2 : Measurable fun p : E3 × E3 => dirE (crossE (dirE p.1) p.2) :=
    measurable_dirE.comp (measurable_crossE m1 measurable_snd)
  have m3 : Measurable fun p : E3 × E3 => dirE (crossE (dirE p.1) (dirE (crossE (dirE p.1) p.2))) :=
    measurable_dirE.comp (measurable_crossE m1 m2)
  exact m1.prodMk (m2.prodMk m3)

/-- a linear isometry of Euclidean three-space acting on model three-vectors -/
noncomputable def actV3 (R : E3 ≃ₗᵢ[ℝ] E3) (v : V3 ℝ) : V3 ℝ := ofE3 (R (toE3 v))

theorem toE3_actV3 (R : E3 ≃ₗᵢ[ℝ] E3) (v : V3 ℝ) : toE3 (actV3 R v) = R (toE3 v) := toE3_ofE3 _

theorem actV3_ofE3 (R : E3 ≃ₗᵢ[ℝ] E3) (x : E3) : actV3 R (ofE3 x) = ofE3 (R x) := by
  rw [actV3, toE3_ofE3]

/-- normalising commutes with an isometry (unconditionally: `unit 0 = 0`) -/
theorem unit_actV3 (R : E3 ≃ₗᵢ[ℝ] E3) (v : V3 ℝ) : (actV3 R v).unit = actV3 R v.unit := by
  apply toE3_injective
  rw [toE3_unit, toE3_actV3, toE3_actV3, toE3_unit, normalize_comm]

/-! ### proper rotations preserve the cross product -/

open Matrix in
/-- for a rotation matrix the adjugate (transposed cofactor matrix) is the transpose -/
theorem adjugate_eq_transpose_of_rot (A : Matrix (Fin 3) (Fin 3) ℝ) (hA : A * Aᵀ = 1)
    (hd : A.det = 1) : A.adjugate = Aᵀ := by
  calc A.adjugate = A.adjugate * (A * Aᵀ) := by rw [hA, mul_one]
    _ = (A.adjugate * A) * Aᵀ := by rw [Matrix.mul_assoc]
    _ = Aᵀ := by rw [Matrix.adjugate_mul, hd, one_smul, Matrix.one_mul]

open Matrix in
/-- an orthogonal matrix of determinant one commutes with the cross product -/
theorem mulVec_cross_of_rot (A : Matrix (Fin 3) (Fin 3) ℝ) (hA : A * Aᵀ = 1) (hd : A.det = 1)
    (a b : Fin 3 → ℝ) : A *ᵥ (a ⨯₃ b) = (A *ᵥ a) ⨯₃ (A *ᵥ b) := by
  have h := adjugate_eq_transpose_of_rot A hA hd
  rw [Matrix.adjugate_fin_three] at h
  have e := fun i j => congrFun (congrFun h i) j
  have e00 := e 0 0; have e01 := e 0 1; have e02 := e 0 2
  have e10 := e 1 0; have e11 := e 1 1; have e12 := e 1 2
  have e20 := e 2 0; have e21 := e 2 1; have e22 := e 2 2
  simp at e00 e01 e02 e10 e11 e12 e20 e21 e22
  ext i
  fin_cases i
  · simp [Matrix.mulVec, dotProduct, Fin.sum_univ_three, cross_apply]
    linear_combination -(a 1 * b 2 - a 2 * b 1) * e00 - (a 2 * b 0 - a 0 * b 2) * e10
      - (a 0 * b 1 - a 1 * b 0) * e20
  · simp [Matrix.mulVec, dotProduct, Fin.sum_univ_three, cross_apply]
    linear_combination -(a 1 * b 2 - a 2 * b 1) * e01 - (a 2 * b 0 - a 0 * b 2) * e11
      - (a 0 * b 1 - a 1 * b 0) * e21
  · simp [Matrix.mulVec, dotProduct, Fin.sum_univ_three, cross_apply]
    linear_combination -(a 1 * b 2 - a 2 * b 1) * e02 - (a 2 * b 0 - a 0 * b 2) * e12
      - (a 0 * b 1 - a 1 * b 0) * e22

/-- a model three-vector as a function on `Fin 3` -/
def vec3 (v : V3 ℝ) : Fin 3 → ℝ := ![v.x, v.y, v.z]

theorem vec3_injective : Function.Injective vec3 := fun a b h => by
  have e : ∀ v : V3 ℝ, v = ⟨vec3 v 0, vec3 v 1, vec3 v 2⟩ := fun _ => rfl
  rw [e a, e b, h]

open Matrix in
theorem vec3_cross (a b : V3 ℝ) : vec3 (V3.cross a b) = vec3 a ⨯₃ vec3 b := by
  rw [cross_apply]; rfl

theorem vec3_ofE3 (y : E3) : vec3 (ofE3 y) = WithLp.ofLp y := by
  funext i; fin_cases i <;> rfl

/-- matrix of a linear isometry of Euclidean three-space in the standard basis -/
noncomputable def matE3 (R : E3 ≃ₗᵢ[ℝ] E3) : Matrix (Fin 3) (Fin 3) ℝ :=
  LinearMap.toMatrix (EuclideanSpace.basisFun (Fin 3) ℝ).toBasis
    (EuclideanSpace.basisFun (Fin 3) ℝ).toBasis (R.toLinearEquiv : E3 →ₗ[ℝ] E3)

open Matrix in
theorem matE3_mulVec (R : E3 ≃ₗᵢ[ℝ] E3) (x : E3) :
    matE3 R *ᵥ WithLp.ofLp x = WithLp.ofLp (R x) :=
  LinearMap.toMatrix_mulVec_repr (EuclideanSpace.basisFun (Fin 3) ℝ).toBasis
    (EuclideanSpace.basisFun (Fin 3) ℝ).toBasis (R.toLinearEquiv : E3 →ₗ[ℝ] E3) x

open Matrix in
theorem matE3_orth (R : E3 ≃ₗᵢ[ℝ] E3) : matE3 R * (matE3 R)ᵀ = 1 :=
  (Matrix.mem_orthogonalGroup_iff (Fin 3) ℝ).mp
    (R.toMatrix_mem_unitaryGroup (EuclideanSpace.basisFun (Fin 3) ℝ)
      (EuclideanSpace.basisFun (Fin 3) ℝ))

theorem matE3_det (R : E3 ≃ₗᵢ[ℝ] E3) :
    (matE3 R).det = LinearMap.det (R.toLinearEquiv : E3 →ₗ[ℝ] E3) :=
  LinearMap.det_toMatrix _ _

open Matrix in
theorem vec3_actV3 (R : E3 ≃ₗᵢ[ℝ] E3) (v : V3 ℝ) : vec3 (actV3 R v) = matE3 R *ᵥ vec3 v := by
  rw [actV3, vec3_ofE3, ← matE3_mulVec]; rfl

/-- a linear isometry of determinant one commutes with the model's cross product -/
theorem actV3_cross_of_det_one (R : E3 ≃ₗᵢ[ℝ] E3)
    (hdet : LinearMap.det (R.toLinearEquiv : E3 →ₗ[ℝ] E3) = 1) (a b : V3 ℝ) :
    actV3 R (V3.cross a b) = V3.cross (actV3 R a) (actV3 R b) := by
  apply vec3_injective
  rw [vec3_actV3, vec3_cross, vec3_cross, vec3_actV3, vec3_actV3,
    mulVec_cross_of_rot _ (matE3_orth R) ((matE3_det R).trans hdet)]

/-! ### the induced action `M ↦ R M Rᵀ` on sampled tensors -/

section Conj
open Matrix

/-- the full symmetric matrix of a tensor given by its six components -/
def symMat (m : Sym3 ℝ) : Matrix (Fin 3) (Fin 3) ℝ :=
  !![m.xx, m.xy, m.xz; m.xy, m.yy, m.yz; m.xz, m.yz, m.zz]

/-- `M ↦ A M Aᵀ` on symmetric tensors -/
def conjSym (A : Matrix (Fin 3) (Fin 3) ℝ) (m : Sym3 ℝ) : Sym3 ℝ :=
  ⟨(A * symMat m * Aᵀ) 0 0, (A * symMat m * Aᵀ) 1 1, (A * symMat m * Aᵀ) 2 2,
   (A * symMat m * Aᵀ) 0 1, (A * symMat m * Aᵀ) 0 2, (A * symMat m * Aᵀ) 1 2⟩

/-- matrix times model three-vector -/
def mulV3 (A : Matrix (Fin 3) (Fin 3) ℝ) (v : V3 ℝ) : V3 ℝ :=
  ⟨A 0 0 * v.x + A 0 1 * v.y + A 0 2 * v.z, A 1 0 * v.x + A 1 1 * v.y + A 1 2 * v.z,
   A 2 0 * v.x + A 2 1 * v.y + A 2 2 * v.z⟩

theorem actV3_eq_mulV3 (R : E3 ≃ₗᵢ[ℝ] E3) (v : V3 ℝ) : actV3 R v = mulV3 (matE3 R) v := by
  apply vec3_injective
  rw [vec3_actV3]
  funext i
  fin_cases i <;> simp [Matrix.mulVec, dotProduct, Fin.sum_univ_three, vec3, mulV3]

theorem conjSym_entries (A : Matrix (Fin 3) (Fin 3) ℝ) (m : Sym3 ℝ) (i j : Fin 3) :
    (A * symMat m * Aᵀ) i j =
      (A i 0 * m.xx + A i 1 * m.xy + A i 2 * m.xz) * A j 0
      + (A i 0 * m.xy + A i 1 * m.yy + A i 2 * m.yz) * A j 1
      + (A i 0 * m.xz + A i 1 * m.yz + A i 2 * m.zz) * A j 2 := by
  simp [Matrix.mul_apply, Fin.sum_univ_three, symMat]

theorem rebuild_mulV3 (A : Matrix (Fin 3) (Fin 3) ℝ) (T N P e : V3 ℝ) :
    rebuild (mulV3 A T) (mulV3 A N) (mulV3 A P) e = conjSym A (rebuild T N P e) := by
  simp only [conjSym, conjSym_entries]
  simp only [rebuild, mulV3, Sym3.mk.injEq]
  refine ⟨?_, ?_, ?_, ?_, ?_, ?_⟩ <;> ring


theorem dot_eq_inner (a b : V3 ℝ) : V3.dot a b = inner ℝ (toE3 a) (toE3 b) := by
  rw [PiLp.inner_apply, Fin.sum_univ_three]
  simp [V3.dot, mul_comm]

theorem dot_actV3 (R : E3 ≃ₗᵢ[ℝ] E3) (a b : V3 ℝ) : V3.dot (actV3 R a) (actV3 R b) = V3.dot a b := by
  rw [dot_eq_inner, dot_eq_inner, toE3_actV3, toE3_actV3, LinearIsometryEquiv.inner_map_map]

/-- the Frobenius norm of `Σ eₖ vₖvₖᵀ` is unchanged when the three vectors are moved by an isometry -/
theorem rebuild_norm_actV3 (R : E3 ≃ₗᵢ[ℝ] E3) (T N P e : V3 ℝ) :
    (lune_raw6 (rebuild (actV3 R T) (actV3 R N) (actV3 R P) e)).norm
      = (lune_raw6 (rebuild T N P e)).norm := by
  rw [lune_raw6_norm, lune_raw6_norm, lune_rebuild_frob, lune_rebuild_frob]
  simp only [dot_actV3]

/-- induced action `M ↦ A M Aᵀ` on six-vectors `(Mxx, Myy, Mzz, √2Mxy, √2Mxz, √2Myz)` -/
noncomputable def conj6 (A : Matrix (Fin 3) (Fin 3) ℝ) (v : V6 ℝ) : V6 ℝ :=
  lune_raw6 (conjSym A (mt6ToMt33 v))

theorem conj6_mt33ToMt6 (A : Matrix (Fin 3) (Fin 3) ℝ) (m : Sym3 ℝ) :
    conj6 A (mt33ToMt6 m) =
      ⟨(lune_raw6 (conjSym A m)).a / (lune_raw6 m).norm, (lune_raw6 (conjSym A m)).b / (lune_raw6 m).norm,
       (lune_raw6 (conjSym A m)).c / (lune_raw6 m).norm, (lune_raw6 (conjSym A m)).d / (lune_raw6 m).norm,
       (lune_raw6 (conjSym A m)).e / (lune_raw6 m).norm, (lune_raw6 (conjSym A m)).f / (lune_raw6 m).norm⟩ := by
  rw [lune_mt33ToMt6_eq]
  generalize (lune_raw6 m).norm = n
  simp only [conj6, lune_mt6ToMt33_eq, mul_div_assoc, lune_inv_sqrt2_mul, conjSym, conjSym_entries,
    lune_raw6, V6.mk.injEq]
  refine ⟨?_, ?_, ?_, ?_, ?_, ?_⟩ <;> ring

/-- rotating both raw draws conjugates the sampled tensor: `M ↦ R M Rᵀ` -/
theorem eigvecsToMt6_actV3 (R : E3 ≃ₗᵢ[ℝ] E3) (diag a b cc : V3 ℝ) :
    eigvecsToMt6 diag (actV3 R a) (actV3 R b) (actV3 R cc)
      = conj6 (matE3 R) (eigvecsToMt6 diag a b cc) := by
  unfold eigvecsToMt6
  rw [conj6_mt33ToMt6, lune_mt33ToMt6_eq, rebuild_norm_actV3]
  simp only [actV3_eq_mulV3, rebuild_mulV3]
  rfl


theorem randomType_eq (diag a x : V3 ℝ) :
    randomType diag a x = eigvecsToMt6 diag (triad a x).1 (triad a x).2.1 (triad a x).2.2 := rfl

/-- the induced action on Euclidean six-space -/
noncomputable def conjE6 (R : E3 ≃ₗᵢ[ℝ] E3) (x : E6) : E6 := toE6 (conj6 (matE3 R) (ofE6 x))

theorem measurable_coordE6 (i : Fin 6) : Measurable (fun x : E6 => x i) :=
  (EuclideanSpace.proj i).continuous.measurable

theorem measurable_toE6 {Ω : Type*} [MeasurableSpace Ω] {f : Ω → V6 ℝ}
    (ha : Measurable fun ω => (f ω).a) (hb : Measurable fun ω => (f ω).b)
    (hc : Measurable fun ω => (f ω).c) (hd : Measurable fun ω => (f ω).d)
    (he : Measurable fun ω => (f ω).e) (hf : Measurable fun ω => (f ω).f) :
    Measurable fun ω => toE6 (f ω) := by
  refine (WithLp.measurable_toLp 2 _).comp (measurable_pi_iff.mpr fun i => ?_)
  fin_cases i
  exacts [ha, hb, hc, hd, he, hf]

theorem measurable_conjE6 (R : E3 ≃ₗᵢ[ℝ] E3) : Measurable (conjE6 R) := by
  have h := measurable_coordE6
  unfold conjE6
  apply measurable_toE6 <;>
  · simp only [conj6, lune_mt6ToMt33_eq, conjSym, conjSym_entries, lune_raw6, ofE6]
    fun_prop


theorem measurable_eigvecsToMt6 {Ω : Type*} [MeasurableSpace Ω] (diag : V3 ℝ) {a b c : Ω → E3}
    (ha : Measurable a) (hb : Measurable b) (hc : Measurable c) :
    Measurable fun ω => toE6 (eigvecsToMt6 diag (ofE3 (a ω)) (ofE3 (b ω)) (ofE3 (c ω))) := by
  have ha' : ∀ j, Measurable fun ω => a ω j := fun j => (measurable_coordE3 j).comp ha
  have hb' : ∀ j, Measurable fun ω => b ω j := fun j => (measurable_coordE3 j).comp hb
  have hc' : ∀ j, Measurable fun ω => c ω j := fun j => (measurable_coordE3 j).comp hc
  apply measurable_toE6 <;>
  · simp only [eigvecsToMt6, lune_mt33ToMt6_eq, lune_raw6_norm]
    simp only [rebuild, ofE3]
    fun_prop

/-- the tensor sampler on two Euclidean three-vectors -/
noncomputable def randomTypeE (diag : V3 ℝ) (p : E3 × E3) : E6 :=
  toE6 (randomType diag (ofE3 p.1) (ofE3 p.2))

theorem randomTypeE_eq (diag : V3 ℝ) (p : E3 × E3) : randomTypeE diag p =
    toE6 (eigvecsToMt6 diag (ofE3 (triadE p).1) (ofE3 (triadE p).2.1) (ofE3 (triadE p).2.2)) := rfl

theorem measurable_randomTypeE (diag : V3 ℝ) : Measurable (randomTypeE diag) := by
  have e : randomTypeE diag = fun p => toE6 (eigvecsToMt6 diag (ofE3 (triadE p).1)
      (ofE3 (triadE p).2.1) (ofE3 (triadE p).2.2)) := funext (randomTypeE_eq diag)
  rw [e]
  exact measurable_eigvecsToMt6 diag measurable_triadE.fst measurable_triadE.snd.fst
    measurable_triadE.snd.snd

/-- `conjSym A m` really is the symmetric tensor `A M Aᵀ` -/
theorem symMat_conjSym (A : Matrix (Fin 3) (Fin 3) ℝ) (m : Sym3 ℝ) :
    symMat (conjSym A m) = A * symMat m * Aᵀ := by
  ext i j
  rw [conjSym_entries]
  simp only [conjSym, conjSym_entries]
  fin_cases i <;> fin_cases j <;> simp [symMat] <;> ring

/-- the tensor of `conj6 A v` is `A M Aᵀ`, `M` the tensor of `v` -/
theorem mt6ToMt33_conj6 (A : Matrix (Fin 3) (Fin 3) ℝ) (v : V6 ℝ) :
    mt6ToMt33 (conj6 A v) = conjSym A (mt6ToMt33 v) := by
  rw [conj6, lune_mt6ToMt33_eq (lune_raw6 _)]
  simp only [lune_raw6, lune_inv_sqrt2_mul]

end Conj

/-! ### no atom at the origin -/

instance : NullSingletonClass (gaussianReal 0 1) := nullSingletonClass_gaussianReal one_ne_zero

theorem stdGaussian_euclidean_singleton {ι : Type*} [Fintype ι] [Nonempty ι]
    (x : EuclideanSpace ℝ ι) : stdGaussian (EuclideanSpace ℝ ι) {x} = 0 := by
  rw [← map_pi_eq_stdGaussian, Measure.map_apply (WithLp.measurable_toLp 2 _) (measurableSet_singleton x)]
  have : (WithLp.toLp 2 : (ι → ℝ) → EuclideanSpace ℝ ι) ⁻¹' {x} = {WithLp.ofLp x} := by
    ext y; simp only [Set.mem_preimage, Set.mem_singleton_iff]
    constructor
    · rintro rfl; rfl
    · rintro rfl; rfl
  rw [this]
  exact measure_singleton _

/-! ### degenerate draws form a null set -/

/-- a standard Gaussian vector almost surely avoids any fixed hyperplane through the origin -/
theorem stdGaussian_hyperplane {E : Type*} [NormedAddCommGroup E] [InnerProductSpace ℝ E]
    [FiniteDimensional ℝ E] [MeasurableSpace E] [BorelSpace E] {w : E} (hw : w ≠ 0) :
    stdGaussian E {x | inner ℝ w x = 0} = 0 := by
  have hmap := IsGaussian.map_eq_gaussianReal (μ := stdGaussian E) (innerSL ℝ w)
  have hvar : Var[innerSL ℝ w; stdGaussian E] = ‖w‖ ^ 2 := by
    rw [variance_dual_stdGaussian, innerSL_apply_norm]
  have hne : (Var[innerSL ℝ w; stdGaussian E]).toNNReal ≠ 0 := by
    rw [hvar]; simp [hw]
  have hset : {x : E | inner ℝ w x = 0} = (innerSL ℝ w) ⁻¹' {0} := by
    ext x; simp
  rw [hset, ← Measure.map_apply (innerSL ℝ w).continuous.measurable (measurableSet_singleton 0), hmap]
  have := nullSingletonClass_gaussianReal (μ := (stdGaussian E)[innerSL ℝ w]) hne
  exact measure_singleton 0


theorem crossE_apply0 (a b : E3) : crossE a b 0 = a 1 * b 2 - a 2 * b 1 := rfl
theorem crossE_apply2 (a b : E3) : crossE a b 2 = a 0 * b 1 - a 1 * b 0 := rfl

/-- a standard Gaussian three-vector is almost surely not parallel to a fixed non-zero vector -/
theorem stdGaussian_parallel_null {a : E3} (ha : a ≠ 0) :
    stdGaussian E3 {y | crossE a y = 0} = 0 := by
  by_cases h01 : a 0 ≠ 0 ∨ a 1 ≠ 0
  · have hw : (WithLp.toLp 2 ![-a 1, a 0, 0] : E3) ≠ 0 := by
      intro h
      have h0 := congrArg (fun v : E3 => v 0) h
      have h1 := congrArg (fun v : E3 => v 1) h
      simp at h0 h1
      rcases h01 with h | h
      · exact h h1
      · exact h h0
    refine measure_mono_null (fun y hy => ?_) (stdGaussian_hyperplane hw)
    have h2 : crossE a y 2 = 0 := by rw [show crossE a y = 0 from hy]; rfl
    rw [crossE_apply2] at h2
    show inner ℝ _ y = 0
    simp only [PiLp.inner_apply, Fin.sum_univ_three]
    simp
    linarith
  · have h0 : a 0 = 0 := by by_contra h; exact h01 (Or.inl h)
    have h1 : a 1 = 0 := by by_contra h; exact h01 (Or.inr h)
    have h2 : a 2 ≠ 0 := by
      intro h2; apply ha; ext i; fin_cases i <;> simp [h0, h1, h2]
    have hw : (WithLp.toLp 2 ![0, -a 2, a 1] : E3) ≠ 0 := by
      intro h
      have h1' := congrArg (fun v : E3 => v 1) h
      simp at h1'
      exact h2 h1'
    refine measure_mono_null (fun y hy => ?_) (stdGaussian_hyperplane hw)
    have hc : crossE a y 0 = 0 := by rw [show crossE a y = 0 from hy]; rfl
    rw [crossE_apply0] at hc
    show inner ℝ _ y = 0
    simp only [PiLp.inner_apply, Fin.sum_univ_three]
    simp
    linarith


theorem dirE_ne_zero {x : E3} (hx : x ≠ 0) : dirE x ≠ 0 := by
  intro h
  have := norm_normalize hx
  rw [show ‖x‖⁻¹ • x = dirE x from rfl, h, norm_zero] at this
  exact zero_ne_one this

/-- the degenerate draws: first vector zero, or second vector parallel to the first -/
def degenerate : Set (E3 × E3) := {p | p.1 = 0 ∨ crossE (dirE p.1) p.2 = 0}

theorem measurableSet_degenerate : MeasurableSet degenerate := by
  have h1 : MeasurableSet {p : E3 × E3 | p.1 = 0} :=
    (measurableSet_singleton (0 : E3)).preimage measurable_fst
  have h2 : MeasurableSet {p : E3 × E3 | crossE (dirE p.1) p.2 = 0} :=
    (measurableSet_singleton (0 : E3)).preimage
      (measurable_crossE (measurable_dirE.comp measurable_fst) measurable_snd)
  exact h1.union h2

/-- two independent standard Gaussian three-vectors are almost surely not degenerate -/
theorem degenerate_null : ((stdGaussian E3).prod (stdGaussian E3)) degenerate = 0 := by
  refine Measure.measure_prod_null_of_ae_null measurableSet_degenerate ?_
  have h0 : ∀ᵐ x ∂(stdGaussian E3), x ∉ ({0} : Set E3) :=
    measure_eq_zero_iff_ae_notMem.mp (stdGaussian_euclidean_singleton (0 : E3))
  filter_upwards [h0] with x hx
  have hx0 : x ≠ 0 := hx
  have hs : Prod.mk x ⁻¹' degenerate = {y | crossE (dirE x) y = 0} := by
    ext y
    simp only [degenerate, Set.mem_preimage]
    exact ⟨fun h => h.resolve_left hx0, Or.inr⟩
  rw [hs]
  exact stdGaussian_parallel_null (dirE_ne_zero hx0)

theorem ae_not_degenerate :
    ∀ᵐ p ∂((stdGaussian E3).prod (stdGaussian E3)), p.1 ≠ 0 ∧ crossE (dirE p.1) p.2 ≠ 0 := by
  filter_upwards [measure_eq_zero_iff_ae_notMem.mp degenerate_null] with p hp
  exact not_or.mp hp

theorem dot_self_ne_zero_iff (v : V3 ℝ) : V3.dot v v ≠ 0 ↔ toE3 v ≠ 0 := by
  rw [dot_eq_inner, real_inner_self_eq_norm_sq]
  simp

end MTfitVerif.RandomMT
