import MTfitVerif.Model.PyxSpec
import MTfitVerif.Real.PyxLoopLemmas
import MTfitVerif.Real.PyxRelativeLemmas
/-
  Helper lemmas for C20D (`Props/C20Misc.lean`): folds that read a cell, change it and write it back
  (`ln_combine`, `ln_multipliers` of cprobability.pyx), the `w`-outer / `v`-inner loop nest over such cells, and list folds
  over `List.range n` that read a list by index (`c_ln_normalise`, `c_dkl`, `c_dkl_uniform`).
  Core/Std only; everything is polymorphic in the scalar type.
-/
namespace MTfitVerif
namespace PyxMisc
open PyxSpec PyxLoop PyxRel

section plain
variable {α : Type}

/-! ### folds of read-modify-write steps on array cells -/

theorem size_foldl_modify {ι : Type} (l : List ι) (idx : ι → Nat) (g : ι → α → α) (d : α) (P : Array α) :
    (l.foldl (fun P y => P.setIfInBounds (idx y) (g y (P.getD (idx y) d))) P).size = P.size := by
  induction l generalizing P with
  | nil => rfl
  | cons k l ih => simp only [List.foldl_cons]; rw [ih]; simp

/-- a cell that no step addresses is unchanged -/
theorem getD_foldl_modify_of_not_mem {ι : Type} (l : List ι) (idx : ι → Nat) (g : ι → α → α) (d : α) (P : Array α)
    (j : Nat) (hj : ∀ y ∈ l, idx y ≠ j) :
    (l.foldl (fun P y => P.setIfInBounds (idx y) (g y (P.getD (idx y) d))) P).getD j d = P.getD j d := by
  induction l generalizing P with
  | nil => rfl
  | cons y l ih =>
    simp only [List.foldl_cons]
    rw [ih _ (fun z hz => hj z (List.mem_cons_of_mem _ hz)), getD_setIfInBounds_ne _ _ _ _ _ (hj y List.mem_cons_self)]

/-- a cell addressed by exactly one step of the fold holds that step's function of its initial value -/
theorem getD_foldl_modify {ι : Type} (l : List ι) (idx : ι → Nat) (g : ι → α → α) (d : α) (P : Array α) (x : ι)
    (hx : x ∈ l) (hnd : (l.map idx).Nodup) (hb : idx x < P.size) :
    (l.foldl (fun P y => P.setIfInBounds (idx y) (g y (P.getD (idx y) d))) P).getD (idx x) d
      = g x (P.getD (idx x) d) := by
  induction l generalizing P with
  | nil => cases hx
  | cons y l ih =>
    simp only [List.foldl_cons]
    rw [List.map_cons, List.nodup_cons] at hnd
    by_cases hxy : idx y = idx x
    · have hnot : ∀ z ∈ l, idx z ≠ idx x := by
        intro z hz hzx
        exact hnd.1 (List.mem_map.mpr ⟨z, hz, hzx.trans hxy.symm⟩)
      rw [getD_foldl_modify_of_not_mem _ _ _ _ _ _ hnot, hxy, getD_setIfInBounds_self _ _ _ _ hb]
      rcases List.mem_cons.mp hx with h | h
      · subst h; rfl
      · exact absurd rfl (hnot x h)
    · rcases List.mem_cons.mp hx with h | h
      · subst h; exact absurd rfl hxy
      · rw [ih _ h hnd.2 (by simpa using hb), getD_setIfInBounds_ne _ _ _ _ _ hxy]

/-! ### the `w`-outer / `v`-inner loop nest that modifies cell `v * wmax + w` -/

/-- cell `v * wmax + w` is replaced by `G v w` of its content, for `w` (outer loop) and `v` (inner loop) in range -/
def modifyCells (G : Nat → Nat → α → α) (d : α) (vmax wmax : Nat) (P : Array α) : Array α :=
  (List.range wmax).foldl
    (fun P w => (List.range vmax).foldl
      (fun P v => P.setIfInBounds (v * wmax + w) (G v w (P.getD (v * wmax + w) d))) P) P

theorem modifyCells_eq_flat (G : Nat → Nat → α → α) (d : α) (vmax wmax : Nat) (P : Array α) :
    modifyCells G d vmax wmax P
      = ((List.range wmax).flatMap (fun w => (List.range vmax).map (fun v => (v, w)))).foldl
          (fun P y => P.setIfInBounds (y.1 * wmax + y.2) (G y.1 y.2 (P.getD (y.1 * wmax + y.2) d))) P := by
  simp only [modifyCells, List.foldl_flatMap, List.foldl_map]

theorem size_modifyCells (G : Nat → Nat → α → α) (d : α) (vmax wmax : Nat) (P : Array α) :
    (modifyCells G d vmax wmax P).size = P.size := by
  rw [modifyCells_eq_flat]
  exact size_foldl_modify _ (fun y : Nat × Nat => y.1 * wmax + y.2) (fun y => G y.1 y.2) d P

/-- the cell indices of the loop nest are pairwise different -/
theorem cells_nodup (vmax wmax : Nat) :
    (((List.range wmax).flatMap (fun w => (List.range vmax).map (fun v => (v, w)))).map
      (fun y : Nat × Nat => y.1 * wmax + y.2)).Nodup := by
  unfold List.Nodup
  rw [List.pairwise_map, List.pairwise_flatMap]
  refine ⟨fun w hw => ?_, ?_⟩
  · rw [List.pairwise_map]
    refine List.Pairwise.imp_of_mem ?_ (List.nodup_range (n := vmax))
    intro a b _ _ hab h
    have hw' : w < wmax := List.mem_range.mp hw
    exact hab (cell_inj hw' hw' h).1
  · refine List.Pairwise.imp_of_mem ?_ (List.nodup_range (n := wmax))
    intro a b ha hb hab y hy y' hy' h
    simp only [List.mem_map, List.mem_range] at hy hy'
    obtain ⟨_, _, rfl⟩ := hy
    obtain ⟨_, _, rfl⟩ := hy'
    exact hab (cell_inj (List.mem_range.mp hb) (List.mem_range.mp ha) h).2

/-- every cell `v * wmax + w` of the result holds `G v w` of its initial content -/
theorem getD_modifyCells (G : Nat → Nat → α → α) (d : α) (vmax wmax : Nat) (P : Array α)
    (hsize : vmax * wmax ≤ P.size) {v w : Nat} (hv : v < vmax) (hw : w < wmax) :
    (modifyCells G d vmax wmax P).getD (v * wmax + w) d = G v w (P.getD (v * wmax + w) d) := by
  rw [modifyCells_eq_flat]
  refine getD_foldl_modify _ (fun y : Nat × Nat => y.1 * wmax + y.2) (fun y => G y.1 y.2) d P (v, w) ?_
    (cells_nodup vmax wmax) ?_
  · simp only [List.mem_flatMap, List.mem_map, List.mem_range]
    exact ⟨w, hw, v, hv, rfl⟩
  · exact Nat.lt_of_lt_of_le (cell_lt hv hw) hsize

/-- the cells from `vmax * wmax` on are not touched -/
theorem getD_modifyCells_of_le (G : Nat → Nat → α → α) (d : α) (vmax wmax : Nat) (P : Array α) {j : Nat}
    (hj : vmax * wmax ≤ j) : (modifyCells G d vmax wmax P).getD j d = P.getD j d := by
  rw [modifyCells_eq_flat]
  refine getD_foldl_modify_of_not_mem _ (fun y : Nat × Nat => y.1 * wmax + y.2) (fun y => G y.1 y.2) d P j ?_
  rintro ⟨v', w'⟩ hy
  simp only [List.mem_flatMap, List.mem_map, List.mem_range, Prod.mk.injEq] at hy
  obtain ⟨w'', hw'', v'', hv'', rfl, rfl⟩ := hy
  exact Nat.ne_of_lt (Nat.lt_of_lt_of_le (cell_lt hv'' hw'') hj)

/-! ### loops over `range n` that read a list of length `n` by index -/

theorem map_getD_range (l : List α) (d : α) : (List.range l.length).map (fun i => l.getD i d) = l := by
  apply List.ext_getElem
  · simp
  · intro i h1 h2
    simp [List.getD_eq_getElem?_getD, h2]

/-- a loop `for i in range(len(l))` whose pass reads `l[i]` is the fold over the list -/
theorem foldl_range_getD {β : Type} (l : List α) (d : α) (f : β → α → β) (a : β) :
    (List.range l.length).foldl (fun s i => f s (l.getD i d)) a = l.foldl f a := by
  have h := List.foldl_map (f := fun i => l.getD i d) (g := f) (l := List.range l.length) (init := a)
  rw [map_getD_range] at h
  exact h.symm

theorem map_getD_range_zip {γ : Type} (l : List α) (m : List γ) (d : α) (e : γ) (h : m.length = l.length) :
    (List.range l.length).map (fun i => (l.getD i d, m.getD i e)) = l.zip m := by
  apply List.ext_getElem
  · simp [h]
  · intro i h1 h2
    simp only [List.length_zip, Nat.lt_min] at h2
    simp [List.getD_eq_getElem?_getD, h2.1, h2.2]

/-- the same for a loop that reads two lists of the same length -/
theorem foldl_range_getD₂ {β γ : Type} (l : List α) (m : List γ) (d : α) (e : γ) (h : m.length = l.length)
    (f : β → α × γ → β) (a : β) :
    (List.range l.length).foldl (fun s i => f s (l.getD i d, m.getD i e)) a = (l.zip m).foldl f a := by
  rw [← map_getD_range_zip l m d e h, List.foldl_map]

/-- the in-place loop `for i in range(len(l)): l[i] = g(l[i])`, from position `pre.length` on -/
theorem foldl_range'_set_map (g : α → α) (d : α) (pre l : List α) :
    (List.range' pre.length l.length).foldl (fun L i => L.set i (g (L.getD i d))) (pre ++ l) = pre ++ l.map g := by
  induction l generalizing pre with
  | nil => simp
  | cons x l ih =>
    rw [List.length_cons, List.range'_succ, List.foldl_cons]
    have h1 : (pre ++ x :: l).set pre.length (g ((pre ++ x :: l).getD pre.length d)) = (pre ++ [g x]) ++ l := by
      simp [List.getD_eq_getElem?_getD]
    rw [h1]
    have h2 := ih (pre ++ [g x])
    rw [List.length_append, List.length_singleton] at h2
    rw [h2]
    simp

/-- the in-place loop `for i in range(len(l)): l[i] = g(l[i])` maps `g` over the list -/
theorem foldl_range_set_map (g : α → α) (d : α) (l : List α) :
    (List.range l.length).foldl (fun L i => L.set i (g (L.getD i d))) l = l.map g := by
  have h := foldl_range'_set_map g d [] l
  simpa [List.range_eq_range'] using h

/-- the second component of a pair-state fold whose second component does not read the first -/
theorem foldl_pair_snd {β γ ι : Type} (l : List ι) (f : β × γ → ι → β) (h : γ → ι → γ) (a : β) (b : γ) :
    (l.foldl (fun s k => (f s k, h s.2 k)) (a, b)).2 = l.foldl h b := by
  induction l generalizing a b with
  | nil => rfl
  | cons k l ih => simp only [List.foldl_cons]; exact ih _ _

end plain

end PyxMisc
end MTfitVerif
