import MTfitVerif.Model.Convert
import MTfitVerif.Real.Inst
/-
  Helper lemmas for C13 (strike/dip/rake ↔ axes ↔ normal/slip) over ℝ.
-/
namespace MTfitVerif.ConvertSdr
open MTfitVerif MTfitVerif.Convert Real

theorem V3.ext' {a b : V3 ℝ} (hx : a.x = b.x) (hy : a.y = b.y) (hz : a.z = b.z) : a = b := by
  cases a; cases b; simp_all

/-- polar form: `atan2 (r sin θ) (r cos θ) = θ` for `r > 0`, `θ ∈ (−π, π]` -/
theorem atan2_polar (r θ : ℝ) (hr : 0 < r) (hθ : θ ∈ Set.Ioc (-π) π) :
    atan2 (r * sin θ) (r * cos θ) = θ := by
  unfold atan2
  have : (⟨r * cos θ, r * sin θ⟩ : ℂ) = (r:ℂ) * (Complex.cos θ + Complex.sin θ * Complex.I) := by
    apply Complex.ext <;> simp [Complex.cos_ofReal_re, Complex.sin_ofReal_re]
  rw [this]; exact Complex.arg_mul_cos_add_sin_mul_I hr hθ

theorem atan2_mem (y x : ℝ) : -π < atan2 y x ∧ atan2 y x ≤ π :=
  ⟨Complex.neg_pi_lt_arg _, Complex.arg_le_pi _⟩

theorem mod2pi_eq (x : ℝ) : mod2pi x = x - (⌊x / (2 * π)⌋ : ℝ) * (2 * π) := by
  simp [mod2pi]

theorem mod2pi_nonneg (x : ℝ) : 0 ≤ mod2pi x := by
  rw [mod2pi_eq]
  have h2 : (0:ℝ) < 2 * π := by positivity
  have := Int.floor_le (x / (2 * π))
  have h3 : (⌊x / (2 * π)⌋ : ℝ) * (2 * π) ≤ x := by
    calc (⌊x / (2 * π)⌋ : ℝ) * (2 * π) ≤ x / (2 * π) * (2 * π) := by gcongr
      _ = x := by field_simp
  linarith

theorem mod2pi_lt (x : ℝ) : mod2pi x < 2 * π := by
  rw [mod2pi_eq]
  have h2 : (0:ℝ) < 2 * π := by positivity
  have := Int.lt_floor_add_one (x / (2 * π))
  have h3 : x < ((⌊x / (2 * π)⌋ : ℝ) + 1) * (2 * π) := by
    calc x = x / (2 * π) * (2 * π) := by field_simp
      _ < ((⌊x / (2 * π)⌋ : ℝ) + 1) * (2 * π) := by gcongr
  linarith

theorem mod2pi_of_mem {x : ℝ} (h0 : 0 ≤ x) (h1 : x < 2 * π) : mod2pi x = x := by
  rw [mod2pi_eq]
  have h2 : (0:ℝ) < 2 * π := by positivity
  have : ⌊x / (2 * π)⌋ = 0 := by
    rw [Int.floor_eq_iff]; constructor
    · simp; positivity
    · simp; rw [div_lt_one h2]; exact h1
  rw [this]; simp

theorem mod2pi_of_neg {x : ℝ} (h0 : -(2 * π) ≤ x) (h1 : x < 0) : mod2pi x = x + 2 * π := by
  rw [mod2pi_eq]
  have h2 : (0:ℝ) < 2 * π := by positivity
  have : ⌊x / (2 * π)⌋ = -1 := by
    rw [Int.floor_eq_iff]; constructor
    · simp; rw [le_div_iff₀ h2]; linarith
    · simp; exact div_neg_of_neg_of_pos h1 h2
  rw [this]; simp


theorem sqrt2_mul_sqrt2 : (√2 : ℝ) * √2 = 2 := Real.mul_self_sqrt (by norm_num)

theorem unit_of_unit {a : V3 ℝ} (h : V3.dot a a = 1) : V3.unit a = a := by
  simp only [V3.unit, V3.norm, flt_sqrt, h, Real.sqrt_one, V3.sdiv, div_one]

theorem norm_add_of_orthonormal {a b : V3 ℝ} (ha : V3.dot a a = 1) (hb : V3.dot b b = 1)
    (hab : V3.dot a b = 0) : V3.norm (V3.add a b) = √2 := by
  have : V3.dot (V3.add a b) (V3.add a b) = 2 := by
    simp only [V3.dot, V3.add] at *
    linear_combination ha + hb + 2 * hab
  simp only [V3.norm, this, flt_sqrt]

theorem norm_sub_of_orthonormal {a b : V3 ℝ} (ha : V3.dot a a = 1) (hb : V3.dot b b = 1)
    (hab : V3.dot a b = 0) : V3.norm (V3.sub a b) = √2 := by
  have : V3.dot (V3.sub a b) (V3.sub a b) = 2 := by
    simp only [V3.dot, V3.sub] at *
    linear_combination ha + hb - 2 * hab
  simp only [V3.norm, this, flt_sqrt]

theorem fpToTnp_closed {a b : V3 ℝ} (ha : V3.dot a a = 1) (hb : V3.dot b b = 1)
    (hab : V3.dot a b = 0) :
    fpToTnp a b = (V3.sdiv (V3.add a b) (√2), V3.cross a b, V3.sdiv (V3.sub a b) (√2)) := by
  simp only [fpToTnp, V3.unit, norm_add_of_orthonormal ha hb hab, norm_sub_of_orthonormal ha hb hab]
  refine Prod.ext rfl (Prod.ext ?_ rfl)
  have h2 := sqrt2_mul_sqrt2
  have h0 : (√2 : ℝ) ≠ 0 := by positivity
  apply V3.ext' <;> simp only [V3.neg, V3.cross, V3.sdiv, V3.add, V3.sub] <;> field_simp
  · linear_combination (-(a.y * b.z - b.y * a.z)) * h2
  · linear_combination (-(a.z * b.x - b.z * a.x)) * h2
  · linear_combination (-(a.x * b.y - b.x * a.y)) * h2

theorem tpToFp_closed {a b : V3 ℝ} (ha : V3.dot a a = 1) (hb : V3.dot b b = 1) :
    tpToFp (V3.sdiv (V3.add a b) (√2)) (V3.sdiv (V3.sub a b) (√2)) = (a, b) := by
  have h2 := sqrt2_mul_sqrt2
  have h0 : (√2 : ℝ) ≠ 0 := by positivity
  have e1 : V3.add (V3.sdiv (V3.add a b) (√2)) (V3.sdiv (V3.sub a b) (√2)) = V3.smul (√2) a := by
    apply V3.ext' <;> simp only [V3.smul, V3.sdiv, V3.add, V3.sub] <;> field_simp <;>
      (rw [Real.sq_sqrt (by norm_num)]; ring)
  have e2 : V3.sub (V3.sdiv (V3.add a b) (√2)) (V3.sdiv (V3.sub a b) (√2)) = V3.smul (√2) b := by
    apply V3.ext' <;> simp only [V3.smul, V3.sdiv, V3.add, V3.sub] <;> field_simp <;>
      (rw [Real.sq_sqrt (by norm_num)]; ring)
  have u : ∀ v : V3 ℝ, V3.dot v v = 1 → V3.unit (V3.smul (√2) v) = v := by
    intro v hv
    have : V3.dot (V3.smul (√2) v) (V3.smul (√2) v) = 2 := by
      simp only [V3.dot, V3.smul] at *
      linear_combination 2 * hv + (v.x * v.x + v.y * v.y + v.z * v.z) * h2
    simp only [V3.unit, V3.norm, this, flt_sqrt]
    apply V3.ext' <;> simp only [V3.smul, V3.sdiv] <;> field_simp
  simp only [tpToFp, e1, e2, u a ha, u b hb]

/-- strike/dip of a (non-flipped, normalised) normal -/
noncomputable def sdOf (n : V3 ℝ) : ℝ × ℝ :=
  (mod2pi (atan2 (-n.x) n.y),
   atan2 (n.y * n.y + n.x * n.x) (√((n.x * n.z) * (n.x * n.z) + (n.y * n.z) * (n.y * n.z))))

theorem dot_self_nonneg (a : V3 ℝ) : 0 ≤ V3.dot a a := by
  simp only [V3.dot]; nlinarith [mul_self_nonneg a.x, mul_self_nonneg a.y, mul_self_nonneg a.z]

theorem unit_zero_of_dot_zero {a : V3 ℝ} (h : V3.dot a a = 0) : V3.unit a = ⟨0, 0, 0⟩ := by
  simp [V3.unit, V3.norm, h, V3.sdiv]

theorem dot_unit_unit {a : V3 ℝ} (h : V3.dot a a ≠ 0) : V3.dot a.unit a.unit = 1 := by
  have hp : 0 < V3.dot a a := lt_of_le_of_ne (dot_self_nonneg a) (Ne.symm h)
  have hs : √(V3.dot a a) * √(V3.dot a a) = V3.dot a a := Real.mul_self_sqrt hp.le
  have h0 : √(V3.dot a a) ≠ 0 := (Real.sqrt_pos.mpr hp).ne'
  simp only [V3.unit, V3.norm, V3.sdiv, flt_sqrt]
  generalize √(V3.dot a a) = q at *
  simp only [V3.dot] at *
  field_simp
  linear_combination -hs

theorem unit_unit (a : V3 ℝ) : a.unit.unit = a.unit := by
  by_cases h : V3.dot a a = 0
  · rw [unit_zero_of_dot_zero h]; exact unit_zero_of_dot_zero (by simp [V3.dot])
  · exact unit_of_unit (dot_unit_unit h)

theorem unit_neg (a : V3 ℝ) : a.neg.unit = a.unit.neg := by
  have : V3.dot a.neg a.neg = V3.dot a a := by simp [V3.dot, V3.neg]
  simp only [V3.unit, V3.norm, this]
  apply V3.ext' <;> simp [V3.neg, V3.sdiv, neg_div]

theorem normalToSd_of_unit {m : V3 ℝ} (hu : m.unit = m) (hz : ¬ 0 < m.z) : normalToSd m = sdOf m := by
  simp only [normalToSd, hu, flt_ltb, flt_c, Nat.cast_zero, hz, decide_false, Bool.false_eq_true,
    if_false, flt_atan2, flt_sqrt, sdOf]
/-- the rake computed by `fpToSdr` from the strike/dip pair `sd`, the (flipped, normalised) normal `m`
    and slip `t`: two analytically equal forms, the first used for near-horizontal planes -/
noncomputable def rakeRaw (sd : ℝ × ℝ) (m t : V3 ℝ) : ℝ :=
  if sin sd.2 < (sci 1 6 : ℝ) then
    atan2 (t.x * sin sd.1 * cos sd.2 - t.y * cos sd.1 * cos sd.2 - t.z * sin sd.2)
      (t.x * cos sd.1 + t.y * sin sd.1)
  else atan2 (-t.z) (t.x * m.y - t.y * m.x)

theorem rakeRaw_mem (sd : ℝ × ℝ) (m t : V3 ℝ) : -π < rakeRaw sd m t ∧ rakeRaw sd m t ≤ π := by
  unfold rakeRaw; split <;> exact atan2_mem _ _

theorem fpToSdr_noflip (normal slip : V3 ℝ) (h : ¬ 0 < normal.unit.z) :
    fpToSdr normal slip = (mod2pi (normalToSd normal.unit).1, (normalToSd normal.unit).2,
      rakeRaw (normalToSd normal.unit) normal.unit slip.unit) := by
  have := rakeRaw_mem (normalToSd normal.unit) normal.unit slip.unit
  unfold rakeRaw at *
  by_cases hc : sin (normalToSd normal.unit).2 < (sci 1 6 : ℝ)
  · simp only [hc, if_true] at this ⊢
    simp only [fpToSdr, flt_ltb, flt_c, Nat.cast_zero, h, decide_false, Bool.false_eq_true, if_false,
      flt_atan2, flt_pi, flt_sin, flt_cos, hc, decide_true, if_true, not_lt.mpr this.2, not_lt.mpr this.1.le]
  · simp only [hc, if_false] at this ⊢
    simp only [fpToSdr, flt_ltb, flt_c, Nat.cast_zero, h, decide_false, Bool.false_eq_true, if_false,
      flt_atan2, flt_pi, flt_sin, flt_cos, hc, not_lt.mpr this.2, not_lt.mpr this.1.le]

theorem fpToSdr_flip (normal slip : V3 ℝ) (h : 0 < normal.unit.z) :
    fpToSdr normal slip = (mod2pi (normalToSd normal.unit.neg).1, (normalToSd normal.unit.neg).2,
      rakeRaw (normalToSd normal.unit.neg) normal.unit.neg slip.unit.neg) := by
  have := rakeRaw_mem (normalToSd normal.unit.neg) normal.unit.neg slip.unit.neg
  unfold rakeRaw at *
  by_cases hc : sin (normalToSd normal.unit.neg).2 < (sci 1 6 : ℝ)
  · simp only [hc, if_true] at this ⊢
    simp only [fpToSdr, flt_ltb, flt_c, Nat.cast_zero, h, decide_true, if_true,
      flt_atan2, flt_pi, flt_sin, flt_cos, hc, not_lt.mpr this.2, not_lt.mpr this.1.le, decide_false,
      Bool.false_eq_true, if_false]
  · simp only [hc, if_false] at this ⊢
    simp only [fpToSdr, flt_ltb, flt_c, Nat.cast_zero, h, decide_true, if_true,
      flt_atan2, flt_pi, flt_sin, flt_cos, hc, not_lt.mpr this.2, not_lt.mpr this.1.le, decide_false,
      Bool.false_eq_true, if_false]

/-- rake of a (flipped, normalised) normal `m` and slip `t` -/
noncomputable def rakeOf (m t : V3 ℝ) : ℝ := rakeRaw (sdOf m) m t

theorem rakeOf_mem (m t : V3 ℝ) : -π < rakeOf m t ∧ rakeOf m t ≤ π := rakeRaw_mem _ _ _

/-- `fpToSdr` in closed form: `m`, `t` are the normalised normal and slip, both negated when the
    normal points down -/
theorem fpToSdr_eq (normal slip : V3 ℝ) :
    ∃ m t : V3 ℝ, ((m = normal.unit ∧ t = slip.unit ∧ ¬ 0 < normal.unit.z) ∨
        (m = normal.unit.neg ∧ t = slip.unit.neg ∧ 0 < normal.unit.z)) ∧ m.z ≤ 0 ∧
      fpToSdr normal slip = (mod2pi (sdOf m).1, (sdOf m).2, rakeOf m t) := by
  by_cases h : 0 < normal.unit.z
  · refine ⟨normal.unit.neg, slip.unit.neg, Or.inr ⟨rfl, rfl, h⟩, ?_, ?_⟩
    · simp only [V3.neg]; linarith
    · have hz : ¬ 0 < normal.unit.neg.z := by simp only [V3.neg]; linarith
      have hu : normal.unit.neg.unit = normal.unit.neg := by rw [unit_neg, unit_unit]
      rw [fpToSdr_flip _ _ h, normalToSd_of_unit hu hz]; rfl
  · refine ⟨normal.unit, slip.unit, Or.inl ⟨rfl, rfl, h⟩, not_lt.mp h, ?_⟩
    rw [fpToSdr_noflip _ _ h, normalToSd_of_unit (unit_unit _) h]; rfl

theorem atan2_nonneg_iff (y x : ℝ) : 0 ≤ atan2 y x ↔ 0 ≤ y := by
  unfold atan2; exact Complex.arg_nonneg_iff

theorem abs_atan2_le_iff (y x : ℝ) : |atan2 y x| ≤ π / 2 ↔ 0 ≤ x := by
  unfold atan2; exact Complex.abs_arg_le_pi_div_two_iff

theorem sdOf_dip_mem (m : V3 ℝ) : 0 ≤ (sdOf m).2 ∧ (sdOf m).2 ≤ π / 2 := by
  constructor
  · simp only [sdOf]; rw [atan2_nonneg_iff]; nlinarith [mul_self_nonneg m.x, mul_self_nonneg m.y]
  · refine le_trans (le_abs_self _) ?_
    simp only [sdOf]; rw [abs_atan2_le_iff]; exact Real.sqrt_nonneg _



theorem tnp_orthonormal {a b : V3 ℝ} (ha : V3.dot a a = 1) (hb : V3.dot b b = 1)
    (hab : V3.dot a b = 0) :
    let T := V3.sdiv (V3.add a b) (√2); let N := V3.cross a b; let P := V3.sdiv (V3.sub a b) (√2)
    V3.dot T T = 1 ∧ V3.dot N N = 1 ∧ V3.dot P P = 1 ∧ V3.dot T N = 0 ∧ V3.dot T P = 0 ∧ V3.dot N P = 0 := by
  have q : (√2 : ℝ) ^ 2 = 2 := Real.sq_sqrt (by norm_num)
  have h0 : (√2 : ℝ) ≠ 0 := by positivity
  simp only [V3.dot, V3.sdiv, V3.add, V3.sub, V3.cross] at *
  refine ⟨?_, ?_, ?_, ?_, ?_, ?_⟩
  · field_simp; rw [q]; linear_combination ha + hb + 2 * hab
  · linear_combination (b.x * b.x + b.y * b.y + b.z * b.z) * ha + hb - (a.x * b.x + a.y * b.y + a.z * b.z) * hab
  · field_simp; rw [q]; linear_combination ha + hb - 2 * hab
  · field_simp; ring
  · field_simp; linear_combination ha - hb
  · field_simp; ring


theorem strike_polar {ρ s : ℝ} (hρ : 0 < ρ) (hs0 : 0 ≤ s) (hs1 : s < 2 * π) :
    mod2pi (atan2 (ρ * sin s) (ρ * cos s)) = s := by
  by_cases h : s ≤ π
  · rw [atan2_polar ρ s hρ ⟨by linarith [pi_pos], h⟩, mod2pi_of_mem hs0 hs1]
  · have h' : π < s := not_le.mp h
    have e1 : sin s = sin (s - 2 * π) := (Real.sin_sub_two_pi s).symm
    have e2 : cos s = cos (s - 2 * π) := (Real.cos_sub_two_pi s).symm
    rw [e1, e2, atan2_polar ρ (s - 2 * π) hρ ⟨by linarith, by linarith⟩,
      mod2pi_of_neg (by linarith) (by linarith)]
    ring

theorem sdOf_sdrVec2 {s d : ℝ} (hs0 : 0 ≤ s) (hs1 : s < 2 * π) (hd0 : 0 < d) (hd1 : d ≤ π / 2) :
    sdOf (sdrVec2 s d) = (s, d) := by
  have hsd : 0 < sin d := Real.sin_pos_of_pos_of_lt_pi hd0 (by linarith [pi_pos])
  have hcd : 0 ≤ cos d := Real.cos_nonneg_of_mem_Icc ⟨by linarith [pi_pos], hd1⟩
  have e1 : -(sdrVec2 s d).x = sin d * sin s := by simp only [sdrVec2, flt_sin]; ring
  have e2 : (sdrVec2 s d).y = sin d * cos s := by simp only [sdrVec2, flt_sin, flt_cos]; ring
  have e3 : (sdrVec2 s d).y * (sdrVec2 s d).y + (sdrVec2 s d).x * (sdrVec2 s d).x = sin d * sin d := by
    simp only [sdrVec2, flt_sin, flt_cos]
    linear_combination (sin d * sin d) * Real.sin_sq_add_cos_sq s
  have e4 : √(((sdrVec2 s d).x * (sdrVec2 s d).z) * ((sdrVec2 s d).x * (sdrVec2 s d).z)
      + ((sdrVec2 s d).y * (sdrVec2 s d).z) * ((sdrVec2 s d).y * (sdrVec2 s d).z)) = sin d * cos d := by
    have : ((sdrVec2 s d).x * (sdrVec2 s d).z) * ((sdrVec2 s d).x * (sdrVec2 s d).z)
      + ((sdrVec2 s d).y * (sdrVec2 s d).z) * ((sdrVec2 s d).y * (sdrVec2 s d).z) = (sin d * cos d) ^ 2 := by
      simp only [sdrVec2, flt_sin, flt_cos]
      linear_combination (sin d * sin d * cos d * cos d) * Real.sin_sq_add_cos_sq s
    rw [this, Real.sqrt_sq (by positivity)]
  simp only [sdOf]
  rw [e4, e3, e1, e2, strike_polar hsd hs0 hs1,
    atan2_polar (sin d) d hsd ⟨by linarith [pi_pos], by linarith [pi_pos]⟩]

theorem rakeOf_sdrVecs {s d r : ℝ} (hs0 : 0 ≤ s) (hs1 : s < 2 * π) (hd0 : 0 < d) (hd1 : d ≤ π / 2)
    (hr0 : -π < r) (hr1 : r ≤ π) :
    rakeOf (sdrVec2 s d) (sdrVec1 s d r) = r := by
  have hsd : 0 < sin d := Real.sin_pos_of_pos_of_lt_pi hd0 (by linarith [pi_pos])
  have e1 : -(sdrVec1 s d r).z = sin d * sin r := by simp only [sdrVec1, flt_sin]; ring
  have e2 : (sdrVec1 s d r).x * (sdrVec2 s d).y - (sdrVec1 s d r).y * (sdrVec2 s d).x = sin d * cos r := by
    simp only [sdrVec1, sdrVec2, flt_sin, flt_cos]
    linear_combination (sin d * cos r) * Real.sin_sq_add_cos_sq s
  have e3 : (sdrVec1 s d r).x * sin s * cos d - (sdrVec1 s d r).y * cos s * cos d - (sdrVec1 s d r).z * sin d
      = 1 * sin r := by
    simp only [sdrVec1, flt_sin, flt_cos]
    linear_combination (sin r * cos d ^ 2) * Real.sin_sq_add_cos_sq s + sin r * Real.sin_sq_add_cos_sq d
  have e4 : (sdrVec1 s d r).x * cos s + (sdrVec1 s d r).y * sin s = 1 * cos r := by
    simp only [sdrVec1, flt_sin, flt_cos]
    linear_combination (cos r) * Real.sin_sq_add_cos_sq s
  rw [rakeOf, rakeRaw, sdOf_sdrVec2 hs0 hs1 hd0 hd1]
  simp only
  rw [e1, e2, e3, e4, atan2_polar _ _ hsd ⟨hr0, hr1⟩, atan2_polar _ _ one_pos ⟨hr0, hr1⟩, ite_self]

theorem pi_div_two_lt_abs_atan2 {y x : ℝ} (hx : x < 0) : π / 2 < |atan2 y x| := by
  by_contra h
  exact absurd ((abs_atan2_le_iff y x).mp (not_lt.mp h)) (not_le.mpr hx)

theorem norm_mk_of {x y ρ : ℝ} (hρ : 0 < ρ) (h : ρ ^ 2 = x ^ 2 + y ^ 2) : ‖(⟨x, y⟩ : ℂ)‖ = ρ := by
  rw [Complex.norm_def, Complex.normSq_mk, show x * x + y * y = ρ ^ 2 by rw [h]; ring,
    Real.sqrt_sq hρ.le]

theorem cos_atan2_of {x y ρ : ℝ} (hρ : 0 < ρ) (h : ρ ^ 2 = x ^ 2 + y ^ 2) :
    cos (atan2 y x) = x / ρ := by
  have hne : (⟨x, y⟩ : ℂ) ≠ 0 := by
    intro h0
    have := norm_mk_of hρ h
    rw [h0, norm_zero] at this
    exact hρ.ne this
  unfold atan2
  rw [Complex.cos_arg hne, norm_mk_of hρ h]

theorem sin_atan2_of {x y ρ : ℝ} (hρ : 0 < ρ) (h : ρ ^ 2 = x ^ 2 + y ^ 2) :
    sin (atan2 y x) = y / ρ := by
  unfold atan2
  rw [Complex.sin_arg, norm_mk_of hρ h]

theorem cos_mod2pi (x : ℝ) : cos (mod2pi x) = cos x := by
  rw [mod2pi_eq]; exact Real.cos_sub_int_mul_two_pi x _

theorem sin_mod2pi (x : ℝ) : sin (mod2pi x) = sin x := by
  rw [mod2pi_eq]; exact Real.sin_sub_int_mul_two_pi x _

/-- trig values of the angles returned for a unit normal pointing up, not vertical -/
theorem sdOf_trig {n : V3 ℝ} {ρ : ℝ} (hn : V3.dot n n = 1) (hz : n.z ≤ 0) (hρ : 0 < ρ)
    (h : ρ ^ 2 = n.x ^ 2 + n.y ^ 2) :
    cos (sdOf n).1 = n.y / ρ ∧ sin (sdOf n).1 = -n.x / ρ ∧ cos (sdOf n).2 = -n.z ∧ sin (sdOf n).2 = ρ := by
  simp only [V3.dot] at hn
  have e : √((n.x * n.z) * (n.x * n.z) + (n.y * n.z) * (n.y * n.z)) = ρ * -n.z := by
    rw [show (n.x * n.z) * (n.x * n.z) + (n.y * n.z) * (n.y * n.z) = (ρ * -n.z) ^ 2 by
      linear_combination (-(n.z ^ 2)) * h]
    exact Real.sqrt_sq (mul_nonneg hρ.le (by linarith))
  have h1 : ρ ^ 2 = n.y ^ 2 + (-n.x) ^ 2 := by rw [h]; ring
  have h2 : ρ ^ 2 = (ρ * -n.z) ^ 2 + (n.y * n.y + n.x * n.x) ^ 2 := by
    linear_combination (n.x ^ 2 + n.y ^ 2) * h - ρ ^ 2 * hn
  simp only [sdOf, cos_mod2pi, sin_mod2pi, e]
  refine ⟨cos_atan2_of hρ h1, sin_atan2_of hρ h1, ?_, ?_⟩
  · rw [cos_atan2_of hρ h2]; field_simp
  · rw [sin_atan2_of hρ h2]; field_simp; linear_combination -h


theorem rakeOf_trig {m t : V3 ℝ} {ρ : ℝ} (hm : V3.dot m m = 1) (ht : V3.dot t t = 1)
    (hp : V3.dot m t = 0) (hz : m.z ≤ 0) (hρ : 0 < ρ) (h : ρ ^ 2 = m.x ^ 2 + m.y ^ 2) :
    cos (rakeOf m t) = (t.x * m.y - t.y * m.x) / ρ ∧ sin (rakeOf m t) = -t.z / ρ := by
  obtain ⟨c1, s1, c2, s2⟩ := sdOf_trig hm hz hρ h
  simp only [V3.dot] at hm ht hp
  have h0 : ρ ≠ 0 := hρ.ne'
  have h2 : ρ ^ 2 = (t.x * m.y - t.y * m.x) ^ 2 + (-t.z) ^ 2 := by
    linear_combination h - (m.x ^ 2 + m.y ^ 2) * ht + t.z ^ 2 * hm
      + (m.x * t.x + m.y * t.y - m.z * t.z) * hp
  unfold rakeOf rakeRaw
  split
  · rw [c1, s1, c2, s2]
    have eY : t.x * (-m.x / ρ) * -m.z - t.y * (m.y / ρ) * -m.z - t.z * ρ = -t.z / ρ := by
      field_simp
      linear_combination m.z * hp - t.z * h - t.z * hm
    have eX : t.x * (m.y / ρ) + t.y * (-m.x / ρ) = (t.x * m.y - t.y * m.x) / ρ := by
      field_simp; ring
    have h3 : (1 : ℝ) ^ 2 = ((t.x * m.y - t.y * m.x) / ρ) ^ 2 + (-t.z / ρ) ^ 2 := by
      field_simp; linear_combination h2
    rw [eY, eX, cos_atan2_of one_pos h3, sin_atan2_of one_pos h3, div_one, div_one]
    exact ⟨rfl, rfl⟩
  · exact ⟨cos_atan2_of hρ h2, sin_atan2_of hρ h2⟩

/-- when the horizontal component `t × m` of the slip is negative the rake is outside `[−π/2, π/2]` -/
theorem rakeOf_abs_gt {m t : V3 ℝ} {ρ : ℝ} (hm : V3.dot m m = 1) (ht : V3.dot t t = 1)
    (hp : V3.dot m t = 0) (hz : m.z ≤ 0) (hρ : 0 < ρ) (h : ρ ^ 2 = m.x ^ 2 + m.y ^ 2)
    (hneg : t.x * m.y - t.y * m.x < 0) : π / 2 < |rakeOf m t| := by
  by_contra hcon
  have hle := abs_le.mp (not_lt.mp hcon)
  have := Real.cos_nonneg_of_mem_Icc (x := rakeOf m t) ⟨hle.1, hle.2⟩
  rw [(rakeOf_trig hm ht hp hz hρ h).1] at this
  exact absurd this (not_le.mpr (div_neg_of_neg_of_pos hneg hρ))

theorem exists_rho {m : V3 ℝ} (hxy : m.x ≠ 0 ∨ m.y ≠ 0) : ∃ ρ : ℝ, 0 < ρ ∧ ρ ^ 2 = m.x ^ 2 + m.y ^ 2 := by
  have hpos : 0 < m.x ^ 2 + m.y ^ 2 := by
    rcases hxy with h | h
    · have := pow_pos (abs_pos.mpr h) 2; rw [sq_abs] at this; nlinarith [sq_nonneg m.y]
    · have := pow_pos (abs_pos.mpr h) 2; rw [sq_abs] at this; nlinarith [sq_nonneg m.x]
  exact ⟨√(m.x ^ 2 + m.y ^ 2), Real.sqrt_pos.mpr hpos, Real.sq_sqrt hpos.le⟩

theorem sdrVecs_of_angles {m t : V3 ℝ} (hm : V3.dot m m = 1) (ht : V3.dot t t = 1)
    (hp : V3.dot m t = 0) (hz : m.z ≤ 0) (hxy : m.x ≠ 0 ∨ m.y ≠ 0) :
    sdrVec2 (mod2pi (sdOf m).1) (sdOf m).2 = m ∧
    sdrVec1 (mod2pi (sdOf m).1) (sdOf m).2 (rakeOf m t) = t := by
  obtain ⟨ρ, hρ, h⟩ := exists_rho hxy
  obtain ⟨c1, s1, c2, s2⟩ := sdOf_trig hm hz hρ h
  obtain ⟨c3, s3⟩ := rakeOf_trig hm ht hp hz hρ h
  have h0 : ρ ≠ 0 := hρ.ne'
  simp only [V3.dot] at hm ht hp
  constructor
  · apply V3.ext' <;> simp only [sdrVec2, flt_sin, flt_cos, cos_mod2pi, sin_mod2pi, c1, s1, c2, s2] <;>
      field_simp
  · apply V3.ext' <;>
      simp only [sdrVec1, flt_sin, flt_cos, cos_mod2pi, sin_mod2pi, c1, s1, c2, s2, c3, s3] <;> field_simp
    · linear_combination (-t.x) * h - m.x * hp
    · linear_combination (-t.y) * h - m.y * hp


theorem neg_neg' (a : V3 ℝ) : a.neg.neg = a := by
  apply V3.ext' <;> simp [V3.neg]

theorem dot_neg_neg (a b : V3 ℝ) : V3.dot a.neg b.neg = V3.dot a b := by
  simp [V3.dot, V3.neg]

theorem fpToSdr_neg_neg (a b : V3 ℝ) (h : a.unit.z ≠ 0) : fpToSdr a.neg b.neg = fpToSdr a b := by
  rcases lt_or_gt_of_ne h with h | h
  · have h' : 0 < a.neg.unit.z := by rw [unit_neg]; simp only [V3.neg]; linarith
    rw [fpToSdr_flip _ _ h', fpToSdr_noflip _ _ (not_lt.mpr h.le)]
    simp only [unit_neg, neg_neg']
  · have h' : ¬ 0 < a.neg.unit.z := by rw [unit_neg]; simp only [V3.neg]; linarith
    rw [fpToSdr_flip _ _ h, fpToSdr_noflip _ _ h']
    simp only [unit_neg]

theorem sdOf_dip_pos {n : V3 ℝ} (hn : V3.dot n n = 1) (hz : n.z ≤ 0) (hxy : n.x ≠ 0 ∨ n.y ≠ 0) :
    0 < (sdOf n).2 := by
  obtain ⟨ρ, hρ, h⟩ := exists_rho hxy
  obtain ⟨-, -, -, s2⟩ := sdOf_trig hn hz hρ h
  rcases (sdOf_dip_mem n).1.lt_or_eq with h' | h'
  · exact h'
  · rw [← h', Real.sin_zero] at s2; exact absurd s2 hρ.ne

/-- `normalDot` is the absolute value of the dot product of the two unit normals -/
theorem normalDot_eq (s₁ d₁ s₂ d₂ : ℝ) :
    normalDot s₁ d₁ s₂ d₂ = |V3.dot (sdrVec2 s₁ d₁) (sdrVec2 s₂ d₂)| := by
  simp only [normalDot, flt_abs, flt_sin, flt_cos, V3.dot, sdrVec2]
  congr 1
  rw [Real.cos_sub]; ring

theorem normalDot_self (s d : ℝ) : normalDot s d s d = 1 := by
  simp only [normalDot, flt_abs, flt_sin, flt_cos, sub_self, Real.cos_zero, mul_one]
  rw [show sin d * sin d + cos d * cos d = 1 by linear_combination Real.sin_sq_add_cos_sq d, abs_one]

/-- the angles returned for a unit normal pointing up (or horizontal) reproduce the normal, also when
    it is vertical -/
theorem sdrVec2_sdOf {m : V3 ℝ} (hm : V3.dot m m = 1) (hz : m.z ≤ 0) :
    sdrVec2 (mod2pi (sdOf m).1) (sdOf m).2 = m := by
  by_cases hxy : m.x ≠ 0 ∨ m.y ≠ 0
  · obtain ⟨ρ, hρ, h⟩ := exists_rho hxy
    obtain ⟨c1, s1, c2, s2⟩ := sdOf_trig hm hz hρ h
    have h0 : ρ ≠ 0 := hρ.ne'
    apply V3.ext' <;> simp only [sdrVec2, flt_sin, flt_cos, cos_mod2pi, sin_mod2pi, c1, s1, c2, s2] <;>
      field_simp
  · rw [not_or, not_not, not_not] at hxy
    obtain ⟨hx, hy⟩ := hxy
    have hmz : m.z = -1 := by
      simp only [V3.dot, hx, hy] at hm
      have : (m.z + 1) * (m.z - 1) = 0 := by linear_combination hm
      rcases mul_eq_zero.mp this with h | h
      · linarith
      · linarith
    have a0 : atan2 0 0 = 0 := by unfold atan2; exact Complex.arg_zero
    apply V3.ext' <;>
      simp [sdrVec2, sdOf, hx, hy, hmz, a0, cos_mod2pi, sin_mod2pi]

/-- the plane returned by `fpToSdr` for a unit normal `n` has normal `±n` -/
theorem normalDot_fpToSdr {n sl : V3 ℝ} (hn : V3.dot n n = 1) (s d : ℝ) :
    normalDot (fpToSdr n sl).1 (fpToSdr n sl).2.1 s d = |V3.dot n (sdrVec2 s d)| := by
  obtain ⟨m, t, hc, hmz, h⟩ := fpToSdr_eq n sl
  rw [unit_of_unit hn] at hc
  rw [h, normalDot_eq]
  rcases hc with ⟨rfl, -, -⟩ | ⟨rfl, -, -⟩
  · rw [sdrVec2_sdOf hn hmz]
  · rw [sdrVec2_sdOf (by rw [dot_neg_neg, hn]) hmz]
    simp only [V3.dot, V3.neg]
    rw [← abs_neg]; congr 1; ring

end MTfitVerif.ConvertSdr
