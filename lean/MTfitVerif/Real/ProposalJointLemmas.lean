import MTfitVerif.Real.ProposalLawLemmas
import Mathlib.Topology.Algebra.InfiniteSum.ENNReal
import Mathlib.Topology.Order.MonotoneConvergence
/-
  Helper lemmas for the JOINT law of a proposal (C06): several redraw loops (and single draws)
  consume ONE stream of i.i.d. draws one after the other.

  * sequences: `conv q p a n = ∑_{k<n} q^k · p · a (n-1-k)` (first success at position `k`, then the
    remaining `n-1-k` draws), its monotonicity and its limit; `shiftSeq` (one draw is consumed);
  * events: `restSet G n = {ω : Fin n → ℝ | G (List.ofFn ω)}` for a predicate on streams, the
    predicates `loopG` (a redraw loop, then `G` on the rest) and `drawG` (one draw, then `G` on the
    rest) and their probabilities under the product measure.
-/
namespace MTfitVerif.Proposal
open MTfitVerif Acceptance MeasureTheory Set
open scoped ENNReal

/-! ### sequences -/

/-- `∑_{k<n} q^k · p · a (n-1-k)` -/
noncomputable def conv (q p : ℝ≥0∞) (a : ℕ → ℝ≥0∞) (n : ℕ) : ℝ≥0∞ :=
  ∑ k ∈ Finset.range n, q ^ k * p * a (n - 1 - k)

@[simp] theorem conv_zero (q p : ℝ≥0∞) (a : ℕ → ℝ≥0∞) : conv q p a 0 = 0 := by
  simp [conv]

theorem conv_succ (q p : ℝ≥0∞) (a : ℕ → ℝ≥0∞) (n : ℕ) :
    conv q p a (n + 1) = p * a n + q * conv q p a n := by
  unfold conv
  rw [Finset.sum_range_succ', Finset.mul_sum, add_comm]
  congr 1
  · simp
  · refine Finset.sum_congr rfl (fun k _ => ?_)
    have : n + 1 - 1 - (k + 1) = n - 1 - k := by omega
    rw [this, pow_succ']
    ring

theorem conv_const_one (q p : ℝ≥0∞) (n : ℕ) :
    conv q p (fun _ => 1) n = (∑ k ∈ Finset.range n, q ^ k) * p := by
  unfold conv
  rw [Finset.sum_mul]
  exact Finset.sum_congr rfl (fun k _ => by ring)

theorem conv_mono (q p : ℝ≥0∞) {a : ℕ → ℝ≥0∞} (ha : Monotone a) : Monotone (conv q p a) := by
  refine monotone_nat_of_le_succ (fun n => ?_)
  unfold conv
  calc ∑ k ∈ Finset.range n, q ^ k * p * a (n - 1 - k)
      ≤ ∑ k ∈ Finset.range n, q ^ k * p * a (n + 1 - 1 - k) :=
        Finset.sum_le_sum (fun k _ => by gcongr; exact ha (by omega))
    _ ≤ ∑ k ∈ Finset.range (n + 1), q ^ k * p * a (n + 1 - 1 - k) :=
        Finset.sum_le_sum_of_subset (Finset.range_mono (Nat.le_succ n))

theorem conv_le (q p : ℝ≥0∞) (a : ℕ → ℝ≥0∞) (n : ℕ) :
    conv q p a n ≤ (∑' k, q ^ k) * (p * ⨆ j, a j) := by
  unfold conv
  calc ∑ k ∈ Finset.range n, q ^ k * p * a (n - 1 - k)
      ≤ ∑ k ∈ Finset.range n, q ^ k * (p * ⨆ j, a j) :=
        Finset.sum_le_sum (fun k _ => by
          rw [mul_assoc]; gcongr; exact le_iSup a _)
    _ = (∑ k ∈ Finset.range n, q ^ k) * (p * ⨆ j, a j) := by rw [Finset.sum_mul]
    _ ≤ (∑' k, q ^ k) * (p * ⨆ j, a j) := by gcongr; exact ENNReal.sum_le_tsum _

theorem le_conv (q p : ℝ≥0∞) {a : ℕ → ℝ≥0∞} (ha : Monotone a) (N : ℕ) :
    (∑ k ∈ Finset.range N, q ^ k) * (p * a N) ≤ conv q p a (2 * N) := by
  unfold conv
  calc (∑ k ∈ Finset.range N, q ^ k) * (p * a N)
      = ∑ k ∈ Finset.range N, q ^ k * p * a N := by
        rw [Finset.sum_mul]; exact Finset.sum_congr rfl (fun k _ => by ring)
    _ ≤ ∑ k ∈ Finset.range N, q ^ k * p * a (2 * N - 1 - k) :=
        Finset.sum_le_sum (fun k hk => by
          have := Finset.mem_range.mp hk
          gcongr; exact ha (by omega))
    _ ≤ ∑ k ∈ Finset.range (2 * N), q ^ k * p * a (2 * N - 1 - k) :=
        Finset.sum_le_sum_of_subset (Finset.range_mono (by omega))

theorem conv_iSup (q p : ℝ≥0∞) {a : ℕ → ℝ≥0∞} (ha : Monotone a) :
    ⨆ n, conv q p a n = (∑' k, q ^ k) * (p * ⨆ j, a j) := by
  apply le_antisymm (iSup_le (conv_le q p a))
  rw [ENNReal.tsum_eq_iSup_nat, ENNReal.mul_iSup, ENNReal.iSup_mul]
  refine iSup_le (fun i => ?_)
  rw [ENNReal.mul_iSup]
  refine iSup_le (fun j => ?_)
  refine le_trans ?_ (le_iSup (conv q p a) (2 * max i j))
  refine le_trans ?_ (le_conv q p ha (max i j))
  gcongr
  · exact le_max_left i j
  · exact ha (le_max_right i j)

open Filter Topology in
theorem conv_tendsto (q p : ℝ≥0∞) {a : ℕ → ℝ≥0∞} (ha : Monotone a) {L : ℝ≥0∞}
    (hL : Tendsto a atTop (𝓝 L)) :
    Tendsto (conv q p a) atTop (𝓝 ((∑' k, q ^ k) * (p * L))) := by
  have h1 := tendsto_atTop_iSup (conv_mono q p ha)
  have h2 : L = ⨆ j, a j := tendsto_nhds_unique hL (tendsto_atTop_iSup ha)
  rw [conv_iSup q p ha, ← h2] at h1
  exact h1

/-- one draw is consumed, then `a` on the remaining `n-1` -/
noncomputable def shiftSeq (c : ℝ≥0∞) (a : ℕ → ℝ≥0∞) : ℕ → ℝ≥0∞
  | 0 => 0
  | n + 1 => c * a n

theorem shiftSeq_mono (c : ℝ≥0∞) {a : ℕ → ℝ≥0∞} (ha : Monotone a) : Monotone (shiftSeq c a) := by
  refine monotone_nat_of_le_succ (fun n => ?_)
  cases n with
  | zero => simp [shiftSeq]
  | succ n => simp only [shiftSeq]; gcongr; exact ha (Nat.le_succ n)

open Filter Topology in
theorem shiftSeq_tendsto {c : ℝ≥0∞} (hc : c ≠ ⊤) {a : ℕ → ℝ≥0∞} {L : ℝ≥0∞}
    (hL : Tendsto a atTop (𝓝 L)) : Tendsto (shiftSeq c a) atTop (𝓝 (c * L)) := by
  rw [← tendsto_add_atTop_iff_nat 1]
  exact ENNReal.Tendsto.const_mul hL (Or.inr hc)

/-! ### predicates on streams and their events -/

/-- the streams of `n` draws that satisfy `G` -/
def restSet (G : List ℝ → Prop) (n : ℕ) : Set (Fin n → ℝ) := {ω | G (List.ofFn ω)}

/-- "the redraw loop returns a value in `B`, and the rest of the stream satisfies `G`" -/
def loopG (ok : ℝ → Bool) (m s : ℝ) (B : Set ℝ) (G : List ℝ → Prop) : List ℝ → Prop :=
  fun l => ∃ v rest, firstOk ok m s l = some (v, rest) ∧ v ∈ B ∧ G rest

/-- "there is a next draw `z`, `f z ∈ B`, and the rest of the stream satisfies `G`" -/
def drawG (f : ℝ → ℝ) (B : Set ℝ) (G : List ℝ → Prop) : List ℝ → Prop :=
  fun l => ∃ z rest, l = z :: rest ∧ f z ∈ B ∧ G rest

theorem restSet_true (n : ℕ) : restSet (fun _ => True) n = univ := by
  ext ω; simp [restSet]

theorem restSet_loopG_zero (ok : ℝ → Bool) (m s : ℝ) (B : Set ℝ) (G : List ℝ → Prop) :
    restSet (loopG ok m s B G) 0 = ∅ := by
  ext ω
  simp [restSet, loopG, firstOk]

theorem mem_restSet_loopG_succ (ok : ℝ → Bool) (m s : ℝ) (B : Set ℝ) (G : List ℝ → Prop) (n : ℕ)
    (ω : Fin (n + 1) → ℝ) :
    ω ∈ restSet (loopG ok m s B G) (n + 1) ↔
      (ω 0 ∈ okSet ok m s ∧ m + s * ω 0 ∈ B ∧ (fun i : Fin n => ω i.succ) ∈ restSet G n) ∨
      (ω 0 ∉ okSet ok m s ∧ (fun i : Fin n => ω i.succ) ∈ restSet (loopG ok m s B G) n) := by
  simp only [restSet, loopG, okSet, mem_ofPred_eq, List.ofFn_succ]
  by_cases h : ok (m + s * ω 0) = true
  · rw [firstOk_cons_of_ok ok m s _ _ h]
    simp only [Option.some.injEq, Prod.mk.injEq, h, true_and, not_true_eq_false, false_and, or_false]
    constructor
    · rintro ⟨v, rest, ⟨rfl, rfl⟩, hv, hG⟩; exact ⟨hv, hG⟩
    · rintro ⟨hv, hG⟩; exact ⟨_, _, ⟨rfl, rfl⟩, hv, hG⟩
  · rw [firstOk_cons_of_not ok m s _ _ h]
    simp [h]

theorem restSet_drawG_zero (f : ℝ → ℝ) (B : Set ℝ) (G : List ℝ → Prop) :
    restSet (drawG f B G) 0 = ∅ := by
  ext ω
  simp [restSet, drawG]

theorem mem_restSet_drawG_succ (f : ℝ → ℝ) (B : Set ℝ) (G : List ℝ → Prop) (n : ℕ)
    (ω : Fin (n + 1) → ℝ) :
    ω ∈ restSet (drawG f B G) (n + 1) ↔
      ω 0 ∈ f ⁻¹' B ∧ (fun i : Fin n => ω i.succ) ∈ restSet G n := by
  simp only [restSet, drawG, mem_ofPred_eq, List.ofFn_succ, List.cons.injEq, mem_preimage]
  constructor
  · rintro ⟨z, rest, ⟨rfl, rfl⟩, hz, hG⟩; exact ⟨hz, hG⟩
  · rintro ⟨hz, hG⟩; exact ⟨_, _, ⟨rfl, rfl⟩, hz, hG⟩

/-! ### probabilities for `n` independent draws -/

variable (ν : Measure ℝ) [IsProbabilityMeasure ν]

theorem restSet_loopG_succ_measure (ok : ℝ → Bool) (m s : ℝ) (hS : MeasurableSet (okSet ok m s))
    (B : Set ℝ) (G : List ℝ → Prop) (n : ℕ) :
    Measure.pi (fun _ : Fin (n + 1) => ν) (restSet (loopG ok m s B G) (n + 1)) =
      ν (okSet ok m s ∩ (fun z => m + s * z) ⁻¹' B) * Measure.pi (fun _ : Fin n => ν) (restSet G n) +
        ν (okSet ok m s)ᶜ * Measure.pi (fun _ : Fin n => ν) (restSet (loopG ok m s B G) n) := by
  set S := okSet ok m s with hSdef
  set T : Set (ℝ × (Fin n → ℝ)) :=
    (S ∩ (fun z => m + s * z) ⁻¹' B) ×ˢ restSet G n ∪ Sᶜ ×ˢ restSet (loopG ok m s B G) n with hT
  have hpre : restSet (loopG ok m s B G) (n + 1) =
      (MeasurableEquiv.piFinSuccAbove (fun _ => ℝ) 0) ⁻¹' T := by
    ext ω
    rw [mem_restSet_loopG_succ]
    simp only [hT, mem_preimage, mem_union, mem_prod, mem_inter_iff,
      mem_compl_iff, MeasurableEquiv.piFinSuccAbove_apply, Fin.insertNthEquiv_zero,
      Fin.consEquiv_symm_apply]
    rw [and_assoc]
    rfl
  have hmp := measurePreserving_piFinSuccAbove (fun _ : Fin (n + 1) => ν) 0
  rw [hpre, hmp.measure_preimage_equiv T]
  have hsplit := measure_inter_add_sdiff (μ := ν.prod (Measure.pi fun _ : Fin n => ν)) T
    (hS.prod (MeasurableSet.univ : MeasurableSet (univ : Set (Fin n → ℝ))))
  have h1 : T ∩ S ×ˢ (univ : Set (Fin n → ℝ)) =
      (S ∩ (fun z => m + s * z) ⁻¹' B) ×ˢ restSet G n := by
    ext ⟨z, ω⟩
    simp only [hT, mem_inter_iff, mem_union, mem_prod, mem_preimage, mem_univ, and_true,
      mem_compl_iff]
    tauto
  have h2 : T \ S ×ˢ (univ : Set (Fin n → ℝ)) = Sᶜ ×ˢ restSet (loopG ok m s B G) n := by
    ext ⟨z, ω⟩
    simp only [hT, mem_sdiff, mem_inter_iff, mem_union, mem_prod, mem_preimage, mem_univ, and_true,
      mem_compl_iff]
    tauto
  rw [h1, h2, Measure.prod_prod, Measure.prod_prod] at hsplit
  exact hsplit.symm

/-- **the law of "loop, then `G`"**: the first in-range draw is at position `k`; the remaining
    `n-1-k` draws are again i.i.d. and independent of what came before -/
theorem restSet_loopG_measure (ok : ℝ → Bool) (m s : ℝ) (hS : MeasurableSet (okSet ok m s))
    (B : Set ℝ) (G : List ℝ → Prop) (n : ℕ) :
    Measure.pi (fun _ : Fin n => ν) (restSet (loopG ok m s B G) n) =
      conv (ν (okSet ok m s)ᶜ) (ν (okSet ok m s ∩ (fun z => m + s * z) ⁻¹' B))
        (fun k => Measure.pi (fun _ : Fin k => ν) (restSet G k)) n := by
  induction n with
  | zero => simp [restSet_loopG_zero]
  | succ n ih => rw [restSet_loopG_succ_measure ν ok m s hS B G n, ih, conv_succ]

/-- **the law of "one draw, then `G`"** -/
theorem restSet_drawG_measure (f : ℝ → ℝ) (B : Set ℝ) (G : List ℝ → Prop) (n : ℕ) :
    Measure.pi (fun _ : Fin n => ν) (restSet (drawG f B G) n) =
      shiftSeq (ν (f ⁻¹' B)) (fun k => Measure.pi (fun _ : Fin k => ν) (restSet G k)) n := by
  cases n with
  | zero => simp [restSet_drawG_zero, shiftSeq]
  | succ n =>
    have hpre : restSet (drawG f B G) (n + 1) =
        (MeasurableEquiv.piFinSuccAbove (fun _ => ℝ) 0) ⁻¹' ((f ⁻¹' B) ×ˢ restSet G n) := by
      ext ω
      rw [mem_restSet_drawG_succ]
      simp only [mem_preimage, mem_prod, MeasurableEquiv.piFinSuccAbove_apply,
        Fin.insertNthEquiv_zero, Fin.consEquiv_symm_apply]
      rfl
    have hmp := measurePreserving_piFinSuccAbove (fun _ : Fin (n + 1) => ν) 0
    rw [hpre, hmp.measure_preimage_equiv, Measure.prod_prod]
    rfl

/-- the geometric series of the out-of-range probability sums to `1 / ν S` -/
theorem tsum_compl_pow {S : Set ℝ} (hS : MeasurableSet S) : ∑' k, ν Sᶜ ^ k = (ν S)⁻¹ := by
  rw [ENNReal.tsum_geometric, prob_compl_eq_one_sub hS,
    ENNReal.sub_sub_cancel ENNReal.one_ne_top prob_le_one]

/-! ### composing stages -/

/-- `a n` is the probability that a stream of `n` i.i.d. draws satisfies `G`; it is monotone in `n`
    and tends to `L` -/
def StageLaw (G : List ℝ → Prop) (a : ℕ → ℝ≥0∞) (L : ℝ≥0∞) : Prop :=
  (∀ n, Measure.pi (fun _ : Fin n => ν) (restSet G n) = a n) ∧ Monotone a ∧
    Filter.Tendsto a Filter.atTop (nhds L)

theorem stageLaw_true : StageLaw ν (fun _ => True) (fun _ => 1) 1 :=
  ⟨fun n => by rw [restSet_true, measure_univ], monotone_const, tendsto_const_nhds⟩

variable {ν} in
theorem StageLaw.loop {G : List ℝ → Prop} {a : ℕ → ℝ≥0∞} {L : ℝ≥0∞} (h : StageLaw ν G a L)
    (ok : ℝ → Bool) (m s : ℝ) (hS : MeasurableSet (okSet ok m s)) (B : Set ℝ) :
    StageLaw ν (loopG ok m s B G)
      (conv (ν (okSet ok m s)ᶜ) (ν (okSet ok m s ∩ (fun z => m + s * z) ⁻¹' B)) a)
      (ν (okSet ok m s ∩ (fun z => m + s * z) ⁻¹' B) / ν (okSet ok m s) * L) := by
  obtain ⟨h1, h2, h3⟩ := h
  refine ⟨fun n => ?_, conv_mono _ _ h2, ?_⟩
  · rw [restSet_loopG_measure ν ok m s hS B G n]
    congr 1
    exact funext h1
  · have := conv_tendsto (ν (okSet ok m s)ᶜ) (ν (okSet ok m s ∩ (fun z => m + s * z) ⁻¹' B)) h2 h3
    rw [tsum_compl_pow ν hS] at this
    rw [div_eq_mul_inv, mul_comm _ (ν (okSet ok m s))⁻¹, mul_assoc]
    exact this

variable {ν} in
theorem StageLaw.draw {G : List ℝ → Prop} {a : ℕ → ℝ≥0∞} {L : ℝ≥0∞} (h : StageLaw ν G a L)
    (f : ℝ → ℝ) (B : Set ℝ) :
    StageLaw ν (drawG f B G) (shiftSeq (ν (f ⁻¹' B)) a) (ν (f ⁻¹' B) * L) := by
  obtain ⟨h1, h2, h3⟩ := h
  refine ⟨fun n => ?_, shiftSeq_mono _ h2, shiftSeq_tendsto (measure_ne_top _ _) h3⟩
  rw [restSet_drawG_measure ν f B G n]
  congr 1
  exact funext h1

/-! ### `shiftSample` and `jumpDraw` as compositions of stages -/

open Real in
theorem shiftSample_false_iff (w : Widths ℝ) (ξ : Tape ℝ) (Bγ Bδ Bκ Bh Bσ : Set ℝ) (zs : List ℝ) :
    (∃ x rest, shiftSample false w ξ zs = some (x, rest) ∧
        x.gamma ∈ Bγ ∧ x.delta ∈ Bδ ∧ x.kappa ∈ Bκ ∧ x.h ∈ Bh ∧ x.sigma ∈ Bσ) ↔
      loopG (absLe (π / 6)) ξ.gamma w.gamma Bγ
        (loopG (absLe (π / 2)) ξ.delta w.delta Bδ
          (drawG (fun z => Convert.mod2pi (ξ.kappa + w.kappa * z)) Bκ
            (loopG inUnit ξ.h w.h Bh
              (loopG (absLe (π / 2)) ξ.sigma w.sigma Bσ (fun _ => True))))) zs := by
  unfold shiftSample
  simp only [Bool.false_eq_true, if_false, bind, Option.bind_eq_some_iff, Prod.exists, pure, loopG,
    drawG, flt_pi, flt_c]
  constructor
  · rintro ⟨x, rest, ⟨g, z1, h1, d, z2, h2, h3⟩, hg, hd, hk, hh, hs⟩
    cases z2 with
    | nil => simp at h3
    | cons z z3 =>
      simp only [Option.bind_some, Option.bind_eq_some_iff, Prod.exists, Option.some.injEq,
        Prod.mk.injEq] at h3
      obtain ⟨hv, z4, h4, s, z5, h5, rfl, rfl⟩ := h3
      exact ⟨g, z1, by simpa using h1, hg, d, _, by simpa using h2, hd, z, z3, rfl, hk, hv, z4, h4,
        hh, s, z5, by simpa using h5, hs, trivial⟩
  · rintro ⟨g, z1, h1, hg, d, z2, h2, hd, z, z3, rfl, hk, hv, z4, h4, hh, s, z5, h5, hs, -⟩
    refine ⟨{ gamma := g, delta := d, kappa := Convert.mod2pi (ξ.kappa + w.kappa * z), h := hv, sigma := s }, z5, ⟨g, z1, by simpa using h1, d, _, by simpa using h2, ?_⟩, hg, hd, hk, hh, hs⟩
    simp only [Option.bind_some, Option.bind_eq_some_iff, Prod.exists, Option.some.injEq,
      Prod.mk.injEq]
    exact ⟨hv, z4, h4, s, z5, by simpa using h5, rfl, rfl⟩

open Real in
theorem shiftSample_true_iff (w : Widths ℝ) (ξ : Tape ℝ) (Bκ Bh Bσ : Set ℝ) (zs : List ℝ) :
    (∃ x rest, shiftSample true w ξ zs = some (x, rest) ∧
        x.gamma = 0 ∧ x.delta = 0 ∧ x.kappa ∈ Bκ ∧ x.h ∈ Bh ∧ x.sigma ∈ Bσ) ↔
      drawG (fun z => Convert.mod2pi (ξ.kappa + w.kappa * z)) Bκ
        (loopG inUnit ξ.h w.h Bh
          (loopG (absLe (π / 2)) ξ.sigma w.sigma Bσ (fun _ => True))) zs := by
  unfold shiftSample
  simp only [if_true, bind, Option.bind_eq_some_iff, Prod.exists, pure, loopG,
    drawG, flt_pi, flt_c]
  constructor
  · rintro ⟨x, rest, ⟨g, z1, h1, d, z2, h2, h3⟩, hg, hd, hk, hh, hs⟩
    simp only [Option.some.injEq, Prod.mk.injEq] at h1 h2
    obtain ⟨rfl, rfl⟩ := h1
    obtain ⟨rfl, rfl⟩ := h2
    cases zs with
    | nil => simp at h3
    | cons z z3 =>
      simp only [Option.bind_some, Option.bind_eq_some_iff, Prod.exists, Option.some.injEq,
        Prod.mk.injEq] at h3
      obtain ⟨hv, z4, h4, s, z5, h5, rfl, rfl⟩ := h3
      exact ⟨z, z3, rfl, hk, hv, z4, h4, hh, s, z5, by simpa using h5, hs, trivial⟩
  · rintro ⟨z, z3, rfl, hk, hv, z4, h4, hh, s, z5, h5, hs, -⟩
    refine ⟨{ gamma := 0, delta := 0, kappa := Convert.mod2pi (ξ.kappa + w.kappa * z), h := hv, sigma := s }, z5, ⟨0, z :: z3, by simp, 0, z :: z3, by simp, ?_⟩, rfl, rfl, hk, hh, hs⟩
    simp only [Option.bind_some, Option.bind_eq_some_iff, Prod.exists, Option.some.injEq,
      Prod.mk.injEq]
    exact ⟨hv, z4, h4, s, z5, by simpa using h5, by simp, rfl⟩

open Real in
theorem jumpDraw_iff (w : Widths ℝ) (Bg Bd : Set ℝ) (zs : List ℝ) :
    (∃ g d rest, jumpDraw w zs = some (g, d, rest) ∧ g ∈ Bg ∧ d ∈ Bd) ↔
      loopG (absLe (π / 6)) 0 w.gammaDc Bg
        (loopG (absLe (π / 2)) 0 w.deltaDc Bd (fun _ => True)) zs := by
  unfold jumpDraw
  simp only [bind, Option.bind_eq_some_iff, Prod.exists, pure, Option.some.injEq, Prod.mk.injEq,
    loopG, flt_pi, flt_c]
  constructor
  · rintro ⟨g, d, rest, ⟨g', z1, h1, d', z2, h2, rfl, rfl, rfl⟩, hg, hd⟩
    exact ⟨g', z1, by simpa using h1, hg, d', z2, by simpa using h2, hd, trivial⟩
  · rintro ⟨g, z1, h1, hg, d, z2, h2, hd, -⟩
    exact ⟨g, d, z2, ⟨g, z1, by simpa using h1, d, z2, by simpa using h2, rfl, rfl, rfl⟩, hg, hd⟩

/-! ### Gaussian draws: conditional law of a loop = truncated-Gaussian integral -/

open ProbabilityTheory in
theorem gaussian_ratio_eq_truncTerm (ok : ℝ → Bool) (m : ℝ) {s lo hi : ℝ} (hs : 0 < s) (hlh : lo < hi)
    (hok : ∀ x, ok x = true ↔ lo ≤ x ∧ x ≤ hi) {A : Set ℝ} (hA : MeasurableSet A)
    (hAsub : A ⊆ Set.Icc lo hi) :
    gaussianReal 0 1 (okSet ok m s ∩ (fun z => m + s * z) ⁻¹' A) / gaussianReal 0 1 (okSet ok m s) =
      ENNReal.ofReal (∫ x in A, truncTerm x m s lo hi) := by
  have hcand : Measurable fun z : ℝ => m + s * z := by fun_prop
  have e1 : okSet ok m s = (fun z => m + s * z) ⁻¹' Set.Icc lo hi := by
    ext z; simp [okSet, hok, Set.mem_Icc]
  have e2 : okSet ok m s ∩ (fun z => m + s * z) ⁻¹' A = (fun z => m + s * z) ⁻¹' A := by
    rw [e1, ← Set.preimage_inter, Set.inter_eq_right.mpr hAsub]
  rw [e2, e1, ← Measure.map_apply hcand hA, ← Measure.map_apply hcand measurableSet_Icc,
    gaussian_map_cand, gaussianReal_div_eq_truncTerm m hs hlh]

theorem okSet_measurable' (ok : ℝ → Bool) (m s lo hi : ℝ) (hok : ∀ x, ok x = true ↔ lo ≤ x ∧ x ≤ hi) :
    MeasurableSet (okSet ok m s) := by
  have : okSet ok m s = (fun z => m + s * z) ⁻¹' Set.Icc lo hi := by
    ext z; simp [okSet, hok, Set.mem_Icc]
  rw [this]
  exact measurableSet_Icc.preimage (by fun_prop)

theorem integral_truncTerm_nonneg (m : ℝ) {s lo hi : ℝ} (hs : 0 < s) (hlh : lo < hi) (A : Set ℝ) :
    0 ≤ ∫ x in A, truncTerm x m s lo hi :=
  integral_nonneg (fun x => (truncTerm_pos' x m hs hlh).le)

/-! ### the product of the four truncated-Gaussian integrals is the integral of `transPdf` -/

/-- the source parameters `(γ, δ, h, σ)` and a strike as a `Tape` -/
def tapeOf (p : ℝ × ℝ × ℝ × ℝ) (κ : ℝ) : Tape ℝ :=
  { gamma := p.1, delta := p.2.1, kappa := κ, h := p.2.2.1, sigma := p.2.2.2 }

open Real in
theorem transPdf_false_tapeOf (w : Widths ℝ) (ξ : Tape ℝ) (p : ℝ × ℝ × ℝ × ℝ) (κ : ℝ) :
    transPdf false w (tapeOf p κ) ξ =
      truncTerm p.1 ξ.gamma w.gamma (-(π / 6)) (π / 6) *
        (truncTerm p.2.1 ξ.delta w.delta (-(π / 2)) (π / 2) *
          (truncTerm p.2.2.1 ξ.h w.h 0 1 * truncTerm p.2.2.2 ξ.sigma w.sigma (-(π / 2)) (π / 2))) := by
  simp only [transPdf, tapeOf, Bool.false_eq_true, if_false, flt_pi, flt_c, Nat.cast_ofNat,
    Nat.cast_zero, Nat.cast_one]
  ring

open Real in
theorem transPdf_true_tapeOf (w : Widths ℝ) (ξ : Tape ℝ) (p : ℝ × ℝ) (κ : ℝ) :
    transPdf true w { gamma := 0, delta := 0, kappa := κ, h := p.1, sigma := p.2 } ξ =
      truncTerm p.1 ξ.h w.h 0 1 * truncTerm p.2 ξ.sigma w.sigma (-(π / 2)) (π / 2) := by
  simp only [transPdf, if_true, flt_pi, flt_c, Nat.cast_ofNat, Nat.cast_zero, Nat.cast_one]
  ring

theorem setIntegral_prod_mul' (f g : ℝ → ℝ) (A B : Set ℝ) :
    ∫ p in A ×ˢ B, f p.1 * g p.2 = (∫ x in A, f x) * ∫ y in B, g y := by
  rw [Measure.volume_eq_prod, ← Measure.prod_restrict]
  exact integral_prod_mul f g

theorem setIntegral_prod_mul₃ (f : ℝ → ℝ) (g : ℝ × ℝ → ℝ) (A : Set ℝ) (B : Set (ℝ × ℝ)) :
    ∫ p in A ×ˢ B, f p.1 * g p.2 = (∫ x in A, f x) * ∫ y in B, g y := by
  rw [Measure.volume_eq_prod, ← Measure.prod_restrict]
  exact integral_prod_mul f g

theorem setIntegral_prod_mul₄ (f : ℝ → ℝ) (g : ℝ × ℝ × ℝ → ℝ) (A : Set ℝ) (B : Set (ℝ × ℝ × ℝ)) :
    ∫ p in A ×ˢ B, f p.1 * g p.2 = (∫ x in A, f x) * ∫ y in B, g y := by
  rw [Measure.volume_eq_prod, ← Measure.prod_restrict]
  exact integral_prod_mul f g

open Real in
theorem integral_transPdf_false (w : Widths ℝ) (ξ : Tape ℝ) (κ : ℝ) (Bγ Bδ Bh Bσ : Set ℝ) :
    ∫ p in Bγ ×ˢ (Bδ ×ˢ (Bh ×ˢ Bσ)), transPdf false w (tapeOf p κ) ξ =
      (∫ x in Bγ, truncTerm x ξ.gamma w.gamma (-(π / 6)) (π / 6)) *
        ((∫ x in Bδ, truncTerm x ξ.delta w.delta (-(π / 2)) (π / 2)) *
          ((∫ x in Bh, truncTerm x ξ.h w.h 0 1) *
            ∫ x in Bσ, truncTerm x ξ.sigma w.sigma (-(π / 2)) (π / 2))) := by
  simp_rw [transPdf_false_tapeOf]
  rw [setIntegral_prod_mul₄ (fun x => truncTerm x ξ.gamma w.gamma (-(π / 6)) (π / 6))
      (fun q : ℝ × ℝ × ℝ => truncTerm q.1 ξ.delta w.delta (-(π / 2)) (π / 2) *
          (truncTerm q.2.1 ξ.h w.h 0 1 * truncTerm q.2.2 ξ.sigma w.sigma (-(π / 2)) (π / 2))),
    setIntegral_prod_mul₃ (fun x => truncTerm x ξ.delta w.delta (-(π / 2)) (π / 2))
      (fun q : ℝ × ℝ => truncTerm q.1 ξ.h w.h 0 1 * truncTerm q.2 ξ.sigma w.sigma (-(π / 2)) (π / 2)),
    setIntegral_prod_mul' (fun x => truncTerm x ξ.h w.h 0 1)
      (fun x => truncTerm x ξ.sigma w.sigma (-(π / 2)) (π / 2))]

open Real in
theorem integral_transPdf_true (w : Widths ℝ) (ξ : Tape ℝ) (κ : ℝ) (Bh Bσ : Set ℝ) :
    ∫ p in Bh ×ˢ Bσ, transPdf true w { gamma := 0, delta := 0, kappa := κ, h := p.1, sigma := p.2 } ξ =
      (∫ x in Bh, truncTerm x ξ.h w.h 0 1) *
        ∫ x in Bσ, truncTerm x ξ.sigma w.sigma (-(π / 2)) (π / 2) := by
  simp_rw [transPdf_true_tapeOf]
  exact setIntegral_prod_mul' (fun x => truncTerm x ξ.h w.h 0 1)
      (fun x => truncTerm x ξ.sigma w.sigma (-(π / 2)) (π / 2)) Bh Bσ

end MTfitVerif.Proposal
