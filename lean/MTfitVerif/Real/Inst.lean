import MTfitVerif.Model.Flt
import MTfitVerif.Real.Erf
import Mathlib.Analysis.SpecialFunctions.Complex.Arg
import Mathlib.Analysis.SpecialFunctions.Trigonometric.Arctan
import Mathlib.Analysis.SpecialFunctions.Trigonometric.Inverse
import Mathlib.Analysis.SpecialFunctions.Log.Basic
/-
  Interpretation of the scalar interface over ℝ.  Every symbol is mapped to the Mathlib
  function of the same name; `rfl` lemmas turn an unfolded model term into an ordinary
  Mathlib term.
-/
namespace MTfitVerif
open Real

noncomputable def atan2 (y x : ℝ) : ℝ := Complex.arg ⟨x, y⟩

noncomputable instance instFltReal : Flt ℝ where
  ofNat n := (n : ℝ)
  ofSci m s e := (OfScientific.ofScientific m s e : ℝ)
  pi := Real.pi
  sqrt := Real.sqrt
  sin := Real.sin
  cos := Real.cos
  tan := Real.tan
  exp := Real.exp
  log := Real.log
  abs x := |x|
  acos := Real.arccos
  asin := Real.arcsin
  atan := Real.arctan
  erf := erf
  floor x := (⌊x⌋ : ℝ)
  atan2 := atan2
  ltb a b := decide (a < b)
  leb a b := decide (a ≤ b)
  eqb a b := decide (a = b)

@[simp] theorem flt_ofNat (n : Nat) : (Flt.ofNat n : ℝ) = (n : ℝ) := rfl
@[simp] theorem flt_c (n : Nat) : (c n : ℝ) = (n : ℝ) := rfl
@[simp] theorem flt_ofSci (m : Nat) (s : Bool) (e : Nat) :
    (Flt.ofSci m s e : ℝ) = (OfScientific.ofScientific m s e : ℝ) := rfl
@[simp] theorem flt_sci (m e : Nat) : (sci m e : ℝ) = (OfScientific.ofScientific m true e : ℝ) := rfl
@[simp] theorem flt_half : (half : ℝ) = 1 / 2 := by simp [half]
@[simp] theorem flt_pi : (Flt.pi : ℝ) = Real.pi := rfl
@[simp] theorem flt_sqrt (x : ℝ) : Flt.sqrt x = Real.sqrt x := rfl
@[simp] theorem flt_sin (x : ℝ) : Flt.sin x = Real.sin x := rfl
@[simp] theorem flt_cos (x : ℝ) : Flt.cos x = Real.cos x := rfl
@[simp] theorem flt_tan (x : ℝ) : Flt.tan x = Real.tan x := rfl
@[simp] theorem flt_exp (x : ℝ) : Flt.exp x = Real.exp x := rfl
@[simp] theorem flt_log (x : ℝ) : Flt.log x = Real.log x := rfl
@[simp] theorem flt_abs (x : ℝ) : Flt.abs x = |x| := rfl
@[simp] theorem flt_acos (x : ℝ) : Flt.acos x = Real.arccos x := rfl
@[simp] theorem flt_asin (x : ℝ) : Flt.asin x = Real.arcsin x := rfl
@[simp] theorem flt_atan (x : ℝ) : Flt.atan x = Real.arctan x := rfl
@[simp] theorem flt_erf (x : ℝ) : Flt.erf x = erf x := rfl
@[simp] theorem flt_floor (x : ℝ) : Flt.floor x = (⌊x⌋ : ℝ) := rfl
@[simp] theorem flt_atan2 (y x : ℝ) : Flt.atan2 y x = atan2 y x := rfl
@[simp] theorem flt_ltb (a b : ℝ) : Flt.ltb a b = decide (a < b) := rfl
@[simp] theorem flt_leb (a b : ℝ) : Flt.leb a b = decide (a ≤ b) := rfl
@[simp] theorem flt_eqb (a b : ℝ) : Flt.eqb a b = decide (a = b) := rfl

theorem fmax_eq (a b : ℝ) : fmax a b = max a b := by
  unfold fmax; simp only [flt_ltb, decide_eq_true_eq]
  split <;> rename_i h
  · exact (max_eq_right h.le).symm
  · exact (max_eq_left (not_lt.mp h)).symm

theorem fmin_eq (a b : ℝ) : fmin a b = min a b := by
  unfold fmin; simp only [flt_ltb, decide_eq_true_eq]
  split <;> rename_i h
  · exact (min_eq_right h.le).symm
  · exact (min_eq_left (not_lt.mp h)).symm

theorem sumL_eq (l : List ℝ) : sumL l = l.sum := by
  induction l with
  | nil => simp [sumL]
  | cons x xs ih => simp [sumL, ih]

end MTfitVerif
