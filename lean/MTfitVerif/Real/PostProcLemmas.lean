import MTfitVerif.Model.PostProc
import MTfitVerif.Real.Inst
/-
  Helper lemmas for C19 (result post-processing): `select`, `wmean`, `maxL`/`maxProbIdx`,
  `insertTok`/`uniqueCounts`, and the focal-sphere projections over ℝ.
-/
namespace MTfitVerif.PostProc
open MTfitVerif Real

/-! ### `select` -/

theorem select_nil {β : Type} (l : List β) : select l [] = some [] := by
  simp [select]

theorem select_cons {β : Type} (l : List β) (i : Nat) (idx : List Nat) :
    select l (i :: idx) = (l[i]?).bind fun a => (select l idx).bind fun r => some (a :: r) := by
  simp [select, List.mapM_cons]

theorem select_cons_eq_some {β : Type} (l : List β) (i : Nat) (idx : List Nat) (r : List β) :
    select l (i :: idx) = some r ↔ ∃ a r', l[i]? = some a ∧ select l idx = some r' ∧ r = a :: r' := by
  rw [select_cons]
  cases h1 : l[i]? <;> cases h2 : select l idx <;> simp [eq_comm]

theorem select_zip {β γ : Type} (l₁ : List β) (l₂ : List γ) (idx : List Nat) :
    ∀ (r₁ : List β) (r₂ : List γ), select l₁ idx = some r₁ → select l₂ idx = some r₂ →
    select (List.zip l₁ l₂) idx = some (List.zip r₁ r₂) := by
  induction idx with
  | nil => intro r₁ r₂ h₁ h₂; simp [select_nil] at *; subst h₁; simp
  | cons i idx ih =>
    intro r₁ r₂ h₁ h₂
    obtain ⟨a, r₁', ha, hr₁, rfl⟩ := (select_cons_eq_some _ _ _ _).mp h₁
    obtain ⟨b, r₂', hb, hr₂, rfl⟩ := (select_cons_eq_some _ _ _ _).mp h₂
    refine (select_cons_eq_some _ _ _ _).mpr ⟨(a, b), _, ?_, ih _ _ hr₁ hr₂, by simp⟩
    simp [List.getElem?_zip_eq_some, ha, hb]

theorem select_spec {β : Type} (l : List β) (idx : List Nat) :
    ∀ r : List β, select l idx = some r →
    r.length = idx.length ∧ ∀ k (hk : k < idx.length), r[k]? = l[idx[k]]? := by
  induction idx with
  | nil => intro r h; simp [select_nil] at h; subst h; simp
  | cons i idx ih =>
    intro r h
    obtain ⟨a, r', ha, hr, rfl⟩ := (select_cons_eq_some _ _ _ _).mp h
    obtain ⟨hl, hk⟩ := ih r' hr
    refine ⟨by simp [hl], ?_⟩
    intro k hk'
    cases k with
    | zero => simp [ha]
    | succ k => simpa using hk k (by simpa using hk')

/-! ### weighted mean -/

theorem wmean_eq (ps ms : List ℝ) :
    wmean ps ms = ((List.zip ms ps).map fun p => p.1 * p.2).sum / ps.sum := by
  simp [wmean, sumL_eq]

theorem wsum_const (ps : List ℝ) (v : ℝ) :
    ((List.zip (ps.map fun _ => v) ps).map fun p => p.1 * p.2).sum = v * ps.sum := by
  induction ps with
  | nil => simp
  | cons p ps ih =>
    simp only [List.map_cons, List.zip_cons_cons, List.sum_cons, ih]; ring

theorem wsum_scale (k : ℝ) (ms : List ℝ) : ∀ ps : List ℝ,
    ((List.zip ms (ps.map (k * ·))).map fun p => p.1 * p.2).sum
      = k * ((List.zip ms ps).map fun p => p.1 * p.2).sum := by
  induction ms with
  | nil => simp
  | cons m ms ih =>
    intro ps
    cases ps with
    | nil => simp
    | cons p ps => simp [ih, mul_add]; ring

theorem wsum_bounds (lo hi : ℝ) (ms : List ℝ) : ∀ ps : List ℝ, ps.length = ms.length →
    (∀ p ∈ ps, 0 ≤ p) → (∀ m ∈ ms, lo ≤ m) → (∀ m ∈ ms, m ≤ hi) →
    lo * ps.sum ≤ ((List.zip ms ps).map fun p => p.1 * p.2).sum ∧
    ((List.zip ms ps).map fun p => p.1 * p.2).sum ≤ hi * ps.sum := by
  induction ms with
  | nil => intro ps hl; simp at hl; subst hl; simp
  | cons m ms ih =>
    intro ps hl hp hlo hhi
    cases ps with
    | nil => simp at hl
    | cons p ps =>
      simp only [List.mem_cons, forall_eq_or_imp] at hp hlo hhi
      obtain ⟨h1, h2⟩ := ih ps (by simpa using hl) hp.2 hlo.2 hhi.2
      simp only [List.zip_cons_cons, List.map_cons, List.sum_cons]
      have := mul_le_mul_of_nonneg_right hlo.1 hp.1
      have := mul_le_mul_of_nonneg_right hhi.1 hp.1
      constructor <;> nlinarith

/-! ### maximum probability -/

theorem getD_eq_getElem' {β : Type} (l : List β) (d : β) {i : Nat} (h : i < l.length) :
    l.getD i d = l[i] := by simp [h]

theorem maxL_nil : maxL ([] : List ℝ) = none := rfl

theorem maxL_cons (x : ℝ) (xs : List ℝ) :
    maxL (x :: xs) = some (match maxL xs with | none => x | some m => max x m) := by
  rw [maxL]; cases maxL xs <;> simp [fmax_eq]

theorem maxL_eq_none_iff (ps : List ℝ) : maxL ps = none ↔ ps = [] := by
  cases ps with
  | nil => simp [maxL_nil]
  | cons x xs => simp [maxL_cons]

theorem maxL_spec (ps : List ℝ) : ∀ m, maxL ps = some m → m ∈ ps ∧ ∀ x ∈ ps, x ≤ m := by
  induction ps with
  | nil => intro m h; simp [maxL_nil] at h
  | cons x xs ih =>
    intro m h
    rw [maxL_cons] at h
    cases hm : maxL xs with
    | none =>
      rw [hm] at h
      have := (maxL_eq_none_iff xs).mp hm
      subst this
      simp at h; subst h; simp
    | some m' =>
      rw [hm] at h
      obtain ⟨h1, h2⟩ := ih m' hm
      simp only [Option.some.injEq] at h
      subst h
      constructor
      · rcases le_total x m' with hle | hle
        · rw [max_eq_right hle]; exact List.mem_cons_of_mem _ h1
        · rw [max_eq_left hle]; exact List.mem_cons_self
      · intro y hy
        rcases List.mem_cons.mp hy with rfl | hy
        · exact le_max_left _ _
        · exact (h2 y hy).trans (le_max_right _ _)

theorem maxL_isSome (ps : List ℝ) (h : ps ≠ []) : ∃ m, maxL ps = some m := by
  cases hm : maxL ps with
  | none => exact absurd ((maxL_eq_none_iff ps).mp hm) h
  | some m => exact ⟨m, rfl⟩

theorem mem_maxProbIdx (ps : List ℝ) (i : Nat) :
    i ∈ maxProbIdx ps ↔ i < ps.length ∧ ∀ j, j < ps.length → ps.getD j 0 ≤ ps.getD i 0 := by
  unfold maxProbIdx
  cases hm : maxL ps with
  | none =>
    have := (maxL_eq_none_iff ps).mp hm
    subst this; simp
  | some m =>
    obtain ⟨hmem, hmax⟩ := maxL_spec ps m hm
    simp only [List.mem_filter, List.mem_range, flt_eqb, flt_c, Nat.cast_zero, decide_eq_true_eq]
    constructor
    · rintro ⟨hi, he⟩
      refine ⟨hi, fun j hj => ?_⟩
      rw [he]
      apply hmax
      rw [getD_eq_getElem' _ _ hj]; exact List.getElem_mem hj
    · rintro ⟨hi, hall⟩
      refine ⟨hi, le_antisymm ?_ ?_⟩
      · apply hmax
        rw [getD_eq_getElem' _ _ hi]; exact List.getElem_mem hi
      · obtain ⟨j, hj, rfl⟩ := List.getElem_of_mem hmem
        have := hall j hj
        rwa [getD_eq_getElem' _ _ hj] at this

theorem maxProbIdx_ne_nil (ps : List ℝ) (h : ps ≠ []) : maxProbIdx ps ≠ [] := by
  obtain ⟨m, hm⟩ := maxL_isSome ps h
  obtain ⟨hmem, hmax⟩ := maxL_spec ps m hm
  obtain ⟨j, hj, rfl⟩ := List.getElem_of_mem hmem
  have : j ∈ maxProbIdx ps := by
    rw [mem_maxProbIdx]
    refine ⟨hj, fun k hk => ?_⟩
    rw [getD_eq_getElem' _ _ hj, getD_eq_getElem' _ _ hk]
    exact hmax _ (List.getElem_mem hk)
  exact List.ne_nil_of_mem this

/-! ### unique columns with counts -/

theorem insertTok_nil (x : Nat) : insertTok x [] = [(x, 1)] := rfl

theorem insertTok_cons (x y n : Nat) (ys : List (Nat × Nat)) :
    insertTok x ((y, n) :: ys) =
      if x < y then (x, 1) :: (y, n) :: ys else if x = y then (y, n + 1) :: ys
      else (y, n) :: insertTok x ys := rfl

theorem mem_keys_insertTok (x a : Nat) (l : List (Nat × Nat)) :
    a ∈ (insertTok x l).map (·.1) ↔ a = x ∨ a ∈ l.map (·.1) := by
  induction l with
  | nil => simp [insertTok_nil]
  | cons p ys ih =>
    obtain ⟨y, n⟩ := p
    rw [insertTok_cons]
    split_ifs with h1 h2
    · simp
    · subst h2; simp
    · simp only [List.map_cons, List.mem_cons, ih]; tauto

theorem insertTok_sorted (x : Nat) (l : List (Nat × Nat)) (hs : (l.map (·.1)).Pairwise (· < ·)) :
    ((insertTok x l).map (·.1)).Pairwise (· < ·) := by
  induction l with
  | nil => simp [insertTok_nil]
  | cons p ys ih =>
    obtain ⟨y, n⟩ := p
    simp only [List.map_cons, List.pairwise_cons] at hs
    rw [insertTok_cons]
    split_ifs with h1 h2
    · simp only [List.map_cons, List.pairwise_cons, List.mem_cons]
      refine ⟨?_, hs.1, hs.2⟩
      rintro a (rfl | ha)
      · exact h1
      · exact h1.trans (hs.1 a ha)
    · simpa using hs
    · simp only [List.map_cons, List.pairwise_cons]
      refine ⟨?_, ih hs.2⟩
      intro a ha
      rcases (mem_keys_insertTok x a ys).mp ha with rfl | ha
      · omega
      · exact hs.1 a ha

theorem lookup_cons_ite (a k b : Nat) (l : List (Nat × Nat)) :
    ((k, b) :: l).lookup a = if a = k then some b else l.lookup a := by
  rw [List.lookup_cons]
  by_cases h : a = k
  · simp [h]
  · have : (a == k) = false := by simpa using h
    rw [this]; simp [h]

theorem lookup_eq_none_of_not_mem_keys (a : Nat) (l : List (Nat × Nat)) (h : a ∉ l.map (·.1)) :
    l.lookup a = none := by
  induction l with
  | nil => simp
  | cons p ys ih =>
    obtain ⟨y, n⟩ := p
    simp only [List.map_cons, List.mem_cons, not_or] at h
    rw [lookup_cons_ite, if_neg h.1]; exact ih h.2

theorem lookup_insertTok (x a : Nat) (l : List (Nat × Nat)) (hs : (l.map (·.1)).Pairwise (· < ·)) :
    ((insertTok x l).lookup a).getD 0 = (l.lookup a).getD 0 + if a = x then 1 else 0 := by
  induction l with
  | nil =>
    rw [insertTok_nil, lookup_cons_ite]
    by_cases h : a = x <;> simp [h]
  | cons p ys ih =>
    obtain ⟨y, n⟩ := p
    simp only [List.map_cons, List.pairwise_cons] at hs
    rw [insertTok_cons]
    by_cases h1 : x < y
    · rw [if_pos h1, lookup_cons_ite]
      by_cases h3 : a = x
      · subst h3
        have hn : a ∉ ((y, n) :: ys).map (·.1) := by
          simp only [List.map_cons, List.mem_cons, not_or]
          refine ⟨by omega, fun hm => ?_⟩
          have := hs.1 a hm; omega
        rw [lookup_eq_none_of_not_mem_keys a _ hn]
        simp
      · simp [h3]
    · rw [if_neg h1]
      by_cases h2 : x = y
      · subst h2
        rw [if_pos rfl, lookup_cons_ite, lookup_cons_ite]
        by_cases h4 : a = x <;> simp [h4]
      · rw [if_neg h2, lookup_cons_ite, lookup_cons_ite]
        by_cases hay : a = y
        · simp [hay, Ne.symm h2]
        · rw [if_neg hay, if_neg hay]; exact ih hs.2

theorem insertTok_sum (x : Nat) (l : List (Nat × Nat)) :
    ((insertTok x l).map (·.2)).sum = (l.map (·.2)).sum + 1 := by
  induction l with
  | nil => simp [insertTok_nil]
  | cons p ys ih =>
    obtain ⟨y, n⟩ := p
    rw [insertTok_cons]
    split_ifs with h1 h2
    · simp; omega
    · simp; omega
    · simp [ih]; omega

theorem uniqueCounts_nil : uniqueCounts [] = [] := rfl
theorem uniqueCounts_cons (x : Nat) (xs : List Nat) :
    uniqueCounts (x :: xs) = insertTok x (uniqueCounts xs) := rfl

theorem uniqueCounts_keys_sorted (l : List Nat) : ((uniqueCounts l).map (·.1)).Pairwise (· < ·) := by
  induction l with
  | nil => simp [uniqueCounts_nil]
  | cons x xs ih => rw [uniqueCounts_cons]; exact insertTok_sorted x _ ih

theorem uniqueCounts_lookup (l : List Nat) (x : Nat) :
    ((uniqueCounts l).lookup x).getD 0 = l.count x := by
  induction l with
  | nil => simp [uniqueCounts_nil]
  | cons y ys ih =>
    rw [uniqueCounts_cons, lookup_insertTok y x _ (uniqueCounts_keys_sorted ys), ih, List.count_cons]
    by_cases h : x = y
    · simp [h]
    · have : (y == x) = false := by simpa using Ne.symm h
      simp [h, this]

theorem mem_uniqueCounts_keys (l : List Nat) (x : Nat) :
    x ∈ (uniqueCounts l).map (·.1) ↔ x ∈ l := by
  induction l with
  | nil => simp [uniqueCounts_nil]
  | cons y ys ih => rw [uniqueCounts_cons, mem_keys_insertTok, ih]; simp

theorem uniqueCounts_counts_sum (l : List Nat) : ((uniqueCounts l).map (·.2)).sum = l.length := by
  induction l with
  | nil => simp [uniqueCounts_nil]
  | cons y ys ih => rw [uniqueCounts_cons, insertTok_sum, ih]; simp

/-! ### projections -/

theorem project_lower_shown (area bp : Bool) {x y z : ℝ} (hz : 0 ≤ z) :
    project area true false bp x y z =
      some (x * (if area then Real.sqrt (2 / (1 + z)) else 1 / (1 + z)),
            y * (if area then Real.sqrt (2 / (1 + z)) else 1 / (1 + z))) := by
  have h1 : ¬ z < 0 := not_lt.mpr hz
  have h2 : (1 : ℝ) + z ≠ 0 := by linarith
  simp [project, h1, h2]

theorem project_upper (area : Bool) {x y z : ℝ} (hz : z < 0) :
    project area true false false x y z = none := by
  simp [project, hz]

theorem project_upper_back (area : Bool) {x y z : ℝ} (hz : z < 0) :
    project area true false true x y z = project area true false false (-x) (-y) (-z) := by
  have h1 : ¬ (-z < 0) := by linarith
  simp [project, hz, h1]

theorem cos_eq_half (t : ℝ) : Real.cos t = 1 - 2 * Real.sin (t / 2) ^ 2 := by
  have h := Real.cos_two_mul (t / 2)
  have h2 := Real.sin_sq_add_cos_sq (t / 2)
  rw [show 2 * (t / 2) = t by ring] at h
  linarith

theorem two_sub_two_cos (t : ℝ) : 2 * (1 - Real.cos t) = (2 * Real.sin (t / 2)) ^ 2 := by
  rw [cos_eq_half t]; ring

theorem tan_half_sq (t : ℝ) (h0 : 0 ≤ t) (h1 : t ≤ π / 2) :
    (1 - Real.cos t) / (1 + Real.cos t) = (Real.tan (t / 2)) ^ 2 := by
  have hc : 0 < Real.cos (t / 2) :=
    Real.cos_pos_of_mem_Ioo ⟨by linarith [Real.pi_pos], by linarith [Real.pi_pos]⟩
  have h2 := Real.sin_sq_add_cos_sq (t / 2)
  have hcos : Real.cos t = 2 * Real.cos (t / 2) ^ 2 - 1 := by
    have h := Real.cos_two_mul (t / 2)
    rwa [show 2 * (t / 2) = t by ring] at h
  rw [Real.tan_eq_sin_div_cos, div_pow, hcos]
  have hc2 : Real.cos (t / 2) ^ 2 ≠ 0 := by positivity
  have hs : Real.sin (t / 2) ^ 2 = 1 - Real.cos (t / 2) ^ 2 := by linarith
  rw [hs]
  field_simp
  ring

end MTfitVerif.PostProc
