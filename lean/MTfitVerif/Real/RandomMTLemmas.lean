import MTfitVerif.Model.RandomMT
import MTfitVerif.Real.Inst
import MTfitVerif.Real.ConvertLemmasLune
import MTfitVerif.Real.ConvertLemmasSdr
/-
  Helper lemmas for C08 (random source samplers) over ℝ.
-/
namespace MTfitVerif.RandomMT
open MTfitVerif MTfitVerif.Convert MTfitVerif.ConvertSdr Real

/-- squared six-vector norm, in the `x * x` form used by `V6.norm` -/
def sqs (v : V6 ℝ) : ℝ := v.a * v.a + v.b * v.b + v.c * v.c + v.d * v.d + v.e * v.e + v.f * v.f

theorem sqs_nonneg (v : V6 ℝ) : 0 ≤ sqs v := by
  unfold sqs
  nlinarith [mul_self_nonneg v.a, mul_self_nonneg v.b, mul_self_nonneg v.c, mul_self_nonneg v.d,
    mul_self_nonneg v.e, mul_self_nonneg v.f]

theorem v6_norm_eq (v : V6 ℝ) : v.norm = √(sqs v) := rfl

theorem randomMt_eq (v : V6 ℝ) :
    randomMt v = ⟨v.a / v.norm, v.b / v.norm, v.c / v.norm, v.d / v.norm, v.e / v.norm, v.f / v.norm⟩ := rfl

theorem v6_norm_sq {v : V6 ℝ} : v.norm ^ 2 = sqs v := by
  rw [v6_norm_eq, Real.sq_sqrt (sqs_nonneg v)]

theorem v6_norm_pos {v : V6 ℝ} (h : sqs v ≠ 0) : 0 < v.norm := by
  rw [v6_norm_eq]
  exact Real.sqrt_pos.mpr (lt_of_le_of_ne (sqs_nonneg v) (Ne.symm h))

/-- the norm is positively homogeneous -/
theorem v6_norm_scale (v : V6 ℝ) {k : ℝ} (hk : 0 < k) :
    (⟨k * v.a, k * v.b, k * v.c, k * v.d, k * v.e, k * v.f⟩ : V6 ℝ).norm = k * v.norm := by
  rw [v6_norm_eq, v6_norm_eq]
  have : sqs ⟨k * v.a, k * v.b, k * v.c, k * v.d, k * v.e, k * v.f⟩ = k * k * sqs v := by
    simp only [sqs]; ring
  rw [this, Real.sqrt_mul (mul_self_nonneg k), Real.sqrt_mul_self hk.le]

theorem dot_sdiv_right (a w : V3 ℝ) (k : ℝ) : V3.dot a (V3.sdiv w k) = V3.dot a w / k := by
  simp only [V3.dot, V3.sdiv]; ring

theorem dot_sdiv_left (a w : V3 ℝ) (k : ℝ) : V3.dot (V3.sdiv w k) a = V3.dot w a / k := by
  simp only [V3.dot, V3.sdiv]; ring

theorem dot_cross_left (a x : V3 ℝ) : V3.dot a (V3.cross a x) = 0 := by
  simp only [V3.dot, V3.cross]; ring

theorem dot_cross_right (a b : V3 ℝ) : V3.dot b (V3.cross a b) = 0 := by
  simp only [V3.dot, V3.cross]; ring

/-- Lagrange identity `|a × b|² = |a|²|b|² − (a·b)²` -/
theorem cross_lagrange (a b : V3 ℝ) :
    V3.dot (V3.cross a b) (V3.cross a b) = V3.dot a a * V3.dot b b - V3.dot a b ^ 2 := by
  simp only [V3.dot, V3.cross]; ring

theorem dot_unit_right (a w : V3 ℝ) : V3.dot a w.unit = V3.dot a w / w.norm := dot_sdiv_right a w _

theorem triad_eq (araw x : V3 ℝ) :
    triad araw x = (araw.unit, (V3.cross araw.unit x).unit,
      (V3.cross araw.unit (V3.cross araw.unit x).unit).unit) := rfl

/-- an orthonormal pair completes to an orthonormal triad with its cross product -/
theorem cross_orthonormal {a b : V3 ℝ} (ha : V3.dot a a = 1) (hb : V3.dot b b = 1) (hab : V3.dot a b = 0) :
    (V3.cross a b).unit = V3.cross a b ∧ V3.dot (V3.cross a b) (V3.cross a b) = 1 := by
  have h : V3.dot (V3.cross a b) (V3.cross a b) = 1 := by
    rw [cross_lagrange, ha, hb, hab]; norm_num
  exact ⟨unit_of_unit h, h⟩

theorem dcDiag_eq : (dcDiag : V3 ℝ) = ⟨1 / √2, 0, -(1 / √2)⟩ := by
  simp only [dcDiag, flt_sqrt, flt_c, Nat.cast_ofNat, Nat.cast_one, Nat.cast_zero, neg_div]

theorem clvdDiag_pos {u : ℝ} (h : (0.5 : ℝ) < u) : clvdDiag u = ⟨2 / √6, -(1 / √6), -(1 / √6)⟩ := by
  have h' : (OfScientific.ofScientific 5 true 1 : ℝ) < u := h
  simp only [clvdDiag, flt_ltb, flt_sci, flt_sqrt, flt_c, Nat.cast_ofNat, Nat.cast_one, neg_div, h',
    decide_true, if_true]

theorem clvdDiag_neg {u : ℝ} (h : ¬ (0.5 : ℝ) < u) : clvdDiag u = ⟨-(2 / √6), 1 / √6, 1 / √6⟩ := by
  have h' : ¬ (OfScientific.ofScientific 5 true 1 : ℝ) < u := h
  simp only [clvdDiag, flt_ltb, flt_sci, flt_sqrt, flt_c, Nat.cast_ofNat, Nat.cast_one, neg_div, h',
    decide_false, Bool.false_eq_true, if_false]

theorem inv_sqrt2_sq : (1 / √2 : ℝ) ^ 2 = 1 / 2 := by
  rw [div_pow, Real.sq_sqrt (by norm_num)]; norm_num

theorem inv_sqrt6_sq : (1 / √6 : ℝ) ^ 2 = 1 / 6 := by
  rw [div_pow, Real.sq_sqrt (by norm_num)]; norm_num

theorem two_div_sqrt6_sq : (2 / √6 : ℝ) ^ 2 = 4 / 6 := by
  rw [div_pow, Real.sq_sqrt (by norm_num)]; norm_num

end MTfitVerif.RandomMT
