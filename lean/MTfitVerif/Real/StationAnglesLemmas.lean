import MTfitVerif.Model.StationAngles
import MTfitVerif.Real.Inst
/-
  Helper lemmas for C11: the list `dot` of six-element lists, and the `√2` facts.
-/
namespace MTfitVerif
namespace StationAngles
open Real

theorem dot6 (a0 a1 a2 a3 a4 a5 b0 b1 b2 b3 b4 b5 : ℝ) :
    dot [a0, a1, a2, a3, a4, a5] [b0, b1, b2, b3, b4, b5]
      = a0 * b0 + a1 * b1 + a2 * b2 + a3 * b3 + a4 * b4 + a5 * b5 := by
  simp only [dot, flt_c, Nat.cast_zero]; ring

theorem sqrt2_mul_self : Real.sqrt 2 * Real.sqrt 2 = 2 :=
  Real.mul_self_sqrt (by norm_num)

theorem inv_sqrt2_mul : (1 / Real.sqrt 2) * Real.sqrt 2 = 1 := by
  have : Real.sqrt 2 ≠ 0 := by positivity
  field_simp

/-- A symmetric bilinear form is unchanged when the tensor and both vectors are rotated by the
    same rotation `[[c, -s], [s, c]]` (with `s² + c² = 1`) about the third axis; written out as
    a polynomial identity. -/
theorem bil_rot_poly (c s mxx myy mzz mxy mxz myz ux uy uz vx vy vz : ℝ) (h : s ^ 2 + c ^ 2 = 1) :
    (c * ux - s * uy) *
        ((c ^ 2 * mxx - 2 * s * c * mxy + s ^ 2 * myy) * (c * vx - s * vy)
          + (s * c * (mxx - myy) + (c ^ 2 - s ^ 2) * mxy) * (s * vx + c * vy)
          + (c * mxz - s * myz) * vz)
      + (s * ux + c * uy) *
        ((s * c * (mxx - myy) + (c ^ 2 - s ^ 2) * mxy) * (c * vx - s * vy)
          + (s ^ 2 * mxx + 2 * s * c * mxy + c ^ 2 * myy) * (s * vx + c * vy)
          + (s * mxz + c * myz) * vz)
      + uz * ((c * mxz - s * myz) * (c * vx - s * vy) + (s * mxz + c * myz) * (s * vx + c * vy)
          + mzz * vz)
      = ux * (mxx * vx + mxy * vy + mxz * vz) + uy * (mxy * vx + myy * vy + myz * vz)
        + uz * (mxz * vx + myz * vy + mzz * vz) := by
  linear_combination
    ((ux * (mxx * vx + mxy * vy + mxz * vz) + uy * (mxy * vx + myy * vy + myz * vz))
      + (vx * (mxx * ux + mxy * uy + mxz * uz) + vy * (mxy * ux + myy * uy + myz * uz))
      + (s ^ 2 + c ^ 2 - 1) * (ux * (mxx * vx + mxy * vy) + uy * (mxy * vx + myy * vy))) * h

end StationAngles
end MTfitVerif
