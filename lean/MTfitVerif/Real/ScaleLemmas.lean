import MTfitVerif.Model.MultiEvent
import MTfitVerif.Real.Inst
import Mathlib.Analysis.SpecialFunctions.Exp
import Mathlib.Analysis.SpecialFunctions.Sqrt
import Mathlib.Topology.Order.Basic
/-
  Helper lemmas for C15 (relative scale factor): the fold invariant of `combineMu`, the
  algebraic normal form of `stationScale` at equal fractional errors, and the elementary
  limit `exp(-1/(2e²))/e → 0`.
-/
namespace MTfitVerif.Scale
open MTfitVerif MultiEvent Filter Topology

/-! ### `combineMu` -/

/-- sum of the inverse variances -/
noncomputable def wSum (xs : List (ℝ × ℝ)) : ℝ := (xs.map fun x => 1 / x.2 ^ 2).sum
/-- sum of the estimates weighted with the inverse variances -/
noncomputable def mSum (xs : List (ℝ × ℝ)) : ℝ := (xs.map fun x => x.1 / x.2 ^ 2).sum

@[simp] theorem wSum_nil : wSum [] = 0 := rfl
@[simp] theorem mSum_nil : mSum [] = 0 := rfl
@[simp] theorem wSum_cons (x : ℝ × ℝ) (xs : List (ℝ × ℝ)) :
    wSum (x :: xs) = 1 / x.2 ^ 2 + wSum xs := by simp [wSum]
@[simp] theorem mSum_cons (x : ℝ × ℝ) (xs : List (ℝ × ℝ)) :
    mSum (x :: xs) = x.1 / x.2 ^ 2 + mSum xs := by simp [mSum]

theorem wSum_nonneg (xs : List (ℝ × ℝ)) : 0 ≤ wSum xs := by
  induction xs with
  | nil => simp
  | cons x xs ih => rw [wSum_cons]; positivity

theorem wSum_pos {xs : List (ℝ × ℝ)} (hne : xs ≠ []) (hpos : ∀ x ∈ xs, 0 < x.2) : 0 < wSum xs := by
  cases xs with
  | nil => exact absurd rfl hne
  | cons x xs =>
    have hx : 0 < x.2 := hpos x (by simp)
    have := wSum_nonneg xs
    rw [wSum_cons]; positivity

theorem wSum_ge_of_mem {xs : List (ℝ × ℝ)} {x : ℝ × ℝ} (hx : x ∈ xs) : 1 / x.2 ^ 2 ≤ wSum xs := by
  induction xs with
  | nil => simp at hx
  | cons y ys ih =>
    rw [wSum_cons]
    rcases List.mem_cons.mp hx with rfl | h
    · have := wSum_nonneg ys; linarith
    · have := ih h
      have : 0 ≤ 1 / y.2 ^ 2 := by positivity
      linarith

theorem wSum_perm {xs ys : List (ℝ × ℝ)} (h : xs.Perm ys) : wSum xs = wSum ys :=
  (h.map _).sum_eq
theorem mSum_perm {xs ys : List (ℝ × ℝ)} (h : xs.Perm ys) : mSum xs = mSum ys :=
  (h.map _).sum_eq

/-- weighted-mean bounds -/
theorem mSum_ge {xs : List (ℝ × ℝ)} {lo : ℝ} (h : ∀ x ∈ xs, lo ≤ x.1) : lo * wSum xs ≤ mSum xs := by
  induction xs with
  | nil => simp
  | cons x xs ih =>
    rw [wSum_cons, mSum_cons]
    have h1 := ih (fun y hy => h y (List.mem_cons_of_mem _ hy))
    have h2 : lo ≤ x.1 := h x (by simp)
    have h3 : lo * (1 / x.2 ^ 2) ≤ x.1 / x.2 ^ 2 := by
      rw [mul_one_div]; exact div_le_div_of_nonneg_right h2 (by positivity)
    linarith

theorem mSum_le {xs : List (ℝ × ℝ)} {hi : ℝ} (h : ∀ x ∈ xs, x.1 ≤ hi) : mSum xs ≤ hi * wSum xs := by
  induction xs with
  | nil => simp
  | cons x xs ih =>
    rw [wSum_cons, mSum_cons]
    have h1 := ih (fun y hy => h y (List.mem_cons_of_mem _ hy))
    have h2 : x.1 ≤ hi := h x (by simp)
    have h3 : x.1 / x.2 ^ 2 ≤ hi * (1 / x.2 ^ 2) := by
      rw [mul_one_div]; exact div_le_div_of_nonneg_right h2 (by positivity)
    linarith

theorem combineStep_real (m s : ℝ) (x : ℝ × ℝ) :
    combineStep (m, s) x =
      ((m * (x.2 * x.2) + x.1 * (s * s)) / (s * s + x.2 * x.2), s * x.2 / Real.sqrt (s * s + x.2 * x.2)) :=
  rfl

/-- one step of the fold keeps the inverse-variance form -/
theorem combineStep_inv (P W : ℝ) (hW : 0 < W) (x : ℝ × ℝ) (hx : 0 < x.2) :
    combineStep (P / W, 1 / Real.sqrt W) x =
      ((P + x.1 / x.2 ^ 2) / (W + 1 / x.2 ^ 2), 1 / Real.sqrt (W + 1 / x.2 ^ 2)) := by
  have hs : (1 / Real.sqrt W) * (1 / Real.sqrt W) = 1 / W := by
    rw [div_mul_div_comm, Real.mul_self_sqrt hW.le, one_mul]
  have hsW : 0 < Real.sqrt W := Real.sqrt_pos.mpr hW
  have key : 1 / W + x.2 * x.2 = (W + 1 / x.2 ^ 2) * (x.2 ^ 2 / W) := by
    field_simp; ring
  have hW2 : 0 < W + 1 / x.2 ^ 2 := by positivity
  rw [combineStep_real, hs]
  refine Prod.ext ?_ ?_
  · show (P / W * (x.2 * x.2) + x.1 * (1 / W)) / (1 / W + x.2 * x.2) = (P + x.1 / x.2 ^ 2) / (W + 1 / x.2 ^ 2)
    rw [div_eq_div_iff (by positivity) hW2.ne']
    field_simp
    ring
  · show 1 / Real.sqrt W * x.2 / Real.sqrt (1 / W + x.2 * x.2) = 1 / Real.sqrt (W + 1 / x.2 ^ 2)
    have hs2 : 0 < Real.sqrt (W + 1 / x.2 ^ 2) := Real.sqrt_pos.mpr hW2
    rw [key, Real.sqrt_mul hW2.le, Real.sqrt_div (sq_nonneg _), Real.sqrt_sq hx.le]
    field_simp

theorem foldl_combineStep (xs : List (ℝ × ℝ)) (P W : ℝ) (hW : 0 < W) (hpos : ∀ x ∈ xs, 0 < x.2) :
    xs.foldl combineStep (P / W, 1 / Real.sqrt W) =
      ((P + mSum xs) / (W + wSum xs), 1 / Real.sqrt (W + wSum xs)) := by
  induction xs generalizing P W with
  | nil => simp
  | cons x xs ih =>
    have hx : 0 < x.2 := hpos x (by simp)
    rw [List.foldl_cons, combineStep_inv P W hW x hx,
      ih _ _ (by positivity) (fun y hy => hpos y (List.mem_cons_of_mem _ hy)),
      wSum_cons, mSum_cons, add_assoc, add_assoc]

theorem combineMu_eq (xs : List (ℝ × ℝ)) (hne : xs ≠ []) (hpos : ∀ x ∈ xs, 0 < x.2) :
    combineMu xs = some (mSum xs / wSum xs, 1 / Real.sqrt (wSum xs)) := by
  cases xs with
  | nil => exact absurd rfl hne
  | cons x xs =>
    have hx : 0 < x.2 := hpos x (by simp)
    have h0 : x = ((x.1 / x.2 ^ 2) / (1 / x.2 ^ 2), 1 / Real.sqrt (1 / x.2 ^ 2)) := by
      refine Prod.ext ?_ ?_
      · show x.1 = (x.1 / x.2 ^ 2) / (1 / x.2 ^ 2)
        field_simp
      · show x.2 = 1 / Real.sqrt (1 / x.2 ^ 2)
        rw [Real.sqrt_div zero_le_one, Real.sqrt_one, Real.sqrt_sq hx.le]; field_simp
    have hf := foldl_combineStep xs (x.1 / x.2 ^ 2) (1 / x.2 ^ 2) (by positivity)
      (fun y hy => hpos y (List.mem_cons_of_mem _ hy))
    rw [← h0] at hf
    show some (xs.foldl combineStep x) = _
    rw [hf, wSum_cons, mSum_cons]


/-! ### `stationScale` -/

/-- the mean of `scale_estimator` in terms of its intermediate quantities -/
noncomputable def coreMu (A B C s12 μ1 : ℝ) : ℝ := (A * (s12 + μ1 * μ1) + B * μ1) / (A * μ1 + B + C)
/-- the variance of `scale_estimator` in terms of its intermediate quantities -/
noncomputable def coreVar (A B C s12 μ1 q : ℝ) : ℝ :=
  (A * (3 * (s12 * μ1) + μ1 * μ1 * μ1) + B * (s12 + μ1 * μ1) + C * q) / (A * μ1 + B + C)
    - coreMu A B C s12 μ1 * coreMu A B C s12 μ1

/-- the constant `K` of the first-order variance `e² K` -/
noncomputable def scK (r μx μy : ℝ) : ℝ := (μy ^ 2 * r ^ 2 + μx ^ 2) / μx ^ 2
/-- `exp(-1/(2e²))/e` -/
noncomputable def scG (e : ℝ) : ℝ := Real.exp (-(1 / 2) * (1 / e ^ 2)) / e
/-- the exponentially small term (divided by `e²`) -/
noncomputable def scC (r μx μy e : ℝ) : ℝ :=
  Real.sqrt (2 / Real.pi) * μy / (μx * scK r μx μy) * scG e

theorem scK_pos (r μx μy : ℝ) (hx : 0 < μx) : 0 < scK r μx μy := by
  unfold scK; positivity

theorem scG_pos {e : ℝ} (he : 0 < e) : 0 < scG e := by
  unfold scG; positivity

theorem scC_pos (r μx μy : ℝ) (hx : 0 < μx) (hy : 0 < μy) {e : ℝ} (he : 0 < e) : 0 < scC r μx μy e := by
  have := scK_pos r μx μy hx
  have := scG_pos he
  have : 0 < Real.sqrt (2 / Real.pi) := Real.sqrt_pos.mpr (by positivity)
  unfold scC; positivity

theorem stationScale_core (r μx μy e : ℝ) (hx : 0 < μx) (hy : 0 < μy) (he : 0 < e) :
    stationScale r μx μy e e =
      (coreMu (e ^ 2 * (r * μy ^ 2 / μx ^ 2)) (e ^ 2 * (μy / μx)) (e ^ 2 * scC r μx μy e)
          (e ^ 2 * scK r μx μy) (μy * r / μx),
       Real.sqrt (coreVar (e ^ 2 * (r * μy ^ 2 / μx ^ 2)) (e ^ 2 * (μy / μx)) (e ^ 2 * scC r μx μy e)
          (e ^ 2 * scK r μx μy) (μy * r / μx) (e ^ 2))) := by
  have h0 : (0:ℝ) ≤ (e * μy * (e * μy) * r * r + e * μx * (e * μx)) / (μx * μx) := by
    have : e * μy * (e * μy) * r * r + e * μx * (e * μx) = (e * μy * r) ^ 2 + (e * μx) ^ 2 := by ring
    rw [this]; positivity
  have hs12 : (e * μy * (e * μy) * r * r + e * μx * (e * μx)) / (μx * μx) = e ^ 2 * scK r μx μy := by
    unfold scK; field_simp
  have hA : μx * r * (e * μy * (e * μy)) / (μx * μx * μx) = e ^ 2 * (r * μy ^ 2 / μx ^ 2) := by
    field_simp
  have hB : μy * (e * μx * (e * μx)) / (μx * μx * μx) = e ^ 2 * (μy / μx) := by
    field_simp
  have hq : e * μx * (e * μx) / (μx * μx) = e ^ 2 := by field_simp
  have hK := scK_pos r μx μy hx
  have hexp : -(1 / 2) * (μy * μy / (e * μy * (e * μy))) = -(1 / 2) * (1 / e ^ 2) := by
    field_simp
  have hC : Real.sqrt ((2:ℕ) / Real.pi) *
            (e * μx * (e * μx) * (e * μy) * Real.exp (-(1 / 2) * (μy * μy / (e * μy * (e * μy)))) /
              (μx * μx * μx * (e ^ 2 * scK r μx μy))) = e ^ 2 * scC r μx μy e := by
    rw [hexp]; unfold scC scG
    generalize Real.exp (-(1 / 2) * (1 / e ^ 2)) = X
    generalize scK r μx μy = K at hK
    push_cast
    field_simp
  simp only [stationScale, flt_sqrt, flt_exp, flt_pi, flt_c, flt_half]
  rw [Real.mul_self_sqrt h0, hs12, hA, hB, hq, hC]
  simp [coreMu, coreVar]

/-- a common factor `E` of `A`, `B`, `C`, `s₁²` cancels in the mean -/
theorem coreMu_scale (E a b c K μ1 : ℝ) (hE : E ≠ 0) :
    coreMu (E * a) (E * b) (E * c) (E * K) μ1 = (a * (E * K + μ1 ^ 2) + b * μ1) / (a * μ1 + b + c) := by
  unfold coreMu
  rw [show E * a * (E * K + μ1 * μ1) + E * b * μ1 = E * (a * (E * K + μ1 ^ 2) + b * μ1) by ring,
    show E * a * μ1 + E * b + E * c = E * (a * μ1 + b + c) by ring, mul_div_mul_left _ _ hE]

theorem coreVar_scale (E a b c K μ1 : ℝ) (hE : E ≠ 0) :
    coreVar (E * a) (E * b) (E * c) (E * K) μ1 E =
      (a * (3 * E * K * μ1 + μ1 ^ 3) + b * (E * K + μ1 ^ 2) + c * E) / (a * μ1 + b + c)
        - ((a * (E * K + μ1 ^ 2) + b * μ1) / (a * μ1 + b + c)) ^ 2 := by
  unfold coreVar
  rw [coreMu_scale E a b c K μ1 hE,
    show E * a * (3 * (E * K * μ1) + μ1 * μ1 * μ1) + E * b * (E * K + μ1 * μ1) + E * c * E
      = E * (a * (3 * E * K * μ1 + μ1 ^ 3) + b * (E * K + μ1 ^ 2) + c * E) by ring,
    show E * a * μ1 + E * b + E * c = E * (a * μ1 + b + c) by ring, mul_div_mul_left _ _ hE]
  ring

/-- the variance is positive as soon as `a² E K < (a μ₁ + b)²` -/
theorem coreVar_pos (E a b c K μ1 : ℝ) (hE : 0 < E) (ha : 0 < a) (hb : 0 < b) (hc : 0 ≤ c) (hK : 0 < K)
    (hμ : 0 ≤ μ1) (hsmall : a ^ 2 * E * K < (a * μ1 + b) ^ 2) :
    0 < (a * (3 * E * K * μ1 + μ1 ^ 3) + b * (E * K + μ1 ^ 2) + c * E) / (a * μ1 + b + c)
        - ((a * (E * K + μ1 ^ 2) + b * μ1) / (a * μ1 + b + c)) ^ 2 := by
  have hD : 0 < a * μ1 + b := by positivity
  have hDc : 0 < a * μ1 + b + c := by positivity
  have key : (a * (3 * E * K * μ1 + μ1 ^ 3) + b * (E * K + μ1 ^ 2) + c * E) / (a * μ1 + b + c)
        - ((a * (E * K + μ1 ^ 2) + b * μ1) / (a * μ1 + b + c)) ^ 2 =
      (μ1 ^ 2 * (a * μ1 + b) * c + E * K * (3 * a * μ1 + b) * c + c * E * (a * μ1 + b + c)
        + E * K * ((a * μ1 + b) ^ 2 - a ^ 2 * E * K)) / (a * μ1 + b + c) ^ 2 := by
    field_simp
    ring
  rw [key]
  apply div_pos _ (by positivity)
  have h1 : 0 ≤ μ1 ^ 2 * (a * μ1 + b) * c := by positivity
  have h2 : 0 ≤ E * K * (3 * a * μ1 + b) * c := by positivity
  have h3 : 0 ≤ c * E * (a * μ1 + b + c) := by positivity
  have h4 : 0 < E * K * ((a * μ1 + b) ^ 2 - a ^ 2 * E * K) := by
    apply mul_pos (by positivity); linarith
  linarith

theorem exp_neg_le_inv {y : ℝ} (hy : 0 < y) : Real.exp (-y) ≤ 1 / y := by
  rw [Real.exp_neg, ← one_div]
  apply one_div_le_one_div_of_le hy
  linarith [Real.add_one_le_exp y]

theorem scG_le {e : ℝ} (he : 0 < e) : scG e ≤ 2 * e := by
  unfold scG
  have h : Real.exp (-(1 / 2) * (1 / e ^ 2)) ≤ 2 * e ^ 2 := by
    have := exp_neg_le_inv (y := (1 / 2) * (1 / e ^ 2)) (by positivity)
    rw [neg_mul]
    refine this.trans (le_of_eq ?_)
    field_simp
  rw [div_le_iff₀ he]
  nlinarith

theorem scG_tendsto : Tendsto scG (𝓝[>] 0) (𝓝 0) := by
  have h2 : Tendsto (fun e : ℝ => 2 * e) (𝓝[>] 0) (𝓝 0) := by
    have : Tendsto (fun e : ℝ => 2 * e) (𝓝 0) (𝓝 (2 * 0)) := (continuous_const.mul continuous_id).tendsto 0
    rw [mul_zero] at this
    exact this.mono_left nhdsWithin_le_nhds
  refine squeeze_zero' ?_ ?_ h2
  · filter_upwards [self_mem_nhdsWithin] with e he
    have he : 0 < e := he
    unfold scG; positivity
  · filter_upwards [self_mem_nhdsWithin] with e he using scG_le he


/-! ### the variable part of the mean -/

theorem tendsto_sq_mul_nhdsGT (K : ℝ) : Tendsto (fun e : ℝ => e ^ 2 * K) (𝓝[>] 0) (𝓝 0) := by
  have : Tendsto (fun e : ℝ => e ^ 2 * K) (𝓝 0) (𝓝 (0 ^ 2 * K)) :=
    ((continuous_id.pow 2).mul continuous_const).tendsto 0
  rw [show (0:ℝ) ^ 2 * K = 0 by ring] at this
  exact this.mono_left nhdsWithin_le_nhds

theorem muF_tendsto (a b K μ1 γ : ℝ) (hD : a * μ1 + b ≠ 0) :
    Tendsto (fun e : ℝ => (a * (e ^ 2 * K + μ1 ^ 2) + b * μ1) / (a * μ1 + b + γ * scG e))
      (𝓝[>] 0) (𝓝 μ1) := by
  have hnum : Tendsto (fun e : ℝ => a * (e ^ 2 * K + μ1 ^ 2) + b * μ1) (𝓝[>] 0)
      (𝓝 (a * (0 + μ1 ^ 2) + b * μ1)) :=
    (((tendsto_sq_mul_nhdsGT K).add tendsto_const_nhds).const_mul a).add tendsto_const_nhds
  have hden : Tendsto (fun e : ℝ => a * μ1 + b + γ * scG e) (𝓝[>] 0) (𝓝 (a * μ1 + b + γ * 0)) :=
    tendsto_const_nhds.add (scG_tendsto.const_mul γ)
  have h := hnum.div hden (by simpa using hD)
  have : (a * (0 + μ1 ^ 2) + b * μ1) / (a * μ1 + b + γ * 0) = μ1 := by
    rw [mul_zero, add_zero, zero_add]
    field_simp
  rwa [this] at h

/-! ### finitely many eventual statements -/

theorem eventually_forall_mem {ι β : Type*} {F : Filter β} {P : ι → β → Prop} (l : List ι)
    (h : ∀ i ∈ l, ∀ᶠ e in F, P i e) : ∀ᶠ e in F, ∀ i ∈ l, P i e := by
  induction l with
  | nil => simp
  | cons x xs ih =>
    have h1 := h x (by simp)
    have h2 := ih (fun i hi => h i (List.mem_cons_of_mem _ hi))
    filter_upwards [h1, h2] with e he1 he2
    intro i hi
    rcases List.mem_cons.mp hi with rfl | hi
    · exact he1
    · exact he2 i hi

end MTfitVerif.Scale
