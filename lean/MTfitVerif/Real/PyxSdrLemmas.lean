import MTfitVerif.Model.PyxKernels
import MTfitVerif.Model.Convert
import MTfitVerif.Real.Inst
import MTfitVerif.Real.ConvertLemmasSdr
/-
  Helper lemmas for C20D part B (`Props/C20Sdr.lean`): the branches of the compiled `cN_SDR` that cannot fire over ℝ and its
  strike wrap against `mod2pi`; further, the equality of the two rake forms of `FP_SDR` / `cN_SDR` for perpendicular unit
  vectors on non-horizontal planes and the sine of the dip (not needed for the agreement theorems now that the kernel has both
  forms, kept as facts about them).
-/
namespace MTfitVerif.PyxSdr
open MTfitVerif MTfitVerif.Convert Real MTfitVerif.ConvertSdr

/-! ### branches that never fire -/

theorem atan2_gt_pi_iff (y x : ℝ) : (π < atan2 y x) ↔ False :=
  iff_false_intro (not_lt.mpr (atan2_mem y x).2)

theorem atan2_lt_neg_pi_iff (y x : ℝ) : (atan2 y x < -π) ↔ False :=
  iff_false_intro (not_lt.mpr (atan2_mem y x).1.le)

theorem abs_atan2_gt_two_pi_iff (y x : ℝ) : (2 * π < |atan2 y x|) ↔ False := by
  refine iff_false_intro (not_lt.mpr ?_)
  have h := atan2_mem y x
  rw [abs_le]
  constructor <;> linarith [pi_pos]

/-- the dip is an `atan2` of two non-negative numbers: the `dip > π/2` branch of the code is dead -/
theorem dip_gt_iff (a b z : ℝ) : (π / 2 < atan2 (a * a + b * b) (√z)) ↔ False := by
  refine iff_false_intro (not_lt.mpr ?_)
  refine le_trans (le_abs_self _) ?_
  rw [abs_atan2_le_iff]
  exact Real.sqrt_nonneg _

/-! ### the strike wrap -/

/-- the code's `if strike < 0: strike += 2π` on an `atan2` value is `np.mod(·, 2π)` (applied twice in the Python path) -/
theorem mod2pi_mod2pi_atan2 (y x : ℝ) :
    mod2pi (mod2pi (atan2 y x)) = if atan2 y x < 0 then atan2 y x + 2 * π else atan2 y x := by
  rw [mod2pi_of_mem (mod2pi_nonneg _) (mod2pi_lt _)]
  have h := atan2_mem y x
  split
  · rename_i hneg
    exact mod2pi_of_neg (by linarith [pi_pos]) hneg
  · rename_i hneg
    exact mod2pi_of_mem (not_lt.mp hneg) (by linarith [pi_pos])

/-! ### the rake -/

/-- for a unit normal `m` pointing up and not vertical and a unit slip `t` in the plane, the two rake forms of `FP_SDR`
    agree: the value is the plain `atan2(-t_z, t_x m_y - t_y m_x)` that the compiled code evaluates -/
theorem rakeOf_eq_plain {m t : V3 ℝ} (hm : V3.dot m m = 1) (ht : V3.dot t t = 1) (hp : V3.dot m t = 0)
    (hz : m.z ≤ 0) (hxy : m.x ≠ 0 ∨ m.y ≠ 0) :
    rakeOf m t = atan2 (-t.z) (t.x * m.y - t.y * m.x) := by
  obtain ⟨ρ, hρ, h⟩ := exists_rho hxy
  obtain ⟨hc, hs⟩ := rakeOf_trig hm ht hp hz hρ h
  have hmem := rakeOf_mem m t
  have h0 : ρ ≠ 0 := hρ.ne'
  have e1 : -t.z = ρ * sin (rakeOf m t) := by rw [hs]; field_simp
  have e2 : t.x * m.y - t.y * m.x = ρ * cos (rakeOf m t) := by rw [hc]; field_simp
  rw [e1, e2, atan2_polar ρ _ hρ ⟨hmem.1, hmem.2⟩]

/-- without perpendicularity: away from the near-horizontal switch of `FP_SDR` its rake is the plain form -/
theorem rakeOf_eq_plain_of_not_lt {m t : V3 ℝ} (h : ¬ sin (sdOf m).2 < (sci 1 6 : ℝ)) :
    rakeOf m t = atan2 (-t.z) (t.x * m.y - t.y * m.x) := by
  unfold rakeOf rakeRaw
  rw [if_neg h]

/-- the sine of the dip of a unit normal pointing up is the length of its horizontal part -/
theorem sin_dip_eq {m : V3 ℝ} (hm : V3.dot m m = 1) (hz : m.z ≤ 0) :
    sin (sdOf m).2 = √(m.x ^ 2 + m.y ^ 2) := by
  by_cases hxy : m.x ≠ 0 ∨ m.y ≠ 0
  · have hpos : 0 < m.x ^ 2 + m.y ^ 2 := by
      obtain ⟨ρ, hρ, h⟩ := exists_rho hxy
      rw [← h]; positivity
    exact (sdOf_trig hm hz (Real.sqrt_pos.mpr hpos) (Real.sq_sqrt hpos.le)).2.2.2
  · rw [not_or, not_not, not_not] at hxy
    obtain ⟨hx, hy⟩ := hxy
    have a0 : atan2 0 0 = 0 := by unfold atan2; exact Complex.arg_zero
    simp [sdOf, hx, hy, a0]

end MTfitVerif.PyxSdr
