import MTfitVerif.Model.PyxSpec
/-
  Helper lemmas for C20L (`Props/C20Loops.lean`): `for … in [0:n]` loops of `Id.run do` blocks as list recursions, the
  station loop with its early `return` as `PyxSpec.accumulate`, and a few `Array` facts.  Core/Std only; everything is
  polymorphic in the scalar type.
-/
namespace MTfitVerif
namespace PyxLoop
open PyxSpec

section plain
variable {α : Type}

/-! ### ranges -/

/-- `for i in [0:n]` runs over `List.range' 0 n` -/
theorem forIn_range_eq_list {m : Type → Type} [Monad m] {β : Type} (n : Nat) (init : β)
    (f : Nat → β → m (ForInStep β)) :
    forIn [0:n] init f = forIn (List.range' 0 n) init f := by
  rw [Std.Legacy.Range.forIn_eq_forIn_range']
  simp [Std.Legacy.Range.size]

/-- a loop over `[0:n]` without `break`/`return` is a left fold over `List.range n` -/
theorem forIn_range_yield {β : Type} (n : Nat) (init : β) (g : Nat → β → β) :
    forIn (m := Id) [0:n] init (fun k s => pure (ForInStep.yield (g k s)))
      = pure ((List.range n).foldl (fun s k => g k s) init) := by
  rw [forIn_range_eq_list, List.forIn_pure_yield_eq_foldl, List.range_eq_range']

/-! ### arrays -/

theorem setIfInBounds_getD_self (P : Array α) (i : Nat) (d : α) : P.setIfInBounds i (P.getD i d) = P := by
  by_cases h : i < P.size
  · apply Array.ext_getElem?
    intro j
    rw [Array.getElem?_setIfInBounds]
    by_cases hj : i = j
    · subst hj
      simp [h, Array.getD_eq_getD_getElem?]
    · simp [hj]
  · exact Array.setIfInBounds_eq_of_size_le (Nat.le_of_not_lt h)

theorem getD_setIfInBounds_self (P : Array α) (i : Nat) (a d : α) (h : i < P.size) :
    (P.setIfInBounds i a).getD i d = a := by
  simp [Array.getD_eq_getD_getElem?, h]

theorem getD_setIfInBounds_ne (P : Array α) (i j : Nat) (a d : α) (h : i ≠ j) :
    (P.setIfInBounds i a).getD j d = P.getD j d := by
  simp [Array.getD_eq_getD_getElem?, h]

/-! ### pair-state folds -/

/-- the first component of the inner loop state `(x, k)` is the plain fold -/
theorem foldl_pair_fst {ι : Type} (l : List ι) (f : α → ι → α) (g : α × ι → ι → ι) (x0 : α) (k0 : ι) :
    (l.foldl (fun s k => (f s.1 k, g s k)) (x0, k0)).1 = l.foldl f x0 := by
  induction l generalizing x0 k0 with
  | nil => rfl
  | cons k l ih => simp only [List.foldl_cons]; exact ih _ _

/-- the first two components of the inner loop state `(x, y, k)` are the plain folds -/
theorem foldl_triple {ι : Type} (l : List ι) (f h : α → ι → α) (g : α × α × ι → ι → ι) (x0 y0 : α) (k0 : ι) :
    (l.foldl (fun s k => (f s.1 k, h s.2.1 k, g s k)) (x0, y0, k0)).1 = l.foldl f x0 ∧
    (l.foldl (fun s k => (f s.1 k, h s.2.1 k, g s k)) (x0, y0, k0)).2.1 = l.foldl h y0 := by
  induction l generalizing x0 y0 k0 with
  | nil => exact ⟨rfl, rfl⟩
  | cons k l ih => simp only [List.foldl_cons]; exact ih _ _ _

/-! ### simulation of a fold by a fold on a projection of its state -/

/-- if, on states satisfying `Inv`, one pass of `G` acts on the projection `p` as `g` does (and keeps `Inv`), the whole fold
    does -/
theorem foldl_sim {σ ρ ι : Type} (l : List ι) (G : σ → ι → σ) (p : σ → ρ) (g : ρ → ι → ρ) (Inv : σ → Prop)
    (h : ∀ s k, k ∈ l → Inv s → p (G s k) = g (p s) k ∧ Inv (G s k)) (s0 : σ) (h0 : Inv s0) :
    p (l.foldl G s0) = l.foldl g (p s0) ∧ Inv (l.foldl G s0) := by
  induction l generalizing s0 with
  | nil => exact ⟨rfl, h0⟩
  | cons k l ih =>
    simp only [List.foldl_cons]
    obtain ⟨h1, h2⟩ := h s0 k List.mem_cons_self h0
    rw [← h1]
    exact ih (fun s k hk => h s k (List.mem_cons_of_mem _ hk)) _ h2

theorem foldl_sim_fst {ρ τ ι : Type} (l : List ι) {G : ρ × τ → ι → ρ × τ} (g : ρ → ι → ρ) (Inv : ρ × τ → Prop)
    (h : ∀ s k, k ∈ l → Inv s → (G s k).1 = g s.1 k ∧ Inv (G s k)) {s0 : ρ × τ} (h0 : Inv s0) :
    (l.foldl G s0).1 = l.foldl g s0.1 :=
  (foldl_sim l G (fun s => s.1) g Inv h s0 h0).1

theorem foldl_sim_snd {ρ τ ι : Type} (l : List ι) {G : τ × ρ → ι → τ × ρ} (g : ρ → ι → ρ) (Inv : τ × ρ → Prop)
    (h : ∀ s k, k ∈ l → Inv s → (G s k).2 = g s.2 k ∧ Inv (G s k)) {s0 : τ × ρ} (h0 : Inv s0) :
    (l.foldl G s0).2 = l.foldl g s0.2 :=
  (foldl_sim l G (fun s => s.2) g Inv h s0 h0).1

theorem foldl_sim_snd_fst {ρ τ τ' ι : Type} (l : List ι) {G : τ × ρ × τ' → ι → τ × ρ × τ'} (g : ρ → ι → ρ)
    (Inv : τ × ρ × τ' → Prop)
    (h : ∀ s k, k ∈ l → Inv s → (G s k).2.1 = g s.2.1 k ∧ Inv (G s k)) {s0 : τ × ρ × τ'} (h0 : Inv s0) :
    (l.foldl G s0).2.1 = l.foldl g s0.2.1 :=
  (foldl_sim l G (fun s => s.2.1) g Inv h s0 h0).1

theorem foldl_sim_snd_snd {ρ τ τ' ι : Type} (l : List ι) {G : τ × τ' × ρ → ι → τ × τ' × ρ} (g : ρ → ι → ρ)
    (Inv : τ × τ' × ρ → Prop)
    (h : ∀ s k, k ∈ l → Inv s → (G s k).2.2 = g s.2.2 k ∧ Inv (G s k)) {s0 : τ × τ' × ρ} (h0 : Inv s0) :
    (l.foldl G s0).2.2 = l.foldl g s0.2.2 :=
  (foldl_sim l G (fun s => s.2.2) g Inv h s0 h0).1

theorem foldl_keep {ρ ι : Type} (l : List ι) (x : ρ) : l.foldl (fun y _ => y) x = x := by
  induction l with
  | nil => rfl
  | cons k l ih => simpa using ih

/-- a loop body that ends in `if … then (continue with a) else (continue with b)` -/
theorem ite_pure_yield {β : Type} (c : Prop) [Decidable c] (a b : β) :
    (if c then (pure (ForInStep.yield a) : Id (ForInStep β)) else pure (ForInStep.yield b))
      = pure (ForInStep.yield (if c then a else b)) := by
  split <;> rfl

/-! ### folds that write array cells -/

theorem size_foldl_set {ι : Type} (l : List ι) (idx : ι → Nat) (val : ι → α) (P : Array α) :
    (l.foldl (fun P y => P.setIfInBounds (idx y) (val y)) P).size = P.size := by
  induction l generalizing P with
  | nil => rfl
  | cons k l ih => simp only [List.foldl_cons]; rw [ih]; simp

/-- a cell written (possibly several times, always with the same value) by a fold of writes holds that value -/
theorem getD_foldl_set {ι : Type} (l : List ι) (idx : ι → Nat) (val : ι → α) (P : Array α) (d : α) (x : ι)
    (hx : x ∈ l) (hinj : ∀ y ∈ l, idx y = idx x → val y = val x) (hb : idx x < P.size) :
    (l.foldl (fun P y => P.setIfInBounds (idx y) (val y)) P).getD (idx x) d = val x := by
  suffices H : ∀ (l : List ι) (P : Array α), (∀ y ∈ l, idx y = idx x → val y = val x) → idx x < P.size →
      (x ∈ l ∨ P.getD (idx x) d = val x) →
      (l.foldl (fun P y => P.setIfInBounds (idx y) (val y)) P).getD (idx x) d = val x from
    H l P hinj hb (Or.inl hx)
  intro l
  induction l with
  | nil =>
    intro P _ _ h
    rcases h with h | h
    · cases h
    · exact h
  | cons y l ih =>
    intro P hinj hb h
    simp only [List.foldl_cons]
    apply ih _ (fun z hz => hinj z (List.mem_cons_of_mem _ hz)) (by simpa using hb)
    by_cases hy : idx y = idx x
    · right
      rw [hy, getD_setIfInBounds_self _ _ _ _ hb]
      exact hinj y List.mem_cons_self hy
    · rcases h with h | h
      · rcases List.mem_cons.mp h with h | h
        · subst h; exact absurd rfl hy
        · exact Or.inl h
      · right
        rw [getD_setIfInBounds_ne _ _ _ _ _ hy]; exact h

/-- a cell not written by a fold of writes is unchanged -/
theorem getD_foldl_set_of_not_mem {ι : Type} (l : List ι) (idx : ι → Nat) (val : ι → α) (P : Array α) (d : α) (j : Nat)
    (hj : ∀ y ∈ l, idx y ≠ j) :
    (l.foldl (fun P y => P.setIfInBounds (idx y) (val y)) P).getD j d = P.getD j d := by
  induction l generalizing P with
  | nil => rfl
  | cons y l ih =>
    simp only [List.foldl_cons]
    rw [ih _ (fun z hz => hj z (List.mem_cons_of_mem _ hz)), getD_setIfInBounds_ne _ _ _ _ _ (hj y List.mem_cons_self)]

/-! ### result of a loop with an early `return` -/

/-- what the station loop hands back: the early-returned array if there is one, otherwise the array of the final state -/
def result {τ : Type} (s : Option (Array α) × Array α × τ) : Array α :=
  match s.1 with
  | some q => q
  | none => s.2.1

@[simp] theorem result_some {τ : Type} (q P : Array α) (r : τ) : result (some q, P, r) = q := rfl
@[simp] theorem result_none {τ : Type} (P : Array α) (r : τ) : result (none, P, r) = P := rfl

/-- `Id.run` of a `do` block that ends by inspecting the state of its last loop -/
theorem run_bind_eq {β γ : Type} (X : Id β) (f : β → Id γ) (g : β → γ) (h : ∀ s, (f s).run = g s) :
    (X >>= f).run = g X.run := by
  rw [Id.run_bind]; exact h _

end plain

variable {α : Type} [Add α] [Sub α] [Mul α] [Div α] [Neg α] [Flt α]

/-! ### the station loop -/

/-- one pass of a station loop: add `t u` to cell `index`, then stop if that cell reads `-inf` -/
def StationBody {τ : Type} (index : Nat) (t : Nat → α)
    (body : Nat → Option (Array α) × Array α × τ → Id (ForInStep (Option (Array α) × Array α × τ))) : Prop :=
  ∀ (u : Nat) (o : Option (Array α)) (P : Array α) (r : τ), ∃ r' : τ,
    body u (o, P, r) =
      pure (if Flt.eqb ((P.setIfInBounds index (P.getD index (c 0) + t u)).getD index (c 0)) negInf = true then
          ForInStep.done (some (P.setIfInBounds index (P.getD index (c 0) + t u)),
            P.setIfInBounds index (P.getD index (c 0) + t u), r')
        else ForInStep.yield (none, P.setIfInBounds index (P.getD index (c 0) + t u), r'))

/-- a loop whose passes are `StationBody` computes `accumulate` into cell `index` (and leaves the array alone if `index` is
    out of bounds) -/
theorem forIn_station_list {τ : Type} (index : Nat) (t : Nat → α)
    (body : Nat → Option (Array α) × Array α × τ → Id (ForInStep (Option (Array α) × Array α × τ)))
    (hbody : StationBody index t body) (n s : Nat) (P : Array α) (r : τ) :
    result (forIn (List.range' s n) (none, P, r) body).run
      = P.setIfInBounds index (accumulate t n s (P.getD index (c 0))) := by
  by_cases hin : index < P.size
  · induction n generalizing s P r with
    | zero =>
      simp only [List.range'_zero, List.forIn_nil, Id.run_pure, result_none, accumulate]
      exact (setIfInBounds_getD_self P index (c 0)).symm
    | succ n ih =>
      obtain ⟨r', hb⟩ := hbody s none P r
      rw [List.range'_succ, List.forIn_cons, hb]
      simp only [pure_bind, accumulate]
      rw [getD_setIfInBounds_self _ _ _ _ hin]
      by_cases hstop : Flt.eqb (P.getD index (c 0) + t s) negInf = true
      · simp only [hstop, if_true, Id.run_pure, result_some]
      · simp only [hstop, Bool.false_eq_true, if_false]
        rw [ih (s + 1) _ r' (by simpa using hin), getD_setIfInBounds_self _ _ _ _ hin,
          Array.setIfInBounds_setIfInBounds]
  · have hle : P.size ≤ index := Nat.le_of_not_lt hin
    rw [Array.setIfInBounds_eq_of_size_le hle]
    induction n generalizing s r with
    | zero => simp only [List.range'_zero, List.forIn_nil, Id.run_pure, result_none]
    | succ n ih =>
      obtain ⟨r', hb⟩ := hbody s none P r
      rw [List.range'_succ, List.forIn_cons, hb]
      simp only [pure_bind, Array.setIfInBounds_eq_of_size_le hle]
      by_cases hstop : Flt.eqb (P.getD index (c 0)) negInf = true
      · simp only [hstop, if_true, Id.run_pure, result_some]
      · simp only [hstop, Bool.false_eq_true, if_false]
        exact ih _ _

/-- the same for `for u in [0:n]` -/
theorem forIn_station {τ : Type} (index : Nat) (t : Nat → α)
    (body : Nat → Option (Array α) × Array α × τ → Id (ForInStep (Option (Array α) × Array α × τ)))
    (hbody : StationBody index t body) (n : Nat) (P : Array α) (r : τ) :
    result (forIn [0:n] (none, P, r) body).run
      = P.setIfInBounds index (accumulate t n 0 (P.getD index (c 0))) := by
  rw [forIn_range_eq_list]
  exact forIn_station_list index t body hbody n 0 P r

/-! ### the kernels around the station loops -/

/-- overwrite a cell, then run a station loop on it -/
theorem set_set_accumulate (P : Array α) (i : Nat) (x : α) (t : Nat → α) (n : Nat) :
    (P.setIfInBounds i x).setIfInBounds i (accumulate t n 0 ((P.setIfInBounds i x).getD i (c 0)))
      = P.setIfInBounds i (accumulate t n 0 x) := by
  by_cases h : i < P.size
  · rw [getD_setIfInBounds_self _ _ _ _ h, Array.setIfInBounds_setIfInBounds]
  · simp only [Array.setIfInBounds_eq_of_size_le (Nat.le_of_not_lt h)]

/-- the array after the un-marginalised kernel: cell `v * wmax + w` is overwritten with `F v w`, for `w` (outer loop) and `v`
    (inner loop) in range, in the order of the code -/
def fillCells (F : Nat → Nat → α) (vmax wmax : Nat) (P : Array α) : Array α :=
  (List.range wmax).foldl
    (fun P w => (List.range vmax).foldl (fun P v => P.setIfInBounds (v * wmax + w) (F v w)) P) P

omit [Add α] [Sub α] [Mul α] [Div α] [Neg α] [Flt α] in
theorem fillCells_eq_flat (F : Nat → Nat → α) (vmax wmax : Nat) (P : Array α) :
    fillCells F vmax wmax P
      = ((List.range wmax).flatMap (fun w => (List.range vmax).map (fun v => (v, w)))).foldl
          (fun P y => P.setIfInBounds (y.1 * wmax + y.2) (F y.1 y.2)) P := by
  simp only [fillCells, List.foldl_flatMap, List.foldl_map]

omit [Add α] [Sub α] [Mul α] [Div α] [Neg α] [Flt α] in
theorem size_fillCells (F : Nat → Nat → α) (vmax wmax : Nat) (P : Array α) :
    (fillCells F vmax wmax P).size = P.size := by
  rw [fillCells_eq_flat]
  exact size_foldl_set _ (fun y : Nat × Nat => y.1 * wmax + y.2) (fun y => F y.1 y.2) P

theorem cell_lt {v w vmax wmax : Nat} (hv : v < vmax) (hw : w < wmax) : v * wmax + w < vmax * wmax :=
  calc v * wmax + w < v * wmax + wmax := Nat.add_lt_add_left hw _
    _ = (v + 1) * wmax := (Nat.succ_mul v wmax).symm
    _ ≤ vmax * wmax := Nat.mul_le_mul_right _ hv

theorem cell_inj {v w v' w' wmax : Nat} (hw : w < wmax) (hw' : w' < wmax)
    (h : v' * wmax + w' = v * wmax + w) : v' = v ∧ w' = w := by
  have h1 : w' = w := by
    have := congrArg (· % wmax) h
    simpa [Nat.mul_add_mod_of_lt, Nat.mod_eq_of_lt hw, Nat.mod_eq_of_lt hw', Nat.add_comm, Nat.mul_comm] using this
  subst h1
  have h2 : v' * wmax = v * wmax := Nat.add_right_cancel h
  exact ⟨Nat.eq_of_mul_eq_mul_right (Nat.lt_of_le_of_lt (Nat.zero_le _) hw) h2, rfl⟩

omit [Add α] [Sub α] [Mul α] [Div α] [Neg α] [Flt α] in
/-- every cell `v * wmax + w` of the filled array holds `F v w` -/
theorem getD_fillCells (F : Nat → Nat → α) (vmax wmax : Nat) (P : Array α) (d : α) (hsize : vmax * wmax ≤ P.size)
    {v w : Nat} (hv : v < vmax) (hw : w < wmax) :
    (fillCells F vmax wmax P).getD (v * wmax + w) d = F v w := by
  rw [fillCells_eq_flat]
  refine getD_foldl_set _ (fun y : Nat × Nat => y.1 * wmax + y.2) (fun y => F y.1 y.2) P d (v, w) ?_ ?_ ?_
  · simp only [List.mem_flatMap, List.mem_map, List.mem_range]
    exact ⟨w, hw, v, hv, rfl⟩
  · rintro ⟨v', w'⟩ hy h
    simp only [List.mem_flatMap, List.mem_map, List.mem_range, Prod.mk.injEq] at hy
    obtain ⟨w'', hw'', v'', hv'', rfl, rfl⟩ := hy
    obtain ⟨rfl, rfl⟩ := cell_inj hw hw'' h
    rfl
  · exact Nat.lt_of_lt_of_le (cell_lt hv hw) hsize

omit [Add α] [Sub α] [Mul α] [Div α] [Neg α] [Flt α] in
/-- the cells from `vmax * wmax` on are not touched -/
theorem getD_fillCells_of_le (F : Nat → Nat → α) (vmax wmax : Nat) (P : Array α) (d : α) {j : Nat}
    (hj : vmax * wmax ≤ j) : (fillCells F vmax wmax P).getD j d = P.getD j d := by
  rw [fillCells_eq_flat]
  refine getD_foldl_set_of_not_mem _ (fun y : Nat × Nat => y.1 * wmax + y.2) (fun y => F y.1 y.2) P d j ?_
  rintro ⟨v', w'⟩ hy
  simp only [List.mem_flatMap, List.mem_map, List.mem_range, Prod.mk.injEq] at hy
  obtain ⟨w'', hw'', v'', hv'', rfl, rfl⟩ := hy
  exact Nat.ne_of_lt (Nat.lt_of_lt_of_le (cell_lt hv'' hw'') hj)

/-! ### marginalisation over the location samples -/

/-- running maximum of the location-sample values, started from `-inf` as the code does -/
def margMax (x : Nat → α) (vmax : Nat) : α :=
  (List.range vmax).foldl (fun m v => fmax m (x v)) negInf

/-- `Σ_v exp (x v - m)`, summed left to right starting from 0 -/
def margSum (x : Nat → α) (vmax : Nat) (m : α) : α :=
  (List.range vmax).foldl (fun s v => s + Flt.exp (x v - m)) (c 0)

/-- the marginalised cell: `log (Σ_v exp (x v - m)) + m` with `m` the running maximum, or `-inf` when `m` is not `> -inf` -/
def margCell (x : Nat → α) (vmax : Nat) : α :=
  if Flt.ltb negInf (margMax x vmax) = true then
    Flt.log (margSum x vmax (margMax x vmax)) + margMax x vmax
  else negInf

/-- repeated `P[w] := P[w] + e v` -/
theorem foldl_add_cell {ι : Type} (P : Array α) (w : Nat) (l : List ι) (e : ι → α) :
    l.foldl (fun P v => P.setIfInBounds w (P.getD w (c 0) + e v)) P
      = P.setIfInBounds w (l.foldl (fun s v => s + e v) (P.getD w (c 0))) := by
  by_cases hw : w < P.size
  · induction l generalizing P with
    | nil => exact (setIfInBounds_getD_self P w (c 0)).symm
    | cons k l ih =>
      simp only [List.foldl_cons]
      rw [ih _ (by simpa using hw), getD_setIfInBounds_self _ _ _ _ hw, Array.setIfInBounds_setIfInBounds]
  · have hle : P.size ≤ w := Nat.le_of_not_lt hw
    rw [Array.setIfInBounds_eq_of_size_le hle]
    induction l with
    | nil => rfl
    | cons k l ih => simp only [List.foldl_cons, Array.setIfInBounds_eq_of_size_le hle]; exact ih

/-- `P[w] := 0; for v: P[w] := P[w] + e v; P[w] := log P[w] + m` -/
theorem marg_cell_pipeline {ι : Type} (P : Array α) (w : Nat) (l : List ι) (e : ι → α) (m : α) :
    (l.foldl (fun P v => P.setIfInBounds w (P.getD w (c 0) + e v)) (P.setIfInBounds w (c 0))).setIfInBounds w
        (Flt.log ((l.foldl (fun P v => P.setIfInBounds w (P.getD w (c 0) + e v)) (P.setIfInBounds w (c 0))).getD w (c 0))
          + m)
      = P.setIfInBounds w (Flt.log (l.foldl (fun s v => s + e v) (c 0)) + m) := by
  rw [foldl_add_cell]
  by_cases hw : w < P.size
  · have h1 : w < (P.setIfInBounds w (c 0)).size := by simpa using hw
    rw [getD_setIfInBounds_self _ _ _ _ hw, getD_setIfInBounds_self _ _ _ _ h1, Array.setIfInBounds_setIfInBounds,
      Array.setIfInBounds_setIfInBounds]
  · simp only [Array.setIfInBounds_eq_of_size_le (Nat.le_of_not_lt hw)]

omit [Add α] [Sub α] [Mul α] [Div α] [Neg α] [Flt α] in
/-- after `for v in [0:vmax]: L[v] := X v`, reading `L[v]` gives `X v` -/
theorem getD_foldl_set_self (X : Nat → α) (vmax : Nat) (L : Array α) (d : α) (hL : vmax ≤ L.size) {v : Nat}
    (hv : v < vmax) :
    ((List.range vmax).foldl (fun (L : Array α) v => L.setIfInBounds v (X v)) L).getD v d = X v :=
  getD_foldl_set (List.range vmax) (fun v => v) X L d v (List.mem_range.mpr hv) (fun _ _ h => h ▸ rfl)
    (Nat.lt_of_lt_of_le hv hL)

end PyxLoop
end MTfitVerif
