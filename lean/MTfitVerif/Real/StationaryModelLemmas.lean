import MTfitVerif.Real.AcceptanceLemmas
import Mathlib.MeasureTheory.Integral.IntervalIntegral.FundThmCalculus
import Mathlib.MeasureTheory.Measure.Prod
/-
  Helper lemmas for C07 (stationarity half, model instance): the truncated-Gaussian factor
  `truncTerm · m s lo hi` of the proposal density is a probability density on `[lo, hi]`
  (fundamental theorem of calculus for `erf`), and measurability of the model functions.
-/
namespace MTfitVerif.Acceptance
open MTfitVerif LogP Real MeasureTheory
open scoped ENNReal

/-! ### `erf` is differentiable, the Gaussian CDF has the Gaussian density as derivative -/

theorem erf_hasDerivAt (x : ℝ) : HasDerivAt erf (2 / √π * Real.exp (-x ^ 2)) x := by
  have hc : Continuous fun t : ℝ => Real.exp (-t ^ 2) := by fun_prop
  have h := (hc.integral_hasStrictDerivAt 0 x).hasDerivAt
  exact h.const_mul (2 / √π)

theorem erf_continuous : Continuous erf :=
  continuous_iff_continuousAt.mpr fun x => (erf_hasDerivAt x).continuousAt

theorem gaussCdf_hasDerivAt (x μ : ℝ) {s : ℝ} (hs : 0 < s) :
    HasDerivAt (fun x => gaussCdf x μ s) (gaussPdf x μ s) x := by
  have h2 : (0:ℝ) < √2 := by positivity
  have hπ : (0:ℝ) < √π := by positivity
  have hin : HasDerivAt (fun x : ℝ => (x - μ) / s / √2) (1 / s / √2) x := by
    have := ((hasDerivAt_id x).sub_const μ).div_const s |>.div_const (√2)
    simpa using this
  have h := ((erf_hasDerivAt ((x - μ) / s / √2)).comp x hin).const_add 1 |>.const_mul (1 / 2 : ℝ)
  have hfun : (fun x => gaussCdf x μ s) = fun x => 1 / 2 * (1 + (erf ∘ fun x : ℝ => (x - μ) / s / √2) x) :=
    funext fun x => gaussCdf_eq x μ s
  have e : -((x - μ) / s / √2) ^ 2 = -((x - μ) / s * ((x - μ) / s)) / 2 := by
    rw [div_pow, Real.sq_sqrt (by norm_num : (0:ℝ) ≤ 2)]; ring
  have hval : gaussPdf x μ s
      = 1 / 2 * (2 / √π * Real.exp (-((x - μ) / s / √2) ^ 2) * (1 / s / √2)) := by
    rw [gaussPdf_eq, Real.sqrt_mul (by norm_num : (0:ℝ) ≤ 2), e]
    field_simp
  rw [hfun, hval]
  exact h

theorem gaussPdf_continuous (μ s : ℝ) : Continuous fun x => gaussPdf x μ s := by
  have : (fun x => gaussPdf x μ s)
      = fun x => Real.exp (-(((x - μ) / s) * ((x - μ) / s)) / 2) / √(2 * π) / s :=
    funext fun x => gaussPdf_eq x μ s
  rw [this]; fun_prop

theorem integral_gaussPdf_eq_cdf_sub (μ : ℝ) {s : ℝ} (hs : 0 < s) (lo hi : ℝ) :
    ∫ x in lo..hi, gaussPdf x μ s = gaussCdf hi μ s - gaussCdf lo μ s :=
  intervalIntegral.integral_eq_sub_of_hasDerivAt (fun x _ => gaussCdf_hasDerivAt x μ hs)
    ((gaussPdf_continuous μ s).intervalIntegrable _ _)

theorem truncTerm_continuous (m s lo hi : ℝ) : Continuous fun x => truncTerm x m s lo hi := by
  unfold truncTerm
  exact (gaussPdf_continuous m s).div_const _

/-- **the truncated Gaussian is a probability density on `[lo, hi]`** (for every mean `m`) -/
theorem integral_truncTerm (m : ℝ) {s lo hi : ℝ} (hs : 0 < s) (hlh : lo < hi) :
    ∫ x in lo..hi, truncTerm x m s lo hi = 1 := by
  have hpos : 0 < gaussCdf hi m s - gaussCdf lo m s := sub_pos.mpr (gaussCdf_lt m hs hlh)
  unfold truncTerm
  rw [intervalIntegral.integral_div, integral_gaussPdf_eq_cdf_sub m hs, div_self hpos.ne']

/-- the same as a lower Lebesgue integral over the closed interval -/
theorem lintegral_truncTerm (m : ℝ) {s lo hi : ℝ} (hs : 0 < s) (hlh : lo < hi) :
    ∫⁻ x in Set.Icc lo hi, ENNReal.ofReal (truncTerm x m s lo hi) = 1 := by
  have hint : Integrable (fun x => truncTerm x m s lo hi) (volume.restrict (Set.Icc lo hi)) :=
    (truncTerm_continuous m s lo hi).continuousOn.integrableOn_compact isCompact_Icc
  rw [← ofReal_integral_eq_lintegral_ofReal hint
    (Filter.Eventually.of_forall fun x => (truncTerm_pos' x m hs hlh).le),
    integral_Icc_eq_integral_Ioc, ← intervalIntegral.integral_of_le hlh.le,
    integral_truncTerm m hs hlh, ENNReal.ofReal_one]

/-! ### joint measurability of the proposal density -/

theorem measurable_gaussPdf (s : ℝ) : Measurable fun p : ℝ × ℝ => gaussPdf p.1 p.2 s := by
  have : (fun p : ℝ × ℝ => gaussPdf p.1 p.2 s)
      = fun p => Real.exp (-(((p.1 - p.2) / s) * ((p.1 - p.2) / s)) / 2) / √(2 * π) / s :=
    funext fun p => gaussPdf_eq p.1 p.2 s
  rw [this]
  exact Continuous.measurable (by fun_prop)

theorem measurable_gaussCdf (x s : ℝ) : Measurable fun m : ℝ => gaussCdf x m s := by
  have : (fun m : ℝ => gaussCdf x m s) = fun m => 1 / 2 * (1 + erf ((x - m) / s / √2)) :=
    funext fun m => gaussCdf_eq x m s
  rw [this]
  have hc := erf_continuous
  exact Continuous.measurable (by fun_prop)

/-- `truncTerm x m s lo hi` is jointly measurable in (proposed value, mean) -/
theorem measurable_truncTerm (s lo hi : ℝ) :
    Measurable fun p : ℝ × ℝ => truncTerm p.1 p.2 s lo hi := by
  unfold truncTerm
  exact (measurable_gaussPdf s).div
    (((measurable_gaussCdf hi s).sub (measurable_gaussCdf lo s)).comp measurable_snd)

/-! ### Tonelli for a five-fold product of one-dimensional factors -/

theorem lintegral_prod5 {A B C D E : Type*} [MeasurableSpace A] [MeasurableSpace B]
    [MeasurableSpace C] [MeasurableSpace D] [MeasurableSpace E]
    {μ1 : Measure A} {μ2 : Measure B} {μ3 : Measure C} {μ4 : Measure D} {μ5 : Measure E}
    [SFinite μ1] [SFinite μ2] [SFinite μ3] [SFinite μ4] [SFinite μ5]
    {F1 : A → ℝ≥0∞} {F2 : B → ℝ≥0∞} {F3 : C → ℝ≥0∞} {F4 : D → ℝ≥0∞} {F5 : E → ℝ≥0∞}
    (h1 : Measurable F1) (h2 : Measurable F2) (h3 : Measurable F3) (h4 : Measurable F4)
    (h5 : Measurable F5) :
    ∫⁻ y, F1 y.1 * (F2 y.2.1 * (F3 y.2.2.1 * (F4 y.2.2.2.1 * F5 y.2.2.2.2)))
        ∂(μ1.prod (μ2.prod (μ3.prod (μ4.prod μ5))))
      = (∫⁻ x, F1 x ∂μ1) * ((∫⁻ x, F2 x ∂μ2) * ((∫⁻ x, F3 x ∂μ3) *
          ((∫⁻ x, F4 x ∂μ4) * ∫⁻ x, F5 x ∂μ5))) := by
  have e45 : ∫⁻ z, F4 z.1 * F5 z.2 ∂(μ4.prod μ5) = (∫⁻ x, F4 x ∂μ4) * ∫⁻ x, F5 x ∂μ5 :=
    lintegral_prod_mul h4.aemeasurable h5.aemeasurable
  have m45 : Measurable fun z : D × E => F4 z.1 * F5 z.2 :=
    (h4.comp measurable_fst).mul (h5.comp measurable_snd)
  have e345 : ∫⁻ z, F3 z.1 * (F4 z.2.1 * F5 z.2.2) ∂(μ3.prod (μ4.prod μ5))
      = (∫⁻ x, F3 x ∂μ3) * ((∫⁻ x, F4 x ∂μ4) * ∫⁻ x, F5 x ∂μ5) := by
    rw [← e45]
    exact lintegral_prod_mul (g := fun z : D × E => F4 z.1 * F5 z.2) h3.aemeasurable m45.aemeasurable
  have m345 : Measurable fun z : C × D × E => F3 z.1 * (F4 z.2.1 * F5 z.2.2) :=
    (h3.comp measurable_fst).mul (m45.comp measurable_snd)
  have e2345 : ∫⁻ z, F2 z.1 * (F3 z.2.1 * (F4 z.2.2.1 * F5 z.2.2.2)) ∂(μ2.prod (μ3.prod (μ4.prod μ5)))
      = (∫⁻ x, F2 x ∂μ2) * ((∫⁻ x, F3 x ∂μ3) * ((∫⁻ x, F4 x ∂μ4) * ∫⁻ x, F5 x ∂μ5)) := by
    rw [← e345]
    exact lintegral_prod_mul (g := fun z : C × D × E => F3 z.1 * (F4 z.2.1 * F5 z.2.2))
      h2.aemeasurable m345.aemeasurable
  have m2345 : Measurable fun z : B × C × D × E => F2 z.1 * (F3 z.2.1 * (F4 z.2.2.1 * F5 z.2.2.2)) :=
    (h2.comp measurable_fst).mul (m345.comp measurable_snd)
  rw [← e2345]
  exact lintegral_prod_mul
    (g := fun z : B × C × D × E => F2 z.1 * (F3 z.2.1 * (F4 z.2.2.1 * F5 z.2.2.2)))
    h1.aemeasurable m2345.aemeasurable

/-! ### the acceptance as an `if`-cascade of real functions -/

/-- `acceptMH` in terms of the likelihoods `toProb L` (no case split on `LogP`) -/
theorem acceptMH_eq_ite (prior : Bool → Tape ℝ → ℝ) (dc : Bool) (w : Widths ℝ) (xi x : Tape ℝ)
    (Lxi Lx : LogP ℝ) :
    acceptMH prior dc w xi x Lxi Lx =
      if toProb Lx = 0 then 0 else if toProb Lxi = 0 then 1 else
      if 0 < transPdf dc w x xi ∧ 0 < prior dc xi then
        min 1 (transPdf dc w xi x * prior dc x / (transPdf dc w x xi * prior dc xi)
          * (toProb Lx / toProb Lxi))
      else 1 := by
  cases Lx with
  | negInf => simp [acceptMH]
  | fin lx =>
    cases Lxi with
    | negInf => simp [acceptMH, (Real.exp_pos lx).ne']
    | fin lxi =>
      rw [if_neg (by simp [(Real.exp_pos lx).ne']), if_neg (by simp [(Real.exp_pos lxi).ne'])]
      by_cases h : 0 < transPdf dc w x xi ∧ 0 < prior dc xi
      · rw [if_pos h, acceptMH_fin_some _ _ _ _ _ _ _ (mhRatio_of_pos prior dc w xi x h.1 h.2),
          Real.exp_sub]
        rfl
      · rw [if_neg h]
        exact acceptMH_fin_none _ _ _ _ _ _ _ (by rw [mhRatio_eq, if_neg h])

end MTfitVerif.Acceptance

namespace MTfitVerif.Stationary
open MTfitVerif LogP Acceptance Real MeasureTheory
open scoped ENNReal

theorem measurable_swap_args {X : Type*} [MeasurableSpace X] (f : X → X → ℝ)
    (h : Measurable fun p : X × X => f p.2 p.1) : Measurable fun p : X × X => f p.1 p.2 :=
  h.comp measurable_swap

/-- measurability of the model's acceptance as a function of (current, proposed), from
    measurability of the proposal density, the prior and the likelihood -/
theorem measurable_acceptMH {X : Type*} [MeasurableSpace X] (prior : Bool → Tape ℝ → ℝ) (dc : Bool)
    (w : Widths ℝ) (L : Tape ℝ → LogP ℝ) (st : X → Tape ℝ)
    (hT : Measurable fun p : X × X => transPdf dc w (st p.2) (st p.1))
    (hprior : Measurable fun x => prior dc (st x)) (hL : Measurable fun x => toProb (L (st x))) :
    Measurable fun p : X × X => acceptMH prior dc w (st p.1) (st p.2) (L (st p.1)) (L (st p.2)) := by
  simp only [acceptMH_eq_ite]
  have hT' : Measurable fun p : X × X => transPdf dc w (st p.1) (st p.2) :=
    measurable_swap_args (fun a b => transPdf dc w (st a) (st b)) hT
  have hp1 : Measurable fun p : X × X => prior dc (st p.1) := hprior.comp measurable_fst
  have hp2 : Measurable fun p : X × X => prior dc (st p.2) := hprior.comp measurable_snd
  have hL1 : Measurable fun p : X × X => toProb (L (st p.1)) := hL.comp measurable_fst
  have hL2 : Measurable fun p : X × X => toProb (L (st p.2)) := hL.comp measurable_snd
  refine Measurable.ite (measurableSet_eq_fun hL2 measurable_const) measurable_const ?_
  refine Measurable.ite (measurableSet_eq_fun hL1 measurable_const) measurable_const ?_
  refine Measurable.ite ((measurableSet_lt measurable_const hT).inter
    (measurableSet_lt measurable_const hp1)) ?_ measurable_const
  exact measurable_const.min (((hT'.mul hp2).div (hT.mul hp1)).mul (hL2.div hL1))

/-! ### a concrete parametrisation: coordinates (γ, δ, κ, h, σ) -/

/-- the five source coordinates: lune longitude, lune latitude, strike, cos(dip), slip -/
abbrev Coord := ℝ × ℝ × ℝ × ℝ × ℝ

def toTape (p : Coord) : Tape ℝ := ⟨p.1, p.2.1, p.2.2.1, p.2.2.2.1, p.2.2.2.2⟩

/-- reference measure of a lune coordinate: Lebesgue on `[-r, r]` for the full moment tensor,
    the point mass at 0 for a double-couple-constrained chain -/
noncomputable def luneMeasure (dc : Bool) (r : ℝ) : Measure ℝ :=
  if dc then Measure.dirac 0 else volume.restrict (Set.Icc (-r) r)

instance (dc : Bool) (r : ℝ) : SFinite (luneMeasure dc r) := by
  unfold luneMeasure; cases dc <;> simp only [Bool.false_eq_true, if_false, if_true] <;> infer_instance

/-- reference measure on the coordinates: Lebesgue on the source domain
    `[-π/6, π/6] × [-π/2, π/2] × · × [0, 1] × [-π/2, π/2]` (point masses on the lune coordinates
    for a double-couple chain), and any s-finite `μκ` on strike -/
noncomputable def refMeasure (dc : Bool) (μκ : Measure ℝ) : Measure Coord :=
  (luneMeasure dc (π / 6)).prod ((luneMeasure dc (π / 2)).prod (μκ.prod
    ((volume.restrict (Set.Icc (0:ℝ) 1)).prod (volume.restrict (Set.Icc (-(π / 2)) (π / 2))))))

instance (dc : Bool) (μκ : Measure ℝ) [SFinite μκ] : SFinite (refMeasure dc μκ) := by
  unfold refMeasure; infer_instance

/-- one-dimensional lune factor of the proposal density -/
noncomputable def luneFactor (dc : Bool) (s r m x : ℝ) : ℝ :=
  if dc then 1 else truncTerm x m s (-r) r

theorem transPdf_factor (dc : Bool) (w : Widths ℝ) (y x : Tape ℝ) :
    transPdf dc w y x = luneFactor dc w.gamma (π / 6) x.gamma y.gamma
      * luneFactor dc w.delta (π / 2) x.delta y.delta
      * truncTerm y.h x.h w.h 0 1 * truncTerm y.sigma x.sigma w.sigma (-(π / 2)) (π / 2) := by
  unfold transPdf luneFactor
  cases dc <;> simp

theorem luneFactor_nonneg (dc : Bool) {s r : ℝ} (hs : 0 < s) (hr : 0 < r) (m x : ℝ) :
    0 ≤ luneFactor dc s r m x := by
  unfold luneFactor
  cases dc
  · simpa using (truncTerm_pos' x m hs (by linarith : -r < r)).le
  · simp

theorem measurable_luneFactor (dc : Bool) (s r : ℝ) :
    Measurable fun p : ℝ × ℝ => luneFactor dc s r p.2 p.1 := by
  unfold luneFactor
  cases dc
  · simpa using measurable_truncTerm s (-r) r
  · simp

theorem lintegral_luneFactor (dc : Bool) {s r : ℝ} (hs : 0 < s) (hr : 0 < r) (m : ℝ) :
    ∫⁻ x, ENNReal.ofReal (luneFactor dc s r m x) ∂(luneMeasure dc r) = 1 := by
  unfold luneFactor luneMeasure
  cases dc
  · simpa using lintegral_truncTerm m hs (by linarith : -r < r)
  · simp

/-- joint measurability of the proposal density in the coordinates -/
theorem measurable_transPdf_coord (dc : Bool) (w : Widths ℝ) :
    Measurable fun p : Coord × Coord => transPdf dc w (toTape p.2) (toTape p.1) := by
  simp only [transPdf_factor, toTape]
  have m1 := (measurable_luneFactor dc w.gamma (π / 6)).comp
    (f := fun p : Coord × Coord => (p.2.1, p.1.1)) (by fun_prop)
  have m2 := (measurable_luneFactor dc w.delta (π / 2)).comp
    (f := fun p : Coord × Coord => (p.2.2.1, p.1.2.1)) (by fun_prop)
  have m3 := (measurable_truncTerm w.h 0 1).comp
    (f := fun p : Coord × Coord => (p.2.2.2.2.1, p.1.2.2.2.1)) (by fun_prop)
  have m4 := (measurable_truncTerm w.sigma (-(π / 2)) (π / 2)).comp
    (f := fun p : Coord × Coord => (p.2.2.2.2.2, p.1.2.2.2.2)) (by fun_prop)
  exact ((m1.mul m2).mul m3).mul m4

/-- **the proposal density is normalised** w.r.t. the reference measure: the model's
    `transPdf` (lune coordinates, cos(dip), slip) times a normalised strike kernel `k` -/
theorem lintegral_proposal (dc : Bool) (w : Widths ℝ)
    (hw : 0 < w.gamma ∧ 0 < w.delta ∧ 0 < w.h ∧ 0 < w.sigma) (μκ : Measure ℝ) [SFinite μκ]
    (k : ℝ → ℝ → ℝ) (hkm : Measurable (Function.uncurry k)) (hk0 : ∀ a b, 0 ≤ k a b)
    (hkn : ∀ a, ∫⁻ b, ENNReal.ofReal (k a b) ∂μκ = 1) (x : Coord) :
    ∫⁻ y, ENNReal.ofReal (transPdf dc w (toTape y) (toTape x) * k x.2.2.1 y.2.2.1)
      ∂(refMeasure dc μκ) = 1 := by
  obtain ⟨hg, hd, hh, hs⟩ := hw
  have hπ := Real.pi_pos
  have h6 : 0 < π / 6 := by positivity
  have h2 : 0 < π / 2 := by positivity
  have hpt : ∀ y : Coord, ENNReal.ofReal (transPdf dc w (toTape y) (toTape x) * k x.2.2.1 y.2.2.1)
      = ENNReal.ofReal (luneFactor dc w.gamma (π / 6) x.1 y.1)
        * (ENNReal.ofReal (luneFactor dc w.delta (π / 2) x.2.1 y.2.1)
        * (ENNReal.ofReal (k x.2.2.1 y.2.2.1)
        * (ENNReal.ofReal (truncTerm y.2.2.2.1 x.2.2.2.1 w.h 0 1)
        * ENNReal.ofReal (truncTerm y.2.2.2.2 x.2.2.2.2 w.sigma (-(π / 2)) (π / 2))))) := by
    intro y
    have n1 := luneFactor_nonneg dc hg h6 x.1 y.1
    have n2 := luneFactor_nonneg dc hd h2 x.2.1 y.2.1
    have n3 := hk0 x.2.2.1 y.2.2.1
    have n4 := (truncTerm_pos' y.2.2.2.1 x.2.2.2.1 hh (zero_lt_one' ℝ)).le
    rw [← ENNReal.ofReal_mul n4, ← ENNReal.ofReal_mul n3, ← ENNReal.ofReal_mul n2,
      ← ENNReal.ofReal_mul n1, transPdf_factor]
    congr 1
    simp only [toTape]
    ring
  simp only [hpt]
  unfold refMeasure
  rw [lintegral_prod5 (F1 := fun g => ENNReal.ofReal (luneFactor dc w.gamma (π / 6) x.1 g))
    (F2 := fun d => ENNReal.ofReal (luneFactor dc w.delta (π / 2) x.2.1 d))
    (F3 := fun κ => ENNReal.ofReal (k x.2.2.1 κ))
    (F4 := fun h => ENNReal.ofReal (truncTerm h x.2.2.2.1 w.h 0 1))
    (F5 := fun σ => ENNReal.ofReal (truncTerm σ x.2.2.2.2 w.sigma (-(π / 2)) (π / 2)))
    ((measurable_luneFactor dc _ _).comp (measurable_id.prodMk measurable_const)).ennreal_ofReal
    ((measurable_luneFactor dc _ _).comp (measurable_id.prodMk measurable_const)).ennreal_ofReal
    (Measurable.of_uncurry_left hkm).ennreal_ofReal
    ((measurable_truncTerm _ _ _).comp (measurable_id.prodMk measurable_const)).ennreal_ofReal
    ((measurable_truncTerm _ _ _).comp (measurable_id.prodMk measurable_const)).ennreal_ofReal,
    lintegral_luneFactor dc hg h6, lintegral_luneFactor dc hd h2, hkn,
    lintegral_truncTerm _ hh (zero_lt_one' ℝ), lintegral_truncTerm _ hs (by linarith)]
  simp

end MTfitVerif.Stationary
