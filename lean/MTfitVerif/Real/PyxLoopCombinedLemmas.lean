import MTfitVerif.Model.PyxSpecCombined
import MTfitVerif.Real.PyxLoopLemmas
/-
  Helper lemmas for C20LC (`Props/C20LoopsCombined.lean`): the station loop whose passes are only known for the stations
  below the loop bound, the case lemmas of the combined station terms of `Model/PyxSpecCombined.lean`, and the projections of
  the inner `k` loops.  Core/Std only; everything is polymorphic in the scalar type.
-/
namespace MTfitVerif
namespace PyxLoop
open PyxSpec

variable {α : Type} [Add α] [Sub α] [Mul α] [Div α] [Neg α] [Flt α]

/-! ### the station loop, passes known below a bound -/

/-- one pass of a station loop, for the stations `u < N` only: add `t u` to cell `index`, then stop if that cell reads `-inf` -/
def StationBodyBelow {τ : Type} (N index : Nat) (t : Nat → α)
    (body : Nat → Option (Array α) × Array α × τ → Id (ForInStep (Option (Array α) × Array α × τ))) : Prop :=
  ∀ (u : Nat), u < N → ∀ (o : Option (Array α)) (P : Array α) (r : τ), ∃ r' : τ,
    body u (o, P, r) =
      pure (if Flt.eqb ((P.setIfInBounds index (P.getD index (c 0) + t u)).getD index (c 0)) negInf = true then
          ForInStep.done (some (P.setIfInBounds index (P.getD index (c 0) + t u)),
            P.setIfInBounds index (P.getD index (c 0) + t u), r')
        else ForInStep.yield (none, P.setIfInBounds index (P.getD index (c 0) + t u), r'))

theorem forIn_station_list_below {τ : Type} (N index : Nat) (t : Nat → α)
    (body : Nat → Option (Array α) × Array α × τ → Id (ForInStep (Option (Array α) × Array α × τ)))
    (hbody : StationBodyBelow N index t body) (n s : Nat) (hs : s + n ≤ N) (P : Array α) (r : τ) :
    result (forIn (List.range' s n) (none, P, r) body).run
      = P.setIfInBounds index (accumulate t n s (P.getD index (c 0))) := by
  by_cases hin : index < P.size
  · induction n generalizing s P r with
    | zero =>
      simp only [List.range'_zero, List.forIn_nil, Id.run_pure, result_none, accumulate]
      exact (setIfInBounds_getD_self P index (c 0)).symm
    | succ n ih =>
      obtain ⟨r', hb⟩ := hbody s (by omega) none P r
      rw [List.range'_succ, List.forIn_cons, hb]
      simp only [pure_bind, accumulate]
      rw [getD_setIfInBounds_self _ _ _ _ hin]
      by_cases hstop : Flt.eqb (P.getD index (c 0) + t s) negInf = true
      · simp only [hstop, if_true, Id.run_pure, result_some]
      · simp only [hstop, Bool.false_eq_true, if_false]
        rw [ih (s + 1) (by omega) _ r' (by simpa using hin), getD_setIfInBounds_self _ _ _ _ hin,
          Array.setIfInBounds_setIfInBounds]
  · have hle : P.size ≤ index := Nat.le_of_not_lt hin
    rw [Array.setIfInBounds_eq_of_size_le hle]
    induction n generalizing s r with
    | zero => simp only [List.range'_zero, List.forIn_nil, Id.run_pure, result_none]
    | succ n ih =>
      obtain ⟨r', hb⟩ := hbody s (by omega) none P r
      rw [List.range'_succ, List.forIn_cons, hb]
      simp only [pure_bind, Array.setIfInBounds_eq_of_size_le hle]
      by_cases hstop : Flt.eqb (P.getD index (c 0)) negInf = true
      · simp only [hstop, if_true, Id.run_pure, result_some]
      · simp only [hstop, Bool.false_eq_true, if_false]
        exact ih _ (by omega) _

/-- a loop `for u in [0:n]` whose passes are `StationBodyBelow n` computes `accumulate` into cell `index` (and leaves the
    array alone if `index` is out of bounds); the count on the specification side may be written differently (`N = n`) -/
theorem forIn_station_below {τ : Type} (index : Nat) (t : Nat → α)
    (body : Nat → Option (Array α) × Array α × τ → Id (ForInStep (Option (Array α) × Array α × τ)))
    (n N : Nat) (hN : N = n) (hbody : StationBodyBelow n index t body) (P : Array α) (r : τ) :
    result (forIn [0:n] (none, P, r) body).run
      = P.setIfInBounds index (accumulate t N 0 (P.getD index (c 0))) := by
  subst hN
  rw [forIn_range_eq_list]
  exact forIn_station_list_below N index t body hbody N 0 (by omega) P r

/-- the value of a projection of the state of a fold, when one pass acts on the projection as `g` does -/
theorem foldl_proj {σ ρ ι : Type} (l : List ι) (G : σ → ι → σ) (p : σ → ρ) (g : ρ → ι → ρ)
    (h : ∀ s k, p (G s k) = g (p s) k) (s0 : σ) : p (l.foldl G s0) = l.foldl g (p s0) :=
  (foldl_sim l G p g (fun _ => True) (fun s k _ _ => ⟨h s k, trivial⟩) s0 trivial).1

/-- `accumulate t n s` reads the station terms `t u` for `s ≤ u < s + n` only (so the value given to the unreachable last case
    of the combined terms of `PyxSpecCombined` does not matter) -/
theorem accumulate_congr (t t' : Nat → α) (n s : Nat) (acc : α) (h : ∀ u, s ≤ u → u < s + n → t u = t' u) :
    accumulate t n s acc = accumulate t' n s acc := by
  induction n generalizing s acc with
  | zero => rfl
  | succ n ih =>
    simp only [accumulate]
    rw [h s (Nat.le_refl s) (by omega), ih (s + 1) _ (fun u h1 h2 => h u (by omega) (by omega))]

/-! ### the combined station terms, case by case -/

section cases2
variable (a ax ay mt z sigma ipp psx psy pos neg a_prob : Array α) (ipmax v umax uarmax uprobmax vmax kmax wmax w : Nat) {u : Nat}

theorem polArTerm_tt (h1 : u < umax) (h2 : u < uarmax) :
    polArTerm a ax ay mt z sigma ipp psx psy ipmax v umax uarmax vmax kmax wmax w u
      = polTerm a mt sigma ipp ipmax v vmax kmax wmax w u + arTerm ax ay mt z psx psy v vmax kmax wmax w u := by
  simp [polArTerm, h1, h2]

theorem polArTerm_tf (h1 : u < umax) (h2 : ¬ u < uarmax) :
    polArTerm a ax ay mt z sigma ipp psx psy ipmax v umax uarmax vmax kmax wmax w u
      = polTerm a mt sigma ipp ipmax v vmax kmax wmax w u := by
  simp [polArTerm, h1, h2]

theorem polArTerm_ft (h1 : ¬ u < umax) (h2 : u < uarmax) :
    polArTerm a ax ay mt z sigma ipp psx psy ipmax v umax uarmax vmax kmax wmax w u
      = arTerm ax ay mt z psx psy v vmax kmax wmax w u := by
  simp [polArTerm, h1, h2]

theorem polProbArTerm_tt (h1 : u < umax) (h2 : u < uarmax) :
    polProbArTerm a ax ay mt z pos neg ipp psx psy ipmax v umax uarmax vmax kmax wmax w u
      = polProbTerm a mt pos neg ipp ipmax v vmax kmax wmax w u + arTerm ax ay mt z psx psy v vmax kmax wmax w u := by
  simp [polProbArTerm, h1, h2]

theorem polProbArTerm_tf (h1 : u < umax) (h2 : ¬ u < uarmax) :
    polProbArTerm a ax ay mt z pos neg ipp psx psy ipmax v umax uarmax vmax kmax wmax w u
      = polProbTerm a mt pos neg ipp ipmax v vmax kmax wmax w u := by
  simp [polProbArTerm, h1, h2]

theorem polProbArTerm_ft (h1 : ¬ u < umax) (h2 : u < uarmax) :
    polProbArTerm a ax ay mt z pos neg ipp psx psy ipmax v umax uarmax vmax kmax wmax w u
      = arTerm ax ay mt z psx psy v vmax kmax wmax w u := by
  simp [polProbArTerm, h1, h2]

theorem polPolProbTerm_tt (h1 : u < umax) (h2 : u < uprobmax) :
    polPolProbTerm a a_prob mt pos neg ipp sigma ipmax v umax uprobmax vmax kmax wmax w u
      = polTerm a mt sigma ipp ipmax v vmax kmax wmax w u + polProbTerm a_prob mt pos neg ipp ipmax v vmax kmax wmax w u := by
  simp [polPolProbTerm, h1, h2]

theorem polPolProbTerm_tf (h1 : u < umax) (h2 : ¬ u < uprobmax) :
    polPolProbTerm a a_prob mt pos neg ipp sigma ipmax v umax uprobmax vmax kmax wmax w u
      = polTerm a mt sigma ipp ipmax v vmax kmax wmax w u := by
  simp [polPolProbTerm, h1, h2]

theorem polPolProbTerm_ft (h1 : ¬ u < umax) (h2 : u < uprobmax) :
    polPolProbTerm a a_prob mt pos neg ipp sigma ipmax v umax uprobmax vmax kmax wmax w u
      = polProbTerm a_prob mt pos neg ipp ipmax v vmax kmax wmax w u := by
  simp [polPolProbTerm, h1, h2]

theorem allTerm_ttt (h1 : u < umax) (h2 : u < uprobmax) (h3 : u < uarmax) :
    allTerm a a_prob ax ay mt z pos neg ipp psx psy sigma ipmax v umax uarmax uprobmax vmax kmax wmax w u
      = (polTerm a mt sigma ipp ipmax v vmax kmax wmax w u + polProbTerm a_prob mt pos neg ipp ipmax v vmax kmax wmax w u)
          + arTerm ax ay mt z psx psy v vmax kmax wmax w u := by
  simp [allTerm, h1, h2, h3]

theorem allTerm_tft (h1 : u < umax) (h2 : ¬ u < uprobmax) (h3 : u < uarmax) :
    allTerm a a_prob ax ay mt z pos neg ipp psx psy sigma ipmax v umax uarmax uprobmax vmax kmax wmax w u
      = polTerm a mt sigma ipp ipmax v vmax kmax wmax w u + arTerm ax ay mt z psx psy v vmax kmax wmax w u := by
  simp [allTerm, h1, h2, h3]

theorem allTerm_ftt (h1 : ¬ u < umax) (h2 : u < uprobmax) (h3 : u < uarmax) :
    allTerm a a_prob ax ay mt z pos neg ipp psx psy sigma ipmax v umax uarmax uprobmax vmax kmax wmax w u
      = polProbTerm a_prob mt pos neg ipp ipmax v vmax kmax wmax w u + arTerm ax ay mt z psx psy v vmax kmax wmax w u := by
  simp [allTerm, h1, h2, h3]

theorem allTerm_fft (h1 : ¬ u < umax) (h2 : ¬ u < uprobmax) (h3 : u < uarmax) :
    allTerm a a_prob ax ay mt z pos neg ipp psx psy sigma ipmax v umax uarmax uprobmax vmax kmax wmax w u
      = arTerm ax ay mt z psx psy v vmax kmax wmax w u := by
  simp [allTerm, h1, h2, h3]

theorem allTerm_ttf (h1 : u < umax) (h2 : u < uprobmax) (h3 : ¬ u < uarmax) :
    allTerm a a_prob ax ay mt z pos neg ipp psx psy sigma ipmax v umax uarmax uprobmax vmax kmax wmax w u
      = polProbTerm a_prob mt pos neg ipp ipmax v vmax kmax wmax w u + polTerm a mt sigma ipp ipmax v vmax kmax wmax w u := by
  simp [allTerm, h1, h2, h3]

theorem allTerm_tff (h1 : u < umax) (h2 : ¬ u < uprobmax) (h3 : ¬ u < uarmax) :
    allTerm a a_prob ax ay mt z pos neg ipp psx psy sigma ipmax v umax uarmax uprobmax vmax kmax wmax w u
      = polTerm a mt sigma ipp ipmax v vmax kmax wmax w u := by
  simp [allTerm, h1, h2, h3]

theorem allTerm_ftf (h1 : ¬ u < umax) (h2 : u < uprobmax) (h3 : ¬ u < uarmax) :
    allTerm a a_prob ax ay mt z pos neg ipp psx psy sigma ipmax v umax uarmax uprobmax vmax kmax wmax w u
      = polProbTerm a_prob mt pos neg ipp ipmax v vmax kmax wmax w u := by
  simp [allTerm, h1, h2, h3]

end cases2

/-! ### the inner `k` loops: each accumulator of the loop state is a modelled amplitude `PyxSpec.amp` -/

theorem kloop1_1 (a mt : Array α) (vmax kmax wmax u v w k0 : Nat) :
    (List.foldl (fun (s : α × Nat) k =>
        (s.fst + a.getD (u * vmax * kmax + v * kmax + k) (c 0) * mt.getD (k * wmax + w) (c 0), k))
      (c 0, k0) (List.range kmax)).fst = amp a mt vmax kmax wmax u v w :=
  foldl_proj (List.range kmax) _ (fun (s : α × Nat) => s.fst) (fun x k => x + at3 a vmax kmax u v k * at2 mt wmax k w)
    (fun _ _ => rfl) _

theorem kloop2_1 (a b mt : Array α) (vmax kmax wmax u v w k0 : Nat) :
    (List.foldl (fun (s : α × α × Nat) k =>
        (s.fst + a.getD (u * vmax * kmax + v * kmax + k) (c 0) * mt.getD (k * wmax + w) (c 0),
        s.snd.fst + b.getD (u * vmax * kmax + v * kmax + k) (c 0) * mt.getD (k * wmax + w) (c 0), k))
      (c 0, c 0, k0) (List.range kmax)).fst = amp a mt vmax kmax wmax u v w :=
  foldl_proj (List.range kmax) _ (fun (s : α × α × Nat) => s.fst) (fun x k => x + at3 a vmax kmax u v k * at2 mt wmax k w)
    (fun _ _ => rfl) _

theorem kloop2_2 (a b mt : Array α) (vmax kmax wmax u v w k0 : Nat) :
    (List.foldl (fun (s : α × α × Nat) k =>
        (s.fst + a.getD (u * vmax * kmax + v * kmax + k) (c 0) * mt.getD (k * wmax + w) (c 0),
        s.snd.fst + b.getD (u * vmax * kmax + v * kmax + k) (c 0) * mt.getD (k * wmax + w) (c 0), k))
      (c 0, c 0, k0) (List.range kmax)).snd.fst = amp b mt vmax kmax wmax u v w :=
  foldl_proj (List.range kmax) _ (fun (s : α × α × Nat) => s.snd.fst) (fun x k => x + at3 b vmax kmax u v k * at2 mt wmax k w)
    (fun _ _ => rfl) _

theorem kloop3_1 (a b d mt : Array α) (vmax kmax wmax u v w k0 : Nat) :
    (List.foldl (fun (s : α × α × α × Nat) k =>
        (s.fst + a.getD (u * vmax * kmax + v * kmax + k) (c 0) * mt.getD (k * wmax + w) (c 0),
        s.snd.fst + b.getD (u * vmax * kmax + v * kmax + k) (c 0) * mt.getD (k * wmax + w) (c 0),
        s.snd.snd.fst + d.getD (u * vmax * kmax + v * kmax + k) (c 0) * mt.getD (k * wmax + w) (c 0), k))
      (c 0, c 0, c 0, k0) (List.range kmax)).fst = amp a mt vmax kmax wmax u v w :=
  foldl_proj (List.range kmax) _ (fun (s : α × α × α × Nat) => s.fst) (fun x k => x + at3 a vmax kmax u v k * at2 mt wmax k w)
    (fun _ _ => rfl) _

theorem kloop3_2 (a b d mt : Array α) (vmax kmax wmax u v w k0 : Nat) :
    (List.foldl (fun (s : α × α × α × Nat) k =>
        (s.fst + a.getD (u * vmax * kmax + v * kmax + k) (c 0) * mt.getD (k * wmax + w) (c 0),
        s.snd.fst + b.getD (u * vmax * kmax + v * kmax + k) (c 0) * mt.getD (k * wmax + w) (c 0),
        s.snd.snd.fst + d.getD (u * vmax * kmax + v * kmax + k) (c 0) * mt.getD (k * wmax + w) (c 0), k))
      (c 0, c 0, c 0, k0) (List.range kmax)).snd.fst = amp b mt vmax kmax wmax u v w :=
  foldl_proj (List.range kmax) _ (fun (s : α × α × α × Nat) => s.snd.fst) (fun x k => x + at3 b vmax kmax u v k * at2 mt wmax k w)
    (fun _ _ => rfl) _

theorem kloop3_3 (a b d mt : Array α) (vmax kmax wmax u v w k0 : Nat) :
    (List.foldl (fun (s : α × α × α × Nat) k =>
        (s.fst + a.getD (u * vmax * kmax + v * kmax + k) (c 0) * mt.getD (k * wmax + w) (c 0),
        s.snd.fst + b.getD (u * vmax * kmax + v * kmax + k) (c 0) * mt.getD (k * wmax + w) (c 0),
        s.snd.snd.fst + d.getD (u * vmax * kmax + v * kmax + k) (c 0) * mt.getD (k * wmax + w) (c 0), k))
      (c 0, c 0, c 0, k0) (List.range kmax)).snd.snd.fst = amp d mt vmax kmax wmax u v w :=
  foldl_proj (List.range kmax) _ (fun (s : α × α × α × Nat) => s.snd.snd.fst) (fun x k => x + at3 d vmax kmax u v k * at2 mt wmax k w)
    (fun _ _ => rfl) _

theorem kloop4_1 (a b d e mt : Array α) (vmax kmax wmax u v w k0 : Nat) :
    (List.foldl (fun (s : α × α × α × α × Nat) k =>
        (s.fst + a.getD (u * vmax * kmax + v * kmax + k) (c 0) * mt.getD (k * wmax + w) (c 0),
        s.snd.fst + b.getD (u * vmax * kmax + v * kmax + k) (c 0) * mt.getD (k * wmax + w) (c 0),
        s.snd.snd.fst + d.getD (u * vmax * kmax + v * kmax + k) (c 0) * mt.getD (k * wmax + w) (c 0),
        s.snd.snd.snd.fst + e.getD (u * vmax * kmax + v * kmax + k) (c 0) * mt.getD (k * wmax + w) (c 0), k))
      (c 0, c 0, c 0, c 0, k0) (List.range kmax)).fst = amp a mt vmax kmax wmax u v w :=
  foldl_proj (List.range kmax) _ (fun (s : α × α × α × α × Nat) => s.fst) (fun x k => x + at3 a vmax kmax u v k * at2 mt wmax k w)
    (fun _ _ => rfl) _

theorem kloop4_2 (a b d e mt : Array α) (vmax kmax wmax u v w k0 : Nat) :
    (List.foldl (fun (s : α × α × α × α × Nat) k =>
        (s.fst + a.getD (u * vmax * kmax + v * kmax + k) (c 0) * mt.getD (k * wmax + w) (c 0),
        s.snd.fst + b.getD (u * vmax * kmax + v * kmax + k) (c 0) * mt.getD (k * wmax + w) (c 0),
        s.snd.snd.fst + d.getD (u * vmax * kmax + v * kmax + k) (c 0) * mt.getD (k * wmax + w) (c 0),
        s.snd.snd.snd.fst + e.getD (u * vmax * kmax + v * kmax + k) (c 0) * mt.getD (k * wmax + w) (c 0), k))
      (c 0, c 0, c 0, c 0, k0) (List.range kmax)).snd.fst = amp b mt vmax kmax wmax u v w :=
  foldl_proj (List.range kmax) _ (fun (s : α × α × α × α × Nat) => s.snd.fst) (fun x k => x + at3 b vmax kmax u v k * at2 mt wmax k w)
    (fun _ _ => rfl) _

theorem kloop4_3 (a b d e mt : Array α) (vmax kmax wmax u v w k0 : Nat) :
    (List.foldl (fun (s : α × α × α × α × Nat) k =>
        (s.fst + a.getD (u * vmax * kmax + v * kmax + k) (c 0) * mt.getD (k * wmax + w) (c 0),
        s.snd.fst + b.getD (u * vmax * kmax + v * kmax + k) (c 0) * mt.getD (k * wmax + w) (c 0),
        s.snd.snd.fst + d.getD (u * vmax * kmax + v * kmax + k) (c 0) * mt.getD (k * wmax + w) (c 0),
        s.snd.snd.snd.fst + e.getD (u * vmax * kmax + v * kmax + k) (c 0) * mt.getD (k * wmax + w) (c 0), k))
      (c 0, c 0, c 0, c 0, k0) (List.range kmax)).snd.snd.fst = amp d mt vmax kmax wmax u v w :=
  foldl_proj (List.range kmax) _ (fun (s : α × α × α × α × Nat) => s.snd.snd.fst) (fun x k => x + at3 d vmax kmax u v k * at2 mt wmax k w)
    (fun _ _ => rfl) _

theorem kloop4_4 (a b d e mt : Array α) (vmax kmax wmax u v w k0 : Nat) :
    (List.foldl (fun (s : α × α × α × α × Nat) k =>
        (s.fst + a.getD (u * vmax * kmax + v * kmax + k) (c 0) * mt.getD (k * wmax + w) (c 0),
        s.snd.fst + b.getD (u * vmax * kmax + v * kmax + k) (c 0) * mt.getD (k * wmax + w) (c 0),
        s.snd.snd.fst + d.getD (u * vmax * kmax + v * kmax + k) (c 0) * mt.getD (k * wmax + w) (c 0),
        s.snd.snd.snd.fst + e.getD (u * vmax * kmax + v * kmax + k) (c 0) * mt.getD (k * wmax + w) (c 0), k))
      (c 0, c 0, c 0, c 0, k0) (List.range kmax)).snd.snd.snd.fst = amp e mt vmax kmax wmax u v w :=
  foldl_proj (List.range kmax) _ (fun (s : α × α × α × α × Nat) => s.snd.snd.snd.fst) (fun x k => x + at3 e vmax kmax u v k * at2 mt wmax k w)
    (fun _ _ => rfl) _

end PyxLoop
end MTfitVerif
