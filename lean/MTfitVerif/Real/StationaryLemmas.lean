import Mathlib.Probability.Kernel.Invariance
import Mathlib.Probability.Kernel.WithDensity
import Mathlib.MeasureTheory.Measure.Prod
import Mathlib.Data.Matrix.Mul
import Mathlib.Algebra.BigOperators.Ring.Finset
/-
  Helper definitions and lemmas for C07 (stationarity half): the Metropolis–Hastings kernel
  "move with probability `a`, otherwise record the current state again" on a general measurable
  state space (densities w.r.t. an s-finite reference measure) and on a finite state space
  (transition matrix), and the algebra that turns detailed balance into stationarity.
-/
namespace MTfitVerif.Stationary
open MeasureTheory ProbabilityTheory
open scoped ENNReal

/-! ### general state space -/
section General
variable {X : Type*} [MeasurableSpace X]

/-- probability of leaving `x` in one step: `A x = ∫ q(x,y) a(x,y) λ(dy)` -/
noncomputable def moveProb (lam : Measure X) (q a : X → X → ℝ≥0∞) (x : X) : ℝ≥0∞ :=
  ∫⁻ y, q x y * a x y ∂lam

/-- the Metropolis–Hastings kernel as a set function: from `x` move into `B` with density
    `q x y * a x y`, and with the remaining probability `1 - A x` stay at `x` (the chain records
    the current state again on rejection) -/
noncomputable def mhK (lam : Measure X) (q a : X → X → ℝ≥0∞) (x : X) (B : Set X) : ℝ≥0∞ :=
  ∫⁻ y in B, q x y * a x y ∂lam + (1 - ∫⁻ y, q x y * a x y ∂lam) * B.indicator 1 x

theorem mhK_eq (lam : Measure X) (q a : X → X → ℝ≥0∞) (x : X) (B : Set X) :
    mhK lam q a x B = ∫⁻ y in B, q x y * a x y ∂lam + (1 - moveProb lam q a x) * B.indicator 1 x := rfl

variable {lam : Measure X} {q a : X → X → ℝ≥0∞}

theorem measurable_qa (hq : Measurable (Function.uncurry q)) (ha : Measurable (Function.uncurry a)) :
    Measurable (Function.uncurry fun x y => q x y * a x y) := hq.mul ha

theorem moveProb_le_one (hqn : ∀ x, ∫⁻ y, q x y ∂lam = 1) (ha1 : ∀ x y, a x y ≤ 1) (x : X) :
    moveProb lam q a x ≤ 1 := by
  rw [← hqn x]
  exact lintegral_mono fun y => by simpa using mul_le_mul_right (ha1 x y) (q x y)

theorem measurable_moveProb [SFinite lam] (hq : Measurable (Function.uncurry q))
    (ha : Measurable (Function.uncurry a)) : Measurable (moveProb lam q a) :=
  (measurable_qa hq ha).lintegral_prod_right'

/-- the flow into `B`: Tonelli and detailed balance -/
theorem flow_into [SFinite lam] {π : X → ℝ≥0∞} (hπ : Measurable π)
    (hq : Measurable (Function.uncurry q)) (ha : Measurable (Function.uncurry a))
    (hdb : ∀ x y, π x * q x y * a x y = π y * q y x * a y x) (B : Set X) :
    ∫⁻ x, π x * ∫⁻ y in B, q x y * a x y ∂lam ∂lam = ∫⁻ y in B, π y * moveProb lam q a y ∂lam := by
  have hqa := measurable_qa hq ha
  have hF : Measurable (Function.uncurry fun x y => π x * (q x y * a x y)) :=
    (hπ.comp measurable_fst).mul hqa
  calc ∫⁻ x, π x * ∫⁻ y in B, q x y * a x y ∂lam ∂lam
      = ∫⁻ x, ∫⁻ y, π x * (q x y * a x y) ∂(lam.restrict B) ∂lam := by
        refine lintegral_congr fun x => ?_
        rw [lintegral_const_mul _ (Measurable.of_uncurry_left hqa)]
    _ = ∫⁻ y, ∫⁻ x, π x * (q x y * a x y) ∂lam ∂(lam.restrict B) :=
        lintegral_lintegral_swap hF.aemeasurable
    _ = ∫⁻ y in B, π y * moveProb lam q a y ∂lam := by
        refine lintegral_congr fun y => ?_
        unfold moveProb
        rw [← lintegral_const_mul _ (Measurable.of_uncurry_left hqa)]
        refine lintegral_congr fun x => ?_
        rw [← mul_assoc, ← mul_assoc, hdb x y]

/-- the mass that stays in `B` -/
theorem flow_stay {π : X → ℝ≥0∞} {B : Set X} (hB : MeasurableSet B) (A : X → ℝ≥0∞) :
    ∫⁻ x, π x * ((1 - A x) * B.indicator 1 x) ∂lam = ∫⁻ x in B, π x * (1 - A x) ∂lam := by
  rw [← lintegral_indicator hB]
  refine lintegral_congr fun x => ?_
  by_cases hx : x ∈ B <;> simp [hx]

/-- the same kernel as a Mathlib `Kernel`: the moving part has density `q x y * a x y` w.r.t. the
    reference measure, the staying part is `(1 - A x) • δ_x` -/
noncomputable def mhKernel (lam : Measure X) [SFinite lam] (q a : X → X → ℝ≥0∞) : Kernel X X :=
  Kernel.withDensity (Kernel.const X lam) (fun x y => q x y * a x y)
    + Kernel.withDensity (Kernel.id : Kernel X X) (fun x _ => 1 - moveProb lam q a x)

/-- on measurable sets the `Kernel` is the set function `mhK` -/
theorem mhKernel_apply [SFinite lam] (hq : Measurable (Function.uncurry q))
    (ha : Measurable (Function.uncurry a)) (x : X) {B : Set X} (hB : MeasurableSet B) :
    mhKernel lam q a x B = mhK lam q a x B := by
  have hs : Measurable (Function.uncurry fun (x : X) (_ : X) => 1 - moveProb lam q a x) :=
    (measurable_const.sub (measurable_moveProb hq ha)).comp measurable_fst
  show (Kernel.withDensity (Kernel.const X lam) (fun x y => q x y * a x y) x
      + Kernel.withDensity (Kernel.id : Kernel X X) (fun x _ => 1 - moveProb lam q a x) x) B = _
  rw [Measure.add_apply, Kernel.withDensity_apply' _ (measurable_qa hq ha),
    Kernel.withDensity_apply' _ hs, Kernel.const_apply, Kernel.id_apply, setLIntegral_const,
    Measure.dirac_apply' _ hB, mhK_eq]

end General

/-! ### finite state space -/
section Finite
variable {S : Type*} [Fintype S] [DecidableEq S]

/-- the Metropolis–Hastings transition matrix: move `x → y` with probability `q x y * a x y`,
    stay with the remaining probability -/
def mhMatrix (q a : S → S → ℝ) : Matrix S S ℝ :=
  fun x y => q x y * a x y + (if x = y then 1 - ∑ z, q x z * a x z else 0)

theorem mhMatrix_apply (q a : S → S → ℝ) (x y : S) :
    mhMatrix q a x y = q x y * a x y + (if x = y then 1 - ∑ z, q x z * a x z else 0) := rfl

omit [DecidableEq S] in
theorem move_le_one {q a : S → S → ℝ} (hq0 : ∀ x y, 0 ≤ q x y) (hqn : ∀ x, ∑ y, q x y ≤ 1)
    (ha1 : ∀ x y, a x y ≤ 1) (x : S) : ∑ z, q x z * a x z ≤ 1 :=
  le_trans (Finset.sum_le_sum fun z _ => by
    simpa using mul_le_mul_of_nonneg_left (ha1 x z) (hq0 x z)) (hqn x)

theorem mhMatrix_row_sum (q a : S → S → ℝ) (x : S) : ∑ y, mhMatrix q a x y = 1 := by
  simp only [mhMatrix_apply, Finset.sum_add_distrib, Finset.sum_ite_eq, Finset.mem_univ, if_true]
  ring

theorem mhMatrix_nonneg {q a : S → S → ℝ} (hq0 : ∀ x y, 0 ≤ q x y) (hqn : ∀ x, ∑ y, q x y ≤ 1)
    (ha0 : ∀ x y, 0 ≤ a x y) (ha1 : ∀ x y, a x y ≤ 1) (x y : S) : 0 ≤ mhMatrix q a x y := by
  rw [mhMatrix_apply]
  have h := move_le_one hq0 hqn ha1 x
  have h1 := mul_nonneg (hq0 x y) (ha0 x y)
  split <;> linarith

/-- detailed balance ⇒ stationarity, entrywise (pure algebra: no sign or normalisation needed) -/
theorem mhMatrix_stationary {π : S → ℝ} {q a : S → S → ℝ}
    (hdb : ∀ x y, π x * q x y * a x y = π y * q y x * a y x) (y : S) :
    ∑ x, π x * mhMatrix q a x y = π y := by
  have h1 : ∀ x, π x * mhMatrix q a x y
      = π y * (q y x * a y x) + (if x = y then π x * (1 - ∑ z, q x z * a x z) else 0) := by
    intro x
    rw [mhMatrix_apply, mul_add, ← mul_assoc, hdb x y, mul_assoc]
    split <;> simp
  simp only [h1, Finset.sum_add_distrib, Finset.sum_ite_eq', Finset.mem_univ, if_true,
    ← Finset.mul_sum]
  ring

end Finite
end MTfitVerif.Stationary
