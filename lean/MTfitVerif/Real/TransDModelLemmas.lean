import MTfitVerif.Real.StationaryModelLemmas
import MTfitVerif.Real.TransDLemmas
import MTfitVerif.Model.Proposal
/-
  Helper lemmas for C07 (trans-dimensional half, model instance): coordinates of the two models
  (double couple: orientation `(κ, h, σ)`; full tensor: orientation and `(γ, δ)`), the proposal of
  `transDSample` in these coordinates, normalisation and measurability of the proposal densities
  and of the jump acceptances.
-/
namespace MTfitVerif.TransD
open MTfitVerif LogP Acceptance Stationary Real MeasureTheory
open scoped ENNReal

/-- orientation coordinates: strike, cos(dip), slip — the state of the double-couple model -/
abbrev Ori := ℝ × ℝ × ℝ
/-- source-type coordinates: lune longitude and latitude -/
abbrev Lune := ℝ × ℝ

/-- the double-couple state with orientation `d` (`γ = δ = 0`) -/
def tapeDC (d : Ori) : Tape ℝ := ⟨0, 0, d.1, d.2.1, d.2.2⟩
/-- the full-tensor state with orientation `m.1` and source type `m.2` -/
def tapeMT (m : Ori × Lune) : Tape ℝ := ⟨m.2.1, m.2.2, m.1.1, m.1.2.1, m.1.2.2⟩

def coordDC (d : Ori) : Coord := (0, 0, d.1, d.2.1, d.2.2)
def coordMT (m : Ori × Lune) : Coord := (m.2.1, m.2.2, m.1.1, m.1.2.1, m.1.2.2)

theorem toTape_coordDC (d : Ori) : toTape (coordDC d) = tapeDC d := rfl
theorem toTape_coordMT (m : Ori × Lune) : toTape (coordMT m) = tapeMT m := rfl

theorem measurable_coordDC : Measurable coordDC := by unfold coordDC; fun_prop
theorem measurable_coordMT : Measurable coordMT := by unfold coordMT; fun_prop

/-! ### `transDSample` in these coordinates -/

/-- a jump proposed from the full-tensor state `m` is the double-couple state with the same
    orientation -/
theorem transDSample_down (pj : ℝ) (w : Widths ℝ) (m : Ori × Lune) {u : ℝ} (hu : u ≤ pj)
    (zs : List ℝ) :
    Proposal.transDSample false pj w (tapeMT m) u zs = some (tapeDC m.1, true, zs) := by
  simp [Proposal.transDSample, hu, tapeMT, tapeDC]

/-- a jump proposed from the double-couple state `d` keeps the orientation and takes `(γ, δ)`
    from the balancing draw -/
theorem transDSample_up (pj : ℝ) (w : Widths ℝ) (d : Ori) {u : ℝ} (hu : u ≤ pj) (zs : List ℝ) :
    Proposal.transDSample true pj w (tapeDC d) u zs
      = (Proposal.jumpDraw w zs).map fun r => (tapeMT (d, (r.1, r.2.1)), true, r.2.2) := by
  simp only [Proposal.transDSample, flt_leb, hu, decide_true, if_true]
  cases Proposal.jumpDraw w zs with
  | none => rfl
  | some r => rfl

/-- otherwise an ordinary shift within the current model -/
theorem transDSample_shift (dc : Bool) (pj : ℝ) (w : Widths ℝ) (ξ : Tape ℝ) {u : ℝ} (hu : pj < u)
    (zs : List ℝ) :
    Proposal.transDSample dc pj w ξ u zs
      = (Proposal.shiftSample dc w ξ zs).map fun r => (r.1, false, r.2) := by
  simp only [Proposal.transDSample, flt_leb, not_le.mpr hu, decide_false, Bool.false_eq_true,
    if_false]

/-! ### reference measures -/

/-- reference measure on the orientation: any s-finite `μκ` on strike, Lebesgue on `[0, 1]` for
    cos(dip) and on `[-π/2, π/2]` for slip -/
noncomputable def oriMeasure (μκ : Measure ℝ) : Measure Ori :=
  μκ.prod ((volume.restrict (Set.Icc (0:ℝ) 1)).prod (volume.restrict (Set.Icc (-(π / 2)) (π / 2))))

instance (μκ : Measure ℝ) [SFinite μκ] : SFinite (oriMeasure μκ) := by
  unfold oriMeasure; infer_instance

/-- Lebesgue measure on the lune box `[-π/6, π/6] × [-π/2, π/2]` -/
noncomputable def luneBox : Measure Lune :=
  (volume.restrict (Set.Icc (-(π / 6)) (π / 6))).prod (volume.restrict (Set.Icc (-(π / 2)) (π / 2)))

instance : SFinite luneBox := by unfold luneBox; infer_instance

/-! ### normalisation -/

theorem measurable_truncTerm_left (m s lo hi : ℝ) :
    Measurable fun x : ℝ => truncTerm x m s lo hi := by
  have hf : Measurable fun x : ℝ => (x, m) := by fun_prop
  have h := (measurable_truncTerm s lo hi).comp hf
  exact h

/-- a product of truncated normal densities in `γ` and `δ` integrates to one over the lune box -/
theorem lintegral_lunePair {sg sd : ℝ} (hg : 0 < sg) (hd : 0 < sd) (mg md : ℝ) :
    ∫⁻ g, ENNReal.ofReal (truncTerm g.1 mg sg (-(π / 6)) (π / 6)
        * truncTerm g.2 md sd (-(π / 2)) (π / 2)) ∂luneBox = 1 := by
  have hπ := Real.pi_pos
  have h6 : -(π / 6) < π / 6 := by linarith
  have h2 : -(π / 2) < π / 2 := by linarith
  simp only [ENNReal.ofReal_mul (truncTerm_pos' _ mg hg h6).le]
  unfold luneBox
  rw [lintegral_prod_mul (f := fun x : ℝ => ENNReal.ofReal (truncTerm x mg sg (-(π / 6)) (π / 6)))
      (g := fun x : ℝ => ENNReal.ofReal (truncTerm x md sd (-(π / 2)) (π / 2)))
      (measurable_truncTerm_left _ _ _ _).ennreal_ofReal.aemeasurable
      (measurable_truncTerm_left _ _ _ _).ennreal_ofReal.aemeasurable,
    lintegral_truncTerm mg hg h6, lintegral_truncTerm md hd h2, one_mul]

/-- the orientation part of the shift proposal integrates to one -/
theorem lintegral_oriFactor (w : Widths ℝ) (hh : 0 < w.h) (hs : 0 < w.sigma) (μκ : Measure ℝ)
    [SFinite μκ] (k : ℝ → ℝ → ℝ) (hkm : Measurable (Function.uncurry k))
    (hkn : ∀ a, ∫⁻ b, ENNReal.ofReal (k a b) ∂μκ = 1) (x : Ori) :
    ∫⁻ d, ENNReal.ofReal (k x.1 d.1) * (ENNReal.ofReal (truncTerm d.2.1 x.2.1 w.h 0 1)
        * ENNReal.ofReal (truncTerm d.2.2 x.2.2 w.sigma (-(π / 2)) (π / 2))) ∂(oriMeasure μκ) = 1 := by
  have hπ := Real.pi_pos
  have h2 : -(π / 2) < π / 2 := by linarith
  have e : ∫⁻ z : ℝ × ℝ, ENNReal.ofReal (truncTerm z.1 x.2.1 w.h 0 1)
        * ENNReal.ofReal (truncTerm z.2 x.2.2 w.sigma (-(π / 2)) (π / 2))
        ∂((volume.restrict (Set.Icc (0:ℝ) 1)).prod (volume.restrict (Set.Icc (-(π / 2)) (π / 2))))
      = 1 := by
    rw [lintegral_prod_mul (f := fun x' : ℝ => ENNReal.ofReal (truncTerm x' x.2.1 w.h 0 1))
        (g := fun x' : ℝ => ENNReal.ofReal (truncTerm x' x.2.2 w.sigma (-(π / 2)) (π / 2)))
        (measurable_truncTerm_left _ _ _ _).ennreal_ofReal.aemeasurable
        (measurable_truncTerm_left _ _ _ _).ennreal_ofReal.aemeasurable,
      lintegral_truncTerm _ hh (zero_lt_one' ℝ), lintegral_truncTerm _ hs h2, one_mul]
  have mz : Measurable fun z : ℝ × ℝ => ENNReal.ofReal (truncTerm z.1 x.2.1 w.h 0 1)
      * ENNReal.ofReal (truncTerm z.2 x.2.2 w.sigma (-(π / 2)) (π / 2)) :=
    ((measurable_truncTerm_left _ _ _ _).ennreal_ofReal.comp measurable_fst).mul
      ((measurable_truncTerm_left _ _ _ _).ennreal_ofReal.comp measurable_snd)
  unfold oriMeasure
  rw [lintegral_prod_mul (f := fun κ : ℝ => ENNReal.ofReal (k x.1 κ))
      (g := fun z : ℝ × ℝ => ENNReal.ofReal (truncTerm z.1 x.2.1 w.h 0 1)
        * ENNReal.ofReal (truncTerm z.2 x.2.2 w.sigma (-(π / 2)) (π / 2)))
      (Measurable.of_uncurry_left hkm).ennreal_ofReal.aemeasurable mz.aemeasurable, hkn, e, one_mul]

/-- **the shift proposal within the double-couple model is normalised** (`transPdf true`, times
    the strike kernel) -/
theorem lintegral_proposal_DC (w : Widths ℝ) (hh : 0 < w.h) (hs : 0 < w.sigma) (μκ : Measure ℝ)
    [SFinite μκ] (k : ℝ → ℝ → ℝ) (hkm : Measurable (Function.uncurry k)) (hk0 : ∀ a b, 0 ≤ k a b)
    (hkn : ∀ a, ∫⁻ b, ENNReal.ofReal (k a b) ∂μκ = 1) (x : Ori) :
    ∫⁻ y, ENNReal.ofReal (transPdf true w (tapeDC y) (tapeDC x) * k x.1 y.1) ∂(oriMeasure μκ)
      = 1 := by
  have hπ := Real.pi_pos
  have h2 : -(π / 2) < π / 2 := by linarith
  rw [← lintegral_oriFactor w hh hs μκ k hkm hkn x]
  refine lintegral_congr fun y => ?_
  have n3 := hk0 x.1 y.1
  have n4 := (truncTerm_pos' y.2.1 x.2.1 hh (zero_lt_one' ℝ)).le
  rw [← ENNReal.ofReal_mul n4, ← ENNReal.ofReal_mul n3, transPdf_factor]
  congr 1
  simp only [luneFactor, tapeDC, if_true]
  ring

/-- **the shift proposal within the full-tensor model is normalised** -/
theorem lintegral_proposal_MT (w : Widths ℝ)
    (hw : 0 < w.gamma ∧ 0 < w.delta ∧ 0 < w.h ∧ 0 < w.sigma) (μκ : Measure ℝ) [SFinite μκ]
    (k : ℝ → ℝ → ℝ) (hkm : Measurable (Function.uncurry k)) (hk0 : ∀ a b, 0 ≤ k a b)
    (hkn : ∀ a, ∫⁻ b, ENNReal.ofReal (k a b) ∂μκ = 1) (x : Ori × Lune) :
    ∫⁻ y, ENNReal.ofReal (transPdf false w (tapeMT y) (tapeMT x) * k x.1.1 y.1.1)
      ∂((oriMeasure μκ).prod luneBox) = 1 := by
  obtain ⟨hg, hd, hh, hs⟩ := hw
  have hπ := Real.pi_pos
  have h6 : -(π / 6) < π / 6 := by linarith
  have h2 : -(π / 2) < π / 2 := by linarith
  have mD : Measurable fun d : Ori => ENNReal.ofReal (k x.1.1 d.1)
      * (ENNReal.ofReal (truncTerm d.2.1 x.1.2.1 w.h 0 1)
        * ENNReal.ofReal (truncTerm d.2.2 x.1.2.2 w.sigma (-(π / 2)) (π / 2))) :=
    ((Measurable.of_uncurry_left hkm).ennreal_ofReal.comp measurable_fst).mul
      (((measurable_truncTerm_left _ _ _ _).ennreal_ofReal.comp
          (measurable_fst.comp measurable_snd)).mul
        ((measurable_truncTerm_left _ _ _ _).ennreal_ofReal.comp
          (measurable_snd.comp measurable_snd)))
  have mG : Measurable fun g : Lune => ENNReal.ofReal
      (truncTerm g.1 x.2.1 w.gamma (-(π / 6)) (π / 6) * truncTerm g.2 x.2.2 w.delta (-(π / 2)) (π / 2)) :=
    (((measurable_truncTerm_left _ _ _ _).comp measurable_fst).mul
      ((measurable_truncTerm_left _ _ _ _).comp measurable_snd)).ennreal_ofReal
  have hpt : ∀ y : Ori × Lune,
      ENNReal.ofReal (transPdf false w (tapeMT y) (tapeMT x) * k x.1.1 y.1.1)
        = (ENNReal.ofReal (k x.1.1 y.1.1) * (ENNReal.ofReal (truncTerm y.1.2.1 x.1.2.1 w.h 0 1)
            * ENNReal.ofReal (truncTerm y.1.2.2 x.1.2.2 w.sigma (-(π / 2)) (π / 2))))
          * ENNReal.ofReal (truncTerm y.2.1 x.2.1 w.gamma (-(π / 6)) (π / 6)
            * truncTerm y.2.2 x.2.2 w.delta (-(π / 2)) (π / 2)) := by
    intro y
    have n3 := hk0 x.1.1 y.1.1
    have n4 := (truncTerm_pos' y.1.2.1 x.1.2.1 hh (zero_lt_one' ℝ)).le
    have n5 := (truncTerm_pos' y.1.2.2 x.1.2.2 hs h2).le
    rw [← ENNReal.ofReal_mul n4, ← ENNReal.ofReal_mul n3,
      ← ENNReal.ofReal_mul (mul_nonneg n3 (mul_nonneg n4 n5)), transPdf_factor]
    congr 1
    simp only [luneFactor, tapeMT, Bool.false_eq_true, if_false]
    ring
  simp only [hpt]
  rw [lintegral_prod_mul
      (f := fun d : Ori => ENNReal.ofReal (k x.1.1 d.1)
        * (ENNReal.ofReal (truncTerm d.2.1 x.1.2.1 w.h 0 1)
          * ENNReal.ofReal (truncTerm d.2.2 x.1.2.2 w.sigma (-(π / 2)) (π / 2))))
      (g := fun g : Lune => ENNReal.ofReal (truncTerm g.1 x.2.1 w.gamma (-(π / 6)) (π / 6)
        * truncTerm g.2 x.2.2 w.delta (-(π / 2)) (π / 2)))
      mD.aemeasurable mG.aemeasurable,
    lintegral_oriFactor w hh hs μκ k hkm hkn x.1, lintegral_lunePair hg hd, one_mul]

/-! ### measurability -/

theorem measurable_transPdf_DC (w : Widths ℝ) :
    Measurable fun p : Ori × Ori => transPdf true w (tapeDC p.2) (tapeDC p.1) := by
  have hf : Measurable fun p : Ori × Ori => (coordDC p.1, coordDC p.2) :=
    (measurable_coordDC.comp measurable_fst).prodMk (measurable_coordDC.comp measurable_snd)
  have h := (measurable_transPdf_coord true w).comp hf
  exact h

theorem measurable_transPdf_MT (w : Widths ℝ) :
    Measurable fun p : (Ori × Lune) × (Ori × Lune) =>
      transPdf false w (tapeMT p.2) (tapeMT p.1) := by
  have hf : Measurable fun p : (Ori × Lune) × (Ori × Lune) => (coordMT p.1, coordMT p.2) :=
    (measurable_coordMT.comp measurable_fst).prodMk (measurable_coordMT.comp measurable_snd)
  have h := (measurable_transPdf_coord false w).comp hf
  exact h

/-- the jump density depends on `(γ, δ)` only, measurably -/
theorem measurable_jumpQ_MT (w : Widths ℝ) : Measurable fun m : Ori × Lune => jumpQ w (tapeMT m) := by
  have h1 : Measurable fun m : Ori × Lune => (m.2.1, (c 0 : ℝ)) := by fun_prop
  have h2 : Measurable fun m : Ori × Lune => (m.2.2, (c 0 : ℝ)) := by fun_prop
  have g1 := (measurable_gaussPdf w.gammaDc).comp h1
  have g2 := (measurable_gaussPdf w.deltaDc).comp h2
  have h := (g1.mul g2).div_const w.propNorm
  exact h

theorem jumpQ_tapeMT (w : Widths ℝ) (d d' : Ori) (g : Lune) :
    jumpQ w (tapeMT (d, g)) = jumpQ w (tapeMT (d', g)) := rfl

/-! ### the jump acceptances as `if`-cascades of real functions -/

theorem acceptJumpUp_eq_ite (prior : Bool → Tape ℝ → ℝ) (w : Widths ℝ) (xi x : Tape ℝ) (p : ℝ)
    (Lxi Lx : LogP ℝ) :
    acceptJumpUp prior w xi x p Lxi Lx =
      if toProb Lx = 0 then 0 else if toProb Lxi = 0 then 1 else
        min 1 (prior false x / (jumpQ w x * prior true xi) * ((1 - p) / p)
          * (toProb Lx / toProb Lxi)) := by
  cases Lx with
  | negInf => simp [acceptJumpUp]
  | fin lx =>
    cases Lxi with
    | negInf => simp [acceptJumpUp, (Real.exp_pos lx).ne']
    | fin lxi =>
      rw [if_neg (by simp [(Real.exp_pos lx).ne']), if_neg (by simp [(Real.exp_pos lxi).ne']),
        acceptJumpUp_fin, Real.exp_sub]
      rfl

theorem acceptJumpDown_eq_ite (prior : Bool → Tape ℝ → ℝ) (w : Widths ℝ) (xi x : Tape ℝ) (p : ℝ)
    (Lxi Lx : LogP ℝ) :
    acceptJumpDown prior w xi x p Lxi Lx =
      if toProb Lx = 0 then 0 else if toProb Lxi = 0 then 1 else
        min 1 (jumpQ w xi * prior true x / prior false xi * (p / (1 - p))
          * (toProb Lx / toProb Lxi)) := by
  cases Lx with
  | negInf => simp [acceptJumpDown]
  | fin lx =>
    cases Lxi with
    | negInf => simp [acceptJumpDown, (Real.exp_pos lx).ne']
    | fin lxi =>
      rw [if_neg (by simp [(Real.exp_pos lx).ne']), if_neg (by simp [(Real.exp_pos lxi).ne']),
        acceptJumpDown_fin, Real.exp_sub]
      rfl

section JumpMeasurable
variable (prior : Bool → Tape ℝ → ℝ) (w : Widths ℝ) (L : Tape ℝ → LogP ℝ) (p : ℝ)

/-- measurability of the up-jump acceptance in the coordinates of the proposed full-tensor state
    (which contain the current double-couple state) -/
theorem measurable_acceptJumpUp (hpD : Measurable fun d : Ori => prior true (tapeDC d))
    (hpM : Measurable fun m : Ori × Lune => prior false (tapeMT m))
    (hLD : Measurable fun d : Ori => toProb (L (tapeDC d)))
    (hLM : Measurable fun m : Ori × Lune => toProb (L (tapeMT m))) :
    Measurable fun m : Ori × Lune =>
      acceptJumpUp prior w (tapeDC m.1) (tapeMT m) p (L (tapeDC m.1)) (L (tapeMT m)) := by
  simp only [acceptJumpUp_eq_ite]
  have hpD' : Measurable fun m : Ori × Lune => prior true (tapeDC m.1) := hpD.comp measurable_fst
  have hLD' : Measurable fun m : Ori × Lune => toProb (L (tapeDC m.1)) := hLD.comp measurable_fst
  have hQ := measurable_jumpQ_MT w
  refine Measurable.ite (measurableSet_eq_fun hLM measurable_const) measurable_const ?_
  refine Measurable.ite (measurableSet_eq_fun hLD' measurable_const) measurable_const ?_
  exact measurable_const.min ((((hpM.div (hQ.mul hpD')).mul measurable_const)).mul (hLM.div hLD'))

theorem measurable_acceptJumpDown (hpD : Measurable fun d : Ori => prior true (tapeDC d))
    (hpM : Measurable fun m : Ori × Lune => prior false (tapeMT m))
    (hLD : Measurable fun d : Ori => toProb (L (tapeDC d)))
    (hLM : Measurable fun m : Ori × Lune => toProb (L (tapeMT m))) :
    Measurable fun m : Ori × Lune =>
      acceptJumpDown prior w (tapeMT m) (tapeDC m.1) p (L (tapeMT m)) (L (tapeDC m.1)) := by
  simp only [acceptJumpDown_eq_ite]
  have hpD' : Measurable fun m : Ori × Lune => prior true (tapeDC m.1) := hpD.comp measurable_fst
  have hLD' : Measurable fun m : Ori × Lune => toProb (L (tapeDC m.1)) := hLD.comp measurable_fst
  have hQ := measurable_jumpQ_MT w
  refine Measurable.ite (measurableSet_eq_fun hLD' measurable_const) measurable_const ?_
  refine Measurable.ite (measurableSet_eq_fun hLM measurable_const) measurable_const ?_
  exact measurable_const.min (((((hQ.mul hpD').div hpM).mul measurable_const)).mul (hLD'.div hLM))

end JumpMeasurable

end MTfitVerif.TransD
