import MTfitVerif.Model.PyxSpec
import MTfitVerif.Real.PyxLoopLemmas
/-
  Helper lemmas for C20C (`Props/C20Relative.lean`): the loops of the compiled relative-amplitude kernels
  (`scale_estimator`, `relative_amplitude_ratio_ln_pdf` of cprobability.pyx) read as folds — the inner `k` loop that
  accumulates the modelled amplitudes in `mux[u]`, `muy[u]`, the station loop that initialises cell `[v, w]` of `mu`, `s` at
  station 0 and folds the later stations in with `combine_mu` / `combine_s`, and the `v`, `w` loops that fill the result arrays.
  Core/Std only; everything is polymorphic in the scalar type.
-/
namespace MTfitVerif
namespace PyxRel
open PyxSpec PyxLoop

section plain
variable {α : Type}

/-! ### folds -/

/-- a fold on a pair whose components do not interact is the pair of the folds -/
theorem foldl_prod {β γ ι : Type} (l : List ι) (f : β → ι → β) (h : γ → ι → γ) (a : β) (b : γ) :
    l.foldl (fun s k => (f s.1 k, h s.2 k)) (a, b) = (l.foldl f a, l.foldl h b) := by
  induction l generalizing a b with
  | nil => rfl
  | cons k l ih => simp only [List.foldl_cons]; exact ih _ _

/-- the same for three components -/
theorem foldl_prod3 {β γ δ ι : Type} (l : List ι) (f : β → ι → β) (g : γ → ι → γ) (h : δ → ι → δ) (a : β) (b : γ)
    (d : δ) :
    l.foldl (fun s k => (f s.1 k, g s.2.1 k, h s.2.2 k)) (a, b, d) = (l.foldl f a, l.foldl g b, l.foldl h d) := by
  induction l generalizing a b d with
  | nil => rfl
  | cons k l ih => simp only [List.foldl_cons]; exact ih _ _ _

theorem foldl_congr_mem {β ι : Type} (l : List ι) (f g : β → ι → β) (h : ∀ s k, k ∈ l → f s k = g s k) (a : β) :
    l.foldl f a = l.foldl g a := by
  induction l generalizing a with
  | nil => rfl
  | cons k l ih =>
    simp only [List.foldl_cons]
    rw [h a k List.mem_cons_self]
    exact ih (fun s k hk => h s k (List.mem_cons_of_mem _ hk)) _

/-- overwrite a cell, then overwrite it again with a function of what is read back -/
theorem set_set_of_getD (P : Array α) (u : Nat) (z d : α) (F : α → α) :
    (P.setIfInBounds u z).setIfInBounds u (F ((P.setIfInBounds u z).getD u d)) = P.setIfInBounds u (F z) := by
  by_cases h : u < P.size
  · rw [getD_setIfInBounds_self _ _ _ _ h, Array.setIfInBounds_setIfInBounds]
  · simp only [Array.setIfInBounds_eq_of_size_le (Nat.le_of_not_lt h)]

/-! ### filling the `vmax × wmax` result arrays, `v` in the outer loop -/

/-- cell `v * wmax + w` is overwritten with `F v w`, for `v` (outer loop) and `w` (inner loop) in range -/
def fillVW (F : Nat → Nat → α) (vmax wmax : Nat) (P : Array α) : Array α :=
  (List.range vmax).foldl
    (fun P v => (List.range wmax).foldl (fun P w => P.setIfInBounds (v * wmax + w) (F v w)) P) P

theorem fillVW_eq_flat (F : Nat → Nat → α) (vmax wmax : Nat) (P : Array α) :
    fillVW F vmax wmax P
      = ((List.range vmax).flatMap (fun v => (List.range wmax).map (fun w => (v, w)))).foldl
          (fun P y => P.setIfInBounds (y.1 * wmax + y.2) (F y.1 y.2)) P := by
  simp only [fillVW, List.foldl_flatMap, List.foldl_map]

theorem size_fillVW (F : Nat → Nat → α) (vmax wmax : Nat) (P : Array α) :
    (fillVW F vmax wmax P).size = P.size := by
  rw [fillVW_eq_flat]
  exact size_foldl_set _ (fun y : Nat × Nat => y.1 * wmax + y.2) (fun y => F y.1 y.2) P

/-- every cell `v * wmax + w` of the filled array holds `F v w` -/
theorem getD_fillVW (F : Nat → Nat → α) (vmax wmax : Nat) (P : Array α) (d : α) (hsize : vmax * wmax ≤ P.size)
    {v w : Nat} (hv : v < vmax) (hw : w < wmax) :
    (fillVW F vmax wmax P).getD (v * wmax + w) d = F v w := by
  rw [fillVW_eq_flat]
  refine getD_foldl_set _ (fun y : Nat × Nat => y.1 * wmax + y.2) (fun y => F y.1 y.2) P d (v, w) ?_ ?_ ?_
  · simp only [List.mem_flatMap, List.mem_map, List.mem_range]
    exact ⟨v, hv, w, hw, rfl⟩
  · rintro ⟨v', w'⟩ hy h
    simp only [List.mem_flatMap, List.mem_map, List.mem_range, Prod.mk.injEq] at hy
    obtain ⟨v'', hv'', w'', hw'', rfl, rfl⟩ := hy
    obtain ⟨rfl, rfl⟩ := cell_inj hw hw'' h
    rfl
  · exact Nat.lt_of_lt_of_le (cell_lt hv hw) hsize

/-- the `v`, `w` loops on the pair of arrays `(mu, s)` fill each of them -/
theorem fillVW_pair (F1 F2 : Nat → Nat → α) (vmax wmax : Nat) (P Q : Array α) :
    (List.range vmax).foldl (fun (M : Array α × Array α) v => (List.range wmax).foldl (fun (M : Array α × Array α) w =>
        (M.1.setIfInBounds (v * wmax + w) (F1 v w), M.2.setIfInBounds (v * wmax + w) (F2 v w))) M) (P, Q)
      = (fillVW F1 vmax wmax P, fillVW F2 vmax wmax Q) := by
  have inner : ∀ (v : Nat) (M : Array α × Array α), (List.range wmax).foldl (fun (M : Array α × Array α) w =>
        (M.1.setIfInBounds (v * wmax + w) (F1 v w), M.2.setIfInBounds (v * wmax + w) (F2 v w))) M
      = ((List.range wmax).foldl (fun (P : Array α) w => P.setIfInBounds (v * wmax + w) (F1 v w)) M.1,
         (List.range wmax).foldl (fun (P : Array α) w => P.setIfInBounds (v * wmax + w) (F2 v w)) M.2) :=
    fun v M => foldl_prod (List.range wmax) (fun (P : Array α) w => P.setIfInBounds (v * wmax + w) (F1 v w))
      (fun (P : Array α) w => P.setIfInBounds (v * wmax + w) (F2 v w)) M.1 M.2
  simp only [inner]
  exact foldl_prod (List.range vmax)
    (fun (P : Array α) v => (List.range wmax).foldl (fun (P : Array α) w => P.setIfInBounds (v * wmax + w) (F1 v w)) P)
    (fun (P : Array α) v => (List.range wmax).foldl (fun (P : Array α) w => P.setIfInBounds (v * wmax + w) (F2 v w)) P) P Q

/-! ### filling the `umax × vmax × wmax` array, `v`, `w` in the outer loops and `u` in the innermost -/

/-- cell `(u * vmax + v) * wmax + w` is overwritten with `G u v w`, in the order `v`, `w`, `u` of the code -/
def fillUVW (G : Nat → Nat → Nat → α) (umax vmax wmax : Nat) (P : Array α) : Array α :=
  (List.range vmax).foldl
    (fun P v => (List.range wmax).foldl
      (fun P w => (List.range umax).foldl (fun P u => P.setIfInBounds ((u * vmax + v) * wmax + w) (G u v w)) P) P) P

theorem fillUVW_eq_flat (G : Nat → Nat → Nat → α) (umax vmax wmax : Nat) (P : Array α) :
    fillUVW G umax vmax wmax P
      = ((List.range vmax).flatMap (fun v => (List.range wmax).flatMap (fun w =>
            (List.range umax).map (fun u => (u, v, w))))).foldl
          (fun P y => P.setIfInBounds ((y.1 * vmax + y.2.1) * wmax + y.2.2) (G y.1 y.2.1 y.2.2)) P := by
  simp only [fillUVW, List.foldl_flatMap, List.foldl_map]

theorem size_fillUVW (G : Nat → Nat → Nat → α) (umax vmax wmax : Nat) (P : Array α) :
    (fillUVW G umax vmax wmax P).size = P.size := by
  rw [fillUVW_eq_flat]
  exact size_foldl_set _ (fun y : Nat × Nat × Nat => (y.1 * vmax + y.2.1) * wmax + y.2.2)
    (fun y => G y.1 y.2.1 y.2.2) P

/-- every cell `(u * vmax + v) * wmax + w` of the filled array holds `G u v w` -/
theorem getD_fillUVW (G : Nat → Nat → Nat → α) (umax vmax wmax : Nat) (P : Array α) (d : α)
    (hsize : umax * vmax * wmax ≤ P.size) {u v w : Nat} (hu : u < umax) (hv : v < vmax) (hw : w < wmax) :
    (fillUVW G umax vmax wmax P).getD ((u * vmax + v) * wmax + w) d = G u v w := by
  rw [fillUVW_eq_flat]
  refine getD_foldl_set _ (fun y : Nat × Nat × Nat => (y.1 * vmax + y.2.1) * wmax + y.2.2)
    (fun y => G y.1 y.2.1 y.2.2) P d (u, v, w) ?_ ?_ ?_
  · simp only [List.mem_flatMap, List.mem_map, List.mem_range]
    exact ⟨v, hv, w, hw, u, hu, rfl⟩
  · rintro ⟨u', v', w'⟩ hy h
    simp only [List.mem_flatMap, List.mem_map, List.mem_range, Prod.mk.injEq] at hy
    obtain ⟨v'', hv'', w'', hw'', u'', hu'', rfl, rfl, rfl⟩ := hy
    obtain ⟨h1, rfl⟩ := cell_inj hw hw'' h
    obtain ⟨rfl, rfl⟩ := cell_inj hv hv'' h1
    rfl
  · exact Nat.lt_of_lt_of_le (cell_lt (cell_lt hu hv) hw) hsize

/-- the `v`, `w` loops on the triple of arrays `(ln_P, mu, s)` fill each of them -/
theorem fill_triple (G : Nat → Nat → Nat → α) (F1 F2 : Nat → Nat → α) (umax vmax wmax : Nat) (L P Q : Array α) :
    (List.range vmax).foldl (fun (M : Array α × Array α × Array α) v =>
        (List.range wmax).foldl (fun (M : Array α × Array α × Array α) w =>
          ((List.range umax).foldl (fun (L : Array α) u => L.setIfInBounds ((u * vmax + v) * wmax + w) (G u v w)) M.1,
            M.2.1.setIfInBounds (v * wmax + w) (F1 v w), M.2.2.setIfInBounds (v * wmax + w) (F2 v w))) M) (L, P, Q)
      = (fillUVW G umax vmax wmax L, fillVW F1 vmax wmax P, fillVW F2 vmax wmax Q) := by
  have inner : ∀ (v : Nat) (M : Array α × Array α × Array α),
      (List.range wmax).foldl (fun (M : Array α × Array α × Array α) w =>
          ((List.range umax).foldl (fun (L : Array α) u => L.setIfInBounds ((u * vmax + v) * wmax + w) (G u v w)) M.1,
            M.2.1.setIfInBounds (v * wmax + w) (F1 v w), M.2.2.setIfInBounds (v * wmax + w) (F2 v w))) M
      = ((List.range wmax).foldl (fun (L : Array α) w =>
            (List.range umax).foldl (fun (L : Array α) u => L.setIfInBounds ((u * vmax + v) * wmax + w) (G u v w)) L) M.1,
         (List.range wmax).foldl (fun (P : Array α) w => P.setIfInBounds (v * wmax + w) (F1 v w)) M.2.1,
         (List.range wmax).foldl (fun (P : Array α) w => P.setIfInBounds (v * wmax + w) (F2 v w)) M.2.2) :=
    fun v M => foldl_prod3 (List.range wmax)
      (fun (L : Array α) w =>
        (List.range umax).foldl (fun (L : Array α) u => L.setIfInBounds ((u * vmax + v) * wmax + w) (G u v w)) L)
      (fun (P : Array α) w => P.setIfInBounds (v * wmax + w) (F1 v w))
      (fun (P : Array α) w => P.setIfInBounds (v * wmax + w) (F2 v w)) M.1 M.2.1 M.2.2
  simp only [inner]
  exact foldl_prod3 (List.range vmax)
    (fun (L : Array α) v => (List.range wmax).foldl (fun (L : Array α) w =>
        (List.range umax).foldl (fun (L : Array α) u => L.setIfInBounds ((u * vmax + v) * wmax + w) (G u v w)) L) L)
    (fun (P : Array α) v => (List.range wmax).foldl (fun (P : Array α) w => P.setIfInBounds (v * wmax + w) (F1 v w)) P)
    (fun (P : Array α) v => (List.range wmax).foldl (fun (P : Array α) w => P.setIfInBounds (v * wmax + w) (F2 v w)) P)
    L P Q

end plain

variable {α : Type} [Add α] [Sub α] [Mul α] [Div α] [Neg α] [Flt α]

/-! ### the inner `k` loop: modelled amplitudes accumulated in `mux[u]`, `muy[u]` -/

/-- `mux[u] = 0; muy[u] = 0; for k: mux[u] += e1 k; muy[u] += e2 k` -/
theorem kloop (mux muy : Array α) (u : Nat) (e1 e2 : Nat → α) (k0 : Nat) (l : List Nat) :
    (l.foldl (fun (s : Array α × Array α × Nat) k =>
        (s.1.setIfInBounds u (s.1.getD u (c 0) + e1 k), s.2.1.setIfInBounds u (s.2.1.getD u (c 0) + e2 k), k))
        (mux.setIfInBounds u (c 0), muy.setIfInBounds u (c 0), k0)).1
        = mux.setIfInBounds u (l.foldl (fun x k => x + e1 k) (c 0)) ∧
    (l.foldl (fun (s : Array α × Array α × Nat) k =>
        (s.1.setIfInBounds u (s.1.getD u (c 0) + e1 k), s.2.1.setIfInBounds u (s.2.1.getD u (c 0) + e2 k), k))
        (mux.setIfInBounds u (c 0), muy.setIfInBounds u (c 0), k0)).2.1
        = muy.setIfInBounds u (l.foldl (fun x k => x + e2 k) (c 0)) := by
  have h := foldl_triple l (fun (P : Array α) k => P.setIfInBounds u (P.getD u (c 0) + e1 k))
    (fun (P : Array α) k => P.setIfInBounds u (P.getD u (c 0) + e2 k)) (fun _ k => k)
    (mux.setIfInBounds u (c 0)) (muy.setIfInBounds u (c 0)) k0
  refine ⟨h.1.trans ?_, h.2.trans ?_⟩
  · rw [foldl_add_cell]
    exact set_set_of_getD mux u (c 0) (c 0) (fun z => l.foldl (fun x k => x + e1 k) z)
  · rw [foldl_add_cell]
    exact set_set_of_getD muy u (c 0) (c 0) (fun z => l.foldl (fun x k => x + e2 k) z)

/-- the sum accumulated by the `k` loop is `PyxSpec.amp` (the code indexes `a[u, v, k]` as `(u * vmax + v) * kmax + k`) -/
theorem amp_eq (a mt : Array α) (vmax kmax wmax u v w : Nat) :
    (List.range kmax).foldl
        (fun x k => x + a.getD ((u * vmax + v) * kmax + k) (c 0) * mt.getD (k * wmax + w) (c 0)) (c 0)
      = amp a mt vmax kmax wmax u v w := by
  unfold amp at3 at2
  simp only [Nat.add_mul]

/-- the two output-pointer arguments of `estimate_scale_mu_s` are not read -/
theorem estimate_ignores (x y mx my px py m s m' s' : α) :
    Pyx.cprobability.estimate_scale_mu_s x y mx my px py m s = Pyx.cprobability.estimate_scale_mu_s x y mx my px py m' s' :=
  rfl

/-! ### the station loop on cell `i` of `mu`, `s` -/

/-- fold one more station estimate `(μ, σ)` into the running pair with `combine_mu`, `combine_s` -/
def combK (acc st : α × α) : α × α :=
  (Pyx.cprobability.combine_mu acc.1 st.1 acc.2 st.2, Pyx.cprobability.combine_s acc.2 st.2)

/-- station 0's estimate, with stations `1 … umax-1` folded in -/
def cellFold (est : Nat → α × α) (umax : Nat) : α × α :=
  ((List.range' 1 (umax - 1)).map est).foldl combK (est 0)

/-- one pass of the station loop on the pair of arrays `(mu, s)` -/
def stStep (i : Nat) (est : Nat → α × α) (M : Array α × Array α) (u : Nat) : Array α × Array α :=
  if (u == 0) = true then (M.1.setIfInBounds i (est u).1, M.2.setIfInBounds i (est u).2)
  else
    (M.1.setIfInBounds i (Pyx.cprobability.combine_mu (M.1.getD i (c 0)) (est u).1 (M.2.getD i (c 0)) (est u).2),
      M.2.setIfInBounds i (Pyx.cprobability.combine_s (M.2.getD i (c 0)) (est u).2))

theorem cellFold_succ (est : Nat → α × α) (n : Nat) :
    cellFold est (n + 2) = combK (cellFold est (n + 1)) (est (n + 1)) := by
  unfold cellFold
  rw [show n + 2 - 1 = n + 1 from rfl, show n + 1 - 1 = n from rfl, List.range'_1_concat, List.map_append,
    List.foldl_append, Nat.add_comm 1 n]
  rfl

/-- the station loop (at least one station) overwrites cell `i` of `mu`, `s` with the combined estimate -/
theorem stStep_fold (i : Nat) (est : Nat → α × α) (M : Array α × Array α) (n : Nat)
    (h1 : i < M.1.size) (h2 : i < M.2.size) :
    (List.range (n + 1)).foldl (stStep i est) M
      = (M.1.setIfInBounds i (cellFold est (n + 1)).1, M.2.setIfInBounds i (cellFold est (n + 1)).2) := by
  induction n with
  | zero => rfl
  | succ n ih =>
    rw [List.range_succ, List.foldl_append, ih]
    simp only [List.foldl_cons, List.foldl_nil, stStep, Nat.succ_ne_zero,
      beq_iff_eq, if_false, getD_setIfInBounds_self _ _ _ _ h1, getD_setIfInBounds_self _ _ _ _ h2,
      Array.setIfInBounds_setIfInBounds, cellFold_succ, combK]

end PyxRel
end MTfitVerif
