import MTfitVerif.Model.Forward
import MTfitVerif.Real.LogDomainLemmas
import MTfitVerif.Real.EvidenceLemmas
/- helper lemmas for C01: permutation invariance of log-sums, `zip`/`range`/`filter` facts,
   congruence of `value` -/
namespace MTfitVerif

namespace LogP

theorem add_comm' (x y : LogP ℝ) : add x y = add y x := by
  cases x <;> cases y <;> simp [add, add_comm]

theorem add_left_comm' (x y z : LogP ℝ) : add x (add y z) = add y (add x z) := by
  cases x <;> cases y <;> cases z <;> simp [add, add_left_comm]

/-- the sum of a list of log-probabilities does not depend on the order -/
theorem sum_perm {l₁ l₂ : List (LogP ℝ)} (h : l₁.Perm l₂) : sum l₁ = sum l₂ := by
  induction h with
  | nil => rfl
  | cons x _ ih => simp only [sum, ih]
  | swap x y l => simp only [sum]; exact add_left_comm' _ _ _
  | trans _ _ ih₁ ih₂ => exact ih₁.trans ih₂

theorem add_fin_zero_left (x : LogP ℝ) : toProb (add (fin (c 0)) x) = toProb x := by
  rw [toProb_add]; simp

end LogP

namespace LogDomain
open LogP

theorem shiftedSum_perm {l₁ l₂ : List (LogP ℝ)} (h : l₁.Perm l₂) (m dV : ℝ) :
    shiftedSum m dV l₁ = shiftedSum m dV l₂ := by
  rw [shiftedSum_eq, shiftedSum_eq, (h.map toProb).sum_eq]

theorem lnMargCol_perm {l₁ l₂ : List (LogP ℝ)} (h : l₁.Perm l₂) (dV : ℝ) :
    lnMargCol l₁ dV = lnMargCol l₂ dV := by
  unfold lnMargCol
  rw [Evidence.maxFin_perm h]
  cases maxFin l₂ with
  | none => rfl
  | some m => simp only [shiftedSum_perm h]

end LogDomain

namespace Forward
open LogP Polarity RatioPdf LogDomain

theorem lnPolAt_perm {l₁ l₂ : List (PolStation ℝ)} (h : l₁.Perm l₂) (k : Nat) (mt : List ℝ) :
    lnPolAt l₁ k mt = lnPolAt l₂ k mt := by
  unfold lnPolAt; exact sum_perm (h.map _)

theorem lnArAt_perm {l₁ l₂ : List (ArStation ℝ)} (h : l₁.Perm l₂) (k : Nat) (mt : List ℝ) :
    lnArAt l₁ k mt = lnArAt l₂ k mt := by
  unfold lnArAt; exact sum_perm (h.map _)

theorem isEmpty_perm {β} {l₁ l₂ : List β} (h : l₁.Perm l₂) : l₁.isEmpty = l₂.isEmpty := by
  cases l₁ with
  | nil => rw [h.nil_eq]
  | cons x xs =>
    cases l₂ with
    | nil => exact absurd h.symm.nil_eq (by simp)
    | cons y ys => rfl

/-- `value` only depends on `nloc`, `weights` and the per-sample log-likelihoods -/
theorem value_congr {d d' : Data ℝ} (hn : d'.nloc = d.nloc) (hw : d'.weights = d.weights)
    (mt : List ℝ) (h : ∀ k, lnAt d' k mt = lnAt d k mt) : value d' mt = value d mt := by
  have hwt : ∀ k x, weighted d' k x = weighted d k x := by
    intro k x; unfold weighted; rw [hn, hw]
  have hcol : column d' mt = column d mt := by
    unfold column; rw [hn]
    apply List.map_congr_left
    intro k _; rw [h k, hwt]
  unfold value; rw [hcol, hn]

theorem weighted_of_le (d : Data ℝ) (h : d.nloc ≤ 1) (k : Nat) (x : LogP ℝ) :
    weighted d k x = x := by
  unfold weighted
  cases d.weights with
  | none => rfl
  | some ws => simp only [gt_iff_lt, not_lt.mpr h, if_false]

theorem weighted_some (d : Data ℝ) (h : 1 < d.nloc) (ws : List ℝ) (hws : d.weights = some ws)
    (k : Nat) (x : LogP ℝ) : weighted d k x = shift x (Real.log (ws.getD k 1)) := by
  unfold weighted
  rw [hws]
  simp only [gt_iff_lt, h, if_true, flt_log, flt_c, Nat.cast_one]

theorem weighted_none (d : Data ℝ) (hws : d.weights = none) (k : Nat) (x : LogP ℝ) :
    weighted d k x = x := by
  unfold weighted; rw [hws]

/-! ### `zip (range n) l` and `filter` -/

theorem zip_range'_filter_snd {β} (q : β → Bool) (l : List β) (s : Nat) :
    ((List.zip (List.range' s l.length) l).filter (fun p => q p.2)).map Prod.snd = l.filter q := by
  induction l generalizing s with
  | nil => rfl
  | cons x xs ih =>
    simp only [List.length_cons, List.range'_succ, List.zip_cons_cons, List.filter_cons]
    cases q x with
    | true => simp only [if_true, List.map_cons, ih]
    | false => simpa using ih (s + 1)

theorem zip_range'_filter_fst {β} (q : β → Bool) (dflt : β) (l : List β) (s : Nat) :
    ((List.zip (List.range' s l.length) l).filter (fun p => q p.2)).map Prod.fst
      = (List.range' s l.length).filter (fun i => q (l.getD (i - s) dflt)) := by
  induction l generalizing s with
  | nil => rfl
  | cons x xs ih =>
    have htail : (List.range' (s + 1) xs.length).filter (fun i => q ((x :: xs).getD (i - s) dflt))
        = (List.range' (s + 1) xs.length).filter (fun i => q (xs.getD (i - (s + 1)) dflt)) := by
      apply List.filter_congr
      intro i hi
      have hi' : s + 1 ≤ i := (List.mem_range'_1.mp hi).1
      have : i - s = (i - (s + 1)) + 1 := by omega
      rw [this, List.getD_cons_succ]
    simp only [List.length_cons, List.range'_succ, List.zip_cons_cons, List.filter_cons,
      Nat.sub_self, List.getD_cons_zero, htail]
    cases q x with
    | true => simp only [if_true, List.map_cons, ih]
    | false => simpa using ih (s + 1)

theorem zip_range_filter_snd {β} (q : β → Bool) (l : List β) :
    ((List.zip (List.range l.length) l).filter (fun p => q p.2)).map Prod.snd = l.filter q := by
  rw [List.range_eq_range']; exact zip_range'_filter_snd q l 0

theorem zip_range_filter_fst {β} (q : β → Bool) (dflt : β) (l : List β) :
    ((List.zip (List.range l.length) l).filter (fun p => q p.2)).map Prod.fst
      = (List.range l.length).filter (fun i => q (l.getD i dflt)) := by
  rw [List.range_eq_range']; simpa using zip_range'_filter_fst q dflt l 0

end Forward
end MTfitVerif
