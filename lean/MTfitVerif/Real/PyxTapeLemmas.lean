import MTfitVerif.Model.PyxKernels
import MTfitVerif.Model.Convert
import MTfitVerif.Real.Inst
import MTfitVerif.Real.ConvertLemmasLune
/-
  Helper lemmas for C20 (compiled Tape → six-vector kernel `cTape_MT6`).

  The kernel body is abstracted as `tapeKer t p L` over the unnormalised T and P axes and the
  eigenvalue triple; when `|t|² = |p|² = 2` it is the raw six-vector of `Σ Lᵢ vᵢvᵢᵀ` for the axes
  `t/√2`, `−(t/√2 × p/√2)`, `p/√2`, which is what the Python-path model computes.
-/
namespace MTfitVerif.PyxTape
open MTfitVerif MTfitVerif.Convert Real

/-- division of a vector by √2 (closed form of `V3.unit` for vectors of squared length 2) -/
noncomputable def half2 (v : V3 ℝ) : V3 ℝ := ⟨v.x / √2, v.y / √2, v.z / √2⟩

/-- body of the compiled kernel for unnormalised axes `t`, `p` and eigenvalues `L` -/
noncomputable def tapeKer (t p L : V3 ℝ) : ℝ × ℝ × ℝ × ℝ × ℝ × ℝ :=
  let NT := √(t.x * t.x + t.y * t.y + t.z * t.z)
  let NP := √(p.x * p.x + p.y * p.y + p.z * p.z)
  let T1 := t.x / NT
  let T2 := t.y / NT
  let T3 := t.z / NT
  let P1 := p.x / NP
  let P2 := p.y / NP
  let P3 := p.z / NP
  let N1 := T2 * P3 - P2 * T3
  let N2 := -T1 * P3 + P1 * T3
  let N3 := T1 * P2 - T2 * P1
  (L.x * T1 * T1 + L.y * N1 * N1 + L.z * P1 * P1,
   L.x * T2 * T2 + L.y * N2 * N2 + L.z * P2 * P2,
   L.x * T3 * T3 + L.y * N3 * N3 + L.z * P3 * P3,
   √2 * (L.x * T1 * T2 + L.y * N1 * N2 + L.z * P1 * P2),
   √2 * (L.x * T1 * T3 + L.y * N1 * N3 + L.z * P1 * P3),
   √2 * (L.x * T2 * T3 + L.y * N2 * N3 + L.z * P2 * P3))

/-- unnormalised T axis of the kernel -/
noncomputable def tK (κ h σ : ℝ) : V3 ℝ :=
  ⟨cos κ * cos σ + sin κ * h * sin σ - sin κ * √(1 - h * h),
   sin κ * cos σ - cos κ * h * sin σ + cos κ * √(1 - h * h),
   -√(1 - h * h) * sin σ - h⟩

/-- unnormalised P axis of the kernel -/
noncomputable def pK (κ h σ : ℝ) : V3 ℝ :=
  ⟨cos κ * cos σ + sin κ * h * sin σ + sin κ * √(1 - h * h),
   sin κ * cos σ - cos κ * h * sin σ - cos κ * √(1 - h * h),
   -√(1 - h * h) * sin σ + h⟩

/-- eigenvalues of the kernel -/
noncomputable def LK (γ δ : ℝ) : V3 ℝ :=
  ⟨(√3 * cos γ * cos δ - sin γ * cos δ + √2 * sin δ) / √6,
   (2 * sin γ * cos δ + √2 * sin δ) / √6,
   (-√3 * cos γ * cos δ - sin γ * cos δ + √2 * sin δ) / √6⟩

/-- the generated kernel is `tapeKer` at the kernel's axes and eigenvalues -/
theorem cTape_MT6_unfold (γ δ κ h σ m0 m1 m2 m3 m4 m5 : ℝ) :
    Pyx.cconvert.cTape_MT6 γ δ κ h σ m0 m1 m2 m3 m4 m5 = tapeKer (tK κ h σ) (pK κ h σ) (LK γ δ) := by
  simp only [Pyx.cconvert.cTape_MT6, tapeKer, tK, pK, LK, flt_sqrt, flt_sin, flt_cos, flt_c,
    Nat.cast_ofNat, Nat.cast_one]

/-- with axes of squared length 2 the kernel body is the raw six-vector of the rebuilt tensor -/
theorem tapeKer_eq (t p L : V3 ℝ) (ht : V3.dot t t = 2) (hp : V3.dot p p = 2) :
    tapeKer t p L =
      ((rebuild (half2 t) (V3.cross (half2 t) (half2 p)).neg (half2 p) L).xx,
       (rebuild (half2 t) (V3.cross (half2 t) (half2 p)).neg (half2 p) L).yy,
       (rebuild (half2 t) (V3.cross (half2 t) (half2 p)).neg (half2 p) L).zz,
       √2 * (rebuild (half2 t) (V3.cross (half2 t) (half2 p)).neg (half2 p) L).xy,
       √2 * (rebuild (half2 t) (V3.cross (half2 t) (half2 p)).neg (half2 p) L).xz,
       √2 * (rebuild (half2 t) (V3.cross (half2 t) (half2 p)).neg (half2 p) L).yz) := by
  have hNT : √(t.x * t.x + t.y * t.y + t.z * t.z) = √2 := by
    simp only [V3.dot] at ht; rw [ht]
  have hNP : √(p.x * p.x + p.y * p.y + p.z * p.z) = √2 := by
    simp only [V3.dot] at hp; rw [hp]
  simp only [tapeKer, hNT, hNP, rebuild, half2, V3.cross, V3.neg, Prod.mk.injEq]
  refine ⟨by ring, by ring, by ring, by ring, by ring, by ring⟩

/-- sum of the model's slip and normal vectors at dip `arccos h` is the kernel's T axis -/
theorem add_sdrVecs (κ σ : ℝ) {h : ℝ} (hh : -1 ≤ h ∧ h ≤ 1) :
    V3.add (sdrVec1 κ (arccos h) σ) (sdrVec2 κ (arccos h)) = tK κ h σ := by
  simp only [V3.add, sdrVec1, sdrVec2, tK, flt_sin, flt_cos, Real.cos_arccos hh.1 hh.2,
    Real.sin_arccos, sq]
  congr 1; ring

/-- difference of the model's slip and normal vectors at dip `arccos h` is the kernel's P axis -/
theorem sub_sdrVecs (κ σ : ℝ) {h : ℝ} (hh : -1 ≤ h ∧ h ≤ 1) :
    V3.sub (sdrVec1 κ (arccos h) σ) (sdrVec2 κ (arccos h)) = pK κ h σ := by
  simp only [V3.sub, sdrVec1, sdrVec2, pK, flt_sin, flt_cos, Real.cos_arccos hh.1 hh.2,
    Real.sin_arccos, sq]
  congr 1 <;> ring

theorem dot_add_two (a b : V3 ℝ) (ha : V3.dot a a = 1) (hb : V3.dot b b = 1) (hab : V3.dot a b = 0) :
    V3.dot (V3.add a b) (V3.add a b) = 2 := by
  simp only [V3.dot, V3.add] at *; linear_combination ha + hb + 2 * hab

theorem dot_sub_two (a b : V3 ℝ) (ha : V3.dot a a = 1) (hb : V3.dot b b = 1) (hab : V3.dot a b = 0) :
    V3.dot (V3.sub a b) (V3.sub a b) = 2 := by
  simp only [V3.dot, V3.sub] at *; linear_combination ha + hb - 2 * hab

/-- the kernel's unnormalised axes have squared length 2 (so the kernel's `NT = NP = √2`) -/
theorem dot_tK (κ σ : ℝ) {h : ℝ} (hh : -1 ≤ h ∧ h ≤ 1) : V3.dot (tK κ h σ) (tK κ h σ) = 2 := by
  rw [← add_sdrVecs κ σ hh]
  exact dot_add_two _ _ (lune_sdrVec1_unit _ _ _) (lune_sdrVec2_unit _ _) (lune_sdrVec_perp _ _ _)

theorem dot_pK (κ σ : ℝ) {h : ℝ} (hh : -1 ≤ h ∧ h ≤ 1) : V3.dot (pK κ h σ) (pK κ h σ) = 2 := by
  rw [← sub_sdrVecs κ σ hh]
  exact dot_sub_two _ _ (lune_sdrVec1_unit _ _ _) (lune_sdrVec2_unit _ _) (lune_sdrVec_perp _ _ _)

/-- closed form of the model's principal axes at dip `arccos h` -/
theorem sdrToTnp_arccos (κ σ : ℝ) {h : ℝ} (hh : -1 ≤ h ∧ h ≤ 1) :
    sdrToTnp κ (arccos h) σ =
      (half2 (tK κ h σ), (V3.cross (half2 (tK κ h σ)) (half2 (pK κ h σ))).neg, half2 (pK κ h σ)) := by
  simp only [sdrToTnp, fpToTnp, add_sdrVecs κ σ hh, sub_sdrVecs κ σ hh,
    lune_unit_of_dot_two _ (dot_tK κ σ hh), lune_unit_of_dot_two _ (dot_pK κ σ hh), half2]

/-- the model's eigenvalues are the kernel's -/
theorem gdToE_eq_LK (γ δ : ℝ) : gdToE γ δ = LK γ δ := by
  simp only [gdToE, LK, flt_sqrt, flt_c, flt_pi, flt_sin, flt_cos, Nat.cast_ofNat, Nat.cast_one,
    Nat.cast_zero, Real.sin_pi_div_two_sub, Real.cos_pi_div_two_sub]
  congr 1 <;> ring

/-- the model tensor in terms of the kernel's axes and eigenvalues -/
theorem tapeToMt33_eq (γ δ κ σ : ℝ) {h : ℝ} (hh : -1 ≤ h ∧ h ≤ 1) :
    tapeToMt33 γ δ κ h σ =
      rebuild (half2 (tK κ h σ)) (V3.cross (half2 (tK κ h σ)) (half2 (pK κ h σ))).neg
        (half2 (pK κ h σ)) (LK γ δ) := by
  simp only [tapeToMt33, flt_acos, sdrToTnp_arccos κ σ hh, gdToE_eq_LK]

/-- the model tensor has unit Frobenius norm, so its six-vector is not rescaled -/
theorem raw6_tape_norm (γ δ κ h σ : ℝ) : (lune_raw6 (tapeToMt33 γ δ κ h σ)).norm = 1 := by
  obtain ⟨h1, h2, h3, h4, h5, h6⟩ := lune_sdrToTnp_gram κ (Flt.acos h) σ
  have hE := lune_gdToE_sq γ δ
  have hr := lune_rebuild_frob (sdrToTnp κ (Flt.acos h) σ).1 (sdrToTnp κ (Flt.acos h) σ).2.1
    (sdrToTnp κ (Flt.acos h) σ).2.2 (gdToE γ δ)
  rw [h1, h2, h3, h4, h5, h6] at hr
  rw [lune_raw6_norm, Real.sqrt_eq_one]
  simp only [tapeToMt33]
  rw [hr]; linear_combination hE

/-- the model six-vector is the raw six-vector of the model tensor -/
theorem tapeToMt6_eq (γ δ κ h σ : ℝ) :
    tapeToMt6 γ δ κ h σ =
      ⟨(tapeToMt33 γ δ κ h σ).xx, (tapeToMt33 γ δ κ h σ).yy, (tapeToMt33 γ δ κ h σ).zz,
       √2 * (tapeToMt33 γ δ κ h σ).xy, √2 * (tapeToMt33 γ δ κ h σ).xz,
       √2 * (tapeToMt33 γ δ κ h σ).yz⟩ := by
  simp only [tapeToMt6, lune_mt33ToMt6_eq, raw6_tape_norm, div_one]

end MTfitVerif.PyxTape
