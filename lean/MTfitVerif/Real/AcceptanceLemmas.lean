import MTfitVerif.Model.Acceptance
import MTfitVerif.Real.Inst
import MTfitVerif.Real.RatioPdfLemmas
/-
  Helper lemmas for C05 (Markov-chain acceptance): positivity of the Gaussian density, strict
  monotonicity of the Gaussian CDF (hence positive truncation normalisers), and the acceptance
  functions at `ℝ` as ordinary `min 1 (…)` terms.
-/
namespace MTfitVerif.Acceptance
open MTfitVerif LogP Real

/-! ### Gaussian density and CDF -/

theorem gaussPdf_eq (x μ s : ℝ) :
    gaussPdf x μ s = Real.exp (-(((x - μ) / s) * ((x - μ) / s)) / 2) / √(2 * π) / s := by
  simp [gaussPdf]

theorem gaussPdf_pos (x μ : ℝ) {s : ℝ} (hs : 0 < s) : 0 < gaussPdf x μ s := by
  rw [gaussPdf_eq]; positivity

theorem gaussCdf_eq (x μ s : ℝ) : gaussCdf x μ s = 1 / 2 * (1 + erf ((x - μ) / s / √2)) := by
  unfold gaussCdf; rw [RatioPdf.stdCdf_eq]

theorem gaussCdf_lt (μ : ℝ) {s lo hi : ℝ} (hs : 0 < s) (hlh : lo < hi) :
    gaussCdf lo μ s < gaussCdf hi μ s := by
  rw [gaussCdf_eq, gaussCdf_eq]
  have h2 : (0:ℝ) < √2 := by positivity
  have h : (lo - μ) / s / √2 < (hi - μ) / s / √2 := by
    apply div_lt_div_of_pos_right _ h2
    apply div_lt_div_of_pos_right _ hs
    linarith
  have := erf_strictMono h
  linarith

theorem truncTerm_pos' (x m : ℝ) {s lo hi : ℝ} (hs : 0 < s) (hlh : lo < hi) :
    0 < truncTerm x m s lo hi := by
  unfold truncTerm
  exact div_pos (gaussPdf_pos x m hs) (sub_pos.mpr (gaussCdf_lt m hs hlh))

/-! ### the acceptance functions at `ℝ` -/

theorem mhRatio_eq (prior : Bool → Tape ℝ → ℝ) (dc : Bool) (w : Widths ℝ) (xi x : Tape ℝ) :
    mhRatio prior dc w xi x =
      if 0 < transPdf dc w x xi ∧ 0 < prior dc xi then
        some (transPdf dc w xi x * prior dc x / (transPdf dc w x xi * prior dc xi))
      else none := by
  unfold mhRatio
  simp only [flt_ltb, flt_c, Nat.cast_zero, Bool.and_eq_true, decide_eq_true_eq]

theorem mhRatio_of_pos (prior : Bool → Tape ℝ → ℝ) (dc : Bool) (w : Widths ℝ) (xi x : Tape ℝ)
    (hq : 0 < transPdf dc w x xi) (hp : 0 < prior dc xi) :
    mhRatio prior dc w xi x =
      some (transPdf dc w xi x * prior dc x / (transPdf dc w x xi * prior dc xi)) := by
  rw [mhRatio_eq, if_pos ⟨hq, hp⟩]

theorem mhRatio_of_prior_zero (prior : Bool → Tape ℝ → ℝ) (dc : Bool) (w : Widths ℝ) (xi x : Tape ℝ)
    (hp : prior dc xi = 0) : mhRatio prior dc w xi x = none := by
  rw [mhRatio_eq, if_neg]
  rintro ⟨_, h⟩
  rw [hp] at h
  exact lt_irrefl _ h

theorem acceptMH_fin_none (prior : Bool → Tape ℝ → ℝ) (dc : Bool) (w : Widths ℝ) (xi x : Tape ℝ)
    (L L' : ℝ) (h : mhRatio prior dc w xi x = none) :
    acceptMH prior dc w xi x (fin L) (fin L') = 1 := by
  simp [acceptMH, h]

theorem acceptMH_fin_some (prior : Bool → Tape ℝ → ℝ) (dc : Bool) (w : Widths ℝ) (xi x : Tape ℝ)
    (L L' : ℝ) {r : ℝ} (h : mhRatio prior dc w xi x = some r) :
    acceptMH prior dc w xi x (fin L) (fin L') = min 1 (r * Real.exp (L' - L)) := by
  simp [acceptMH, h, fmin_eq]

theorem acceptMulti_fin_some (prior : Bool → Tape ℝ → ℝ)
    (evs : List (Bool × Widths ℝ × Tape ℝ × Tape ℝ)) (L L' : ℝ) {r : ℝ}
    (h : mhRatioMulti prior evs = some r) :
    acceptMulti prior evs (fin L) (fin L') = min 1 (r * Real.exp (L' - L)) := by
  simp [acceptMulti, h, fmin_eq]

theorem acceptJumpUp_fin (prior : Bool → Tape ℝ → ℝ) (w : Widths ℝ) (xiDc x : Tape ℝ) (p L L' : ℝ) :
    acceptJumpUp prior w xiDc x p (fin L) (fin L') =
      min 1 (prior false x / (jumpQ w x * prior true xiDc) * ((1 - p) / p) * Real.exp (L' - L)) := by
  simp [acceptJumpUp, fmin_eq]

theorem acceptJumpDown_fin (prior : Bool → Tape ℝ → ℝ) (w : Widths ℝ) (xi xDc : Tape ℝ) (p L L' : ℝ) :
    acceptJumpDown prior w xi xDc p (fin L) (fin L') =
      min 1 (jumpQ w xi * prior true xDc / prior false xi * (p / (1 - p)) * Real.exp (L' - L)) := by
  simp [acceptJumpDown, fmin_eq]

/-! ### the multi-event ratio as a quotient of products -/

theorem mhRatioMulti_eq_prod (prior : Bool → Tape ℝ → ℝ)
    (evs : List (Bool × Widths ℝ × Tape ℝ × Tape ℝ))
    (hp : ∀ e ∈ evs, 0 < prior e.1 e.2.2.1)
    (hq : ∀ e ∈ evs, 0 < transPdf e.1 e.2.1 e.2.2.2 e.2.2.1) :
    mhRatioMulti prior evs =
      some ((evs.map fun e => prior e.1 e.2.2.2 * transPdf e.1 e.2.1 e.2.2.1 e.2.2.2).prod /
            (evs.map fun e => prior e.1 e.2.2.1 * transPdf e.1 e.2.1 e.2.2.2 e.2.2.1).prod) := by
  induction evs with
  | nil => simp [mhRatioMulti]
  | cons e rest ih =>
    obtain ⟨dc, w, xi, x⟩ := e
    have hp0 := hp _ List.mem_cons_self
    have hq0 := hq _ List.mem_cons_self
    have ih' := ih (fun e he => hp e (List.mem_cons_of_mem _ he))
      (fun e he => hq e (List.mem_cons_of_mem _ he))
    simp only [mhRatioMulti, mhRatio_of_pos prior dc w xi x hq0 hp0, ih', List.map_cons,
      List.prod_cons, Option.some.injEq]
    rw [div_mul_div_comm]
    congr 1 <;> ring

theorem prod_flow_pos (prior : Bool → Tape ℝ → ℝ)
    (evs : List (Bool × Widths ℝ × Tape ℝ × Tape ℝ))
    (hp : ∀ e ∈ evs, 0 < prior e.1 e.2.2.1)
    (hq : ∀ e ∈ evs, 0 < transPdf e.1 e.2.1 e.2.2.2 e.2.2.1) :
    0 < (evs.map fun e => prior e.1 e.2.2.1 * transPdf e.1 e.2.1 e.2.2.2 e.2.2.1).prod := by
  apply List.prod_pos
  intro a ha
  obtain ⟨e, he, rfl⟩ := List.mem_map.mp ha
  exact mul_pos (hp e he) (hq e he)

end MTfitVerif.Acceptance
