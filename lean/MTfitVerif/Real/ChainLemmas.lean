import MTfitVerif.Model.Chain
/-
  Helper lemmas for C07 (Markov-chain bookkeeping).  Mathlib-free.
-/
namespace MTfitVerif.Chain

/-! ### `addCore`, `addOld`, `addNew` in the two regimes -/

theorem addCore_learning {s : State} (x : Entry) (h : learning s = true) :
    addCore s x = { s with cur := x } := by
  have h' : learning { s with cur := x } = true := h
  simp only [addCore, h', if_true]

theorem addCore_chain {s : State} (x : Entry) (h : learning s = false) :
    addCore s x = { s with cur := x, chain := s.chain ++ [x], tried := s.tried + 1,
                           pDc := s.pDc + (if x.isDc then 1 else 0) } := by
  have h' : learning { s with cur := x } = false := h
  simp only [addCore, h']
  rfl

theorem addOld_learning {s : State} (h : learning s = true) :
    addOld s = { s with learnWin := s.learnWin ++ [false] } := by
  have h' : learning { s with cur := s.cur } = true := h
  simp only [addOld, addCore_learning _ h, h', if_true]

theorem addOld_chain {s : State} (h : learning s = false) :
    addOld s = { s with chain := s.chain ++ [s.cur], tried := s.tried + 1,
                        pDc := s.pDc + (if s.cur.isDc then 1 else 0) } := by
  have h' : learning (addCore s s.cur) = false := by rw [addCore_chain _ h]; exact h
  simp only [addOld, h']
  rw [addCore_chain _ h]; rfl

theorem addNew_learning {s : State} (x : Entry) (h : learning s = true) :
    addNew s x = { s with cur := x, learnWin := s.learnWin ++ [true],
                          nLearnAcc := s.nLearnAcc + 1 } := by
  have h' : learning { s with cur := x } = true := h
  simp only [addNew, addCore_learning _ h, h', if_true]

theorem addNew_chain {s : State} (x : Entry) (h : learning s = false) :
    addNew s x = { s with cur := x, chain := s.chain ++ [x], tried := s.tried + 1,
                          pDc := s.pDc + (if x.isDc then 1 else 0),
                          accepted := s.accepted + 1 } := by
  have h' : learning (addCore s x) = false := by rw [addCore_chain _ h]; exact h
  simp only [addNew, h']
  rw [addCore_chain _ h]; rfl

theorem addOld_learning_eq (s : State) : learning (addOld s) = learning s := by
  cases h : learning s
  · rw [addOld_chain h]; exact h
  · rw [addOld_learning h]; exact h

/-- learning never restarts -/
theorem addNew_not_learning {s : State} (x : Entry) (h : learning s = false) :
    learning (addNew s x) = false := by
  rw [addNew_chain x h]; exact h

/-! ### iterated `addOld` -/

theorem iter_addOld_learning_eq (n : Nat) (s : State) :
    learning (iter addOld n s) = learning s := by
  induction n generalizing s with
  | zero => rfl
  | succ n ih => simp only [iter]; rw [ih, addOld_learning_eq]

theorem iter_addOld_chain (n : Nat) {s : State} (h : learning s = false) :
    (iter addOld n s).chain = s.chain ++ List.replicate n s.cur ∧
    (iter addOld n s).tried = s.tried + n ∧
    (iter addOld n s).accepted = s.accepted ∧
    (iter addOld n s).cur = s.cur ∧
    (iter addOld n s).learnWin = s.learnWin ∧
    (iter addOld n s).window = s.window ∧
    (iter addOld n s).adaptCalls = s.adaptCalls := by
  induction n generalizing s with
  | zero => simp [iter]
  | succ n ih =>
    have h1 : learning (addOld s) = false := by rw [addOld_learning_eq]; exact h
    obtain ⟨a, b, c, d, e, f, g⟩ := ih h1
    simp only [iter]
    rw [a, b, c, d, e, f, g, addOld_chain h]
    simp only [List.replicate_succ, List.append_assoc, List.singleton_append]
    refine ⟨trivial, ?_, trivial, trivial, trivial, trivial, trivial⟩
    omega

/-! ### the counting invariant (holds for every intermediate state too) -/

structure Inv (s : State) : Prop where
  len : (s.chain.length : Int) = s.tried + 1
  pdc : s.pDc = (s.chain.filter (·.isDc)).length
  learn : learning s = true → s.tried = -1 ∧ s.accepted = -1

theorem inv_init (L W C : Nat) (x0 : Entry) : Inv (init L W C x0) := by
  constructor <;> simp [init]

theorem Inv.addOld {s : State} (hs : Inv s) : Inv (addOld s) := by
  cases h : learning s
  · rw [addOld_chain h]
    refine ⟨?_, ?_, ?_⟩
    · have := hs.len; simp only [List.length_append, List.length_singleton]; omega
    · have := hs.pdc
      simp only [List.filter_append, List.length_append]
      cases hd : s.cur.isDc <;> simp [List.filter, hd, this]
    · intro h'; have h'' : learning s = true := h'; rw [h] at h''; cases h''
  · rw [addOld_learning h]
    exact ⟨hs.len, hs.pdc, fun _ => hs.learn h⟩

theorem Inv.addNew {s : State} (hs : Inv s) (x : Entry) : Inv (addNew s x) := by
  cases h : learning s
  · rw [addNew_chain x h]
    refine ⟨?_, ?_, ?_⟩
    · have := hs.len; simp only [List.length_append, List.length_singleton]; omega
    · have := hs.pdc
      simp only [List.filter_append, List.length_append]
      cases hd : x.isDc <;> simp [List.filter, hd, this]
    · intro h'; have h'' : learning s = true := h'; rw [h] at h''; cases h''
  · rw [addNew_learning x h]
    refine ⟨hs.len, hs.pdc, fun _ => hs.learn h⟩

theorem Inv.iter_addOld {s : State} (hs : Inv s) (n : Nat) : Inv (iter Chain.addOld n s) := by
  induction n generalizing s with
  | zero => exact hs
  | succ n ih => exact ih hs.addOld

theorem Inv.record {s : State} (hs : Inv s) (ev : Event) : Inv (record s ev) := by
  cases ev with
  | accept u e => exact (hs.iter_addOld u).addNew e
  | reject n => exact hs.iter_addOld _

/-- changing only the learning window and the adaptation counter keeps the invariant -/
theorem Inv.setWin {s : State} (hs : Inv s) (w : List Bool) (a : Nat) :
    Inv { s with learnWin := w, adaptCalls := a } :=
  ⟨hs.len, hs.pdc, hs.learn⟩

/-! ### `step` -/

/-- the learning-period width update of `step` -/
def adapt1 (s : State) : State :=
  if learning s && s.learnWin.length ≥ s.window then
    { s with adaptCalls := s.adaptCalls + 1, learnWin := [] } else s

/-- the width update at the first chain sample -/
def adapt2 (s : State) : State :=
  let w := s.learnWin.drop (s.learnWin.length - s.window)
  if 4 * w.length > 3 * s.window then { s with learnWin := w, adaptCalls := s.adaptCalls + 1 } else s

theorem step_eq (s : State) (ev : Event) :
    step s ev =
      if (!learning (adapt1 (record s ev)) && decide (s.tried < 0) &&
          decide (0 ≤ (adapt1 (record s ev)).tried)) = true then
        addNew (adapt2 (adapt1 (record s ev))) (adapt2 (adapt1 (record s ev))).cur
      else adapt1 (record s ev) := rfl

theorem adapt1_eq (s : State) : ∃ w a, adapt1 s = { s with learnWin := w, adaptCalls := a } := by
  unfold adapt1; split
  · exact ⟨_, _, rfl⟩
  · exact ⟨_, _, rfl⟩

theorem adapt2_eq (s : State) : ∃ w a, adapt2 s = { s with learnWin := w, adaptCalls := a } := by
  unfold adapt2; simp only; split
  · exact ⟨_, _, rfl⟩
  · exact ⟨_, _, rfl⟩

theorem adapt1_not_learning {s : State} (h : learning s = false) : adapt1 s = s := by
  simp [adapt1, h]

theorem Inv.adapt1 {s : State} (hs : Inv s) : Inv (adapt1 s) := by
  obtain ⟨w, a, h⟩ := adapt1_eq s; rw [h]; exact hs.setWin w a

theorem Inv.adapt2 {s : State} (hs : Inv s) : Inv (adapt2 s) := by
  obtain ⟨w, a, h⟩ := adapt2_eq s; rw [h]; exact hs.setWin w a

theorem Inv.step {s : State} (hs : Inv s) (ev : Event) : Inv (step s ev) := by
  rw [step_eq]; split
  · exact (hs.record ev).adapt1.adapt2.addNew _
  · exact (hs.record ev).adapt1

/-! ### entries -/

/-- all entries held (current state and chain) satisfy `P` -/
def EInv (P : Entry → Prop) (s : State) : Prop := P s.cur ∧ ∀ e ∈ s.chain, P e

theorem EInv.addOld {P} {s : State} (hs : EInv P s) : EInv P (addOld s) := by
  cases h : learning s
  · rw [addOld_chain h]
    refine ⟨hs.1, ?_⟩
    intro e he
    simp only [List.mem_append, List.mem_singleton] at he
    rcases he with he | he
    · exact hs.2 e he
    · exact he ▸ hs.1
  · rw [addOld_learning h]; exact hs

theorem EInv.addNew {P} {s : State} (hs : EInv P s) {x : Entry} (hx : P x) :
    EInv P (addNew s x) := by
  cases h : learning s
  · rw [addNew_chain x h]
    refine ⟨hx, ?_⟩
    intro e he
    simp only [List.mem_append, List.mem_singleton] at he
    rcases he with he | he
    · exact hs.2 e he
    · exact he ▸ hx
  · rw [addNew_learning x h]; exact ⟨hx, hs.2⟩

theorem EInv.iter_addOld {P} {s : State} (hs : EInv P s) (n : Nat) :
    EInv P (iter Chain.addOld n s) := by
  induction n generalizing s with
  | zero => exact hs
  | succ n ih => exact ih hs.addOld

theorem EInv.record {P} {s : State} (hs : EInv P s) {ev : Event}
    (hev : ∀ u e, ev = .accept u e → P e) : EInv P (record s ev) := by
  cases ev with
  | accept u e => exact (hs.iter_addOld u).addNew (hev u e rfl)
  | reject n => exact hs.iter_addOld _

theorem EInv.step {P} {s : State} (hs : EInv P s) {ev : Event}
    (hev : ∀ u e, ev = .accept u e → P e) : EInv P (step s ev) := by
  have hr := hs.record hev
  have h1 : EInv P (adapt1 (Chain.record s ev)) := by
    obtain ⟨w, a, h⟩ := adapt1_eq (Chain.record s ev); rw [h]; exact hr
  have h2 : EInv P (adapt2 (adapt1 (Chain.record s ev))) := by
    obtain ⟨w, a, h⟩ := adapt2_eq (adapt1 (Chain.record s ev)); rw [h]; exact h1
  rw [step_eq]; split
  · exact h2.addNew h2.1
  · exact h1

theorem einv_foldl {P} {s : State} (hs : EInv P s) (evs : List Event)
    (hev : ∀ u e, Event.accept u e ∈ evs → P e) : EInv P (evs.foldl step s) := by
  induction evs generalizing s with
  | nil => exact hs
  | cons ev evs ih =>
    refine ih (hs.step fun u e h => hev u e (h ▸ List.mem_cons_self)) ?_
    exact fun u e h => hev u e (List.mem_cons_of_mem _ h)

/-! ### `record` and `step` in the chain regime -/

/-- number of proposals an event tries -/
def tries : Event → Nat
  | .accept u _ => u + 1
  | .reject n => max n 1

theorem record_accept_chain {s : State} (u : Nat) (e : Entry) (h : learning s = false) :
    learning (record s (.accept u e)) = false ∧
    (record s (.accept u e)).chain = s.chain ++ List.replicate u s.cur ++ [e] ∧
    (record s (.accept u e)).tried = s.tried + (u + 1 : Nat) ∧
    (record s (.accept u e)).accepted = s.accepted + 1 ∧
    (record s (.accept u e)).cur = e := by
  have hl : learning (iter addOld u s) = false := by rw [iter_addOld_learning_eq]; exact h
  obtain ⟨a, b, c, d, -⟩ := iter_addOld_chain u h
  show learning (addNew (iter addOld u s) e) = false ∧ (addNew (iter addOld u s) e).chain = _ ∧
    (addNew (iter addOld u s) e).tried = _ ∧ (addNew (iter addOld u s) e).accepted = _ ∧
    (addNew (iter addOld u s) e).cur = _
  refine ⟨addNew_not_learning e hl, ?_⟩
  rw [addNew_chain e hl]
  simp only [a, b, c]
  refine ⟨trivial, ?_, trivial, trivial⟩
  omega

theorem record_reject_chain {s : State} (n : Nat) (h : learning s = false) :
    learning (record s (.reject n)) = false ∧
    (record s (.reject n)).chain = s.chain ++ List.replicate (max n 1) s.cur ∧
    (record s (.reject n)).tried = s.tried + (max n 1 : Nat) ∧
    (record s (.reject n)).accepted = s.accepted ∧
    (record s (.reject n)).cur = s.cur := by
  obtain ⟨a, b, c, d, -⟩ := iter_addOld_chain (max n 1) h
  exact ⟨by show learning (iter addOld (max n 1) s) = false; rw [iter_addOld_learning_eq]; exact h,
    a, b, c, d⟩

theorem record_tried_chain {s : State} (ev : Event) (h : learning s = false) :
    learning (record s ev) = false ∧ (record s ev).tried = s.tried + (tries ev : Nat) := by
  cases ev with
  | accept u e => exact ⟨(record_accept_chain u e h).1, (record_accept_chain u e h).2.2.1⟩
  | reject n => exact ⟨(record_reject_chain n h).1, (record_reject_chain n h).2.2.1⟩

theorem iter_addOld_learning_tried (n : Nat) {s : State} (h : learning s = true) :
    (iter addOld n s).tried = s.tried := by
  induction n generalizing s with
  | zero => rfl
  | succ n ih =>
    have h1 : learning (addOld s) = true := by rw [addOld_learning_eq]; exact h
    simp only [iter]; rw [ih h1, addOld_learning h]

theorem record_tried_learning {s : State} (ev : Event) (h : learning s = true) :
    (record s ev).tried = s.tried := by
  cases ev with
  | accept u e =>
    have hl : learning (iter addOld u s) = true := by rw [iter_addOld_learning_eq]; exact h
    show (addNew (iter addOld u s) e).tried = _
    rw [addNew_learning e hl]; exact iter_addOld_learning_tried u h
  | reject n => exact iter_addOld_learning_tried _ h

theorem adapt1_tried (s : State) : (adapt1 s).tried = s.tried := by
  obtain ⟨w, a, h⟩ := adapt1_eq s; rw [h]

theorem step_of_not_first {s : State} {ev : Event}
    (h : ¬ (s.tried < 0 ∧ 0 ≤ (record s ev).tried)) : step s ev = adapt1 (record s ev) := by
  rw [step_eq, adapt1_tried]
  split
  · rename_i h'
    simp only [Bool.and_eq_true, decide_eq_true_eq] at h'
    exact absurd ⟨h'.1.2, h'.2⟩ h
  · rfl

/-- a chain iteration that is not the first one: nothing but the record -/
theorem step_of_chain_started {s : State} {ev : Event} (hl : learning (record s ev) = false)
    (h : 0 ≤ s.tried) : step s ev = record s ev := by
  rw [step_of_not_first (by omega), adapt1_not_learning hl]

/-- the first chain iteration: the recorded state is held one extra time -/
theorem step_of_chain_first {s : State} {ev : Event} (hl : learning (record s ev) = false)
    (h : s.tried < 0) (h' : 0 ≤ (record s ev).tried) :
    learning (step s ev) = false ∧
    (step s ev).chain = (record s ev).chain ++ [(record s ev).cur] ∧
    (step s ev).tried = (record s ev).tried + 1 ∧
    (step s ev).accepted = (record s ev).accepted + 1 ∧
    (step s ev).cur = (record s ev).cur := by
  rw [step_eq, adapt1_not_learning hl]
  simp only [hl, h, h', Bool.not_false, decide_true, Bool.and_self, if_true]
  obtain ⟨w, a, h2⟩ := adapt2_eq (record s ev)
  have hl2 : learning (adapt2 (record s ev)) = false := by rw [h2]; exact hl
  refine ⟨addNew_not_learning _ hl2, ?_⟩
  rw [addNew_chain _ hl2, h2]
  exact ⟨rfl, rfl, rfl, rfl⟩

theorem tries_pos (ev : Event) : 1 ≤ tries ev := by
  cases ev with
  | accept u e => exact Nat.le_add_left 1 u
  | reject n => exact Nat.le_max_right n 1

/-- learning never restarts (whole iteration) -/
theorem step_not_learning {s : State} (ev : Event) (hl : learning s = false) :
    learning (step s ev) = false := by
  obtain ⟨hr, ht⟩ := record_tried_chain ev hl
  by_cases h : s.tried < 0 ∧ 0 ≤ (record s ev).tried
  · exact (step_of_chain_first hr h.1 h.2).1
  · rw [step_of_not_first h, adapt1_not_learning hr]; exact hr

/-- at iteration boundaries `tried` is −1 (chain not started) or at least 1 -/
theorem step_tried_boundary {s : State} (hs : Inv s) (hb : s.tried = -1 ∨ 1 ≤ s.tried)
    (ev : Event) :
    (step s ev).tried = -1 ∨ 1 ≤ (step s ev).tried := by
  have hr := (hs.record ev).adapt1
  have hlen := hr.len
  rw [step_eq]; split
  · rename_i h
    simp only [Bool.and_eq_true, Bool.not_eq_true', decide_eq_true_eq] at h
    obtain ⟨w, a, h2⟩ := adapt2_eq (adapt1 (record s ev))
    have hl : learning (adapt2 (adapt1 (record s ev))) = false := by rw [h2]; exact h.1.1
    rw [addNew_chain _ hl, h2]
    right
    show 1 ≤ (adapt1 (record s ev)).tried + 1
    omega
  · rename_i h
    simp only [Bool.and_eq_true, Bool.not_eq_true', decide_eq_true_eq] at h
    cases hl : learning (adapt1 (record s ev))
    · -- chain regime and not the first chain iteration
      by_cases h0 : s.tried < 0
      · left
        have : ¬ 0 ≤ (adapt1 (record s ev)).tried := fun h1 => h ⟨⟨hl, h0⟩, h1⟩
        omega
      · right
        have h1 : 1 ≤ s.tried := by omega
        have hls : learning s = false := by
          cases hls : learning s
          · rfl
          · have := (hs.learn hls).1; omega
        rw [adapt1_tried, (record_tried_chain ev hls).2]
        omega
    · left; exact (hr.learn hl).1

/-- invariant of states at iteration boundaries -/
structure BInv (s : State) : Prop extends Inv s where
  bnd : s.tried = -1 ∨ 1 ≤ s.tried

theorem binv_init (L W C : Nat) (x0 : Entry) : BInv (init L W C x0) :=
  ⟨inv_init L W C x0, by simp [init]⟩

theorem BInv.step {s : State} (hs : BInv s) (ev : Event) : BInv (step s ev) :=
  ⟨hs.toInv.step ev, step_tried_boundary hs.toInv hs.bnd ev⟩

theorem binv_foldl {s : State} (hs : BInv s) (evs : List Event) : BInv (evs.foldl step s) := by
  induction evs generalizing s with
  | nil => exact hs
  | cons ev evs ih => exact ih (hs.step ev)

/-! ### constant configuration -/

theorem addOld_chainLength (s : State) : (addOld s).chainLength = s.chainLength := by
  cases h : learning s
  · rw [addOld_chain h]
  · rw [addOld_learning h]

theorem addNew_chainLength (s : State) (x : Entry) : (addNew s x).chainLength = s.chainLength := by
  cases h : learning s
  · rw [addNew_chain x h]
  · rw [addNew_learning x h]

theorem iter_addOld_chainLength (n : Nat) (s : State) :
    (iter addOld n s).chainLength = s.chainLength := by
  induction n generalizing s with
  | zero => rfl
  | succ n ih => simp only [iter]; rw [ih, addOld_chainLength]

theorem record_chainLength (s : State) (ev : Event) :
    (record s ev).chainLength = s.chainLength := by
  cases ev with
  | accept u e =>
    show (addNew (iter addOld u s) e).chainLength = _
    rw [addNew_chainLength, iter_addOld_chainLength]
  | reject n => exact iter_addOld_chainLength _ s

theorem step_chainLength (s : State) (ev : Event) : (step s ev).chainLength = s.chainLength := by
  have h1 : (adapt1 (record s ev)).chainLength = s.chainLength := by
    obtain ⟨w, a, h⟩ := adapt1_eq (record s ev); rw [h]; exact record_chainLength s ev
  rw [step_eq]; split
  · rw [addNew_chainLength]
    obtain ⟨w, a, h⟩ := adapt2_eq (adapt1 (record s ev)); rw [h]; exact h1
  · exact h1

/-! ### runs -/

/-- change of `tried` over one iteration -/
theorem step_tried {s : State} (hs : BInv s) (ev : Event) :
    (step s ev).tried = s.tried ∨ (s.tried = -1 ∧ (step s ev).tried = tries ev) ∨
      (1 ≤ s.tried ∧ (step s ev).tried = s.tried + tries ev) := by
  have hb := hs.bnd
  cases h : learning s
  · obtain ⟨hl, ht⟩ := record_tried_chain ev h
    have hp := tries_pos ev
    by_cases h1 : s.tried = -1
    · right; left
      refine ⟨h1, ?_⟩
      rw [(step_of_chain_first hl (by omega) (by omega)).2.2.1, ht]; omega
    · right; right
      have h2 : 1 ≤ s.tried := by omega
      refine ⟨h2, ?_⟩
      rw [step_of_chain_started hl (by omega), ht]
  · left
    have ht := record_tried_learning ev h
    have := (hs.learn h).1
    rw [step_of_not_first (by omega), adapt1_tried, ht]

/-- a finished run overshoots the chain length by less than the largest number of proposals
    tried in one iteration (`max C 1`: with chain length 0 the first chain iteration still runs) -/
theorem run_multi (C m : Nat) (evs : List Event) :
    ∀ s : State, BInv s → s.chainLength = C → s.tried < max C 1 + m →
      (∀ ev ∈ evs, tries ev ≤ m) → finished (run s evs) = true →
      (C : Int) ≤ (run s evs).tried ∧ (run s evs).tried < max C 1 + m ∧
      ((run s evs).chain.length : Int) = (run s evs).tried + 1 := by
  have base : ∀ s : State, BInv s → s.chainLength = C → s.tried < max C 1 + m →
      finished s = true →
      (C : Int) ≤ s.tried ∧ s.tried < max C 1 + m ∧ (s.chain.length : Int) = s.tried + 1 := by
    intro s hs hc ht hf
    simp only [finished, hc, ge_iff_le, decide_eq_true_eq] at hf
    exact ⟨hf, ht, hs.len⟩
  induction evs with
  | nil => intro s hs hc ht _ hf; exact base s hs hc ht hf
  | cons ev evs ih =>
    intro s hs hc ht hev hf
    cases hfs : finished s
    · have hrun : run s (ev :: evs) = run (step s ev) evs := by simp only [run, hfs]; rfl
      rw [hrun] at hf ⊢
      refine ih (step s ev) (hs.step ev) (by rw [step_chainLength, hc]) ?_
        (fun e he => hev e (List.mem_cons_of_mem _ he)) hf
      simp only [finished, hc, ge_iff_le, decide_eq_false_iff_not] at hfs
      have hm := hev ev List.mem_cons_self
      rcases step_tried hs ev with h | ⟨_, h⟩ | ⟨_, h⟩ <;> rw [h] <;> omega
    · have hrun : run s (ev :: evs) = s := by simp only [run, hfs]; rfl
      rw [hrun]; exact base s hs hc ht hfs

/-- after the chain has started `tried` grows by the number of proposals tried -/
theorem foldl_tried_started (evs : List Event) :
    ∀ s : State, learning s = false → 1 ≤ s.tried →
      (evs.foldl step s).tried = s.tried + ((evs.map tries).sum : Nat) := by
  induction evs with
  | nil => intro s _ _; simp
  | cons ev evs ih =>
    intro s hl ht
    obtain ⟨hr, htr⟩ := record_tried_chain ev hl
    have hst : (step s ev).tried = s.tried + tries ev := by
      rw [step_of_chain_started hr (by omega), htr]
    simp only [List.foldl_cons, List.map_cons, List.sum_cons]
    rw [ih (step s ev) (step_not_learning ev hl) (by rw [hst]; omega), hst]
    omega

end MTfitVerif.Chain
