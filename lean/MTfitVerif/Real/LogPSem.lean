import MTfitVerif.Model.LogP
import MTfitVerif.Real.Inst
/-
  Semantics of `LogP ℝ`: the probability a log-value denotes, and the lemmas about
  `maxFin`, `add`, `sum`, `shift`, `ofProb`.
-/
namespace MTfitVerif
namespace LogP
open Real

/-- the probability denoted by a log-probability (`-∞ ↦ 0`) -/
noncomputable def toProb : LogP ℝ → ℝ
  | negInf => 0
  | fin x => Real.exp x

@[simp] theorem toProb_negInf : toProb (negInf : LogP ℝ) = 0 := rfl
@[simp] theorem toProb_fin (x : ℝ) : toProb (fin x) = Real.exp x := rfl

theorem toProb_nonneg (x : LogP ℝ) : 0 ≤ toProb x := by
  cases x <;> simp [toProb, Real.exp_nonneg]

theorem toProb_eq_zero_iff (x : LogP ℝ) : toProb x = 0 ↔ x = negInf := by
  cases x with
  | negInf => simp
  | fin v => simp [(Real.exp_pos v).ne']

theorem toProb_pos_iff (x : LogP ℝ) : 0 < toProb x ↔ isFin x = true := by
  cases x with
  | negInf => simp [isFin]
  | fin v => simp [isFin, Real.exp_pos]

@[simp] theorem expF_eq (x : LogP ℝ) : expF x = toProb x := by
  cases x <;> simp [expF]

theorem toProb_add (x y : LogP ℝ) : toProb (add x y) = toProb x * toProb y := by
  cases x <;> cases y <;> simp [add, Real.exp_add]

theorem toProb_shift (x : LogP ℝ) (k : ℝ) : toProb (shift x k) = toProb x * Real.exp k := by
  cases x <;> simp [shift, Real.exp_add]

theorem toProb_sum (l : List (LogP ℝ)) : toProb (sum l) = (l.map toProb).prod := by
  induction l with
  | nil => simp [sum]
  | cons x xs ih => simp [sum, toProb_add, ih]

theorem sum_eq_negInf_iff (l : List (LogP ℝ)) : sum l = negInf ↔ negInf ∈ l := by
  induction l with
  | nil => simp [sum]
  | cons x xs ih =>
    cases x with
    | negInf => simp [sum, add]
    | fin v =>
      cases h : sum xs with
      | negInf => simp [sum, add, h, ih.mp h]
      | fin w =>
        have : ¬ negInf ∈ xs := fun hm => by rw [ih.mpr hm] at h; cases h
        simp [sum, add, h, this]

theorem toProb_ofProb {p : ℝ} (hp : 0 ≤ p) : toProb (ofProb p) = p := by
  unfold ofProb
  simp only [flt_leb, flt_c, Nat.cast_zero, decide_eq_true_eq, flt_log]
  split
  · rename_i h; simp; linarith
  · rename_i h; have h := not_le.mp h; simp [Real.exp_log h]

theorem ofProb_eq_negInf_iff (p : ℝ) : ofProb p = negInf ↔ p ≤ 0 := by
  unfold ofProb
  simp only [flt_leb, flt_c, Nat.cast_zero, decide_eq_true_eq]
  split <;> simp [*]

/-! ### `maxFin` -/

theorem maxFin_eq_none_iff (l : List (LogP ℝ)) : maxFin l = none ↔ ∀ x ∈ l, x = negInf := by
  induction l with
  | nil => simp [maxFin]
  | cons x xs ih =>
    cases x with
    | negInf => simp [maxFin, ih]
    | fin v =>
      cases h : maxFin xs <;> simp [maxFin, h]

theorem maxFin_ge {l : List (LogP ℝ)} {m : ℝ} (h : maxFin l = some m) :
    ∀ v, fin v ∈ l → v ≤ m := by
  induction l generalizing m with
  | nil => simp [maxFin] at h
  | cons x xs ih =>
    intro v hv
    cases x with
    | negInf =>
      simp only [maxFin] at h
      simp only [List.mem_cons, reduceCtorEq, false_or] at hv
      exact ih h v hv
    | fin w =>
      simp only [maxFin] at h
      cases hm : maxFin xs with
      | none =>
        rw [hm] at h; simp only [Option.some.injEq] at h
        simp only [List.mem_cons, fin.injEq] at hv
        rcases hv with rfl | hv
        · exact h.le
        · have := (maxFin_eq_none_iff xs).mp hm _ hv; cases this
      | some m' =>
        rw [hm] at h; simp only [Option.some.injEq] at h
        rw [fmax_eq] at h
        simp only [List.mem_cons, fin.injEq] at hv
        rcases hv with rfl | hv
        · rw [← h]; exact le_max_left _ _
        · rw [← h]; exact le_trans (ih hm v hv) (le_max_right _ _)

theorem maxFin_mem {l : List (LogP ℝ)} {m : ℝ} (h : maxFin l = some m) : fin m ∈ l := by
  induction l generalizing m with
  | nil => simp [maxFin] at h
  | cons x xs ih =>
    cases x with
    | negInf =>
      simp only [maxFin] at h
      exact List.mem_cons_of_mem _ (ih h)
    | fin w =>
      simp only [maxFin] at h
      cases hm : maxFin xs with
      | none => rw [hm] at h; simp only [Option.some.injEq] at h; simp [h]
      | some m' =>
        rw [hm] at h; simp only [Option.some.injEq] at h
        rw [fmax_eq] at h
        rcases max_cases w m' with ⟨h1, _⟩ | ⟨h1, _⟩
        · rw [h1] at h; simp [h]
        · rw [h1] at h; rw [← h]; exact List.mem_cons_of_mem _ (ih hm)

@[simp] theorem subC_negInf (k : ℝ) : subC (negInf : LogP ℝ) k = negInf := rfl
@[simp] theorem subC_fin (v k : ℝ) : subC (fin v) k = fin (v - k) := rfl
@[simp] theorem shift_negInf (k : ℝ) : shift (negInf : LogP ℝ) k = negInf := rfl
@[simp] theorem shift_fin (v k : ℝ) : shift (fin v) k = fin (v + k) := rfl

theorem maxFin_shift (l : List (LogP ℝ)) (k : ℝ) :
    maxFin (l.map (shift · k)) = (maxFin l).map (· + k) := by
  induction l with
  | nil => simp [maxFin]
  | cons x xs ih =>
    cases x with
    | negInf => simpa [maxFin] using ih
    | fin v =>
      simp only [List.map_cons, shift_fin, maxFin, ih]
      cases maxFin xs with
      | none => simp
      | some m => simp [fmax_eq, max_add_add_right]

end LogP
end MTfitVerif
