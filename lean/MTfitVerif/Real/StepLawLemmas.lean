import MTfitVerif.Real.ProposalJointLemmas
import MTfitVerif.Real.StationaryLemmas
import MTfitVerif.Real.StationaryModelLemmas
import Mathlib.MeasureTheory.Measure.Prod
import Mathlib.MeasureTheory.Measure.WithDensity
import Mathlib.MeasureTheory.PiSystem
import Mathlib.MeasureTheory.MeasurableSpace.Prod
import Mathlib.MeasureTheory.Function.Floor
/-
  Helper lemmas for C07 (one step of the sampler has the law of the Metropolis–Hastings kernel).

  * the uniform accept draw: `unif = volume.restrict [0,1)`, `unif {u | u < a} = a`;
  * `ev prop A`: "the (partial) proposal succeeds with a value in `A`"; a π-λ argument that extends
    measurability and the law of `ev prop ·` from a generating π-system to all measurable sets;
  * the abstract step law: proposal (partial, with sub-probability law `ρ`), independent uniform
    draw, accept iff `u < a θ`, otherwise stay;
  * five-fold boxes generate the product σ-algebra of `ℝ⁵`;
  * measurability of the stream events `restSet (loopG …)`, `restSet (drawG …)`;
  * algebra of `conv` / `shiftSeq` (pulling the box-dependent factors out of the finite-stream law).
-/
namespace MTfitVerif.StepLaw
open MTfitVerif MeasureTheory Set
open scoped ENNReal

/-! ### the uniform accept draw -/

/-- the law of the accept draw: uniform on `[0, 1)` -/
noncomputable def unif : Measure ℝ := volume.restrict (Set.Ico 0 1)

instance : IsProbabilityMeasure unif :=
  ⟨by simp [unif]⟩

theorem unif_lt {a : ℝ} (h1 : a ≤ 1) : unif {u : ℝ | u < a} = ENNReal.ofReal a := by
  have : {u : ℝ | u < a} ∩ Set.Ico 0 1 = Set.Ico 0 a := by
    ext u
    simp only [mem_inter_iff, mem_ofPred_eq, mem_Ico]
    constructor
    · rintro ⟨h, h2, _⟩; exact ⟨h2, h⟩
    · rintro ⟨h2, h⟩; exact ⟨h, h2, lt_of_lt_of_le h h1⟩
  have hm : MeasurableSet {u : ℝ | u < a} := measurableSet_lt measurable_id measurable_const
  rw [unif, Measure.restrict_apply hm, this, Real.volume_Ico, sub_zero]

/-! ### events of a partial proposal -/

section Ev
variable {Ω Θ : Type*}

/-- "the proposal succeeds with a value in `A`" -/
def ev (prop : Ω → Option Θ) (A : Set Θ) : Set Ω := {ω | ∃ θ, prop ω = some θ ∧ θ ∈ A}

theorem ev_empty (prop : Ω → Option Θ) : ev prop ∅ = ∅ := by
  ext ω; simp [ev]

theorem ev_compl (prop : Ω → Option Θ) (A : Set Θ) : ev prop Aᶜ = ev prop univ \ ev prop A := by
  ext ω
  simp only [ev, mem_compl_iff, mem_ofPred_eq, mem_univ, and_true, mem_sdiff, not_exists, not_and]
  constructor
  · rintro ⟨θ, h, hn⟩
    refine ⟨⟨θ, h⟩, fun θ' h' => ?_⟩
    rw [h] at h'
    cases h'
    exact hn
  · rintro ⟨⟨θ, h⟩, hn⟩
    exact ⟨θ, h, hn θ h⟩

theorem ev_iUnion (prop : Ω → Option Θ) (A : ℕ → Set Θ) : ev prop (⋃ i, A i) = ⋃ i, ev prop (A i) := by
  ext ω
  simp only [ev, mem_iUnion, mem_ofPred_eq]
  constructor
  · rintro ⟨θ, h, i, hi⟩; exact ⟨i, θ, h, hi⟩
  · rintro ⟨i, θ, h, hi⟩; exact ⟨θ, h, i, hi⟩

theorem ev_mono (prop : Ω → Option Θ) {A B : Set Θ} (h : A ⊆ B) : ev prop A ⊆ ev prop B := by
  rintro ω ⟨θ, h1, h2⟩; exact ⟨θ, h1, h h2⟩

theorem ev_disjoint (prop : Ω → Option Θ) {A B : Set Θ} (h : Disjoint A B) :
    Disjoint (ev prop A) (ev prop B) := by
  rw [Set.disjoint_left]
  rintro ω ⟨θ, h1, h2⟩ ⟨θ', h1', h2'⟩
  rw [h1] at h1'
  cases h1'
  exact Set.disjoint_left.mp h h2 h2'

variable [MeasurableSpace Ω] [mΘ : MeasurableSpace Θ]

/-- **π-λ**: measurability of `ev prop ·` and the law `μ (ev prop A) = c · Λ A` extend from a
    generating π-system (containing `univ`) to all measurable sets -/
theorem ev_law_of_piSystem (μ : Measure Ω) [IsFiniteMeasure μ] (prop : Ω → Option Θ)
    (Λ : Measure Θ) [IsFiniteMeasure Λ] (c : ℝ≥0∞) (C : Set (Set Θ))
    (hgen : mΘ = MeasurableSpace.generateFrom C) (hpi : IsPiSystem C) (huniv : univ ∈ C)
    (hC : ∀ A ∈ C, MeasurableSet (ev prop A) ∧ μ (ev prop A) = c * Λ A) :
    ∀ A, MeasurableSet A → MeasurableSet (ev prop A) ∧ μ (ev prop A) = c * Λ A := by
  have hU := hC univ huniv
  intro A hA
  induction A, hA using MeasurableSpace.induction_on_inter hgen hpi with
  | empty => simp [ev_empty]
  | basic t ht => exact hC t ht
  | compl t htm ih =>
    rw [ev_compl]
    refine ⟨hU.1.diff ih.1, ?_⟩
    rw [measure_sdiff (ev_mono prop (subset_univ t)) ih.1.nullMeasurableSet (measure_ne_top μ _),
      hU.2, ih.2, measure_compl htm (measure_ne_top Λ _)]
    by_cases hc : c = ⊤
    · -- then `μ (ev univ) = ⊤ * Λ univ` is finite, so `Λ univ = 0`
      have h0 : Λ univ = 0 := by
        by_contra hne
        have : μ (ev prop univ) = ⊤ := by rw [hU.2, hc, ENNReal.top_mul hne]
        exact measure_ne_top μ _ this
      have h1 : Λ t = 0 := measure_mono_null (subset_univ t) h0
      simp [h0, h1]
    · rw [ENNReal.mul_sub (fun _ _ => hc)]
  | iUnion f hd hfm ih =>
    rw [ev_iUnion]
    refine ⟨MeasurableSet.iUnion fun i => (ih i).1, ?_⟩
    rw [measure_iUnion (fun i j hij => ev_disjoint prop (hd hij)) (fun i => (ih i).1),
      measure_iUnion hd hfm, ← ENNReal.tsum_mul_left]
    exact tsum_congr fun i => (ih i).2

end Ev

/-! ### the abstract step law -/

section Step
variable {Ω Θ : Type*} [MeasurableSpace Ω] [MeasurableSpace Θ]

/-- total version of the proposal: the value on success, the current state otherwise -/
def getOr (prop : Ω → Option Θ) (ξ : Θ) (ω : Ω) : Θ := (prop ω).getD ξ

omit [MeasurableSpace Ω] [MeasurableSpace Θ] in
theorem getOr_of_some {prop : Ω → Option Θ} {ξ : Θ} {ω : Ω} {θ : Θ} (h : prop ω = some θ) :
    getOr prop ξ ω = θ := by simp [getOr, h]

omit [MeasurableSpace Ω] [MeasurableSpace Θ] in
theorem getOr_preimage (prop : Ω → Option Θ) (ξ : Θ) (A : Set Θ) :
    getOr prop ξ ⁻¹' A = ev prop A ∪ ((ev prop univ)ᶜ ∩ {_ω | ξ ∈ A}) := by
  ext ω
  simp only [mem_preimage, mem_union, mem_inter_iff, mem_compl_iff, mem_ofPred_eq]
  cases h : prop ω with
  | none => simp [getOr, ev, h]
  | some θ => simp [getOr, ev, h]

theorem measurable_getOr (prop : Ω → Option Θ) (ξ : Θ)
    (hm : ∀ A, MeasurableSet A → MeasurableSet (ev prop A)) : Measurable (getOr prop ξ) := by
  intro A hA
  rw [getOr_preimage]
  exact (hm A hA).union ((hm univ MeasurableSet.univ).compl.inter (MeasurableSet.const _))

omit [MeasurableSpace Ω] [MeasurableSpace Θ] in
theorem ev_eq_inter (prop : Ω → Option Θ) (ξ : Θ) (A : Set Θ) :
    ev prop A = ev prop univ ∩ getOr prop ξ ⁻¹' A := by
  ext ω
  simp only [mem_inter_iff, mem_preimage]
  cases h : prop ω with
  | none => simp [ev, h]
  | some θ => simp [getOr, ev, h]

/-- the law of the successful proposals is the push-forward of `μ` restricted to the success set -/
theorem map_getOr_eq (μ : Measure Ω) (prop : Ω → Option Θ) (ξ : Θ) (ρ : Measure Θ)
    (hm : ∀ A, MeasurableSet A → MeasurableSet (ev prop A))
    (hlaw : ∀ A, MeasurableSet A → μ (ev prop A) = ρ A) :
    Measure.map (getOr prop ξ) (μ.restrict (ev prop univ)) = ρ := by
  ext A hA
  rw [Measure.map_apply (measurable_getOr prop ξ hm) hA,
    Measure.restrict_apply (measurable_getOr prop ξ hm hA), inter_comm, ← ev_eq_inter, hlaw A hA]

/-- "the proposal succeeds with a value in `B` and is accepted" -/
def accSet (prop : Ω → Option Θ) (a : Θ → ℝ) (B : Set Θ) : Set (Ω × ℝ) :=
  {p | ∃ θ, prop p.1 = some θ ∧ θ ∈ B ∧ p.2 < a θ}

omit [MeasurableSpace Ω] [MeasurableSpace Θ] in
theorem accSet_eq (prop : Ω → Option Θ) (ξ : Θ) (a : Θ → ℝ) (B : Set Θ) :
    accSet prop a B = (ev prop B ×ˢ univ) ∩ {p : Ω × ℝ | p.2 < a (getOr prop ξ p.1)} := by
  ext ⟨ω, u⟩
  simp only [accSet, mem_ofPred_eq, mem_inter_iff, mem_prod, mem_univ, and_true, ev]
  constructor
  · rintro ⟨θ, h, hB, hu⟩
    exact ⟨⟨θ, h, hB⟩, by rwa [getOr_of_some h]⟩
  · rintro ⟨⟨θ, h, hB⟩, hu⟩
    exact ⟨θ, h, hB, by rwa [getOr_of_some h] at hu⟩

theorem measurableSet_accSet (prop : Ω → Option Θ) (ξ : Θ) {a : Θ → ℝ} (ha : Measurable a)
    (hm : ∀ A, MeasurableSet A → MeasurableSet (ev prop A)) {B : Set Θ} (hB : MeasurableSet B) :
    MeasurableSet (accSet prop a B) := by
  rw [accSet_eq prop ξ]
  refine ((hm B hB).prod MeasurableSet.univ).inter ?_
  exact measurableSet_lt measurable_snd
    (ha.comp ((measurable_getOr prop ξ hm).comp measurable_fst))

/-- **probability of "proposed into `B` and accepted"**: Fubini with the uniform draw -/
theorem accSet_measure (μ : Measure Ω) [SFinite μ] (prop : Ω → Option Θ) (ξ : Θ) {a : Θ → ℝ}
    (ha : Measurable a) (ha1 : ∀ θ, a θ ≤ 1) (ρ : Measure Θ)
    (hm : ∀ A, MeasurableSet A → MeasurableSet (ev prop A))
    (hlaw : ∀ A, MeasurableSet A → μ (ev prop A) = ρ A) {B : Set Θ} (hB : MeasurableSet B) :
    (μ.prod unif) (accSet prop a B) = ∫⁻ θ in B, ENNReal.ofReal (a θ) ∂ρ := by
  have hΦ := measurable_getOr prop ξ hm
  rw [Measure.prod_apply (measurableSet_accSet prop ξ ha hm hB)]
  have hsec : ∀ ω, unif (Prod.mk ω ⁻¹' accSet prop a B) =
      (ev prop B).indicator (fun ω => ENNReal.ofReal (a (getOr prop ξ ω))) ω := by
    intro ω
    by_cases hω : ω ∈ ev prop B
    · rw [indicator_of_mem hω]
      have : Prod.mk ω ⁻¹' accSet prop a B = {u : ℝ | u < a (getOr prop ξ ω)} := by
        ext u
        simp [accSet_eq prop ξ, hω]
      rw [this, unif_lt (ha1 _)]
    · rw [indicator_of_notMem hω]
      have : Prod.mk ω ⁻¹' accSet prop a B = ∅ := by
        ext u
        simp [accSet_eq prop ξ, hω]
      rw [this, measure_empty]
  simp_rw [hsec]
  rw [lintegral_indicator (hm B hB), ev_eq_inter prop ξ B, inter_comm,
    ← Measure.restrict_restrict (hΦ hB),
    ← map_getOr_eq μ prop ξ ρ hm hlaw]
  rw [Measure.restrict_map hΦ hB, lintegral_map ha.ennreal_ofReal hΦ]

/-- **The abstract step law.**  `prop` is a partial proposal on the probability space `(Ω, μ)` whose
    successful values have the (sub-probability) law `ρ`; `u` is an independent uniform draw on
    `[0,1)`; the step moves to the proposal `θ` iff `u < a θ` and stays at `ξ` otherwise (also when
    the proposal fails).  Then the next state is in `B` with probability
    `∫_B a dρ + (1 − ∫ a dρ) · 1_B(ξ)`. -/
theorem step_law (μ : Measure Ω) [IsProbabilityMeasure μ] (prop : Ω → Option Θ) (ξ : Θ) {a : Θ → ℝ}
    (ha : Measurable a) (ha1 : ∀ θ, a θ ≤ 1) (ρ : Measure Θ)
    (hm : ∀ A, MeasurableSet A → MeasurableSet (ev prop A))
    (hlaw : ∀ A, MeasurableSet A → μ (ev prop A) = ρ A)
    (nxt : Ω → ℝ → Θ)
    (hsome : ∀ ω θ, prop ω = some θ → ∀ u, nxt ω u = if u < a θ then θ else ξ)
    (hnone : ∀ ω, prop ω = none → ∀ u, nxt ω u = ξ)
    {B : Set Θ} (hB : MeasurableSet B) :
    (μ.prod unif) {p : Ω × ℝ | nxt p.1 p.2 ∈ B} =
      ∫⁻ θ in B, ENNReal.ofReal (a θ) ∂ρ +
        (1 - ∫⁻ θ, ENNReal.ofReal (a θ) ∂ρ) * B.indicator 1 ξ := by
  have hset : {p : Ω × ℝ | nxt p.1 p.2 ∈ B} =
      accSet prop a B ∪ ((accSet prop a univ)ᶜ ∩ {_p | ξ ∈ B}) := by
    ext ⟨ω, u⟩
    simp only [mem_ofPred_eq, mem_union, mem_inter_iff, mem_compl_iff, accSet, mem_univ, true_and]
    cases h : prop ω with
    | none => simp [hnone ω h u]
    | some θ =>
      rw [hsome ω θ h u]
      by_cases hu : u < a θ
      · simp [hu]
      · simp [hu]
  have hAB := measurableSet_accSet prop ξ ha hm hB
  have hAU := measurableSet_accSet prop ξ ha hm MeasurableSet.univ
  have hdisj : Disjoint (accSet prop a B) ((accSet prop a univ)ᶜ ∩ {_p | ξ ∈ B}) := by
    rw [Set.disjoint_left]
    rintro p ⟨θ, h, hB', hu⟩ ⟨hn, _⟩
    exact hn ⟨θ, h, mem_univ _, hu⟩
  rw [hset, measure_union hdisj (hAU.compl.inter (MeasurableSet.const _)),
    accSet_measure μ prop ξ ha ha1 ρ hm hlaw hB]
  congr 1
  by_cases hξ : ξ ∈ B
  · have : {_p : Ω × ℝ | ξ ∈ B} = univ := by ext; simp [hξ]
    rw [this, inter_univ, prob_compl_eq_one_sub hAU,
      accSet_measure μ prop ξ ha ha1 ρ hm hlaw MeasurableSet.univ, Measure.restrict_univ,
      indicator_of_mem hξ]
    simp
  · have : {_p : Ω × ℝ | ξ ∈ B} = ∅ := by ext; simp [hξ]
    rw [this, inter_empty, measure_empty, indicator_of_notMem hξ, mul_zero]

end Step

/-! ### five-fold boxes generate the σ-algebra of `ℝ⁵` -/

open Stationary in
/-- measurable boxes `Bγ × Bδ × Bκ × Bh × Bσ` -/
def boxes5 : Set (Set Coord) :=
  image2 (· ×ˢ ·) {s : Set ℝ | MeasurableSet s} (image2 (· ×ˢ ·) {s : Set ℝ | MeasurableSet s}
    (image2 (· ×ˢ ·) {s : Set ℝ | MeasurableSet s}
      (image2 (· ×ˢ ·) {s : Set ℝ | MeasurableSet s} {s : Set ℝ | MeasurableSet s})))

open Stationary in
theorem mem_boxes5 {A : Set Coord} (h : A ∈ boxes5) :
    ∃ B1 B2 B3 B4 B5 : Set ℝ, MeasurableSet B1 ∧ MeasurableSet B2 ∧ MeasurableSet B3 ∧
      MeasurableSet B4 ∧ MeasurableSet B5 ∧ A = B1 ×ˢ (B2 ×ˢ (B3 ×ˢ (B4 ×ˢ B5))) := by
  obtain ⟨B1, h1, R1, hR1, rfl⟩ := h
  obtain ⟨B2, h2, R2, hR2, rfl⟩ := hR1
  obtain ⟨B3, h3, R3, hR3, rfl⟩ := hR2
  obtain ⟨B4, h4, B5, h5, rfl⟩ := hR3
  exact ⟨B1, B2, B3, B4, B5, by simpa using h1, by simpa using h2, by simpa using h3,
    by simpa using h4, by simpa using h5, rfl⟩

open Stationary in
theorem univ_mem_boxes5 : (univ : Set Coord) ∈ boxes5 := by
  have hu : (univ : Set ℝ) ∈ {s : Set ℝ | MeasurableSet s} := by simp
  refine ⟨univ, hu, univ, ⟨univ, hu, univ, ⟨univ, hu, univ, ⟨univ, hu, univ, hu, ?_⟩, ?_⟩, ?_⟩, ?_⟩ <;>
    simp

open Stationary in
theorem isPiSystem_boxes5 : IsPiSystem boxes5 :=
  IsPiSystem.prod MeasurableSpace.isPiSystem_measurableSet (IsPiSystem.prod MeasurableSpace.isPiSystem_measurableSet
    (IsPiSystem.prod MeasurableSpace.isPiSystem_measurableSet
      (IsPiSystem.prod MeasurableSpace.isPiSystem_measurableSet MeasurableSpace.isPiSystem_measurableSet)))

open Stationary in
theorem generateFrom_boxes5 :
    (inferInstance : MeasurableSpace Coord) = MeasurableSpace.generateFrom boxes5 := by
  have cs := @isCountablySpanning_measurableSet ℝ _
  have g := @MeasurableSpace.generateFrom_measurableSet ℝ _
  have g2 := generateFrom_eq_prod g g cs cs
  have c2 := cs.prod cs
  have g3 := generateFrom_eq_prod g g2 cs c2
  have c3 := cs.prod c2
  have g4 := generateFrom_eq_prod g g3 cs c3
  have c4 := cs.prod c3
  exact (generateFrom_eq_prod g g4 cs c4).symm


/-! ### measurability of the stream events -/

section Streams
open Proposal

theorem measurableSet_restSet_true (n : ℕ) : MeasurableSet (restSet (fun _ => True) n) := by
  rw [restSet_true]; exact MeasurableSet.univ

theorem measurable_tail (n : ℕ) : Measurable fun (ω : Fin (n + 1) → ℝ) (i : Fin n) => ω i.succ :=
  measurable_pi_lambda _ fun i => measurable_pi_apply i.succ

theorem measurableSet_restSet_loopG {ok : ℝ → Bool} {m s : ℝ} (hS : MeasurableSet (okSet ok m s))
    {B : Set ℝ} (hB : MeasurableSet B) {G : List ℝ → Prop}
    (hG : ∀ n, MeasurableSet (restSet G n)) :
    ∀ n, MeasurableSet (restSet (loopG ok m s B G) n)
  | 0 => by rw [restSet_loopG_zero]; exact MeasurableSet.empty
  | n + 1 => by
    have ih := measurableSet_restSet_loopG hS hB hG n
    have e : restSet (loopG ok m s B G) (n + 1) =
        ((fun ω : Fin (n + 1) → ℝ => ω 0) ⁻¹' (okSet ok m s ∩ (fun z => m + s * z) ⁻¹' B) ∩
          (fun (ω : Fin (n + 1) → ℝ) (i : Fin n) => ω i.succ) ⁻¹' restSet G n) ∪
        ((fun ω : Fin (n + 1) → ℝ => ω 0) ⁻¹' (okSet ok m s)ᶜ ∩
          (fun (ω : Fin (n + 1) → ℝ) (i : Fin n) => ω i.succ) ⁻¹' restSet (loopG ok m s B G) n) := by
      ext ω
      rw [mem_restSet_loopG_succ]
      simp only [mem_union, mem_inter_iff, mem_preimage, mem_compl_iff]
      tauto
    rw [e]
    have hcand : Measurable fun z : ℝ => m + s * z := by fun_prop
    exact (((hS.inter (hB.preimage hcand)).preimage (measurable_pi_apply 0)).inter
      ((hG n).preimage (measurable_tail n))).union
      ((hS.compl.preimage (measurable_pi_apply 0)).inter (ih.preimage (measurable_tail n)))

theorem measurableSet_restSet_drawG {f : ℝ → ℝ} (hf : Measurable f) {B : Set ℝ}
    (hB : MeasurableSet B) {G : List ℝ → Prop} (hG : ∀ n, MeasurableSet (restSet G n)) :
    ∀ n, MeasurableSet (restSet (drawG f B G) n)
  | 0 => by rw [restSet_drawG_zero]; exact MeasurableSet.empty
  | n + 1 => by
    have e : restSet (drawG f B G) (n + 1) =
        (fun ω : Fin (n + 1) → ℝ => ω 0) ⁻¹' (f ⁻¹' B) ∩
          (fun (ω : Fin (n + 1) → ℝ) (i : Fin n) => ω i.succ) ⁻¹' restSet G n := by
      ext ω
      rw [mem_restSet_drawG_succ]
      simp only [mem_inter_iff, mem_preimage]
    rw [e]
    exact ((hB.preimage hf).preimage (measurable_pi_apply 0)).inter
      ((hG n).preimage (measurable_tail n))

/-! ### algebra of `conv` and `shiftSeq` -/

theorem conv_fac (q P r t : ℝ≥0∞) {a b : ℕ → ℝ≥0∞} (h : ∀ k, a k = t * b k) (n : ℕ) :
    conv q (P * r) a n = (r * t) * conv q P b n := by
  unfold conv
  rw [Finset.mul_sum]
  refine Finset.sum_congr rfl (fun k _ => ?_)
  rw [h]
  ring

theorem shiftSeq_fac (c t : ℝ≥0∞) {a b : ℕ → ℝ≥0∞} (h : ∀ k, a k = t * b k) (n : ℕ) :
    shiftSeq c a n = (c * t) * shiftSeq 1 b n := by
  cases n with
  | zero => simp [shiftSeq]
  | succ n => simp only [shiftSeq, h, one_mul]; ring

open Filter Topology in
/-- a redraw loop with the full range as target eventually succeeds -/
theorem conv_full_tendsto (ν : Measure ℝ) [IsProbabilityMeasure ν] {S : Set ℝ}
    (hS : MeasurableSet S) (h0 : ν S ≠ 0) {a : ℕ → ℝ≥0∞} (ha : Monotone a)
    (hL : Tendsto a atTop (𝓝 1)) : Tendsto (conv (ν Sᶜ) (ν S) a) atTop (𝓝 1) := by
  have h := conv_tendsto (ν Sᶜ) (ν S) ha hL
  rwa [tsum_compl_pow ν hS, mul_one, ENNReal.inv_mul_cancel h0 (measure_ne_top ν S)] at h

open Filter Topology in
theorem shiftSeq_one_tendsto {a : ℕ → ℝ≥0∞} (hL : Tendsto a atTop (𝓝 1)) :
    Tendsto (shiftSeq 1 a) atTop (𝓝 1) := by
  have h := shiftSeq_tendsto (c := 1) ENNReal.one_ne_top hL
  rwa [one_mul] at h

end Streams

/-! ### one-dimensional laws of the stages (standard-normal draws) -/

section Laws
open Proposal Acceptance Stationary ProbabilityTheory Real

/-- the truncated-normal law on `[lo, hi]` about `m` with width `s` -/
noncomputable def truncLaw (m s lo hi : ℝ) : Measure ℝ :=
  (volume.restrict (Set.Icc lo hi)).withDensity fun x => ENNReal.ofReal (truncTerm x m s lo hi)

instance (m s lo hi : ℝ) : SFinite (truncLaw m s lo hi) := by
  unfold truncLaw; infer_instance

theorem measurable_truncTerm_fst (m s lo hi : ℝ) :
    Measurable fun x : ℝ => ENNReal.ofReal (truncTerm x m s lo hi) :=
  (truncTerm_continuous m s lo hi).measurable.ennreal_ofReal

theorem truncLaw_apply (m s lo hi : ℝ) {B : Set ℝ} (hB : MeasurableSet B) :
    truncLaw m s lo hi B =
      ∫⁻ x in B, ENNReal.ofReal (truncTerm x m s lo hi) ∂(volume.restrict (Set.Icc lo hi)) :=
  withDensity_apply _ hB

theorem truncLaw_prob (m : ℝ) {s lo hi : ℝ} (hs : 0 < s) (hlh : lo < hi) :
    IsProbabilityMeasure (truncLaw m s lo hi) :=
  ⟨by rw [truncLaw_apply _ _ _ _ MeasurableSet.univ, Measure.restrict_univ,
    lintegral_truncTerm m hs hlh]⟩

theorem okSet_eq_preimage (ok : ℝ → Bool) (m s lo hi : ℝ)
    (hok : ∀ x, ok x = true ↔ lo ≤ x ∧ x ≤ hi) :
    okSet ok m s = (fun z => m + s * z) ⁻¹' Set.Icc lo hi := by
  ext z; simp [okSet, hok, Set.mem_Icc]

theorem gaussian_okSet_ne_zero (ok : ℝ → Bool) (m : ℝ) {s lo hi : ℝ} (hs : 0 < s) (hlh : lo < hi)
    (hok : ∀ x, ok x = true ↔ lo ≤ x ∧ x ≤ hi) : gaussianReal 0 1 (okSet ok m s) ≠ 0 := by
  have hcand : Measurable fun z : ℝ => m + s * z := by fun_prop
  rw [okSet_eq_preimage ok m s lo hi hok, ← Measure.map_apply hcand measurableSet_Icc,
    gaussian_map_cand, gaussianReal_Icc m hs hlh.le]
  exact (ENNReal.ofReal_pos.mpr (sub_pos.mpr (gaussCdf_lt m hs hlh))).ne'

/-- the (unnormalised) law of one pass of a redraw loop: in-range mass times the truncated-normal
    law -/
theorem gaussian_loop_eq (ok : ℝ → Bool) (m : ℝ) {s lo hi : ℝ} (hs : 0 < s) (hlh : lo < hi)
    (hok : ∀ x, ok x = true ↔ lo ≤ x ∧ x ≤ hi) {B : Set ℝ} (hB : MeasurableSet B) :
    gaussianReal 0 1 (okSet ok m s ∩ (fun z => m + s * z) ⁻¹' B) =
      gaussianReal 0 1 (okSet ok m s) * truncLaw m s lo hi B := by
  have e : okSet ok m s ∩ (fun z => m + s * z) ⁻¹' B =
      okSet ok m s ∩ (fun z => m + s * z) ⁻¹' (B ∩ Set.Icc lo hi) := by
    rw [okSet_eq_preimage ok m s lo hi hok]
    ext z
    simp only [mem_inter_iff, mem_preimage]
    tauto
  have hr := gaussian_ratio_eq_truncTerm ok m hs hlh hok (hB.inter measurableSet_Icc)
    (Set.inter_subset_right (s := B))
  have hint : Integrable (fun x => truncTerm x m s lo hi) (volume.restrict (B ∩ Set.Icc lo hi)) :=
    ((truncTerm_continuous m s lo hi).continuousOn.integrableOn_compact isCompact_Icc).mono_set
      Set.inter_subset_right
  have hl : truncLaw m s lo hi B = ENNReal.ofReal (∫ x in B ∩ Set.Icc lo hi, truncTerm x m s lo hi) := by
    rw [truncLaw_apply _ _ _ _ hB, Measure.restrict_restrict hB,
      ofReal_integral_eq_lintegral_ofReal hint
        (Filter.Eventually.of_forall fun x => (truncTerm_pos' x m hs hlh).le)]
  rw [e, hl, ← hr, ← e,
    ENNReal.mul_div_cancel (gaussian_okSet_ne_zero ok m hs hlh hok) (measure_ne_top _ _)]

/-- the strike draw -/
noncomputable def strikeFn (w : Widths ℝ) (ξ : Tape ℝ) : ℝ → ℝ :=
  fun z => Convert.mod2pi (ξ.kappa + w.kappa * z)

theorem measurable_strikeFn (w : Widths ℝ) (ξ : Tape ℝ) : Measurable (strikeFn w ξ) := by
  unfold strikeFn
  simp only [mod2pi_eq]
  have h1 : Measurable fun z : ℝ => ξ.kappa + w.kappa * z := by fun_prop
  have h2 : Measurable fun z : ℝ => ((⌊(ξ.kappa + w.kappa * z) / (2 * π)⌋ : ℤ) : ℝ) :=
    (measurable_from_top (f := fun k : ℤ => (k : ℝ))).comp (h1.div_const _).floor
  exact h1.sub (h2.mul_const _)

/-- the law of the strike draw (a wrapped normal about the current strike) -/
noncomputable def strikeLaw (w : Widths ℝ) (ξ : Tape ℝ) : Measure ℝ :=
  (gaussianReal 0 1).map (strikeFn w ξ)

instance (w : Widths ℝ) (ξ : Tape ℝ) : IsProbabilityMeasure (strikeLaw w ξ) :=
  Measure.isProbabilityMeasure_map (measurable_strikeFn w ξ).aemeasurable


/-- the law of a lune coordinate of the proposal: truncated normal for the full moment tensor,
    the point mass at 0 for a double-couple-constrained chain -/
noncomputable def luneLaw (dc : Bool) (s r m : ℝ) : Measure ℝ :=
  (luneMeasure dc r).withDensity fun x => ENNReal.ofReal (luneFactor dc s r m x)

instance (dc : Bool) (s r m : ℝ) : SFinite (luneLaw dc s r m) := by
  unfold luneLaw; infer_instance

theorem luneLaw_false (s r m : ℝ) : luneLaw false s r m = truncLaw m s (-r) r := by
  simp [luneLaw, luneMeasure, luneFactor, truncLaw]

theorem luneLaw_true (s r m : ℝ) : luneLaw true s r m = Measure.dirac 0 := by
  simp [luneLaw, luneMeasure, luneFactor]

theorem luneLaw_prob (dc : Bool) {s r : ℝ} (hs : 0 < s) (hr : 0 < r) (m : ℝ) :
    IsProbabilityMeasure (luneLaw dc s r m) := by
  cases dc
  · rw [luneLaw_false]; exact truncLaw_prob m hs (by linarith)
  · rw [luneLaw_true]; infer_instance

/-- coordinates of a state -/
def coordOf (x : Tape ℝ) : Coord := (x.gamma, x.delta, x.kappa, x.h, x.sigma)

@[simp] theorem toTape_coordOf (x : Tape ℝ) : toTape (coordOf x) = x := rfl
@[simp] theorem coordOf_toTape (p : Coord) : coordOf (toTape p) = p := rfl

/-- the proposal of `shiftSample` on a stream of `n` draws, in coordinates (`none`: the stream was
    exhausted) -/
noncomputable def propOpt (dc : Bool) (w : Widths ℝ) (ξ : Tape ℝ) (n : ℕ) (ω : Fin n → ℝ) :
    Option Coord :=
  (shiftSample dc w ξ (List.ofFn ω)).map fun p => coordOf p.1

theorem propOpt_eq_some {dc : Bool} {w : Widths ℝ} {ξ : Tape ℝ} {n : ℕ} {ω : Fin n → ℝ} {θ : Coord} :
    propOpt dc w ξ n ω = some θ ↔
      ∃ x rest, shiftSample dc w ξ (List.ofFn ω) = some (x, rest) ∧ coordOf x = θ := by
  simp [propOpt, Option.map_eq_some_iff]

theorem ev_propOpt_box (dc : Bool) (w : Widths ℝ) (ξ : Tape ℝ) (n : ℕ) (B1 B2 B3 B4 B5 : Set ℝ) :
    ev (propOpt dc w ξ n) (B1 ×ˢ (B2 ×ˢ (B3 ×ˢ (B4 ×ˢ B5)))) =
      {ω | ∃ x rest, shiftSample dc w ξ (List.ofFn ω) = some (x, rest) ∧
        x.gamma ∈ B1 ∧ x.delta ∈ B2 ∧ x.kappa ∈ B3 ∧ x.h ∈ B4 ∧ x.sigma ∈ B5} := by
  ext ω
  simp only [ev, mem_ofPred_eq, propOpt_eq_some]
  constructor
  · rintro ⟨θ, ⟨x, rest, h, rfl⟩, hB⟩
    exact ⟨x, rest, h, by simpa [coordOf, mem_prod] using hB⟩
  · rintro ⟨x, rest, h, hB⟩
    exact ⟨coordOf x, ⟨x, rest, h, rfl⟩, by simpa [coordOf, mem_prod] using hB⟩

/-- the law of a proposal (in the limit of a long stream): the product of the truncated-normal
    laws of the lune coordinates, `h`, `σ` and of the wrapped-normal law of the strike -/
noncomputable def propLaw (dc : Bool) (w : Widths ℝ) (ξ : Tape ℝ) : Measure Coord :=
  (luneLaw dc w.gamma (π / 6) ξ.gamma).prod ((luneLaw dc w.delta (π / 2) ξ.delta).prod
    ((strikeLaw w ξ).prod ((truncLaw ξ.h w.h 0 1).prod
      (truncLaw ξ.sigma w.sigma (-(π / 2)) (π / 2)))))

theorem propLaw_prob (dc : Bool) (w : Widths ℝ) (ξ : Tape ℝ)
    (hw : 0 < w.gamma ∧ 0 < w.delta ∧ 0 < w.h ∧ 0 < w.sigma) :
    IsProbabilityMeasure (propLaw dc w ξ) := by
  have hπ := Real.pi_pos
  have := luneLaw_prob dc hw.1 (by positivity : 0 < π / 6) ξ.gamma
  have := luneLaw_prob dc hw.2.1 (by positivity : 0 < π / 2) ξ.delta
  have := truncLaw_prob ξ.h hw.2.2.1 (zero_lt_one' ℝ)
  have := truncLaw_prob ξ.sigma hw.2.2.2 (by linarith : -(π / 2) < π / 2)
  unfold propLaw
  infer_instance

theorem propLaw_box (dc : Bool) (w : Widths ℝ) (ξ : Tape ℝ) (B1 B2 B3 B4 B5 : Set ℝ) :
    propLaw dc w ξ (B1 ×ˢ (B2 ×ˢ (B3 ×ˢ (B4 ×ˢ B5)))) =
      luneLaw dc w.gamma (π / 6) ξ.gamma B1 * (luneLaw dc w.delta (π / 2) ξ.delta B2 *
        (strikeLaw w ξ B3 * (truncLaw ξ.h w.h 0 1 B4 *
          truncLaw ξ.sigma w.sigma (-(π / 2)) (π / 2) B5))) := by
  simp only [propLaw, Measure.prod_prod]


/-! ### the finite-stream law of the proposal on boxes -/

/-- probability that the `h` and `σ` loops (after the strike draw) both succeed within `n` draws -/
noncomputable def cTrue (w : Widths ℝ) (ξ : Tape ℝ) : ℕ → ℝ≥0∞ :=
  shiftSeq 1
    (conv (gaussianReal 0 1 (okSet inUnit ξ.h w.h)ᶜ) (gaussianReal 0 1 (okSet inUnit ξ.h w.h))
      (conv (gaussianReal 0 1 (okSet (absLe (π / 2)) ξ.sigma w.sigma)ᶜ)
        (gaussianReal 0 1 (okSet (absLe (π / 2)) ξ.sigma w.sigma)) (fun _ => 1)))

/-- probability that all four loops and the strike draw succeed within `n` draws -/
noncomputable def cFalse (w : Widths ℝ) (ξ : Tape ℝ) : ℕ → ℝ≥0∞ :=
  conv (gaussianReal 0 1 (okSet (absLe (π / 6)) ξ.gamma w.gamma)ᶜ)
    (gaussianReal 0 1 (okSet (absLe (π / 6)) ξ.gamma w.gamma))
    (conv (gaussianReal 0 1 (okSet (absLe (π / 2)) ξ.delta w.delta)ᶜ)
      (gaussianReal 0 1 (okSet (absLe (π / 2)) ξ.delta w.delta)) (cTrue w ξ))

/-- probability that the proposal is made within `n` draws -/
noncomputable def cSeq (dc : Bool) (w : Widths ℝ) (ξ : Tape ℝ) : ℕ → ℝ≥0∞ :=
  if dc then cTrue w ξ else cFalse w ξ

theorem absLe_iff_Icc' (b x : ℝ) : absLe b x = true ↔ -b ≤ x ∧ x ≤ b := by
  rw [absLe_iff, abs_le]

open Filter Topology in
theorem cTrue_mono_tendsto (w : Widths ℝ) (ξ : Tape ℝ) (hwh : 0 < w.h) (hwσ : 0 < w.sigma) :
    Monotone (cTrue w ξ) ∧ Tendsto (cTrue w ξ) atTop (𝓝 1) := by
  have hp2 : -(π / 2) < π / 2 := by linarith [Real.pi_pos]
  have hSh := okSet_measurable' inUnit ξ.h w.h 0 1 inUnit_iff
  have hSσ := okSet_measurable' (absLe (π / 2)) ξ.sigma w.sigma _ _ (absLe_iff_Icc' _)
  have m1 : Monotone (conv (gaussianReal 0 1 (okSet (absLe (π / 2)) ξ.sigma w.sigma)ᶜ)
      (gaussianReal 0 1 (okSet (absLe (π / 2)) ξ.sigma w.sigma)) (fun _ => 1)) :=
    conv_mono _ _ monotone_const
  have t1 := conv_full_tendsto (gaussianReal 0 1) hSσ
    (gaussian_okSet_ne_zero _ ξ.sigma hwσ hp2 (absLe_iff_Icc' _)) monotone_const tendsto_const_nhds
  have m2 := conv_mono (gaussianReal 0 1 (okSet inUnit ξ.h w.h)ᶜ)
    (gaussianReal 0 1 (okSet inUnit ξ.h w.h)) m1
  have t2 := conv_full_tendsto (gaussianReal 0 1) hSh
    (gaussian_okSet_ne_zero _ ξ.h hwh one_pos inUnit_iff) m1 t1
  exact ⟨shiftSeq_mono 1 m2, shiftSeq_one_tendsto t2⟩

open Filter Topology in
theorem cFalse_tendsto (w : Widths ℝ) (ξ : Tape ℝ)
    (hw : 0 < w.gamma ∧ 0 < w.delta ∧ 0 < w.h ∧ 0 < w.sigma) :
    Tendsto (cFalse w ξ) atTop (𝓝 1) := by
  have hp6 : -(π / 6) < π / 6 := by linarith [Real.pi_pos]
  have hp2 : -(π / 2) < π / 2 := by linarith [Real.pi_pos]
  obtain ⟨m0, t0⟩ := cTrue_mono_tendsto w ξ hw.2.2.1 hw.2.2.2
  have hSγ := okSet_measurable' (absLe (π / 6)) ξ.gamma w.gamma _ _ (absLe_iff_Icc' _)
  have hSδ := okSet_measurable' (absLe (π / 2)) ξ.delta w.delta _ _ (absLe_iff_Icc' _)
  have m1 := conv_mono (gaussianReal 0 1 (okSet (absLe (π / 2)) ξ.delta w.delta)ᶜ)
    (gaussianReal 0 1 (okSet (absLe (π / 2)) ξ.delta w.delta)) m0
  have t1 := conv_full_tendsto (gaussianReal 0 1) hSδ
    (gaussian_okSet_ne_zero _ ξ.delta hw.2.1 hp2 (absLe_iff_Icc' _)) m0 t0
  exact conv_full_tendsto (gaussianReal 0 1) hSγ
    (gaussian_okSet_ne_zero _ ξ.gamma hw.1 hp6 (absLe_iff_Icc' _)) m1 t1

open Filter Topology in
theorem cSeq_tendsto (dc : Bool) (w : Widths ℝ) (ξ : Tape ℝ)
    (hw : 0 < w.gamma ∧ 0 < w.delta ∧ 0 < w.h ∧ 0 < w.sigma) :
    Tendsto (cSeq dc w ξ) atTop (𝓝 1) := by
  cases dc
  · exact cFalse_tendsto w ξ hw
  · exact (cTrue_mono_tendsto w ξ hw.2.2.1 hw.2.2.2).2

/-- the stream predicate of the strike, `h`, `σ` stages -/
def gTrue (w : Widths ℝ) (ξ : Tape ℝ) (B3 B4 B5 : Set ℝ) : List ℝ → Prop :=
  drawG (strikeFn w ξ) B3
    (loopG inUnit ξ.h w.h B4 (loopG (absLe (π / 2)) ξ.sigma w.sigma B5 (fun _ => True)))

/-- the stream predicate of all five stages -/
def gFalse (w : Widths ℝ) (ξ : Tape ℝ) (B1 B2 B3 B4 B5 : Set ℝ) : List ℝ → Prop :=
  loopG (absLe (π / 6)) ξ.gamma w.gamma B1
    (loopG (absLe (π / 2)) ξ.delta w.delta B2 (gTrue w ξ B3 B4 B5))

theorem gTrue_law (w : Widths ℝ) (ξ : Tape ℝ) (hwh : 0 < w.h) (hwσ : 0 < w.sigma)
    {B3 B4 B5 : Set ℝ} (hB3 : MeasurableSet B3) (hB4 : MeasurableSet B4) (hB5 : MeasurableSet B5)
    (n : ℕ) :
    MeasurableSet (restSet (gTrue w ξ B3 B4 B5) n) ∧
      Measure.pi (fun _ : Fin n => gaussianReal 0 1) (restSet (gTrue w ξ B3 B4 B5) n) =
        (strikeLaw w ξ B3 * (truncLaw ξ.h w.h 0 1 B4 *
          (truncLaw ξ.sigma w.sigma (-(π / 2)) (π / 2) B5 * 1))) * cTrue w ξ n := by
  have hp2 : -(π / 2) < π / 2 := by linarith [Real.pi_pos]
  have hSh := okSet_measurable' inUnit ξ.h w.h 0 1 inUnit_iff
  have hSσ := okSet_measurable' (absLe (π / 2)) ξ.sigma w.sigma _ _ (absLe_iff_Icc' _)
  refine ⟨measurableSet_restSet_drawG (measurable_strikeFn w ξ) hB3
    (measurableSet_restSet_loopG hSh hB4
      (measurableSet_restSet_loopG hSσ hB5 measurableSet_restSet_true)) n, ?_⟩
  have st := (((stageLaw_true (gaussianReal 0 1)).loop _ _ _ hSσ B5).loop _ _ _ hSh B4).draw
    (strikeFn w ξ) B3
  have h1 := st.1 n
  rw [gaussian_loop_eq _ ξ.h hwh one_pos inUnit_iff hB4,
    gaussian_loop_eq _ ξ.sigma hwσ hp2 (absLe_iff_Icc' _) hB5] at h1
  rw [gTrue, h1, strikeLaw, Measure.map_apply (measurable_strikeFn w ξ) hB3]
  exact shiftSeq_fac _ _ (fun k => conv_fac _ _ _ _
    (fun k => conv_fac _ _ _ 1 (fun _ => (one_mul (1 : ℝ≥0∞)).symm) k) k) n

theorem gFalse_law (w : Widths ℝ) (ξ : Tape ℝ)
    (hw : 0 < w.gamma ∧ 0 < w.delta ∧ 0 < w.h ∧ 0 < w.sigma)
    {B1 B2 B3 B4 B5 : Set ℝ} (hB1 : MeasurableSet B1) (hB2 : MeasurableSet B2)
    (hB3 : MeasurableSet B3) (hB4 : MeasurableSet B4) (hB5 : MeasurableSet B5) (n : ℕ) :
    MeasurableSet (restSet (gFalse w ξ B1 B2 B3 B4 B5) n) ∧
      Measure.pi (fun _ : Fin n => gaussianReal 0 1) (restSet (gFalse w ξ B1 B2 B3 B4 B5) n) =
        (truncLaw ξ.gamma w.gamma (-(π / 6)) (π / 6) B1 *
          (truncLaw ξ.delta w.delta (-(π / 2)) (π / 2) B2 *
            (strikeLaw w ξ B3 * (truncLaw ξ.h w.h 0 1 B4 *
              (truncLaw ξ.sigma w.sigma (-(π / 2)) (π / 2) B5 * 1))))) * cFalse w ξ n := by
  have hp6 : -(π / 6) < π / 6 := by linarith [Real.pi_pos]
  have hp2 : -(π / 2) < π / 2 := by linarith [Real.pi_pos]
  have hSγ := okSet_measurable' (absLe (π / 6)) ξ.gamma w.gamma _ _ (absLe_iff_Icc' _)
  have hSδ := okSet_measurable' (absLe (π / 2)) ξ.delta w.delta _ _ (absLe_iff_Icc' _)
  have hT := gTrue_law w ξ hw.2.2.1 hw.2.2.2 hB3 hB4 hB5
  refine ⟨measurableSet_restSet_loopG hSγ hB1
    (measurableSet_restSet_loopG hSδ hB2 (fun k => (hT k).1)) n, ?_⟩
  rw [gFalse, restSet_loopG_measure _ _ _ _ hSγ,
    gaussian_loop_eq _ ξ.gamma hw.1 hp6 (absLe_iff_Icc' _) hB1]
  refine conv_fac _ _ _ _ (fun k => ?_) n
  rw [restSet_loopG_measure _ _ _ _ hSδ,
    gaussian_loop_eq _ ξ.delta hw.2.1 hp2 (absLe_iff_Icc' _) hB2]
  exact conv_fac _ _ _ _ (fun j => (hT j).2) k


theorem shiftSample_true_lune {w : Widths ℝ} {ξ : Tape ℝ} {zs : List ℝ} {x : Tape ℝ} {rest : List ℝ}
    (h : shiftSample true w ξ zs = some (x, rest)) : x.gamma = 0 ∧ x.delta = 0 := by
  obtain ⟨g, z1, d, z2, z, z3, hh, z4, s, h1, h2, -, -, -, rfl⟩ :=
    shiftSample_some true w ξ zs x rest h
  exact ⟨typeDraw_dc _ _ _ _ _ _ h1, typeDraw_dc _ _ _ _ _ _ h2⟩

/-- **finite-stream law of the proposal on measurable boxes**: the probability that the proposal is
    made within `n` draws times the product law -/
theorem box_law (dc : Bool) (w : Widths ℝ) (ξ : Tape ℝ)
    (hw : 0 < w.gamma ∧ 0 < w.delta ∧ 0 < w.h ∧ 0 < w.sigma)
    {B1 B2 B3 B4 B5 : Set ℝ} (hB1 : MeasurableSet B1) (hB2 : MeasurableSet B2)
    (hB3 : MeasurableSet B3) (hB4 : MeasurableSet B4) (hB5 : MeasurableSet B5) (n : ℕ) :
    MeasurableSet (ev (propOpt dc w ξ n) (B1 ×ˢ (B2 ×ˢ (B3 ×ˢ (B4 ×ˢ B5))))) ∧
      Measure.pi (fun _ : Fin n => gaussianReal 0 1)
          (ev (propOpt dc w ξ n) (B1 ×ˢ (B2 ×ˢ (B3 ×ˢ (B4 ×ˢ B5))))) =
        cSeq dc w ξ n * propLaw dc w ξ (B1 ×ˢ (B2 ×ˢ (B3 ×ˢ (B4 ×ˢ B5)))) := by
  cases dc
  · have hev : ev (propOpt false w ξ n) (B1 ×ˢ (B2 ×ˢ (B3 ×ˢ (B4 ×ˢ B5)))) =
        restSet (gFalse w ξ B1 B2 B3 B4 B5) n := by
      rw [ev_propOpt_box]
      ext ω
      exact shiftSample_false_iff w ξ B1 B2 B3 B4 B5 (List.ofFn ω)
    have h := gFalse_law w ξ hw hB1 hB2 hB3 hB4 hB5 n
    rw [hev, propLaw_box, luneLaw_false, luneLaw_false]
    refine ⟨h.1, ?_⟩
    rw [h.2]
    simp only [cSeq, Bool.false_eq_true, if_false]
    ring
  · by_cases h0 : (0:ℝ) ∈ B1 ∧ (0:ℝ) ∈ B2
    · have hev : ev (propOpt true w ξ n) (B1 ×ˢ (B2 ×ˢ (B3 ×ˢ (B4 ×ˢ B5)))) =
          restSet (gTrue w ξ B3 B4 B5) n := by
        rw [ev_propOpt_box]
        ext ω
        refine Iff.trans ?_ (shiftSample_true_iff w ξ B3 B4 B5 (List.ofFn ω))
        constructor
        · rintro ⟨x, rest, h, -, -, hk, hh, hs⟩
          exact ⟨x, rest, h, (shiftSample_true_lune h).1, (shiftSample_true_lune h).2, hk, hh, hs⟩
        · rintro ⟨x, rest, h, hg, hd, hk, hh, hs⟩
          exact ⟨x, rest, h, by rw [hg]; exact h0.1, by rw [hd]; exact h0.2, hk, hh, hs⟩
      have h := gTrue_law w ξ hw.2.2.1 hw.2.2.2 hB3 hB4 hB5 n
      rw [hev, propLaw_box, luneLaw_true, luneLaw_true, Measure.dirac_apply' _ hB1,
        Measure.dirac_apply' _ hB2, indicator_of_mem h0.1, indicator_of_mem h0.2]
      refine ⟨h.1, ?_⟩
      rw [h.2]
      simp only [cSeq, if_true, Pi.one_apply]
      ring
    · have hev : ev (propOpt true w ξ n) (B1 ×ˢ (B2 ×ˢ (B3 ×ˢ (B4 ×ˢ B5)))) = ∅ := by
        rw [ev_propOpt_box]
        ext ω
        simp only [mem_ofPred_eq, mem_empty_iff_false, iff_false]
        rintro ⟨x, rest, h, hg, hd, -⟩
        have hl := shiftSample_true_lune h
        rw [hl.1] at hg
        rw [hl.2] at hd
        exact h0 ⟨hg, hd⟩
      rw [hev, propLaw_box, luneLaw_true, luneLaw_true, Measure.dirac_apply' _ hB1,
        Measure.dirac_apply' _ hB2]
      refine ⟨MeasurableSet.empty, ?_⟩
      rw [measure_empty]
      by_cases h1 : (0:ℝ) ∈ B1
      · have h2 : (0:ℝ) ∉ B2 := fun h2 => h0 ⟨h1, h2⟩
        simp [indicator_of_notMem h2]
      · simp [indicator_of_notMem h1]

/-- **finite-stream law of the proposal**: for every measurable set `A` of coordinates, "the
    proposal is made within `n` draws and lies in `A`" is a measurable event of probability
    `cSeq n · propLaw A` -/
theorem propOpt_law (dc : Bool) (w : Widths ℝ) (ξ : Tape ℝ)
    (hw : 0 < w.gamma ∧ 0 < w.delta ∧ 0 < w.h ∧ 0 < w.sigma) (n : ℕ) (A : Set Coord)
    (hA : MeasurableSet A) :
    MeasurableSet (ev (propOpt dc w ξ n) A) ∧
      Measure.pi (fun _ : Fin n => gaussianReal 0 1) (ev (propOpt dc w ξ n) A) =
        cSeq dc w ξ n * propLaw dc w ξ A := by
  have := propLaw_prob dc w ξ hw
  refine ev_law_of_piSystem (Measure.pi fun _ : Fin n => gaussianReal 0 1) (propOpt dc w ξ n)
    (propLaw dc w ξ) (cSeq dc w ξ n) boxes5 generateFrom_boxes5 isPiSystem_boxes5 univ_mem_boxes5
    (fun A hA => ?_) A hA
  obtain ⟨B1, B2, B3, B4, B5, h1, h2, h3, h4, h5, rfl⟩ := mem_boxes5 hA
  exact box_law dc w ξ hw h1 h2 h3 h4 h5 n

/-! ### the proposal law has density `transPdf` (times the strike kernel) -/

theorem measurable_luneFactor_snd (dc : Bool) (s r m : ℝ) :
    Measurable fun x : ℝ => ENNReal.ofReal (luneFactor dc s r m x) :=
  ((measurable_luneFactor dc s r).comp (measurable_id.prodMk measurable_const)).ennreal_ofReal

/-- if the strike law has the density `f3` w.r.t. `μκ`, the proposal law has the density
    `transPdf dc w · ξ × f3(strike)` w.r.t. the reference measure `refMeasure dc μκ` -/
theorem propLaw_eq_withDensity (dc : Bool) (w : Widths ℝ) (ξ : Tape ℝ)
    (hw : 0 < w.gamma ∧ 0 < w.delta ∧ 0 < w.h ∧ 0 < w.sigma) (μκ : Measure ℝ) [SFinite μκ]
    {f3 : ℝ → ℝ≥0∞} (hf3 : Measurable f3) (hs : strikeLaw w ξ = μκ.withDensity f3) :
    propLaw dc w ξ = (refMeasure dc μκ).withDensity
      fun y => ENNReal.ofReal (transPdf dc w (toTape y) ξ) * f3 y.2.2.1 := by
  have hπ := Real.pi_pos
  have hf1 := measurable_luneFactor_snd dc w.gamma (π / 6) ξ.gamma
  have hf2 := measurable_luneFactor_snd dc w.delta (π / 2) ξ.delta
  have hf4 := measurable_truncTerm_fst ξ.h w.h 0 1
  have hf5 := measurable_truncTerm_fst ξ.sigma w.sigma (-(π / 2)) (π / 2)
  have hg45 : Measurable fun z : ℝ × ℝ => ENNReal.ofReal (truncTerm z.1 ξ.h w.h 0 1) *
      ENNReal.ofReal (truncTerm z.2 ξ.sigma w.sigma (-(π / 2)) (π / 2)) :=
    (hf4.comp measurable_fst).mul (hf5.comp measurable_snd)
  have hg345 : Measurable fun z : ℝ × ℝ × ℝ => f3 z.1 *
      (ENNReal.ofReal (truncTerm z.2.1 ξ.h w.h 0 1) *
        ENNReal.ofReal (truncTerm z.2.2 ξ.sigma w.sigma (-(π / 2)) (π / 2))) :=
    (hf3.comp measurable_fst).mul (hg45.comp measurable_snd)
  have hg2345 : Measurable fun z : ℝ × ℝ × ℝ × ℝ =>
      ENNReal.ofReal (luneFactor dc w.delta (π / 2) ξ.delta z.1) * (f3 z.2.1 *
      (ENNReal.ofReal (truncTerm z.2.2.1 ξ.h w.h 0 1) *
        ENNReal.ofReal (truncTerm z.2.2.2 ξ.sigma w.sigma (-(π / 2)) (π / 2)))) :=
    (hf2.comp measurable_fst).mul (hg345.comp measurable_snd)
  unfold propLaw
  rw [hs]
  unfold luneLaw truncLaw refMeasure
  rw [prod_withDensity hf4 hf5, prod_withDensity hf3 hg45, prod_withDensity hf2 hg345,
    prod_withDensity hf1 hg2345]
  congr 1
  funext y
  have n1 := luneFactor_nonneg dc hw.1 (by positivity : 0 < π / 6) ξ.gamma y.1
  have n2 := luneFactor_nonneg dc hw.2.1 (by positivity : 0 < π / 2) ξ.delta y.2.1
  have n4 := (truncTerm_pos' y.2.2.2.1 ξ.h hw.2.2.1 (zero_lt_one' ℝ)).le
  rw [transPdf_factor]
  simp only [toTape]
  rw [ENNReal.ofReal_mul (mul_nonneg (mul_nonneg n1 n2) n4),
    ENNReal.ofReal_mul (mul_nonneg n1 n2), ENNReal.ofReal_mul n1]
  ring

/-- special case: the strike law itself as reference measure on strike -/
theorem propLaw_eq_withDensity_self (dc : Bool) (w : Widths ℝ) (ξ : Tape ℝ)
    (hw : 0 < w.gamma ∧ 0 < w.delta ∧ 0 < w.h ∧ 0 < w.sigma) :
    propLaw dc w ξ = (refMeasure dc (strikeLaw w ξ)).withDensity
      fun y => ENNReal.ofReal (transPdf dc w (toTape y) ξ) := by
  have h := propLaw_eq_withDensity dc w ξ hw (strikeLaw w ξ) (f3 := fun _ => 1) measurable_const
    (by rw [show (fun _ : ℝ => (1 : ℝ≥0∞)) = 1 from rfl, withDensity_one])
  simpa using h

end Laws

end MTfitVerif.StepLaw
