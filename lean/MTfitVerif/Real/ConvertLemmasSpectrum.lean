import MTfitVerif.Model.Convert
import MTfitVerif.Model.Potency
import MTfitVerif.Real.Inst
/-
  Helper lemmas for C14: closed form of the three-element sorting network over ℝ, behaviour of
  `sort3`, `sign`, `atan2`, `eToTk`, `eToGd` under positive scaling, the Hudson-coordinate bounds
  (`|τ| + |k| ≤ 1` for a descending spectrum, then `|u| ≤ 4/3`, `|v| ≤ 1`), and the
  crack + double-couple round trip.
-/
namespace MTfitVerif.Convert
open MTfitVerif Real

/-- closed form of the three compare-and-swap steps: largest, middle (by the sum), smallest -/
theorem sort3_real (a b cc : ℝ) : sort3 (⟨a, b, cc⟩ : V3 ℝ) =
    ⟨max (max a b) cc, a + b + cc - max (max a b) cc - min (min a b) cc, min (min a b) cc⟩ := by
  unfold sort3
  simp only [flt_ltb, decide_eq_true_eq]
  by_cases h1 : a < b <;> simp only [h1, if_true, if_false]
  · have e1 : max a b = b := max_eq_right h1.le
    have e2 : min a b = a := min_eq_left h1.le
    rw [e1, e2]
    by_cases h2 : a < cc <;> simp only [h2, if_true, if_false]
    · rw [min_eq_left h2.le]
      by_cases h3 : b < cc <;> simp only [h3, if_true, if_false]
      · rw [max_eq_right h3.le]; congr 1; ring
      · rw [max_eq_left (not_lt.mp h3)]; congr 1; ring
    · rw [min_eq_right (not_lt.mp h2)]
      rw [max_eq_left (by linarith [not_lt.mp h2])]
      simp only [not_lt.mpr h1.le, if_false]; congr 1; ring
  · have e1 : max a b = a := max_eq_left (not_lt.mp h1)
    have e2 : min a b = b := min_eq_right (not_lt.mp h1)
    rw [e1, e2]
    by_cases h2 : b < cc <;> simp only [h2, if_true, if_false]
    · rw [min_eq_left h2.le]
      by_cases h3 : a < cc <;> simp only [h3, if_true, if_false]
      · rw [max_eq_right h3.le]; congr 1; ring
      · rw [max_eq_left (not_lt.mp h3)]; congr 1; ring
    · rw [min_eq_right (not_lt.mp h2)]
      rw [max_eq_left (by linarith [not_lt.mp h2, not_lt.mp h1])]
      simp only [h1, if_false]; congr 1; ring

theorem sort3_real' (e : V3 ℝ) : sort3 e =
    ⟨max (max e.x e.y) e.z, e.x + e.y + e.z - max (max e.x e.y) e.z - min (min e.x e.y) e.z,
      min (min e.x e.y) e.z⟩ := by
  cases e; exact sort3_real _ _ _

/-- sorting commutes with multiplication by a non-negative factor -/
theorem sort3_scale (a b cc : ℝ) {k : ℝ} (hk : 0 ≤ k) :
    sort3 (⟨k * a, k * b, k * cc⟩ : V3 ℝ) =
      ⟨k * (sort3 (⟨a, b, cc⟩ : V3 ℝ)).x, k * (sort3 (⟨a, b, cc⟩ : V3 ℝ)).y,
       k * (sort3 (⟨a, b, cc⟩ : V3 ℝ)).z⟩ := by
  rw [sort3_real, sort3_real]
  have hx : max (max (k * a) (k * b)) (k * cc) = k * max (max a b) cc := by
    rw [mul_max_of_nonneg _ _ hk, mul_max_of_nonneg _ _ hk]
  have hz : min (min (k * a) (k * b)) (k * cc) = k * min (min a b) cc := by
    rw [mul_min_of_nonneg _ _ hk, mul_min_of_nonneg _ _ hk]
  rw [hx, hz]
  congr 1; ring

theorem sign_real (x : ℝ) : sign x = if x < 0 then -1 else if 0 < x then 1 else 0 := by
  unfold sign; simp

theorem sign_scale (x : ℝ) {k : ℝ} (hk : 0 < k) : sign (k * x) = sign x := by
  rw [sign_real, sign_real]
  have h1 : k * x < 0 ↔ x < 0 := by
    constructor
    · intro h; by_contra hx; nlinarith [not_lt.mp hx]
    · intro h; nlinarith
  have h2 : 0 < k * x ↔ 0 < x := by
    constructor
    · intro h; by_contra hx; nlinarith [not_lt.mp hx]
    · intro h; positivity
  simp only [h1, h2]

theorem atan2_scale (y x : ℝ) {k : ℝ} (hk : 0 < k) : atan2 (k * y) (k * x) = atan2 y x := by
  unfold atan2
  have : (⟨k * x, k * y⟩ : ℂ) = (k : ℂ) * ⟨x, y⟩ := by
    apply Complex.ext <;> simp
  rw [this, Complex.arg_real_mul _ hk]

theorem perm3_all (a b cc : ℝ) :
    [a, b, cc].Perm [a, b, cc] ∧ [b, a, cc].Perm [a, b, cc] ∧ [a, cc, b].Perm [a, b, cc] ∧
    [cc, a, b].Perm [a, b, cc] ∧ [b, cc, a].Perm [a, b, cc] ∧ [cc, b, a].Perm [a, b, cc] := by
  have p1 : [b, a, cc].Perm [a, b, cc] := List.Perm.swap a b _
  have p2 : [a, cc, b].Perm [a, b, cc] := (List.Perm.swap b cc []).cons a
  have p3 : [cc, a, b].Perm [a, b, cc] := (List.Perm.swap a cc [b]).trans p2
  have p4 : [b, cc, a].Perm [a, b, cc] := ((List.Perm.swap a cc []).cons b).trans p1
  have p5 : [cc, b, a].Perm [a, b, cc] := ((List.Perm.swap a b []).cons cc).trans p3
  exact ⟨List.Perm.refl _, p1, p2, p3, p4, p5⟩

theorem sort3_perm_real (a b cc : ℝ) :
    [(sort3 (⟨a, b, cc⟩ : V3 ℝ)).x, (sort3 (⟨a, b, cc⟩ : V3 ℝ)).y, (sort3 (⟨a, b, cc⟩ : V3 ℝ)).z].Perm [a, b, cc] := by
  obtain ⟨p0, p1, p2, p3, p4, p5⟩ := perm3_all a b cc
  unfold sort3
  simp only [flt_ltb, decide_eq_true_eq]
  by_cases h1 : a < b <;> simp only [h1, if_true, if_false]
  · by_cases h2 : a < cc <;> simp only [h2, if_true, if_false]
    · by_cases h3 : b < cc <;> simp only [h3, if_true, if_false]
      · exact p5
      · exact p4
    · simp only [not_lt.mpr h1.le, if_false]; exact p1
  · by_cases h2 : b < cc <;> simp only [h2, if_true, if_false]
    · by_cases h3 : a < cc <;> simp only [h3, if_true, if_false]
      · exact p3
      · exact p2
    · simp only [h1, if_false]; exact p0

theorem eToTk_scale (e : V3 ℝ) {k : ℝ} (hk : 0 < k) :
    eToTk (⟨k * e.x, k * e.y, k * e.z⟩ : V3 ℝ) = eToTk e := by
  unfold eToTk
  simp only [flt_ltb, flt_c, flt_abs, decide_eq_true_eq, Nat.cast_ofNat, Nat.cast_zero, Nat.cast_one]
  have hk0 : k ≠ 0 := hk.ne'
  have hiso : (k * e.x + k * e.z + k * e.y) / (3 : ℝ) = k * ((e.x + e.z + e.y) / (3 : ℝ)) := by
    ring
  rw [hiso]
  set iso := (e.x + e.z + e.y) / (3 : ℝ) with hisodef
  have habs : |k * iso| = k * |iso| := by rw [abs_mul, abs_of_pos hk]
  have d0 : k * e.x - k * iso = k * (e.x - iso) := by ring
  have d1 : k * e.z - k * iso = k * (e.z - iso) := by ring
  have d2 : k * e.y - k * iso = k * (e.y - iso) := by ring
  rw [habs, d0, d1, d2]
  have c1 : (0 < k * (e.y - iso)) ↔ 0 < e.y - iso := by
    constructor
    · intro h; by_contra hx; nlinarith [not_lt.mp hx]
    · intro h; positivity
  have c2 : (k * (e.y - iso) < 0) ↔ e.y - iso < 0 := by
    constructor
    · intro h; by_contra hx; nlinarith [not_lt.mp hx]
    · intro h; nlinarith
  simp only [c1, c2]
  have r1 : k * iso / (k * |iso| - k * (e.z - iso)) = iso / (|iso| - (e.z - iso)) := by
    rw [← mul_sub, mul_div_mul_left _ _ hk0]
  have r2 : k * iso / (k * |iso| + k * (e.x - iso)) = iso / (|iso| + (e.x - iso)) := by
    rw [← mul_add, mul_div_mul_left _ _ hk0]
  have r3 : -(2 : ℝ) * (k * (e.y - iso)) / (k * (e.z - iso)) = -(2 : ℝ) * (e.y - iso) / (e.z - iso) := by
    rw [mul_left_comm, mul_div_mul_left _ _ hk0]
  have r4 : (2 : ℝ) * (k * (e.y - iso)) / (k * (e.x - iso)) = (2 : ℝ) * (e.y - iso) / (e.x - iso) := by
    rw [mul_left_comm, mul_div_mul_left _ _ hk0]
  rw [r1, r2, r3, r4]

theorem eToGd_scale (a b cc : ℝ) {k : ℝ} (hk : 0 < k) :
    eToGd (⟨k * a, k * b, k * cc⟩ : V3 ℝ) = eToGd (⟨a, b, cc⟩ : V3 ℝ) := by
  have hk0 : k ≠ 0 := hk.ne'
  unfold eToGd
  rw [sort3_scale a b cc hk.le, sign_scale a hk]
  simp only [flt_eqb, mul_right_inj' hk0]
  set s := sort3 (⟨a, b, cc⟩ : V3 ℝ)
  simp only [flt_atan2, flt_c, flt_sqrt, flt_acos, flt_pi, Nat.cast_ofNat]
  have h1 : -(k * s.x) + 2 * (k * s.y) - k * s.z = k * (-s.x + 2 * s.y - s.z) := by ring
  have h2 : √3 * (k * s.x - k * s.z) = k * (√3 * (s.x - s.z)) := by ring
  have h3 : √(k * s.x * (k * s.x) + k * s.y * (k * s.y) + k * s.z * (k * s.z))
      = k * √(s.x * s.x + s.y * s.y + s.z * s.z) := by
    have : k * s.x * (k * s.x) + k * s.y * (k * s.y) + k * s.z * (k * s.z)
        = (k * k) * (s.x * s.x + s.y * s.y + s.z * s.z) := by ring
    rw [this, Real.sqrt_mul (mul_self_nonneg k), Real.sqrt_mul_self hk.le]
  have h4 : (k * s.x + k * s.y + k * s.z) / (√3 * (k * √(s.x * s.x + s.y * s.y + s.z * s.z)))
      = (s.x + s.y + s.z) / (√3 * √(s.x * s.x + s.y * s.y + s.z * s.z)) := by
    rw [mul_left_comm, ← mul_add, ← mul_add, mul_div_mul_left _ _ hk0]
  rw [h1, h2, h3, h4, atan2_scale _ _ hk]

theorem tk_core {T k : ℝ} (hT : |T| ≤ 1) (hk : |k| ≤ 1) : |T * (1 - |k|)| + |k| ≤ 1 := by
  rw [abs_mul, abs_of_nonneg (by linarith : (0 : ℝ) ≤ 1 - |k|)]
  nlinarith [abs_nonneg T, abs_nonneg k]

theorem abs_ratio_le_one {i D : ℝ} (hD : 0 ≤ D) : |i / (|i| + D)| ≤ 1 := by
  rw [abs_div, abs_of_nonneg (by positivity : 0 ≤ |i| + D)]
  exact div_le_one_of_le₀ (by linarith) (by positivity)

/-- for a descending triple the Hudson pair satisfies `|τ| + |k| ≤ 1` -/
theorem eToTk_abs_le (e : V3 ℝ) (h1 : e.y ≤ e.x) (h2 : e.z ≤ e.y) :
    |(eToTk e).1| + |(eToTk e).2| ≤ 1 := by
  unfold eToTk
  simp only [flt_ltb, flt_c, flt_abs, decide_eq_true_eq, Nat.cast_ofNat, Nat.cast_zero, Nat.cast_one]
  set iso := (e.x + e.z + e.y) / 3 with hiso
  have hd0 : 0 ≤ e.x - iso := by rw [hiso]; linarith
  have hd1 : e.z - iso ≤ 0 := by rw [hiso]; linarith
  have hsum : (e.x - iso) + (e.z - iso) + (e.y - iso) = 0 := by rw [hiso]; ring
  split_ifs with c1 c2
  · simp only
    apply tk_core
    · rw [abs_div]
      apply div_le_one_of_le₀ _ (abs_nonneg _)
      rw [abs_of_nonpos hd1, abs_of_nonpos (by linarith)]
      linarith
    · have := abs_ratio_le_one (i := iso) (D := -(e.z - iso)) (by linarith)
      rwa [← sub_eq_add_neg] at this
  · simp only
    apply tk_core
    · rw [abs_div]
      apply div_le_one_of_le₀ _ (abs_nonneg _)
      rw [abs_of_nonneg hd0, abs_of_nonpos (by linarith)]
      linarith
    · exact abs_ratio_le_one hd0
  · simp only
    apply tk_core
    · simp
    · exact abs_ratio_le_one hd0

theorem tkToUv_bounds {τ k : ℝ} (h : |τ| + |k| ≤ 1) :
    |(tkToUv τ k).1| ≤ 4 / 3 ∧ |(tkToUv τ k).2| ≤ 1 := by
  unfold tkToUv
  simp only [flt_ltb, flt_c, decide_eq_true_eq, Nat.cast_ofNat, Nat.cast_zero, Nat.cast_one,
    Bool.and_eq_true]
  have hτ := abs_nonneg τ
  have hk := abs_nonneg k
  split_ifs with c1 c2 c3 c4
  · obtain ⟨p, q⟩ := c1
    rw [abs_of_pos p, abs_of_pos q] at h
    have hd : 0 < 1 - τ / 2 := by linarith
    simp only
    rw [abs_of_nonneg (by positivity), abs_of_nonneg (by positivity), div_le_iff₀ hd, div_le_iff₀ hd]
    constructor <;> linarith
  · obtain ⟨p, q⟩ := c1
    rw [abs_of_pos p, abs_of_pos q] at h
    have hd : 0 < 1 - 2 * k := by linarith
    simp only
    rw [abs_of_nonneg (by positivity), abs_of_nonneg (by positivity), div_le_iff₀ hd, div_le_iff₀ hd]
    constructor <;> linarith
  · obtain ⟨p, q⟩ := c3
    rw [abs_of_neg p, abs_of_neg q] at h
    have hd : 0 < 1 + τ / 2 := by linarith
    simp only
    rw [abs_div, abs_div, abs_of_pos hd, abs_of_neg p, abs_of_neg q, div_le_iff₀ hd, div_le_iff₀ hd]
    constructor <;> linarith
  · obtain ⟨p, q⟩ := c3
    rw [abs_of_neg p, abs_of_neg q] at h
    have hd : 0 < 1 + 2 * k := by linarith
    simp only
    rw [abs_div, abs_div, abs_of_pos hd, abs_of_neg p, abs_of_neg q, div_le_iff₀ hd, div_le_iff₀ hd]
    constructor <;> linarith
  · simp only
    constructor <;> linarith

theorem cdc_t_identity {c ν : ℝ} (hc : 0 < c) (hν0 : -1 < ν) (hν1 : ν < 1 / 2) :
    √2 * (tan (arccos (√(2 / 3) * c * (1 + ν) / √((1 - 2 * ν) * (1 - 2 * ν) + c * c * (1 + 2 * ν * ν))))
      * sin (arctan (-1 / √3 * c))) = -(1 - 2 * ν) / (1 + ν) := by
  have h2 : √2 ^ 2 = 2 := Real.sq_sqrt (by norm_num)
  have h3 : √3 ^ 2 = 3 := Real.sq_sqrt (by norm_num)
  have h2p : 0 < √2 := Real.sqrt_pos.mpr (by norm_num)
  have h3p : 0 < √3 := Real.sqrt_pos.mpr (by norm_num)
  have hQ : 0 < (1 - 2 * ν) * (1 - 2 * ν) + c * c * (1 + 2 * ν * ν) := by nlinarith [mul_pos hc hc, mul_self_nonneg ν, mul_self_nonneg (1 - 2 * ν)]
  set Q := (1 - 2 * ν) * (1 - 2 * ν) + c * c * (1 + 2 * ν * ν) with hQdef
  have hS : 0 < √Q := Real.sqrt_pos.mpr hQ
  have hS2 : √Q ^ 2 = Q := Real.sq_sqrt hQ.le
  have hRarg : 0 < 1 + c ^ 2 / 3 := by positivity
  have hR : 0 < √(1 + c ^ 2 / 3) := Real.sqrt_pos.mpr hRarg
  have hR2 : √(1 + c ^ 2 / 3) ^ 2 = 1 + c ^ 2 / 3 := Real.sq_sqrt hRarg.le
  have hν' : 0 < 1 + ν := by linarith
  have hν'' : 0 < 1 - 2 * ν := by linarith
  rw [Real.sqrt_div (by norm_num) 3, tan_arccos, sin_arctan]
  set S := √Q
  set R := √(1 + c ^ 2 / 3)
  have e1 : (1 : ℝ) + (-1 / √3 * c) ^ 2 = 1 + c ^ 2 / 3 := by
    rw [mul_pow, div_pow, h3]; ring
  have e2 : 1 - (√2 / √3 * c * (1 + ν) / S) ^ 2 = ((1 - 2 * ν) * R / S) ^ 2 := by
    simp only [div_pow, mul_pow, h2, h3, hS2, hR2]
    rw [hQdef]
    field_simp
    ring
  have e1' : √((1 : ℝ) + (-1 / √3 * c) ^ 2) = R := by rw [e1]
  rw [e1', e2, Real.sqrt_sq (by positivity)]
  field_simp

theorem cdc_roundtrip_real {a ν : ℝ} (ha0 : 0 ≤ a) (ha1 : a < π / 2) (hν0 : -1 < ν) (hν1 : ν < 1 / 2) :
    gdToCdc (cdcToGd a ν).1 (cdcToGd a ν).2 = (a, ν) := by
  have hc : 0 < cos a := cos_pos_of_mem_Ioo ⟨by linarith [pi_pos], ha1⟩
  have h3p : 0 < √3 := Real.sqrt_pos.mpr (by norm_num)
  have hne : a ≠ π / 2 := ha1.ne
  have ht := cdc_t_identity hc hν0 hν1
  unfold gdToCdc cdcToGd
  simp only [flt_atan, flt_c, flt_sqrt, flt_cos, flt_eqb, flt_pi, flt_acos, flt_tan, flt_sin,
    Nat.cast_ofNat, Nat.cast_one, hne, decide_false, Bool.false_eq_true, if_false, sub_sub_cancel,
    tan_arctan]
  rw [ht]
  have e1 : -√3 * (-1 / √3 * cos a) = cos a := by field_simp
  rw [e1, arccos_cos ha0 (by linarith [pi_pos])]
  congr 1
  have hν' : 0 < 1 + ν := by linarith
  field_simp
  ring

end MTfitVerif.Convert
