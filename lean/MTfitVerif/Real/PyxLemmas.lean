import MTfitVerif.Model.PyxKernels
import MTfitVerif.Model.Polarity
import MTfitVerif.Model.RatioPdf
import MTfitVerif.Model.Acceptance
import MTfitVerif.Model.Convert
import MTfitVerif.Model.MultiEvent
import MTfitVerif.Real.Inst
import MTfitVerif.Real.AcceptanceLemmas
import MTfitVerif.Real.PolarityLemmas
import MTfitVerif.Real.RatioPdfLemmas
/-
  Helper lemmas for C20 (scalar kernels of the compiled extensions, `Model/PyxKernels.lean`):
  literals and square roots, the generated Gaussian density / CDF and truncation normalisers as
  model terms, the Beta kernel of the uniform prior, the `erf` term of Hinkley's density as an
  even function of the coefficient `b`, and sortedness of `sort3`.

  The proofs unfold the generated definitions but never refer to the generated local names.
-/
set_option linter.unusedVariables false
namespace MTfitVerif.PyxLemmas
open MTfitVerif MTfitVerif.Convert Real

/-! ### literals and square roots -/

theorem sci_5_1 : (sci 5 1 : ℝ) = 1 / 2 := by
  simp only [flt_sci]; norm_num

theorem sqrt_two_mul_sqrt_pi : √2 * √π = √(2 * π) := (Real.sqrt_mul (by norm_num) π).symm

theorem sqrt_two_div_pi : √(2 / π) = √2 / √π := Real.sqrt_div (by norm_num) π

/-! ### Gaussian density and CDF (both extensions carry a copy) -/

theorem prob_gaussian_pdf_eq (x μ s : ℝ) (hs : 0 < s) :
    Pyx.cprobability.gaussian_pdf x μ s = Acceptance.gaussPdf x μ s := by
  rw [Acceptance.gaussPdf_eq]
  simp only [Pyx.cprobability.gaussian_pdf, flt_c, flt_sqrt, flt_pi, flt_exp, Nat.cast_one, Nat.cast_ofNat,
    sqrt_two_mul_sqrt_pi]
  have e : -(x - μ) * (x - μ) / (2 * s * s) = -((x - μ) / s * ((x - μ) / s)) / 2 := by
    field_simp
  rw [e]
  have : √(2 * π) ≠ 0 := by positivity
  field_simp

theorem prob_gaussian_cdf_eq (x μ s : ℝ) :
    Pyx.cprobability.gaussian_cdf x μ s = Acceptance.gaussCdf x μ s := by
  rw [Acceptance.gaussCdf_eq]
  simp only [Pyx.cprobability.gaussian_cdf, sci_5_1, flt_c, flt_sqrt, flt_erf, Nat.cast_one, Nat.cast_ofNat,
    div_div]

theorem mcmc_gaussian_pdf_eq (x μ s : ℝ) (hs : 0 < s) :
    Pyx.cmcmc.gaussian_pdf x μ s = Acceptance.gaussPdf x μ s := by
  rw [Acceptance.gaussPdf_eq]
  simp only [Pyx.cmcmc.gaussian_pdf, flt_c, flt_sqrt, flt_pi, flt_exp, Nat.cast_one, Nat.cast_ofNat,
    sqrt_two_mul_sqrt_pi]
  have e : -(x - μ) * (x - μ) / (2 * s * s) = -((x - μ) / s * ((x - μ) / s)) / 2 := by
    field_simp
  rw [e]
  have : √(2 * π) ≠ 0 := by positivity
  field_simp

theorem mcmc_gaussian_cdf_eq (x μ s : ℝ) :
    Pyx.cmcmc.gaussian_cdf x μ s = Acceptance.gaussCdf x μ s := by
  rw [Acceptance.gaussCdf_eq]
  simp only [Pyx.cmcmc.gaussian_cdf, sci_5_1, flt_c, flt_sqrt, flt_erf, Nat.cast_one, Nat.cast_ofNat,
    div_div]

theorem gaussPdf_symm (a b s : ℝ) : Acceptance.gaussPdf a b s = Acceptance.gaussPdf b a s := by
  rw [Acceptance.gaussPdf_eq, Acceptance.gaussPdf_eq]
  congr 3
  ring

/-! ### transition densities: the compiled kernels are the reciprocal truncation normalisers -/

theorem transition_dc_eq (h' sigma h0 hs s0 ss : ℝ) :
    Pyx.cmcmc.gaussian_transition_dc h' sigma h0 hs s0 ss =
      1 / ((Acceptance.gaussCdf 1 h0 hs - Acceptance.gaussCdf 0 h0 hs) *
        (Acceptance.gaussCdf (π / 2) s0 ss - Acceptance.gaussCdf (-(π / 2)) s0 ss)) := by
  simp only [Pyx.cmcmc.gaussian_transition_dc, mcmc_gaussian_cdf_eq, flt_c, flt_pi, Nat.cast_one, Nat.cast_ofNat,
    Nat.cast_zero, neg_div]

theorem transition_mt_eq (g d h' sigma g0 gs d0 ds h0 hs s0 ss : ℝ) :
    Pyx.cmcmc.gaussian_transition_mt g d h' sigma g0 gs d0 ds h0 hs s0 ss =
      1 / ((Acceptance.gaussCdf 1 h0 hs - Acceptance.gaussCdf 0 h0 hs) *
        (Acceptance.gaussCdf (π / 2) s0 ss - Acceptance.gaussCdf (-(π / 2)) s0 ss)) /
      ((Acceptance.gaussCdf (π / 6) g0 gs - Acceptance.gaussCdf (-(π / 6)) g0 gs) *
        (Acceptance.gaussCdf (π / 2) d0 ds - Acceptance.gaussCdf (-(π / 2)) d0 ds)) := by
  simp only [Pyx.cmcmc.gaussian_transition_mt, transition_dc_eq, mcmc_gaussian_cdf_eq, flt_c, flt_pi,
    Nat.cast_ofNat, neg_div]

/-- double-couple transition density: symmetric Gaussian factors times the reciprocal normaliser -/
theorem transPdf_true_eq (w : Acceptance.Widths ℝ) (x x1 : Acceptance.Tape ℝ) :
    Acceptance.transPdf true w x x1 =
      Acceptance.gaussPdf x.h x1.h w.h * Acceptance.gaussPdf x.sigma x1.sigma w.sigma *
      (1 / ((Acceptance.gaussCdf 1 x1.h w.h - Acceptance.gaussCdf 0 x1.h w.h) *
        (Acceptance.gaussCdf (π / 2) x1.sigma w.sigma - Acceptance.gaussCdf (-(π / 2)) x1.sigma w.sigma))) := by
  simp only [Acceptance.transPdf, Acceptance.truncTerm, flt_c, flt_pi, Nat.cast_one, Nat.cast_ofNat,
    Nat.cast_zero, if_true]
  rw [one_mul, div_mul_div_comm, mul_one_div]

/-- full-tensor transition density: symmetric Gaussian factors times the reciprocal normaliser -/
theorem transPdf_false_eq (w : Acceptance.Widths ℝ) (x x1 : Acceptance.Tape ℝ) :
    Acceptance.transPdf false w x x1 =
      Acceptance.gaussPdf x.gamma x1.gamma w.gamma * Acceptance.gaussPdf x.delta x1.delta w.delta *
      Acceptance.gaussPdf x.h x1.h w.h * Acceptance.gaussPdf x.sigma x1.sigma w.sigma *
      (1 / ((Acceptance.gaussCdf 1 x1.h w.h - Acceptance.gaussCdf 0 x1.h w.h) *
        (Acceptance.gaussCdf (π / 2) x1.sigma w.sigma - Acceptance.gaussCdf (-(π / 2)) x1.sigma w.sigma)) /
      ((Acceptance.gaussCdf (π / 6) x1.gamma w.gamma - Acceptance.gaussCdf (-(π / 6)) x1.gamma w.gamma) *
        (Acceptance.gaussCdf (π / 2) x1.delta w.delta - Acceptance.gaussCdf (-(π / 2)) x1.delta w.delta))) := by
  simp only [Acceptance.transPdf, Acceptance.truncTerm, flt_c, flt_pi, Nat.cast_one, Nat.cast_ofNat,
    Nat.cast_zero, Bool.false_eq_true, if_false]
  simp only [div_eq_mul_inv, one_mul, mul_inv]
  ring

/-! ### the uniform (on the sphere) prior -/

theorem k_ND_ne_zero : (Pyx.cmcmc.k_ND : ℝ) ≠ 0 := by
  simp only [Pyx.cmcmc.k_ND, flt_sci]; norm_num

/-- the kernel of the Beta(b,b) density, `b = 5.745` -/
noncomputable def betaKer (u : ℝ) : ℝ :=
  Real.exp (((sci 5745 3 : ℝ) - 1) * (Real.log u + Real.log (1 - u)))

theorem betaKer_pos (u : ℝ) : 0 < betaKer u := Real.exp_pos _

theorem lune_u_mem {δ : ℝ} (hd : -(π / 2) < δ ∧ δ < π / 2) :
    0 < (δ + π / 2) / π ∧ (δ + π / 2) / π < 1 := by
  have hpi := Real.pi_pos
  constructor
  · apply div_pos _ hpi; linarith [hd.1]
  · rw [div_lt_one hpi]; linarith [hd.2]

theorem uniform_delta_dist_eq {δ : ℝ} (hd : -(π / 2) < δ ∧ δ < π / 2) :
    Pyx.cmcmc.uniform_delta_dist δ = Pyx.cmcmc.k_ND * betaKer ((δ + π / 2) / π) / π := by
  obtain ⟨h0, h1⟩ := lune_u_mem hd
  simp only [Pyx.cmcmc.uniform_delta_dist, betaKer, flt_c, flt_pi, flt_exp, flt_log, Nat.cast_one, Nat.cast_ofNat]
  rw [Real.log_mul h0.ne' (by linarith : (1:ℝ) - (δ + π / 2) / π ≠ 0)]

theorem betaPdf_eq {u : ℝ} (h0 : 0 < u) (h1 : u < 1) :
    Acceptance.betaPdf u = betaKer u * Real.exp (sci 7551183110261967 15 : ℝ) := by
  simp only [Acceptance.betaPdf, betaKer, flt_c, flt_leb, flt_exp, flt_log, Nat.cast_one, Nat.cast_zero,
    Bool.or_eq_true, decide_eq_true_eq, not_le.mpr h0, not_le.mpr h1, or_self, if_false, sub_neg_eq_add,
    Real.exp_add]

theorem uniformPrior_false_eq (x : Acceptance.Tape ℝ) (hd : -(π / 2) < x.delta ∧ x.delta < π / 2) :
    Acceptance.uniformPrior false x =
      ((sci 15 1 : ℝ) * Real.exp (sci 7551183110261967 15 : ℝ) * (sci 110452194071529090000 20 : ℝ) / π) *
        (Real.cos (3 * x.gamma) * betaKer ((x.delta + π / 2) / π)) := by
  obtain ⟨h0, h1⟩ := lune_u_mem hd
  simp only [Acceptance.uniformPrior, Bool.false_eq_true, if_false, flt_c, flt_pi, flt_cos, Nat.cast_one,
    Nat.cast_ofNat, betaPdf_eq h0 h1]
  ring

theorem uniformPrior_const_ne_zero :
    (sci 15 1 : ℝ) * Real.exp (sci 7551183110261967 15 : ℝ) * (sci 110452194071529090000 20 : ℝ) / π ≠ 0 := by
  have h1 : (sci 15 1 : ℝ) ≠ 0 := by simp only [flt_sci]; norm_num
  have h2 : (sci 110452194071529090000 20 : ℝ) ≠ 0 := by simp only [flt_sci]; norm_num
  have h3 := Real.pi_ne_zero
  have h4 := (Real.exp_pos (sci 7551183110261967 15 : ℝ)).ne'
  exact div_ne_zero (mul_ne_zero (mul_ne_zero h1 h4) h2) h3

/-! ### Hinkley's ratio density -/

/-- the `erf` term of Hinkley's ratio density as a function of the coefficient `b` -/
noncomputable def hinkT (a K cc b : ℝ) : ℝ :=
  b * Real.exp ((b * b - cc * a * a) / (2 * a * a)) / K * erf (b / (√2 * a))

/-- it is even in `b` (`erf` is odd) -/
theorem hinkT_neg (a K cc b : ℝ) : hinkT a K cc (-b) = hinkT a K cc b := by
  unfold hinkT
  rw [neg_div, erf_neg, neg_mul_neg]
  ring

/-- the two `b` coefficients of the compiled kernel (signed amplitudes, `±μx`) give the same pair of
    terms as those of the Python path (absolute amplitudes, `±z`) -/
theorem hinkT_pair (a K cc μx μy z X Y : ℝ) :
    hinkT a K cc (μx * z / X + μy / Y) + hinkT a K cc (-μx * z / X + μy / Y) =
      hinkT a K cc (|μx| * z / X + |μy| / Y) + hinkT a K cc (|μx| * (-z) / X + |μy| / Y) := by
  rcases le_total 0 μx with hx | hx <;> rcases le_total 0 μy with hy | hy
  · rw [abs_of_nonneg hx, abs_of_nonneg hy]
    have e : μx * (-z) / X + μy / Y = -μx * z / X + μy / Y := by ring
    rw [e]
  · rw [abs_of_nonneg hx, abs_of_nonpos hy]
    have e1 : μx * z / X + μy / Y = -(μx * (-z) / X + -μy / Y) := by ring
    have e2 : -μx * z / X + μy / Y = -(μx * z / X + -μy / Y) := by ring
    rw [e1, e2, hinkT_neg, hinkT_neg, add_comm]
  · rw [abs_of_nonpos hx, abs_of_nonneg hy]
    have e1 : μx * z / X + μy / Y = -μx * (-z) / X + μy / Y := by ring
    rw [e1, add_comm]
  · rw [abs_of_nonpos hx, abs_of_nonpos hy]
    have e1 : μx * z / X + μy / Y = -(-μx * z / X + -μy / Y) := by ring
    have e2 : -μx * z / X + μy / Y = -(-μx * (-z) / X + -μy / Y) := by ring
    rw [e1, e2, hinkT_neg, hinkT_neg]

theorem ratioPdf_hinkT (z μx μy σx σy : ℝ) :
    RatioPdf.ratioPdf z μx μy σx σy =
      hinkT (RatioPdf.coefA z σx σy)
          (√(2 * π) * (σx * σy * (RatioPdf.coefA z σx σy * (RatioPdf.coefA z σx σy * RatioPdf.coefA z σx σy))))
          (RatioPdf.coefC μx μy σx σy) (RatioPdf.coefB z μx μy σx σy)
        + 1 / (π * (σx * σy * (RatioPdf.coefA z σx σy * RatioPdf.coefA z σx σy)))
          * Real.exp (-RatioPdf.coefC μx μy σx σy / 2) := by
  rw [RatioPdf.ratioPdf_eq, neg_div, RatioPdf.stdCdf_sub_neg, div_div, mul_comm (RatioPdf.coefA z σx σy) √2]
  unfold hinkT
  congr 4
  congr 1
  ring

theorem coefA_neg (z σx σy : ℝ) : RatioPdf.coefA (-z) σx σy = RatioPdf.coefA z σx σy := by
  rw [RatioPdf.coefA_eq, RatioPdf.coefA_eq, neg_mul_neg]

theorem errFix_of_pos {p : ℝ} (hp : 0 < p) : RatioPdf.errFix p = p := by
  unfold RatioPdf.errFix
  simp only [flt_eqb, flt_c, Nat.cast_zero, hp.ne', decide_false, Bool.false_eq_true, if_false, flt_abs,
    abs_of_pos hp]

/-- the compiled amplitude-ratio kernel (non-negative `psy`: the cut-off branch is not taken) as two
    `hinkT` terms and the exponential term -/
theorem ar_pdf_hinkT (z μx μy px py : ℝ) (hpy : 0 ≤ py) :
    Pyx.cprobability.ar_pdf z μx μy px py =
      hinkT (√(z * z / (px * |μx| * (px * |μx|)) + 1 / (py * |μy| * (py * |μy|))))
          (px * |μx| * (py * |μy|) * √(z * z / (px * |μx| * (px * |μx|)) + 1 / (py * |μy| * (py * |μy|)))
            * √(z * z / (px * |μx| * (px * |μx|)) + 1 / (py * |μy| * (py * |μy|)))
            * √(z * z / (px * |μx| * (px * |μx|)) + 1 / (py * |μy| * (py * |μy|))) * √2 * √π)
          (μx * μx / (px * |μx| * (px * |μx|)) + μy * μy / (py * |μy| * (py * |μy|)))
          (μx * z / (px * |μx| * (px * |μx|)) + μy / (py * |μy| * (py * |μy|)))
      + 2 / (π * (px * |μx|) * (py * |μy|) * √(z * z / (px * |μx| * (px * |μx|)) + 1 / (py * |μy| * (py * |μy|)))
            * √(z * z / (px * |μx| * (px * |μx|)) + 1 / (py * |μy| * (py * |μy|))))
          * Real.exp (-(μx * μx / (px * |μx| * (px * |μx|)) + μy * μy / (py * |μy| * (py * |μy|))) / 2)
      + hinkT (√(z * z / (px * |μx| * (px * |μx|)) + 1 / (py * |μy| * (py * |μy|))))
          (px * |μx| * (py * |μy|) * √(z * z / (px * |μx| * (px * |μx|)) + 1 / (py * |μy| * (py * |μy|)))
            * √(z * z / (px * |μx| * (px * |μx|)) + 1 / (py * |μy| * (py * |μy|)))
            * √(z * z / (px * |μx| * (px * |μx|)) + 1 / (py * |μy| * (py * |μy|))) * √2 * √π)
          (μx * μx / (px * |μx| * (px * |μx|)) + μy * μy / (py * |μy| * (py * |μy|)))
          (-μx * z / (px * |μx| * (px * |μx|)) + μy / (py * |μy| * (py * |μy|))) := by
  simp only [Pyx.cprobability.ar_pdf, Pyx.cprobability.k_cutoff, hinkT, flt_ltb, flt_c, flt_sqrt, flt_pi, flt_abs,
    flt_exp, flt_erf, sci_5_1, Nat.cast_zero, Nat.cast_one, Nat.cast_ofNat, not_lt.mpr hpy, decide_false,
    Bool.false_eq_true, if_false]
  ring

/-! ### conversions -/

/-- the compare-swap network leaves a descending triple alone -/
theorem sort3_sorted (e : V3 ℝ) (hs : e.z ≤ e.y ∧ e.y ≤ e.x) : sort3 e = e := by
  obtain ⟨h1, h2⟩ := hs
  simp only [sort3, flt_ltb, not_lt.mpr h1, not_lt.mpr h2, decide_false, Bool.false_eq_true, if_false]

end MTfitVerif.PyxLemmas
