import MTfitVerif.Model.Scatangle
import MTfitVerif.Real.Inst
import Mathlib.Tactic.Ring
import Mathlib.Tactic.Linarith
/-
  Helper lemmas for C18 (scatangle parsing and binning) over ℝ.
-/
namespace MTfitVerif.Scatangle
open MTfitVerif

/-! ### parsing -/

/-- folding `step` over station lines only appends the stations to the current block -/
theorem foldl_stations (r : Record ℝ) (s : PState ℝ) :
    (r.map fun s : Nat × ℝ × ℝ => Line.station s.1 s.2.1 s.2.2).foldl step s = { s with cur := s.cur ++ r } := by
  induction r generalizing s with
  | nil => simp
  | cons a r ih => simp [step, ih]

/-- weight line followed by station lines (no closing blank line) -/
theorem foldl_open_block (s : PState ℝ) (hs : s.cur = []) (r : Record ℝ) (w : ℝ) :
    (Line.weight w :: (r.map fun s : Nat × ℝ × ℝ => Line.station s.1 s.2.1 s.2.2)).foldl step s
      = { cur := r, mult := w, out := s.out } := by
  simp only [List.foldl_cons, foldl_stations]
  simp [step, hs]

/-- a complete block appends exactly one record -/
theorem foldl_block (s : PState ℝ) (hs : s.cur = []) (r : Record ℝ) (w : ℝ) (hr : r ≠ [])
    (hw : w ≠ 0) :
    (Line.weight w :: (r.map fun s : Nat × ℝ × ℝ => Line.station s.1 s.2.1 s.2.2) ++ [Line.blank]).foldl step s
      = { cur := [], mult := w, out := s.out ++ [(r, w)] } := by
  rw [List.foldl_append, foldl_open_block s hs]
  simp [step, hr, hw]

/-- a block of station lines without its own weight line, closed by a blank line -/
theorem foldl_stations_blank (s : PState ℝ) (hs : s.cur = []) (r : Record ℝ) (hr : r ≠ [])
    (hw : s.mult ≠ 0) :
    ((r.map fun s : Nat × ℝ × ℝ => Line.station s.1 s.2.1 s.2.2) ++ [Line.blank]).foldl step s
      = { cur := [], mult := s.mult, out := s.out ++ [(r, s.mult)] } := by
  rw [List.foldl_append, foldl_stations]
  simp [step, hs, hr, hw]

/-- folding over a well-formed file appends all of its records and leaves no open block -/
theorem foldl_file (recs : List (Record ℝ × ℝ)) (h : ∀ p ∈ recs, p.1 ≠ [] ∧ p.2 ≠ 0)
    (s : PState ℝ) (hs : s.cur = []) :
    ∃ m, (recs.flatMap fun p =>
            Line.weight p.2 :: (p.1.map fun s : Nat × ℝ × ℝ => Line.station s.1 s.2.1 s.2.2) ++ [Line.blank]).foldl step s
          = { cur := [], mult := m, out := s.out ++ recs } := by
  induction recs generalizing s with
  | nil =>
    refine ⟨s.mult, ?_⟩
    cases s
    simp_all
  | cons p recs ih =>
    have hp := h p (List.mem_cons_self)
    have h' : ∀ q ∈ recs, q.1 ≠ [] ∧ q.2 ≠ 0 := fun q hq => h q (List.mem_cons_of_mem _ hq)
    rw [List.flatMap_cons, List.foldl_append, foldl_block s hs p.1 p.2 hp.1 hp.2]
    obtain ⟨m, hm⟩ := ih h' { cur := [], mult := p.2, out := s.out ++ [(p.1, p.2)] } rfl
    refine ⟨m, ?_⟩
    rw [hm]
    simp

/-! ### binning -/

theorem binAux_zero (b : ℝ) (l : List (Record ℝ × ℝ)) : binAux b 0 l = l := by
  cases l <;> rfl

theorem binAux_nil (b : ℝ) (fuel : Nat) : binAux b fuel ([] : List (Record ℝ × ℝ)) = [] := by
  cases fuel <;> rfl

theorem binAux_succ_cons (b : ℝ) (fuel : Nat) (r : Record ℝ) (w : ℝ) (rest : List (Record ℝ × ℝ)) :
    binAux b (fuel + 1) ((r, w) :: rest)
      = (r, (rest.filter fun x => close b r x.1).foldl (fun acc x => acc + x.2) w)
          :: binAux b fuel (rest.filter fun x => !close b r x.1) := rfl

theorem foldl_add_snd (l : List (Record ℝ × ℝ)) (w : ℝ) :
    l.foldl (fun acc x => acc + x.2) w = w + (l.map (·.2)).sum := by
  induction l generalizing w with
  | nil => simp
  | cons a l ih => simp [ih, add_assoc]

theorem sum_filter_split (p : Record ℝ × ℝ → Bool) (l : List (Record ℝ × ℝ)) :
    (l.map (·.2)).sum
      = ((l.filter p).map (·.2)).sum + ((l.filter fun x => !p x).map (·.2)).sum := by
  induction l with
  | nil => simp
  | cons a l ih =>
    cases h : p a
    · simp only [List.filter_cons, h, List.map_cons, List.sum_cons, ih]
      simp
      ring
    · simp only [List.filter_cons, h, List.map_cons, List.sum_cons, ih]
      simp
      ring

theorem binAux_mass (b : ℝ) (fuel : Nat) (l : List (Record ℝ × ℝ)) :
    ((binAux b fuel l).map (·.2)).sum = (l.map (·.2)).sum := by
  induction fuel generalizing l with
  | zero => rw [binAux_zero]
  | succ fuel ih =>
    cases l with
    | nil => rw [binAux_nil]
    | cons a rest =>
      obtain ⟨r, w⟩ := a
      rw [binAux_succ_cons]
      simp only [List.map_cons, List.sum_cons, ih, foldl_add_snd]
      rw [sum_filter_split (fun x => close b r x.1) rest]
      ring

theorem binAux_sublist (b : ℝ) (fuel : Nat) (l : List (Record ℝ × ℝ)) :
    ((binAux b fuel l).map (·.1)).Sublist (l.map (·.1)) := by
  induction fuel generalizing l with
  | zero => rw [binAux_zero]
  | succ fuel ih =>
    cases l with
    | nil => rw [binAux_nil]
    | cons a rest =>
      obtain ⟨r, w⟩ := a
      rw [binAux_succ_cons]
      simp only [List.map_cons]
      exact List.Sublist.cons_cons _ ((ih _).trans (List.filter_sublist.map _))

/-- every retained record is (the record of) one of the inputs -/
theorem binAux_mem_fst (b : ℝ) (fuel : Nat) (l : List (Record ℝ × ℝ)) (y : Record ℝ × ℝ)
    (hy : y ∈ binAux b fuel l) : ∃ x ∈ l, x.1 = y.1 := by
  have h1 : y.1 ∈ (binAux b fuel l).map (·.1) := List.mem_map_of_mem hy
  have h2 := (binAux_sublist b fuel l).subset h1
  obtain ⟨x, hx, hxy⟩ := List.mem_map.mp h2
  exact ⟨x, hx, hxy⟩

theorem binAux_pairwise (b : ℝ) (fuel : Nat) (l : List (Record ℝ × ℝ)) (hl : l.length ≤ fuel) :
    (binAux b fuel l).Pairwise (fun y z => close b y.1 z.1 = false) := by
  induction fuel generalizing l with
  | zero =>
    have : l = [] := List.length_eq_zero_iff.mp (Nat.le_zero.mp hl)
    subst this
    rw [binAux_zero]; exact List.Pairwise.nil
  | succ fuel ih =>
    cases l with
    | nil => rw [binAux_nil]; exact List.Pairwise.nil
    | cons a rest =>
      obtain ⟨r, w⟩ := a
      rw [binAux_succ_cons, List.pairwise_cons]
      refine ⟨?_, ?_⟩
      · intro z hz
        obtain ⟨x, hx, hxz⟩ := binAux_mem_fst b fuel _ z hz
        have := (List.mem_filter.mp hx).2
        rw [← hxz]
        simpa using this
      · apply ih
        have h1 := List.length_filter_le (fun x : Record ℝ × ℝ => !close b r x.1) rest
        simp only [List.length_cons] at hl
        omega

theorem binAux_covers (b : ℝ) (fuel : Nat) (l : List (Record ℝ × ℝ)) (x : Record ℝ × ℝ)
    (hx : x ∈ l) : ∃ y ∈ binAux b fuel l, y.1 = x.1 ∨ close b y.1 x.1 = true := by
  induction fuel generalizing l with
  | zero => rw [binAux_zero]; exact ⟨x, hx, Or.inl rfl⟩
  | succ fuel ih =>
    cases l with
    | nil => cases hx
    | cons a rest =>
      obtain ⟨r, w⟩ := a
      rw [binAux_succ_cons]
      rcases List.mem_cons.mp hx with hxa | hxr
      · exact ⟨_, List.mem_cons_self, Or.inl (by rw [hxa])⟩
      · by_cases hc : close b r x.1 = true
        · exact ⟨_, List.mem_cons_self, Or.inr hc⟩
        · have hxo : x ∈ rest.filter fun x => !close b r x.1 := by
            rw [List.mem_filter]
            exact ⟨hxr, by simpa using hc⟩
          obtain ⟨y, hy, hyx⟩ := ih _ hxo
          exact ⟨y, List.mem_cons_of_mem _ hy, hyx⟩

end MTfitVerif.Scatangle
