import MTfitVerif.Model.JobPool
/-
  Helper lemmas for C16 (worker pool): list facts (filterMap / filter under `List.set`, `lookup`
  with unique keys, permutation bookkeeping) and characterisations of the enabled steps.
  Mathlib-free: only core `List` lemmas.
-/
namespace MTfitVerif
namespace JobPool
open List

/-! ### generic list lemmas -/

/-- replacing an entry that contributes nothing by one that contributes `b` inserts `b` -/
theorem filterMap_set_some {α β : Type} (f : α → Option β) {x y : α} {b : β} (hx : f x = none)
    (hy : f y = some b) :
    ∀ (ws : List α) (w : Nat), ws[w]? = some x → ((ws.set w y).filterMap f).Perm (b :: ws.filterMap f) := by
  intro ws
  induction ws with
  | nil => intro w h; simp at h
  | cons a t ih =>
    intro w h
    cases w with
    | zero =>
      simp only [getElem?_cons_zero, Option.some.injEq] at h
      subst h
      simp [List.set, hx, hy]
    | succ w =>
      simp only [getElem?_cons_succ] at h
      have := ih w h
      simp only [List.set, filterMap_cons]
      cases f a with
      | none => simpa using this
      | some c => exact (Perm.cons c this).trans (Perm.swap b c _)

/-- replacing an entry that contributes `b` by one that contributes nothing removes `b` -/
theorem filterMap_set_none {α β : Type} (f : α → Option β) {x y : α} {b : β} (hx : f x = some b)
    (hy : f y = none) :
    ∀ (ws : List α) (w : Nat), ws[w]? = some x → (ws.filterMap f).Perm (b :: (ws.set w y).filterMap f) := by
  intro ws
  induction ws with
  | nil => intro w h; simp at h
  | cons a t ih =>
    intro w h
    cases w with
    | zero =>
      simp only [getElem?_cons_zero, Option.some.injEq] at h
      subst h
      simp [List.set, hx, hy]
    | succ w =>
      simp only [getElem?_cons_succ] at h
      have := ih w h
      simp only [List.set, filterMap_cons]
      cases f a with
      | none => simpa using this
      | some c => exact (Perm.cons c this).trans (Perm.swap b c _)

/-- replacing an entry by one with the same contribution changes nothing -/
theorem filterMap_set_same {α β : Type} (f : α → Option β) {x y : α} (hxy : f x = f y) :
    ∀ (ws : List α) (w : Nat), ws[w]? = some x → (ws.set w y).filterMap f = ws.filterMap f := by
  intro ws
  induction ws with
  | nil => intro w h; simp at h
  | cons a t ih =>
    intro w h
    cases w with
    | zero =>
      simp only [getElem?_cons_zero, Option.some.injEq] at h
      subst h
      simp [List.set, filterMap_cons, hxy]
    | succ w =>
      simp only [getElem?_cons_succ] at h
      simp only [List.set, filterMap_cons, ih w h]

/-- counting the entries satisfying `p` before and after `List.set` -/
theorem length_filter_set {α : Type} (p : α → Bool) {x y : α} :
    ∀ (ws : List α) (w : Nat), ws[w]? = some x →
      ((ws.set w y).filter p).length + (if p x then 1 else 0) =
        (ws.filter p).length + (if p y then 1 else 0) := by
  intro ws
  induction ws with
  | nil => intro w h; simp at h
  | cons a t ih =>
    intro w h
    cases w with
    | zero =>
      simp only [getElem?_cons_zero, Option.some.injEq] at h
      subst h
      simp only [List.set, filter_cons]
      cases p a <;> cases p y <;> simp <;> omega
    | succ w =>
      simp only [getElem?_cons_succ] at h
      have := ih w h
      simp only [List.set, filter_cons]
      cases p a <;> simp <;> omega

theorem length_filter_set_of_false {α : Type} (p : α → Bool) {x y : α} (hx : p x = false) (hy : p y = false)
    (ws : List α) (w : Nat) (h : ws[w]? = some x) :
    ((ws.set w y).filter p).length = (ws.filter p).length := by
  have := length_filter_set p (y := y) ws w h
  rw [hx, hy] at this
  simpa using this

theorem length_filter_set_le {α : Type} (p : α → Bool) {x y : α} (hx : p x = false)
    (ws : List α) (w : Nat) (h : ws[w]? = some x) :
    ((ws.set w y).filter p).length ≤ (ws.filter p).length + 1 := by
  have := length_filter_set p (y := y) ws w h
  rw [hx] at this
  cases hy : p y <;> simp [hy] at this <;> omega

theorem lookup_eq_none_iff_not_mem {β : Type} (l : List (Nat × β)) (k : Nat) :
    l.lookup k = none ↔ k ∉ l.map (fun p => p.1) := by
  rw [lookup_eq_none_iff]
  simp only [mem_map, not_exists, not_and, bne_iff_ne, ne_eq]
  constructor
  · intro h p hp e; exact h p hp e.symm
  · intro h p hp e; exact h p hp e.symm

theorem lookup_cons_ne {β : Type} (l : List (Nat × β)) {k id : Nat} (v : β) (h : k ≠ id) :
    lookup k ((id, v) :: l) = lookup k l := by
  rw [lookup_cons]
  have : (k == id) = false := by simpa using h
  rw [this]

/-- with unique keys `lookup` finds every pair of the list -/
theorem lookup_of_mem_nodup {β : Type} :
    ∀ (l : List (Nat × β)), (l.map (fun p => p.1)).Nodup → ∀ p ∈ l, l.lookup p.1 = some p.2 := by
  intro l
  induction l with
  | nil => intro _ p hp; simp at hp
  | cons a t ih =>
    intro hn p hp
    obtain ⟨k, v⟩ := a
    simp only [map_cons, nodup_cons] at hn
    rcases mem_cons.mp hp with rfl | hp
    · simp
    · have hne : p.1 ≠ k := by
        intro e
        apply hn.1
        rw [← e]
        exact mem_map.mpr ⟨p, hp, rfl⟩
      rw [lookup_cons_ne _ _ hne]
      exact ih hn.2 p hp

/-- with unique keys, filtering the pairs on the value is filtering the keys on the looked-up value -/
theorem map_fst_filter_snd {β : Type} (l : List (Nat × β))
    (q : β → Bool) (q' : Nat → Bool) (hq : ∀ p ∈ l, q' p.1 = q p.2) :
    (l.filter (fun p => q p.2)).map (fun p => p.1) = (l.map (fun p => p.1)).filter q' := by
  rw [filter_map]
  congr 1
  apply filter_congr
  intro p hp
  simp [hq p hp]

/-- a list split in two parts, the first satisfying `q` throughout and the second nowhere -/
theorem filter_append_of_all_none {α : Type} (q : α → Bool) (l₁ l₂ : List α) (h₁ : ∀ a ∈ l₁, q a = true)
    (h₂ : ∀ a ∈ l₂, q a = false) : (l₁ ++ l₂).filter q = l₁ := by
  rw [filter_append, filter_eq_self.mpr h₁, filter_eq_nil_iff.mpr (by intro a ha; simp [h₂ a ha])]
  simp

/-! ### permutation bookkeeping for the five places -/

theorem take_perm {T R R' : List Nat} {id : Nat} (hid : id ∈ T) (hR : R'.Perm (id :: R)) :
    (T.erase id ++ R').Perm (T ++ R) := by
  have h1 : (T.erase id ++ R').Perm (T.erase id ++ id :: R) := Perm.append_left _ hR
  have h2 : (T.erase id ++ id :: R).Perm (id :: (T.erase id ++ R)) := perm_middle
  have h3 : (id :: (T.erase id ++ R)).Perm (T ++ R) := by
    have := (perm_cons_erase hid).symm
    exact Perm.append_right R this
  exact h1.trans (h2.trans h3)

theorem finish_perm {T R R' Q : List Nat} {id : Nat} (hR : R.Perm (id :: R')) :
    (T ++ R' ++ id :: Q).Perm (T ++ R ++ Q) := by
  have h1 : (T ++ R' ++ id :: Q).Perm (id :: (T ++ R' ++ Q)) := perm_middle
  have h2 : (T ++ R).Perm (id :: (T ++ R')) := (Perm.append_left T hR).trans perm_middle
  have h3 : (T ++ R ++ Q).Perm (id :: (T ++ R') ++ Q) := Perm.append_right Q h2
  exact h1.trans h3.symm

theorem collect_perm_skipped {A Q C S : List Nat} {id : Nat} (hid : id ∈ Q) :
    (A ++ Q.erase id ++ C ++ id :: S).Perm (A ++ Q ++ C ++ S) := by
  have h1 : (A ++ Q.erase id ++ C ++ id :: S).Perm (id :: (A ++ Q.erase id ++ C ++ S)) := perm_middle
  have h2 : (A ++ Q).Perm (id :: (A ++ Q.erase id)) :=
    (Perm.append_left A (perm_cons_erase hid)).trans perm_middle
  have h3 : (A ++ Q ++ C ++ S).Perm (id :: (A ++ Q.erase id) ++ C ++ S) :=
    Perm.append_right S (Perm.append_right C h2)
  exact h1.trans h3.symm

theorem collect_perm_collected {A Q C S : List Nat} {id : Nat} (hid : id ∈ Q) :
    (A ++ Q.erase id ++ id :: C ++ S).Perm (A ++ Q ++ C ++ S) := by
  have h1 : (A ++ Q.erase id ++ id :: C).Perm (id :: (A ++ Q.erase id ++ C)) := perm_middle
  have h2 : (A ++ Q).Perm (id :: (A ++ Q.erase id)) :=
    (Perm.append_left A (perm_cons_erase hid)).trans perm_middle
  have h3 : (A ++ Q ++ C ++ S).Perm (id :: (A ++ Q.erase id) ++ C ++ S) :=
    Perm.append_right S (Perm.append_right C h2)
  exact (Perm.append_right S h1).trans h3.symm

/-! ### the running ids -/

/-- task id carried by a worker state -/
def rid : WState → Option Nat
  | .running id => some id
  | _ => none

@[simp] theorem rid_idle : rid .idle = none := rfl
@[simp] theorem rid_dead : rid .dead = none := rfl
@[simp] theorem rid_exited : rid .exited = none := rfl
@[simp] theorem rid_running (id : Nat) : rid (.running id) = some id := rfl

theorem rid_eq_some {x : WState} {id : Nat} (h : rid x = some id) : x = .running id := by
  cases x <;> simp [rid] at h
  rw [h]

theorem running_eq (s : State) : running s = s.workers.filterMap rid := rfl

theorem filterMap_rid_replicate (n : Nat) {x : WState} (h : rid x = none) :
    (replicate n x).filterMap rid = [] := by
  induction n with
  | zero => rfl
  | succ n ih => simp [replicate_succ, h, ih]

/-- worker replacement used by `clean` -/
def revive (w : WState) : WState := if w = .dead then .idle else w

theorem rid_revive (w : WState) : rid (revive w) = rid w := by
  cases w <;> simp [revive]

theorem revive_ne_dead (w : WState) : revive w ≠ .dead := by
  cases w <;> simp [revive]

theorem filterMap_rid_map_revive (ws : List WState) :
    (ws.map revive).filterMap rid = ws.filterMap rid := by
  rw [filterMap_map]
  congr 1
  funext w
  exact rid_revive w

theorem exists_running_index {ws : List WState} (h : ws.filterMap rid ≠ []) :
    ∃ (w id : Nat), ws[w]? = some (WState.running id) := by
  obtain ⟨id, hid⟩ := exists_mem_of_ne_nil _ h
  obtain ⟨x, hx, hr⟩ := mem_filterMap.mp hid
  rw [rid_eq_some hr] at hx
  obtain ⟨w, hw⟩ := mem_iff_getElem?.mp hx
  exact ⟨w, id, hw⟩

/-! ### characterisation of the enabled steps -/

theorem step_submit {s s' : State} {id : Nat} {k : Kind} (h : step s (.submit id k) = some s') :
    s.kinds.lookup id = none ∧
      s' = { s with kinds := (id, k) :: s.kinds, taskQ := id :: s.taskQ, numberJobs := s.numberJobs + 1 } := by
  simp only [step] at h
  split at h
  · simp at h
  · rename_i hg
    simp only [Option.some.injEq] at h
    refine ⟨?_, h.symm⟩
    cases hl : s.kinds.lookup id with
    | none => rfl
    | some v => simp [hl] at hg

theorem step_take {s s' : State} {w id : Nat} (h : step s (.take w id) = some s') :
    s.workers[w]? = some .idle ∧ id ∈ s.taskQ ∧
      s' = { s with taskQ := s.taskQ.erase id, workers := s.workers.set w (.running id) } := by
  simp only [step, setW] at h
  split at h
  · rename_i hg
    simp only [Option.some.injEq] at h
    exact ⟨hg.1, hg.2, h.symm⟩
  · simp at h

theorem step_finish {s s' : State} {w : Nat} (h : step s (.finish w) = some s') :
    ∃ id, s.workers[w]? = some (.running id) ∧
      s' = { s with resultQ := id :: s.resultQ,
                    workers := s.workers.set w (if kindOf s id = some .raise then .dead else .idle) } := by
  simp only [step, setW] at h
  split at h
  · rename_i id hw
    simp only [Option.some.injEq] at h
    exact ⟨id, hw, h.symm⟩
  · simp at h

theorem step_finish_enabled {s : State} {w id : Nat} (hw : s.workers[w]? = some (.running id)) :
    step s (.finish w) =
      some { s with resultQ := id :: s.resultQ,
                    workers := s.workers.set w (if kindOf s id = some .raise then .dead else .idle) } := by
  simp only [step, setW, hw]

theorem step_collect {s s' : State} {id : Nat} (h : step s (.collect id) = some s') :
    id ∈ s.resultQ ∧ 0 < s.numberJobs ∧
      ((kindOf s id = some .code ∧
          s' = { s with resultQ := s.resultQ.erase id, numberJobs := s.numberJobs - 1,
                        skipped := id :: s.skipped }) ∨
       (kindOf s id ≠ some .code ∧
          s' = { s with resultQ := s.resultQ.erase id, numberJobs := s.numberJobs - 1,
                        collected := id :: s.collected })) := by
  simp only [step] at h
  split at h
  · rename_i hg
    refine ⟨hg.1, hg.2, ?_⟩
    split at h
    · rename_i hk
      simp only [Option.some.injEq] at h
      exact Or.inl ⟨hk, h.symm⟩
    · rename_i hk
      simp only [Option.some.injEq] at h
      exact Or.inr ⟨hk, h.symm⟩
  · simp at h

theorem step_clean {s s' : State} (h : step s .clean = some s') :
    s' = { s with workers := s.workers.map revive } := by
  simp only [step, Option.some.injEq] at h
  exact h.symm

theorem step_close {s s' : State} (h : step s .close = some s') :
    s' = { s with pills := s.pills + s.workers.length } := by
  simp only [step, Option.some.injEq] at h
  exact h.symm

theorem step_takePill {s s' : State} {w : Nat} (h : step s (.takePill w) = some s') :
    s.workers[w]? = some .idle ∧ 0 < s.pills ∧
      s' = { s with pills := s.pills - 1, workers := s.workers.set w .exited } := by
  simp only [step, setW] at h
  split at h
  · rename_i hg
    simp only [Option.some.injEq] at h
    exact ⟨hg.1, hg.2, h.symm⟩
  · simp at h

theorem step_takePill_enabled {s : State} {w : Nat} (hw : s.workers[w]? = some .idle) (hp : 0 < s.pills) :
    step s (.takePill w) = some { s with pills := s.pills - 1, workers := s.workers.set w .exited } := by
  simp only [step, setW, hw, hp, and_self, if_true]

/-! ### closing -/

/-- from `k` exited and `m` idle workers with `m` pills, the workers `k, …, k+m-1` take a pill each -/
theorem run_takePills : ∀ (m k : Nat) (s : State),
    s.workers = replicate k .exited ++ replicate m .idle → s.pills = m →
    ∃ s', run s ((List.range' k m).map .takePill) = some s' ∧
      s'.workers = replicate (k + m) .exited ∧ s'.pills = 0 := by
  intro m
  induction m with
  | zero =>
    intro k s hw hp
    exact ⟨s, rfl, by simpa using hw, hp⟩
  | succ m ih =>
    intro k s hw hp
    have hk : s.workers[k]? = some .idle := by
      rw [hw, getElem?_append_right (by simp)]
      simp
    have hstep := step_takePill_enabled hk (by omega)
    have hset : s.workers.set k .exited = replicate (k + 1) .exited ++ replicate m .idle := by
      rw [hw, set_append]
      simp only [length_replicate, Nat.lt_irrefl, if_false, Nat.sub_self]
      rw [replicate_succ' (n := k), append_assoc]; rfl
    obtain ⟨s', hr, hw', hp'⟩ := ih (k + 1)
      { s with pills := s.pills - 1, workers := s.workers.set k .exited } hset (by simp; omega)
    refine ⟨s', ?_, ?_, hp'⟩
    · rw [range'_succ, map_cons, run, hstep]
      exact hr
    · rw [hw']
      congr 1
      omega

end JobPool
end MTfitVerif
