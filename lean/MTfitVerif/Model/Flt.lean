/-
  Scalar interface shared by every numeric model.

  Model code is written once against `Flt α` and interpreted twice:
  * at `Float` (this file, core Lean only) it is executable and is what the
    correspondence harness runs against MTfit;
  * at `ℝ` (`MTfitVerif/Real/Inst.lean`, Mathlib) it is what the theorems are about.

  Arithmetic comes from the ordinary `Add/Sub/Mul/Div/Neg` instances of the carrier so
  that, over `ℝ`, model terms are ordinary Mathlib terms.
-/
namespace MTfitVerif

class Flt (α : Type) [Add α] [Sub α] [Mul α] [Div α] [Neg α] where
  ofNat : Nat → α
  /-- `ofSci m s e` is the decimal literal `m * 10^(if s then -e else e)`. -/
  ofSci : Nat → Bool → Nat → α
  pi : α
  sqrt : α → α
  sin : α → α
  cos : α → α
  tan : α → α
  exp : α → α
  log : α → α
  abs : α → α
  acos : α → α
  asin : α → α
  atan : α → α
  erf : α → α
  floor : α → α
  atan2 : α → α → α
  ltb : α → α → Bool
  leb : α → α → Bool
  eqb : α → α → Bool

section
variable {α : Type} [Add α] [Sub α] [Mul α] [Div α] [Neg α] [Flt α]

/-- natural-number literal -/
@[reducible] def c (n : Nat) : α := Flt.ofNat n
/-- decimal literal `m·10^-e` -/
@[reducible] def sci (m e : Nat) : α := Flt.ofSci m true e
/-- `1/2` -/
@[reducible] def half : α := c 1 / c 2

def fmax (a b : α) : α := if Flt.ltb a b then b else a
def fmin (a b : α) : α := if Flt.ltb b a then b else a

def sumL : List α → α
  | [] => c 0
  | x :: xs => x + sumL xs

def dot : List α → List α → α
  | x :: xs, y :: ys => x * y + dot xs ys
  | _, _ => c 0
end

/-! ### `Float` instance -/

namespace FloatImpl

/-- `2/√π` -/
def twoOverSqrtPi : Float := 1.1283791670955126

/-- Kummer series `erf x = 2/√π · e^{-x²} · Σ 2ⁿ x^{2n+1}/(2n+1)!!` (all terms positive). -/
def erfSeries (x : Float) : Float := Id.run do
  let x2 := x * x
  let mut term := x
  let mut s := x
  for n in [1:200] do
    term := term * (2.0 * x2) / (2.0 * n.toFloat + 1.0)
    s := s + term
    if term < 1e-18 * s then break
  return twoOverSqrtPi * Float.exp (-x2) * s

/-- `erfc x` for `x ≥ 2` by the Laplace continued fraction evaluated backwards. -/
def erfcCF (x : Float) : Float := Id.run do
  -- erfc x = e^{-x²}/√π · 1/(x + (1/2)/(x + 1/(x + (3/2)/(x + 2/(x + …)))))
  let mut f := x
  for i in [0:120] do
    let k := (120 - i).toFloat
    f := x + (k / 2.0) / f
  return Float.exp (-(x * x)) / (1.7724538509055159 * f)

def erf (x : Float) : Float :=
  if x != x then x
  else
    let ax := Float.abs x
    let r := if ax < 2.5 then erfSeries ax
             else if ax > 6.5 then 1.0
             else 1.0 - erfcCF ax
    if x < 0.0 then -r else r

end FloatImpl

instance : Flt Float where
  ofNat := Float.ofNat
  ofSci := Float.ofScientific
  pi := 3.141592653589793
  sqrt := Float.sqrt
  sin := Float.sin
  cos := Float.cos
  tan := Float.tan
  exp := Float.exp
  log := Float.log
  abs := Float.abs
  acos := Float.acos
  asin := Float.asin
  atan := Float.atan
  erf := FloatImpl.erf
  floor := Float.floor
  atan2 := Float.atan2
  ltb a b := a < b
  leb a b := a ≤ b
  eqb a b := a == b

end MTfitVerif
