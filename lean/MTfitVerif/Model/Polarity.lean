import MTfitVerif.Model.LogP
/-
  Model of `polarity_ln_pdf` and `polarity_probability_ln_pdf` (probability.py, Python path) — C02.

  `a[s][k]` is the six-vector of station coefficients of station `s` for location sample `k`
  (the observed polarity is already folded into it by `polarity_matrix`), `mts[j]` a moment
  tensor six-vector.  The result is indexed `[k][j]`; stations are multiplied (logs summed).
-/
namespace MTfitVerif
namespace Polarity
open LogP
variable {α : Type} [Add α] [Sub α] [Mul α] [Div α] [Neg α] [Flt α]

/-- `sigma[sigma == 0] = _SMALL_NUMBER` with `_SMALL_NUMBER = 1e-24` -/
def sigmaFix (σ : α) : α := if Flt.eqb σ (c 0) then sci 1 24 else σ

/-- probability of the observed polarity for modelled amplitude `A` (polarity folded in),
    uncertainty `σ` (already fixed) and mispick probability `w` -/
def polProbRaw (A σ w : α) : α :=
  (half * (c 1 + Flt.erf (A / (Flt.sqrt (c 2) * σ)))) * (c 1 - w) +
  (half * (c 1 + Flt.erf (-A / (Flt.sqrt (c 2) * σ)))) * w

def polProb (A σ w : α) : α := polProbRaw A (sigmaFix σ) w

/-- `heaviside(x) = 0.5 (sign x + 1)` -/
def heav (x : α) : α :=
  if Flt.ltb x (c 0) then c 0 else if Flt.ltb (c 0) x then c 1 else half

/-- polarity-probability likelihood: step mixture of the positive / negative pick probabilities -/
def polProbP (A pp pn w : α) : α :=
  (heav A * pp + heav (-A) * pn) * (c 1 - w) + (heav A * pn + heav (-A) * pp) * w

/-- one station record for manual polarities -/
structure PolStation (α : Type) where
  coeffs : List (List α)     -- per location sample
  sigma : α
  w : α

structure PolProbStation (α : Type) where
  coeffs : List (List α)
  pp : α
  pn : α
  w : α

/-- log-likelihood of one tensor at one location sample: sum over stations of `log p` -/
def lnPolAt (sts : List (PolStation α)) (k : Nat) (mt : List α) : LogP α :=
  LogP.sum (sts.map fun s => ofProb (polProb (dot (s.coeffs.getD k []) mt) s.sigma s.w))

def lnPolProbAt (sts : List (PolProbStation α)) (k : Nat) (mt : List α) : LogP α :=
  LogP.sum (sts.map fun s => ofProb (polProbP (dot (s.coeffs.getD k []) mt) s.pp s.pn s.w))

/-- `polarity_ln_pdf`: `[k][j]` -/
def polarityLnPdf (sts : List (PolStation α)) (nloc : Nat) (mts : List (List α)) : List (List (LogP α)) :=
  (List.range nloc).map fun k => mts.map fun mt => lnPolAt sts k mt

def polarityProbabilityLnPdf (sts : List (PolProbStation α)) (nloc : Nat) (mts : List (List α)) :
    List (List (LogP α)) :=
  (List.range nloc).map fun k => mts.map fun mt => lnPolProbAt sts k mt

end Polarity
end MTfitVerif
