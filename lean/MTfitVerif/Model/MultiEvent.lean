import MTfitVerif.Model.RatioPdf
/-
  Model of the joint multiple-event forward task (`MultipleEventsForwardTask.__call__`, combined
  mode, one location sample), the station intersection (`_intersect_stations`), the relative
  amplitude-ratio likelihood (`relative_amplitude_ratio_ln_pdf`), the per-station scale estimate
  (`scale_estimator`) and its combination over stations (`combine_mu`) — C15.

  The log-probability of every event on its own is an input (`Event.ln`): it is the result of the
  single-event forward task, which is the subject of C01.
-/
namespace MTfitVerif
namespace MultiEvent
open LogP RatioPdf
variable {α : Type} [Add α] [Sub α] [Mul α] [Div α] [Neg α] [Flt α]

/-- one relative-amplitude observation of an event: station (name token), ray coefficients,
    absolute amplitude and fractional error -/
structure RelObs (α : Type) where
  name : Nat
  a : List α
  amp : α
  err : α

/-- first observation of station `n` in `l`, and `l` without it -/
def extract (n : Nat) : List (RelObs α) → Option (RelObs α × List (RelObs α))
  | [] => none
  | t :: ts =>
    if t.name = n then some (t, ts)
    else match extract n ts with
      | some (u, rest) => some (u, t :: rest)
      | none => none

/-- `_intersect_stations`: the observations of event `i`, in its own order, that have a partner
    at the same station in event `j`, each with that partner (an observation of `j` is used once) -/
def pairs : List (RelObs α) → List (RelObs α) → List (RelObs α × RelObs α)
  | [], _ => []
  | s :: si, sj =>
    match extract s.name sj with
    | some (t, rest) => (s, t) :: pairs si rest
    | none => pairs si sj

/-- `scale_estimator` for one station: mean and standard deviation of the scale factor given the
    observed ratio `r`, modelled amplitudes `μx`, `μy` and fractional errors `ex`, `ey` -/
def stationScale (r μx μy ex ey : α) : α × α :=
  let sx := ex * μx
  let sy := ey * μy
  let μx2 := μx * μx
  let μx3 := μx2 * μx
  let sx2 := sx * sx
  let sy2 := sy * sy
  let μ1 := μy * r / μx
  let s1 := Flt.sqrt ((sy2 * r * r + sx2) / μx2)
  let s12 := s1 * s1
  let μ12 := μ1 * μ1
  let A := μx * r * sy2 / μx3
  let B := μy * sx2 / μx3
  let C := Flt.sqrt (c 2 / Flt.pi) * (sx2 * sy * Flt.exp (-half * (μy * μy / sy2)) / (μx3 * s12))
  let N := A * μ1 + B + C
  let μ := (A * (s12 + μ12) + B * μ1) / N
  let s := Flt.sqrt ((A * (c 3 * (s12 * μ1) + μ12 * μ1) + B * (s12 + μ12) + C * (sx2 / μx2)) / N - μ * μ)
  (μ, s)

/-- one step of `combine_mu` -/
def combineStep (acc : α × α) (x : α × α) : α × α :=
  let si2 := x.2 * x.2
  let s2 := acc.2 * acc.2
  ((acc.1 * si2 + x.1 * s2) / (s2 + si2), acc.2 * x.2 / Flt.sqrt (s2 + si2))

/-- `combine_mu`: the first station initialises, the others are folded in -/
def combineMu : List (α × α) → Option (α × α)
  | [] => none
  | x :: xs => some (xs.foldl combineStep x)

/-- modelled amplitudes, observed ratio and errors of a station pair for the tuple `(m₁, m₂)` -/
structure PairVals (α : Type) where
  r : α
  μx : α
  μy : α
  ex : α
  ey : α

def pairVals (m₁ m₂ : List α) (p : RelObs α × RelObs α) : PairVals α :=
  { r := p.1.amp / p.2.amp, μx := Flt.abs (dot p.1.a m₁), μy := Flt.abs (dot p.2.a m₂),
    ex := errFix p.1.err, ey := errFix p.2.err }

/-- likelihood of one observed ratio once the scale factor is known -/
def stationProb (scale : α) (v : PairVals α) : α :=
  let μx := scale * v.μx
  let sx := v.ex * μx
  let sy := v.ey * v.μy
  ratioPdf v.r μx v.μy sx sy + ratioPdf (-v.r) μx v.μy sx sy

/-- `relative_amplitude_ratio_ln_pdf` for one tuple: log-likelihood summed over the station
    pairs, the scale factor and its uncertainty.  A modelled amplitude of exactly zero makes the
    code's scale estimate NaN, which is sanitised to probability zero. -/
def relTerm (ps : List (RelObs α × RelObs α)) (m₁ m₂ : List α) : Option (LogP α × α × α) :=
  let vs := ps.map (pairVals m₁ m₂)
  match combineMu (vs.map fun v => stationScale v.r v.μx v.μy v.ex v.ey) with
  | none => none
  | some (scale, unc) =>
    if vs.any fun v => Flt.eqb v.μx (c 0) || Flt.eqb v.μy (c 0) then some (negInf, scale, unc)
    else some (LogP.sum (vs.map fun v => ofProb (stationProb scale v)), scale, unc)

/-- an event of the joint task: its own log-probability for the candidate source, the candidate
    source, and its relative-amplitude observations -/
structure Event (α : Type) where
  ln : LogP α
  mt : List α
  rel : List (RelObs α)

/-- the term of the event pair `(i, j)`, `i` the later event: nothing (log 1) when the events
    share fewer stations than `minInt` (or none at all) -/
def pairTerm (minInt : Nat) (ei ej : Event α) : LogP α :=
  let ps := pairs ei.rel ej.rel
  if ps.length < minInt then fin (c 0)
  else match relTerm ps ei.mt ej.mt with
    | none => fin (c 0)
    | some (l, _, _) => l

/-- the loop of `__call__` (combined mode): events in order; after event `i` has been added its
    pair terms with every earlier event `j` are added -/
def jointAux (relative : Bool) (minInt : Nat) : List (Event α) → List (Event α) → LogP α → LogP α
  | _, [], acc => acc
  | done, e :: rest, acc =>
    let acc := add acc e.ln
    let acc := if relative then done.foldl (fun a ej => add a (pairTerm minInt e ej)) acc else acc
    jointAux relative minInt (done ++ [e]) rest acc

def joint (relative : Bool) (minInt : Nat) (evs : List (Event α)) : LogP α :=
  jointAux relative minInt [] evs (fin (c 0))

/-- scale factor reported for the pair `(i, j)` -/
def pairScale (minInt : Nat) (ei ej : Event α) : Option (α × α) :=
  let ps := pairs ei.rel ej.rel
  if ps.length < minInt then none
  else match relTerm ps ei.mt ej.mt with
    | none => none
    | some (_, s, u) => some (s, u)

end MultiEvent
end MTfitVerif
