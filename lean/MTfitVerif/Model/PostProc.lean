import MTfitVerif.Model.Flt
/-
  Model of result post-processing — C19:
  * the plotting container `MTData` (plot/plot_classes.py): indexing, probability-weighted mean,
    maximum-probability selection, collapsing a Markov chain to unique samples with counts
    (`unique_columns`, utilities/file_io.py);
  * the focal-sphere projections `equal_area`, `equal_angle` (plot/spherical_projection.py).
  Tensor columns are six-vectors; for the unique-column reduction they are opaque tokens ordered
  like the columns (the harness maps each column to its lexicographic rank).
-/
namespace MTfitVerif
namespace PostProc
variable {α : Type} [Add α] [Sub α] [Mul α] [Div α] [Neg α] [Flt α]

/-- `x[:, idx]` for an index list (out-of-range indices are an error in NumPy: `none`) -/
def select {β : Type} (l : List β) (idx : List Nat) : Option (List β) := idx.mapM fun i => l[i]?

/-- probability-weighted mean of one tensor component: `Σ pᵢ mᵢ / Σ pᵢ` -/
def wmean (ps ms : List α) : α := sumL ((List.zip ms ps).map fun p => p.1 * p.2) / sumL ps

/-- `get_mean`: component-wise weighted mean of the six-vectors -/
def meanMt (cols : List (List α)) (ps : List α) : List α :=
  (List.range 6).map fun k => wmean ps (cols.map fun col => col.getD k (c 0))

def maxL : List α → Option α
  | [] => none
  | x :: xs => match maxL xs with
    | none => some x
    | some m => some (fmax x m)

/-- `get_max_probability`: indices of the samples whose probability equals the maximum -/
def maxProbIdx (ps : List α) : List Nat :=
  match maxL ps with
  | none => []
  | some m => (List.range ps.length).filter fun i => Flt.eqb (ps.getD i (c 0)) m

def insertTok (x : Nat) : List (Nat × Nat) → List (Nat × Nat)
  | [] => [(x, 1)]
  | (y, n) :: ys => if x < y then (x, 1) :: (y, n) :: ys else if x = y then (y, n + 1) :: ys else (y, n) :: insertTok x ys

/-- `unique_columns(data, counts=True)`: distinct columns in sorted order, each with its multiplicity -/
def uniqueCounts : List Nat → List (Nat × Nat)
  | [] => []
  | x :: xs => insertTok x (uniqueCounts xs)

/-- focal-sphere projection of `(x, y, z)` (z positive down).  `none`: the point is not shown (NaN). -/
def project (area : Bool) (lower fullSphere backProject : Bool) (x y z : α) : Option (α × α) :=
  let corr (zz : α) : α :=
    let d := if lower then c 1 + zz else c 1 - zz
    if area then Flt.sqrt (c 2 / d) else c 1 / d
  let hidden := !fullSphere && (if lower then Flt.ltb z (c 0) else Flt.ltb (c 0) z)
  if !hidden then
    -- the far pole (division by zero): `0 * inf` is NaN, which back-projection replaces by the antipode;
    -- anything else there is infinite and not shown
    if Flt.eqb (if lower then c 1 + z else c 1 - z) (c 0) then
      (if backProject && Flt.eqb x (c 0) && Flt.eqb y (c 0) then some (-x * corr (-z), -y * corr (-z)) else none)
    else some (x * corr z, y * corr z)
  else if backProject then
    if Flt.eqb (if lower then c 1 + (-z) else c 1 - (-z)) (c 0) then none else some (-x * corr (-z), -y * corr (-z))
  else none

end PostProc
end MTfitVerif
