import MTfitVerif.Model.Matrices
import MTfitVerif.Model.LogDomain
/-
  Model of `ForwardTask.__call__` (inversion.py, Python path) — C01.

  Data are the station lists produced by the matrix builders.  Polarity information is either
  manual polarities or polarity probabilities (manual polarities win when both are present, as
  in the code).  With more than one location sample the per-sample log-likelihoods get
  `log wₖ` added (when weights are given) and are reduced with log-sum-exp over the samples
  when `marginalise` is set.
-/
namespace MTfitVerif
namespace Forward
open LogP Polarity RatioPdf LogDomain
variable {α : Type} [Add α] [Sub α] [Mul α] [Div α] [Neg α] [Flt α]

structure Data (α : Type) where
  pol : List (PolStation α)
  polProb : List (PolProbStation α)
  ar : List (ArStation α)
  nloc : Nat
  weights : Option (List α)

/-- polarity (or polarity-probability) term for tensor `mt` at location sample `k` -/
def polTerm (d : Data α) (k : Nat) (mt : List α) : LogP α :=
  if !d.pol.isEmpty then lnPolAt d.pol k mt
  else if !d.polProb.isEmpty then lnPolProbAt d.polProb k mt
  else fin (c 0)

/-- log-likelihood of `mt` at location sample `k`: polarity term plus amplitude-ratio term -/
def lnAt (d : Data α) (k : Nat) (mt : List α) : LogP α :=
  if d.ar.isEmpty then polTerm d k mt else add (polTerm d k mt) (lnArAt d.ar k mt)

/-- `+ log wₖ` (only with location samples, i.e. `nloc > 1`, and weights given) -/
def weighted (d : Data α) (k : Nat) (x : LogP α) : LogP α :=
  match d.weights with
  | some ws => if d.nloc > 1 then shift x (Flt.log (ws.getD k (c 1))) else x
  | none => x

/-- the column of per-sample values of one tensor -/
def column (d : Data α) (mt : List α) : List (LogP α) :=
  (List.range d.nloc).map fun k => weighted d k (lnAt d k mt)

/-- marginalised value of one tensor -/
def value (d : Data α) (mt : List α) : LogP α :=
  if d.nloc > 1 then lnMargCol (column d mt) (c 1) else (column d mt).headD negInf

/-- `ln_pdf` rows of the result for a batch: one row when marginalised (or no location
    samples), otherwise one row per location sample -/
def lnPdfRows (d : Data α) (marginalise : Bool) (mts : List (List α)) : List (List (LogP α)) :=
  if marginalise || d.nloc ≤ 1 then [mts.map (value d)]
  else (List.range d.nloc).map fun k => mts.map fun mt => weighted d k (lnAt d k mt)

/-- zero filtering (`LnPDF.nonzero`): a tensor is kept iff its marginalised value is not `-∞` -/
def keep (d : Data α) (mt : List α) : Bool := isFin (value d mt)

/-- the task result: tensors (by index in the batch), ln_pdf rows, and `n` -/
def run (d : Data α) (marginalise returnZero : Bool) (mts : List (List α)) :
    List Nat × List (List (LogP α)) × Nat :=
  let idx := List.range mts.length
  if returnZero then (idx, lnPdfRows d marginalise mts, mts.length)
  else
    let kept := (List.zip idx mts).filter fun p => keep d p.2
    (kept.map (·.1), lnPdfRows d marginalise (kept.map (·.2)), mts.length)

/-- from a data dictionary: build the matrices (C11 model), then the task -/
def dataOf (types : List (Matrices.DataType α)) (loc : Option (Matrices.Loc α)) (weights : Option (List α)) :
    Option (Data α) := do
  let pol ← Matrices.polarityMatrix types loc
  let pp ← Matrices.polarityProbabilityMatrix types loc
  let ar ← Matrices.amplitudeRatioMatrix types loc
  let nloc := match loc with | none => 1 | some l => l.samples.length
  pure { pol := pol, polProb := pp, ar := ar, nloc := nloc, weights := weights }

end Forward
end MTfitVerif
