import MTfitVerif.Model.PyxKernels
/-
  Loop-free reading of the station loops of the compiled likelihood kernels (cprobability.pyx), used to state what the translated
  array kernels of `PyxKernels.lean` compute (C20).  Written by hand; polymorphic in the scalar type, so every statement about it
  holds for the `Float` instance that is run against the Python paths as well as over the reals.
-/
namespace MTfitVerif
namespace PyxSpec
variable {α : Type} [Add α] [Sub α] [Mul α] [Div α] [Neg α] [Flt α]

/-- cell `[u, v, k]` of a flat C-contiguous `(· × vmax × kmax)` array -/
def at3 (a : Array α) (vmax kmax u v k : Nat) : α := a.getD ((((u * vmax) * kmax) + (v * kmax)) + k) (c 0)
/-- cell `[k, w]` of a flat C-contiguous `(· × wmax)` array -/
def at2 (m : Array α) (wmax k w : Nat) : α := m.getD ((k * wmax) + w) (c 0)

/-- modelled amplitude `Σ_k a[u,v,k] · mt[k,w]`, summed left to right starting from 0 -/
def amp (a mt : Array α) (vmax kmax wmax u v w : Nat) : α :=
  (List.range kmax).foldl (fun x k => x + at3 a vmax kmax u v k * at2 mt wmax k w) (c 0)

/-- the C value `-inf` as the kernels write it -/
def negInf : α := -((c 1) / (c 0))

/-- add the station terms `t u, t (u+1), …` (`n` of them) to `acc`, stopping after the first station at which the running value
    equals `-inf` (the kernels `return` there) -/
def accumulate (t : Nat → α) : Nat → Nat → α → α
  | 0, _, acc => acc
  | n + 1, u, acc =>
    let acc' := acc + t u
    if Flt.eqb acc' negInf then acc' else accumulate t n (u + 1) acc'

/-- station term of the manual-polarity kernel: `log pol_pdf(amplitude, sigma[u], w[u or 0])` -/
def polTerm (a mt sigma ipp : Array α) (ipmax v vmax kmax wmax w u : Nat) : α :=
  Flt.log (Pyx.cprobability.pol_pdf (amp a mt vmax kmax wmax u v w) (sigma.getD u (c 0)) (ipp.getD (if ipmax == 1 then 0 else u) (c 0)))

/-- station term of the polarity-probability kernel -/
def polProbTerm (a mt pos neg ipp : Array α) (ipmax v vmax kmax wmax w u : Nat) : α :=
  Flt.log (Pyx.cprobability.pol_prob_pdf (amp a mt vmax kmax wmax u v w) (pos.getD u (c 0)) (neg.getD u (c 0))
    (ipp.getD (if ipmax == 1 then 0 else u) (c 0)))

/-- station term of the amplitude-ratio kernel -/
def arTerm (ax ay mt z psx psy : Array α) (v vmax kmax wmax w u : Nat) : α :=
  Flt.log (Pyx.cprobability.ar_pdf (z.getD u (c 0)) (amp ax mt vmax kmax wmax u v w) (amp ay mt vmax kmax wmax u v w)
    (psx.getD u (c 0)) (psy.getD u (c 0)))

end PyxSpec
end MTfitVerif
