/-
  Model of the bookkeeping of a Markov-chain run: `iterate`, `_add_new`, `_add_old`, `_add`,
  the learning window, the first chain sample and the chain-length termination
  (algorithms/markov_chain_monte_carlo.py) — C07.

  Sources and their log-likelihoods are opaque tokens bundled in an `Entry`; the outcome of each
  acceptance check is an input event, so the theorems hold for every accept/reject history.
-/
namespace MTfitVerif
namespace Chain

structure Entry where
  tok : Nat          -- the source
  ln : Nat           -- its log-likelihood (token)
  isDc : Bool
deriving DecidableEq, Repr

inductive Event where
  /-- a proposal is accepted; `u` proposals tried before it in the same iteration were rejected
      (`u = 0` for the single-try samplers) -/
  | accept (u : Nat) (e : Entry)
  /-- none of the `n` tried proposals is accepted (`n ≤ 1`: one proposal) -/
  | reject (n : Nat)
deriving Repr

structure State where
  learningLength : Nat
  window : Nat            -- acceptance_rate_window
  chainLength : Nat
  nLearnAcc : Nat         -- _number_learning_accepted
  learnWin : List Bool    -- _learning_accepted
  tried : Int             -- _tried
  accepted : Int          -- _accepted
  cur : Entry             -- xi, ln_likelihood_xi
  chain : List Entry      -- recorded samples (pdf_sample)
  pDc : Nat               -- p_dc (count of double-couple entries)
  adaptCalls : Nat        -- number of width adaptations so far
deriving Repr

def init (learningLength window chainLength : Nat) (x0 : Entry) : State :=
  { learningLength := learningLength, window := window, chainLength := chainLength, nLearnAcc := 0,
    learnWin := [], tried := -1, accepted := -1, cur := x0, chain := [], pDc := 0, adaptCalls := 0 }

def learning (s : State) : Bool := s.nLearnAcc < s.learningLength

/-- `_add` -/
def addCore (s : State) (x : Entry) : State :=
  let s := { s with cur := x }
  if learning s then s
  else { s with chain := s.chain ++ [x], tried := s.tried + 1, pDc := s.pDc + (if x.isDc then 1 else 0) }

/-- `_add_old` -/
def addOld (s : State) : State :=
  let s := addCore s s.cur
  if learning s then { s with learnWin := s.learnWin ++ [false] } else s

/-- `_add_new` -/
def addNew (s : State) (x : Entry) : State :=
  let s := addCore s x
  if learning s then { s with learnWin := s.learnWin ++ [true], nLearnAcc := s.nLearnAcc + 1 }
  else { s with accepted := s.accepted + 1 }

def iter (f : State → State) : Nat → State → State
  | 0, s => s
  | n + 1, s => iter f n (f s)

/-- the outcome of the acceptance check is recorded: every tried-and-rejected proposal repeats
    the current state -/
def record (s : State) : Event → State
  | .accept u e => addNew (iter addOld u s) e
  | .reject n => iter addOld (max n 1) s

/-- one call of `iterate` with a non-empty forward result -/
def step (s : State) (ev : Event) : State :=
  let triedBefore := s.tried
  let s := record s ev
  -- learning-period width update
  let s := if learning s && s.learnWin.length ≥ s.window then
      { s with adaptCalls := s.adaptCalls + 1, learnWin := [] } else s
  -- first chain iteration (one or several proposals tried): its final state is held once more
  if !learning s && decide (triedBefore < 0) && decide (0 ≤ s.tried) then
    let w := s.learnWin.drop (s.learnWin.length - s.window)
    let s := if 4 * w.length > 3 * s.window then { s with learnWin := w, adaptCalls := s.adaptCalls + 1 } else s
    addNew s s.cur
  else s

/-- chain-length termination -/
def finished (s : State) : Bool := s.tried ≥ s.chainLength

/-- a run: events are consumed until the chain is complete -/
def run (s : State) : List Event → State
  | [] => s
  | ev :: evs => if finished s then s else run (step s ev) evs

end Chain
end MTfitVerif
