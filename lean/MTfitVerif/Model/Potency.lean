import MTfitVerif.Model.Flt
/-
  Model of the stiffness handling and potency-tensor conversion (`isotropic_c`, `c21_cvoigt`,
  `MT6c_D6`, `c_norm`; convert/moment_tensor_conversion.py) — C14.
  `np.linalg.solve` is an external routine passed as a parameter.
-/
namespace MTfitVerif
namespace Potency
variable {α : Type} [Add α] [Sub α] [Mul α] [Div α] [Neg α] [Flt α]

/-- `isotropic_c(lambda, mu)`: the 21 independent stiffness components -/
def isotropicC (l m : α) : List α :=
  let n := l + c 2 * m
  [n, l, l, c 0, c 0, c 0, n, l, c 0, c 0, c 0, n, c 0, c 0, c 0, m, c 0, c 0, m, c 0, m]

def g (cc : List α) (i : Nat) : α := cc.getD i (c 0)

/-- `c21_cvoigt(c)`: the 6×6 stiffness matrix acting on six-vectors `(xx, yy, zz, √2yz, √2xz, √2xy)` -/
def cvoigt (cc : List α) : List (List α) :=
  let r2 := Flt.sqrt (c 2)
  [[g cc 0, g cc 1, g cc 2, r2 * g cc 3, r2 * g cc 4, r2 * g cc 5],
   [g cc 1, g cc 6, g cc 7, r2 * g cc 8, r2 * g cc 9, r2 * g cc 10],
   [g cc 2, g cc 7, g cc 11, r2 * g cc 12, r2 * g cc 13, r2 * g cc 14],
   [r2 * g cc 3, r2 * g cc 8, r2 * g cc 12, c 2 * g cc 15, c 2 * g cc 16, c 2 * g cc 17],
   [r2 * g cc 4, r2 * g cc 9, r2 * g cc 13, c 2 * g cc 16, c 2 * g cc 18, c 2 * g cc 19],
   [r2 * g cc 5, r2 * g cc 10, r2 * g cc 14, c 2 * g cc 17, c 2 * g cc 19, c 2 * g cc 20]]

def matVec (a : List (List α)) (v : List α) : List α := a.map fun row => dot row v

/-- the index permutation `[0, 1, 2, 5, 4, 3]` between the six-vector order `(…, xy, xz, yz)` and
    the Voigt order `(…, yz, xz, xy)` -/
def perm (v : List α) : List α :=
  [v.getD 0 (c 0), v.getD 1 (c 0), v.getD 2 (c 0), v.getD 5 (c 0), v.getD 4 (c 0), v.getD 3 (c 0)]

/-- `MT6c_D6(MT6, c)`: potency six-vector `D` with `C · D = M` -/
def mt6cToD6 (solve : List (List α) → List α → List α) (cc : List α) (m : List α) : List α :=
  perm (solve (cvoigt cc) (perm m))

/-- `c_norm(c)` -/
def cNorm (cc : List α) : α :=
  let sq (i : Nat) := g cc i * g cc i
  Flt.sqrt (sq 0 + sq 6 + sq 11 + c 2 * (sq 1 + sq 2 + sq 7) +
    c 4 * (sq 3 + sq 4 + sq 5 + sq 8 + sq 9 + sq 10 + sq 12 + sq 13 + sq 14 + sq 15 + sq 18 + sq 20) +
    c 8 * (sq 16 + sq 17 + sq 19))

end Potency
end MTfitVerif
