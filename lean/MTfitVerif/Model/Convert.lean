import MTfitVerif.Model.Flt
/-
  Model of the moment-tensor parameter conversions (convert/moment_tensor_conversion.py,
  Python path): 3×3 ↔ six-vector, lune coordinates ↔ eigenvalues, strike/dip/rake ↔ principal
  axes ↔ normal/slip, auxiliary plane, Tape parameters ↔ tensor, Hudson coordinates,
  crack+double-couple parameters — C12, C13, C14 (and the conversion used by C06).

  The eigen-decomposition is an external routine: functions that need it take the axes and
  eigenvalues as arguments.
-/
namespace MTfitVerif
namespace Convert
variable {α : Type} [Add α] [Sub α] [Mul α] [Div α] [Neg α] [Flt α]

structure V3 (α : Type) where
  x : α
  y : α
  z : α

namespace V3
def add (a b : V3 α) : V3 α := ⟨a.x + b.x, a.y + b.y, a.z + b.z⟩
def sub (a b : V3 α) : V3 α := ⟨a.x - b.x, a.y - b.y, a.z - b.z⟩
def neg (a : V3 α) : V3 α := ⟨-a.x, -a.y, -a.z⟩
def smul (k : α) (a : V3 α) : V3 α := ⟨k * a.x, k * a.y, k * a.z⟩
def sdiv (a : V3 α) (k : α) : V3 α := ⟨a.x / k, a.y / k, a.z / k⟩
def dot (a b : V3 α) : α := a.x * b.x + a.y * b.y + a.z * b.z
def cross (a b : V3 α) : V3 α := ⟨a.y * b.z - a.z * b.y, a.z * b.x - a.x * b.z, a.x * b.y - a.y * b.x⟩
def norm (a : V3 α) : α := Flt.sqrt (dot a a)
def unit (a : V3 α) : V3 α := sdiv a (norm a)
end V3

/-- symmetric 3×3 tensor by its six independent components -/
structure Sym3 (α : Type) where
  xx : α
  yy : α
  zz : α
  xy : α
  xz : α
  yz : α

/-- six-vector `(Mxx, Myy, Mzz, √2Mxy, √2Mxz, √2Myz)` -/
structure V6 (α : Type) where
  a : α
  b : α
  c : α
  d : α
  e : α
  f : α

def V6.norm (v : V6 α) : α := Flt.sqrt (v.a * v.a + v.b * v.b + v.c * v.c + v.d * v.d + v.e * v.e + v.f * v.f)

/-- `MT33_MT6`: six-vector of a tensor, normalised to unit length -/
def mt33ToMt6 (m : Sym3 α) : V6 α :=
  let r2 := Flt.sqrt (c 2)
  let v : V6 α := ⟨m.xx, m.yy, m.zz, r2 * m.xy, r2 * m.xz, r2 * m.yz⟩
  let n := v.norm
  ⟨v.a / n, v.b / n, v.c / n, v.d / n, v.e / n, v.f / n⟩

/-- `MT6_MT33` (no normalisation) -/
def mt6ToMt33 (v : V6 α) : Sym3 α :=
  let k := c 1 / Flt.sqrt (c 2)
  ⟨v.a, v.b, v.c, k * v.d, k * v.e, k * v.f⟩

/-- `GD_E`: eigenvalues (descending) from lune longitude `γ` and latitude `δ` -/
def gdToE (γ δ : α) : V3 α :=
  let β := Flt.pi / c 2 - δ
  let x0 := Flt.cos γ * Flt.sin β
  let x1 := Flt.sin γ * Flt.sin β
  let x2 := Flt.cos β
  let k := c 1 / Flt.sqrt (c 6)
  ⟨k * (Flt.sqrt (c 3) * x0 + (-(c 1)) * x1 + Flt.sqrt (c 2) * x2),
   k * (c 0 * x0 + c 2 * x1 + Flt.sqrt (c 2) * x2),
   k * ((-Flt.sqrt (c 3)) * x0 + (-(c 1)) * x1 + Flt.sqrt (c 2) * x2)⟩

/-- sort three values in descending order -/
def sort3 (e : V3 α) : V3 α :=
  let a := e.x; let b := e.y; let cc := e.z
  let (a, b) := if Flt.ltb a b then (b, a) else (a, b)
  let (b, cc) := if Flt.ltb b cc then (cc, b) else (b, cc)
  let (a, b) := if Flt.ltb a b then (b, a) else (a, b)
  ⟨a, b, cc⟩

def sign (x : α) : α := if Flt.ltb x (c 0) then -(c 1) else if Flt.ltb (c 0) x then c 1 else c 0

/-- `E_GD`: lune coordinates of an eigenvalue triple (any order); all-equal triples are the
    isotropic poles -/
def eToGd (e : V3 α) : α × α :=
  if Flt.eqb e.x e.y && Flt.eqb e.y e.z then (c 0, sign e.x * Flt.pi / c 2)
  else
    let s := sort3 e
    let γ := Flt.atan2 (-s.x + c 2 * s.y - s.z) (Flt.sqrt (c 3) * (s.x - s.z))
    let β := Flt.acos ((s.x + s.y + s.z) / (Flt.sqrt (c 3) * Flt.sqrt (s.x * s.x + s.y * s.y + s.z * s.z)))
    (γ, Flt.pi / c 2 - β)

/-- `np.mod(x, 2π)` -/
def mod2pi (x : α) : α := x - Flt.floor (x / (c 2 * Flt.pi)) * (c 2 * Flt.pi)

/-- `FP_TNP(normal, slip)`: T = unit(n+s), P = unit(n−s), N = −(T×P) -/
def fpToTnp (n s : V3 α) : V3 α × V3 α × V3 α :=
  let T := (V3.add n s).unit
  let P := (V3.sub n s).unit
  (T, (V3.cross T P).neg, P)

/-- the two unit vectors built by `SDR_TNP` (first: slip direction, second: fault normal) -/
def sdrVec1 (s d r : α) : V3 α :=
  ⟨Flt.cos s * Flt.cos r + Flt.sin s * Flt.cos d * Flt.sin r,
   Flt.sin s * Flt.cos r - Flt.cos s * Flt.cos d * Flt.sin r,
   -Flt.sin d * Flt.sin r⟩

def sdrVec2 (s d : α) : V3 α := ⟨-Flt.sin s * Flt.sin d, Flt.cos s * Flt.sin d, -Flt.cos d⟩

/-- `SDR_TNP` -/
def sdrToTnp (s d r : α) : V3 α × V3 α × V3 α := fpToTnp (sdrVec1 s d r) (sdrVec2 s d)

/-- `TP_FP` -/
def tpToFp (T P : V3 α) : V3 α × V3 α := ((V3.add T P).unit, (V3.sub T P).unit)

/-- `normal_SD` (after normalisation; normals pointing down are flipped) -/
def normalToSd (n : V3 α) : α × α :=
  let n := n.unit
  let n := if Flt.ltb (c 0) n.z then n.neg else n
  (mod2pi (Flt.atan2 (-n.x) n.y),
   Flt.atan2 (n.y * n.y + n.x * n.x) (Flt.sqrt ((n.x * n.z) * (n.x * n.z) + (n.y * n.z) * (n.y * n.z))))

/-- `FP_SDR(normal, slip)` -/
def fpToSdr (normal slip : V3 α) : α × α × α :=
  let s := slip.unit
  let n := normal.unit
  let flip := Flt.ltb (c 0) n.z
  let s := if flip then s.neg else s
  let n := if flip then n.neg else n
  let (strike, dip) := normalToSd n
  -- rake: both arguments of the first form carry a factor sin(dip); for (near) horizontal planes the
  -- angle of the slip vector from the strike direction is measured with the in-plane unit vectors
  let rake :=
    if Flt.ltb (Flt.sin dip) (sci 1 6) then
      Flt.atan2
        (s.x * Flt.sin strike * Flt.cos dip - s.y * Flt.cos strike * Flt.cos dip - s.z * Flt.sin dip)
        (s.x * Flt.cos strike + s.y * Flt.sin strike)
    else Flt.atan2 (-s.z) (s.x * n.y - s.y * n.x)
  -- dip ∈ [0, π/2] (atan2 of two non-negative numbers): the `dip > π/2` corrections never fire
  let rake := if Flt.ltb Flt.pi rake then rake - c 2 * Flt.pi else rake
  let rake := if Flt.ltb rake (-Flt.pi) then rake + c 2 * Flt.pi else rake
  (mod2pi strike, dip, rake)

/-- `SDR_FP` -/
def sdrToFp (s d r : α) : V3 α × V3 α :=
  let (T, _, P) := sdrToTnp s d r
  tpToFp T P

/-- `TNP_SDR` -/
def tnpToSdr (T P : V3 α) : α × α × α :=
  let (n1, n2) := tpToFp T P
  fpToSdr n1 n2

/-- `|n₁ · n₂|` of the unit normals of the planes `(s₁, d₁)` and `(s₂, d₂)` -/
def normalDot (s₁ d₁ s₂ d₂ : α) : α :=
  Flt.abs (Flt.sin d₁ * Flt.sin d₂ * Flt.cos (s₁ - s₂) + Flt.cos d₁ * Flt.cos d₂)

/-- `SDR_SDR`: the other nodal plane.  Of the two candidate planes the one whose normal is
    (anti)parallel to the normal of the input plane is the input plane itself and is discarded;
    the auxiliary plane's normal is perpendicular to it. -/
def sdrToSdr (s d r : α) : α × α × α :=
  let (n1, n2) := sdrToFp s d r
  let p1 := fpToSdr n1 n2
  let p2 := fpToSdr n2 n1
  if Flt.ltb (normalDot p1.1 p1.2.1 s d) (normalDot p2.1 p2.2.1 s d) then p1 else p2

/-- `Σ eᵢ vᵢ vᵢᵀ` -/
def rebuild (T N P : V3 α) (e : V3 α) : Sym3 α :=
  let f (a b : V3 α → α) : α := e.x * (a T * b T) + e.y * (a N * b N) + e.z * (a P * b P)
  ⟨f (·.x) (·.x), f (·.y) (·.y), f (·.z) (·.z), f (·.x) (·.y), f (·.x) (·.z), f (·.y) (·.z)⟩

/-- `Tape_MT33` -/
def tapeToMt33 (γ δ κ h σ : α) : Sym3 α :=
  let e := gdToE γ δ
  let (T, N, P) := sdrToTnp κ (Flt.acos h) σ
  rebuild T N P e

/-- `Tape_MT6` -/
def tapeToMt6 (γ δ κ h σ : α) : V6 α := mt33ToMt6 (tapeToMt33 γ δ κ h σ)

/-- `MT6_Tape`, given the eigen-decomposition `(T, N, P, E)` of the tensor (descending) -/
def eigToTape (T P : V3 α) (e : V3 α) : α × α × α × α × α :=
  let (γ, δ) := eToGd e
  let (κ, dip, σ) := tnpToSdr T P
  let (κ, dip, σ) := if Flt.ltb (Flt.pi / c 2) (Flt.abs σ) then sdrToSdr κ dip σ else (κ, dip, σ)
  (γ, δ, κ, Flt.cos dip, σ)

/-- `E_tk` (Hudson τ, k) with the eigenvalues taken in the order given -/
def eToTk (e : V3 α) : α × α :=
  let e0 := e.x; let e1 := e.z; let e2 := e.y      -- "odd sorting": E[[0, 2, 1]]
  let iso := (e0 + e1 + e2) / c 3
  let dev0 := e0 - iso; let dev1 := e1 - iso; let dev2 := e2 - iso
  let (k, T) :=
    if Flt.ltb (c 0) dev2 then (iso / (Flt.abs iso - dev1), -(c 2) * dev2 / dev1)
    else if Flt.ltb dev2 (c 0) then (iso / (Flt.abs iso + dev0), c 2 * dev2 / dev0)
    else (iso / (Flt.abs iso + dev0), c 0)
  (T * (c 1 - Flt.abs k), k)

/-- `tk_uv` -/
def tkToUv (τ k : α) : α × α :=
  if Flt.ltb (c 0) τ && Flt.ltb (c 0) k then
    if Flt.ltb τ (c 4 * k) then (τ / (c 1 - τ / c 2), k / (c 1 - τ / c 2))
    else (τ / (c 1 - c 2 * k), k / (c 1 - c 2 * k))
  else if Flt.ltb τ (c 0) && Flt.ltb k (c 0) then
    if Flt.ltb (c 4 * k) τ then (τ / (c 1 + τ / c 2), k / (c 1 + τ / c 2))
    else (τ / (c 1 + c 2 * k), k / (c 1 + c 2 * k))
  else (τ, k)

/-- `basic_cdc_GD(alpha, poisson)` -/
def cdcToGd (a ν : α) : α × α :=
  let γ := Flt.atan ((-(c 1) / Flt.sqrt (c 3)) * Flt.cos a)
  let β := if Flt.eqb a (Flt.pi / c 2) then Flt.pi / c 2
    else Flt.acos (Flt.sqrt (c 2 / c 3) * Flt.cos a * (c 1 + ν) /
      Flt.sqrt ((c 1 - c 2 * ν) * (c 1 - c 2 * ν) + Flt.cos a * Flt.cos a * (c 1 + c 2 * ν * ν)))
  (γ, Flt.pi / c 2 - β)

/-- `GD_basic_cdc(gamma, delta)` -/
def gdToCdc (γ δ : α) : α × α :=
  let a := Flt.acos (-Flt.sqrt (c 3) * Flt.tan γ)
  let t := Flt.sqrt (c 2) * (Flt.tan (Flt.pi / c 2 - δ) * Flt.sin γ)
  (a, (c 1 + t) / (c 2 - t))

end Convert
end MTfitVerif
