import MTfitVerif.Model.Acceptance
import MTfitVerif.Model.Convert
/-
  Model of the Markov-chain proposals (`_new_sample_single`, the trans-dimensional jump proposal
  and `jump_params()`) and of the width adaptation (`_get_acceptance_rate_modifier`,
  `_modify_alpha`) — algorithms/markov_chain_monte_carlo.py, C06.

  Randomness is an input: the standard-normal draws and the uniform draws are lists that the
  sampler consumes in order; redraw-until-in-range loops stop when the list is exhausted
  (`none`).  The reflecting options and the crack+double-couple proposal are not modelled.
-/
namespace MTfitVerif
namespace Proposal
open Acceptance
variable {α : Type} [Add α] [Sub α] [Mul α] [Div α] [Neg α] [Flt α]

/-- first `m + s·z` for `z` in the stream that satisfies `ok`; also returns the rest of the stream -/
def firstOk (ok : α → Bool) (m s : α) : List α → Option (α × List α)
  | [] => none
  | z :: zs => if ok (m + s * z) then some (m + s * z, zs) else firstOk ok m s zs

def absLe (b x : α) : Bool := !(Flt.ltb b (Flt.abs x))
def inUnit (x : α) : Bool := !(Flt.ltb (c 1) x) && !(Flt.ltb x (c 0))

/-- `_new_sample_single` of the Gaussian/Tape sampler -/
def shiftSample (dc : Bool) (w : Widths α) (ξ : Tape α) (zs : List α) : Option (Tape α × List α) := do
  let (g, zs) ← if dc then some (c 0, zs) else firstOk (absLe (Flt.pi / c 6)) ξ.gamma w.gamma zs
  let (d, zs) ← if dc then some (c 0, zs) else firstOk (absLe (Flt.pi / c 2)) ξ.delta w.delta zs
  let (k, zs) ← match zs with
    | [] => none
    | z :: zs => some (Convert.mod2pi (ξ.kappa + w.kappa * z), zs)
  let (h, zs) ← firstOk inUnit ξ.h w.h zs
  let (s, zs) ← firstOk (absLe (Flt.pi / c 2)) ξ.sigma w.sigma zs
  pure ({ gamma := g, delta := d, kappa := k, h := h, sigma := s }, zs)

/-- `jump_params()`: the balancing draw `(γ, δ)` about zero -/
def jumpDraw (w : Widths α) (zs : List α) : Option (α × α × List α) := do
  let (g, zs) ← firstOk (absLe (Flt.pi / c 6)) (c 0) w.gammaDc zs
  let (d, zs) ← firstOk (absLe (Flt.pi / c 2)) (c 0) w.deltaDc zs
  pure (g, d, zs)

/-- trans-dimensional `_new_sample_single`: a uniform draw decides whether to jump
    (`u ≤ dimension_jump_prob`); a jump keeps strike, dip cosine and slip -/
def transDSample (dc : Bool) (jumpProb : α) (w : Widths α) (ξ : Tape α) (u : α) (zs : List α) :
    Option (Tape α × Bool × List α) :=
  if Flt.leb u jumpProb then
    if dc then do
      let (g, d, zs) ← jumpDraw w zs
      pure ({ ξ with gamma := g, delta := d }, true, zs)
    else some ({ ξ with gamma := c 0, delta := c 0 }, true, zs)
  else (shiftSample dc w ξ zs).map fun (x, zs) => (x, false, zs)

/-! ### width adaptation -/

/-- the adaptable widths and their maxima are keyed lists (`kappa h sigma gamma delta alpha poisson`
    plus, for trans-dimensional chains, the balancing widths which are carried unchanged) -/
structure AdaptState (α : Type) where
  widths : List (String × α)
  oldRate : α
  oldRatio : Option α
  oldWidths : Option (List (String × α))

def isFixedKey (k : String) : Bool := k == "gamma_dc" || k == "delta_dc" || k == "proposal_normalisation"

/-- `_modify_alpha`: multiply by `ratio`, keep the old value if the new one exceeds the maximum
    or is not positive (`not newAlpha > 0`: the product underflowed to 0.0, or is NaN);
    the balancing widths are carried over unchanged -/
def modifyWidths (maxW : List (String × α)) (ws : List (String × α)) (ratio : α) : List (String × α) :=
  ws.map fun (k, v) =>
    if isFixedKey k then (k, v)
    else
      let nv := v * ratio
      match maxW.lookup k with
      | some m => if Flt.ltb m nv || !(Flt.ltb (c 0) nv) then (k, v) else (k, nv)
      | none => if !(Flt.ltb (c 0) nv) then (k, v) else (k, nv)

/-- `_get_acceptance_rate_modifier` followed by `_modify_alpha` for one learning window with
    acceptance rate `rate` -/
def adaptStep (minR maxR : α) (maxW : List (String × α)) (s : AdaptState α) (rate : α) : AdaptState α :=
  let interior := Flt.ltb (c 0) rate && Flt.ltb rate (c 1)
  -- first block: ratio from the rate, possibly declaring the step a failure (`rate := 1`)
  let (rate', ratio) :=
    if interior then
      if Flt.ltb rate minR then
        let r' := if (Flt.ltb s.oldRate minR && Flt.ltb rate s.oldRate) || Flt.ltb maxR s.oldRate then c 1 else rate
        (r', fmax (r' / minR) (sci 1 1))
      else if Flt.ltb maxR rate then
        let r' := if (Flt.ltb maxR s.oldRate && Flt.ltb s.oldRate rate) || Flt.ltb s.oldRate minR then c 1 else rate
        (r', fmax (r' / maxR) (sci 1 1))
      else (rate, fmax (c 1) (sci 1 1))
    else (rate, c 1)
  let stored := Flt.ltb (c 0) rate' && Flt.ltb rate' (c 1)
  let s1 : AdaptState α :=
    if stored then { s with oldRate := rate', oldRatio := some ratio, oldWidths := some s.widths } else s
  if Flt.leb (c 1) rate' then
    -- revert to the stored widths and damp the ratio; with nothing stored, widen
    match s1.oldWidths, s1.oldRatio with
    | some ow, some r =>
      let ratio := Flt.sqrt r
      { s1 with widths := modifyWidths maxW ow ratio, oldRatio := some ratio }
    | _, _ => { s1 with widths := modifyWidths maxW s1.widths (c 1 / maxR) }
  else if !(Flt.ltb (c 0) rate') then
    match s1.oldWidths, s1.oldRatio with
    | some ow, some r =>
      let ratio := r * r
      { s1 with widths := modifyWidths maxW ow ratio, oldRatio := some ratio }
    | _, _ => { s1 with widths := modifyWidths maxW s1.widths (sci 1 1) }
  else { s1 with widths := modifyWidths maxW s1.widths ratio }

end Proposal
end MTfitVerif
