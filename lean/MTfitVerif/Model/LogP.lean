import MTfitVerif.Model.Flt
/-
  Log-probabilities with an explicit `-∞`.

  Mathlib's `Real.log 0 = 0` would make log-domain statements true for the wrong reason,
  so model code never takes the logarithm of zero: a zero probability is `negInf`.
  At the driver boundary IEEE `-inf` ↔ `negInf`.
-/
namespace MTfitVerif

inductive LogP (α : Type) where
  | negInf : LogP α
  | fin (x : α) : LogP α
deriving Repr

namespace LogP
variable {α : Type} [Add α] [Sub α] [Mul α] [Div α] [Neg α] [Flt α]

/-- log of a product -/
def add : LogP α → LogP α → LogP α
  | fin x, fin y => fin (x + y)
  | _, _ => negInf

/-- `x + k` for finite `k` -/
def shift (x : LogP α) (k : α) : LogP α :=
  match x with
  | negInf => negInf
  | fin v => fin (v + k)

/-- `x - k` for finite `k` -/
def subC (x : LogP α) (k : α) : LogP α :=
  match x with
  | negInf => negInf
  | fin v => fin (v - k)

/-- sum of a list of log-probabilities (= log of the product) -/
def sum : List (LogP α) → LogP α
  | [] => fin (c 0)
  | x :: xs => add x (sum xs)

/-- `np.log(p)` followed by MTfit's `NaN → -inf` sanitising: non-positive `p` is probability 0. -/
def ofProb (p : α) : LogP α := if Flt.leb p (c 0) then negInf else fin (Flt.log p)

/-- `np.exp` -/
def expF : LogP α → α
  | negInf => c 0
  | fin x => Flt.exp x

def isFin : LogP α → Bool
  | negInf => false
  | fin _ => true

/-- largest finite entry, `none` when every entry is `-∞` (or the list is empty) -/
def maxFin : List (LogP α) → Option α
  | [] => none
  | negInf :: xs => maxFin xs
  | fin x :: xs =>
    match maxFin xs with
    | none => some x
    | some m => some (fmax x m)

/-- comparison `a > b` as numpy does it on values that may be `-inf` -/
def gtb : LogP α → LogP α → Bool
  | negInf, _ => false
  | fin _, negInf => true
  | fin a, fin b => Flt.ltb b a

end LogP
end MTfitVerif
