import MTfitVerif.Model.LogDomain
/-
  Model of `ln_bayesian_evidence` (sampling.py), `model_probabilities`, `dkl_estimate`, `dkl`
  (probability.py) — C10.
-/
namespace MTfitVerif
namespace Evidence
open LogP
variable {α : Type} [Add α] [Sub α] [Mul α] [Div α] [Neg α] [Flt α]

/-- `Σ exp(x - m)` over the finite entries (`exp(-inf) = 0`) -/
def expSum (m : α) : List (LogP α) → α
  | [] => c 0
  | negInf :: xs => expSum m xs
  | fin x :: xs => Flt.exp (x - m) + expSum m xs

/-- `log(Σ exp(Lᵢ + log 1 - max)) + max - log n`; the stored log-likelihoods are the non-zero
    samples, `n` counts every tried sample.  `-∞` when nothing is finite. -/
def lnBayesianEvidence (ls : List (LogP α)) (n : α) : LogP α :=
  match maxFin ls with
  | none => negInf
  | some m => fin (Flt.log (expSum m ls) + m - Flt.log n)

def maxL : List α → α
  | [] => c 0
  | [x] => x
  | x :: xs => fmax x (maxL xs)

/-- `model_probabilities(*lnBE)`: `exp(eᵢ - max) / Σ exp(eⱼ - max)` -/
def modelProbabilities (es : List α) : List α :=
  let m := maxL es
  let ps := es.map (fun e => Flt.exp (e - m))
  let norm := sumL ps
  ps.map (· / norm)

/-- finite entries of a log-pdf -/
def fins : List (LogP α) → List α
  | [] => []
  | negInf :: xs => fins xs
  | fin x :: xs => x :: fins xs

/-- `dkl_estimate(ln_pdf, V, N)` -/
def dklEstimate (lnpdf : List (LogP α)) (V N : α) : α :=
  let dV := V / N
  match maxFin lnpdf with
  | none => c 0
  | some m =>
    let l0 := (fins lnpdf).map (· - m)
    let p0 := l0.map Flt.exp
    let n := sumL p0 * dV
    let l1 := l0.map (· - Flt.log n)
    let p1 := p0.map (· / n)
    sumL ((List.zip l1 p1).map (fun (l, p) => l * p + p * Flt.log V)) * dV

/-- `dkl(ln_p, ln_q, dV)`.  Entries are pairs `(pᵢ, qᵢ)`; the sum runs over `pᵢ > -∞`.
    `none` when `q` is `-∞` where `p` is not (the divergence is infinite) or nothing is finite. -/
def dkl (pq : List (LogP α × LogP α)) (dV : α) : Option α :=
  match maxFin (pq.map (·.1)), maxFin (pq.map (·.2)) with
  | some mp, some mq =>
    let np := expSum mp (pq.map (·.1)) * dV
    let nq := expSum mq (pq.map (·.2)) * dV
    let term : LogP α × LogP α → Option α
      | (negInf, _) => some (c 0)
      | (fin _, negInf) => none
      | (fin p, fin q) =>
        let lp := p - mp - Flt.log np
        let pp := Flt.exp (p - mp) / np
        let lq := q - mq - Flt.log nq
        some (lp * pp - lq * pp)
    (pq.mapM term).map (fun ts => sumL ts * dV)
  | _, _ => none

end Evidence
end MTfitVerif
