import MTfitVerif.Model.Convert
/-
  Model of the random source samplers of `BaseAlgorithm` (algorithms/base.py, Python path):
  `_6sphere_random_mt`, `random_orthogonal_eigenvectors`, `eigenvectors_mt_2_mt6`, `random_dc`,
  `random_clvd` — C08.  The standard-normal draws are inputs.
-/
namespace MTfitVerif
namespace RandomMT
open Convert
variable {α : Type} [Add α] [Sub α] [Mul α] [Div α] [Neg α] [Flt α]

/-- one column of `M / sqrt(sum(M*M))` for a 6-component Gaussian draw -/
def randomMt (v : V6 α) : V6 α :=
  let n := v.norm
  ⟨v.a / n, v.b / n, v.c / n, v.d / n, v.e / n, v.f / n⟩

/-- random orthonormal triad from two Gaussian 3-vectors: `a = â`, `b = (a × x)^`, `c = (a × b)^` -/
def triad (araw x : V3 α) : V3 α × V3 α × V3 α :=
  let a := araw.unit
  let b := (V3.cross a x).unit
  let cc := (V3.cross a b).unit
  (a, b, cc)

/-- `eigenvectors_mt_2_mt6(diag, a, b, c)`: six-vector of `Σ diagₖ vₖvₖᵀ`, normalised -/
def eigvecsToMt6 (diag : V3 α) (a b cc : V3 α) : V6 α := mt33ToMt6 (rebuild a b cc diag)

def dcDiag : V3 α := ⟨c 1 / Flt.sqrt (c 2), c 0, -(c 1) / Flt.sqrt (c 2)⟩

/-- `±(2, −1, −1)/√6`; the sign is one uniform draw per call (`u > 0.5` gives `+`) -/
def clvdDiag (u : α) : V3 α :=
  if Flt.ltb (sci 5 1) u then ⟨c 2 / Flt.sqrt (c 6), -(c 1) / Flt.sqrt (c 6), -(c 1) / Flt.sqrt (c 6)⟩
  else ⟨-(c 2) / Flt.sqrt (c 6), c 1 / Flt.sqrt (c 6), c 1 / Flt.sqrt (c 6)⟩

def randomType (diag : V3 α) (araw x : V3 α) : V6 α :=
  let (a, b, cc) := triad araw x
  eigvecsToMt6 diag a b cc

end RandomMT
end MTfitVerif
