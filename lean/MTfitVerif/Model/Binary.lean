import MTfitVerif.Model.Flt
/-
  Model of the binary moment-tensor result format: `_convert_mt_space_to_struct` (writer) and
  `read_binary_output` (reader), utilities/file_io.py — C17.

  The byte level (`struct.pack` / `unpack`) is abstracted to words: unsigned 64-bit counts, a
  flag, doubles (`none` = NaN, written when a value is missing).
-/
namespace MTfitVerif
namespace Binary
variable {α : Type} [Add α] [Sub α] [Mul α] [Div α] [Neg α] [Flt α]

inductive Word (α : Type) where
  | q (n : Nat) : Word α
  | b (v : Bool) : Word α
  | d (x : Option α) : Word α

/-- one sample: probability, log-probability, six-vector and (when converted) 13 parameters -/
structure Sample (α : Type) where
  p : α
  lnp : α
  mt : List α            -- six entries (Mxx Myy Mzz √2Mxy √2Mxz √2Myz)
  conv : List α          -- 13 entries when converted, else []

structure Record (α : Type) where
  total : Nat            -- total_number_samples
  converted : Bool
  lbe : Option α         -- ln_bayesian_evidence (NaN when absent)
  dkl : Option α
  samples : List (Sample α)

def writeSample (conv : Bool) (s : Sample α) : List (Word α) :=
  let r2 := Flt.sqrt (c 2)
  [.d (some s.p), .d (some s.lnp),
   .d (some (s.mt.getD 0 (c 0))), .d (some (s.mt.getD 1 (c 0))), .d (some (s.mt.getD 2 (c 0))),
   .d (some (s.mt.getD 3 (c 0) / r2)), .d (some (s.mt.getD 4 (c 0) / r2)), .d (some (s.mt.getD 5 (c 0) / r2))]
  ++ (if conv then s.conv.map (fun x => Word.d (some x)) else [])

/-- `_convert_mt_space_to_struct`: file version 2 -/
def write (r : Record α) : List (Word α) :=
  [.q 2, .q r.total, .q r.samples.length, .b r.converted, .d r.lbe, .d r.dkl]
  ++ r.samples.flatMap (writeSample r.converted)

def takeD (n : Nat) (ws : List (Word α)) : Option (List α × List (Word α)) :=
  match n, ws with
  | 0, ws => some ([], ws)
  | n + 1, .d (some x) :: ws => (takeD n ws).map fun (xs, rest) => (x :: xs, rest)
  | _, _ => none

def readSamples (conv : Bool) : Nat → List (Word α) → Option (List (Sample α) × List (Word α))
  | 0, ws => some ([], ws)
  | n + 1, ws => do
    let (v, ws) ← takeD 8 ws
    let (cv, ws) ← if conv then takeD 13 ws else some ([], ws)
    let r2 := Flt.sqrt (c 2)
    let s : Sample α :=
      { p := v.getD 0 (c 0), lnp := v.getD 1 (c 0),
        mt := [v.getD 2 (c 0), v.getD 3 (c 0), v.getD 4 (c 0), r2 * v.getD 5 (c 0), r2 * v.getD 6 (c 0), r2 * v.getD 7 (c 0)],
        conv := cv }
    let (ss, ws) ← readSamples conv n ws
    pure (s :: ss, ws)

/-- one record from the front of the stream (version ≥ 2) -/
def readOne : List (Word α) → Option (Record α × List (Word α))
  | .q _ver :: .q total :: .q n :: .b conv :: .d lbe :: .d dkl :: ws => do
    let (ss, rest) ← readSamples conv n ws
    pure ({ total := total, converted := conv, lbe := if conv then lbe else none, dkl := dkl, samples := ss }, rest)
  | _ => none

/-- `read_binary_output`: records until the stream is exhausted (`none`: malformed stream) -/
def read : Nat → List (Word α) → Option (List (Record α))
  | _, [] => some []
  | 0, _ => none
  | fuel + 1, ws => do
    let (r, rest) ← readOne ws
    let rs ← read fuel rest
    pure (r :: rs)

end Binary
end MTfitVerif
