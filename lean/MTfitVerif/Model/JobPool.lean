/-
  Model of the worker pool (utilities/multiprocessing_helper.py) as a labelled transition system
  — C16.  Queues are bags of items (a multi-producer queue only guarantees that nothing is lost
  or duplicated, and that is all the property needs); task identities are natural numbers; a
  task's behaviour is its kind.  Any interleaving of main-thread operations and worker steps is a
  list of events; `step` is partial: `none` means the event is not enabled in that state.
-/
namespace MTfitVerif
namespace JobPool

inductive Kind where
  | ok      -- returns an ordinary result
  | raise   -- raises: the exception is the result and the worker dies
  | code    -- returns one of the reserved status codes (10, 20): skipped by collection
deriving DecidableEq, Repr

inductive WState where
  | idle
  | running (id : Nat)
  | dead          -- died on an exception, not yet replaced
  | exited        -- consumed a poison pill
deriving DecidableEq, Repr

structure State where
  kinds : List (Nat × Kind)     -- every task submitted so far with its kind
  taskQ : List Nat              -- bag of queued task ids
  pills : Nat                   -- poison pills in the task queue
  resultQ : List Nat            -- bag of ids whose result sits in the result queue
  workers : List WState
  numberJobs : Nat              -- `number_jobs`
  collected : List Nat          -- ids whose result was handed to the caller
  skipped : List Nat            -- ids whose (status-code) result was consumed and skipped
deriving Repr

def init (nWorkers : Nat) : State :=
  { kinds := [], taskQ := [], pills := 0, resultQ := [], workers := List.replicate nWorkers .idle,
    numberJobs := 0, collected := [], skipped := [] }

inductive Event where
  | submit (id : Nat) (k : Kind)       -- `task` / `custom_task`
  | take (w : Nat) (id : Nat)          -- worker `w` gets task `id`
  | finish (w : Nat)                   -- worker `w` puts the result of its task
  | collect (id : Nat)                 -- main thread gets the result of `id` (in `result()`)
  | clean                              -- `clean_workers`: dead workers are replaced
  | close                              -- `close`: one pill per worker
  | takePill (w : Nat)                 -- worker `w` consumes a pill and exits
deriving Repr

def kindOf (s : State) (id : Nat) : Option Kind := s.kinds.lookup id

def setW (ws : List WState) (w : Nat) (x : WState) : List WState := ws.set w x

def step (s : State) : Event → Option State
  | .submit id k =>
    if (s.kinds.lookup id).isSome then none
    else some { s with kinds := (id, k) :: s.kinds, taskQ := id :: s.taskQ, numberJobs := s.numberJobs + 1 }
  | .take w id =>
    if s.workers[w]? = some .idle ∧ id ∈ s.taskQ then
      some { s with taskQ := s.taskQ.erase id, workers := setW s.workers w (.running id) }
    else none
  | .finish w =>
    match s.workers[w]? with
    | some (.running id) =>
      some { s with resultQ := id :: s.resultQ,
                    workers := setW s.workers w (if kindOf s id = some .raise then .dead else .idle) }
    | _ => none
  | .collect id =>
    if id ∈ s.resultQ ∧ 0 < s.numberJobs then
      let s' := { s with resultQ := s.resultQ.erase id, numberJobs := s.numberJobs - 1 }
      if kindOf s id = some .code then some { s' with skipped := id :: s.skipped }
      else some { s' with collected := id :: s.collected }
    else none
  | .clean => some { s with workers := s.workers.map fun w => if w = .dead then .idle else w }
  | .close => some { s with pills := s.pills + s.workers.length }
  | .takePill w =>
    if s.workers[w]? = some .idle ∧ 0 < s.pills then
      some { s with pills := s.pills - 1, workers := setW s.workers w .exited }
    else none

/-- run a list of events; `none` if some event is not enabled -/
def run (s : State) : List Event → Option State
  | [] => some s
  | e :: es => (step s e).bind fun s' => run s' es

def running (s : State) : List Nat :=
  s.workers.filterMap fun w => match w with | .running id => some id | _ => none

/-- ids of tasks submitted but whose result has not been taken from the result queue -/
def outstanding (s : State) : List Nat := s.taskQ ++ running s ++ s.resultQ

end JobPool
end MTfitVerif
