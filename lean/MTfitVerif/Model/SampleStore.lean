import MTfitVerif.Model.LogDomain
/-
  Model of `Sample` (sampling.py) and the termination rule of `IterationSample`
  (algorithms/monte_carlo.py) — C09.

  Tensors (for joint inversions: the stacked column of all events) and scale factors are
  opaque tokens.  The concrete store mirrors the pre-allocated array with its fill index and
  the growth loop; the abstract view is the list of stored samples.
-/
namespace MTfitVerif
namespace SampleStore
open LogP LogDomain
variable {α : Type} [Add α] [Sub α] [Mul α] [Div α] [Neg α] [Flt α]

/-- one candidate of a result batch: tensor token, its column of log-values (one per row of an
    un-marginalised log-pdf), scale-factor token -/
structure Cand (α : Type) where
  tok : Nat
  col : List (LogP α)
  sf : Nat

/-- `LnPDF.nonzero()` with default arguments: marginal over the rows `> -inf` -/
def nonzero (c : Cand α) : Bool := c.col.any isFin

structure Store (α : Type) where
  init : Nat                 -- `_initial_sample_size`
  cols : List Nat            -- the pre-allocated tensor array (0 = unused slot); length = capacity
  i : Nat                    -- `_i`
  lnCols : List (List (LogP α))   -- stored columns of the log-pdf
  sf : List Nat              -- stored scale factors
  n : Nat                    -- tried samples

def empty (init : Nat) : Store α :=
  { init := init, cols := List.replicate init 0, i := 0, lnCols := [], sf := [], n := 0 }

/-- `while not (capacity - _i > k): capacity += init` (fuel bounds the loop; `init > 0`) -/
def growTo (init i k : Nat) : Nat → Nat → Nat
  | 0, cap => cap
  | fuel + 1, cap => if cap - i > k then cap else growTo init i k fuel (cap + init)

def writeAt (cols : List Nat) (i : Nat) (new : List Nat) : List Nat :=
  cols.take i ++ new ++ cols.drop (i + new.length)

/-- `Sample.append(moment_tensors, ln_pdf, n, scale_factor)` -/
def append (s : Store α) (batch : List (Cand α)) (nTried : Nat) : Store α :=
  let kept := batch.filter nonzero
  let k := kept.length
  if k = 0 then { s with n := s.n + nTried }
  else
    let cap := growTo s.init s.i k (k + s.i + 2) s.cols.length
    let cols := s.cols ++ List.replicate (cap - s.cols.length) 0
    { s with
      cols := writeAt cols s.i (kept.map (·.tok)),
      i := s.i + k,
      lnCols := s.lnCols ++ kept.map (·.col),
      sf := s.sf ++ kept.map (·.sf),
      n := s.n + nTried }

/-- abstract view: the stored samples in order -/
def view (s : Store α) : List (Nat × List (LogP α) × Nat) :=
  List.zip (s.cols.take s.i) (List.zip s.lnCols s.sf)

/-- marginal log-value of each stored sample (`marginalise()` over the rows, `dV = 1`):
    a single row is returned as it is -/
def marginals (s : Store α) : List (LogP α) :=
  s.lnCols.map fun col => match col with
    | [x] => x
    | _ => lnMargCol col (c 1)

/-- `nonzero(discard, n_samples)` on the normalised marginals: index kept iff
    `ln > max - log(discard * n)` (only when both are positive), else iff `> -inf` -/
def keepIdx (ln : List (LogP α)) (discard nSamples : α) : List Bool :=
  if Flt.ltb (c 0) nSamples && Flt.ltb (c 0) discard then
    match maxFin ln with
    | none => ln.map fun _ => false
    | some m => ln.map fun x => gtb x (fin (m - Flt.log (discard * nSamples)))
  else ln.map isFin

structure Output (α : Type) where
  toks : List Nat
  probability : List α
  lnPdf : List (LogP α)
  sf : List Nat

def selectBy {β : Type} (l : List β) (keep : List Bool) : List β :=
  (List.zip l keep).filterMap fun p => if p.2 then some p.1 else none

/-- `Sample.output(normalise=True, n_samples, discard)`; `none` is the explicit empty result -/
def output (s : Store α) (discard nSamples : α) : Option (Output α) :=
  let m := marginals s
  if m.isEmpty then none
  else
    let norm := lnNormalise m (c 1)
    let keep := keepIdx norm discard nSamples
    some { toks := selectBy (s.cols.take s.i) keep,
           probability := (selectBy norm keep).map expF,
           lnPdf := selectBy m keep,
           sf := selectBy s.sf keep }

/-- sample-count-limited random sampling: batches are appended until the tried count reaches
    `maxSamples`; returns the number of batches consumed -/
def runIteration (maxSamples : Nat) : Nat → List Nat → Nat
  | _, [] => 0
  | n, b :: bs => if n + b ≥ maxSamples then 1 else 1 + runIteration maxSamples (n + b) bs

end SampleStore
end MTfitVerif
