import MTfitVerif.Model.PyxSpec
/-
  Loop-free reading of the COMBINED station loops of the compiled likelihood kernels (cprobability.pyx):
  `station_combined_polarity_ar_ln_pdf`, `station_combined_polarity_probability_ar_ln_pdf`, `station_combined_pol_ln_pdf`,
  `station_combined_all_ln_pdf`.  Written by hand; core only; polymorphic in the scalar type.

  The data of an event are ordered so that the stations carrying a given kind of observation come first:
  station `u` carries a manual polarity iff `u < umax`, a polarity probability iff `u < uprobmax`, an amplitude ratio iff
  `u < uarmax`.  The combined term of station `u` is the sum of the log-pdfs of the observations it carries, by the plain
  case distinction on these Booleans.  The order and association of each sum is that of the code (the statements are for
  every scalar type, so nothing may be re-associated).
-/
namespace MTfitVerif
namespace PyxSpec
variable {α : Type} [Add α] [Sub α] [Mul α] [Div α] [Neg α] [Flt α]

/-- station term of `station_combined_polarity_ar_ln_pdf`: manual polarity (`u < umax`) and amplitude ratio (`u < uarmax`) -/
def polArTerm (a ax ay mt z sigma ipp psx psy : Array α) (ipmax v umax uarmax vmax kmax wmax w u : Nat) : α :=
  match decide (u < umax), decide (u < uarmax) with
  | true,  true  => polTerm a mt sigma ipp ipmax v vmax kmax wmax w u + arTerm ax ay mt z psx psy v vmax kmax wmax w u
  | true,  false => polTerm a mt sigma ipp ipmax v vmax kmax wmax w u
  | false, true  => arTerm ax ay mt z psx psy v vmax kmax wmax w u
  | false, false => c 0      -- not reached for `u < max umax uarmax`

/-- station term of `station_combined_polarity_probability_ar_ln_pdf`: polarity probability (`u < umax`, the count of
    polarity-probability stations in that kernel) and amplitude ratio (`u < uarmax`) -/
def polProbArTerm (a ax ay mt z pos neg ipp psx psy : Array α) (ipmax v umax uarmax vmax kmax wmax w u : Nat) : α :=
  match decide (u < umax), decide (u < uarmax) with
  | true,  true  => polProbTerm a mt pos neg ipp ipmax v vmax kmax wmax w u + arTerm ax ay mt z psx psy v vmax kmax wmax w u
  | true,  false => polProbTerm a mt pos neg ipp ipmax v vmax kmax wmax w u
  | false, true  => arTerm ax ay mt z psx psy v vmax kmax wmax w u
  | false, false => c 0      -- not reached for `u < max umax uarmax`

/-- station term of `station_combined_pol_ln_pdf`: manual polarity (`u < umax`) and polarity probability (`u < uprobmax`) -/
def polPolProbTerm (a a_prob mt pos neg ipp sigma : Array α) (ipmax v umax uprobmax vmax kmax wmax w u : Nat) : α :=
  match decide (u < umax), decide (u < uprobmax) with
  | true,  true  => polTerm a mt sigma ipp ipmax v vmax kmax wmax w u + polProbTerm a_prob mt pos neg ipp ipmax v vmax kmax wmax w u
  | true,  false => polTerm a mt sigma ipp ipmax v vmax kmax wmax w u
  | false, true  => polProbTerm a_prob mt pos neg ipp ipmax v vmax kmax wmax w u
  | false, false => c 0      -- not reached for `u < max umax uprobmax`

/-- station term of `station_combined_all_ln_pdf`: manual polarity (`u < umax`), polarity probability (`u < uprobmax`),
    amplitude ratio (`u < uarmax`) -/
def allTerm (a a_prob ax ay mt z pos neg ipp psx psy sigma : Array α)
    (ipmax v umax uarmax uprobmax vmax kmax wmax w u : Nat) : α :=
  match decide (u < umax), decide (u < uprobmax), decide (u < uarmax) with
  | true,  true,  true  => (polTerm a mt sigma ipp ipmax v vmax kmax wmax w u
                              + polProbTerm a_prob mt pos neg ipp ipmax v vmax kmax wmax w u)
                              + arTerm ax ay mt z psx psy v vmax kmax wmax w u
  | true,  false, true  => polTerm a mt sigma ipp ipmax v vmax kmax wmax w u + arTerm ax ay mt z psx psy v vmax kmax wmax w u
  | false, true,  true  => polProbTerm a_prob mt pos neg ipp ipmax v vmax kmax wmax w u
                              + arTerm ax ay mt z psx psy v vmax kmax wmax w u
  | false, false, true  => arTerm ax ay mt z psx psy v vmax kmax wmax w u
    -- the code adds the two polarity terms in the other order when there is no amplitude ratio
  | true,  true,  false => polProbTerm a_prob mt pos neg ipp ipmax v vmax kmax wmax w u
                              + polTerm a mt sigma ipp ipmax v vmax kmax wmax w u
  | true,  false, false => polTerm a mt sigma ipp ipmax v vmax kmax wmax w u
  | false, true,  false => polProbTerm a_prob mt pos neg ipp ipmax v vmax kmax wmax w u
  | false, false, false => c 0      -- not reached for `u < max umax (max uarmax uprobmax)`

end PyxSpec
end MTfitVerif
