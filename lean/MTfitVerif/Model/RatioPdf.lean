import MTfitVerif.Model.LogP
/-
  Model of `ratio_pdf` (Hinkley 1969, uncorrelated branch), `gaussian_cdf(·,0,1)` and
  `amplitude_ratio_ln_pdf` (probability.py, Python path) — C03.
-/
namespace MTfitVerif
namespace RatioPdf
open LogP
variable {α : Type} [Add α] [Sub α] [Mul α] [Div α] [Neg α] [Flt α]

/-- standard normal CDF `Φ(x) = ½ (1 + erf (x/√2))` -/
def stdCdf (x : α) : α := half * (c 1 + Flt.erf (x / Flt.sqrt (c 2)))

/-- Hinkley's coefficients as coded (`corr = 0`) -/
def coefA (z σx σy : α) : α := Flt.sqrt (z * z / (σx * σx) + c 1 / (σy * σy))
def coefB (z μx μy σx σy : α) : α := μx * z / (σx * σx) + μy / (σy * σy)
def coefC (μx μy σx σy : α) : α := μx * μx / (σx * σx) + μy * μy / (σy * σy)

/-- `ratio_pdf(z, μx, μy, σx, σy)` -/
def ratioPdf (z μx μy σx σy : α) : α :=
  let a := coefA z σx σy
  let a2 := a * a
  let b := coefB z μx μy σx σy
  let cc := coefC μx μy σx σy
  let d := Flt.exp ((b * b - cc * a2) / (c 2 * a2))
  let p := b * d / (Flt.sqrt (c 2 * Flt.pi) * (σx * σy * (a * a2)))
  let p := p * (stdCdf (b / a) - stdCdf (-b / a))
  p + c 1 / (Flt.pi * (σx * σy * a2)) * Flt.exp (-cc / c 2)

/-- `percentage_error[percentage_error == 0] = 1e-24; abs` -/
def errFix (p : α) : α := Flt.abs (if Flt.eqb p (c 0) then sci 1 24 else p)

/-- density of the observed ratio `r` for modelled amplitudes `μx, μy` and fractional errors
    `px, py`: sum of the ratio density at `±r`, with absolute modelled amplitudes and
    `σ = fraction · |μ|`.  A modelled amplitude of exactly zero gives `0/0` in the code, which is
    sanitised to probability 0. -/
def arPdf (r μx μy px py : α) : α :=
  let mx := Flt.abs μx
  let my := Flt.abs μy
  if Flt.eqb mx (c 0) || Flt.eqb my (c 0) then c 0
  else
    let sx := errFix px * mx
    let sy := errFix py * my
    ratioPdf r mx my sx sy + ratioPdf (-r) mx my sx sy

structure ArStation (α : Type) where
  cx : List (List α)     -- numerator coefficients per location sample
  cy : List (List α)     -- denominator coefficients per location sample
  ratio : α
  px : α
  py : α

def lnArAt (sts : List (ArStation α)) (k : Nat) (mt : List α) : LogP α :=
  LogP.sum (sts.map fun s =>
    ofProb (arPdf s.ratio (dot (s.cx.getD k []) mt) (dot (s.cy.getD k []) mt) s.px s.py))

/-- `amplitude_ratio_ln_pdf`: `[k][j]` -/
def amplitudeRatioLnPdf (sts : List (ArStation α)) (nloc : Nat) (mts : List (List α)) :
    List (List (LogP α)) :=
  (List.range nloc).map fun k => mts.map fun mt => lnArAt sts k mt

end RatioPdf
end MTfitVerif
