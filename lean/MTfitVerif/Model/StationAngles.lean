import MTfitVerif.Model.Flt
/-
  Model of `station_angles` (inversion.py): the six station coefficients of a ray with azimuth
  `az` and take-off angle `toa` (radians; take-off measured from the downward z axis, NED axes)
  for the six-vector `(Mxx, Myy, Mzz, √2 Mxy, √2 Mxz, √2 Myz)` — C11.
-/
namespace MTfitVerif
namespace StationAngles
variable {α : Type} [Add α] [Sub α] [Mul α] [Div α] [Neg α] [Flt α]

def stationP (az toa : α) : List α :=
  let ca := Flt.cos az; let sa := Flt.sin az; let ct := Flt.cos toa; let st := Flt.sin toa
  [ ca * ca * st * st,
    sa * sa * st * st,
    ct * ct,
    Flt.sqrt (c 2) * sa * ca * st * st,
    Flt.sqrt (c 2) * ca * ct * st,
    Flt.sqrt (c 2) * sa * ct * st ]

def stationSH (az toa : α) : List α :=
  let ca := Flt.cos az; let sa := Flt.sin az; let ct := Flt.cos toa; let st := Flt.sin toa
  [ -sa * ca * st,
    sa * ca * st,
    c 0 * az,
    (c 1 / Flt.sqrt (c 2)) * Flt.cos (c 2 * az) * st,
    -(c 1 / Flt.sqrt (c 2)) * sa * ct,
    (c 1 / Flt.sqrt (c 2)) * ca * ct ]

def stationSV (az toa : α) : List α :=
  let ca := Flt.cos az; let sa := Flt.sin az; let ct := Flt.cos toa; let st := Flt.sin toa
  [ ca * ca * st * ct,
    sa * sa * st * ct,
    -st * ct,
    Flt.sqrt (c 2) * ca * sa * st * ct,
    (c 1 / Flt.sqrt (c 2)) * ca * Flt.cos (c 2 * toa),
    (c 1 / Flt.sqrt (c 2)) * sa * Flt.cos (c 2 * toa) ]

inductive Phase where
  | P | SH | SV
deriving DecidableEq, Repr

/-- `phase.lower().rstrip('q')` then match against 'p' / 'sh' / 'sv' -/
def parsePhase (s : String) : Option Phase :=
  let t := String.ofList ((s.toLower.toList.reverse.dropWhile (· == 'q')).reverse)
  if t == "p" then some .P else if t == "sh" then some .SH else if t == "sv" then some .SV else none

def coeffs : Phase → α → α → List α
  | .P, az, toa => stationP az toa
  | .SH, az, toa => stationSH az toa
  | .SV, az, toa => stationSV az toa

/-- degrees → radians as the code does it: `x * pi / 180` -/
def deg2rad (x : α) : α := x * Flt.pi / c 180

/-- `station_angles(…, radians=False)` for one station -/
def coeffsDeg (ph : Phase) (azDeg toaDeg : α) : List α := coeffs ph (deg2rad azDeg) (deg2rad toaDeg)

/-- six-vector of a symmetric tensor -/
def mt6 (mxx myy mzz mxy mxz myz : α) : List α :=
  [mxx, myy, mzz, Flt.sqrt (c 2) * mxy, Flt.sqrt (c 2) * mxz, Flt.sqrt (c 2) * myz]

end StationAngles
end MTfitVerif
