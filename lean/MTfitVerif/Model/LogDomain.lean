import MTfitVerif.Model.LogP
/-
  Model of `MTfit.probability.ln_marginalise`, `ln_normalise` and the `LnPDF` wrappers
  (probability.py), C04.

  A 2-D log-pdf is a list of rows.  `ln_marginalise(axis=0)` reduces each column,
  `axis=1` each row.  The reduction is log-sum-exp with the shift the code applies: the
  largest finite entry of the reduced slice (so every `exp` argument is `≤ 0` and one is `0`).
-/
namespace MTfitVerif
namespace LogDomain
open LogP
variable {α : Type} [Add α] [Sub α] [Mul α] [Div α] [Neg α] [Flt α]

/-- arguments handed to `exp` for one slice with shift `m` -/
def expArgs (m : α) : List (LogP α) → List α
  | [] => []
  | negInf :: xs => expArgs m xs
  | fin x :: xs => (x - m) :: expArgs m xs

/-- `Σ exp(x - m) * dV` over one slice (`exp(-inf) = 0`) -/
def shiftedSum (m dV : α) : List (LogP α) → α
  | [] => c 0
  | negInf :: xs => shiftedSum m dV xs
  | fin x :: xs => Flt.exp (x - m) * dV + shiftedSum m dV xs

/-- log of `dV · Σ exp` over one slice -/
def lnMargCol (col : List (LogP α)) (dV : α) : LogP α :=
  match maxFin col with
  | none => negInf
  | some m => fin (Flt.log (shiftedSum m dV col) + m)

def heads : List (List β) → List β
  | [] => []
  | [] :: rs => heads rs
  | (x :: _) :: rs => x :: heads rs

def tails : List (List β) → List (List β)
  | [] => []
  | [] :: rs => tails rs
  | (_ :: xs) :: rs => xs :: tails rs

/-- columns of a row-major matrix with `n` columns -/
def columns : Nat → List (List β) → List (List β)
  | 0, _ => []
  | n + 1, rows => heads rows :: columns n (tails rows)

/-- `ln_marginalise(m, axis, dV)` for a 2-D input with `ncols` columns.
    A single slice along the reduced axis is returned as it is (no `dV`), as in the code. -/
def lnMarginalise (rows : List (List (LogP α))) (ncols : Nat) (axis : Nat) (dV : α) :
    List (LogP α) :=
  if axis = 0 then
    match rows with
    | [r] => r
    | _ => (columns ncols rows).map (lnMargCol · dV)
  else
    if ncols = 1 then heads rows
    else rows.map (lnMargCol · dV)

/-- `ln_normalise(xs, dV)`: subtract `log (dV · Σ exp xs)`.  An all-`-∞` input stays `-∞`. -/
def lnNormalise (xs : List (LogP α)) (dV : α) : List (LogP α) :=
  match lnMargCol xs dV with
  | negInf => xs
  | fin n => xs.map (subC · n)

end LogDomain
end MTfitVerif
