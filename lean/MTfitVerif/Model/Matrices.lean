import MTfitVerif.Model.StationAngles
import MTfitVerif.Model.Polarity
import MTfitVerif.Model.RatioPdf
/-
  Model of the observation-matrix builders `polarity_matrix`, `polarity_probability_matrix`,
  `amplitude_ratio_matrix` (inversion.py) — C11 (alignment) and the front half of C01.

  Station names are opaque identifiers ordered like the strings they stand for (the harness
  maps each name to its rank among all names).  A data type is a list of station rows; the
  real arrays are column-wise and are indexed with `Name.index(u)` (first occurrence), which
  is what `findRow` does.  Location samples: the station names of the first sample and, per
  sample, the (azimuth, take-off) pair at each position — the code indexes every sample with
  the positions found in the first one.
-/
namespace MTfitVerif
namespace Matrices
open StationAngles
variable {α : Type} [Add α] [Sub α] [Mul α] [Div α] [Neg α] [Flt α]

structure Row (α : Type) where
  name : Nat
  az : α
  toa : α
  measured : List α      -- one value (polarity, amplitude) or two (p₊ p₋ / numerator denominator)
  error : List α
  ipp : Option α         -- IncorrectPolarityProbability, when the type carries it

structure DataType (α : Type) where
  key : String
  rows : List (Row α)

structure Loc (α : Type) where
  names : List Nat
  samples : List (List (α × α))     -- per sample, per position: (azimuth, take-off) in degrees

/-! ### string handling of the type keys -/

def containsSub (s sub : String) : Bool := (s.splitOn sub).length > 1

def rstripChars (s : String) (cs : List Char) : String :=
  String.ofList ((s.toList.reverse.dropWhile (fun ch => cs.contains ch)).reverse)

def isPolarityKey (k : String) : Bool := containsSub k.toLower "polarity" && !containsSub k.toLower "prob"
def isPolarityProbKey (k : String) : Bool := containsSub k.toLower "polarity" && containsSub k.toLower "prob"
def isAmpRatioKey (k : String) : Bool := containsSub k.toLower "amplituderatio" || containsSub k.toLower "amplitude_ratio"

/-- `key.lower().split('polarity')[0]` -/
def polarityMode (k : String) : String := ((k.toLower.splitOn "polarity").headD "")

/-- `key.replace('_','').lower().split('amplituderatio')[0].rstrip('rms').rstrip('q')`, split at `/` -/
def ratioPhases (k : String) : String × String :=
  let p := (((k.replace "_" "").toLower.splitOn "amplituderatio").headD "")
  let p := rstripChars (rstripChars p ['r', 'm', 's']) ['q']
  match p.splitOn "/" with
  | [a, b] => (a, b)
  | _ => ("", "")

/-! ### ordering -/

def insertSorted (x : Nat) : List Nat → List Nat
  | [] => [x]
  | y :: ys => if x < y then x :: y :: ys else if x = y then y :: ys else y :: insertSorted x ys

/-- `sorted(set(l))` -/
def sortDedup : List Nat → List Nat
  | [] => []
  | x :: xs => insertSorted x (sortDedup xs)

def insertKey (x : DataType α) : List (DataType α) → List (DataType α)
  | [] => [x]
  | y :: ys => if x.key < y.key then x :: y :: ys else y :: insertKey x ys

/-- `sorted(keys)` (keys of a dictionary are distinct) -/
def sortByKey : List (DataType α) → List (DataType α)
  | [] => []
  | x :: xs => insertKey x (sortByKey xs)

/-! ### selection -/

def findRow (rows : List (Row α)) (n : Nat) : Option (Row α) := rows.find? (·.name == n)

def idxOf (names : List Nat) (n : Nat) : Nat := names.findIdx (· == n)

/-- `sorted(set(loc.names) & set(data.names))` -/
def selected (loc : Loc α) (rows : List (Row α)) : List Nat :=
  sortDedup ((rows.map (·.name)).filter (loc.names.contains ·))

/-- angles of the selected station `n` in every location sample -/
def locAngles (loc : Loc α) (n : Nat) : List (α × α) :=
  loc.samples.map fun s => s.getD (idxOf loc.names n) (c 0, c 0)

/-- one selected station: its data row and its (az, toa) per location sample.
    Without location samples every data row is used, in data order, with its own angles. -/
def stationsOf (loc : Option (Loc α)) (rows : List (Row α)) : List (Row α × List (α × α)) :=
  match loc with
  | none => rows.map fun r => (r, [(r.az, r.toa)])
  | some l => (selected l rows).filterMap fun n => (findRow rows n).map fun r => (r, locAngles l n)

def scale (k : α) (v : List α) : List α := v.map (· * k)

/-! ### the builders -/

def polarityRows (ph : Phase) (loc : Option (Loc α)) (rows : List (Row α)) : List (Polarity.PolStation α) :=
  (stationsOf loc rows).map fun (r, angs) =>
    { coeffs := angs.map fun (az, toa) => scale (r.measured.headD (c 0)) (coeffsDeg ph az toa),
      sigma := r.error.headD (c 0),
      w := r.ipp.getD (c 0) }

/-- `polarity_matrix(data, location_samples)`: types in sorted key order, rows appended.
    `none` when a key's mode is not a recognised phase (the code raises). -/
def polarityMatrix (data : List (DataType α)) (loc : Option (Loc α)) : Option (List (Polarity.PolStation α)) :=
  (sortByKey (data.filter (isPolarityKey ·.key))).foldlM (init := [])
    fun acc t => (parsePhase (polarityMode t.key)).map fun ph => acc ++ polarityRows ph loc t.rows

def polProbRows (ph : Phase) (loc : Option (Loc α)) (rows : List (Row α)) : List (Polarity.PolProbStation α) :=
  (stationsOf loc rows).map fun (r, angs) =>
    { coeffs := angs.map fun (az, toa) => coeffsDeg ph az toa,
      pp := r.measured.getD 0 (c 0),
      pn := r.measured.getD 1 (c 0),
      w := r.ipp.getD (c 0) }

def polarityProbabilityMatrix (data : List (DataType α)) (loc : Option (Loc α)) :
    Option (List (Polarity.PolProbStation α)) :=
  (sortByKey (data.filter (isPolarityProbKey ·.key))).foldlM (init := [])
    fun acc t => (parsePhase (polarityMode t.key)).map fun ph => acc ++ polProbRows ph loc t.rows

def ratioRows (p1 p2 : Phase) (loc : Option (Loc α)) (rows : List (Row α)) : List (RatioPdf.ArStation α) :=
  (stationsOf loc rows).map fun (r, angs) =>
    let m0 := r.measured.getD 0 (c 0); let m1 := r.measured.getD 1 (c 0)
    { cx := angs.map fun (az, toa) => coeffsDeg p1 az toa,
      cy := angs.map fun (az, toa) => coeffsDeg p2 az toa,
      ratio := Flt.abs (m0 / m1),
      px := r.error.getD 0 (c 0) / Flt.abs m0,
      py := r.error.getD 1 (c 0) / Flt.abs m1 }

def amplitudeRatioMatrix (data : List (DataType α)) (loc : Option (Loc α)) :
    Option (List (RatioPdf.ArStation α)) :=
  (sortByKey (data.filter (isAmpRatioKey ·.key))).foldlM (init := [])
    fun acc t =>
      let (a, b) := ratioPhases t.key
      match parsePhase a, parsePhase b with
      | some p1, some p2 => some (acc ++ ratioRows p1 p2 loc t.rows)
      | _, _ => none

end Matrices
end MTfitVerif
