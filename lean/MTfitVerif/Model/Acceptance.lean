import MTfitVerif.Model.LogP
import MTfitVerif.Model.RatioPdf
/-
  Model of the Metropolis–Hastings and reversible-jump acceptance of the Markov-chain samplers
  (algorithms/markov_chain_monte_carlo.py): `transition_pdf`, `acceptance` (single and
  multi-event), `jump_params(x)`, the trans-dimensional `acceptance` and the accept decision — C05.

  The sampling prior is a parameter (`uniform_prior` needs `scipy.stats.beta.pdf`; the concrete
  priors are defined below for the executable model with the Beta density written out).
-/
namespace MTfitVerif
namespace Acceptance
open LogP
variable {α : Type} [Add α] [Sub α] [Mul α] [Div α] [Neg α] [Flt α]

structure Tape (α : Type) where
  gamma : α
  delta : α
  kappa : α
  h : α
  sigma : α

/-- proposal widths (`alpha` dictionary) -/
structure Widths (α : Type) where
  gamma : α
  delta : α
  kappa : α
  h : α
  sigma : α
  gammaDc : α
  deltaDc : α
  propNorm : α

/-- `scipy.stats.norm.pdf(x, loc, scale)` -/
def gaussPdf (x μ s : α) : α :=
  Flt.exp (-(((x - μ) / s) * ((x - μ) / s)) / c 2) / Flt.sqrt (c 2 * Flt.pi) / s

/-- `scipy.stats.norm.cdf(x, loc, scale)` -/
def gaussCdf (x μ s : α) : α := RatioPdf.stdCdf ((x - μ) / s)

/-- one truncated-Gaussian factor: density of `x` about the mean `m`, normalised over `[lo, hi]`
    at that mean -/
def truncTerm (x m s lo hi : α) : α := gaussPdf x m s / (gaussCdf hi m s - gaussCdf lo m s)

/-- `transition_pdf(x, x1)`: density of proposing `x` from the state `x1` (strike excluded: its
    wrapped normal kernel is symmetric) -/
def transPdf (dc : Bool) (w : Widths α) (x x1 : Tape α) : α :=
  (if dc then c 1
   else truncTerm x.gamma x1.gamma w.gamma (-(Flt.pi / c 6)) (Flt.pi / c 6)
        * truncTerm x.delta x1.delta w.delta (-(Flt.pi / c 2)) (Flt.pi / c 2))
  * truncTerm x.h x1.h w.h (c 0) (c 1)
  * truncTerm x.sigma x1.sigma w.sigma (-(Flt.pi / c 2)) (Flt.pi / c 2)

/-- Metropolis–Hastings ratio of one event: `q(ξ|x) π(x) / (q(x|ξ) π(ξ))`; `none` when the
    denominator is not positive (the code then accepts) -/
def mhRatio (prior : Bool → Tape α → α) (dc : Bool) (w : Widths α) (xi x : Tape α) : Option α :=
  if Flt.ltb (c 0) (transPdf dc w x xi) && Flt.ltb (c 0) (prior dc xi) then
    some (transPdf dc w xi x * prior dc x / (transPdf dc w x xi * prior dc xi))
  else none

/-- `acceptance(x, ln_likelihood_x)` of the single-event sampler -/
def acceptMH (prior : Bool → Tape α → α) (dc : Bool) (w : Widths α) (xi x : Tape α)
    (Lxi Lx : LogP α) : α :=
  match Lx with
  | negInf => c 0
  | fin lx =>
    match Lxi with
    | negInf => c 1
    | fin lxi =>
      match mhRatio prior dc w xi x with
      | none => c 1
      | some r => fmin (c 1) (r * Flt.exp (lx - lxi))

/-- product of the per-event ratios (`none` as soon as one denominator is not positive) -/
def mhRatioMulti (prior : Bool → Tape α → α) : List (Bool × Widths α × Tape α × Tape α) → Option α
  | [] => some (c 1)
  | (dc, w, xi, x) :: rest =>
    match mhRatio prior dc w xi x, mhRatioMulti prior rest with
    | some r, some rs => some (r * rs)
    | _, _ => none

/-- joint multi-event acceptance -/
def acceptMulti (prior : Bool → Tape α → α) (evs : List (Bool × Widths α × Tape α × Tape α))
    (Lxi Lx : LogP α) : α :=
  match Lx with
  | negInf => c 0
  | fin lx =>
    match mhRatioMulti prior evs with
    | none => c 1
    | some r =>
      match Lxi with
      | negInf => c 1
      | fin lxi => fmin (c 1) (r * Flt.exp (lx - lxi))

/-- `jump_params(x)`: density of the dimension-balancing draw -/
def jumpQ (w : Widths α) (x : Tape α) : α :=
  gaussPdf x.gamma (c 0) w.gammaDc * gaussPdf x.delta (c 0) w.deltaDc / w.propNorm

/-- `proposal_normalisation` as the trans-dimensional sampler's `__init__` computes it (since fix d6bce07): the mass of the two
    normal distributions about zero on the ranges the balancing draw is truncated to -/
def propNormOf (sg sd : α) : α :=
  (c 1 - c 2 * gaussCdf (-(Flt.pi / c 2)) (c 0) sd) * (c 1 - c 2 * gaussCdf (-(Flt.pi / c 6)) (c 0) sg)

/-- acceptance of a jump from the double-couple state to the full-tensor state `x`
    (`prior true _` is the double-couple prior, constant 1 in the code) -/
def acceptJumpUp (prior : Bool → Tape α → α) (w : Widths α) (xiDc x : Tape α) (pDc : α) (Lxi Lx : LogP α) : α :=
  match Lx, Lxi with
  | negInf, _ => c 0
  | fin _, negInf => c 1
  | fin lx, fin lxi =>
    fmin (c 1) (prior false x / (jumpQ w x * prior true xiDc) * ((c 1 - pDc) / pDc) * Flt.exp (lx - lxi))

/-- acceptance of a jump from the full-tensor state `xi` down to the double-couple state -/
def acceptJumpDown (prior : Bool → Tape α → α) (w : Widths α) (xi xDc : Tape α) (pDc : α) (Lxi Lx : LogP α) : α :=
  match Lx, Lxi with
  | negInf, _ => c 0
  | fin _, negInf => c 1
  | fin lx, fin lxi =>
    fmin (c 1) (jumpQ w xi * prior true xDc / prior false xi * (pDc / (c 1 - pDc)) * Flt.exp (lx - lxi))

/-- accept decision for a uniform draw `u ∈ [0,1)` -/
def decide (u a : α) : Bool := Flt.ltb u a

/-! ### the shipped priors (executable) -/

/-- Beta(b,b) density with `b = 5.745`; `lnB = ln B(b,b)` -/
def betaPdf (u : α) : α :=
  let b : α := sci 5745 3
  let lnB : α := -(sci 7551183110261967 15)     -- ln B(5.745, 5.745) = -7.551183110261967
  if Flt.leb u (c 0) || Flt.leb (c 1) u then c 0
  else Flt.exp ((b - c 1) * (Flt.log u + Flt.log (c 1 - u)) - lnB)

def uniformPrior (dc : Bool) (x : Tape α) : α :=
  if dc then c 1
  else c 1 * (sci 15 1 * Flt.cos (c 3 * x.gamma)) * (betaPdf ((x.delta + Flt.pi / c 2) / Flt.pi) / Flt.pi)
       * sci 110452194071529090000 20

def flatPrior (dc : Bool) (_x : Tape α) : α :=
  if dc then c 1 else c 1 * (c 3 / Flt.pi) * (c 1 / Flt.pi)

end Acceptance
end MTfitVerif
