import MTfitVerif.Model.Flt
/-
  Model of `parse_scatangle`, its greedy binning loop and `_output_scatangle`
  (extensions/scatangle.py, Python path) — C18.

  A file is its list of logical lines, already classified by the number of whitespace-separated
  tokens: blank, a single token (the weight; `badWeight` when it is not a number), or a station
  line.  Station names are opaque identifiers.
-/
namespace MTfitVerif
namespace Scatangle
variable {α : Type} [Add α] [Sub α] [Mul α] [Div α] [Neg α] [Flt α]

inductive Line (α : Type) where
  | blank : Line α
  | weight (w : α) : Line α
  | badWeight : Line α
  | station (name : Nat) (az toa : α) : Line α

/-- one sample block: its stations in file order -/
abbrev Record (α : Type) := List (Nat × α × α)

structure PState (α : Type) where
  cur : Record α          -- stations of the block being read (in order)
  mult : α                -- current weight (kept for following blocks until reset)
  out : List (Record α × α)

def step (s : PState α) : Line α → PState α
  | .blank =>
    if !s.cur.isEmpty && !(Flt.eqb s.mult (c 0)) then { s with cur := [], out := s.out ++ [(s.cur, s.mult)] }
    else { s with cur := [] }
  | .weight w => { s with mult := w }
  | .badWeight => { s with mult := c 1 }
  | .station n az toa => { s with cur := s.cur ++ [(n, az, toa)] }

/-- `parse_scatangle(filename)` without sub-sampling or binning -/
def parse (lines : List (Line α)) : List (Record α × α) :=
  let s : PState α := lines.foldl step ({ cur := [], mult := c 1, out := [] } : PState α)
  if s.cur.isEmpty then s.out else s.out ++ [(s.cur, s.mult)]

/-- `np.max(np.abs(a - b)) < bin/2` for take-off angles and azimuths, station by station -/
def close (binSize : α) (r r' : Record α) : Bool :=
  (List.zip r r').all fun p =>
    Flt.ltb (Flt.abs (p.2.2.2 - p.1.2.2)) (binSize / c 2) && Flt.ltb (Flt.abs (p.2.2.1 - p.1.2.1)) (binSize / c 2)

/-- the pop-and-add loop: the head record is retained; every later record close to it is merged
    into it (weights added in order), the others are examined in turn -/
def binAux (binSize : α) : Nat → List (Record α × α) → List (Record α × α)
  | 0, l => l
  | _, [] => []
  | fuel + 1, (r, w) :: rest =>
    let merged := rest.filter fun x => close binSize r x.1
    let others := rest.filter fun x => !close binSize r x.1
    (r, merged.foldl (fun acc x => acc + x.2) w) :: binAux binSize fuel others

/-- `parse_scatangle(…, bin_size)`: no binning for a zero bin size -/
def bin (binSize : α) (recs : List (Record α × α)) : List (Record α × α) :=
  if Flt.eqb binSize (c 0) then recs else binAux binSize recs.length recs

/-- lines written by `_output_scatangle` as they are read back: weight line, station lines and a
    blank line per sample; the final blank line is not there (the text ends after the last
    station line's newline) -/
def render (recs : List (Record α × α)) : List (Line α) :=
  (recs.flatMap fun p => Line.weight p.2 :: (p.1.map fun s => Line.station s.1 s.2.1 s.2.2) ++ [Line.blank]).dropLast

/-- sub-sampling: the records at the drawn indices -/
def subsample (recs : List (Record α × α)) (idx : List Nat) : List (Record α × α) :=
  idx.filterMap fun i => recs[i]?

end Scatangle
end MTfitVerif
