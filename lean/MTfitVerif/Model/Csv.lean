/-
  Model of `parse_csv` / `_parse_csv_events` and of the phase-line extraction of
  `_parse_hyp_events` (utilities/file_io.py) — C17.

  Numbers stay strings (Python's `float()` is applied by the harness on both sides), so the
  model is about structure: event splitting, type lines, header-driven column lookup, one- and
  two-valued fields, the default UID.
-/
namespace MTfitVerif
namespace Csv

/-! ### string helpers (executable glue; covered by the correspondence run) -/

def containsSub (s sub : String) : Bool := (s.splitOn sub).length > 1

def isWs (ch : Char) : Bool := ch == ' ' || ch == '\t' || ch == '\n' || ch == '\r' || ch == '\x0b' || ch == '\x0c'

/-- `str.split()` -/
def words (s : String) : List String :=
  (s.toList.splitBy (fun a b => isWs a == isWs b)).filterMap fun g =>
    match g with
    | [] => none
    | ch :: _ => if isWs ch then none else some (String.ofList g)

/-- `str.strip()` -/
def strip (s : String) : String :=
  String.ofList ((s.toList.dropWhile isWs).reverse.dropWhile isWs).reverse

def lstripChar (s : String) (ch : Char) : String := String.ofList (s.toList.dropWhile (· == ch))

/-- `field.split('UID')[1].lstrip(':').lstrip('=').strip()` -/
def uidOf (field : String) : String :=
  strip (lstripChar (lstripChar ((field.splitOn "UID").getD 1 "") ':') '=')

/-! ### classified lines -/

structure Idx where
  name : Nat
  measured : Nat
  azimuth : Nat
  takeoff : Nat
  error : Nat
deriving DecidableEq, Repr

inductive CLine where
  | uid (s : String)
  | typ (key : String)
  | header (i : Idx)
  | row (fields : List String)
deriving Repr

def indexOf? (l : List String) (x : String) : Option Nat :=
  let i := l.findIdx (· == x)
  if i < l.length then some i else none

/-- classification of one (right-stripped) line of an event; `none`: the code raises -/
def classify (line : String) : Option CLine :=
  let f := line.splitOn ","
  let first := f.headD ""
  if first.length > 0 && (f.drop 1).all (·.length == 0) then
    if containsSub first "UID" then some (.uid (uidOf first)) else some (.typ (strip first))
  else if f.contains "Name" then
    let l := f.map String.toLower
    match indexOf? l "name", indexOf? l "measured", indexOf? l "azimuth", indexOf? l "takeoffangle", indexOf? l "error" with
    | some a, some b, some c, some d, some e => some (.header ⟨a, b, c, d, e⟩)
    | _, _, _, _, _ => none
  else some (.row f)

/-- a line separates events when its first two comma-separated fields are empty -/
def isSeparator (rawLine : String) : Bool :=
  match rawLine.splitOn "," with
  | a :: b :: _ => a.length == 0 && b.length == 0
  | _ => false

/-! ### structural parser -/

structure Row where
  name : String
  takeoff : String
  azimuth : String
  measured : List String
  error : List String
deriving DecidableEq, Repr

structure Event where
  uid : String
  types : List (String × List Row)     -- in insertion order; a repeated key overwrites in place
deriving DecidableEq, Repr

def setKey (types : List (String × List Row)) (k : String) (rows : List Row) : List (String × List Row) :=
  if types.any (·.1 == k) then types.map fun p => if p.1 == k then (k, rows) else p
  else types ++ [(k, rows)]

structure PState where
  key : String
  idx : Idx
deriving Repr

def defaultState : PState := { key := "PPolarity", idx := ⟨0, 3, 1, 2, 4⟩ }

def mkRow (i : Idx) (f : List String) : Row :=
  { name := f.getD i.name "",
    takeoff := strip (f.getD i.takeoff ""),
    azimuth := strip (f.getD i.azimuth ""),
    measured := words (f.getD i.measured ""),
    error := words (f.getD i.error "") }

structure EvState where
  ps : PState
  uid : String
  rows : List Row
  types : List (String × List Row)

def flush (s : EvState) : List (String × List Row) :=
  if s.rows.isEmpty then s.types else setKey s.types s.ps.key s.rows

def stepLine (s : EvState) : CLine → EvState
  | .uid u => { s with uid := u }
  | .typ k => { s with types := flush s, rows := [], ps := { s.ps with key := k } }
  | .header i => { s with ps := { s.ps with idx := i } }
  | .row f => { s with rows := s.rows ++ [mkRow s.ps.idx f] }

/-- one event; the key and the column indices carry over from the previous event -/
def parseEvent (ps : PState) (defaultUid : String) (lines : List CLine) : Event × PState :=
  let s := lines.foldl stepLine { ps := ps, uid := defaultUid, rows := [], types := [] }
  ({ uid := s.uid, types := flush s }, s.ps)

def parseEvents (ps : PState) : Nat → List (String × List CLine) → List Event
  | _, [] => []
  | n, (du, ls) :: rest =>
    let (e, ps') := parseEvent ps du ls
    e :: parseEvents ps' (n + 1) rest

/-- split raw lines into events at separator lines (empty events are dropped); lines are
    right-stripped -/
def splitEvents (raw : List String) : List (List String) :=
  let (evs, cur) := raw.foldl (fun (acc : List (List String) × List String) l =>
      if isSeparator l then (if acc.2.isEmpty then acc.1 else acc.1 ++ [acc.2], [])
      else (acc.1, acc.2 ++ [String.ofList (l.toList.reverse.dropWhile isWs).reverse]))
    ([], [])
  if cur.isEmpty then evs else evs ++ [cur]

/-- `parse_csv` on the file's lines; `none` when some line cannot be classified -/
def parseCsv (raw : List String) : Option (List Event) := do
  let evs := splitEvents raw
  let cls ← evs.mapM fun e => e.mapM classify
  -- default UID: 1-based index of the first equal event
  let withUid := (List.zip evs cls).map fun p => (toString ((evs.findIdx (· == p.1)) + 1), p.2)
  pure (parseEvents defaultState 0 withUid)

/-! ### hyp phase lines -/

/-- a phase line (already split on whitespace, at least 25 tokens) yields station, phase type,
    polarity token, time uncertainty, azimuth and take-off angle -/
structure Pick where
  station : String
  phase : String
  polarity : String
  uncertainty : String
  azimuth : String
  takeoff : String
deriving DecidableEq, Repr

def pickOf (toks : List String) : Option Pick :=
  if toks.length ≥ 25 then
    some { station := toks.getD 0 "", phase := toks.getD 4 "", polarity := toks.getD 5 "",
           uncertainty := toks.getD 10 "", azimuth := toks.getD 23 "", takeoff := toks.getD 24 "" }
  else none

/-- picks of one event block: the lines between `PHASE` and `END_PHASE` -/
def picks (lines : List (List String)) : List Pick :=
  (lines.foldl (fun (acc : Bool × List Pick) l =>
      match l.headD "" with
      | "PHASE" => (true, acc.2)
      | "END_PHASE" => (false, acc.2)
      | _ => if acc.1 then (acc.1, acc.2 ++ (pickOf l).toList) else acc)
    (false, [])).2

end Csv
end MTfitVerif
