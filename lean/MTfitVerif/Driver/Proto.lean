import MTfitVerif.Model.LogP
/-
  Line protocol of the executable model.  One request per line: an operation name followed
  by unsigned decimal tokens.  A float travels as the decimal value of its IEEE-754 bit
  pattern, so transfer is exact.  One reply line per request.
-/
namespace MTfitVerif.Proto

abbrev P := StateT (List String) (Except String)

def tok : P String := do
  match (← get) with
  | [] => throw "bad-op:missing-token"
  | t :: ts => set ts; pure t

def nat : P Nat := do
  let t ← tok
  match t.toNat? with
  | some n => pure n
  | none => throw s!"bad-op:not-a-number:{t}"

def flt : P Float := do
  let n ← nat
  pure (Float.ofBits (UInt64.ofNat n))

def bool : P Bool := do pure ((← nat) != 0)

def many (n : Nat) (p : P β) : P (List β) := do
  let mut out : Array β := #[]
  for _ in [0:n] do
    out := out.push (← p)
  pure out.toList

def flts (n : Nat) : P (List Float) := many n flt

/-- a float that may be `-inf`; NaN or `+inf` is not a log-probability the model knows -/
def logp : P (LogP Float) := do
  let x ← flt
  if x.isNaN then throw "bad-op:nan-logp"
  else if x == -(1.0/0.0) then pure LogP.negInf
  else pure (LogP.fin x)

def logps (n : Nat) : P (List (LogP Float)) := many n logp

def hexVal (ch : Char) : Nat :=
  if ch.isDigit then ch.toNat - '0'.toNat else if 'a' ≤ ch && ch ≤ 'f' then ch.toNat - 'a'.toNat + 10 else 0

/-- a string token: `x` followed by the hex of its UTF-8 bytes -/
def str : P String := do
  let t ← tok
  match t.toList with
  | 'x' :: hs =>
    let rec go : List Char → List UInt8
      | a :: b :: rest => UInt8.ofNat (hexVal a * 16 + hexVal b) :: go rest
      | _ => []
    match String.fromUTF8? (ByteArray.mk (go hs).toArray) with
    | some s => pure s
    | none => throw "bad-op:utf8"
  | _ => throw s!"bad-op:not-a-string:{t}"

def hexDigit (n : Nat) : Char := if n < 10 then Char.ofNat (n + 48) else Char.ofNat (n - 10 + 97)

def outS (s : String) : String :=
  "x" ++ String.ofList (s.toUTF8.toList.flatMap fun b => [hexDigit (b.toNat / 16), hexDigit (b.toNat % 16)])

/-- a double that may be NaN (`none`) -/
def optFlt : P (Option Float) := do
  let x ← flt
  pure (if x.isNaN then none else some x)

def done : P Unit := do
  match (← get) with
  | [] => pure ()
  | _ => throw "bad-op:extra-tokens"

def outF (x : Float) : String := toString x.toBits.toNat
def outFs (xs : List Float) : String := " ".intercalate (xs.map outF)
def outLP : LogP Float → String
  | .negInf => outF (-(1.0/0.0))
  | .fin x => outF x
def outLPs (xs : List (LogP Float)) : String := " ".intercalate (xs.map outLP)
def outB (b : Bool) : String := if b then "1" else "0"

end MTfitVerif.Proto
