import MTfitVerif.Model.LogP
/-
  Line protocol of the executable model.  One request per line: an operation name followed
  by unsigned decimal tokens.  A float travels as the decimal value of its IEEE-754 bit
  pattern, so transfer is exact.  One reply line per request.
-/
namespace MTfitVerif.Proto

abbrev P := StateT (List String) (Except String)

def tok : P String := do
  match (← get) with
  | [] => throw "bad-op:missing-token"
  | t :: ts => set ts; pure t

def nat : P Nat := do
  let t ← tok
  match t.toNat? with
  | some n => pure n
  | none => throw s!"bad-op:not-a-number:{t}"

def flt : P Float := do
  let n ← nat
  pure (Float.ofBits (UInt64.ofNat n))

def bool : P Bool := do pure ((← nat) != 0)

def many (n : Nat) (p : P β) : P (List β) := do
  let mut out : Array β := #[]
  for _ in [0:n] do
    out := out.push (← p)
  pure out.toList

def flts (n : Nat) : P (List Float) := many n flt

/-- a float that may be `-inf`; NaN or `+inf` is not a log-probability the model knows -/
def logp : P (LogP Float) := do
  let x ← flt
  if x.isNaN then throw "bad-op:nan-logp"
  else if x == -(1.0/0.0) then pure LogP.negInf
  else pure (LogP.fin x)

def logps (n : Nat) : P (List (LogP Float)) := many n logp

def done : P Unit := do
  match (← get) with
  | [] => pure ()
  | _ => throw "bad-op:extra-tokens"

def outF (x : Float) : String := toString x.toBits.toNat
def outFs (xs : List Float) : String := " ".intercalate (xs.map outF)
def outLP : LogP Float → String
  | .negInf => outF (-(1.0/0.0))
  | .fin x => outF x
def outLPs (xs : List (LogP Float)) : String := " ".intercalate (xs.map outLP)
def outB (b : Bool) : String := if b then "1" else "0"

end MTfitVerif.Proto
