import MTfitVerif.Driver.Proto
import MTfitVerif.Model.LogDomain
import MTfitVerif.Model.Evidence
import MTfitVerif.Model.Polarity
import MTfitVerif.Model.RatioPdf
/- dispatch table of the executable model -/
namespace MTfitVerif.Driver
open MTfitVerif Proto

def opErf : P String := do
  let x ← flt; done
  pure (outF (Flt.erf x))

/-- `lnmarg axis nrows ncols dV v…` (row-major) -/
def opLnMarg : P String := do
  let axis ← nat; let nr ← nat; let nc ← nat; let dV ← flt
  let rows ← many nr (logps nc); done
  pure (outLPs (LogDomain.lnMarginalise rows nc axis dV))

/-- `lnnorm n dV v…` -/
def opLnNorm : P String := do
  let n ← nat; let dV ← flt
  let xs ← logps n; done
  pure (outLPs (LogDomain.lnNormalise xs dV))

/-- `lnbe n N v…` -/
def opLnBE : P String := do
  let n ← nat; let N ← flt
  let xs ← logps n; done
  pure (outLP (Evidence.lnBayesianEvidence xs N))

/-- `modelprob k e…` -/
def opModelProb : P String := do
  let k ← nat
  let es ← flts k; done
  pure (outFs (Evidence.modelProbabilities es))

/-- `dklest n V N v…` -/
def opDklEst : P String := do
  let n ← nat; let V ← flt; let N ← flt
  let xs ← logps n; done
  pure (outF (Evidence.dklEstimate xs V N))

/-- `dkl n dV p… q…` -/
def opDkl : P String := do
  let n ← nat; let dV ← flt
  let ps ← logps n; let qs ← logps n; done
  match Evidence.dkl (List.zip ps qs) dV with
  | some d => pure (outF d)
  | none => pure "err:undefined"

/-- `polprob A σ w` → probability -/
def opPolProb : P String := do
  let A ← flt; let σ ← flt; let w ← flt; done
  pure (outF (Polarity.polProb A σ w))

/-- `polprobp A p₊ p₋ w` → probability -/
def opPolProbP : P String := do
  let A ← flt; let pp ← flt; let pn ← flt; let w ← flt; done
  pure (outF (Polarity.polProbP A pp pn w))

def vec6s (n : Nat) : P (List (List Float)) := many n (flts 6)

/-- `polpdf nsta nloc nmt (σ w coeffs[nloc×6])×nsta mts[nmt×6]`
    → `nloc×nmt` log-likelihoods followed by `nloc×nmt` condition numbers `Σ_s 1/p_s` -/
def opPolPdf : P String := do
  let ns ← nat; let nl ← nat; let nm ← nat
  let sts ← many ns (do
    let σ ← flt; let w ← flt; let cs ← vec6s nl
    pure ({ coeffs := cs, sigma := σ, w := w } : Polarity.PolStation Float))
  let mts ← vec6s nm; done
  let out := Polarity.polarityLnPdf sts nl mts
  let kappa := (List.range nl).map fun k => mts.map fun mt =>
    sumL (sts.map fun s => 1.0 / Polarity.polProb (dot (s.coeffs.getD k []) mt) s.sigma s.w)
  pure (outLPs out.flatten ++ " " ++ outFs kappa.flatten)

/-- `polprobpdf nsta nloc nmt (p₊ p₋ w coeffs[nloc×6])×nsta mts[nmt×6]` → `nloc×nmt` log-likelihoods -/
def opPolProbPdf : P String := do
  let ns ← nat; let nl ← nat; let nm ← nat
  let sts ← many ns (do
    let pp ← flt; let pn ← flt; let w ← flt; let cs ← vec6s nl
    pure ({ coeffs := cs, pp := pp, pn := pn, w := w } : Polarity.PolProbStation Float))
  let mts ← vec6s nm; done
  pure (outLPs (Polarity.polarityProbabilityLnPdf sts nl mts).flatten)

/-- `ratiopdf z μx μy σx σy` → density and Hinkley's `c` (conditioning of the exponent) -/
def opRatioPdf : P String := do
  let z ← flt; let mx ← flt; let my ← flt; let sx ← flt; let sy ← flt; done
  pure (outFs [RatioPdf.ratioPdf z mx my sx sy, RatioPdf.coefC mx my sx sy])

/-- `arpdf r μx μy px py` → density and conditioning -/
def opArPdf : P String := do
  let r ← flt; let mx ← flt; let my ← flt; let px ← flt; let py ← flt; done
  let ax := Float.abs mx; let ay := Float.abs my
  pure (outFs [RatioPdf.arPdf r mx my px py,
    RatioPdf.coefC ax ay (RatioPdf.errFix px * ax) (RatioPdf.errFix py * ay)])

/-- `arlnpdf nsta nloc nmt (ratio px py cx[nloc×6] cy[nloc×6])×nsta mts[nmt×6]`
    → `nloc×nmt` log-likelihoods then `nloc×nmt` condition numbers `Σ_s c_s` -/
def opArLnPdf : P String := do
  let ns ← nat; let nl ← nat; let nm ← nat
  let sts ← many ns (do
    let r ← flt; let px ← flt; let py ← flt; let cx ← vec6s nl; let cy ← vec6s nl
    pure ({ cx := cx, cy := cy, ratio := r, px := px, py := py } : RatioPdf.ArStation Float))
  let mts ← vec6s nm; done
  let out := RatioPdf.amplitudeRatioLnPdf sts nl mts
  let kappa := (List.range nl).map fun k => mts.map fun mt =>
    sumL (sts.map fun s =>
      let ax := Float.abs (dot (s.cx.getD k []) mt); let ay := Float.abs (dot (s.cy.getD k []) mt)
      RatioPdf.coefC ax ay (RatioPdf.errFix s.px * ax) (RatioPdf.errFix s.py * ay))
  pure (outLPs out.flatten ++ " " ++ outFs kappa.flatten)

def table : List (String × P String) := [
  ("ratiopdf", opRatioPdf),
  ("arpdf", opArPdf),
  ("arlnpdf", opArLnPdf),
  ("polprob", opPolProb),
  ("polprobp", opPolProbP),
  ("polpdf", opPolPdf),
  ("polprobpdf", opPolProbPdf),
  ("lnbe", opLnBE),
  ("modelprob", opModelProb),
  ("dklest", opDklEst),
  ("dkl", opDkl),
  ("erf", opErf),
  ("lnmarg", opLnMarg),
  ("lnnorm", opLnNorm)
]

def handle (line : String) : String :=
  match (line.splitOn " ").filter (· ≠ "") with
  | [] => "bad-op:empty"
  | op :: args =>
    match table.lookup op with
    | none => s!"bad-op:unknown:{op}"
    | some p =>
      match (p.run args) with
      | .ok (s, _) => s
      | .error e => e

end MTfitVerif.Driver
