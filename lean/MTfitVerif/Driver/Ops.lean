import MTfitVerif.Driver.Proto
import MTfitVerif.Model.LogDomain
import MTfitVerif.Model.Evidence
import MTfitVerif.Model.Polarity
import MTfitVerif.Model.RatioPdf
import MTfitVerif.Model.Forward
import MTfitVerif.Model.SampleStore
import MTfitVerif.Model.Scatangle
/- dispatch table of the executable model -/
namespace MTfitVerif.Driver
open MTfitVerif Proto

def opErf : P String := do
  let x ← flt; done
  pure (outF (Flt.erf x))

/-- `lnmarg axis nrows ncols dV v…` (row-major) -/
def opLnMarg : P String := do
  let axis ← nat; let nr ← nat; let nc ← nat; let dV ← flt
  let rows ← many nr (logps nc); done
  pure (outLPs (LogDomain.lnMarginalise rows nc axis dV))

/-- `lnnorm n dV v…` -/
def opLnNorm : P String := do
  let n ← nat; let dV ← flt
  let xs ← logps n; done
  pure (outLPs (LogDomain.lnNormalise xs dV))

/-- `lnbe n N v…` -/
def opLnBE : P String := do
  let n ← nat; let N ← flt
  let xs ← logps n; done
  pure (outLP (Evidence.lnBayesianEvidence xs N))

/-- `modelprob k e…` -/
def opModelProb : P String := do
  let k ← nat
  let es ← flts k; done
  pure (outFs (Evidence.modelProbabilities es))

/-- `dklest n V N v…` -/
def opDklEst : P String := do
  let n ← nat; let V ← flt; let N ← flt
  let xs ← logps n; done
  pure (outF (Evidence.dklEstimate xs V N))

/-- `dkl n dV p… q…` -/
def opDkl : P String := do
  let n ← nat; let dV ← flt
  let ps ← logps n; let qs ← logps n; done
  match Evidence.dkl (List.zip ps qs) dV with
  | some d => pure (outF d)
  | none => pure "err:undefined"

/-- `polprob A σ w` → probability -/
def opPolProb : P String := do
  let A ← flt; let σ ← flt; let w ← flt; done
  pure (outF (Polarity.polProb A σ w))

/-- `polprobp A p₊ p₋ w` → probability -/
def opPolProbP : P String := do
  let A ← flt; let pp ← flt; let pn ← flt; let w ← flt; done
  pure (outF (Polarity.polProbP A pp pn w))

def vec6s (n : Nat) : P (List (List Float)) := many n (flts 6)

/-- `polpdf nsta nloc nmt (σ w coeffs[nloc×6])×nsta mts[nmt×6]`
    → `nloc×nmt` log-likelihoods followed by `nloc×nmt` condition numbers `Σ_s 1/p_s` -/
def opPolPdf : P String := do
  let ns ← nat; let nl ← nat; let nm ← nat
  let sts ← many ns (do
    let σ ← flt; let w ← flt; let cs ← vec6s nl
    pure ({ coeffs := cs, sigma := σ, w := w } : Polarity.PolStation Float))
  let mts ← vec6s nm; done
  let out := Polarity.polarityLnPdf sts nl mts
  let kappa := (List.range nl).map fun k => mts.map fun mt =>
    sumL (sts.map fun s => 1.0 / Polarity.polProb (dot (s.coeffs.getD k []) mt) s.sigma s.w)
  pure (outLPs out.flatten ++ " " ++ outFs kappa.flatten)

/-- `polprobpdf nsta nloc nmt (p₊ p₋ w coeffs[nloc×6])×nsta mts[nmt×6]` → `nloc×nmt` log-likelihoods -/
def opPolProbPdf : P String := do
  let ns ← nat; let nl ← nat; let nm ← nat
  let sts ← many ns (do
    let pp ← flt; let pn ← flt; let w ← flt; let cs ← vec6s nl
    pure ({ coeffs := cs, pp := pp, pn := pn, w := w } : Polarity.PolProbStation Float))
  let mts ← vec6s nm; done
  pure (outLPs (Polarity.polarityProbabilityLnPdf sts nl mts).flatten)

/-- `ratiopdf z μx μy σx σy` → density and Hinkley's `c` (conditioning of the exponent) -/
def opRatioPdf : P String := do
  let z ← flt; let mx ← flt; let my ← flt; let sx ← flt; let sy ← flt; done
  pure (outFs [RatioPdf.ratioPdf z mx my sx sy, RatioPdf.coefC mx my sx sy])

/-- `arpdf r μx μy px py` → density and conditioning -/
def opArPdf : P String := do
  let r ← flt; let mx ← flt; let my ← flt; let px ← flt; let py ← flt; done
  let ax := Float.abs mx; let ay := Float.abs my
  pure (outFs [RatioPdf.arPdf r mx my px py,
    RatioPdf.coefC ax ay (RatioPdf.errFix px * ax) (RatioPdf.errFix py * ay)])

/-- `arlnpdf nsta nloc nmt (ratio px py cx[nloc×6] cy[nloc×6])×nsta mts[nmt×6]`
    → `nloc×nmt` log-likelihoods then `nloc×nmt` condition numbers `Σ_s c_s` -/
def opArLnPdf : P String := do
  let ns ← nat; let nl ← nat; let nm ← nat
  let sts ← many ns (do
    let r ← flt; let px ← flt; let py ← flt; let cx ← vec6s nl; let cy ← vec6s nl
    pure ({ cx := cx, cy := cy, ratio := r, px := px, py := py } : RatioPdf.ArStation Float))
  let mts ← vec6s nm; done
  let out := RatioPdf.amplitudeRatioLnPdf sts nl mts
  let kappa := (List.range nl).map fun k => mts.map fun mt =>
    sumL (sts.map fun s =>
      let ax := Float.abs (dot (s.cx.getD k []) mt); let ay := Float.abs (dot (s.cy.getD k []) mt)
      RatioPdf.coefC ax ay (RatioPdf.errFix s.px * ax) (RatioPdf.errFix s.py * ay))
  pure (outLPs out.flatten ++ " " ++ outFs kappa.flatten)

/-- `stationangles <phase> <radians 0/1> n (az toa)×n` → `n×6` coefficients -/
def opStationAngles : P String := do
  let ph ← tok; let rad ← bool; let n ← nat
  let pts ← many n (do let a ← flt; let t ← flt; pure (a, t)); done
  match StationAngles.parsePhase ph with
  | none => pure "err:phase"
  | some p =>
    let rows := pts.map fun (a, t) =>
      if rad then StationAngles.coeffs p a t else StationAngles.coeffsDeg p a t
    pure (outFs rows.flatten)

/-- data dictionary: `ntypes (key nrows nm ne hasIpp (name az toa m[nm] e[ne] [ipp])×nrows)×ntypes` -/
def pData : P (List (Matrices.DataType Float)) := do
  let nt ← nat
  many nt (do
    let key ← tok; let nr ← nat; let nm ← nat; let ne ← nat; let hasIpp ← bool
    let rows ← many nr (do
      let name ← nat; let az ← flt; let toa ← flt
      let m ← flts nm; let e ← flts ne
      let ipp ← if hasIpp then (do let v ← flt; pure (some v)) else pure none
      pure ({ name := name, az := az, toa := toa, measured := m, error := e, ipp := ipp } : Matrices.Row Float))
    pure ({ key := key, rows := rows } : Matrices.DataType Float))

/-- location samples: `0` or `1 nnames names… nsamples (az toa)×nnames ×nsamples` -/
def pLoc : P (Option (Matrices.Loc Float)) := do
  let has ← bool
  if !has then pure none
  else
    let nn ← nat
    let names ← many nn nat
    let nsamp ← nat
    let samples ← many nsamp (many nn (do let a ← flt; let t ← flt; pure (a, t)))
    pure (some { names := names, samples := samples })

def outCoeffs (cs : List (List Float)) : String := outFs cs.flatten

def opPolMatrix : P String := do
  let data ← pData; let loc ← pLoc; done
  match Matrices.polarityMatrix data loc with
  | none => pure "err:phase"
  | some sts =>
    pure (s!"{sts.length} " ++ " ".intercalate (sts.map fun s =>
      s!"{s.coeffs.length} " ++ outFs [s.sigma, s.w] ++ " " ++ outCoeffs s.coeffs))

def opPolProbMatrix : P String := do
  let data ← pData; let loc ← pLoc; done
  match Matrices.polarityProbabilityMatrix data loc with
  | none => pure "err:phase"
  | some sts =>
    pure (s!"{sts.length} " ++ " ".intercalate (sts.map fun s =>
      s!"{s.coeffs.length} " ++ outFs [s.pp, s.pn, s.w] ++ " " ++ outCoeffs s.coeffs))

def opArMatrix : P String := do
  let data ← pData; let loc ← pLoc; done
  match Matrices.amplitudeRatioMatrix data loc with
  | none => pure "err:phase"
  | some sts =>
    pure (s!"{sts.length} " ++ " ".intercalate (sts.map fun s =>
      s!"{s.cx.length} " ++ outFs [s.ratio, s.px, s.py] ++ " " ++ outCoeffs s.cx ++ " " ++ outCoeffs s.cy))

/-- `forward <data> <loc> hasW [nw w…] marginalise returnZero nmt mts…`
    → `nkept idx… nrows ncols values… n` -/
def opForward : P String := do
  let data ← pData; let loc ← pLoc
  let hasW ← bool
  let ws ← if hasW then (do let n ← nat; let w ← flts n; pure (some w)) else pure none
  let marg ← bool; let rz ← bool
  let nm ← nat; let mts ← vec6s nm; done
  match Forward.dataOf data loc ws with
  | none => pure "err:phase"
  | some d =>
    let (idx, rows, n) := Forward.run d marg rz mts
    let ncols := (rows.headD []).length
    pure (s!"{idx.length} " ++ " ".intercalate (idx.map toString) ++ s!" {rows.length} {ncols} "
      ++ outLPs rows.flatten ++ s!" {n}")

/-- `sample init nops (k nrows nTried (tok sf vals[nrows])×k)×nops discard nSamples`
    → `n i cap nview toks… has [nk toks… sfs… probs… lnpdf…]` -/
def opSample : P String := do
  let init ← nat; let nops ← nat
  let batches ← many nops (do
    let k ← nat; let nr ← nat; let nt ← nat
    let cs ← many k (do
      let t ← nat; let sf ← nat; let col ← logps nr
      pure ({ tok := t, col := col, sf := sf } : SampleStore.Cand Float))
    pure (cs, nt))
  let discard ← flt; let nS ← flt; done
  let s := batches.foldl (fun s b => SampleStore.append s b.1 b.2) (SampleStore.empty init : SampleStore.Store Float)
  let v := SampleStore.view s
  let head := s!"{s.n} {s.i} {s.cols.length} {v.length} " ++ " ".intercalate (v.map fun x => toString x.1)
  match SampleStore.output s discard nS with
  | none => pure (head ++ " 0")
  | some o =>
    pure (head ++ s!" 1 {o.toks.length} " ++ " ".intercalate (o.toks.map toString) ++ " "
      ++ " ".intercalate (o.sf.map toString) ++ " " ++ outFs o.probability ++ " " ++ outLPs o.lnPdf)

/-- `iterstop maxSamples nb sizes…` → batches consumed -/
def opIterStop : P String := do
  let m ← nat; let nb ← nat; let bs ← many nb nat; done
  pure (toString (SampleStore.runIteration m 0 bs))

/-- `scat nlines (0 | 1 w | 2 | 3 name az toa)×nlines binSize nidx idx…`
    → `nrec (nst w (name az toa)×nst)×nrec` -/
def opScat : P String := do
  let nl ← nat
  let lines ← many nl (do
    let k ← nat
    match k with
    | 0 => pure (Scatangle.Line.blank : Scatangle.Line Float)
    | 1 => do let w ← flt; pure (Scatangle.Line.weight w)
    | 2 => pure Scatangle.Line.badWeight
    | _ => do let n ← nat; let a ← flt; let t ← flt; pure (Scatangle.Line.station n a t))
  let b ← flt
  let ni ← nat; let idx ← many ni nat; done
  let recs := Scatangle.parse lines
  let recs := if ni > 0 then Scatangle.subsample recs idx else recs
  let recs := Scatangle.bin b recs
  pure (s!"{recs.length} " ++ " ".intercalate (recs.map fun p =>
    s!"{p.1.length} " ++ outF p.2 ++ (String.join (p.1.map fun st => s!" {st.1} " ++ outFs [st.2.1, st.2.2]))))

def table : List (String × P String) := [
  ("scat", opScat),
  ("sample", opSample),
  ("iterstop", opIterStop),
  ("stationangles", opStationAngles),
  ("polmatrix", opPolMatrix),
  ("polprobmatrix", opPolProbMatrix),
  ("armatrix", opArMatrix),
  ("forward", opForward),
  ("ratiopdf", opRatioPdf),
  ("arpdf", opArPdf),
  ("arlnpdf", opArLnPdf),
  ("polprob", opPolProb),
  ("polprobp", opPolProbP),
  ("polpdf", opPolPdf),
  ("polprobpdf", opPolProbPdf),
  ("lnbe", opLnBE),
  ("modelprob", opModelProb),
  ("dklest", opDklEst),
  ("dkl", opDkl),
  ("erf", opErf),
  ("lnmarg", opLnMarg),
  ("lnnorm", opLnNorm)
]

def handle (line : String) : String :=
  match (line.splitOn " ").filter (· ≠ "") with
  | [] => "bad-op:empty"
  | op :: args =>
    match table.lookup op with
    | none => s!"bad-op:unknown:{op}"
    | some p =>
      match (p.run args) with
      | .ok (s, _) => s
      | .error e => e

end MTfitVerif.Driver
