import MTfitVerif.Driver.Proto
import MTfitVerif.Model.LogDomain
/- dispatch table of the executable model -/
namespace MTfitVerif.Driver
open MTfitVerif Proto

def opErf : P String := do
  let x ← flt; done
  pure (outF (Flt.erf x))

/-- `lnmarg axis nrows ncols dV v…` (row-major) -/
def opLnMarg : P String := do
  let axis ← nat; let nr ← nat; let nc ← nat; let dV ← flt
  let rows ← many nr (logps nc); done
  pure (outLPs (LogDomain.lnMarginalise rows nc axis dV))

/-- `lnnorm n dV v…` -/
def opLnNorm : P String := do
  let n ← nat; let dV ← flt
  let xs ← logps n; done
  pure (outLPs (LogDomain.lnNormalise xs dV))

def table : List (String × P String) := [
  ("erf", opErf),
  ("lnmarg", opLnMarg),
  ("lnnorm", opLnNorm)
]

def handle (line : String) : String :=
  match (line.splitOn " ").filter (· ≠ "") with
  | [] => "bad-op:empty"
  | op :: args =>
    match table.lookup op with
    | none => s!"bad-op:unknown:{op}"
    | some p =>
      match (p.run args) with
      | .ok (s, _) => s
      | .error e => e

end MTfitVerif.Driver
