import MTfitVerif.Driver.Proto
import MTfitVerif.Model.LogDomain
import MTfitVerif.Model.Evidence
import MTfitVerif.Model.Polarity
import MTfitVerif.Model.RatioPdf
import MTfitVerif.Model.Forward
import MTfitVerif.Model.SampleStore
import MTfitVerif.Model.Scatangle
import MTfitVerif.Model.Binary
import MTfitVerif.Model.Csv
import MTfitVerif.Model.Acceptance
import MTfitVerif.Model.Proposal
import MTfitVerif.Model.Chain
import MTfitVerif.Model.Potency
import MTfitVerif.Model.JobPool
import MTfitVerif.Model.RandomMT
import MTfitVerif.Model.PostProc
import MTfitVerif.Model.MultiEvent
import MTfitVerif.Driver.PyxOps
/- dispatch table of the executable model -/
namespace MTfitVerif.Driver
open MTfitVerif Proto

def opErf : P String := do
  let x ← flt; done
  pure (outF (Flt.erf x))

/-- `lnmarg axis nrows ncols dV v…` (row-major) -/
def opLnMarg : P String := do
  let axis ← nat; let nr ← nat; let nc ← nat; let dV ← flt
  let rows ← many nr (logps nc); done
  pure (outLPs (LogDomain.lnMarginalise rows nc axis dV))

/-- `lnnorm n dV v…` -/
def opLnNorm : P String := do
  let n ← nat; let dV ← flt
  let xs ← logps n; done
  pure (outLPs (LogDomain.lnNormalise xs dV))

/-- `lnbe n N v…` -/
def opLnBE : P String := do
  let n ← nat; let N ← flt
  let xs ← logps n; done
  pure (outLP (Evidence.lnBayesianEvidence xs N))

/-- `modelprob k e…` -/
def opModelProb : P String := do
  let k ← nat
  let es ← flts k; done
  pure (outFs (Evidence.modelProbabilities es))

/-- `dklest n V N v…` -/
def opDklEst : P String := do
  let n ← nat; let V ← flt; let N ← flt
  let xs ← logps n; done
  pure (outF (Evidence.dklEstimate xs V N))

/-- `dkl n dV p… q…` -/
def opDkl : P String := do
  let n ← nat; let dV ← flt
  let ps ← logps n; let qs ← logps n; done
  match Evidence.dkl (List.zip ps qs) dV with
  | some d => pure (outF d)
  | none => pure "err:undefined"

/-- `polprob A σ w` → probability -/
def opPolProb : P String := do
  let A ← flt; let σ ← flt; let w ← flt; done
  pure (outF (Polarity.polProb A σ w))

/-- `polprobp A p₊ p₋ w` → probability -/
def opPolProbP : P String := do
  let A ← flt; let pp ← flt; let pn ← flt; let w ← flt; done
  pure (outF (Polarity.polProbP A pp pn w))

def vec6s (n : Nat) : P (List (List Float)) := many n (flts 6)

/-- `polpdf nsta nloc nmt (σ w coeffs[nloc×6])×nsta mts[nmt×6]`
    → `nloc×nmt` log-likelihoods followed by `nloc×nmt` condition numbers `Σ_s 1/p_s` -/
def opPolPdf : P String := do
  let ns ← nat; let nl ← nat; let nm ← nat
  let sts ← many ns (do
    let σ ← flt; let w ← flt; let cs ← vec6s nl
    pure ({ coeffs := cs, sigma := σ, w := w } : Polarity.PolStation Float))
  let mts ← vec6s nm; done
  let out := Polarity.polarityLnPdf sts nl mts
  let kappa := (List.range nl).map fun k => mts.map fun mt =>
    sumL (sts.map fun s => 1.0 / Polarity.polProb (dot (s.coeffs.getD k []) mt) s.sigma s.w)
  pure (outLPs out.flatten ++ " " ++ outFs kappa.flatten)

/-- `polprobpdf nsta nloc nmt (p₊ p₋ w coeffs[nloc×6])×nsta mts[nmt×6]` → `nloc×nmt` log-likelihoods -/
def opPolProbPdf : P String := do
  let ns ← nat; let nl ← nat; let nm ← nat
  let sts ← many ns (do
    let pp ← flt; let pn ← flt; let w ← flt; let cs ← vec6s nl
    pure ({ coeffs := cs, pp := pp, pn := pn, w := w } : Polarity.PolProbStation Float))
  let mts ← vec6s nm; done
  pure (outLPs (Polarity.polarityProbabilityLnPdf sts nl mts).flatten)

/-- `ratiopdf z μx μy σx σy` → density and Hinkley's `c` (conditioning of the exponent) -/
def opRatioPdf : P String := do
  let z ← flt; let mx ← flt; let my ← flt; let sx ← flt; let sy ← flt; done
  pure (outFs [RatioPdf.ratioPdf z mx my sx sy, RatioPdf.coefC mx my sx sy])

/-- `arpdf r μx μy px py` → density and conditioning -/
def opArPdf : P String := do
  let r ← flt; let mx ← flt; let my ← flt; let px ← flt; let py ← flt; done
  let ax := Float.abs mx; let ay := Float.abs my
  pure (outFs [RatioPdf.arPdf r mx my px py,
    RatioPdf.coefC ax ay (RatioPdf.errFix px * ax) (RatioPdf.errFix py * ay)])

/-- `arlnpdf nsta nloc nmt (ratio px py cx[nloc×6] cy[nloc×6])×nsta mts[nmt×6]`
    → `nloc×nmt` log-likelihoods then `nloc×nmt` condition numbers `Σ_s c_s` -/
def opArLnPdf : P String := do
  let ns ← nat; let nl ← nat; let nm ← nat
  let sts ← many ns (do
    let r ← flt; let px ← flt; let py ← flt; let cx ← vec6s nl; let cy ← vec6s nl
    pure ({ cx := cx, cy := cy, ratio := r, px := px, py := py } : RatioPdf.ArStation Float))
  let mts ← vec6s nm; done
  let out := RatioPdf.amplitudeRatioLnPdf sts nl mts
  let kappa := (List.range nl).map fun k => mts.map fun mt =>
    sumL (sts.map fun s =>
      let ax := Float.abs (dot (s.cx.getD k []) mt); let ay := Float.abs (dot (s.cy.getD k []) mt)
      RatioPdf.coefC ax ay (RatioPdf.errFix s.px * ax) (RatioPdf.errFix s.py * ay))
  pure (outLPs out.flatten ++ " " ++ outFs kappa.flatten)

/-- `stationangles <phase> <radians 0/1> n (az toa)×n` → `n×6` coefficients -/
def opStationAngles : P String := do
  let ph ← tok; let rad ← bool; let n ← nat
  let pts ← many n (do let a ← flt; let t ← flt; pure (a, t)); done
  match StationAngles.parsePhase ph with
  | none => pure "err:phase"
  | some p =>
    let rows := pts.map fun (a, t) =>
      if rad then StationAngles.coeffs p a t else StationAngles.coeffsDeg p a t
    pure (outFs rows.flatten)

/-- data dictionary: `ntypes (key nrows nm ne hasIpp (name az toa m[nm] e[ne] [ipp])×nrows)×ntypes` -/
def pData : P (List (Matrices.DataType Float)) := do
  let nt ← nat
  many nt (do
    let key ← tok; let nr ← nat; let nm ← nat; let ne ← nat; let hasIpp ← bool
    let rows ← many nr (do
      let name ← nat; let az ← flt; let toa ← flt
      let m ← flts nm; let e ← flts ne
      let ipp ← if hasIpp then (do let v ← flt; pure (some v)) else pure none
      pure ({ name := name, az := az, toa := toa, measured := m, error := e, ipp := ipp } : Matrices.Row Float))
    pure ({ key := key, rows := rows } : Matrices.DataType Float))

/-- location samples: `0` or `1 nnames names… nsamples (az toa)×nnames ×nsamples` -/
def pLoc : P (Option (Matrices.Loc Float)) := do
  let has ← bool
  if !has then pure none
  else
    let nn ← nat
    let names ← many nn nat
    let nsamp ← nat
    let samples ← many nsamp (many nn (do let a ← flt; let t ← flt; pure (a, t)))
    pure (some { names := names, samples := samples })

def outCoeffs (cs : List (List Float)) : String := outFs cs.flatten

def opPolMatrix : P String := do
  let data ← pData; let loc ← pLoc; done
  match Matrices.polarityMatrix data loc with
  | none => pure "err:phase"
  | some sts =>
    pure (s!"{sts.length} " ++ " ".intercalate (sts.map fun s =>
      s!"{s.coeffs.length} " ++ outFs [s.sigma, s.w] ++ " " ++ outCoeffs s.coeffs))

def opPolProbMatrix : P String := do
  let data ← pData; let loc ← pLoc; done
  match Matrices.polarityProbabilityMatrix data loc with
  | none => pure "err:phase"
  | some sts =>
    pure (s!"{sts.length} " ++ " ".intercalate (sts.map fun s =>
      s!"{s.coeffs.length} " ++ outFs [s.pp, s.pn, s.w] ++ " " ++ outCoeffs s.coeffs))

def opArMatrix : P String := do
  let data ← pData; let loc ← pLoc; done
  match Matrices.amplitudeRatioMatrix data loc with
  | none => pure "err:phase"
  | some sts =>
    pure (s!"{sts.length} " ++ " ".intercalate (sts.map fun s =>
      s!"{s.cx.length} " ++ outFs [s.ratio, s.px, s.py] ++ " " ++ outCoeffs s.cx ++ " " ++ outCoeffs s.cy))

/-- `forward <data> <loc> hasW [nw w…] marginalise returnZero nmt mts…`
    → `nkept idx… nrows ncols values… n` -/
def opForward : P String := do
  let data ← pData; let loc ← pLoc
  let hasW ← bool
  let ws ← if hasW then (do let n ← nat; let w ← flts n; pure (some w)) else pure none
  let marg ← bool; let rz ← bool
  let nm ← nat; let mts ← vec6s nm; done
  match Forward.dataOf data loc ws with
  | none => pure "err:phase"
  | some d =>
    let (idx, rows, n) := Forward.run d marg rz mts
    let ncols := (rows.headD []).length
    pure (s!"{idx.length} " ++ " ".intercalate (idx.map toString) ++ s!" {rows.length} {ncols} "
      ++ outLPs rows.flatten ++ s!" {n}")

/-- `sample init nops (k nrows nTried (tok sf vals[nrows])×k)×nops discard nSamples`
    → `n i cap nview toks… has [nk toks… sfs… probs… lnpdf…]` -/
def opSample : P String := do
  let init ← nat; let nops ← nat
  let batches ← many nops (do
    let k ← nat; let nr ← nat; let nt ← nat
    let cs ← many k (do
      let t ← nat; let sf ← nat; let col ← logps nr
      pure ({ tok := t, col := col, sf := sf } : SampleStore.Cand Float))
    pure (cs, nt))
  let discard ← flt; let nS ← flt; done
  let s := batches.foldl (fun s b => SampleStore.append s b.1 b.2) (SampleStore.empty init : SampleStore.Store Float)
  let v := SampleStore.view s
  let head := s!"{s.n} {s.i} {s.cols.length} {v.length} " ++ " ".intercalate (v.map fun x => toString x.1)
  match SampleStore.output s discard nS with
  | none => pure (head ++ " 0")
  | some o =>
    pure (head ++ s!" 1 {o.toks.length} " ++ " ".intercalate (o.toks.map toString) ++ " "
      ++ " ".intercalate (o.sf.map toString) ++ " " ++ outFs o.probability ++ " " ++ outLPs o.lnPdf)

/-- `iterstop maxSamples nb sizes…` → batches consumed -/
def opIterStop : P String := do
  let m ← nat; let nb ← nat; let bs ← many nb nat; done
  pure (toString (SampleStore.runIteration m 0 bs))

/-- `scat nlines (0 | 1 w | 2 | 3 name az toa)×nlines binSize nidx idx…`
    → `nrec (nst w (name az toa)×nst)×nrec` -/
def opScat : P String := do
  let nl ← nat
  let lines ← many nl (do
    let k ← nat
    match k with
    | 0 => pure (Scatangle.Line.blank : Scatangle.Line Float)
    | 1 => do let w ← flt; pure (Scatangle.Line.weight w)
    | 2 => pure Scatangle.Line.badWeight
    | _ => do let n ← nat; let a ← flt; let t ← flt; pure (Scatangle.Line.station n a t))
  let b ← flt
  let ni ← nat; let idx ← many ni nat; done
  let recs := Scatangle.parse lines
  let recs := if ni > 0 then Scatangle.subsample recs idx else recs
  let recs := Scatangle.bin b recs
  pure (s!"{recs.length} " ++ " ".intercalate (recs.map fun p =>
    s!"{p.1.length} " ++ outF p.2 ++ (String.join (p.1.map fun st => s!" {st.1} " ++ outFs [st.2.1, st.2.2]))))

/-- `csv nlines line…` (hex strings) → events -/
def opCsv : P String := do
  let n ← nat; let lines ← many n str; done
  match Csv.parseCsv lines with
  | none => pure "err:classify"
  | some evs =>
    let row (r : Csv.Row) : String :=
      " ".intercalate ([outS r.name, outS r.takeoff, outS r.azimuth, toString r.measured.length] ++ r.measured.map outS
        ++ [toString r.error.length] ++ r.error.map outS)
    let typ (t : String × List Csv.Row) : String :=
      " ".intercalate ([outS t.1, toString t.2.length] ++ t.2.map row)
    let ev (e : Csv.Event) : String :=
      " ".intercalate ([outS e.uid, toString e.types.length] ++ e.types.map typ)
    pure (" ".intercalate ([toString evs.length] ++ evs.map ev))

/-- `hyp nlines (ntok tok…)…` → picks -/
def opHyp : P String := do
  let n ← nat
  let lines ← many n (do let k ← nat; many k str); done
  let ps := Csv.picks lines
  pure (" ".intercalate ([toString ps.length] ++ ps.map fun p =>
    " ".intercalate [outS p.station, outS p.phase, outS p.polarity, outS p.uncertainty, outS p.azimuth, outS p.takeoff]))

def pRecord : P (Binary.Record Float) := do
  let total ← nat; let conv ← bool; let lbe ← optFlt; let dkl ← optFlt; let ns ← nat
  let ss ← many ns (do
    let p ← flt; let lnp ← flt; let mt ← flts 6
    let cv ← if conv then flts 13 else pure []
    pure ({ p := p, lnp := lnp, mt := mt, conv := cv } : Binary.Sample Float))
  pure { total := total, converted := conv, lbe := lbe, dkl := dkl, samples := ss }

def outWord : Binary.Word Float → String
  | .q n => s!"Q{n}"
  | .b v => if v then "B1" else "B0"
  | .d none => "Dnan"
  | .d (some x) => "D" ++ outF x

def outOpt : Option Float → String
  | none => "nan"
  | some x => outF x

def outRecord (r : Binary.Record Float) : String :=
  " ".intercalate ([toString r.total, outB r.converted, outOpt r.lbe, outOpt r.dkl, toString r.samples.length]
    ++ r.samples.map fun s => outFs ([s.p, s.lnp] ++ s.mt ++ s.conv))

/-- `binwrite nrec record…` → the word stream -/
def opBinWrite : P String := do
  let n ← nat; let rs ← many n pRecord; done
  pure (" ".intercalate ((rs.flatMap Binary.write).map outWord))

/-- `binread nwords word…` → records -/
def opBinRead : P String := do
  let n ← nat
  let ws ← many n (do
    let t ← tok
    match t.toList with
    | 'Q' :: r => pure (Binary.Word.q ((String.ofList r).toNat?.getD 0) : Binary.Word Float)
    | 'B' :: r => pure (Binary.Word.b (r == ['1']))
    | 'D' :: r =>
      if r == ['n', 'a', 'n'] then pure (Binary.Word.d none)
      else pure (Binary.Word.d (some (Float.ofBits (UInt64.ofNat ((String.ofList r).toNat?.getD 0)))))
    | _ => throw "bad-op:word")
  done
  match Binary.read (n + 1) ws with
  | none => pure "err:malformed"
  | some rs => pure (" ".intercalate ([toString rs.length] ++ rs.map outRecord))

def pTape : P (Acceptance.Tape Float) := do
  let g ← flt; let d ← flt; let k ← flt; let h ← flt; let s ← flt
  pure { gamma := g, delta := d, kappa := k, h := h, sigma := s }

def pWidths : P (Acceptance.Widths Float) := do
  let g ← flt; let d ← flt; let k ← flt; let h ← flt; let s ← flt; let gd ← flt; let dd ← flt; let pn ← flt
  pure { gamma := g, delta := d, kappa := k, h := h, sigma := s, gammaDc := gd, deltaDc := dd, propNorm := pn }

def priorOf (kind : Nat) : Bool → Acceptance.Tape Float → Float :=
  if kind == 0 then Acceptance.uniformPrior else Acceptance.flatPrior

/-- `transpdf dc w x x1` -/
def opTransPdf : P String := do
  let dc ← bool; let w ← pWidths; let x ← pTape; let x1 ← pTape; done
  pure (outF (Acceptance.transPdf dc w x x1))

/-- `prior kind dc x` -/
def opPrior : P String := do
  let k ← nat; let dc ← bool; let x ← pTape; done
  pure (outF (priorOf k dc x))

/-- `acceptmh kind dc w xi x Lxi Lx` -/
def opAcceptMH : P String := do
  let k ← nat; let dc ← bool; let w ← pWidths; let xi ← pTape; let x ← pTape; let lxi ← logp; let lx ← logp; done
  pure (outF (Acceptance.acceptMH (priorOf k) dc w xi x lxi lx))

/-- `acceptmulti kind n (dc w xi x)×n Lxi Lx` -/
def opAcceptMulti : P String := do
  let k ← nat; let n ← nat
  let evs ← many n (do let dc ← bool; let w ← pWidths; let xi ← pTape; let x ← pTape; pure (dc, w, xi, x))
  let lxi ← logp; let lx ← logp; done
  pure (outF (Acceptance.acceptMulti (priorOf k) evs lxi lx))

/-- `jumpq w x` -/
def opJumpQ : P String := do
  let w ← pWidths; let x ← pTape; done
  pure (outF (Acceptance.jumpQ w x))

/-- `propnorm sg sd` -/
def opPropNorm : P String := do
  let sg ← flt; let sd ← flt; done
  pure (outF (Acceptance.propNormOf sg sd))

/-- `acceptjump dir kind w xi x pDc Lxi Lx` (dir 0: DC→MT, 1: MT→DC) -/
def opAcceptJump : P String := do
  let dir ← nat; let k ← nat; let w ← pWidths; let xi ← pTape; let x ← pTape; let p ← flt
  let lxi ← logp; let lx ← logp; done
  pure (outF (if dir == 0 then Acceptance.acceptJumpUp (priorOf k) w xi x p lxi lx
              else Acceptance.acceptJumpDown (priorOf k) w xi x p lxi lx))

/-- `decide u a` -/
def opDecide : P String := do
  let u ← flt; let a ← flt; done
  pure (outB (Acceptance.decide u a))

def outTape (x : Acceptance.Tape Float) : String := outFs [x.gamma, x.delta, x.kappa, x.h, x.sigma]

/-- `shift dc w ξ nz z…` → `1 γ δ κ h σ consumed` or `0` -/
def opShift : P String := do
  let dc ← bool; let w ← pWidths; let xi ← pTape; let n ← nat; let zs ← flts n; done
  match Proposal.shiftSample dc w xi zs with
  | none => pure "0"
  | some (x, rest) => pure (s!"1 " ++ outTape x ++ s!" {n - rest.length}")

/-- `transd dc p w ξ u nz z…` → `1 γ δ κ h σ jump consumed` or `0` -/
def opTransD : P String := do
  let dc ← bool; let p ← flt; let w ← pWidths; let xi ← pTape; let u ← flt; let n ← nat; let zs ← flts n; done
  match Proposal.transDSample dc p w xi u zs with
  | none => pure "0"
  | some (x, j, rest) => pure (s!"1 " ++ outTape x ++ " " ++ outB j ++ s!" {n - rest.length}")

/-- `jumpdraw w nz z…` → `1 γ δ consumed` or `0` -/
def opJumpDraw : P String := do
  let w ← pWidths; let n ← nat; let zs ← flts n; done
  match Proposal.jumpDraw w zs with
  | none => pure "0"
  | some (g, d, rest) => pure (s!"1 " ++ outFs [g, d] ++ s!" {n - rest.length}")

def pKeyed : P (List (String × Float)) := do
  let n ← nat
  many n (do let k ← str; let v ← flt; pure (k, v))

/-- `adapt minR maxR <max widths> <widths> oldRate nrates r…` → widths after every window -/
def opAdapt : P String := do
  let minR ← flt; let maxR ← flt; let maxW ← pKeyed; let ws ← pKeyed; let oldRate ← flt
  let n ← nat; let rates ← flts n; done
  let s0 : Proposal.AdaptState Float := { widths := ws, oldRate := oldRate, oldRatio := none, oldWidths := none }
  let (_, outs) := rates.foldl (fun (acc : Proposal.AdaptState Float × List String) r =>
      let s' := Proposal.adaptStep minR maxR maxW acc.1 r
      (s', acc.2 ++ [outFs (s'.widths.map (·.2))])) (s0, [])
  pure (" ".intercalate outs)

/-- `tapemt6 γ δ κ h σ` → six-vector -/
def opTapeMt6 : P String := do
  let x ← pTape; done
  let v := Convert.tapeToMt6 x.gamma x.delta x.kappa x.h x.sigma
  pure (outFs [v.a, v.b, v.c, v.d, v.e, v.f])

def pEntry : P Chain.Entry := do
  let t ← nat; let l ← nat; let d ← bool
  pure { tok := t, ln := l, isDc := d }

/-- `chain L W C x0 nev (A u tok ln dc | R n)…`
    → `consumed tried accepted pDc adaptCalls nchain (tok ln)…` (tried/accepted offset by +1 to stay unsigned) -/
def opChain : P String := do
  let L ← nat; let W ← nat; let C ← nat; let x0 ← pEntry; let n ← nat
  let evs ← many n (do
    let k ← tok
    if k == "A" then do let u ← nat; let e ← pEntry; pure (Chain.Event.accept u e)
    else do let m ← nat; pure (Chain.Event.reject m))
  done
  let (s, used) := evs.foldl (fun (acc : Chain.State × Nat) ev =>
      if Chain.finished acc.1 then acc else (Chain.step acc.1 ev, acc.2 + 1)) (Chain.init L W C x0, 0)
  pure (s!"{used} {s.tried + 1} {s.accepted + 1} {s.pDc} {s.adaptCalls} {s.chain.length} " ++
    " ".intercalate (s.chain.map fun e => s!"{e.tok} {e.ln}"))

open Convert in
def pV3 : P (V3 Float) := do let x ← flt; let y ← flt; let z ← flt; pure ⟨x, y, z⟩
open Convert in
def oV3 (v : V3 Float) : String := outFs [v.x, v.y, v.z]
open Convert in
def oSym (m : Sym3 Float) : String := outFs [m.xx, m.yy, m.zz, m.xy, m.xz, m.yz]
open Convert in
def oV6 (v : V6 Float) : String := outFs [v.a, v.b, v.c, v.d, v.e, v.f]

/-- Gaussian elimination with partial pivoting (driver only: stands in for `np.linalg.solve`) -/
def solveGauss (a : List (List Float)) (b : List Float) : List Float := Id.run do
  let n := b.length
  let mut m : Array (Array Float) := (List.zip a b).toArray.map fun (r, bi) => (r ++ [bi]).toArray
  for col in [0:n] do
    let mut piv := col
    for r in [col:n] do
      if Float.abs (m[r]!)[col]! > Float.abs (m[piv]!)[col]! then piv := r
    let tmp := m[col]!
    m := m.set! col m[piv]!
    m := m.set! piv tmp
    for r in [0:n] do
      if r != col then
        let f := (m[r]!)[col]! / (m[col]!)[col]!
        m := m.set! r ((m[r]!).mapIdx fun j v => v - f * (m[col]!)[j]!)
  pure ((List.range n).map fun i => (m[i]!)[n]! / (m[i]!)[i]!)

open Convert in
/-- `conv <name> args…`: the parameter conversions -/
def opConv : P String := do
  let name ← tok
  match name with
  | "mt33mt6" => do
    let v ← flts 6; done
    pure (oV6 (mt33ToMt6 ⟨v[0]!, v[1]!, v[2]!, v[3]!, v[4]!, v[5]!⟩))
  | "mt6mt33" => do
    let v ← flts 6; done
    pure (oSym (mt6ToMt33 ⟨v[0]!, v[1]!, v[2]!, v[3]!, v[4]!, v[5]!⟩))
  | "gde" => do let g ← flt; let d ← flt; done; pure (oV3 (gdToE g d))
  | "egd" => do let e ← pV3; done; let r := eToGd e; pure (outFs [r.1, r.2])
  | "sdrtnp" => do
    let s ← flt; let d ← flt; let r ← flt; done
    let (T, N, Pp) := sdrToTnp s d r
    pure (oV3 T ++ " " ++ oV3 N ++ " " ++ oV3 Pp)
  | "fptnp" => do
    let n ← pV3; let s ← pV3; done
    let (T, N, Pp) := fpToTnp n s
    pure (oV3 T ++ " " ++ oV3 N ++ " " ++ oV3 Pp)
  | "tpfp" => do let t ← pV3; let p ← pV3; done; let r := tpToFp t p; pure (oV3 r.1 ++ " " ++ oV3 r.2)
  | "fpsdr" => do let n ← pV3; let s ← pV3; done; let r := fpToSdr n s; pure (outFs [r.1, r.2.1, r.2.2])
  | "normalsd" => do let n ← pV3; done; let r := normalToSd n; pure (outFs [r.1, r.2])
  | "sdrsdr" => do let s ← flt; let d ← flt; let r ← flt; done; let q := sdrToSdr s d r; pure (outFs [q.1, q.2.1, q.2.2])
  | "sdrfp" => do let s ← flt; let d ← flt; let r ← flt; done; let q := sdrToFp s d r; pure (oV3 q.1 ++ " " ++ oV3 q.2)
  | "tnpsdr" => do let t ← pV3; let p ← pV3; done; let q := tnpToSdr t p; pure (outFs [q.1, q.2.1, q.2.2])
  | "tapemt33" => do let x ← pTape; done; pure (oSym (tapeToMt33 x.gamma x.delta x.kappa x.h x.sigma))
  | "eigtape" => do
    let t ← pV3; let p ← pV3; let e ← pV3; done
    let r := eigToTape t p e
    pure (outFs [r.1, r.2.1, r.2.2.1, r.2.2.2.1, r.2.2.2.2])
  | "etk" => do let e ← pV3; done; let r := eToTk e; pure (outFs [r.1, r.2])
  | "etksorted" => do let e ← pV3; done; let r := eToTk (sort3 e); pure (outFs [r.1, r.2])
  | "tkuv" => do let t ← flt; let k ← flt; done; let r := tkToUv t k; pure (outFs [r.1, r.2])
  | "cdcgd" => do let a ← flt; let nu ← flt; done; let r := cdcToGd a nu; pure (outFs [r.1, r.2])
  | "gdcdc" => do let g ← flt; let d ← flt; done; let r := gdToCdc g d; pure (outFs [r.1, r.2])
  | "isoc" => do let l ← flt; let m ← flt; done; pure (outFs (Potency.isotropicC l m))
  | "cvoigt" => do let cc ← flts 21; done; pure (outFs (Potency.cvoigt cc).flatten)
  | "cnorm" => do let cc ← flts 21; done; pure (outF (Potency.cNorm cc))
  | "mt6cd6" => do let cc ← flts 21; let m ← flts 6; done; pure (outFs (Potency.mt6cToD6 solveGauss cc m))
  | _ => pure "bad-op:conv"

/-- `jobpool nworkers nevents (S id kind | T w id | F w | C id | K | X | P w)…`
    → `ok|stuck:<index> numberJobs ntask nresult pills ncollected ids… nskipped ids… nworkers states…` -/
def opJobPool : P String := do
  let nw ← nat; let n ← nat
  let evs ← many n (do
    let k ← tok
    match k with
    | "S" => do
      let id ← nat; let kd ← nat
      pure (JobPool.Event.submit id (if kd == 0 then .ok else if kd == 1 then .raise else .code))
    | "T" => do let w ← nat; let id ← nat; pure (JobPool.Event.take w id)
    | "F" => do let w ← nat; pure (JobPool.Event.finish w)
    | "C" => do let id ← nat; pure (JobPool.Event.collect id)
    | "K" => pure JobPool.Event.clean
    | "X" => pure JobPool.Event.close
    | "P" => do let w ← nat; pure (JobPool.Event.takePill w)
    | _ => throw "bad-op:event")
  done
  let (s, stuck, _) := evs.foldl (fun (acc : JobPool.State × Option Nat × Nat) e =>
      match acc.2.1 with
      | some _ => acc
      | none =>
        match JobPool.step acc.1 e with
        | some s' => (s', none, acc.2.2 + 1)
        | none => (acc.1, some acc.2.2, acc.2.2)) (JobPool.init nw, none, 0)
  let st (w : JobPool.WState) : String := match w with
    | .idle => "i" | .running _ => "r" | .dead => "d" | .exited => "x"
  let head := match stuck with | none => "ok" | some i => s!"stuck:{i}"
  pure (s!"{head} {s.numberJobs} {s.taskQ.length} {s.resultQ.length} {s.pills} {s.collected.length} " ++
    " ".intercalate (s.collected.reverse.map toString) ++ s!" {s.skipped.length} " ++
    " ".intercalate (s.skipped.reverse.map toString) ++ s!" {s.workers.length} " ++ " ".intercalate (s.workers.map st))

open Convert in
/-- `random mt v6 | dc a x | clvd u a x` → six-vector -/
def opRandom : P String := do
  let k ← tok
  match k with
  | "mt" => do let v ← flts 6; done; pure (oV6 (RandomMT.randomMt ⟨v[0]!, v[1]!, v[2]!, v[3]!, v[4]!, v[5]!⟩))
  | "dc" => do let a ← pV3; let x ← pV3; done; pure (oV6 (RandomMT.randomType RandomMT.dcDiag a x))
  | "clvd" => do let u ← flt; let a ← pV3; let x ← pV3; done; pure (oV6 (RandomMT.randomType (RandomMT.clvdDiag u) a x))
  | _ => pure "bad-op:random"

/-- `post mean n (p m×6)…` | `post maxidx n p…` | `post unique n tok…` | `post select n nidx idx…`
    | `post project area lower full back x y z` -/
def opPost : P String := do
  let k ← tok
  match k with
  | "mean" => do
    let n ← nat
    let rows ← many n (do let p ← flt; let m ← flts 6; pure (p, m)); done
    pure (outFs (PostProc.meanMt (rows.map (·.2)) (rows.map (·.1))))
  | "maxidx" => do
    let n ← nat; let ps ← flts n; done
    pure (" ".intercalate ((PostProc.maxProbIdx ps).map toString))
  | "unique" => do
    let n ← nat; let ts ← many n nat; done
    pure (" ".intercalate ((PostProc.uniqueCounts ts).map fun p => s!"{p.1} {p.2}"))
  | "select" => do
    let n ← nat; let ni ← nat; let idx ← many ni nat; done
    match PostProc.select (List.range n) idx with
    | none => pure "err:index"
    | some r => pure (" ".intercalate (r.map toString))
  | "project" => do
    let area ← bool; let lower ← bool; let full ← bool; let back ← bool; let x ← flt; let y ← flt; let z ← flt; done
    match PostProc.project area lower full back x y z with
    | none => pure "nan"
    | some (a, b) => pure (outFs [a, b])
  | _ => pure "bad-op:post"

/-! ### C15 — joint multiple-event task -/

def pRelObs : P (MultiEvent.RelObs Float) := do
  let name ← nat; let a ← flts 6; let amp ← flt; let err ← flt
  pure { name := name, a := a, amp := amp, err := err }

instance : Inhabited (MultiEvent.Event Float) := ⟨{ ln := LogP.negInf, mt := [], rel := [] }⟩

def pEvent : P (MultiEvent.Event Float) := do
  let ln ← logp; let mt ← flts 6; let n ← nat; let rel ← many n pRelObs
  pure { ln := ln, mt := mt, rel := rel }

/-- `joint <relative> <minInt> <E> events…` → total, then for every pair `i > j` (in loop order)
    `<n shared> <has scale> <scale> <uncertainty>` -/
def opJoint : P String := do
  let relative ← bool; let minInt ← nat; let ne ← nat
  let evs ← many ne pEvent
  done
  let total := MultiEvent.joint relative minInt evs
  let mut out := outLP total
  for i in [0:evs.length] do
    for j in [0:i] do
      let ei := evs[i]!
      let ej := evs[j]!
      let n := (MultiEvent.pairs ei.rel ej.rel).length
      match MultiEvent.pairScale minInt ei ej with
      | some (sc, u) => out := out ++ s!" {n} 1 " ++ outFs [sc, u]
      | none => out := out ++ s!" {n} 0 0 0"
  pure out

def opScaleEst : P String := do
  let r ← flt; let mx ← flt; let my ← flt; let ex ← flt; let ey ← flt
  done
  let q := MultiEvent.stationScale r mx my ex ey
  pure (outFs [q.1, q.2])

def opCombineMu : P String := do
  let n ← nat
  let xs ← many n (do let m ← flt; let sd ← flt; pure (m, sd))
  done
  match MultiEvent.combineMu xs with
  | none => pure "none"
  | some (m, sd) => pure (outFs [m, sd])


/-! ### C20 — kernels translated from the Cython sources -/

/-- `pyx <module.kernel> args…` → the kernel's results -/
def opPyx : P String := do
  let name ← tok
  match pyxTable.lookup name with
  | none => pure s!"bad-op:unknown-kernel:{name}"
  | some (n, f) =>
    let a ← flts n
    done
    pure (outFs (f a))

/-- `pyxl <module.kernel> <n> <narr> {arr: n floats}* <nscal> scalars…` → results of a translated array reduction -/
def opPyxLoop : P String := do
  let name ← tok
  let n ← nat
  let na ← nat
  let arrs ← many na (flts n)
  let ns ← nat
  let sc ← flts ns
  done
  match pyxLoopTable.lookup name with
  | none => pure s!"bad-op:unknown-kernel:{name}"
  | some f => pure (outFs (f arrs sc n))

/-- `pyxi <module.kernel> <narr> {<len> floats…}* <nscal> scalars… <nnat> nats…` → the result arrays of a translated array kernel
    (nested loops), each as `<len> floats…` -/
def opPyxImp : P String := do
  let name ← tok
  let na ← nat
  let arrs ← many na (do let n ← nat; let xs ← flts n; pure xs.toArray)
  let ns ← nat
  let sc ← flts ns
  let nn ← nat
  let nats ← many nn nat
  done
  match pyxImpTable.lookup name with
  | none => pure s!"bad-op:unknown-kernel:{name}"
  | some f =>
    let rs := f arrs sc nats
    pure (" ".intercalate (rs.map fun r => if r.size == 0 then "0" else s!"{r.size} " ++ outFs r.toList))

def table : List (String × P String) := [
  ("pyxi", opPyxImp),
  ("pyxl", opPyxLoop),
  ("pyx", opPyx),
  ("joint", opJoint),
  ("scaleest", opScaleEst),
  ("combinemu", opCombineMu),
  ("post", opPost),
  ("random", opRandom),
  ("jobpool", opJobPool),
  ("conv", opConv),
  ("shift", opShift),
  ("transd", opTransD),
  ("jumpdraw", opJumpDraw),
  ("adapt", opAdapt),
  ("tapemt6", opTapeMt6),
  ("chain", opChain),
  ("transpdf", opTransPdf),
  ("prior", opPrior),
  ("acceptmh", opAcceptMH),
  ("acceptmulti", opAcceptMulti),
  ("jumpq", opJumpQ),
  ("propnorm", opPropNorm),
  ("acceptjump", opAcceptJump),
  ("decide", opDecide),
  ("csv", opCsv),
  ("hyp", opHyp),
  ("binwrite", opBinWrite),
  ("binread", opBinRead),
  ("scat", opScat),
  ("sample", opSample),
  ("iterstop", opIterStop),
  ("stationangles", opStationAngles),
  ("polmatrix", opPolMatrix),
  ("polprobmatrix", opPolProbMatrix),
  ("armatrix", opArMatrix),
  ("forward", opForward),
  ("ratiopdf", opRatioPdf),
  ("arpdf", opArPdf),
  ("arlnpdf", opArLnPdf),
  ("polprob", opPolProb),
  ("polprobp", opPolProbP),
  ("polpdf", opPolPdf),
  ("polprobpdf", opPolProbPdf),
  ("lnbe", opLnBE),
  ("modelprob", opModelProb),
  ("dklest", opDklEst),
  ("dkl", opDkl),
  ("erf", opErf),
  ("lnmarg", opLnMarg),
  ("lnnorm", opLnNorm)
]

def handle (line : String) : String :=
  match (line.splitOn " ").filter (· ≠ "") with
  | [] => "bad-op:empty"
  | op :: args =>
    match table.lookup op with
    | none => s!"bad-op:unknown:{op}"
    | some p =>
      match (p.run args) with
      | .ok (s, _) => s
      | .error e => e

end MTfitVerif.Driver
